"""Shared generators / implementation runners / Coq printers for the extension algebra
(model: coq/Ext/Model.v, glue: coq/Ext/Corr.v).  Used by the plugins of C03..C08, C13.

JSON form of an extension ("E"):
    {"shape": [..], "sdim": int|None, "aff": [[float]*4]*4,        # affine entries are dyadic floats
     "ht": bool, "hv": bool,                                        # 'time' / 'vector' base dicts present
     "entries": [[key, CLASSNAME, [values...]], ...]}               # sorted by key; a constant is a 1-list
CLASSNAME in CLASSES (Coq constructor names of Ext.Types.cls).

The dense reference semantics (`den`, `dims`) below is written from the documented layout only
(slice index fastest, then time, then vector) and is independent of the Coq model: the property
oracles compare every lookup of a real result with it.

The random streams DO enter the regions of the open findings N1..N4 (trailing-singleton shapes, merges along
time / vector without a slice dimension); `finding_sig_subset` / `finding_sig_merge` re-derive the exact MECHANISM
of each finding from the case and the observation (exception class + the missing dictionary of a KeyError; never
message text), so those failures stay KNOWN while any other defect in the same region gets another signature.
Oracles are written from the property texts against GENERATOR truth (never against the result's own header) and
collect all clause messages, preferring one that is not a known finding."""
import os, sys, re, copy, itertools
from fractions import Fraction

from vlib.coqlit import cnat, cz, cbool, clist, copt, cpair, cstr, cq, cjv

CLASSES = ['GConst', 'GSlices', 'TSamples', 'TSlices', 'VSamples', 'VSlices']          # classifications order
PYCLS = {'GConst': ('global', 'const'), 'GSlices': ('global', 'slices'), 'TSamples': ('time', 'samples'),
         'TSlices': ('time', 'slices'), 'VSamples': ('vector', 'samples'), 'VSlices': ('vector', 'slices')}
CLSNAME = {v: k for k, v in PYCLS.items()}
PREF = ['GConst', 'VSamples', 'TSamples', 'TSlices', 'VSlices', 'GSlices']            # preference order (C06)
ERRMAP = {'ValueError': 'EValue', 'IndexError': 'EIndex', 'KeyError': 'EKey', 'TypeError': 'EType',
          'AttributeError': 'EAttr'}

# ------------------------------------------------------------------------------------------ reference semantics

def class_ok(shape, c):
    n, base = len(shape), PYCLS[c][0]
    if n == 3:
        return base == 'global'
    if n == 4:
        return base in ('global', 'time')
    if n == 5:
        return base != 'time' or shape[3] != 1
    return False


def dims(E):
    sh = E['shape']
    S = sh[E['sdim']] if E['sdim'] is not None else 1
    return (S, sh[3] if len(sh) > 3 else 1, sh[4] if len(sh) > 4 else 1)


def cidx(d, c, p):
    (S, T, V), (s, t, v) = d, p
    return {'GConst': 0, 'GSlices': s + S * (t + T * v), 'TSamples': t + T * v, 'VSamples': v, 'TSlices': s,
            'VSlices': s + S * t}[c]


def mult(d, c):
    S, T, V = d
    return {'GConst': 1, 'GSlices': S * T * V, 'TSamples': T * V, 'VSamples': V, 'TSlices': S, 'VSlices': S * T}[c]


def grid(d):
    S, T, V = d
    return [(s, t, v) for v in range(V) for t in range(T) for s in range(S)]


def entry_map(E):
    return {k: (c, vs) for k, c, vs in E['entries']}


def den(E, k, p, drop_slices=False):
    """Value of key k at position p (None when absent / class not admitted / out of range)."""
    ent = entry_map(E).get(k)
    if ent is None:
        return None
    c, vs = ent
    if not class_ok(E['shape'], c) or (drop_slices and PYCLS[c][1] == 'slices'):
        return None
    i = cidx(dims(E), c, p)
    return vs[i] if 0 <= i < len(vs) else None


def keys_of(*Es):
    out = []
    for E in Es:
        for k, _, _ in E['entries']:
            if k not in out:
                out.append(k)
    return out


def slice_normal(E):
    """ROW [slice dim, :3] of the affine: what the code calls the slice normal (open finding N13: not the direction)."""
    return None if E['sdim'] is None else [Fraction(x) for x in E['aff'][E['sdim']][:3]]


def slice_direction(E):
    """COLUMN [:3, slice dim] of the affine: the direction in which the slice axis runs (the spec)."""
    return None if E['sdim'] is None else [Fraction(E['aff'][r][E['sdim']]) for r in range(3)]


def keep_slices(T, E, how='dir'):
    """Is the per-slice metadata of input E usable in a result with header T (dicts with 'aff', 'sdim')?
    how='dir': slice DIRECTIONS agree (spec); how='row': the code's row test."""
    f = slice_direction if how == 'dir' else slice_normal
    a, b = f(T), f(E)
    return a is not None and b is not None and allclose(a, b)


N13_TAG = '[row-vs-column]'
N13_SIG = 'lookup/slice-direction-row-vs-column'


def n13_tagged(msg):
    return bool(msg) and N13_TAG in msg


def layout_problems(E, what='result'):
    """Format rules the lookups rest on, checked here and NOT taken from check_valid: every key once, under a class the
    shape admits, with exactly the number of values of that class."""
    out, seen, d = [], set(), dims(E)
    for k, c, vs in E['entries']:
        if k in seen:
            out.append('%s: key %r stored twice' % (what, k))
        seen.add(k)
        if not class_ok(E['shape'], c):
            out.append('%s: key %r under %s, which shape %r does not admit' % (what, k, c, E['shape']))
        elif PYCLS[c][1] == 'slices' and E['sdim'] is None:
            out.append('%s: key %r per slice without a slice dimension' % (what, k))
        elif len(vs) != mult(d, c):
            out.append('%s: key %r has %d values under %s, expected %d' % (what, k, len(vs), c, mult(d, c)))
    return out


def known_signatures(pid):
    """Signatures of the `open:` lines of known-findings.txt for property pid."""
    path = os.path.join(os.path.dirname(os.path.dirname(os.path.abspath(__file__))), 'known-findings.txt')
    out = set()
    try:
        for line in open(path):
            m = re.match(r'open:\s+property=(\S+)\s+sig=(\S+)', line.strip())
            if m and m.group(1) == pid:
                out.add(m.group(2))
    except OSError:
        pass
    return out


def prefer_unknown(msgs, sigfun, known):
    """One message out of many: the first whose signature is not a known finding, else the first."""
    msgs = [m for m in msgs if m]
    for m in msgs:
        if sigfun(m) not in known:
            return m
    return msgs[0] if msgs else None


def allclose(a, b, rtol=Fraction(1, 100000), atol=Fraction(1, 100000000)):
    return len(a) == len(b) and all(abs(x - y) <= atol + rtol * abs(y) for x, y in zip(a, b))


def is_nondegenerate(E):
    d = dims(E)
    return all(c == 'GConst' or mult(d, c) != 1 for _, c, _ in E['entries'])


def representable(d, c, f):
    seen = {}
    for p in grid(d):
        i = cidx(d, c, p)
        v = f(p)
        if i in seen and seen[i] != v:
            return False
        seen.setdefault(i, v)
    return True


def canon_class(shape, d, f):
    for c in PREF:
        if class_ok(shape, c) and representable(d, c, f):
            return c
    return None


# ------------------------------------------------------------------------------------------ implementation side

def _imports():
    import warnings
    warnings.simplefilter('ignore')
    import numpy as np
    from dcmstack import dcmmeta
    return np, dcmmeta


def build_ext(E):
    """JSON form -> real DcmMetaExtension (make_empty + filling the class dicts)."""
    np, dcmmeta = _imports()
    ext = dcmmeta.DcmMetaExtension.make_empty(tuple(E['shape']), np.array(E['aff'], dtype=float), None, E['sdim'])
    for k, c, vs in E['entries']:
        base, sub = PYCLS[c]
        ext._content[base][sub][k] = copy.deepcopy(vs[0] if c == 'GConst' else list(vs))
    return ext


def _plain(o):
    """numpy scalars / tuples -> plain JSON values."""
    np, _ = _imports()
    if isinstance(o, (np.integer,)):
        return int(o)
    if isinstance(o, (np.floating,)):
        return float(o)
    if isinstance(o, (list, tuple)):
        return [_plain(x) for x in o]
    if isinstance(o, dict):
        return {str(k): _plain(v) for k, v in o.items()}
    return o


def ext_to_json(ext):
    """Real extension -> canonical JSON form (entries sorted by key).  Raises AbstractionError when the
    content cannot be abstracted (a key in two class dicts, a non-list under a varying class, entries under a
    class that is not valid for the shape)."""
    c = ext._content
    shape = [int(x) for x in c['dcmmeta_shape']]
    E = {'shape': shape, 'sdim': None if c['dcmmeta_slice_dim'] is None else int(c['dcmmeta_slice_dim']),
         'aff': [[float(x) for x in row] for row in c['dcmmeta_affine']],
         'ht': 'time' in c, 'hv': 'vector' in c, 'entries': []}
    seen = set()
    for name in CLASSES:
        base, sub = PYCLS[name]
        if base not in c:
            continue
        for k, v in c[base][sub].items():
            if k in seen:
                raise AbstractionError('key %r is in two classifications' % k)
            seen.add(k)
            if not class_ok(shape, name):
                raise AbstractionError('key %r sits in %s which is not valid for shape %r' % (k, name, shape))
            if name == 'GConst':
                vs = [_plain(v)]
            else:
                if not isinstance(v, list):
                    raise AbstractionError('key %r in %s holds a bare value' % (k, name))
                vs = _plain(v)
            E['entries'].append([k, name, vs])
    E['entries'].sort(key=lambda e: e[0])
    return E


class AbstractionError(ValueError):
    """The content of a real extension cannot be abstracted (key in two classes, bare value under a varying class ...).
    (A ValueError whose text starts with 'abs:' for the sake of older callers; classify with isinstance.)"""
    def __init__(self, msg):
        ValueError.__init__(self, 'abs: ' + msg)


def exc_obs(e):
    """Observation of an exception: enum for the Coq side, class name (by isinstance for the built-in classes), and for
    a KeyError the missing key (e.args[0]).  `msg` is informational only -- nothing may classify by it."""
    if isinstance(e, AbstractionError):
        name = 'Abstraction'
    else:
        name = type(e).__name__
        for cls in (KeyError, IndexError, ValueError, TypeError, AttributeError):
            if isinstance(e, cls):
                name = cls.__name__
                break
    key = e.args[0] if isinstance(e, KeyError) and e.args and isinstance(e.args[0], str) else None
    return {'err': ERRMAP.get(name, 'ECrash'), 'exc': name, 'exc_key': key, 'msg': str(e)[:200]}


def _guard(f):
    try:
        return f()
    except Exception as e:          # noqa: BLE001  (every Exception is an observation; CaseTimeout is a BaseException)
        return exc_obs(e)


def run_subset(case):
    """case: {"ext": E, "dim": int, "idx": int} -> {"ext": E'} | {"err": enum, "exc": class name}.
    Also reports whether the input was left untouched (C13)."""
    def go():
        ext = build_ext(case['ext'])
        before = ext_to_json(ext)
        r = ext.get_subset(case['dim'], case['idx'])
        out = {'ext': ext_to_json(r)}
        out['input_untouched'] = ext_to_json(ext) == before
        try:
            r.check_valid()
            out['valid'] = True
        except Exception as e:      # noqa: BLE001
            out['valid'] = False
        return out
    return _guard(go)


def run_merge(case):
    """case: {"exts": [E..], "dim": int, "aff": A|None, "sdim_arg": int|None}."""
    def go():
        np, dcmmeta = _imports()
        exts = [build_ext(E) for E in case['exts']]
        before = [ext_to_json(x) for x in exts]
        aff = None if case.get('aff') is None else np.array(case['aff'], dtype=float)
        try:
            r = dcmmeta.DcmMetaExtension.from_sequence(exts, case['dim'], aff, case.get('sdim_arg'))
        finally:
            untouched = [ext_to_json(x) for x in exts] == before
        out = {'ext': ext_to_json(r), 'input_untouched': untouched}
        try:
            r.check_valid()
            out['valid'] = True
        except Exception:           # noqa: BLE001
            out['valid'] = False
        return out
    return _guard(go)


def build_wrapper(E, img):
    """A real NiftiWrapper over an image with the given shape / slice dim_info / affine, carrying ext E."""
    np, dcmmeta = _imports()
    import nibabel as nb
    nii = nb.Nifti1Image(np.zeros(tuple(img['shape']), dtype=np.int16), np.array(img['aff'], dtype=float))
    nii.header.set_dim_info(slice=img['slice'])
    ext = build_ext(E)
    nii.header.extensions.append(ext)
    return dcmmeta.NiftiWrapper(nii)


def run_lookup(case):
    """case: {"ext": E, "img": {"shape","slice","aff"}, "key": k, "index": [ints]|None, "default": v}
    -> {"val": ..}|{"err":..} for get_meta, "mv": meta_valid per class, "item": wrapper[key] (val/err)."""
    w = build_wrapper(case['ext'], case['img'])
    idx = None if case['index'] is None else tuple(case['index'])

    def gm():
        return {'val': _plain(w.get_meta(case['key'], idx, copy.deepcopy(case['default'])))}

    def gi():
        return {'val': _plain(w[case['key']])}
    out = {'get': _guard(gm), 'item': _guard(gi), 'mv': []}
    for name in CLASSES:
        try:
            out['mv'].append(bool(w.meta_valid(PYCLS[name])))
        except Exception as e:      # noqa: BLE001
            out['mv'].append('exc:' + type(e).__name__)
    return out


# ------------------------------------------------------------------------------------------ Coq printers

def caff(a):
    return clist(clist(cq(float(x)) for x in row) for row in a)


def hdr_to_coq(E):
    return '(mk_hdr %s %s %s %s %s)' % (clist(cnat(x) for x in E['shape']), copt(E['sdim'], cnat), caff(E['aff']),
                                        cbool(E['ht']), cbool(E['hv']))


def ext_to_coq(E):
    ents = clist(cpair(cstr(k), cpair(c, clist(cjv(v) for v in vs))) for k, c, vs in E['entries'])
    return '(mk_ext %s %s)' % (hdr_to_coq(E), ents)


def obs_to_coq(obs):
    """Observation of run_subset / run_merge -> [res jext]."""
    if 'ext' in obs:
        return '(Ok %s)' % ext_to_coq(obs['ext'])
    return '(Err %s)' % obs.get('err', 'ECrash')


def resjv_to_coq(o):
    return '(Ok %s)' % cjv(o['val']) if 'val' in o else '(Err %s)' % o.get('err', 'ECrash')


def subset_case_to_coq(case, obs):
    return '(mk_subset_case %s %s %s %s)' % (ext_to_coq(case['ext']), cnat(case['dim']), cnat(case['idx']), obs_to_coq(obs))


def merge_case_to_coq(case, obs):
    return '(mk_merge_case %s %s %s %s %s)' % (clist(ext_to_coq(E) for E in case['exts']), cnat(case['dim']),
                                               copt(case.get('aff'), caff), copt(case.get('sdim_arg'), cnat), obs_to_coq(obs))


def img_to_coq(img):
    return '(mk_img %s %s %s)' % (clist(cnat(x) for x in img['shape']), copt(img['slice'], cnat), caff(img['aff']))


def lookup_case_to_coq(case, obs):
    mv = [m if isinstance(m, bool) else False for m in obs['mv']]
    return '(mk_lookup_case %s %s %s %s %s %s %s %s)' % (
        img_to_coq(case['img']), ext_to_coq(case['ext']), cstr(case['key']),
        copt(case['index'], lambda ix: clist(cz(i) for i in ix)), cjv(case['default']),
        resjv_to_coq(obs['get']), clist(cbool(b) for b in mv), resjv_to_coq(obs['item']))


# ------------------------------------------------------------------------------------------ generators

def gen_affine(rng, kind='any'):
    """4x4 affine with small dyadic entries; row i [:3] is what the code calls the slice normal for sdim = i."""
    k = kind if kind != 'any' else rng.choice(['diag', 'perm', 'dense'])
    if k == 'diag':
        m = [[0.0] * 3 for _ in range(3)]
        for i in range(3):
            m[i][i] = rng.choice([1.0, 2.0, 0.5, -1.0, 1.5, 3.0])
    elif k == 'perm':
        perm = rng.sample(range(3), 3)
        m = [[0.0] * 3 for _ in range(3)]
        for i in range(3):
            m[i][perm[i]] = rng.choice([1.0, -1.0, 2.0, 0.5])
    else:
        while True:
            m = [[rng.choice([0.0, 0.5, 1.0, -1.0, 2.0, -0.5, 0.25]) for _ in range(3)] for _ in range(3)]
            det = (m[0][0] * (m[1][1] * m[2][2] - m[1][2] * m[2][1]) - m[0][1] * (m[1][0] * m[2][2] - m[1][2] * m[2][0])
                   + m[0][2] * (m[1][0] * m[2][1] - m[1][1] * m[2][0]))
            if det != 0:
                break
    tr = [rng.choice([0.0, -8.0, 10.5, 3.0]) for _ in range(3)]
    return [m[i] + [tr[i]] for i in range(3)] + [[0.0, 0.0, 0.0, 1.0]]


def other_normal_affine(rng, aff, sdim):
    """An affine whose slice ROW and slice COLUMN both differ clearly from aff's (entry [sdim][sdim] lies on both), so
    that the code's row test and the direction test decide alike (row-vs-column disagreements are open finding N13)."""
    a = copy.deepcopy(aff)
    a[sdim][sdim] = a[sdim][sdim] + rng.choice([1.0, -1.0, 0.5, 2.0])
    return a


def translated_affine(rng, aff):
    a = copy.deepcopy(aff)
    for r in range(3):
        a[r][3] = a[r][3] + rng.choice([0.0, 4.0, -2.5, 16.0])
    return a


def gen_shape(rng, tier, ndim=None, sdim='any', force=None, trailing1=0.0):
    """-> (shape, sdim).  S,T,V in 1..hi (hi = 3 quick / 4 thorough).  A 4-D / 5-D shape ends in a singleton dim only
    with probability `trailing1` (default 0: region of the open findings N1/N2/N4) or when `force` (dict axis -> extent)
    says so."""
    hi = 3 if tier == 'quick' else 4
    ndim = ndim or rng.choice([3, 4, 4, 5, 5, 5])
    if sdim == 'any':
        sdim = rng.choice([0, 1, 2, 2, None]) if rng.random() < 0.9 else None
    sh = [rng.randint(1, 3) for _ in range(3)]
    if sdim is not None:
        sh[sdim] = rng.randint(1, hi)
    if ndim >= 4:
        sh.append(rng.randint(1, hi))
    if ndim == 5:
        sh.append(rng.randint(1, hi))
    for ax, n in (force or {}).items():
        sh[ax] = n
    if ndim > 3 and not (force and (ndim - 1) in force):
        if rng.random() < trailing1:
            sh[-1] = 1
        elif sh[-1] == 1:
            sh[-1] = rng.randint(2, hi)
    return sh, sdim


ATOM_KINDS = ['int', 'int', 'str', 'float', 'list', 'nested', 'bool']


def gen_alphabet(rng, kind=None, n=None):
    kind = kind or rng.choice(ATOM_KINDS)
    n = n or rng.randint(2, 4)
    if kind == 'int':
        pool = [0, 1, 2, 3, 7, -5, 100, 65536]
    elif kind == 'str':
        pool = ['', 'a', 'b', 'ab', 'AX', 'Müller', 'x y', '1']
    elif kind == 'float':
        pool = [0.5, 1.5, -2.25, 3.75, 1e-3, 2.5e10]
    elif kind == 'bool':
        pool = [True, False]
    elif kind == 'list':
        pool = [[1, 2], [1, 2, 3], [], ['a', 'b'], [0.5], [[1], [2]]]
    else:
        pool = [{'a': 1}, {'a': [1, {'b': None}]}, {'k': 'v', 'n': [1, 2]}, [{'x': 1}, None], {}]
    return rng.sample(pool, min(n, len(pool)))


BASE_PATTERNS = ['const', 'vec', 'time', 'vol', 'slice', 'slice_time', 'irregular', 'none_heavy', 'const_none_some',
                 'late_change', 'late_change']
PATTERNS = BASE_PATTERNS + ['merge_axis', 'first_two_equal']


def gen_fn(rng, d, pattern=None, alphabet=None, axis=None):
    """A total function p=(s,t,v) -> value over the grid d=(S,T,V), as a dict."""
    S, T, V = d
    pattern = pattern or rng.choice(PATTERNS)
    al = alphabet or gen_alphabet(rng)

    def pick():
        return copy.deepcopy(rng.choice(al))
    if pattern == 'const':
        c = pick()
        f = {p: c for p in grid(d)}
    elif pattern == 'vec':
        tab = [pick() for _ in range(V)]
        f = {p: tab[p[2]] for p in grid(d)}
    elif pattern == 'time':
        tab = [pick() for _ in range(T)]
        f = {p: tab[p[1]] for p in grid(d)}
    elif pattern == 'vol':
        tab = {(t, v): pick() for t in range(T) for v in range(V)}
        f = {p: tab[(p[1], p[2])] for p in grid(d)}
    elif pattern == 'slice':
        tab = [pick() for _ in range(S)]
        f = {p: tab[p[0]] for p in grid(d)}
    elif pattern == 'slice_time':
        tab = {(s, t): pick() for s in range(S) for t in range(T)}
        f = {p: tab[(p[0], p[1])] for p in grid(d)}
    elif pattern == 'none_heavy':
        f = {p: (None if rng.random() < 0.7 else pick()) for p in grid(d)}
    elif pattern == 'const_none_some':
        c = pick()
        f = {p: c for p in grid(d)}
        for p in rng.sample(grid(d), max(1, len(f) // 4)):
            f[p] = None
    elif pattern == 'late_change':
        # equal over the first periods, different only at the far end of one axis (kills "first two periods" tests)
        base = gen_fn(rng, d, rng.choice(['const', 'slice', 'time', 'vec']), alphabet=al)
        f = dict(base)
        ax = rng.randrange(3)
        last = [p for p in grid(d) if p[ax] == d[ax] - 1]
        for p in (last if rng.random() < 0.5 else rng.sample(last, 1)):
            f[p] = pick() if rng.random() < 0.7 else None
    elif pattern in ('merge_axis', 'first_two_equal') and axis is not None:
        n = d[axis]
        tab = [pick() for _ in range(n)]
        if pattern == 'first_two_equal' and n >= 2:
            tab[1] = copy.deepcopy(tab[0])
            if n >= 3 and tab[2] == tab[0]:
                tab[2] = None
        f = {p: tab[p[axis]] for p in grid(d)}
    else:
        f = {p: pick() for p in grid(d)}
    return f


def encode(rng, shape, sdim, f, widen=0.0):
    """Entry (class, values) representing f over dims(shape, sdim): canonical class, or with probability `widen` a
    higher valid class that still represents it (never a varying class of multiplicity 1, never a per-slice
    class without a slice dimension).  Returns None for the all-None function."""
    E0 = {'shape': shape, 'sdim': sdim}
    d = dims(E0)
    fn = lambda p: f[p]      # noqa: E731
    cands = [c for c in PREF if class_ok(shape, c) and representable(d, c, fn)
             and (c == 'GConst' or mult(d, c) != 1) and (sdim is not None or PYCLS[c][1] != 'slices')]
    if not cands:
        return None
    c = cands[0]
    if c == 'GConst' and f[(0, 0, 0)] is None:
        return None
    if len(cands) > 1 and rng.random() < widen:
        c = rng.choice(cands[1:])
    vals = [None] * mult(d, c)
    for p in grid(d):
        vals[cidx(d, c, p)] = copy.deepcopy(f[p])
    return c, vals


def mk_E(shape, sdim, aff, entries):
    n = len(shape)
    return {'shape': list(shape), 'sdim': sdim, 'aff': aff,
            'ht': n == 4 or (n > 4 and shape[3] != 1), 'hv': n > 4,
            'entries': sorted(([k, c, vs] for k, (c, vs) in entries.items()), key=lambda e: e[0])}


KEYNAMES = ['EchoTime', 'SliceLocation', 'k', 'AcquisitionTime', 'CsaImage.B_value', 'ImageType', 'a b', 'Zü', 'x0', 'x1']


def gen_ext(rng, tier='quick', shape=None, sdim='any', ndim=None, nkeys=None, widen=0.3, aff=None, patterns=None,
            trailing1=0.0):
    """A valid, nondegenerate extension in JSON form with random keys / patterns / classes."""
    if shape is None:
        shape, sdim = gen_shape(rng, tier, ndim, sdim, trailing1=trailing1)
    aff = aff or gen_affine(rng)
    d = dims({'shape': shape, 'sdim': sdim})
    nkeys = nkeys if nkeys is not None else rng.randint(1, 5)
    ents = {}
    for k in rng.sample(KEYNAMES, nkeys):
        f = gen_fn(rng, d, rng.choice(patterns or BASE_PATTERNS))
        e = encode(rng, shape, sdim, f, widen)
        if e is not None:
            ents[k] = e
    return mk_E(shape, sdim, aff, ents)


def restrict(f, d_out, axis, i, d_in):
    """The function on the input grid d_in obtained by fixing coordinate `axis` of f to i."""
    out = {}
    for p in grid(d_in):
        q = list(p)
        q[axis] = i
        out[p] = f[tuple(q)]
    return out


def merge_axis_kind(dim, sdim):
    """Which grid coordinate a merge / subset dimension addresses: 0 slice, 1 time, 2 vector, None = non-slice spatial."""
    if dim == sdim and dim < 3:
        return 0
    if dim < 3:
        return None
    return dim - 2


TRAILING1_PROB = 0.1        # share of generated input shapes that end in a singleton dim (regions of N1 / N2 / N4)


def gen_merge_case(rng, tier='quick', dim=None, ndim_in=None):
    """Inputs are the restrictions of random total functions on the OUTPUT grid (dense reference semantics).
    Covers: all five merge dims; 3-5 D inputs incl. (X,Y,Z,1,V) and (some) trailing-singleton shapes, 4-D T=1 inputs merged
    along time; slice axis 0/1/2/None (None also along time / vector); 2..7 inputs; keys missing from some inputs; inputs
    with another slice direction; explicit slice_dim argument; explicit affine argument equal to / translated from / with
    another slice direction than the inputs' affines."""
    hi = 3 if tier == 'quick' else 4
    dim = rng.randrange(5) if dim is None else dim
    t1 = rng.random() < TRAILING1_PROB
    if dim < 3:
        nd = ndim_in or rng.choice([3, 4, 5])
        force = {dim: 1}
        if t1 and nd > 3:
            force[nd - 1] = 1
    elif dim == 3:
        nd = ndim_in or rng.choice([3, 3, 5, 5, 4])
        force = {} if nd == 3 else {3: 1}                     # nd == 4: (X,Y,Z,1) merged along time
        if t1 and nd == 5:
            force[4] = 1
    else:
        nd = ndim_in or rng.choice([3, 4, 4, 4, 5])
        force = {} if nd < 5 else {4: 1}                      # nd == 5: (X,Y,Z,T,1)
        if t1 and nd == 4:
            force[3] = 1                                      # region of N1
    sh, sdim = gen_shape(rng, tier, nd, force=force)
    n = rng.randint(2, 5 if tier != 'quick' else 4)
    if rng.random() < 0.04:
        n = rng.randint(6, 7)
    aff = gen_affine(rng)
    out_shape = list(sh)
    while len(out_shape) <= dim:
        out_shape.append(1)
    out_shape[dim] = n
    d_in = dims({'shape': sh, 'sdim': sdim})
    d_out = dims({'shape': out_shape, 'sdim': sdim})
    ax = merge_axis_kind(dim, sdim)
    nkeys = rng.randint(1, 5)
    widen = rng.choice([0.0, 0.3, 0.6])
    per_input = [dict() for _ in range(n)]
    for k in rng.sample(KEYNAMES, nkeys):
        if ax is None:
            # non-slice spatial merge: the same function everywhere, or different in some input
            al = gen_alphabet(rng)      # one alphabet per key: Python == must coincide with structural equality
            base = gen_fn(rng, d_in, rng.choice(BASE_PATTERNS), alphabet=al)
            fs = [copy.deepcopy(base) for _ in range(n)]
            if rng.random() < 0.4:
                j = rng.randrange(n)
                fs[j] = gen_fn(rng, d_in, rng.choice(BASE_PATTERNS), alphabet=al)
        else:
            f = gen_fn(rng, d_out, rng.choice(PATTERNS), axis=ax)
            fs = [restrict(f, d_out, ax, i, d_in) for i in range(n)]
        missing = set(rng.sample(range(n), rng.randint(1, n - 1))) if rng.random() < 0.2 else set()
        for i in range(n):
            if i in missing:
                continue
            e = encode(rng, sh, sdim, fs[i], widen)
            if e is not None:
                per_input[i][k] = e
    affs = [aff] * n
    kind = 'merge/dim%d/%dD' % (dim, len(sh))
    if trailing1(sh):
        kind += '-trailing1'
    if sdim is None and dim >= 3:
        kind += '/nosdim'
    if sdim is not None and rng.random() < 0.2:
        # some inputs (possibly the first) get another slice direction: their per-slice meta must be ignored
        js = rng.sample(range(n), rng.randint(1, n - 1))
        affs = [other_normal_affine(rng, aff, sdim) if i in js else aff for i in range(n)]
        kind += '/normals'
    exts = [mk_E(sh, sdim, affs[i], per_input[i]) for i in range(n)]
    case = {'kind': kind, 'exts': exts, 'dim': dim, 'aff': None, 'sdim_arg': None}
    r = rng.random()
    if r < 0.12:
        case['aff'] = copy.deepcopy(aff)
    elif r < 0.22:
        case['aff'] = translated_affine(rng, aff)
        case['kind'] += '/affarg-moved'
    elif r < 0.28 and sdim is not None:
        case['aff'] = other_normal_affine(rng, aff, sdim)     # every input with aff's direction loses its per-slice meta
        case['kind'] += '/affarg-turned'
    if rng.random() < 0.1 and sdim is not None:
        case['sdim_arg'] = sdim
    return case


SYS_AFF = [[2.0, 0.0, 0.0, -8.0], [0.0, 0.5, 0.0, 3.0], [0.0, 0.0, 1.5, 10.5], [0.0, 0.0, 0.0, 1.0]]


def systematic_merge_cases():
    """A DETERMINISTIC block of small merge cases (no randomness: every seed contains all of them), one key per case:
    merge axis kind {slice axis 0/1/2, non-slice spatial (with and without a slice dimension), time, vector}
    x input dimensionality {3, 4, 5} (incl. (X,Y,Z,1), (X,Y,Z,1,V), (X,Y,Z,T,1) where the merge axis allows)
    x EVERY classification the key can have in the inputs (valid for the shape, multiplicity != 1)
    x value pattern {all different, constant per volume, repeating per volume, equal across inputs, one constant}
    with T, V in 2..3, 1..2 slices per input, 2 inputs (3 for the 'all different' pattern).
    Inputs are valid and nondegenerate but in general NOT canonical (e.g. a per-volume-constant list stored in
    ('global','slices')).  Outside the regions of N1 / N3 / N4.  Same case format as gen_merge_case."""
    configs = []       # (axis name, input shape, sdim, dim)
    for d in (0, 1, 2):                                     # slice axis: one slice per input
        for tail in ([], [2], [3], [2, 3], [3, 2], [1, 2]):
            sh = [2, 2, 2] + tail
            sh[d] = 1
            configs.append(('slice%d' % d, sh, d, d))
    for sd, d in ((2, 0), (0, 1), (None, 1)):               # non-slice spatial axis, 1 or 2 slices per input
        for S in ((1, 2) if sd is not None else (1,)):
            for tail in ([], [2], [3, 2], [1, 2]):
                if sd is None and not tail:
                    continue
                sh = [2, 2, 2] + tail
                sh[d] = 1
                if sd is not None:
                    sh[sd] = S
                configs.append(('nonslice%d' % d, sh, sd, d))
    for S in (1, 2):                                        # time axis
        for tail in ([], [1], [1, 2], [1, 3]):
            sh = [2, 1, S] + tail
            configs.append(('time', sh, 2, 3))
    for S in (1, 2):                                        # vector axis
        for tail in ([], [2], [3], [2, 1]):
            sh = [1, 2, S] + tail
            configs.append(('vector', [sh[0], sh[1], sh[2]] + tail, 2, 4))
    patterns = ['alldiff', 'constvol', 'repvol', 'equal', 'oneconst']
    out = []
    for axis, sh, sd, dim in configs:
        d_in = dims({'shape': sh, 'sdim': sd})
        S = d_in[0]
        for c in PREF:
            if not class_ok(sh, c):
                continue
            if PYCLS[c][1] == 'slices' and sd is None:
                continue
            m = mult(d_in, c)
            if c != 'GConst' and m == 1:
                continue
            for pat in patterns:
                if c == 'GConst' and pat in ('constvol', 'repvol'):
                    continue
                if axis.startswith('nonslice') and pat in ('constvol', 'oneconst'):
                    continue
                n = 3 if pat == 'alldiff' else 2
                exts = []
                for i in range(n):
                    vals = []
                    for j in range(m):
                        if pat == 'alldiff':
                            v = 1000 * (i + 1) + j
                        elif pat == 'constvol':
                            v = 1000 * (i + 1) + (j // S if PYCLS[c][1] == 'slices' else j)
                        elif pat == 'repvol':
                            v = 1000 * (i + 1) + (j % S if PYCLS[c][1] == 'slices' else 0)
                        elif pat == 'equal':
                            v = 7 + j
                        else:
                            v = 5
                        vals.append(v)
                    exts.append(mk_E(sh, sd, copy.deepcopy(SYS_AFF), {'k': (c, vals)}))
                out.append({'kind': 'sys/%s/%dD%s/%s/%s' % (axis, len(sh), '-t1' if len(sh) > 3 and 1 in sh[3:] else '', c, pat),
                            'exts': exts, 'dim': dim, 'aff': None, 'sdim_arg': None})
    return out


def _sys_values(c, m, S, pat):
    vals = []
    for j in range(m):
        if pat == 'alldiff':
            v = 100 + j
        elif pat == 'constvol':
            v = 100 + (j // S if PYCLS[c][1] == 'slices' else j)
        elif pat == 'repvol':
            v = 100 + (j % S if PYCLS[c][1] == 'slices' else 0)
        else:
            v = 5
        vals.append(v)
    return vals


def _sys_subset_configs():
    """(shape, slice dim): 3/4/5-D, T and V in 2..3, S in 1..3, spatial extents not all equal, incl. (X,Y,Z,1,V) and the
    trailing-singleton shapes (X,Y,Z,1), (X,Y,Z,T,1)."""
    tails = ([], [2], [3], [2, 3], [3, 2], [1, 2], [1], [2, 1])
    out = []
    for sd, Ss in ((None, (None,)), (0, (2,)), (1, (2,)), (2, (1, 3))):
        for S in Ss:
            for tail in tails:
                sh = [2, 3, 2] + list(tail)
                if sd is not None:
                    sh[sd] = S
                out.append((sh, sd))
    return out


def _sys_classes(sh, sd):
    d = dims({'shape': sh, 'sdim': sd})
    return [c for c in PREF if class_ok(sh, c) and not (PYCLS[c][1] == 'slices' and sd is None)
            and (c == 'GConst' or mult(d, c) != 1)]


def systematic_subset_cases():
    """A DETERMINISTIC block of small get_subset cases (every seed contains all of them): shapes of _sys_subset_configs
    x EVERY classification a single key can have (valid, multiplicity != 1; in general NOT canonical) x value pattern
    {all different, constant per volume, repeating per volume, constant}.  'all different': every dim with the first and the
    last index; the other patterns (where _simplify has work to do): the slice / time / vector dims with the last index.
    Plus two-key cases (one key per pair of classes).  Combinations that show the mechanism of the open finding N2 are left
    out (the corpus covers them)."""
    out = []
    for sh, sd in _sys_subset_configs():
        d = dims({'shape': sh, 'sdim': sd})
        classes = _sys_classes(sh, sd)
        exts = []
        for c in classes:
            for pat in (('alldiff', 'const') if c == 'GConst' else ('alldiff', 'constvol', 'repvol', 'const')):
                exts.append((pat, c, mk_E(sh, sd, copy.deepcopy(SYS_AFF), {'k': (c, _sys_values(c, mult(d, c), d[0], pat)[:1] if c == 'GConst'
                                                                                else _sys_values(c, mult(d, c), d[0], pat))})))
        varying = [c for c in classes if c != 'GConst']
        for a, b in zip(varying, varying[1:]):
            exts.append(('alldiff', a + '+' + b, mk_E(sh, sd, copy.deepcopy(SYS_AFF), {
                'k': (a, _sys_values(a, mult(d, a), d[0], 'alldiff')), 'k2': (b, [v + 500 for v in _sys_values(b, mult(d, b), d[0], 'repvol')])})))
        for pat, cname, E in exts:
            for dim in range(len(sh)):
                if n2_vanishing_base(E, dim) is not None:
                    continue
                if pat != 'alldiff' and not (dim == sd or dim >= 3):
                    continue
                idxs = sorted({0, sh[dim] - 1}) if pat == 'alldiff' else [sh[dim] - 1]
                for idx in idxs:
                    out.append({'kind': 'sys/%s%s/sd%s/%s/%s/dim%d' % (shape_family(sh), '-t1' if 1 in sh[3:] else '', sd, cname, pat, dim),
                                'ext': E, 'dim': dim, 'idx': idx})
    return out


def systematic_split_cases():
    """Deterministic NiftiWrapper.split cases: every shape of _sys_subset_configs (outside N2's mechanism), one key per valid
    classification ('all different' values), matching image, every split dimension and dim=None."""
    out = []
    for sh, sd in _sys_subset_configs():
        d = dims({'shape': sh, 'sdim': sd})
        ents = {}
        for i, c in enumerate(_sys_classes(sh, sd)):
            vals = [1000 * (i + 1) + v for v in _sys_values(c, mult(d, c), d[0], 'alldiff')]
            ents['k' + c] = (c, vals[:1] if c == 'GConst' else vals)
        E = mk_E(sh, sd, copy.deepcopy(SYS_AFF), ents)
        img = {'shape': list(sh), 'slice': sd, 'aff': copy.deepcopy(SYS_AFF)}
        for dim in list(range(len(sh))) + [None]:
            dd = dim
            if dd is None:
                dd = len(sh) - 1
                if dd == 2:
                    dd = sd
            if dd is not None and n2_vanishing_base(E, dd if dd != sd else dd) is not None:
                continue
            out.append({'kind': 'sys-split/%s/sd%s/dim%s' % (shape_family(sh), sd, dim), 'ext': E, 'img': img, 'dim': dim})
    return out


def gen_subset_case(rng, tier='quick'):
    sh, sdim = gen_shape(rng, tier, trailing1=TRAILING1_PROB)
    E = gen_ext(rng, tier, shape=sh, sdim=sdim, widen=rng.choice([0.0, 0.3, 0.7]))
    dim = rng.randrange(len(sh))
    idx = rng.randrange(sh[dim])
    return {'kind': 'subset/dim%d/%s%s' % (dim, shape_family(sh), '/slice' if dim == sdim else ''), 'ext': E, 'dim': dim, 'idx': idx}


def gen_subset_all(E):
    """Every (dim, idx) of one extension."""
    return [{'kind': 'subset/all', 'ext': E, 'dim': dim, 'idx': idx}
            for dim in range(len(E['shape'])) for idx in range(E['shape'][dim])]


# ------------------------------------------------------------------------------------------ property oracles (search only)

def subset_shape(shape, dim):
    sh = list(shape)
    sh[dim] = 1
    while len(sh) > 3 and sh[-1] == 1:
        sh = sh[:-1]
    return sh


def oracle_subset_all(case, obs):
    """C04 (extension level) on the implementation alone, all clause messages: result shape / slice dim / affine from the
    CASE, the format rules the lookups rest on, and every lookup of the piece = the parent's lookup with the split axis
    fixed to idx."""
    E, dim, idx = case['ext'], case['dim'], case['idx']
    if dim >= len(E['shape']):
        return [] if 'err' in obs else ['subset along a dimension the extension does not have was accepted']
    if idx >= E['shape'][dim]:
        return []                                   # the property does not speak about indices beyond the axis
    if 'err' in obs:
        return ['get_subset(%d,%d) raised %s: %s' % (dim, idx, obs.get('exc'), obs.get('msg'))]
    R = obs['ext']
    out = []
    if R['shape'] != subset_shape(E['shape'], dim):
        return ['result shape %r, expected %r' % (R['shape'], subset_shape(E['shape'], dim))]
    if R['sdim'] != E['sdim']:
        return ['result slice dim %r, expected %r' % (R['sdim'], E['sdim'])]
    if R['aff'] != E['aff']:
        out.append('result affine differs from the parent\'s')
    out += layout_problems(R)
    ax = merge_axis_kind(dim, E['sdim'])
    dR = dims(R)
    for k in keys_of(E, R):
        bad = None
        for p in grid(dR):
            q = list(p)
            if ax is not None:
                q[ax] = idx
            a, b = den(R, k, p), den(E, k, tuple(q))
            if a != b:
                bad = 'key %r: piece%r = %r but parent%r = %r' % (k, p, a, tuple(q), b)
                break
        if bad:
            out.append(bad)
    if obs.get('input_untouched') is False:
        out.append('get_subset modified its input')
    return out


def oracle_subset(case, obs):
    msgs = oracle_subset_all(case, obs)
    return msgs[0] if msgs else None


def merge_truth(case):
    """Header the result must have, from the case alone: (shape, slice dim, affine); None when the merge must be refused."""
    exts, dim = case['exts'], case['dim']
    sh = exts[0]['shape']
    if not (dim < 5 and (dim >= len(sh) or sh[dim] == 1)):
        return None
    out_shape = list(sh)
    while len(out_shape) <= dim:
        out_shape.append(1)
    out_shape[dim] = len(exts)
    sd = case.get('sdim_arg') if case.get('sdim_arg') is not None else exts[0]['sdim']
    aff = case.get('aff') if case.get('aff') is not None else exts[0]['aff']
    return {'shape': out_shape, 'sdim': sd, 'aff': aff}


def merged_den(case, T, how='dir'):
    """Expected denotation of the merge, from the inputs alone: {key: {pos: value}} over the grid of the truth header T;
    for a non-slice spatial merge a key on which the inputs disagree denotes None everywhere."""
    exts, dim = case['exts'], case['dim']
    drops = [not keep_slices(T, E, how) for E in exts]
    ax = merge_axis_kind(dim, T['sdim'])
    dT = dims(T)
    out = {}
    for k in keys_of(*exts):
        if ax is None:
            tabs = [{p: den(E, k, p, dr) for p in grid(dims(E))} for E, dr in zip(exts, drops)]
            agree = all(t == tabs[0] for t in tabs)
            out[k] = {p: (tabs[0].get(p) if agree else None) for p in grid(dT)}
        else:
            f = {}
            for p in grid(dT):
                q = list(p)
                i = q[ax]
                q[ax] = 0
                f[p] = den(exts[i], k, tuple(q), drops[i])
            out[k] = f
    return out


def _den_mismatches(R, exp):
    out = []
    dR = dims(R)
    for k in sorted(set(list(exp) + [e[0] for e in R['entries']])):
        f = exp.get(k, {})
        for p in grid(dR):
            a, b = den(R, k, p), f.get(p)
            if a != b:
                out.append('key %r: result%r = %r but the inputs give %r' % (k, p, a, b))
                break
    return out


def oracle_merge_all(case, obs):
    """C03 (extension level) on the implementation alone, all clause messages.  Judged against generator truth: the
    result header (shape, slice dim, affine) expected from the CASE, per-slice metadata of an input kept iff its slice
    DIRECTION agrees with the expected header's (where the code's row test decides differently and the result is what the
    row test gives, the message carries N13_TAG)."""
    T = merge_truth(case)
    if T is None:
        return [] if 'err' in obs else ['non-singular / impossible merge axis accepted']
    if 'err' in obs:
        return ['from_sequence(dim=%d) raised %s: %s' % (case['dim'], obs.get('exc'), obs.get('msg'))]
    R = obs['ext']
    if R['shape'] != T['shape']:
        return ['result shape %r, expected %r' % (R['shape'], T['shape'])]
    out = []
    if R['sdim'] != T['sdim']:
        return ['result slice dim %r, expected %r' % (R['sdim'], T['sdim'])]
    if R['aff'] != T['aff']:
        out.append('result affine is not the affine argument / the first input\'s affine')
    out += layout_problems(R)
    Rt = dict(R, sdim=T['sdim'])
    bad = _den_mismatches(Rt, merged_den(case, T, 'dir'))
    if bad and [keep_slices(T, E, 'dir') for E in case['exts']] != [keep_slices(T, E, 'row') for E in case['exts']] \
            and not _den_mismatches(Rt, merged_den(case, T, 'row')):
        bad = [N13_TAG + ' per-slice metadata kept / dropped by the affine ROW, not by the slice direction: ' + bad[0]]
    out += bad
    if obs.get('input_untouched') is False:
        out.append('from_sequence modified an input')
    return out


def oracle_merge(case, obs):
    msgs = oracle_merge_all(case, obs)
    known = {'merge/4d-t1-along-vector/KeyError', 'merge/no-slice-dim/TypeError', 'merge/trailing-singleton-simplify/ValueError',
             N13_SIG}
    return prefer_unknown(msgs, lambda m: N13_SIG if n13_tagged(m) else (finding_sig_merge(case, obs) or 'other'), known)


def sig_of_exc(obs):
    return str(obs.get('exc')) if 'err' in obs else 'wrong-value'


def trailing1(shape):
    return len(shape) > 3 and shape[-1] == 1


# ---- mechanisms of the open findings N1..N4, re-derived from the case (pure functions; no message text)

def n1_region(exts, dim):
    """N1: every input 4-D with a singular time axis, merged along the vector axis (the (X,Y,Z,1,n) result has no 'time'
    dictionaries but the first input's time classes are copied)."""
    return dim == 4 and all(len(E['shape']) == 4 and E['shape'][3] == 1 for E in exts)


def n2_vanishing_base(E, dim):
    """N2: trailing-singleton shape, subset along a non-slice spatial dim (or dim 3 of a 5-D (..,T,1)): the result shape is
    trimmed and loses the 'time' (4-D) / 'vector' (5-D) dictionaries, and the extension holds a key in a class of that
    base.  -> 'time' | 'vector' | None."""
    sh = E['shape']
    if not (trailing1(sh) and dim < len(sh) and ((dim < 3 and dim != E['sdim']) or (dim == 3 and len(sh) == 5))):
        return None
    base = 'time' if len(sh) == 4 else 'vector'
    if any(PYCLS[c][0] == base and class_ok(sh, c) for _, c, _ in E['entries']):
        return base
    return None


def n3_mechanism(exts, dim, sdim_result):
    """N3: result without slice dimension, merge along time / vector that is otherwise acceptable, and some key has to pass
    through ('global','slices') (whose multiplicity is undefined without a slice dimension):
      dim 4: a key held per time sample by some input;
      dim 3 with 5-D inputs: a key held per vector sample somewhere, or a constant that differs / is missing between inputs."""
    sh = exts[0]['shape']
    if sdim_result is not None or dim not in (3, 4) or not (dim >= len(sh) or sh[dim] == 1):
        return False
    ents = [entry_map(E) for E in exts]
    for k in keys_of(*exts):
        cls = [m[k][0] if k in m else None for m in ents]
        if dim == 4 and 'TSamples' in cls:
            return True
        if dim == 3 and len(sh) == 5:
            if 'VSamples' in cls:
                return True
            vals = [m[k][1] if k in m else [None] for m in ents]
            if any(v != vals[0] for v in vals):
                return True
    return False


def n4_mechanism(case):
    """N4: acceptable merge whose OUTPUT shape ends in a singleton dim, and some key's merged denotation is not constant
    (so the final _simplify has to run its repeat tests with a period equal to the whole list)."""
    T = merge_truth(case)
    if T is None or not trailing1(T['shape']):
        return False
    for how in ('dir', 'row'):
        for f in merged_den(case, T, how).values():
            vals = list(f.values())
            if any(v != vals[0] for v in vals):
                return True
    return False


def finding_sig_subset(case, obs):
    """Signature of the open finding N2 when case and observation show exactly its mechanism, else None."""
    base = n2_vanishing_base(case['ext'], case['dim'])
    if base is not None and obs.get('exc') == 'KeyError' and obs.get('exc_key') == base:
        return 'subset/trailing-singleton/KeyError'
    return None


def finding_sig_merge(case, obs):
    """Signature of the open findings N1 / N3 / N4 when case and observation show exactly that mechanism, else None."""
    exts, dim = case['exts'], case['dim']
    exc = obs.get('exc')
    sd = case.get('sdim_arg') if case.get('sdim_arg') is not None else exts[0]['sdim']
    if exc == 'KeyError' and obs.get('exc_key') == 'time' and n1_region(exts, dim):
        return 'merge/4d-t1-along-vector/KeyError'
    if exc == 'TypeError' and n3_mechanism(exts, dim, sd):
        return 'merge/no-slice-dim/TypeError'
    if exc == 'ValueError' and n4_mechanism(case):
        return 'merge/trailing-singleton-simplify/ValueError'
    return None


def shape_family(shape):
    return '%dD%s' % (len(shape), '-trailing1' if trailing1(shape) else '')


def shrink_E(E):
    """Smaller variants of an extension: drop one key."""
    for i in range(len(E['entries'])):
        F = copy.deepcopy(E)
        del F['entries'][i]
        yield F


# ------------------------------------------------------------------------------------------ reusable plugin parts

class SubsetPart:
    """get_subset correspondence + C04 oracle (extension level)."""
    NAME = 'subset'
    CORR_REQUIRE = 'From DV Require Import Common.Jv Ext.Types Ext.Model Ext.Corr.'
    CORR_CASE_TYPE = 'subset_case'
    CORR_CHECK = 'check_subset_dom'
    CORR_SHOW = 'run_subset'
    SHARD = 100
    IMPL_TIMEOUT = 20
    RULE = ('random valid nondegenerate extensions (3-5 D, S,T,V in 1..3 quick / 1..4 thorough, slice axis 0/1/2/None, '
            '(X,Y,Z,1,V) and ~10% trailing-singleton shapes included, canonical and widened classes, value patterns incl. list / '
            'nested / None-heavy values), every (dim, idx) for a part of them and a random (dim, idx) for the rest, plus dim out '
            'of range (refusal, any exception class) and idx beyond the axis (correspondence only); non-trivial = some key in a '
            'varying class')

    @staticmethod
    def gen_cases(rng, tier):
        n_rand, n_all = (500, 40) if tier == 'quick' else (4000, 400)
        cases = systematic_subset_cases() + [gen_subset_case(rng, tier) for _ in range(n_rand)]
        for _ in range(n_all):
            E = gen_ext(rng, tier, widen=rng.choice([0.0, 0.5]), trailing1=TRAILING1_PROB)
            for c in gen_subset_all(E):
                cases.append(c)
        for _ in range(30 if tier == 'quick' else 200):
            E = gen_ext(rng, tier, trailing1=TRAILING1_PROB)
            cases.append({'kind': 'subset/err-dim', 'ext': E, 'dim': rng.choice([len(E['shape']), 5, 6, 4]), 'idx': 0})
        for c in cases:
            if c['kind'] == 'subset/err-dim' and c['dim'] < len(c['ext']['shape']):
                c['kind'] = 'subset/dim%d/%s' % (c['dim'], shape_family(c['ext']['shape']))
        for _ in range(25 if tier == 'quick' else 150):
            # an index beyond the axis: the property is silent, only the correspondence (model == code) is checked
            c = gen_subset_case(rng, tier)
            c['idx'] = c['ext']['shape'][c['dim']] + rng.choice([0, 0, 1, 3])
            c['kind'] = 'subset/idx-beyond'
            cases.append(c)
        return cases

    run_impl = staticmethod(run_subset)
    coq_case = staticmethod(subset_case_to_coq)

    @staticmethod
    def oracle(case, obs):
        if 'crash' in obs:
            return 'harness: %s: %s' % (obs.get('crash'), obs.get('msg'))
        msgs = oracle_subset_all(case, obs)
        return prefer_unknown(msgs, lambda m: SubsetPart.signature(case, obs, m), {'subset/trailing-singleton/KeyError'})

    @staticmethod
    def signature(case, obs, msg):
        s = finding_sig_subset(case, obs) if 'raised' in (msg or '')[:40] or 'err' in obs else None
        return s or 'subset/%s/dim%d/%s' % (shape_family(case['ext']['shape']), case['dim'], sig_of_exc(obs))

    @staticmethod
    def nontrivial(case, obs):
        return any(c != 'GConst' for _, c, _ in case['ext']['entries'])

    @staticmethod
    def shrink(case):
        for F in shrink_E(case['ext']):
            c = dict(case)
            c['ext'] = F
            yield c


class MergePart:
    """DcmMetaExtension.from_sequence correspondence + C03 oracle (extension level)."""
    NAME = 'merge'
    CORR_REQUIRE = 'From DV Require Import Common.Jv Ext.Types Ext.Model Ext.Corr.'
    CORR_CASE_TYPE = 'merge_case'
    CORR_CHECK = 'check_merge_dom'
    CORR_SHOW = 'run_merge'
    SHARD = 60
    IMPL_TIMEOUT = 20
    RULE = ('2..7 inputs that are the restrictions of random total functions on the OUTPUT grid (dense reference), all five '
            'merge dims, 3-5 D inputs incl. (X,Y,Z,1,V), 4-D T=1 inputs along time and ~10% trailing-singleton shapes, any slice '
            'axis or none (also along time / vector), canonical and widened classes per input, keys missing from some inputs, '
            'inputs with another slice direction, explicit slice_dim argument, explicit affine argument equal to / translated '
            'from / turned against the inputs\' affines, plus refusals (non-singular axis, dim >= 5; any exception class); the '
            'result header is judged against the case, per-slice metadata against slice directions; non-trivial = some key in a '
            'varying class in an input or the result')

    @staticmethod
    def gen_cases(rng, tier):
        n = 700 if tier == 'quick' else 6000
        cases = [gen_merge_case(rng, tier) for _ in range(n)]
        for _ in range(40 if tier == 'quick' else 300):
            c = gen_merge_case(rng, tier)
            sh = c['exts'][0]['shape']
            bad = [d for d in range(len(sh)) if sh[d] != 1] + [5, 7]
            c['dim'] = rng.choice(bad)
            c['kind'] = 'merge/err-axis'
            cases.append(c)
        return cases

    run_impl = staticmethod(run_merge)
    coq_case = staticmethod(merge_case_to_coq)

    @staticmethod
    def oracle(case, obs):
        if 'crash' in obs:
            return 'harness: %s' % obs.get('msg')
        return oracle_merge(case, obs)

    @staticmethod
    def signature(case, obs, msg):
        if n13_tagged(msg):
            return N13_SIG
        return finding_sig_merge(case, obs) or \
            'merge/%s/dim%d/%s' % (shape_family(case['exts'][0]['shape']), case['dim'], sig_of_exc(obs))

    @staticmethod
    def nontrivial(case, obs):
        return any(c != 'GConst' for E in case['exts'] for _, c, _ in E['entries']) or \
            ('ext' in obs and any(c != 'GConst' for _, c, _ in obs['ext']['entries']))

    @staticmethod
    def shrink(case):
        if len(case['exts']) > 2:
            for i in range(len(case['exts'])):
                c = copy.deepcopy(case)
                del c['exts'][i]
                yield c
        for k in keys_of(*case['exts']):
            c = copy.deepcopy(case)
            for E in c['exts']:
                E['entries'] = [e for e in E['entries'] if e[0] != k]
            yield c


# ------------------------------------------------------------------------------------------ image level: NiftiWrapper.split

def build_data_wrapper(E, img):
    """NiftiWrapper whose voxel data is 0..N-1 in C order (every voxel identifies its own index)."""
    np, dcmmeta = _imports()
    import nibabel as nb
    n = 1
    for x in img['shape']:
        n *= x
    data = np.arange(n, dtype=np.int16).reshape(tuple(img['shape']))
    nii = nb.Nifti1Image(data, np.array(img['aff'], dtype=float))
    nii.header.set_dim_info(slice=img['slice'])
    nii.header.extensions.append(build_ext(E))
    return dcmmeta.NiftiWrapper(nii)


def _piece_obs(p, keys, default):
    np, _ = _imports()
    nii = p.nii_img
    shape = [int(x) for x in nii.shape]
    o = {'shape': shape, 'slice': nii.header.get_dim_info()[2],
         'aff': [[float(x) for x in row] for row in nii.affine],
         'data': [int(x) for x in np.asanyarray(nii.dataobj).ravel(order='C')],
         'ext': ext_to_json(p.meta_ext), 'lookups': {}}
    if o['slice'] is not None:
        o['slice'] = int(o['slice'])
    try:
        p.meta_ext.check_valid()
        o['valid'] = True
    except Exception:       # noqa: BLE001
        o['valid'] = False
    for k in keys:
        tab = []
        for idx in itertools.product(*[range(x) for x in shape]):
            try:
                tab.append(_plain(p.get_meta(k, idx, copy.deepcopy(default))))
            except Exception as e:      # noqa: BLE001
                tab.append({'__exc__': type(e).__name__})
        o['lookups'][k] = tab
    return o


LOOKUP_DEFAULT = None     # an absent key denotes None at every position (Spec.den), so the default must be None here


def run_split(case):
    """case: {"ext": E, "img": {"shape","slice","aff"}, "dim": int|None} -> {"pieces": [...], "parent": {...}} | {"err":..}"""
    def go():
        w = build_data_wrapper(case['ext'], case['img'])
        keys = [k for k, _, _ in case['ext']['entries']]
        before = ext_to_json(w.meta_ext)
        parent = _piece_obs(w, keys, LOOKUP_DEFAULT)
        pieces = [_piece_obs(p, keys, LOOKUP_DEFAULT) for p in w.split(case['dim'])]
        return {'pieces': pieces, 'parent': {'lookups': parent['lookups']},
                'input_untouched': ext_to_json(w.meta_ext) == before}
    return _guard(go)


def wimg_to_coq(shape, slc, aff, data):
    return '(mk_wimg %s %s %s %s)' % (clist(cnat(x) for x in shape), copt(slc, cnat), caff(aff), clist(cz(x) for x in data))


def split_case_to_coq(case, obs):
    img = case['img']
    n = 1
    for x in img['shape']:
        n *= x
    w = wimg_to_coq(img['shape'], img['slice'], img['aff'], list(range(n)))
    if 'pieces' in obs:
        o = '(Ok %s)' % clist(cpair(wimg_to_coq(p['shape'], p['slice'], p['aff'], p['data']), ext_to_coq(p['ext']))
                              for p in obs['pieces'])
    else:
        o = '(Err %s)' % obs.get('err', 'ECrash')
    return '(mk_split_case %s %s %s %s)' % (w, ext_to_coq(case['ext']), copt(case['dim'], cnat), o)


def oracle_split(case, obs):
    """C04 at the image level, on the implementation alone."""
    img, E, dim = case['img'], case['ext'], case['dim']
    sh = img['shape']
    d = dim
    if d is None:
        d = len(sh) - 1
        if d == 2:
            if img['slice'] is None:
                return None if obs.get('err') == 'EValue' else 'split() without a known slice dim did not raise ValueError'
            d = img['slice']
    if d >= len(sh):
        return None if 'err' in obs else 'split along a missing dimension accepted'
    if 'err' in obs:
        return 'split(%r) raised %s: %s' % (dim, obs.get('exc'), obs.get('msg'))
    ps = obs['pieces']
    if len(ps) != sh[d]:
        return '%d pieces for an axis of length %d' % (len(ps), sh[d])
    exp_shape = subset_shape(sh, d)
    strides = [1] * len(sh)
    for i in range(len(sh) - 2, -1, -1):
        strides[i] = strides[i + 1] * sh[i + 1]
    keys = [k for k, _, _ in E['entries']]
    for i, p in enumerate(ps):
        if p['shape'] != exp_shape:
            return 'piece %d has image shape %r, expected %r' % (i, p['shape'], exp_shape)
        if p['ext']['shape'] != p['shape']:
            return 'piece %d: extension shape %r differs from image shape %r' % (i, p['ext']['shape'], p['shape'])
        if p['ext']['sdim'] != E['sdim'] or p['slice'] != img['slice']:
            return 'piece %d: slice dimension changed' % i
        lp = layout_problems(p['ext'], 'piece %d' % i)
        if lp:
            return lp[0]
        # geometry: linear part unchanged, voxel 0 of the piece is where voxel i of the parent was
        for r in range(4):
            for c in range(3):
                if p['aff'][r][c] != img['aff'][r][c]:
                    return 'piece %d: linear part of the affine changed' % i
            exp_t = img['aff'][r][3] + (i * img['aff'][r][d] if (d < 3 and r < 3) else 0.0)
            if p['aff'][r][3] != exp_t:
                return 'piece %d: translation[%d] = %r, expected %r' % (i, r, p['aff'][r][3], exp_t)
        # data: the i-th hyperplane (parent voxel values are their own flat indices), lookups: parent's with axis fixed
        pos = 0
        full = [range(x) for x in sh]
        full[d] = [i]
        for pidx in itertools.product(*full):
            flat = sum(a * b for a, b in zip(pidx, strides))
            if pos >= len(p['data']) or p['data'][pos] != flat:
                return 'piece %d: voxel %d is not parent voxel %r' % (i, pos, pidx)
            for k in (keys if img['slice'] == E['sdim'] else []):      # lookups are compared on matching images only
                for side, v in (('piece', p['lookups'][k][pos]), ('parent', obs['parent']['lookups'][k][flat])):
                    if isinstance(v, dict) and '__exc__' in v:
                        return 'piece %d key %r: get_meta on the %s raised %s at an in-range voxel' % (i, k, side, v['__exc__'])
                if p['lookups'][k][pos] != obs['parent']['lookups'][k][flat]:
                    return 'piece %d key %r: lookup at piece voxel %d = %r, parent at %r = %r' % (
                        i, k, pos, p['lookups'][k][pos], pidx, obs['parent']['lookups'][k][flat])
            pos += 1
        if pos != len(p['data']):
            return 'piece %d has %d voxels, expected %d' % (i, len(p['data']), pos)
    if obs.get('input_untouched') is False:
        return 'split modified the extension of its input'
    return None


class SplitPart:
    """NiftiWrapper.split correspondence + C04 oracle (image level)."""
    NAME = 'split'
    CORR_REQUIRE = 'From DV Require Import Common.Jv Ext.Types Ext.Model Ext.Corr Ext.Split Ext.CorrSplit.'
    CORR_CASE_TYPE = 'split_case'
    CORR_CHECK = 'check_split'
    CORR_SHOW = 'run_split'
    SHARD = 40
    IMPL_TIMEOUT = 30
    RULE = ('extended images whose voxel values are their own C-order indices, mostly oblique (non-symmetric) dyadic affines, '
            '3-5 D incl. (X,Y,Z,1,V), any slice axis or none, extension as in the subset part (scalar-, list- and nested-valued '
            'keys in every class), split along every dimension and with dim=None; observed per piece: image shape, slice '
            'dim_info, affine (exact), all voxels, the extension, and get_meta of every key at every voxel, compared with the '
            'parent; non-trivial = some key in a varying class')

    @staticmethod
    def gen_cases(rng, tier):
        n = 150 if tier == 'quick' else 1200
        cases = systematic_split_cases()
        for _ in range(n):
            E = gen_ext(rng, tier, widen=rng.choice([0.0, 0.4]), nkeys=rng.randint(1, 4),
                        aff=gen_affine(rng, rng.choice(['dense', 'dense', 'perm', 'diag'])))
            if len(E['shape']) == 4 and rng.random() < 0.5:
                # 4-D split along time with scalar- and list-valued ('time','samples') keys
                d = dims(E)
                ents = entry_map(E)
                for name, kind in (('TimeScalar', 'int'), ('TimeList', 'list')):
                    enc = encode(rng, E['shape'], E['sdim'], gen_fn(rng, d, 'time', alphabet=gen_alphabet(rng, kind, 4)), 0.0)
                    if enc is not None:
                        ents[name] = enc
                E = mk_E(E['shape'], E['sdim'], E['aff'], ents)
            img = {'shape': list(E['shape']), 'slice': E['sdim'], 'aff': copy.deepcopy(E['aff'])}
            r = rng.random()
            if r < 0.08 and E['sdim'] is not None:
                img['slice'] = None              # header lost its slice dim_info
            dim = rng.choice(list(range(len(E['shape']))) + [None, None])
            kind = 'split/dim%s/%dD' % (dim, len(E['shape']))
            if r > 0.95:
                dim, kind = len(E['shape']), 'split/err-dim'
            cases.append({'kind': kind, 'ext': E, 'img': img, 'dim': dim})
        return cases

    run_impl = staticmethod(run_split)
    coq_case = staticmethod(split_case_to_coq)

    @staticmethod
    def oracle(case, obs):
        if 'crash' in obs:
            return 'harness: %s' % obs.get('msg')
        return oracle_split(case, obs)

    @staticmethod
    def signature(case, obs, msg):
        return 'split/%s/dim%s/%s' % (shape_family(case['img']['shape']), case['dim'], sig_of_exc(obs))

    @staticmethod
    def nontrivial(case, obs):
        return 'err' in obs or any(c != 'GConst' for _, c, _ in case['ext']['entries'])

    @staticmethod
    def shrink(case):
        for F in shrink_E(case['ext']):
            c = dict(case)
            c['ext'] = F
            yield c
