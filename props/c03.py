"""C03 Merging is concatenation of per-position metadata (extension level: DcmMetaExtension.from_sequence).

Parts:
  * extlib.MergePart  -- one merge per case: model <-> implementation correspondence + the dense-reference oracle
  * TwiceMergePart    -- the SAME input objects merged twice: the second result must again be the concatenation
                         (a result that aliases value lists of its first input pollutes that input during the merge)
  * [HOOK] the image-level part (NiftiWrapper.from_sequence: data stacking, affine, ValueError on wrong orientation /
    non-increasing positions; props/imglib.py, coq/Wrapper/*) is added to PARTS by the integrator."""
import copy

from props import extlib, imglib

ID = 'C03'
COQ_PROPS = ['Props/C03.v', 'Props/C03img.v']
THEOREMS = ['C03_changed_class_den', 'C03_change_class_den', 'C03_change_class_total', 'C03_insert_k_den',
            'C03_merge_den', 'C03_nonslice', 'C03_total', 'C03_refuses',
            'C03_total_refuted_N1', 'C03_total_refuted_N3', 'C03_total_refuted_N4', 'C03_merge_den_refuted_N11']
ALLOWED_AXIOMS = []
TABLES = ['t_classes', 't_ext_tol']
RULE = ('see the parts: random merges whose inputs are restrictions of total functions on the output grid; '
        'non-trivial = some key varies in an input or along the merge axis, or an error')
TRUSTED_BASE = ['hand-written Gallina model coq/Ext/Model.v of from_sequence/_insert/_insert_slice/_insert_non_slice/'
                '_insert_sample/_get_changed_class/_change_class/_simplify, tied to the code by the correspondence run '
                '(Ext/Corr.v check_merge_dom) and by the generated class tables (_preserving_changes, _const_tests, '
                '_repeat_tests, valid-class slices) which the model and the proofs consume',
                'np.allclose on slice normals modelled exactly in Q (|a-b| <= atol + rtol|b|); affines are dyadic']
ASSUMPTIONS = ['values: Python == coincides with structural equality (generators never mix 1 / 1.0 / True, no NaN)',
               'inputs are >= 2 valid extensions of equal shape that share the slice dimension of the result '
               '(slice_dim argument None or equal to the inputs\'); nondegenerate inputs on the implementation side '
               '(the bare-vs-list inconsistency of multiplicity-1 varying classes is not modelled; the theorems do '
               'not need nondegeneracy)',
               'theorems exclude by explicit hypotheses the regions of the open findings N1 (4-D inputs with shape[3]==1 '
               'along dim 4 -> KeyError), N3 (no slice dimension, merge along time/vector -> TypeError), N4 (result shape '
               'with a trailing singleton -> ValueError in the final simplify); C03_total_refuted_N1/N3/N4 show the model '
               'reproduces these exceptions; the random streams stay outside those regions, corpus/C03 covers them',
               'the slice_dim argument, when given, equals the inputs\' own slice_dim: otherwise the real code builds invalid '
               'results / raises TypeError (open finding N11, C03_merge_den_refuted_N11, corpus/C03/N11_*.json)',
               'key order of the result is not modelled (compared as unordered maps)',
               'image level (NiftiWrapper.from_sequence) is a separate part added by the integrator']


def sig_n11(case, obs):
    """Signature of the open finding N11: the slice_dim ARGUMENT differs from some input's own slice_dim (the
    argument is honoured for the result only).  Never produced by the random streams (sdim_arg is None or the
    inputs' slice_dim); covered by corpus/C03/N11_*.json."""
    sd = case.get('sdim_arg')
    if sd is not None and any(E['sdim'] != sd for E in case['exts']):
        return 'merge/slice-dim-arg-mismatch'
    return None


class MergePart(extlib.MergePart):
    """extlib.MergePart + the signature of N11."""
    NAME = 'merge'

    @staticmethod
    def signature(case, obs, msg):
        return sig_n11(case, obs) or extlib.MergePart.signature(case, obs, msg)


def run_twice(case):
    """Merge the same input OBJECTS twice; observe the second result."""
    def go():
        np, dcmmeta = extlib._imports()
        exts = [extlib.build_ext(E) for E in case['exts']]
        before = [extlib.ext_to_json(x) for x in exts]
        aff = None if case.get('aff') is None else np.array(case['aff'], dtype=float)
        r1 = dcmmeta.DcmMetaExtension.from_sequence(exts, case['dim'], aff, case.get('sdim_arg'))
        j1 = extlib.ext_to_json(r1)
        try:
            r2 = dcmmeta.DcmMetaExtension.from_sequence(exts, case['dim'], aff, case.get('sdim_arg'))
        finally:
            untouched = [extlib.ext_to_json(x) for x in exts] == before
        out = {'ext': extlib.ext_to_json(r2), 'input_untouched': untouched, 'first_equal': j1 == extlib.ext_to_json(r2)}
        try:
            r2.check_valid()
            out['valid'] = True
        except Exception:           # noqa: BLE001
            out['valid'] = False
        return out
    return extlib._guard(go)


class TwiceMergePart:
    """Two merges over the same input objects: inputs must not be polluted by the first merge (C13 seen from C03)."""
    NAME = 'twice'
    CORR_REQUIRE = extlib.MergePart.CORR_REQUIRE
    CORR_CASE_TYPE = extlib.MergePart.CORR_CASE_TYPE
    CORR_CHECK = extlib.MergePart.CORR_CHECK
    CORR_SHOW = extlib.MergePart.CORR_SHOW
    SHARD = 60
    IMPL_TIMEOUT = 20
    RULE = ('merge cases as in the merge part, restricted to the slice / time / vector axes and biased to keys that change '
            'class during the merge; the same DcmMetaExtension objects are passed to from_sequence twice and the SECOND '
            'result is compared with the model and the dense reference')

    @staticmethod
    def gen_cases(rng, tier):
        n = 160 if tier == 'quick' else 1500
        out = []
        while len(out) < n:
            c = extlib.gen_merge_case(rng, tier, dim=rng.choice([0, 1, 2, 2, 3, 3, 4, 4]))
            c['kind'] = 'twice/' + c['kind']
            out.append(c)
        return out

    run_impl = staticmethod(run_twice)
    coq_case = staticmethod(extlib.merge_case_to_coq)

    @staticmethod
    def oracle(case, obs):
        if 'crash' in obs:
            return 'harness: %s' % obs.get('msg')
        m = extlib.oracle_merge(case, obs)
        if m is None and obs.get('input_untouched') is False:
            return 'from_sequence modified an input'
        if m is None and obs.get('first_equal') is False:
            return 'merging the same inputs twice gave two different results'
        return ('second merge of the same objects: ' + m) if m else None

    @staticmethod
    def signature(case, obs, msg):
        return sig_n11(case, obs) or extlib.finding_sig_merge(case, obs) or \
            'twice/%s/dim%d/%s' % (extlib.shape_family(case['exts'][0]['shape']), case['dim'], extlib.sig_of_exc(obs))

    nontrivial = staticmethod(extlib.MergePart.nontrivial)
    shrink = staticmethod(extlib.MergePart.shrink)


# image-level part (NiftiWrapper.from_sequence: data stacking, affine, refusals) from props/imglib.py / coq/Wrapper/*
PARTS = [MergePart, TwiceMergePart, imglib.for_property(imglib.ImgMergePart, 'C03')]
THEOREMS = list(THEOREMS) + imglib.THEOREMS['Props/C03img.v']
TRUSTED_BASE = list(TRUSTED_BASE) + imglib.TRUSTED_BASE
ASSUMPTIONS = list(ASSUMPTIONS) + imglib.ASSUMPTIONS


# source tie (integrator): the helper functions the extension model rests on are TRANSLATED from the Python AST on every
# run (tools/tables/py2coq.py, t_src_ext.py -> Generated/T_src_ext.v) and the hand models are proved equal to the translation
COQ_PROPS = (list(COQ_PROPS) if isinstance(COQ_PROPS, (list, tuple)) else [COQ_PROPS]) + ['Props/SRC.v']
THEOREMS = list(THEOREMS) + ['SRC_valid_classes', 'SRC_class_valid', 'SRC_multiplicity', 'SRC_is_constant', 'SRC_is_repeating', 'SRC_const_period', 'SRC_n_slices']
TABLES = sorted(set(list(globals().get('TABLES') or ['t_classes', 't_ext_tol']) + ['t_src_ext', 't_classes', 't_ext_tol']))
TRUSTED_BASE = list(TRUSTED_BASE) + ['tools/tables/py2coq.py + t_src_ext.py: typed fail-closed translator of is_constant, is_repeating, get_valid_classes, get_multiplicity, _get_const_period, n_slices into Gallina; coq/Common/PyOps2.v as the meaning of the translated primitives']


# source tie, stage A (integrator): _global_slice_subset and _get_changed_class are TRANSLATED from the AST on every run and the
# hand model (global_slice_subset, changed_class) is proved equal to the translation on stored content (Props/SRCalg.v)
COQ_PROPS = list(COQ_PROPS) + ['Props/SRCalg.v']
THEOREMS = list(THEOREMS) + ['SRC_global_slice_subset', 'SRC_changed_class']


# source tie, stage B (integrator): _change_class / _simplify are TRANSLATED in state-passing form (t_src_state.py) and the per-key
# model (change_class_k, simplify_k) is proved to be a refinement of the translation on the stored content (Props/SRCstate.v)
COQ_PROPS = list(COQ_PROPS) + ['Props/SRCstate.v']
THEOREMS = list(THEOREMS) + ['SRC_change_class', 'SRC_simplify', 'SRC_to_content_holds']
TABLES = sorted(set(list(TABLES) + ['t_src_state', 't_content', 't_cli']))
