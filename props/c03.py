"""C03 Merging is concatenation of per-position metadata (extension level: DcmMetaExtension.from_sequence).

Parts:
  * extlib.MergePart  -- one merge per case: model <-> implementation correspondence + the dense-reference oracle
  * TwiceMergePart    -- the SAME input objects merged twice: the second result must again be the concatenation
                         (a result that aliases value lists of its first input pollutes that input during the merge)
  * [HOOK] the image-level part (NiftiWrapper.from_sequence: data stacking, affine, ValueError on wrong orientation /
    non-increasing positions; props/imglib.py, coq/Wrapper/*) is added to PARTS by the integrator."""
import copy

from props import extlib, imglib

ID = 'C03'
COQ_PROPS = ['Props/C03.v', 'Props/C03img.v']
THEOREMS = ['C03_changed_class_den', 'C03_change_class_den', 'C03_change_class_total', 'C03_insert_k_den',
            'C03_merge_den', 'C03_nonslice', 'C03_total', 'C03_refuses',
            'C03_total_refuted_N1', 'C03_total_refuted_N3', 'C03_total_refuted_N4', 'C03_merge_den_refuted_N11']
ALLOWED_AXIOMS = []
TABLES = ['t_classes', 't_ext_tol']
RULE = ('see the parts: random merges whose inputs are restrictions of total functions on the output grid; '
        'non-trivial = some key varies in an input or along the merge axis, or an error')
TRUSTED_BASE = ['hand-written Gallina model coq/Ext/Model.v of from_sequence/_insert/_insert_slice/_insert_non_slice/'
                '_insert_sample/_get_changed_class/_change_class/_simplify, tied to the code by the correspondence run '
                '(Ext/Corr.v check_merge_dom) and by the generated class tables (_preserving_changes, _const_tests, '
                '_repeat_tests, valid-class slices) which the model and the proofs consume',
                'np.allclose on slice normals modelled exactly in Q (|a-b| <= atol + rtol|b|); affines are dyadic']
ASSUMPTIONS = ['values: Python == coincides with structural equality (generators never mix 1 / 1.0 / True, no NaN)',
               'inputs are >= 2 valid extensions of equal shape that share the slice dimension of the result '
               '(slice_dim argument None or equal to the inputs\'); nondegenerate inputs on the implementation side '
               '(the bare-vs-list inconsistency of multiplicity-1 varying classes is not modelled; the theorems do '
               'not need nondegeneracy)',
               'theorems exclude by explicit hypotheses the regions of the open findings N1 (4-D inputs with shape[3]==1 '
               'along dim 4 -> KeyError), N3 (no slice dimension, merge along time/vector -> TypeError), N4 (result shape '
               'with a trailing singleton -> ValueError in the final simplify); C03_total_refuted_N1/N3/N4 show the model '
               'reproduces these exceptions; the random streams stay outside those regions, corpus/C03 covers them',
               'the slice_dim argument, when given, equals the inputs\' own slice_dim: otherwise the real code builds invalid '
               'results / raises TypeError (open finding N11, C03_merge_den_refuted_N11, corpus/C03/N11_*.json)',
               'key order of the result is not modelled (compared as unordered maps)',
               'image level (NiftiWrapper.from_sequence) is a separate part added by the integrator']


# ------------------------------------------------------------------------------------------ generator truth

def expected_header(case):
    """What the merged header must be, from the CASE alone (documented parameters of from_sequence): the affine /
    slice_dim arguments when given, else the first input's."""
    E0 = case['exts'][0]
    aff = case['aff'] if case.get('aff') is not None else E0['aff']
    sd = case['sdim_arg'] if case.get('sdim_arg') is not None else E0['sdim']
    return aff, sd


def expected_shape(case):
    sh = list(case['exts'][0]['shape'])
    while len(sh) <= case['dim']:
        sh.append(1)
    sh[case['dim']] = len(case['exts'])
    return sh


def _normal(aff, sd, conv):
    """Slice normal under the library's current convention (affine ROW sd) or under the slice DIRECTION (column sd).
    The property does not fix the convention (open finding N13 is about exactly this), so the value clause accepts a
    result that is the concatenation under either one."""
    from fractions import Fraction
    if sd is None:
        return None
    if conv == 'row':
        return [Fraction(x) for x in aff[sd][:3]]
    return [Fraction(aff[i][sd]) for i in range(3)]


def _drops(case, conv):
    aff, sd = expected_header(case)
    rn = _normal(aff, sd, conv)
    out = []
    for E in case['exts']:
        en = _normal(E['aff'], E['sdim'], conv)
        out.append(not (rn is not None and en is not None and extlib.allclose(rn, en)))
    return out


def _value_failures(case, R, conv):
    """Value clause of C03 against the dense reference; R carries the EXPECTED shape / slice dim."""
    exts, dim = case['exts'], case['dim']
    drops = _drops(case, conv)
    ax = extlib.merge_axis_kind(dim, R['sdim'])
    dR = extlib.dims(R)
    out = []
    for k in extlib.keys_of(R, *exts):
        if ax is None:
            tabs = [[extlib.den(E, k, p, dr) for p in extlib.grid(extlib.dims(E))] for E, dr in zip(exts, drops)]
            agree = all(t == tabs[0] for t in tabs)
            got = [extlib.den(R, k, p) for p in extlib.grid(dR)]
            if agree and got != tabs[0]:
                out.append((k, 'key %r: all inputs agree but the result differs' % k))
            elif not agree and any(x is not None for x in got):
                out.append((k, 'key %r: inputs disagree but the key was kept' % k))
        else:
            for p in extlib.grid(dR):
                q = list(p)
                i = q[ax]
                q[ax] = 0
                a, b = extlib.den(R, k, p), extlib.den(exts[i], k, tuple(q), drops[i])
                if a != b:
                    out.append((k, 'key %r: result%r = %r but input %d at %r = %r' % (k, p, a, i, tuple(q), b)))
                    break
    return out


def merge_clauses(case, obs):
    """EVERY clause of C03 (extension level) evaluated on one observation -> list of (clause, key | None, message).
    Expected values come from the case (generator truth), never from the result's own header."""
    exts, dim = case['exts'], case['dim']
    sh = exts[0]['shape']
    if 'crash' in obs:
        return [('crash', None, 'unexpected %s in the runner: %s' % (obs.get('crash'), obs.get('msg')))]
    singular = dim < 5 and (dim >= len(sh) or sh[dim] == 1)
    if not singular:
        # outside the property's quantifier; the documented behaviour is a refusal (any exception class)
        return [] if 'err' in obs else [('refusal', None, 'non-singular merge axis / dim >= 5: expected a refusal, got a result')]
    if 'err' in obs:
        return [('raised', None, 'from_sequence(dim=%d) raised %s: %s' % (dim, obs.get('exc'), obs.get('msg')))]
    out = []
    R0 = obs['ext']
    exp_aff, exp_sd = expected_header(case)
    exp_shape = expected_shape(case)
    if R0['shape'] != exp_shape:
        return [('shape', None, 'result shape %r, expected %r' % (R0['shape'], exp_shape))]
    R = dict(R0, shape=exp_shape, sdim=exp_sd)
    # own length / class clause (check_valid is not trusted for this; den() would ignore surplus values)
    dR = extlib.dims(R)
    for k, c, vs in R['entries']:
        if not extlib.class_ok(exp_shape, c):
            out.append(('length', k, 'key %r sits in %s which the result shape does not admit' % (k, c)))
        elif len(vs) != extlib.mult(dR, c):
            out.append(('length', k, 'key %r: %d values in %s, the result shape needs %d' % (k, len(vs), c, extlib.mult(dR, c))))
    by_conv = {conv: _value_failures(case, R, conv) for conv in ('row', 'col')}
    best = min(('row', 'col'), key=lambda cv: len(by_conv[cv]))
    for k, m in by_conv[best]:
        out.append(('value', k, m))
    if R0['sdim'] != exp_sd:
        out.append(('header', None, 'result slice dim %r, expected %r (argument, else the first input\'s)' % (R0['sdim'], exp_sd)))
    if [[float(x) for x in row] for row in R0['aff']] != [[float(x) for x in row] for row in exp_aff]:
        out.append(('header', None, 'result affine is not the affine argument / the first input\'s affine'))
    if obs.get('input_untouched') is False:
        out.append(('untouched', None, 'from_sequence modified an input'))
    if obs.get('first_equal') is False:
        out.append(('twice', None, 'merging the same inputs twice gave two different results'))
    # (check_valid of the result is C07's statement; what C03's lookups need is the length / class clause above)
    return out


# ------------------------------------------------------------------------------------------ known findings

_PRES = {None: ['GConst', 'VSamples', 'TSamples', 'TSlices', 'VSlices', 'GSlices'],
         'GConst': ['VSamples', 'TSamples', 'TSlices', 'VSlices', 'GSlices'],
         'VSamples': ['TSamples', 'GSlices'], 'TSamples': ['GSlices'],
         'TSlices': ['VSlices', 'GSlices'], 'VSlices': ['GSlices'], 'GSlices': []}


def n11_predict(case):
    """Class-level replay of a merge ALONG THE SLICE AXIS whose slice_dim argument differs from some input's own
    slice_dim -> (type_error, count_keys): type_error = some key reaches the general (interleave) path of the slice
    insertion at a step whose input has no slice_dim (its slice count is None there); count_keys = keys that are
    widened to a per-slice class at a step whose input counts its slices along another axis of extent != 1 (the input
    then contributes that many values per volume instead of one).  That is the mechanism of finding N11."""
    exts, dim, sd = case['exts'], case['dim'], case.get('sdim_arg')
    if sd is None or dim != sd or dim >= 3 or all(E['sdim'] == sd for E in exts):
        return False, set()
    sh = exts[0]['shape']
    if any(E['shape'] != sh for E in exts) or len(sh) <= dim or sh[dim] != 1:
        return False, set()
    aff, _ = expected_header(case)
    rn = _normal(aff, sd, 'row')
    nd = len(sh)
    bases = (['time'] if nd == 4 or (nd == 5 and sh[3] != 1) else []) + (['vector'] if nd == 5 else []) + ['global']
    first_slices = {'time': 'TSlices', 'vector': 'VSlices', 'global': 'GSlices'}[bases[0]]

    def visible(E, k):
        ent = extlib.entry_map(E).get(k)
        if ent is None or not extlib.class_ok(E['shape'], ent[0]):
            return None
        en = _normal(E['aff'], E['sdim'], 'row')
        use = rn is not None and en is not None and extlib.allclose(rn, en)
        if extlib.PYCLS[ent[0]][1] == 'slices' and not use:
            return None
        return ent

    type_error, count_keys = False, set()
    for k in extlib.keys_of(*exts):
        ent = visible(exts[0], k)
        lc, lval = (ent[0], ent[1][0] if ent[0] == 'GConst' else None) if ent else (None, None)
        for E in exts[1:]:
            o = visible(E, k)
            if o is None and lc is None:
                continue
            oc, oval = (o[0], o[1][0] if o[0] == 'GConst' else None) if o else ('GConst', None)
            if lc != oc:                                   # reclassification
                if oc in _PRES[lc]:
                    lc, lval = oc, (None if lc is None else lval)
                elif lc not in _PRES[oc]:
                    lc = 'GSlices'
            general = False
            if lc == 'GConst':
                if lval == oval:
                    continue
                lc = first_slices
            elif lc != 'TSlices':
                general = True
                lc = 'GSlices'
            if general and E['sdim'] is None:
                type_error = True
            if E['sdim'] is not None and E['sdim'] != sd and E['shape'][E['sdim']] != 1:
                count_keys.add(k)
    return type_error, count_keys


def sig_n11(case, obs, msg=None):
    """Signature of the open finding N11, re-derived: the observed failure must be the one the mechanism predicts
    (TypeError where the replay reaches the interleave with an input whose slice count is None; or wrong value counts /
    values on exactly the keys that the replay widens with the input's own slice count).  Anything else in such a case
    (another exception class, a crash, a header / shape / untouched failure, another key) is NOT N11."""
    type_error, count_keys = n11_predict(case)
    if not type_error and not count_keys:
        return None
    cl = merge_clauses(case, obs)
    tag = _tag_of(msg)
    if tag == 'raised' and obs.get('exc') == 'TypeError' and type_error:
        return 'merge/slice-dim-arg-mismatch'
    if tag in ('length', 'value') and 'err' not in obs:
        bad = [k for c, k, _ in cl if c in ('length', 'value')]
        if bad and set(bad) <= count_keys:
            return 'merge/slice-dim-arg-mismatch'
    return None


_TAGS = ('crash', 'refusal', 'raised', 'shape', 'length', 'value', 'header', 'untouched', 'twice')


def _fmt(clause, m):
    return '[%s] %s' % (clause, m)


def _tag_of(msg):
    """The clause tag this plugin's own oracle put in front of the message."""
    if msg and msg.startswith('[') and ']' in msg:
        t = msg[1:msg.index(']')]
        return t if t in _TAGS else None
    return None


_KNOWN = None


def _known_sigs():
    global _KNOWN
    if _KNOWN is None:
        import os, re
        _KNOWN = set()
        path = os.path.join(os.path.dirname(os.path.dirname(os.path.abspath(__file__))), 'known-findings.txt')
        if os.path.exists(path):
            for line in open(path):
                m = re.match(r'open:\s+property=(\S+)\s+sig=(\S+)\s', line.strip())
                if m and m.group(1) == ID:
                    _KNOWN.add(m.group(2))
    return _KNOWN


def _signature(prefix, case, obs, msg):
    tag = _tag_of(msg)
    s = sig_n11(case, obs, msg)
    if s:
        return s
    if tag == 'raised':
        s = extlib.finding_sig_merge(case, obs)
        if s:
            return s
    what = obs.get('exc') if tag == 'raised' else (tag or 'unknown')
    return '%s/%s/dim%d/%s' % (prefix, extlib.shape_family(case['exts'][0]['shape']), case['dim'], what)


def _oracle(prefix, case, obs):
    """Collect every clause, then prefer a message that is NOT a known finding (rule: collect, then prefer the unknown)."""
    msgs = [_fmt(c, m) for c, _, m in merge_clauses(case, obs)]
    if not msgs:
        return None
    known = _known_sigs()
    for m in msgs:
        if _signature(prefix, case, obs, m) not in known:
            return m
    return msgs[0]


def _extra_cases(rng, tier, prefix):
    """Regions the shared generator leaves out and the library supports: an affine ARGUMENT different from the inputs'
    affines (the result must carry it, and per-slice data is kept only for inputs whose normal matches IT), inputs with
    a trailing singleton axis merged along that axis ((X,Y,Z,1) along time, (X,Y,Z,T,1) along vector), 6-7 inputs."""
    out = []
    n = 40 if tier == 'quick' else 300
    for _ in range(n):
        c = extlib.gen_merge_case(rng, tier)
        E0 = c['exts'][0]
        if E0['sdim'] is not None and rng.random() < 0.5:
            c['aff'] = extlib.other_normal_affine(rng, E0['aff'], E0['sdim'])
        else:
            c['aff'] = extlib.gen_affine(rng)
        c['kind'] = prefix + '/aff-arg'
        out.append(c)
    for _ in range(n // 2):
        dim, nd = rng.choice([(3, 4), (4, 5)])
        c = extlib.gen_merge_case(rng, tier, dim=dim, ndim_in=nd)
        c['kind'] = prefix + '/trailing1-along-last'
        out.append(c)
    for _ in range(n // 4):
        c = extlib.gen_merge_case(rng, tier)
        while len(c['exts']) < 6:
            c['exts'].append(copy.deepcopy(rng.choice(c['exts'])))
        c['kind'] = prefix + '/many-inputs'      # the oracle judges against the inputs themselves, so copies are fine
        out.append(c)
    return out


class MergePart(extlib.MergePart):
    """extlib.MergePart (generator, runner, Coq rendering) with C03's own oracle: all clauses judged against generator
    truth, collected, and signatures that re-derive the mechanism of the open findings."""
    NAME = 'merge'
    RULE = ('a deterministic systematic block (extlib.systematic_merge_cases: merge axis kind x input dimensionality x every '
            'classification of the key x value pattern, small extents, present in every seed), then ' + extlib.MergePart.RULE +
            '; plus cases with an affine argument different from the inputs\', trailing-singleton inputs merged along that '
            'axis and 6-7 inputs')

    @staticmethod
    def gen_cases(rng, tier):
        # systematic block first (deterministic, the same in every seed), then the random streams
        return extlib.systematic_merge_cases() + extlib.MergePart.gen_cases(rng, tier) + _extra_cases(rng, tier, 'merge')

    @staticmethod
    def oracle(case, obs):
        return _oracle('merge', case, obs)

    @staticmethod
    def signature(case, obs, msg):
        return _signature('merge', case, obs, msg)


def run_twice(case):
    """Merge the same input OBJECTS twice; observe the second result."""
    def go():
        np, dcmmeta = extlib._imports()
        exts = [extlib.build_ext(E) for E in case['exts']]
        before = [extlib.ext_to_json(x) for x in exts]
        aff = None if case.get('aff') is None else np.array(case['aff'], dtype=float)
        r1 = dcmmeta.DcmMetaExtension.from_sequence(exts, case['dim'], aff, case.get('sdim_arg'))
        j1 = extlib.ext_to_json(r1)
        try:
            r2 = dcmmeta.DcmMetaExtension.from_sequence(exts, case['dim'], aff, case.get('sdim_arg'))
        finally:
            untouched = [extlib.ext_to_json(x) for x in exts] == before
        out = {'ext': extlib.ext_to_json(r2), 'input_untouched': untouched, 'first_equal': j1 == extlib.ext_to_json(r2)}
        try:
            r2.check_valid()
            out['valid'] = True
        except Exception:           # noqa: BLE001
            out['valid'] = False
        return out
    return extlib._guard(go)


class TwiceMergePart:
    """Two merges over the same input objects: inputs must not be polluted by the first merge (C13 seen from C03)."""
    NAME = 'twice'
    CORR_REQUIRE = extlib.MergePart.CORR_REQUIRE
    CORR_CASE_TYPE = extlib.MergePart.CORR_CASE_TYPE
    CORR_CHECK = extlib.MergePart.CORR_CHECK
    CORR_SHOW = extlib.MergePart.CORR_SHOW
    SHARD = 60
    IMPL_TIMEOUT = 20
    RULE = ('the systematic block of extlib.systematic_merge_cases (slice / time / vector axes, patterns alldiff and repvol) '
            'and merge cases as in the merge part, restricted to the slice / time / vector axes and biased to keys that change '
            'class during the merge, plus cases with an affine argument different from the inputs\'; the same '
            'DcmMetaExtension objects are passed to from_sequence twice and the SECOND result is judged (values, value '
            'counts, result affine / slice dim against the case) and compared with the model')

    @staticmethod
    def gen_cases(rng, tier):
        n = 160 if tier == 'quick' else 1500
        out = []
        for c in extlib.systematic_merge_cases():       # systematic block (every seed): the axis merges that grow lists
            _, axis, _, _, pat = c['kind'].split('/')
            if not axis.startswith('nonslice') and pat in ('alldiff', 'repvol'):
                c['kind'] = 'twice/' + c['kind']
                out.append(c)
        n += len(out)
        while len(out) < n:
            c = extlib.gen_merge_case(rng, tier, dim=rng.choice([0, 1, 2, 2, 3, 3, 4, 4]))
            if rng.random() < 0.15:
                c['aff'] = extlib.gen_affine(rng)
            c['kind'] = 'twice/' + c['kind']
            out.append(c)
        return out

    run_impl = staticmethod(run_twice)
    coq_case = staticmethod(extlib.merge_case_to_coq)

    @staticmethod
    def oracle(case, obs):
        return _oracle('twice', case, obs)

    @staticmethod
    def signature(case, obs, msg):
        return _signature('twice', case, obs, msg)

    nontrivial = staticmethod(extlib.MergePart.nontrivial)
    shrink = staticmethod(extlib.MergePart.shrink)


# image-level part (NiftiWrapper.from_sequence: data stacking, affine, refusals) from props/imglib.py / coq/Wrapper/*
PARTS = [MergePart, TwiceMergePart, imglib.for_property(imglib.ImgMergePart, 'C03')]
THEOREMS = list(THEOREMS) + imglib.THEOREMS['Props/C03img.v']
TRUSTED_BASE = list(TRUSTED_BASE) + imglib.TRUSTED_BASE
ASSUMPTIONS = list(ASSUMPTIONS) + imglib.ASSUMPTIONS


# source tie (integrator): the helper functions the extension model rests on are TRANSLATED from the Python AST on every
# run (tools/tables/py2coq.py, t_src_ext.py -> Generated/T_src_ext.v) and the hand models are proved equal to the translation
COQ_PROPS = (list(COQ_PROPS) if isinstance(COQ_PROPS, (list, tuple)) else [COQ_PROPS]) + ['Props/SRC.v']
THEOREMS = list(THEOREMS) + ['SRC_valid_classes', 'SRC_class_valid', 'SRC_multiplicity', 'SRC_is_constant', 'SRC_is_repeating', 'SRC_const_period', 'SRC_n_slices']
TABLES = sorted(set(list(globals().get('TABLES') or ['t_classes', 't_ext_tol']) + ['t_src_ext', 't_classes', 't_ext_tol']))
TRUSTED_BASE = list(TRUSTED_BASE) + ['tools/tables/py2coq.py + t_src_ext.py: typed fail-closed translator of is_constant, is_repeating, get_valid_classes, get_multiplicity, _get_const_period, n_slices into Gallina; coq/Common/PyOps2.v as the meaning of the translated primitives']


# source tie, stage A (integrator): _global_slice_subset and _get_changed_class are TRANSLATED from the AST on every run and the
# hand model (global_slice_subset, changed_class) is proved equal to the translation on stored content (Props/SRCalg.v)
COQ_PROPS = list(COQ_PROPS) + ['Props/SRCalg.v']
THEOREMS = list(THEOREMS) + ['SRC_global_slice_subset', 'SRC_changed_class']


# source tie, stage B (integrator): _change_class / _simplify are TRANSLATED in state-passing form (t_src_state.py) and the per-key
# model (change_class_k, simplify_k) is proved to be a refinement of the translation on the stored content (Props/SRCstate.v)
COQ_PROPS = list(COQ_PROPS) + ['Props/SRCstate.v']
THEOREMS = list(THEOREMS) + ['SRC_change_class', 'SRC_simplify', 'SRC_to_content_holds']
TABLES = sorted(set(list(TABLES) + ['t_src_state', 't_content', 't_cli']))


# source tie, stage D (integrator): _insert_slice TRANSLATED in state-passing form and proved a refinement of insert_slice_k for the five
# varying classes (Props/SRCinsert.v); the ('global','const') path is translated and executed against the code only
COQ_PROPS = list(COQ_PROPS) + ['Props/SRCinsert.v']
THEOREMS = list(THEOREMS) + ['SRC_insert_slice', 'SRC_insert_non_slice', 'SRC_insert_sample']


# source tie, stage D (integrator): _insert as a whole TRANSLATED and proved to refine insert_k over all keys (success-case form), and the
# reclassification step refines reclassify_k (Props/SRCinsertall.v)
COQ_PROPS = list(COQ_PROPS) + ['Props/SRCinsertall.v']
THEOREMS = list(THEOREMS) + ['SRC_insert', 'SRC_reclassify']


# source tie, stage D (integrator): from_sequence as a whole TRANSLATED and proved to refine merge_hdr + merge_k over all keys
# (success-case form) (Props/SRCfromseq.v)
COQ_PROPS = list(COQ_PROPS) + ['Props/SRCfromseq.v']
THEOREMS = list(THEOREMS) + ['SRC_from_sequence', 'SRC_merge_hdr']


# source tie, end to end (integrator): Props/SRCtop.v composes the translated get_subset / from_sequence with Link.Abs.to_content:
# for valid nondegenerate extensions the code's method on to_content e returns a content that Holds exactly the hand model's result
COQ_PROPS = list(COQ_PROPS) + ['Props/SRCtop.v']
THEOREMS = list(THEOREMS) + ['SRC_top_from_sequence', 'SRC_top_from_sequence_valid', 'SRC_traj_okb_sound', 'SRC_from_sequence_ext', 'SRC_valid_inputs']
