"""C20HDR -- development plugin for the header half of C20 (the integrator adds convlib.HeaderPart and
Props/C20hdr.v to props/c20.py)."""
import os, sys
sys.path.insert(0, os.path.dirname(os.path.abspath(__file__)))
import convlib as cl

ID = "C20HDR"
COQ_PROPS = "Props/C20hdr.v"
COQ_EXTRA_TARGETS = ["Conv/CorrGeom.vo"]
THEOREMS = ["C20_hdr_slice_axis", "C20_hdr_freq_phase", "C20_hdr_directions", "C20_hdr_tr", "C20_hdr_slice_times", "C20_hdr_rel_times"]
ALLOWED_AXIOMS = []
TABLES = ["t_stack", "t_time", "t_conv"]
TRUSTED_BASE = [
    "Conv/Header.v models the ARGUMENT handed to Nifti1Header.set_slice_times (captured by wrapping the method), not nibabel's encoding "
    "into slice_duration / slice_code (HeaderDataError is swallowed by the code)",
    "Conv/Geom.v DicomWrapper contract, Stack/Model.v, Orient/Model.v, Time/Model.v (dcm_time_to_sec) as in C02 / C11 / C17 / C20-tm",
]
ASSUMPTIONS = [
    "AcquisitionTime values are DICOM TM strings with finite value; RepetitionTime values are exactly representable in float32 (pixdim)",
]
PARTS = [cl.HeaderPart]
