"""C20 — header timing and axis info; TM strings.   (part "tm": DICOM TM strings -> seconds)"""
import os, re, math
from fractions import Fraction
from vlib.coqlit import *

ID = "C20"
COQ_PROPS = ["Props/C20.v", "Props/C20hdr.v"]
THEOREMS = ["C20_tm_same", "C20_tm_h", "C20_tm_hm", "C20_tm_hms",
            "C20_tm_src_is_model", "C20_tm_src_same", "C20_tm_src_hms", "C20_tm_src_hm", "C20_tm_src_h",
            "C20_hdr_slice_axis", "C20_hdr_freq_phase", "C20_hdr_directions", "C20_hdr_tr", "C20_hdr_slice_times", "C20_hdr_rel_times"]
TABLES = ["t_time", "t_stack", "t_conv"]
COQ_EXTRA_TARGETS = ["Conv/CorrGeom.vo"]
ALLOWED_AXIOMS = []
TRUSTED_BASE = ["tools/tables/t_time.py: statement-by-statement translator of the two TM functions into Gallina (fail-closed outside its vocabulary); Common/PyOps.v as the meaning of the translated primitives",
                "Common/F64.v `fl` as the model of IEEE binary64 round-to-nearest-even (Python float(), int+float)",
                "Common/PyNum.v py_int / py_float as models of Python int() / float() on strings without non-ASCII digits"]
ASSUMPTIONS = ["TM strings are ASCII; signed zero is not distinguished"]


def _obs(f, s):
    try:
        v = f(s)
    except ValueError:
        return {"err": "EValue"}
    except IndexError:
        return {"err": "EIndex"}
    if isinstance(v, bool) or not isinstance(v, (int, float)):
        return {"other": type(v).__name__, "repr": repr(v)[:80]}
    if isinstance(v, int):      # the property speaks of a number of seconds, not of its Python type
        return {"num": str(v), "den": "1", "hex": float(v).hex() if abs(v) < 2 ** 53 else None, "int": True}
    if math.isnan(v):
        return {"nan": True}
    if math.isinf(v):
        return {"inf": v < 0}
    fr = Fraction(v)
    return {"num": str(fr.numerator), "den": str(fr.denominator), "hex": v.hex()}


def _tobs(o):
    if "err" in o:
        return "(TErr %s)" % o["err"]
    if "crash" in o or "other" in o:
        return "(TErr ECrash)"
    if "nan" in o:
        return "TNan"
    if "inf" in o:
        return "(TInf %s)" % cbool(o["inf"])
    return "(TVal (%s # %s))" % (o["num"], o["den"])


class Tm:
    NAME = "tm"
    CORR_REQUIRE = "From DV Require Import Time.Model Time.Corr."
    CORR_CASE_TYPE = "Corr.case"
    CORR_CHECK = "Corr.check"
    CORR_SHOW = "Corr.show"
    SHARD = 400
    RULE = ("TM strings over the full grammar (HH, HHMM, HHMMSS, HHMMSS.F{1..6}, with and without colons) plus a malformed "
            "stream (mutations, empty, signs, spaces, underscores, exponents); non-trivial = has a fractional part or minutes, or is an error case")

    @staticmethod
    def gen_cases(rng, tier):
        n = 1500 if tier == "quick" else 60000
        out = []
        for i in range(n):
            r = rng.random()
            hh, mm, ss = rng.randrange(0, 24), rng.randrange(0, 60), rng.randrange(0, 60)
            if rng.random() < 0.1:
                hh, mm, ss = rng.randrange(0, 100), rng.randrange(0, 100), rng.randrange(0, 100)
            col = ":" if rng.random() < 0.4 else ""
            form = rng.choice(["h", "hm", "hms", "hmsf", "hmsf", "hmsf"])
            if form == "h":
                s = "%02d" % hh
            elif form == "hm":
                s = "%02d%s%02d" % (hh, col, mm)
            elif form == "hms":
                s = "%02d%s%02d%s%02d" % (hh, col, mm, col, ss)
            else:
                nd = rng.randrange(1, 7)
                s = "%02d%s%02d%s%02d.%s" % (hh, col, mm, col, ss, "".join(rng.choice("0123456789") for _ in range(nd)))
            kind = "valid-" + form + ("-colon" if col else "")
            if r < 0.2:   # malformed stream
                kind = "malformed"
                m = rng.randrange(8)
                if m == 0:
                    s = ""
                elif m == 1:
                    p = rng.randrange(len(s) + 1)
                    s = s[:p] + rng.choice("x -+_e.: \t9") + s[p:]
                elif m == 2:
                    s = s[:rng.randrange(len(s) + 1)]
                elif m == 3:
                    s = rng.choice(["ab", "1", "1:", "::", "12:3", "123", "12345", "1e5", "12 34", " 1234", "1234 ", "12__", "1_2", "+1", "-1", "12345e1", "1234.5e2", "12341e400", "1234inf", "1234nan", "12:34:5", "9999999"])
                elif m == 4:
                    s = s + rng.choice(["e1", "E-2", " ", "_", "..", "x"])
                elif m == 5:
                    s = "".join(rng.choice("0123456789:. _+-e") for _ in range(rng.randrange(0, 12)))
                elif m == 6:
                    s = s.replace(".", rng.choice(["", ",", "..", ". "]))
                else:
                    s = rng.choice(["١٢", "12 ", "１２", "12 "])
                    kind = "malformed-nonascii"
                    if any(c.isdigit() and not c.isascii() for c in s):
                        continue   # outside the model's domain (non-ASCII decimal digits)
            out.append({"kind": kind, "s": s})
        return out

    @staticmethod
    def run_impl(case):
        import dcmstack
        from dcmstack import extract
        return {"a": _obs(dcmstack.dcm_time_to_sec, case["s"]), "b": _obs(extract.tm_to_seconds, case["s"])}

    @staticmethod
    def coq_case(case, obs):
        return "{| c_str := %s; c_valid := %s; c_obs1 := %s; c_obs2 := %s |}" % (cstr(case["s"]), cbool(Tm.valid_tm(case["s"])), _tobs(obs["a"]), _tobs(obs["b"]))

    @staticmethod
    def valid_tm(s):
        m = Tm._rx.match(s)
        if not m:
            return False
        hh, mm, ss, ff = m.groups()
        if ":" in s and s.count(":") != (2 if ss is not None else 1 if mm is not None else 0):
            return False
        return not (int(hh) > 23 or (mm and int(mm) > 59) or (ss and int(ss) > 60))

    _rx = re.compile(r"^(\d\d)(?::?(\d\d)(?::?(\d\d)(?:\.(\d{1,6}))?)?)?$")

    @staticmethod
    def oracle(case, obs):
        if not isinstance(obs, dict) or "a" not in obs or "b" not in obs:
            return "[harness] no observation for TM %r: %r" % (case["s"], obs)
        a, b = obs["a"], obs["b"]
        m = Tm._rx.match(case["s"])
        if not m:
            return None      # the property speaks about valid TM strings only
        hh, mm, ss, ff = m.groups()
        if ":" in case["s"] and case["s"].count(":") != (2 if ss is not None else 1 if mm is not None else 0):
            return None      # colons must separate every field or none
        if int(hh) > 23 or (mm and int(mm) > 59) or (ss and int(ss) > 60):
            return None      # not a valid TM value (DICOM: 00-23, 00-59, 00-60); the model is exact there, the property silent
        msgs = []
        # exact value hh*3600 + mm*60 + ss.ffffff as a rational; an implementation may round once or twice on the way
        want = Fraction(int(hh) * 3600 + (int(mm) * 60 if mm else 0)) + (Fraction(ss + ("." + ff if ff else "")) if ss else 0)
        for name, o in (("dcmstack.dcm_time_to_sec", a), ("extract.tm_to_seconds", b)):
            if "num" not in o:
                msgs.append("[raised] %s(%r) gives %r for a valid TM string" % (name, case["s"], o))
            elif abs(Fraction(int(o["num"]), int(o["den"])) - want) > Fraction(1, 2 ** 34):
                msgs.append("[value] %s(%r) = %s/%s, expected hh*3600+mm*60+ss.ffffff = %s" % (name, case["s"], o["num"], o["den"], want))
        if "num" in a and "num" in b and (a["num"], a["den"]) != (b["num"], b["den"]):
            msgs.append("[differ] the two implementations disagree on the TM string %r: %s/%s vs %s/%s" % (case["s"], a["num"], a["den"], b["num"], b["den"]))
        return msgs[0] if msgs else None

    @staticmethod
    def signature(case, obs, msg):
        m = re.match(r"\[(\w+)\]", msg)
        return "tm/" + (m.group(1) if m else "other")

    @staticmethod
    def nontrivial(case, obs):
        return case["kind"] != "valid-h"

    @staticmethod
    def shrink(case):
        s = case["s"]
        for i in range(len(s)):
            yield {"kind": case["kind"], "s": s[:i] + s[i + 1:]}


from props import convlib
PARTS = [Tm, convlib.HeaderPart]
TRUSTED_BASE = TRUSTED_BASE + ['header half: hand models coq/Stack/Model.v, coq/Orient/Model.v, coq/Conv/Geom.v, coq/Conv/Header.v tied to DicomStack.to_nifti by the header correspondence part; the DicomWrapper geometry is a contract (definitions), nibabel header encoders are outside (the ARGUMENT handed to set_slice_times is what is modelled)']
ASSUMPTIONS = ASSUMPTIONS + ['header half: dyadic geometry so that float arithmetic is exact; accepted stacks; classic single-frame datasets']
