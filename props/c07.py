"""C07 — every extension the library produces is valid (closure of validity under all operations).

Parts:
  ops      random histories of extension-level operations (get_subset, DcmMetaExtension.from_sequence with fresh
           valid partners, filter_meta, clear_slice_meta, nitool inject through a NIfTI file) applied by the REAL
           code; per step the produced extension, check_valid(), to_json().  Coq: Ext/OpsCorr.v check_ops (the
           model's `apply` sequence gives the same extensions and the same validb at every step).
  wrap     NiftiWrapper level (oracle only; the image-level model belongs to another property): make_empty=True
           wrapping, split, NiftiWrapper.from_sequence of the pieces: extension valid, ext.shape == img.shape,
           slice dim equal, affine allclose (3x3 part only after a split).
  degen    the region of the open finding N10 (inject into a varying class of multiplicity one), oracle only.
  conv     stack conversion: DicomStack.to_nifti(order, embed_meta=True) / to_nifti_wrapper(order) on synthetic series
           (axial / sagittal / coronal / oblique x all six output axis orders, cyclic permutations included, and '');
           the embedded extension is valid, agrees with the image (shape, affine) and its slice dim is the header's AND
           the axis along which the source slices really are stacked (files located by their pixel values); the per-file
           extensions stay valid.  Coq: Conv/CorrMeta.v check (the conversion model of C01), theorem C07_conversion_valid.
  reuse    converted volumes split along time / vector / slice, merged, merged again from the same pieces; after EVERY
           step EVERY wrapper produced so far is validated again.  Oracle only.
  convops  histories whose start is the extension embedded by a conversion (the operations are drawn at run time from the
           case's seed, because they depend on the shape of the conversion result).  Coq: Ext/OpsCorr.v check_ops.
In `ops` too, every extension produced so far (start, partners, earlier results) is re-validated after every step.

What counts as a C07 failure (AUDIT-2 TOP 9): an extension is judged as the library PRODUCED it, never through the
validating NiftiWrapper constructor: after inject / to_nifti it is read from the NIfTI header directly; where the producing
call itself ends in that constructor (to_nifti_wrapper, NiftiWrapper.split / from_sequence), a MissingExtensionError /
InvalidExtensionError of the producing call IS the failure ("produced an extension the library itself rejects").  Every
result is also serialised, loaded again with from_json, written with to_filename and read back.  Exceptions other than
those mean that nothing was produced and are not C07's business."""
import os, copy, json
from fractions import Fraction
from vlib.coqlit import cnat, cbool, clist, copt, cpair, cstr, cjv
from props import extlib as X
from props.extlib import (CLASSES, PYCLS, PREF, class_ok, dims, mult, grid, cidx, keys_of, entry_map, subset_shape,
                          gen_affine, other_normal_affine, gen_alphabet, gen_fn, encode, mk_E, ext_to_coq, caff,
                          ext_to_json, build_ext, is_nondegenerate, trailing1, shape_family)

ID = 'C07'
COQ_PROPS = 'Props/C07.v'
THEOREMS = ['C07_validb_exact', 'C07_make_empty', 'C07_make_empty_total', 'C07_subset', 'C07_merge', 'C07_filter',
            'C07_clear_slices', 'C07_inject', 'C07_inject_nondegenerate_refuted', 'C07_closure', 'C07_merge_shape',
            'C07_subset_shape', 'C07_conversion_valid']
ALLOWED_AXIOMS = []
TABLES = ['t_classes', 't_ext_tol', 't_stack', 't_filter']
TRUSTED_BASE = [
    'hand-written Gallina model coq/Ext/Model.v (make_empty, get_subset, from_sequence and everything below them) and '
    'coq/Ext/Ops.v (filter_meta, clear_slice_meta, the nitool inject logic, op sequences), tied to the code by the '
    'correspondence run Ext/OpsCorr.v check_ops on every step of every generated history and by the generated class tables',
    'nitool inject is exercised in-process (nitool_cli.inject with an argparse.Namespace) on a NIfTI file written under '
    '$VERIF_WORK (a .nii.gz: nitool inject / embed save over the file they loaded, which corrupts the voxel data or dies with '
    'SIGBUS on memory-mapped uncompressed .nii files - reported separately); argparse itself (nargs="+" => at least one value) '
    'and nibabel file I/O are run-time only',
    'image level (wrap part): nibabel Nifti1Image / header is not modelled here; agreement of extension and image geometry '
    'is checked by the oracle only (the image-level theorems belong to C03/C04)']
ASSUMPTIONS = [
    'inputs are valid and nondegenerate (no key in a varying class of multiplicity 1); get_subset indices are in range '
    '(get_subset does not validate idx: an out-of-range index along the slice axis can return an invalid extension, e.g. '
    'shape (2,2,3,1,3), a ("global","slices") key, get_subset(2,3))',
    'from_sequence: all inputs have the shape and slice dimension of the first; a slice_dim argument, when given, is that '
    'slice dimension (merge_dom); inputs with another slice dimension or none are outside the proved domain (there the real '
    'code can build invalid results: open finding N11, reported under C03)',
    'closure theorems are conditional on the operation returning a result: in the regions of the open findings N1-N4 the '
    'model, like the code, raises, so nothing is produced there',
    'inject: validity is closed unconditionally; nondegeneracy only when the injected classification is ("global","const") or '
    'has multiplicity != 1 (C07_inject_nondegenerate_refuted, open finding N10: the real code stores a bare value there, which '
    'a later split indexes as a list)',
    'latent, unreachable from get_subset / from_sequence: _const_tests[("vector","slices")] -> ("time","samples") would store '
    'T values where T*V are required in 5-D with V > 1 (simplify_k_valid carries the hypothesis simp_dom)',
    'values: Python == coincides with structural equality (one value kind per key in a case; never 1 / 1.0 / True mixed)',
    'key order of results is not modelled (compared as unordered maps; C13_key_order_* shows the model does not depend on it)',
    'a history stops at the first operation that raises / is refused (Ops.run); inject refusals (return code 1) are Err EValue',
    'the borrowed correspondence checks (conv: C01 Conv/CorrMeta.v; imgmerge / imgsplit / imgrt: C03 / C04 / C05 Wrapper/Corr.v) '
    'carry BORROWED_FROM; their oracles are restricted to the C07 clauses, which are evaluated before the borrowed ones',
    'stack conversion: C07_conversion_valid is the validity half of C01_lossless with its hypotheses (well-formed stack, files '
    'covered, slice normals pairwise np.allclose: open finding N9); permutation and output affine are read from the '
    'implementation as in C01; that an object produced EARLIER stays valid when later operations run is a heap property, '
    'checked at run time only (ops / conv / reuse re-validate everything after every step)']

KEYS = ['EchoTime', 'SliceLocation', 'k', 'AcquisitionTime', 'CsaImage.B_value', 'ImageType', 'a b', 'Zü', 'x0', 'x1']
KIND_OF = {'EchoTime': 'float', 'SliceLocation': 'int', 'k': 'str', 'AcquisitionTime': 'str', 'CsaImage.B_value': 'int',
           'ImageType': 'list', 'a b': 'nested', 'Zü': 'bool', 'x0': 'int', 'x1': 'float'}
INJ_KEYS = {'InjS': 'str', 'InjI': 'int', 'InjF': 'float', 'k': 'str', 'x0': 'int'}
INJ_POOL = {'str': ['ab', 'x y', '', 'Müller', 'AX', 'b', 'a'], 'int': [0, 1, 2, 3, 7, -5, 100, 65536],
            'float': [0.5, 1.5, -2.25, 3.75, 0.001, 25000000000.0]}
ID_AFF = [[1.0, 0.0, 0.0, 0.0], [0.0, 1.0, 0.0, 0.0], [0.0, 0.0, 1.0, 0.0], [0.0, 0.0, 0.0, 1.0]]


# ------------------------------------------------------------------------------------------ generators

def gen_keyed_ext(rng, shape, sdim, aff, nkeys=None, widen=0.3, keys=None):
    """A valid nondegenerate extension; every key draws its values from the alphabet kind fixed for that key."""
    d = dims({'shape': shape, 'sdim': sdim})
    nkeys = rng.randint(0, 4) if nkeys is None else nkeys
    ents = {}
    for k in (keys if keys is not None else rng.sample(KEYS, nkeys)):
        f = gen_fn(rng, d, rng.choice(X.PATTERNS[:9]), alphabet=gen_alphabet(rng, KIND_OF.get(k, INJ_KEYS.get(k, 'int'))))
        e = encode(rng, shape, sdim, f, widen)
        if e is not None:
            ents[k] = e
    return mk_E(shape, sdim, aff, ents)


def gen_start_shape(rng, tier):
    hi = 3 if tier == 'quick' else 4
    fam = rng.choice(['any', 'any', 'any', '4d-t1', '5d-t1', 'slice1', '3d'])
    sdim = rng.choice([0, 1, 2, 2, 2, None])
    sh = [rng.randint(1, 3) for _ in range(3)]
    if sdim is not None:
        sh[sdim] = rng.randint(2, hi)
    if fam == '3d':
        pass
    elif fam == '4d-t1':
        sh.append(1)
    elif fam == '5d-t1':
        sh += [1, rng.randint(2, hi)]
    else:
        nd = rng.choice([3, 4, 4, 5, 5])
        if nd >= 4:
            sh.append(rng.randint(2, hi))
        if nd == 5:
            sh.append(rng.randint(2, hi))
        if fam == 'slice1' and sdim is not None:
            sh[sdim] = 1
    return sh, sdim, fam


def merge_shape(shape, dim, n):
    out = list(shape)
    while len(out) <= dim:
        out.append(1)
    out[dim] = n
    return out


def gen_inject(rng, shape, sdim, known_keys):
    d = dims({'shape': shape, 'sdim': sdim})
    ok = [c for c in CLASSES if class_ok(shape, c) and (c == 'GConst' or mult(d, c) != 1)
          and (sdim is not None or PYCLS[c][1] != 'slices')]
    r = rng.random()
    key = rng.choice(list(INJ_KEYS))
    # a key that (very probably) exists already, mostly with --force-overwrite and into whatever class is drawn (usually
    # another one than the key sits in): the old entry has to go from the class that holds it
    existing = [k for k in sorted(known_keys) if KIND_OF.get(k, INJ_KEYS.get(k)) in INJ_POOL]
    overwrite = bool(existing) and rng.random() < 0.45
    if overwrite:
        key = rng.choice(existing)
    kind = KIND_OF.get(key, INJ_KEYS.get(key))
    c = rng.choice(ok)
    n = mult(d, c)
    what = 'ok'
    if r < 0.08:
        bad = [x for x in CLASSES if not class_ok(shape, x)]
        if bad:
            c, what = rng.choice(bad), 'bad-class'
            n = 1
    elif r < 0.16:
        n, what = n + rng.choice([1, 2]), 'bad-count'
    vals = [copy.deepcopy(rng.choice(INJ_POOL[kind])) for _ in range(n)]
    if kind == 'str' and len(set(vals)) == 1 and n > 1 and rng.random() < 0.5:
        vals[-1] = 'zz'
    force = rng.random() < (0.85 if overwrite else 0.5)
    typ = rng.choice([None, kind]) if kind != 'str' else rng.choice([None, 'str'])
    return {'op': 'inject', 'cls': c, 'key': key, 'values': vals, 'vkind': kind, 'type': typ, 'force': force, 'what': what}


def gen_history(rng, tier):
    maxlen = 4 if tier == 'quick' else 6
    shape, sdim, fam = gen_start_shape(rng, tier)
    aff = gen_affine(rng)
    E0 = gen_keyed_ext(rng, shape, sdim, aff, widen=rng.choice([0.0, 0.3, 0.6]))
    ops, labels = gen_ops(rng, maxlen, shape, sdim, aff, set(k for k, _, _ in E0['entries']))
    kind = 'ops/%s/%s' % (fam, '+'.join(sorted(set(labels))))
    return {'kind': kind, 'ext': E0, 'ops': ops}


def gen_ops(rng, maxlen, shape, sdim, aff, known, partner_pool=None, shared=True):
    """1..maxlen operations for an extension of the given shape / slice dim / affine holding the keys `known`.
    `partner_pool`: the key names merge partners may use (default KEYS); `shared=False`: partners never use a key of `known`
    (their value kinds are not under the generator's control)."""
    pool = list(partner_pool or KEYS)
    ops, labels = [], []
    cur_shape, cur_aff = list(shape), aff
    known = set(known)
    mine = set()                # keys whose value kind this generator controls
    if shared:
        mine |= known
    n_ops = rng.randint(1, maxlen)
    last_subset = None
    for _ in range(n_ops):
        r = rng.random()
        # merges back along an axis a subset has just made singular are favoured (split / merge chains)
        singular = [d for d in range(5) if d >= len(cur_shape) or cur_shape[d] == 1]
        if last_subset is not None and last_subset in singular and rng.random() < 0.6:
            r, force_dim = 0.5, last_subset
        else:
            force_dim = None
        last_subset = None
        if r < 0.35:
            dim = rng.randrange(len(cur_shape))
            if cur_shape[dim] == 1 and rng.random() < 0.7:
                cand = [d for d in range(len(cur_shape)) if cur_shape[d] > 1]
                dim = rng.choice(cand) if cand else dim
            idx = rng.randrange(cur_shape[dim])
            ops.append({'op': 'subset', 'dim': dim, 'idx': idx})
            cur_shape = subset_shape(cur_shape, dim)
            last_subset = dim
            labels.append('subset')
        elif r < 0.65 and singular:
            dim = force_dim if force_dim is not None else rng.choice(singular)
            if sdim is None and dim >= 3 and rng.random() < 0.8:       # mostly stay out of the region of N3
                alt = [d for d in singular if d < 3]
                if alt:
                    dim = rng.choice(alt)
            n_partners = rng.choice([0, 1, 1, 2, 2, 3])
            partners = []
            for _j in range(n_partners):
                paff = cur_aff
                if sdim is not None and rng.random() < 0.15:
                    paff = other_normal_affine(rng, cur_aff, sdim)
                pk = rng.sample(pool, rng.randint(0, min(3, len(pool)))) + [k for k in sorted(mine) if rng.random() < 0.6]
                pk = list(dict.fromkeys(pk))
                partners.append(gen_keyed_ext(rng, cur_shape, sdim, paff, keys=pk, widen=rng.choice([0.0, 0.3, 0.6])))
            pos = rng.randint(0, n_partners)
            before, after = partners[:pos], partners[pos:]
            op = {'op': 'merge', 'before': before, 'after': after, 'dim': dim, 'aff': None, 'sdim_arg': None}
            rr = rng.random()
            if rr < 0.15:
                op['aff'] = cur_aff
            if rr < 0.1 and sdim is not None:
                op['sdim_arg'] = sdim
            ops.append(op)
            first_aff = before[0]['aff'] if before else cur_aff
            cur_aff = op['aff'] if op['aff'] is not None else first_aff
            cur_shape = merge_shape(cur_shape, dim, n_partners + 1)
            for P in partners:
                known |= set(k for k, _, _ in P['entries'])
                mine |= set(k for k, _, _ in P['entries'])
            labels.append('merge')
        elif r < 0.77:
            ks = [k for k in sorted(known) if rng.random() < 0.4] + rng.sample(pool, rng.randint(0, min(2, len(pool))))
            ops.append({'op': 'filter', 'keys': list(dict.fromkeys(ks))})
            labels.append('filter')
        elif r < 0.85:
            ops.append({'op': 'clear'})
            labels.append('clear')
        else:
            op = gen_inject(rng, cur_shape, sdim, mine)
            ops.append(op)
            known.add(op['key'])
            mine.add(op['key'])
            labels.append('inject')
    return ops, labels


# ------------------------------------------------------------------------------------------ implementation side

def _check(ext):
    out = {}
    try:
        ext.check_valid()
        out['valid'] = True
    except Exception as e:      # noqa: BLE001
        out['valid'] = False
        out['valid_msg'] = str(e)[:200]
    try:
        text = ext.to_json()
        json.loads(text)
        out['json'] = True
    except Exception as e:      # noqa: BLE001
        out['json'] = False
        out['json_msg'] = str(e)[:200]
        return out
    # what was serialised loads again (from_json validates) and is the same extension
    try:
        back = type(ext).from_json(text)
        out['reload'] = json.loads(back.to_json()) == json.loads(text)
        if not out['reload']:
            out['reload_msg'] = 'from_json(to_json()) is a different extension'
    except Exception as e:      # noqa: BLE001
        out['reload'] = False
        out['reload_msg'] = 'from_json(to_json()) raised %s: %s' % (type(e).__name__, str(e)[:160])
    return out


def still_valid(ext):
    """None, or why this extension is not (any more) a valid extension for its own recorded shape"""
    c = _check(ext)
    if not c['valid']:
        return 'fails check_valid: %s' % c.get('valid_msg')
    if not c['json']:
        return 'cannot be serialised: %s' % c.get('json_msg')
    if c.get('reload') is False:
        return 'does not load again: %s' % c.get('reload_msg')
    try:
        return check_rules(ext_to_json(ext))
    except Exception as e:      # noqa: BLE001
        return 'cannot be abstracted: %s' % str(e)[:160]


def _err_obs(e):
    if hasattr(X, 'exc_obs'):
        return X.exc_obs(e)
    name = type(e).__name__
    if isinstance(e, getattr(X, 'AbstractionError', ())) or (name == 'ValueError' and str(e).startswith('abs:')):
        return {'err': 'ECrash', 'exc': 'Abstraction', 'msg': str(e)[:200]}
    return {'err': X.ERRMAP.get(name, 'ECrash'), 'exc': name, 'msg': str(e)[:200]}


class ProducedNothing(Exception):
    """a producing operation reported success but left no (single) extension"""


# exception classes that mean "the operation produced an extension the library itself rejects"
REJECTS_OWN_PRODUCT = ('MissingExtensionError', 'InvalidExtensionError', 'ProducedNothing', 'Abstraction')

_INJ_COUNTER = [0]


def real_inject(ext, op):
    """nitool_cli.inject on a NIfTI file carrying `ext`; returns the extension found in the file afterwards, or the
    string 'refused' when the command returned 1."""
    import argparse, contextlib, io
    np, dcmmeta = X._imports()
    import nibabel as nb
    from dcmstack import nitool_cli
    work = os.environ.get('VERIF_WORK') or os.path.join(os.path.dirname(os.path.dirname(os.path.abspath(__file__))), 'work', 'C07')
    os.makedirs(work, exist_ok=True)
    _INJ_COUNTER[0] += 1
    # .nii.gz: nitool saves over the file it loaded, which corrupts / crashes on memory-mapped uncompressed files
    path = os.path.join(work, 'inject_%d_%d.nii.gz' % (os.getpid(), _INJ_COUNTER[0]))
    nii = nb.Nifti1Image(np.zeros(tuple(ext.shape), dtype=np.int16), np.eye(4))     # the image itself is irrelevant to inject
    nii.header.set_dim_info(slice=ext.slice_dim)
    nii.header.extensions.append(ext)
    nb.save(nii, path)
    vals = [repr(v) if isinstance(v, float) else str(v) for v in op['values']]
    ns = argparse.Namespace(dest_nii=[path], classification=list(PYCLS[op['cls']]), key=[op['key']], values=vals,
                            force_overwrite=bool(op['force']), type=op.get('type'))
    try:
        with contextlib.redirect_stdout(io.StringIO()):
            rc = nitool_cli.inject(ns)
        if rc != 0:
            return 'refused'
        # NOT through NiftiWrapper (its constructor validates and would hide an invalid product as "no extension")
        found = [e for e in nb.load(path).header.extensions if e.get_code() == dcmmeta.dcm_meta_ecode]
        if len(found) != 1:
            raise ProducedNothing('after a successful inject the file carries %d DcmMeta extensions' % len(found))
        return found[0]
    finally:
        if os.path.exists(path):
            os.remove(path)


def run_ops(case):
    np, dcmmeta = X._imports()
    try:
        ext = build_ext(case['ext'])
    except Exception as e:      # noqa: BLE001  (make_empty did not provide a required dictionary)
        return {'start': {'valid': False, 'json': False, 'valid_msg': 'make_empty + filling the class dictionaries raised %s: %s'
                          % (type(e).__name__, str(e)[:120])}, 'steps': []}
    return run_steps(ext, case['ops'])


def run_steps(ext, ops_list):
    np, dcmmeta = X._imports()
    start = _check(ext)
    steps = []
    live = [('the start extension', ext)]       # every extension produced so far (inputs, partners, results), by identity
    for si, op in enumerate(ops_list):
        def go():
            if op['op'] == 'subset':
                r = ext.get_subset(op['dim'], op['idx'])
            elif op['op'] == 'merge':
                bs, as_ = [build_ext(b) for b in op['before']], [build_ext(a) for a in op['after']]
                for j, b in enumerate(bs + as_):
                    live.append(('partner %d of step %d' % (j, si), b))
                seq = bs + [ext] + as_
                aff = None if op.get('aff') is None else np.array(op['aff'], dtype=float)
                r = dcmmeta.DcmMetaExtension.from_sequence(seq, op['dim'], aff, op.get('sdim_arg'))
            elif op['op'] == 'filter':
                ks = set(op['keys'])
                ext.filter_meta(lambda key, vals: key in ks)
                r = ext
            elif op['op'] == 'clear':
                ext.clear_slice_meta()
                r = ext
            else:
                r = real_inject(ext, op)
                if isinstance(r, str):
                    return {'err': 'EValue', 'exc': 'Refused', 'msg': 'inject returned 1'}, None
            out = {'ext': ext_to_json(r)}
            out.update(_check(r))
            return out, r
        try:
            o, r = go()
        except Exception as e:      # noqa: BLE001
            o, r = _err_obs(e), None
        steps.append(o)
        if 'err' in o:
            break
        if not any(x is r for _, x in live):
            live.append(('the result of step %d' % si, r))
        ext = r
        # everything produced earlier must still be a valid extension (for its own recorded shape)
        stale = []
        for label, x in live:
            if x is r:
                continue
            m = still_valid(x)
            if m:
                stale.append([label, m])
        if stale:
            o['stale'] = stale
    return {'start': start, 'steps': steps}


def op_to_coq(op):
    if op['op'] == 'subset':
        return '(JSubset %s %s)' % (cnat(op['dim']), cnat(op['idx']))
    if op['op'] == 'merge':
        return '(JMerge %s %s %s %s %s)' % (clist(ext_to_coq(E) for E in op['before']), clist(ext_to_coq(E) for E in op['after']),
                                            cnat(op['dim']), copt(op.get('aff'), caff), copt(op.get('sdim_arg'), cnat))
    if op['op'] == 'filter':
        return '(JFilter %s)' % clist(cstr(k) for k in op['keys'])
    if op['op'] == 'clear':
        return 'JClear'
    return '(JInject %s %s %s %s)' % (op['cls'], cstr(op['key']), clist(cjv(v) for v in op['values']), cbool(op['force']))


def ops_case_to_coq(case, obs):
    steps = []
    for s in obs.get('steps', []):
        if 'ext' in s:
            steps.append('(Ok (%s, %s))' % (ext_to_coq(s['ext']), cbool(bool(s['valid']))))
        else:
            steps.append('(Err %s)' % s.get('err', 'ECrash'))
    return '(mk_ops_case %s %s %s)' % (ext_to_coq(case['ext']), clist(op_to_coq(o) for o in case['ops']), clist(steps))


def check_rules(R):
    """The format rules of the property text, recomputed from the abstracted extension alone."""
    sh = R['shape']
    if not (3 <= len(sh) <= 5):
        return 'shape %r is not 3..5-D' % (sh,)
    if R['sdim'] is not None and not (0 <= R['sdim'] < 3):
        return 'slice dim %r out of range' % (R['sdim'],)
    if len(R['aff']) != 4 or any(len(r) != 4 for r in R['aff']):
        return 'affine is not 4x4'
    d = dims(R)
    seen = set()
    for k, c, vs in R['entries']:
        if k in seen:
            return 'key %r is classified twice' % k
        seen.add(k)
        if not class_ok(sh, c):
            return 'key %r sits in %s, not admitted for shape %r' % (k, c, sh)
        if PYCLS[c][1] == 'slices' and R['sdim'] is None:
            return 'key %r is per-slice but there is no slice dimension' % k
        if len(vs) != mult(d, c):
            return 'key %r in %s holds %d values, %d required' % (k, c, len(vs), mult(d, c))
    need = {'ht': any(class_ok(sh, c) for c in ('TSamples', 'TSlices')), 'hv': any(class_ok(sh, c) for c in ('VSamples', 'VSlices'))}
    for f, n in need.items():
        if n and not R[f]:
            return 'required base dictionary %s is missing' % ('time' if f == 'ht' else 'vector')
    return None


def oracle_ops(case, obs):
    if 'crash' in obs:
        return 'harness: %s' % obs.get('msg')
    st = obs['start']
    if not (st.get('valid') and st.get('json')):
        return 'the start extension (make_empty + generated entries) fails check_valid/to_json: %s' % (st.get('valid_msg') or st.get('json_msg'))
    shape = list(case['ext']['shape'])
    for i, (op, s) in enumerate(zip(case['ops'], obs['steps'])):
        name = op['op']
        if 'err' in s:
            if s.get('exc') in REJECTS_OWN_PRODUCT:
                return 'step %d (%s) produced an extension that breaks the format (%s): %s' % (i, name, s.get('exc'), s.get('msg'))
            return None         # nothing was produced; raising is not what C07 forbids
        R = s['ext']
        if not s.get('valid'):
            return 'step %d (%s): result fails check_valid: %s' % (i, name, s.get('valid_msg'))
        if not s.get('json'):
            return 'step %d (%s): result cannot be serialised: %s' % (i, name, s.get('json_msg'))
        if s.get('reload') is False:
            return 'step %d (%s): the serialised result does not load again: %s' % (i, name, s.get('reload_msg'))
        m = check_rules(R)
        if m:
            return 'step %d (%s): %s' % (i, name, m)
        for label, why in s.get('stale', []):
            return 'after step %d (%s) %s, produced earlier, %s' % (i, name, label, why)
        if name == 'subset':
            shape = subset_shape(shape, op['dim'])
        elif name == 'merge':
            shape = merge_shape(shape, op['dim'], len(op['before']) + len(op['after']) + 1)
        if R['shape'] != shape:
            return 'step %d (%s): recorded shape %r, expected %r' % (i, name, R['shape'], shape)
        if R['sdim'] != case['ext']['sdim']:
            return 'step %d (%s): slice dimension changed to %r' % (i, name, R['sdim'])
    return None


class OpsPart:
    NAME = 'ops'
    CORR_REQUIRE = 'From DV Require Import Common.Jv Ext.Types Ext.Model Ext.Corr Ext.Ops Ext.OpsCorr.'
    CORR_CASE_TYPE = 'ops_case'
    CORR_CHECK = 'check_ops'
    CORR_SHOW = 'show_ops'
    SHARD = 40
    IMPL_TIMEOUT = 30
    RULE = ('random histories of 1..4 (quick) / 1..6 (thorough) operations over valid nondegenerate 3-5 D extensions incl. 4-D T=1, '
            '(X,Y,Z,1,V) and singular slice axes: get_subset (any dim, in-range idx), from_sequence with 0..3 fresh valid partners '
            '(same shape / slice dim, shared and new keys, sometimes another slice normal, explicit affine / slice_dim), merges '
            'back along an axis a subset has just made singular, filter_meta with a key list, clear_slice_meta, nitool inject '
            '(valid and refused: bad class, bad count, existing key without force); observed per step: result extension, '
            'check_valid, to_json; non-trivial = at least two steps produced an extension or a varying key is present')

    @staticmethod
    def gen_cases(rng, tier):
        n = 1200 if tier == 'quick' else 6000
        out = [gen_history(rng, tier) for _ in range(n)]
        # merges whose inputs are the restrictions of one total function on the output grid (what a split produces),
        # half of them 5-D along the slice axis; the current extension sits at a random position
        for i in range(300 if tier == 'quick' else 2000):
            mc = None
            if i % 2 == 0:
                for _try in range(12):
                    c = X.gen_merge_case(rng, tier, dim=rng.choice([0, 1, 2]), ndim_in=5)
                    if c['exts'][0]['sdim'] == c['dim']:
                        mc = c
                        break
            mc = mc or X.gen_merge_case(rng, tier)
            exts = mc['exts']
            j = rng.randrange(len(exts))
            ops = [{'op': 'merge', 'before': exts[:j], 'after': exts[j + 1:], 'dim': mc['dim'], 'aff': mc['aff'],
                    'sdim_arg': mc['sdim_arg']}]
            sh = merge_shape(exts[0]['shape'], mc['dim'], len(exts))
            if rng.random() < 0.5:
                d = rng.randrange(len(sh))
                ops.append({'op': 'subset', 'dim': d, 'idx': rng.randrange(sh[d])})
            out.append({'kind': 'ops/restrictions/' + mc['kind'].split('/', 1)[1], 'ext': exts[j], 'ops': ops})
        return out

    run_impl = staticmethod(run_ops)
    coq_case = staticmethod(ops_case_to_coq)
    oracle = staticmethod(oracle_ops)

    @staticmethod
    def signature(case, obs, msg):
        step = 'start'
        for op, s in zip(case['ops'], obs.get('steps', [])):
            step = op['op']
        return 'ops/%s/%s' % (shape_family(case['ext']['shape']), step)

    @staticmethod
    def nontrivial(case, obs):
        n_ok = len([s for s in obs.get('steps', []) if 'ext' in s])
        return n_ok >= 2 or any(c != 'GConst' for _, c, _ in case['ext']['entries'])

    @staticmethod
    def shrink(case):
        ops = case['ops']
        for i in range(len(ops) - 1, -1, -1):         # drop a suffix first, then single ops that do not change the shape
            c = copy.deepcopy(case)
            c['ops'] = ops[:i] if i > 0 else ops[:1]
            if len(c['ops']) < len(ops):
                yield c
        for i, op in enumerate(ops):
            if op['op'] in ('filter', 'clear', 'inject'):
                c = copy.deepcopy(case)
                del c['ops'][i]
                yield c
            if op['op'] == 'merge':
                for side in ('before', 'after'):
                    for j in range(len(op[side])):
                        for k in keys_of(op[side][j]):
                            c = copy.deepcopy(case)
                            P = c['ops'][i][side][j]
                            P['entries'] = [e for e in P['entries'] if e[0] != k]
                            yield c
        for F in X.shrink_E(case['ext']):
            c = copy.deepcopy(case)
            c['ext'] = F
            yield c


# ------------------------------------------------------------------------------------------ NiftiWrapper level (oracle only)

def _wobs(w):
    np, _ = X._imports()
    nii = w.nii_img
    o = {'img_shape': [int(x) for x in nii.shape], 'img_slice': nii.header.get_dim_info()[2],
         'img_aff': [[float(x) for x in r] for r in nii.affine]}
    if o['img_slice'] is not None:
        o['img_slice'] = int(o['img_slice'])
    o['ext'] = ext_to_json(w.meta_ext)
    o.update(_check(w.meta_ext))
    return o


def _written(w, tag):
    """NiftiWrapper.to_filename + reading the file back WITHOUT the validating constructor: None, or what went wrong"""
    np, dcmmeta = X._imports()
    import nibabel as nb
    work = os.environ.get('VERIF_WORK') or os.path.join(os.path.dirname(os.path.dirname(os.path.abspath(__file__))), 'work', 'C07')
    os.makedirs(work, exist_ok=True)
    _INJ_COUNTER[0] += 1
    path = os.path.join(work, 'written_%s_%d_%d.nii.gz' % (tag, os.getpid(), _INJ_COUNTER[0]))
    try:
        try:
            w.to_filename(path)
        except Exception as e:      # noqa: BLE001
            return 'to_filename raised %s: %s' % (type(e).__name__, str(e)[:160])
        found = [e for e in nb.load(path).header.extensions if e.get_code() == dcmmeta.dcm_meta_ecode]
        if len(found) != 1:
            return 'the written file carries %d DcmMeta extensions' % len(found)
        m = still_valid(found[0])
        if m:
            return 'the extension read back from the written file %s' % m
        if ext_to_json(found[0]) != ext_to_json(w.meta_ext):
            return 'the extension read back from the written file differs from the one written'
        return None
    finally:
        if os.path.exists(path):
            os.remove(path)


def run_wrap(case):
    def go():
        np, dcmmeta = X._imports()
        import nibabel as nb
        img = case['img']
        if case['mode'] == 'empty':
            nii = nb.Nifti1Image(np.zeros(tuple(img['shape']), dtype=np.int16), np.array(img['aff'], dtype=float))
            nii.header.set_dim_info(slice=img['slice'])
            w = dcmmeta.NiftiWrapper(nii, make_empty=True)
            return {'whole': _wobs(w), 'written': _written(w, 'e')}
        w = X.build_data_wrapper(case['ext'], img)
        out = {'whole': _wobs(w)}
        pieces = list(w.split(case['dim']))
        out['pieces'] = [_wobs(p) for p in pieces]
        if pieces:
            out['written'] = _written(pieces[-1], 'p')
        try:
            m = dcmmeta.NiftiWrapper.from_sequence(pieces, case['dim'])
            out['merged'] = _wobs(m)
            out['written'] = out.get('written') or _written(m, 'm')
        except Exception as e:      # noqa: BLE001
            out['merged'] = {'err': type(e).__name__, 'msg': str(e)[:200]}
        return out
    return X._guard(go)


def _allclose(a, b, rows=4, cols=4):
    return all(abs(a[r][c] - b[r][c]) <= 1e-8 + 1e-5 * abs(b[r][c]) for r in range(rows) for c in range(cols))


def _agree(o, what, full=True):
    if not o.get('valid'):
        return '%s: extension fails check_valid: %s' % (what, o.get('valid_msg'))
    if not o.get('json'):
        return '%s: extension cannot be serialised: %s' % (what, o.get('json_msg'))
    m = check_rules(o['ext'])
    if m:
        return '%s: %s' % (what, m)
    if o['ext']['shape'] != o['img_shape']:
        return '%s: extension shape %r differs from image shape %r' % (what, o['ext']['shape'], o['img_shape'])
    if o['ext']['sdim'] != o['img_slice']:
        return '%s: extension slice dim %r differs from the header slice dim %r' % (what, o['ext']['sdim'], o['img_slice'])
    if full:
        if not _allclose(o['ext']['aff'], o['img_aff']):
            return '%s: extension affine differs from the image affine' % what
    elif not _allclose(o['ext']['aff'], o['img_aff'], 3, 3):
        return '%s: 3x3 part of the extension affine differs from the image' % what
    return None


def oracle_wrap(case, obs):
    if 'crash' in obs:
        return 'harness: %s' % obs.get('msg')
    if 'err' in obs:
        if obs.get('exc') in REJECTS_OWN_PRODUCT:
            return '%s produced an extension the library itself rejects (%s): %s' % (case['mode'], obs.get('exc'), obs.get('msg'))
        if case['mode'] == 'split' and obs.get('exc') == 'KeyError' and n2_mechanism(case['ext'], case['dim']) and \
                ('exc_key' not in obs or not hasattr(X, 'n2_vanishing_base')
                 or obs['exc_key'] == X.n2_vanishing_base(case['ext'], case['dim'])):
            return None         # exactly the open finding N2 (reported by C04): KeyError on the vanished base; nothing is produced
        return '%s raised %s: %s' % (case['mode'], obs.get('exc'), obs.get('msg'))
    m = _agree(obs['whole'], 'wrapped image')
    if m:
        return m
    if obs.get('written'):
        return 'NiftiWrapper.to_filename: %s' % obs['written']
    for i, p in enumerate(obs.get('pieces', [])):
        m = _agree(p, 'piece %d of split(%d)' % (i, case['dim']), full=False)
        if m:
            return m
    mg = obs.get('merged')
    if mg is not None and 'err' not in mg:
        m = _agree(mg, 'NiftiWrapper.from_sequence of the pieces')
        if m:
            return m
    elif mg is not None and mg.get('err') in REJECTS_OWN_PRODUCT:
        return 'NiftiWrapper.from_sequence of the pieces produced an extension the library itself rejects (%s): %s' % (mg['err'], mg.get('msg'))
    return None


def n2_mechanism(E, dim):
    """the mechanism of the open finding N2 (C04), re-derived from the case: the subset axis is a non-slice spatial axis (or
    the time axis of a 5-D shape), the shape has a trailing singleton axis so that the piece loses a dimension, and some key
    sits in a class of that vanishing base: get_subset writes it to a dictionary the piece does not have (KeyError)"""
    sh = E['shape']
    if not trailing1(sh) or dim >= len(sh):
        return False
    if not ((dim < 3 and dim != E['sdim']) or (dim == 3 and len(sh) == 5)):
        return False
    piece = subset_shape(sh, dim)
    return any(class_ok(sh, c) and not class_ok(piece, c) for _, c, _ in E['entries'])


class WrapPart:
    NAME = 'wrap'
    CORR_CHECK = None
    IMPL_TIMEOUT = 30
    RULE = ('NiftiWrapper(img, make_empty=True) for 3-5 D images incl. (X,Y,Z,1) and (X,Y,Z,1,V); split along every dimension of '
            'extended images (voxel data = own index) and NiftiWrapper.from_sequence of the pieces; oracle only')

    @staticmethod
    def gen_cases(rng, tier):
        out = []
        n = 90 if tier == 'quick' else 600
        for _ in range(n // 3):
            sh, sdim, fam = gen_start_shape(rng, tier)
            out.append({'kind': 'wrap/empty/' + fam, 'mode': 'empty', 'img': {'shape': sh, 'slice': sdim, 'aff': gen_affine(rng)}})
        for _ in range(n):
            sh, sdim, fam = gen_start_shape(rng, tier)
            aff = gen_affine(rng, rng.choice(['dense', 'perm', 'diag']))
            E = gen_keyed_ext(rng, sh, sdim, aff, nkeys=rng.randint(1, 4), widen=rng.choice([0.0, 0.4]))
            dim = rng.randrange(len(sh))
            out.append({'kind': 'wrap/split-merge/' + fam, 'mode': 'split', 'ext': E, 'dim': dim,
                        'img': {'shape': list(sh), 'slice': sdim, 'aff': copy.deepcopy(aff)}})
        return out

    run_impl = staticmethod(run_wrap)
    oracle = staticmethod(oracle_wrap)

    @staticmethod
    def signature(case, obs, msg):
        return 'wrap/%s/%s' % (case['mode'], msg.split(':')[0].split(' of ')[0].replace(' ', '-')[:40])

    @staticmethod
    def nontrivial(case, obs):
        # an extension was produced and judged, and it is not an empty one on a 3-D image
        if not isinstance(obs, dict) or 'whole' not in obs:
            return False
        return len(obs['whole']['img_shape']) > 3 or bool(obs.get('pieces')) and any(p['ext']['entries'] for p in obs['pieces'])

    @staticmethod
    def shrink(case):
        if 'ext' in case:
            for F in X.shrink_E(case['ext']):
                c = copy.deepcopy(case)
                c['ext'] = F
                yield c


# ------------------------------------------------------------------------------------------ region of the open finding N10

def run_degen(case):
    inj = case['inject']
    out = {}
    try:
        ext = build_ext(case['ext'])
    except Exception as e:      # noqa: BLE001
        return {'stage': 'build', 'err': 'ECrash', 'exc': type(e).__name__, 'msg': str(e)[:160]}
    try:
        r = real_inject(ext, inj)
    except Exception as e:      # noqa: BLE001
        return {'stage': 'inject', 'err': 'ECrash', 'exc': type(e).__name__, 'msg': str(e)[:160]}
    if isinstance(r, str):
        return {'refused': True}
    # where did the value go (public accessors only)
    held = []
    for cls in r.get_valid_classes():
        d = r.get_class_dict(cls)
        for k in d:
            held.append([X.CLSNAME[tuple(cls)], k, X._plain(d[k])])
    out['held'] = held
    out.update(_check(r))
    try:
        piece = r.get_subset(case['dim'], 0)
        out['read_back'] = X._plain(piece.get_values(inj['key']))
    except Exception as e:      # noqa: BLE001
        out['read_exc'] = type(e).__name__
    return out


def degen_facts(case, obs):
    """(stored_bare, readback_wrong): the two halves of N10's mechanism, from the case and the observation"""
    inj = case['inject']
    want = inj['values'][0]
    mine = [h for h in obs.get('held', []) if h[1] == inj['key']]
    stored_bare = len(mine) == 1 and mine[0][0] == inj['cls'] and mine[0][2] == want and not isinstance(mine[0][2], list)
    wrong = 'read_exc' in obs or obs.get('read_back') != want
    return stored_bare, wrong


def oracle_degen(case, obs):
    if 'crash' in obs:
        return 'harness: %s' % obs.get('msg')
    inj = case['inject']
    if 'err' in obs:
        return 'inject into an empty %r extension: %s raised %s: %s' % (case['ext']['shape'], obs.get('stage'), obs.get('exc'), obs.get('msg'))
    if obs.get('refused'):
        return 'inject of one value under %s (valid for the shape, multiplicity 1) was refused' % inj['cls']
    msgs = []
    if not obs.get('valid'):
        msgs.append('the extension after inject fails check_valid: %s' % obs.get('valid_msg'))
    if not obs.get('json'):
        msgs.append('the extension after inject cannot be serialised: %s' % obs.get('json_msg'))
    elif obs.get('reload') is False:
        msgs.append('the extension after inject does not load again: %s' % obs.get('reload_msg'))
    mine = [h for h in obs.get('held', []) if h[1] == inj['key']]
    others = [h for h in obs.get('held', []) if h[1] != inj['key']]
    if others:
        msgs.append('inject created other keys: %r' % [h[1] for h in others])
    if len(mine) != 1 or mine[0][0] != inj['cls']:
        msgs.append('key %r is held by %r after injecting it under %s' % (inj['key'], [h[0] for h in mine], inj['cls']))
    elif mine[0][2] not in (inj['values'][0], [inj['values'][0]]):
        msgs.append('inject stored %r for the value %r' % (mine[0][2], inj['values'][0]))
    if msgs:
        return msgs[0]          # anything but the known mechanism comes first
    stored_bare, wrong = degen_facts(case, obs)
    if wrong:
        how = obs.get('read_exc') or 'reads back as %r' % (obs.get('read_back'),)
        return ('value %r injected under %s (multiplicity 1) %s from the piece of get_subset(%d, 0)'
                % (inj['values'][0], inj['cls'], how, case['dim']))
    return None


class DegenPart:
    NAME = 'degen'
    CORR_CHECK = None
    IMPL_TIMEOUT = 30
    RULE = ('open finding N10: nitool inject of one value under a varying class of multiplicity one (("time","samples") of an '
            '(X,Y,Z,1) image, ("vector","samples") of an (X,Y,Z,T,1) image, per-slice classes of a single-slice image), then '
            'get_subset along that axis and reading the key back; the injected extension itself must be valid, serialisable and '
            'hold exactly the injected key; oracle only, outside the nondegenerate domain of the model')

    @staticmethod
    def gen_cases(rng, tier):
        out = []
        for _ in range(9 if tier == 'quick' else 40):
            sh = [rng.randint(1, 3) for _ in range(3)]
            sd = rng.choice([0, 1, 2, None])
            r = rng.random()
            if r < 0.4:
                sh, cls, dim = sh + [1], 'TSamples', 3
            elif r < 0.7:
                sh, cls, dim = sh + [rng.randint(2, 3), 1], 'VSamples', 4
            else:
                # a single-slice image: the per-slice classes have multiplicity one
                sd = rng.choice([0, 1, 2])
                sh[sd] = 1
                if rng.random() < 0.5:
                    cls, dim = 'GSlices', sd
                else:
                    sh, cls, dim = sh + [rng.randint(2, 3)], 'TSlices', sd
            kind = rng.choice(['str', 'str', 'int'])
            v = rng.choice(['abc', 'x y', 'Müller']) if kind == 'str' else rng.choice([7, 12, 100])
            E = mk_E(sh, sd, gen_affine(rng), {})
            out.append({'kind': 'degen/' + cls, 'ext': E, 'dim': dim,
                        'inject': {'op': 'inject', 'cls': cls, 'key': 'InjD', 'values': [v], 'type': None if kind == 'int' else 'str', 'force': False}})
        return out

    run_impl = staticmethod(run_degen)
    oracle = staticmethod(oracle_degen)

    @staticmethod
    def signature(case, obs, msg):
        # N10 = inject accepted one value for a VARYING class of multiplicity one, stored it BARE under that class, the
        # extension passes check_valid, and the value does not survive being indexed as a list
        inj = case['inject']
        d = dims(case['ext'])
        in_region = inj['cls'] != 'GConst' and class_ok(case['ext']['shape'], inj['cls']) and mult(d, inj['cls']) == 1 \
            and len(inj['values']) == 1
        if in_region and isinstance(obs, dict) and 'held' in obs and obs.get('valid') is True and obs.get('json') is True:
            stored_bare, wrong = degen_facts(case, obs)
            if stored_bare and wrong and msg.startswith('value '):
                return 'inject/degenerate-class/bare-value'
        return 'degen/%s' % ('crash' if not isinstance(obs, dict) or 'crash' in obs else
                             obs.get('stage') or ('refused' if obs.get('refused') else 'wrong-product'))

    @staticmethod
    def nontrivial(case, obs):
        return isinstance(obs, dict) and 'held' in obs and any(h[1] == case['inject']['key'] for h in obs['held'])


# ------------------------------------------------------------------------------------------ stack conversion

from props import convmeta as M          # noqa: E402  (read-only imports: generators / runner / Coq printer of C01)
from props import stacklib as L          # noqa: E402

AXIS_ORDERS = ['LAS', 'RSA', 'ALS', 'PSR', 'SLA', 'IRP', 'ASL', 'SPL', 'RAS', 'LSA', 'SAL', 'ALS']   # all six axis orders, twice


def gen_conv_case(rng, tier, orient, order, shape_class=None):
    for _ in range(200):
        c = M.gen_case(rng, tier, shape_class=shape_class, orders=[order])
        if c['orient'] == orient:
            break
    c['kind'] = 'conv/%s/%s/%s' % (c['orient'], order or 'none', c['kind'].split('/')[-1])
    return c


def stacking_axes(case, arr):
    """the spatial axes of the output array along which every plane (per time point / vector component) is exactly the pixel
    set of one source file: where the source slices really are stacked (pixel values identify their file)"""
    import numpy as np
    a = np.asarray(arr)
    while a.ndim < 5:
        a = a.reshape(a.shape + (1,))
    sigs = set(M.pixel_signatures(case))        # pixel multisets of the source files (generator side)
    out = []
    for ax in range(3):
        ok, seen = True, set()
        for v in range(a.shape[4]):
            for t in range(a.shape[3]):
                for i in range(a.shape[ax]):
                    key = tuple(sorted(int(x) for x in np.take(a[:, :, :, t, v], i, axis=ax).ravel()))
                    if key not in sigs or key in seen:
                        ok = False
                        break
                    seen.add(key)
                if not ok:
                    break
            if not ok:
                break
        if ok and len(seen) == len(sigs):
            out.append(ax)
    return out


def _convert(dcmstack, dcmmeta, st, case):
    if case['via'] == 'wrapper':
        return st.to_nifti_wrapper(case['vo'])          # MissingExtensionError here = the embedded extension is invalid
    # to_nifti: the embedded extension is read from the header directly, not through the validating NiftiWrapper
    import types
    nii = st.to_nifti(case['vo'], embed_meta=True)
    found = [e for e in nii.header.extensions if e.get_code() == dcmmeta.dcm_meta_ecode]
    if len(found) != 1:
        raise ProducedNothing('to_nifti(embed_meta=True) left %d DcmMeta extensions in the header' % len(found))
    return types.SimpleNamespace(nii_img=nii, meta_ext=found[0])


def stack_files(st):
    """(position in the stack's list, per-file extension) of every file of the stack; the ONE place that reads the stack's
    private file list (no public accessor exists); a missing attribute is a harness diagnostic, not a verdict"""
    infos = getattr(st, '_files_info', None)
    if infos is None:
        return None
    return [(i, fi[0].meta_ext) for i, fi in enumerate(infos)]


def run_conv07(case):
    import warnings
    warnings.simplefilter('ignore')
    import numpy as np
    import dcmstack
    from dcmstack import dcmmeta
    out = {}
    try:
        out['c01'] = M.run_conv(case)               # the observation the conversion model (Conv/CorrMeta.v) is compared with
    except Exception as e:      # noqa: BLE001  (e.g. the output planes are not where the header says the slices are)
        out['c01'] = {'conv_crash': '%s: %s' % (type(e).__name__, str(e)[:200])}
    st = M.build_stack(dcmstack, case)[0]
    per_file = stack_files(st)
    if per_file is None:
        out['harness'] = 'no-file-list'
        per_file = []
    out['files_before'] = [[fid, still_valid(x)] for fid, x in per_file]
    try:
        w = _convert(dcmstack, dcmmeta, st, case)
    except Exception as e:      # noqa: BLE001
        out['err'] = '%s: %s' % (type(e).__name__, str(e)[:200])
        out['err_exc'] = type(e).__name__
        return out
    out['whole'] = _wobs(w)
    out['axes'] = stacking_axes(case, np.asanyarray(w.nii_img.dataobj))
    out['files_after'] = [[fid, still_valid(x)] for fid, x in per_file]
    out['whole_again'] = still_valid(w.meta_ext)
    return out


def oracle_conv(case, obs):
    if 'crash' in obs:
        return 'harness: %s' % obs.get('msg')
    if obs.get('harness'):
        return 'harness: %s' % obs['harness']
    for fid, m in obs.get('files_before', []):
        if m:
            return 'the extension made for source file %d (from_dicom_wrapper) %s' % (fid, m)
    if 'err' in obs:
        if obs.get('err_exc') in REJECTS_OWN_PRODUCT:
            return 'the conversion embedded an extension the library itself rejects: %s' % obs['err']
        return None             # nothing was produced (refusals / crashes of the conversion are C11's and C01's)
    m = _agree(obs['whole'], 'DicomStack.to_nifti(%r, embed_meta=True)' % case['vo'])
    if m:
        return m
    if obs['whole']['ext']['sdim'] not in obs['axes']:
        return ('to_nifti(%r): the extension and the header say the slice dimension is %r, but the source slices are stacked along '
                'axis %s of the output array' % (case['vo'], obs['whole']['ext']['sdim'], obs['axes']))
    for fid, m in obs.get('files_after', []):
        if m:
            return 'after the conversion the extension of source file %d, produced earlier, %s' % (fid, m)
    return None


class ConvPart(M._Base):
    NAME = 'conv'
    BORROWED_FROM = 'C01'       # the correspondence check (Conv/CorrMeta.v) is C01's; a mismatch there is a C01 matter
    SHARD = 10
    RULE = ('DicomStack.to_nifti(order, embed_meta=True) / to_nifti_wrapper(order) on synthetic complete grids (stacklib / convmeta '
            'generators: 3-5 D incl. (x,y,z,1,n), explicit / guessed ordering, hand-built and extracted metadata) for axial, '
            'sagittal, coronal and oblique series x every one of the six output axis orders (cyclic permutations included) and no '
            'reordering; the true stacking axis is located through the pixel values; Coq: the conversion model Conv/CorrMeta.v')

    @staticmethod
    def gen_cases(rng, tier):
        out = []
        reps = 1 if tier == 'quick' else 4
        for _ in range(reps):
            for orient in ('ax', 'sag', 'cor'):
                for order in [''] + AXIS_ORDERS[:6] + ([rng.choice(M.ALL_ORDERS) for _ in range(2)]):
                    out.append(gen_conv_case(rng, tier, orient, order, shape_class=rng.choice([None, None, '5d', 'vec_t1', '3d'])))
        for _ in range(20 if tier == 'quick' else 200):
            out.append(gen_conv_case(rng, tier, rng.choice(sorted(L.ORIENTS)), rng.choice(M.ALL_ORDERS + AXIS_ORDERS),
                                     shape_class=rng.choice([None, '5d', 'vec_t1', 's1'])))
        return out

    run_impl = staticmethod(run_conv07)

    @staticmethod
    def coq_case(case, obs):
        return M.coq_case(case, obs.get('c01') if isinstance(obs, dict) else None)

    oracle = staticmethod(oracle_conv)

    @staticmethod
    def signature(case, obs, msg):
        return 'conv/%s/%s' % (case.get('orient'), 'slice-dim' if 'stacked along' in msg else 'valid')

    @staticmethod
    def nontrivial(case, obs):
        # a conversion that embedded a non-empty extension into a reordered or 4-D / 5-D image
        return isinstance(obs, dict) and 'whole' in obs and bool(obs['whole']['ext']['entries']) and \
            (bool(case['vo']) or len(obs['whole']['img_shape']) > 3)


# ------------------------------------------------------------------------------------------ converted volumes split, merged, re-used

def run_reuse(case):
    """to_nifti_wrapper -> split along the last axis -> merge the pieces -> merge the SAME pieces again (other order / other
    axis) -> split along the slice axis and merge back; after every step every wrapper produced so far is validated again."""
    import warnings
    warnings.simplefilter('ignore')
    import numpy as np
    import dcmstack
    from dcmstack import dcmmeta
    st = M.build_stack(dcmstack, case)[0]
    live, steps = [], []

    def settle(name, news):
        for label, w in news:
            live.append((label, w))
        bad = []
        for label, w in live:
            o = _wobs(w)
            m = _agree(o, label, full=False)
            if m:
                bad.append(m)
        steps.append({'step': name, 'bad': bad})

    def attempt(name, f):
        try:
            settle(name, f())
            return True
        except Exception as e:      # noqa: BLE001
            steps.append({'step': name, 'exc': '%s: %s' % (type(e).__name__, str(e)[:160]), 'exc_cls': type(e).__name__, 'bad': []})
            settle(name + ' (after the exception)', [])
            return False

    try:
        w = _convert(dcmstack, dcmmeta, st, case)
    except Exception as e:      # noqa: BLE001
        return {'err': '%s: %s' % (type(e).__name__, str(e)[:200]), 'err_exc': type(e).__name__}
    settle('to_nifti_wrapper', [('the converted image', w)])
    nd = len(w.nii_img.shape)
    box = {}
    if nd > 3:
        last = nd - 1
        attempt('split(%d)' % last, lambda: [('piece %d of split(%d)' % (i, last), p) for i, p in
                                             enumerate(box.setdefault('pieces', list(w.split(last))))])
        ps = box.get('pieces', [])
        if len(ps) >= 1:
            attempt('from_sequence(pieces, %d)' % last, lambda: [('the re-merged image', dcmmeta.NiftiWrapper.from_sequence(ps, last))])
            attempt('from_sequence(reversed pieces, %d)' % last,
                    lambda: [('the image merged from the same pieces in reverse', dcmmeta.NiftiWrapper.from_sequence(ps[::-1], last))])
            other = 4 if len(ps[0].nii_img.shape) == 3 else None
            if other is not None:
                attempt('from_sequence(pieces, 4)', lambda: [('the same pieces merged as vector components',
                                                               dcmmeta.NiftiWrapper.from_sequence(ps, 4))])
            attempt('DcmMetaExtension.from_sequence(piece extensions) twice', lambda: [
                ('an image carrying the merged piece extensions (%d)' % j,
                 _attach(dcmmeta, ps, last)) for j in range(2)])
    sd = w.nii_img.header.get_dim_info()[2]
    if sd is not None and w.nii_img.shape[sd] > 1:
        attempt('split(slice axis)', lambda: [('slice %d' % i, p) for i, p in enumerate(box.setdefault('slices', list(w.split(sd))))])
        sl = box.get('slices', [])
        if sl:
            attempt('from_sequence(slices)', lambda: [('the image re-merged from its slices', dcmmeta.NiftiWrapper.from_sequence(sl, sd))])
    return {'steps': steps}


def _attach(dcmmeta, pieces, dim):
    """an image of the merged shape carrying DcmMetaExtension.from_sequence of the pieces' extensions"""
    import numpy as np
    import nibabel as nb
    ext = dcmmeta.DcmMetaExtension.from_sequence([p.meta_ext for p in pieces], dim)
    nii = nb.Nifti1Image(np.zeros(tuple(ext.shape), dtype=np.int16), np.array(ext.affine, dtype=float))
    nii.header.set_dim_info(slice=ext.slice_dim)
    nii.header.extensions.append(ext)
    return dcmmeta.NiftiWrapper(nii)


def oracle_reuse(case, obs):
    if 'crash' in obs:
        return 'harness: %s' % obs.get('msg')
    if 'err' in obs:
        if obs.get('err_exc') in REJECTS_OWN_PRODUCT:
            return 'the conversion embedded an extension the library itself rejects: %s' % obs['err']
        return None
    for s in obs['steps']:
        if s.get('exc_cls') in REJECTS_OWN_PRODUCT:
            return '%s produced an extension the library itself rejects: %s' % (s['step'], s['exc'])
        for m in s['bad']:
            return 'after %s: %s' % (s['step'], m)
    return None


class ReusePart:
    NAME = 'reuse'
    CORR_CHECK = None
    IMPL_TIMEOUT = 120
    RULE = ('converted 4-D / 5-D stacks (to_nifti_wrapper, every voxel order) split along time / vector, the pieces merged, merged '
            'again in reverse and along the other axis, their extensions merged twice, the image split along its slice axis and '
            'merged back; after EVERY step EVERY wrapper produced so far (the converted image, all pieces, all merge results) is '
            'validated again: check_valid, to_json, value counts for its own shape, shape / slice dim / 3x3 affine agreement with '
            'its image; oracle only')

    @staticmethod
    def gen_cases(rng, tier):
        out = []
        for _ in range(40 if tier == 'quick' else 300):
            c = M.gen_case(rng, tier, shape_class=rng.choice([None, '5d', '5d', 'vec_t1']), orders=[rng.choice(M.ALL_ORDERS)])
            c['via'] = 'wrapper'
            c['kind'] = 'reuse/' + c['kind']
            out.append(c)
        return out

    run_impl = staticmethod(run_reuse)
    oracle = staticmethod(oracle_reuse)

    @staticmethod
    def signature(case, obs, msg):
        return 'reuse/' + msg.split(':')[0][:40].replace(' ', '-')

    @staticmethod
    def nontrivial(case, obs):
        return isinstance(obs, dict) and len(obs.get('steps', [])) > 2

    @staticmethod
    def shrink(case):
        return M.shrink(case)


# ------------------------------------------------------------------------------------------ histories that start from a conversion result

PARTNER_POOL = ['pk0', 'pk1', 'pk2', 'pk3', 'InjS', 'InjI', 'InjF']      # never a key a conversion can produce


def run_convops(case):
    """DicomStack conversion, then a history of extension-level operations on the EMBEDDED extension object itself.
    The operations are drawn here (deterministically, from case['seed']) because they depend on the shape of the result."""
    import random
    import warnings
    warnings.simplefilter('ignore')
    import dcmstack
    from dcmstack import dcmmeta
    st = M.build_stack(dcmstack, case['conv'])[0]
    try:
        w = _convert(dcmstack, dcmmeta, st, case['conv'])
        ext = w.meta_ext
        E0 = ext_to_json(ext)
    except Exception as e:      # noqa: BLE001
        o = _err_obs(e)
        o['stage'] = 'conversion'
        return o
    rng = random.Random(case['seed'])
    ops, _ = gen_ops(rng, case['maxlen'], E0['shape'], E0['sdim'], E0['aff'], set(k for k, _, _ in E0['entries']),
                     partner_pool=PARTNER_POOL, shared=False)
    obs = run_steps(ext, ops)
    obs['ext0'], obs['ops'] = E0, ops
    return obs


def _convops_view(obs):
    return {'ext': obs['ext0'], 'ops': obs['ops']}


class ConvOpsPart:
    NAME = 'convops'
    CORR_REQUIRE = OpsPart.CORR_REQUIRE
    CORR_CASE_TYPE = OpsPart.CORR_CASE_TYPE
    CORR_CHECK = OpsPart.CORR_CHECK
    CORR_SHOW = OpsPart.CORR_SHOW
    SHARD = 25
    IMPL_TIMEOUT = 120
    RULE = ('histories (as in `ops`) whose start is the extension EMBEDDED by DicomStack.to_nifti / to_nifti_wrapper on a synthetic '
            'series (hand-built metadata of every value type, every voxel order, 3-5 D incl. (x,y,z,1,n)); the converted extension '
            'is an input of the model (abstracted from the real object), every later step is compared; partners use fresh keys')

    @staticmethod
    def gen_cases(rng, tier):
        out = []
        for _ in range(60 if tier == 'quick' else 500):
            c = M.gen_case(rng, tier, shape_class=rng.choice([None, None, '5d', 'vec_t1', '3d']), meta_mode='hand',
                           orders=[rng.choice(M.ALL_ORDERS)])
            out.append({'kind': 'convops/' + c['kind'].split('/', 1)[1], 'conv': c, 'seed': rng.randrange(1 << 30),
                        'maxlen': 3 if tier == 'quick' else 5})
        return out

    run_impl = staticmethod(run_convops)

    @staticmethod
    def coq_case(case, obs):
        if not isinstance(obs, dict) or 'ext0' not in obs:
            raise ValueError('the conversion produced no extension to start from')
        return ops_case_to_coq(_convops_view(obs), obs)

    @staticmethod
    def oracle(case, obs):
        if 'crash' in obs:
            return 'harness: %s' % obs.get('msg')
        if 'ext0' not in obs:
            if obs.get('exc') in REJECTS_OWN_PRODUCT:
                return 'the conversion embedded an extension the library itself rejects (%s): %s' % (obs.get('exc'), obs.get('msg'))
            return 'the conversion of a complete grid raised %s: %s' % (obs.get('exc'), obs.get('msg'))
        return oracle_ops(_convops_view(obs), obs)

    @staticmethod
    def signature(case, obs, msg):
        if not isinstance(obs, dict) or 'ext0' not in obs:
            return 'convops/conversion'
        return 'conv' + OpsPart.signature(_convops_view(obs), obs, msg)

    @staticmethod
    def nontrivial(case, obs):
        return isinstance(obs, dict) and 'ext0' in obs and \
            len([s for s in obs.get('steps', []) if 'ext' in s]) >= 1 and bool(obs['ext0']['entries'])


from props import imglib      # noqa: E402


SIG_N11_WRAPPER = 'merge/slice-dim-arg-mismatch/own-product-rejected'


def n11_wrapper_mechanism(case):
    """the images to be merged agree on a header slice dim d (NiftiWrapper.from_sequence passes slice_dim=d to the extension
    merge) while some input extension records another slice_dim: the mechanism of the open finding N11, at wrapper level"""
    ws = case.get('ws') or ([case['w']] if 'w' in case else [])
    if not ws:
        return False
    sls = [W['img']['slice'] for W in ws]
    if sls[0] is None or any(x != sls[0] for x in sls):
        return False
    own = [W['img']['slice'] if W.get('ext') is None else W['ext']['sdim'] for W in ws]
    return any(x != sls[0] for x in own)


def c07_img(part):
    """imglib part restricted to the C07 statements (imglib evaluates every clause and prefers one that is not an open
    finding); in addition an extension the library itself rejects, surfacing as an exception of the PRODUCING call, is a
    C07 failure whatever the borrowed clauses say about the exception"""
    base = imglib.for_property(part, 'C07')
    OWN = 'C07: [own-product-rejected] '

    class P(base):
        BORROWED_FROM = {'imgmerge': 'C03', 'imgsplit': 'C04', 'imgrt': 'C05'}.get(part.NAME)

        @staticmethod
        def oracle(case, obs):
            m = base.oracle(case, obs)
            if m is None and isinstance(obs, dict) and obs.get('exc') in REJECTS_OWN_PRODUCT:
                return OWN + '%s produced an extension the library itself rejects (%s): %s' % (part.NAME, obs.get('exc'), obs.get('msg'))
            return m

        @staticmethod
        def signature(case, obs, msg):
            if msg.startswith(OWN):
                return SIG_N11_WRAPPER if n11_wrapper_mechanism(case) else '%s/own-product-rejected' % part.NAME
            return part.signature(case, obs, msg)
    P.__name__ = base.__name__
    return P


PARTS = [OpsPart, WrapPart, DegenPart, ConvPart, ReusePart, ConvOpsPart]

# [HOOK, image level] The image halves of C07 (extension geometry == image geometry after NiftiWrapper.from_sequence / split;
# theorems Props/C07img.v, model coq/Wrapper/*, parts in props/imglib.py, open finding N8) belong to the image-level agent and
# are added by the integrator:
#     from props import imglib
#     COQ_PROPS = [COQ_PROPS, 'Props/C07img.v']; THEOREMS += imglib.THEOREMS['Props/C07img.v']
#     PARTS += [imglib.for_property(p, 'C07') for p in (imglib.ImgMergePart, imglib.ImgSplitPart, imglib.ImgRoundTripPart)]
# (corpus/C07/imgmerge_*.json are cases of those parts; this plugin's own parts ignore them).

# image level (integrator): extension geometry == image geometry after NiftiWrapper.from_sequence / split
from props import imglib
COQ_PROPS = [COQ_PROPS, 'Props/C07img.v']
THEOREMS = list(THEOREMS) + imglib.THEOREMS['Props/C07img.v']
PARTS = list(PARTS) + [c07_img(p) for p in (imglib.ImgMergePart, imglib.ImgSplitPart, imglib.ImgRoundTripPart)]
TRUSTED_BASE = list(TRUSTED_BASE) + imglib.TRUSTED_BASE
ASSUMPTIONS = list(ASSUMPTIONS) + imglib.ASSUMPTIONS


# source tie (integrator): the helper functions the extension model rests on are TRANSLATED from the Python AST on every
# run (tools/tables/py2coq.py, t_src_ext.py -> Generated/T_src_ext.v) and the hand models are proved equal to the translation
COQ_PROPS = (list(COQ_PROPS) if isinstance(COQ_PROPS, (list, tuple)) else [COQ_PROPS]) + ['Props/SRC.v']
THEOREMS = list(THEOREMS) + ['SRC_valid_classes', 'SRC_class_valid', 'SRC_multiplicity', 'SRC_is_constant', 'SRC_is_repeating', 'SRC_const_period', 'SRC_n_slices']
TABLES = sorted(set(list(globals().get('TABLES') or ['t_classes', 't_ext_tol']) + ['t_src_ext', 't_classes', 't_ext_tol']))
TRUSTED_BASE = list(TRUSTED_BASE) + ['tools/tables/py2coq.py + t_src_ext.py: typed fail-closed translator of is_constant, is_repeating, get_valid_classes, get_multiplicity, _get_const_period, n_slices into Gallina; coq/Common/PyOps2.v as the meaning of the translated primitives']


# link (integrator): the abstract extension model (coq/Ext) is tied to the raw JSON content model (coq/Content, coq/Json,
# coq/Cli) through Link/Abs.v to_content / of_content; LinkPart compares to_content with the real _content on every run
from props import link as _link
COQ_PROPS = (list(COQ_PROPS) if isinstance(COQ_PROPS, (list, tuple)) else [COQ_PROPS]) + ['Props/C07link.v']
THEOREMS = list(THEOREMS) + ['C07_valid_content', 'C07_content_valid_partial', 'C07_content_valid_refuted', 'C07_serialisable', 'C07_closure_serialisable', 'C07_closure_reloads', 'C07_C19_inject_models_agree']
if globals().get('TABLES'): TABLES = sorted(set(list(TABLES) + _link.TABLES))
PARTS = list(PARTS) + [_link.LinkPart]


# source tie, stage A (integrator): _global_slice_subset and _get_changed_class are TRANSLATED from the AST on every run and the
# hand model (global_slice_subset, changed_class) is proved equal to the translation on stored content (Props/SRCalg.v)
COQ_PROPS = list(COQ_PROPS) + ['Props/SRCalg.v']
THEOREMS = list(THEOREMS) + ['SRC_global_slice_subset', 'SRC_changed_class']


# source tie, stage B (integrator): _change_class / _simplify are TRANSLATED in state-passing form (t_src_state.py) and the per-key
# model (change_class_k, simplify_k) is proved to be a refinement of the translation on the stored content (Props/SRCstate.v)
COQ_PROPS = list(COQ_PROPS) + ['Props/SRCstate.v']
THEOREMS = list(THEOREMS) + ['SRC_change_class', 'SRC_simplify', 'SRC_to_content_holds']
TABLES = sorted(set(list(TABLES) + ['t_src_state', 't_content', 't_cli']))


# source tie, stage D (integrator): _insert_slice TRANSLATED in state-passing form and proved a refinement of insert_slice_k for the five
# varying classes (Props/SRCinsert.v); the ('global','const') path is translated and executed against the code only
COQ_PROPS = list(COQ_PROPS) + ['Props/SRCinsert.v']
THEOREMS = list(THEOREMS) + ['SRC_insert_slice', 'SRC_insert_non_slice', 'SRC_insert_sample']


# source tie, stage D (integrator): _insert as a whole TRANSLATED and proved to refine insert_k over all keys (success-case form), and the
# reclassification step refines reclassify_k (Props/SRCinsertall.v)
COQ_PROPS = list(COQ_PROPS) + ['Props/SRCinsertall.v']
THEOREMS = list(THEOREMS) + ['SRC_insert', 'SRC_reclassify']


# source tie, stage D (integrator): from_sequence as a whole TRANSLATED and proved to refine merge_hdr + merge_k over all keys
# (success-case form) (Props/SRCfromseq.v)
COQ_PROPS = list(COQ_PROPS) + ['Props/SRCfromseq.v']
THEOREMS = list(THEOREMS) + ['SRC_from_sequence', 'SRC_merge_hdr']


# source tie, end to end (integrator): Props/SRCtop.v composes the translated get_subset / from_sequence with Link.Abs.to_content:
# for valid nondegenerate extensions the code's method on to_content e returns a content that Holds exactly the hand model's result
COQ_PROPS = list(COQ_PROPS) + ['Props/SRCtop.v']
THEOREMS = list(THEOREMS) + ['SRC_top_get_subset', 'SRC_top_get_subset_valid', 'SRC_sideb_sound', 'SRC_top_from_sequence', 'SRC_top_from_sequence_valid', 'SRC_traj_okb_sound', 'SRC_from_sequence_ext', 'SRC_valid_inputs']
