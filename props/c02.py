"""C02 -- voxel values and patient-space geometry are preserved by conversion.

Two parts.  main: a case is a complete S x T x V series (props/convlib.py) converted with
DicomStack.to_nifti(voxel_order, embed_meta=False); the observation is the whole output array, dtype, affine
(exact rationals) and header fields; a second voxel order is converted as well for the invariance oracle."""
import os, sys
sys.path.insert(0, os.path.dirname(os.path.abspath(__file__)))
import convlib as cl

ID = "C02"
COQ_PROPS = "Props/C02.v"
COQ_EXTRA_TARGETS = ["Conv/CorrGeom.vo"]
THEOREMS = ["C02_values", "C02_values_rescaled", "C02_geometry_partial", "C02_geometry_refuted", "C02_geometry_sources", "C02_geometry_irregular", "C02_geometry_bound", "C02_invariance", "C02_dtype", "C02_dtype_lattice"]
ALLOWED_AXIOMS = []
TABLES = ["t_stack", "t_time", "t_conv"]
RULE = ("complete S x T x V grids (quick: S <= 3, T, V <= 3 incl. all shapes with T != V; thorough: S <= 5, T, V <= 4) x orientation {axial, sagittal, coronal, in-plane "
        "rotated, oblique with dyadic near-Pythagorean cosines (exact stream), oblique with float 3-4-5 / 2-3-6 cosines (2^-30 stream)} x "
        "both slice directions x pixel matrices 2x2..6x5 (also 2x7, 4x2) with rescaled values unique per (file, row, column) across the whole series x dyadic spacings / gaps / origins "
        "x signed / unsigned x BitsStored {8, 12, 15, 16} x BitsAllocated {8, 16, 32} x rescale slope / intercept (integral and k/4), each of these "
        "uniform or DIFFERING between the files of the series (30 % each) x voxel order (all 48, each at least once per run, "
        "some in lower case, + '' + default) x time / vector ordering explicit (6 time keys, 3 vector keys) or guessed (6 guess keys) x shuffled add order; a second voxel order per case for the "
        "invariance oracle; every case is also converted with embed_meta=True to observe the REPORTED reorientation transform.  non-trivial = the reported transform is not the "
        "identity, or more than one volume, or the files differ in pixel format")
TRUSTED_BASE = [
    "nibabel's classic DicomWrapper as a CONTRACT (Conv/Geom.v: slice_normal, slice_indicator, dicom_affine, pix_at), read from nibabel 5.4.2 and "
    "compared with the real wrapper's affine / slice_indicator / get_data on every case (slice indicator exactly whenever np.inner is exact "
    "in float64 for every file - flag pos_exact -, to 2^-30 otherwise)",
    "Stack/Model.v (file order, shape, in-place reversal) and Orient/Model.v (reorder_voxels with nibabel's io_orientation / apply_orientation / "
    "inv_ornt_aff), each tied to the code by its own correspondence (C11/C12, C17) and again here end to end",
    "numpy array filling / views are index maps (Orient.Model.tabulate); numpy itself is not modelled",
    "exact rational arithmetic stands for float64 arithmetic: the generator's exact stream keeps every intermediate value within 52 bits "
    "(convlib.geometry_exact); on the float-cosine stream only 2^-30 agreement of the affine is checked",
]
ASSUMPTIONS = [
    "classic single-frame data sets (one rows x cols image per file); mosaic / enhanced multi-frame wrappers are outside the model",
    "pixel values after the DICOM rescale are integers or dyadic fractions (RescaleSlope / RescaleIntercept integral or k/4; the harness "
    "passes value x common denominator to the model, which only moves values around) and stored values fit BitsStored; the files of a "
    "series may differ in rescale, BitsStored, signedness and BitsAllocated (8 / 16 / 32-signed)",
    "dtype lattice int8, uint8, int16, uint16, int32, float32, float64 (uint32 and wider are outside the model)",
    "C02_geometry_partial: the files' positions lie on a line with equal gaps (hypothesis on_line; derived in C02_geometry_sources, for every reachable "
    "stack, from: sorter position = slice indicator (positions_ok; both read from the same DicomWrapper, compared to 2^-30 on every case), shared "
    "orientation / spacing, displacement proportional to the slice indicator, positions in exact arithmetic progression)",
    "the stack ACCEPTS slice gaps that differ by up to 4 % and takes the slice column from the first two sorted files only: for such series the "
    "affine is NOT exact: the registered geometry clause is proved only as C02_geometry_partial (equidistant sources) and REFUTED in general "
    "(C02_geometry_refuted: accepted slices at 1, 3, 5.06 -> the last slice is mapped 0.06 off); C02_geometry_irregular gives the exact position "
    "error of slice s, (sum_{j<s} (gap_j - gap_0)) x displacement direction, and C02_geometry_bound bounds it by the acceptance tolerance "
    "(s x (gap_0 / 12 + 25/12 x 1e-8), from T_stack.spacing_rtol = 4 % and numpy's atol); the generators use exactly equidistant slices and the "
    "geometry oracle is stated for those",
    "the DICOM rescale is NOT computed by the model: nibabel applies it and the model's input pixels g_pix are what DicomWrapper.get_data() "
    "returns; `rescaled_ok` (g_pix = den x (slope x stored + intercept)) is a HYPOTHESIS of C02_values_rescaled on those input pixels, checked "
    "per case by the correspondence (CorrGeom.rescales_ok against get_unscaled_data / scale_factors), and by the oracle clause `abstraction` "
    "against the generator's stored pixels and RescaleSlope / RescaleIntercept",
    "float rounding on non-dyadic geometry is not modelled (compared to 2^-30 only)",
]

class Main:
    NAME = "main"
    CORR_REQUIRE = "From Coq Require Import Qcanon.\nFrom DV Require Import Stack.Model Orient.Model Conv.Geom Conv.Header Conv.CorrGeom."
    CORR_CASE_TYPE = "CorrGeom.case"
    CORR_CHECK = "CorrGeom.check_geom"
    CORR_SHOW = "CorrGeom.show"
    SHARD = 40
    IMPL_TIMEOUT = 30
    RULE = RULE

    @staticmethod
    def gen_cases(rng, tier):
        n = 620 if tier == 'quick' else 4000
        out = []
        # systematic block: every orientation x both directions x a permuting and a flipping order
        for orient in sorted(cl.ALL_ORIENTS):
            for direction in (1, -1):
                for vo in (rng.sample(cl.CODES48, 2) + [''] if tier == 'quick' else rng.sample(cl.CODES48, 4) + ['']):
                    out.append(cl.gen_stack_case(rng, tier, orient=orient, direction=direction, vo=vo, S=rng.choice([2, 3]),
                                                 gap=2.0, ps=[0.5, 0.75], origin=[-8., 4., 16.25]))
        if tier != 'quick':
            for vo in cl.CODES48:
                for orient in ('sag', 'dd', 'cor'):
                    out.append(cl.gen_stack_case(rng, tier, orient=orient, vo=vo, S=3, T=2, V=2, gap=2.0, ps=[0.5, 0.75]))
        # 5-D (and 4-D) grids with T != V, incl. (X, Y, Z, 1, V) and single-slice volumes: the strides of the file index
        for (S, T, V) in cl.DIMS5:
            for vo in ([rng.choice(cl.CODES48), ''] if tier == 'quick' else rng.sample(cl.CODES48, 3) + ['']):
                out.append(cl.gen_stack_case(rng, tier, S=S, T=T, V=V, vo=vo, rows=2, cols=2, kind='grid-%dx%dx%d' % (S, T, V)))
        # every one of the 48 voxel orders at least once
        for vo in cl.CODES48:
            out.append(cl.gen_stack_case(rng, tier, vo=vo, S=rng.choice([2, 3]), T=rng.choice([1, 2]), V=1, rows=2, cols=3, kind='order-all48'))
        # dtype block: uniform formats ...
        for bits in (8, 12, 15, 16):
            for pixrep in (0, 1):
                for sl_ic in ((None, None), (2, -3), (1, 0), (0.5, None)):
                    out.append(cl.gen_stack_case(rng, tier, bits=bits, pixrep=pixrep, slope=sl_ic[0], intercept=sl_ic[1], S=2, T=1, V=1,
                                                 rows=2, cols=3, alloc=16, pixmix=[], kind='dtype-%d-%s' % (bits, 's' if pixrep else 'u')))
        # ... and formats differing between the files of one series (F21)
        for mix in (['rescale'], ['bits'], ['sign'], ['alloc'], ['rescale', 'sign'], ['bits', 'sign'], ['rescale', 'bits', 'sign', 'alloc']):
            for rep in range(4 if tier == 'quick' else 20):
                out.append(cl.gen_stack_case(rng, tier, pixmix=mix, S=rng.choice([2, 3]), T=rng.choice([1, 2]), V=1, rows=2, cols=2,
                                             bits=rng.choice([12, 16]), alloc=16, kind='mixed-' + '+'.join(mix)))
        while len(out) < n:
            out.append(cl.gen_stack_case(rng, tier))
        return out

    @staticmethod
    def run_impl(case):
        import dcmstack
        return cl.run_conversion_case(dcmstack, case)

    coq_case = staticmethod(cl.coq_case)
    oracle = staticmethod(cl.oracle_c02)

    @staticmethod
    def signature(case, obs, msg):
        return 'c02-' + cl.signature_of(msg)

    @staticmethod
    def nontrivial(case, obs):
        """the conversion really rearranges something: the reported transform is not the identity, or there is more than
        one volume, or the files of the series differ in pixel format"""
        if not isinstance(obs, dict) or obs.get('err') is not None or 'emb' not in obs or 'T' not in obs['emb']:
            return False
        ident = [[1.0 if i == j else 0.0 for j in range(4)] for i in range(4)]
        return obs['emb']['T'] != ident or case['dims'][1] * case['dims'][2] > 1 or bool(case['info'].get('pixmix'))

    shrink = staticmethod(cl.shrink_case)


class Lattice:
    """numpy's result_type on the modelled dtype lattice (all pairs, all triples, a sample of longer tuples)"""
    NAME = "lattice"
    CORR_REQUIRE = "From DV Require Import Conv.Geom Conv.CorrGeom."
    CORR_CASE_TYPE = "CorrGeom.lcase"
    CORR_CHECK = "CorrGeom.check_lattice"
    CORR_SHOW = "CorrGeom.show_lattice"
    SHARD = 400
    RULE = "np.result_type of every pair and triple of {int8, uint8, int16, uint16, int32, float32, float64} and of random 4..7-tuples"
    NAMES = ['int8', 'uint8', 'int16', 'uint16', 'int32', 'float32', 'float64']

    @staticmethod
    def gen_cases(rng, tier):
        import itertools
        out = [{'kind': 'single', 'args': [a]} for a in Lattice.NAMES]
        out += [{'kind': 'pair', 'args': list(t)} for t in itertools.product(Lattice.NAMES, repeat=2)]
        out += [{'kind': 'triple', 'args': list(t)} for t in itertools.product(Lattice.NAMES, repeat=3)]
        for _ in range(200 if tier == 'quick' else 3000):
            out.append({'kind': 'tuple', 'args': [rng.choice(Lattice.NAMES) for _ in range(rng.randrange(4, 8))]})
        return out

    @staticmethod
    def run_impl(case):
        import numpy as np
        res = np.result_type(*[np.dtype(a) for a in case['args']])
        return {'res': str(res), 'set': str(np.result_type(*set(np.dtype(a) for a in case['args']))),
                'safe': [bool(np.can_cast(np.dtype(a), res, 'safe')) for a in case['args']]}

    @staticmethod
    def coq_case(case, obs):
        from vlib.coqlit import cstr, clist
        if obs['res'] != obs['set']:
            raise ValueError('result_type depends on more than the set of dtypes: %r' % (obs,))
        return '(mklcase %s %s)' % (clist(cstr(a) for a in case['args']), cstr(obs['res']))

    @staticmethod
    def oracle(case, obs):
        """what C02 needs of the promotion: the common type holds every member's values (numpy's own 'safe' casting rule),
        it stays inside the modelled lattice, and it does not depend on the order of the arguments"""
        if not isinstance(obs, dict) or 'crash' in obs:
            return 'crash: %r' % (obs,)
        if obs['res'] not in Lattice.NAMES:
            return 'lattice: result_type%s = %s leaves the modelled lattice' % (tuple(case['args']), obs['res'])
        if obs['res'] != obs['set']:
            return 'lattice: result_type depends on more than the set of dtypes'
        if not all(obs['safe']):
            return 'lattice: result_type%s = %s cannot hold every argument safely' % (tuple(case['args']), obs['res'])
        return None

    @staticmethod
    def signature(case, obs, msg):
        return 'c02-lattice'

    @staticmethod
    def nontrivial(case, obs):
        return len(set(case['args'])) > 1


PARTS = [Main, Lattice]
