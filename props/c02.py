"""C02 -- voxel values and patient-space geometry are preserved by conversion.

One part.  A case is a complete S x T x V series (props/convlib.py) converted with
DicomStack.to_nifti(voxel_order, embed_meta=False); the observation is the whole output array, dtype, affine
(exact rationals) and header fields; a second voxel order is converted as well for the invariance oracle."""
import os, sys
sys.path.insert(0, os.path.dirname(os.path.abspath(__file__)))
import convlib as cl

ID = "C02"
COQ_PROPS = "Props/C02.v"
COQ_EXTRA_TARGETS = ["Conv/CorrGeom.vo"]
THEOREMS = ["C02_values", "C02_geometry", "C02_geometry_sources", "C02_invariance", "C02_dtype"]
ALLOWED_AXIOMS = []
TABLES = ["t_stack", "t_time", "t_conv"]
RULE = ("complete S x T x V grids (quick: S <= 3, T, V <= 2; thorough: S <= 5, T, V <= 3) x orientation {axial, sagittal, coronal, in-plane "
        "rotated, oblique with dyadic near-Pythagorean cosines (exact stream), oblique with float 3-4-5 / 2-3-6 cosines (2^-30 stream)} x "
        "both slice directions x pixel matrices 2x2..3x4 with unique stored values per (file, row, column) x dyadic spacings / gaps / origins "
        "x signed / unsigned x BitsStored {8, 12, 15, 16} x integral rescale slope / intercept x voxel order (quick: 8 of the 48 + '' + default; "
        "thorough: all 48 + '' + default) x time / vector ordering explicit or guessed x shuffled add order; a second voxel order per case for the "
        "invariance oracle; a small error stream (invalid codes, incomplete grid).  non-trivial = reorientation is not the identity, or more "
        "than one slice / volume")
TRUSTED_BASE = [
    "nibabel's classic DicomWrapper as a CONTRACT (Conv/Geom.v: slice_normal, slice_indicator, dicom_affine, pix_at), read from nibabel 5.4.2 and "
    "compared with the real wrapper's affine / slice_indicator / get_data on every case",
    "Stack/Model.v (file order, shape, in-place reversal) and Orient/Model.v (reorder_voxels with nibabel's io_orientation / apply_orientation / "
    "inv_ornt_aff), each tied to the code by its own correspondence (C11/C12, C17) and again here end to end",
    "numpy array filling / views are index maps (Orient.Model.tabulate); numpy itself is not modelled",
    "exact rational arithmetic stands for float64 arithmetic: the generator's exact stream keeps every intermediate value within 52 bits "
    "(convlib.geometry_exact); on the float-cosine stream only 2^-30 agreement of the affine is checked",
]
ASSUMPTIONS = [
    "classic single-frame data sets (one rows x cols image per file); mosaic / enhanced multi-frame wrappers are outside the model",
    "pixel values after the DICOM rescale are integers (integral RescaleSlope / RescaleIntercept) and stored values fit BitsStored; all files "
    "of a series share the stored dtype and rescale",
    "C02_geometry: the files' positions lie on a line with equal gaps (hypothesis on_line; derived in C02_geometry_sources from: shared "
    "orientation / spacing, displacement proportional to the slice indicator, positions in exact arithmetic progression); the code itself only "
    "checks spacing to 4 % and takes the slice column from the first two sorted files",
    "float rounding on non-dyadic geometry is not modelled (compared to 2^-30 only)",
]

NAME = "main"
CORR_REQUIRE = "From Coq Require Import Qcanon.\nFrom DV Require Import Stack.Model Orient.Model Conv.Geom Conv.Header Conv.CorrGeom."
CORR_CASE_TYPE = "CorrGeom.case"
CORR_CHECK = "CorrGeom.check_geom"
CORR_SHOW = "CorrGeom.show"
SHARD = 40
IMPL_TIMEOUT = 30


def gen_cases(rng, tier):
    n = 420 if tier == 'quick' else 6000
    out = []
    # systematic block: every orientation x both directions x a permuting and a flipping order
    for orient in sorted(cl.ALL_ORIENTS):
        for direction in (1, -1):
            for vo in (['LAS', 'SPR', ''] if tier == 'quick' else ['LAS', 'SPR', 'IRA', 'PIL', '']):
                out.append(cl.gen_stack_case(rng, tier, orient=orient, direction=direction, vo=vo, S=rng.choice([2, 3]),
                                             gap=2.0, ps=[0.5, 0.75], origin=[-8., 4., 16.25]))
    if tier != 'quick':
        for vo in cl.CODES48:
            for orient in ('sag', 'dd', 'cor'):
                out.append(cl.gen_stack_case(rng, tier, orient=orient, vo=vo, S=3, T=2, V=2, gap=2.0, ps=[0.5, 0.75]))
    # dtype block
    for bits in (8, 12, 15, 16):
        for pixrep in (0, 1):
            for sl_ic in ((None, None), (2, -3), (1, 0)):
                out.append(cl.gen_stack_case(rng, tier, bits=bits, pixrep=pixrep, slope=sl_ic[0], intercept=sl_ic[1], S=2, T=1, V=1,
                                             rows=2, cols=3, kind='dtype-%d-%s' % (bits, 's' if pixrep else 'u')))
    while len(out) < n:
        out.append(cl.gen_stack_case(rng, tier))
    out += cl.error_cases(rng, tier)
    return out


def run_impl(case):
    import dcmstack
    return cl.run_conversion_case(dcmstack, case)


coq_case = cl.coq_case
oracle = cl.oracle_c02


def signature(case, obs, msg):
    return 'c02-' + cl.signature_of(msg)


def nontrivial(case, obs):
    if not isinstance(obs, dict) or obs.get('err') is not None:
        return case.get('expect') == 'error'
    return case.get('vo') != '' or len(case['files']) > 1


shrink = cl.shrink_case
