#!/bin/bash
# MANIFEST.setup_cmd: rebuild the whole Coq development from files on disk (full .vo build).
set -e
cd "$(dirname "$0")"
mkdir -p work evidence
/venv/bin/python tools/gen_tables.py --repo "${DCMSTACK_REPO:-/repo}"
cd coq
{ echo "-Q . DV"; find . -name '*.v' | sed 's|^\./||' | LC_ALL=C sort; } > _CoqProject
coq_makefile -f _CoqProject -o Makefile > /dev/null
timeout 3000 make -j16
