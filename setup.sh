#!/bin/bash
# MANIFEST.setup_cmd: rebuild the whole Coq development from files on disk (full .vo build, no -vos).
# Exit status: 0 when every theorem file of every REGISTERED check (MANIFEST.json) has been built;
# files of work in progress that do not compile yet are reported but do not fail the setup.
cd "$(dirname "$0")"
mkdir -p work evidence
/venv/bin/python tools/gen_tables.py --repo "${DCMSTACK_REPO:-/repo}" || echo "setup: some table translators failed (see above)"
cd coq
{ echo "-Q . DV"; find . -name '*.v' | sed 's|^\./||' | LC_ALL=C sort; } > _CoqProject
coq_makefile -f _CoqProject -o Makefile > /dev/null || exit 2
timeout 3300 make -k -j16 > ../work/setup_make.log 2>&1
rc=$?
[ $rc -ne 0 ] && { echo "setup: make -k reported errors:"; grep -E '^(File|Error|make.*Error)' ../work/setup_make.log | head -20; }
cd ..
PYTHONPATH=/verif /venv/bin/python - <<'PY'
import json, importlib, os, sys
m = json.load(open('MANIFEST.json'))
missing = []
for c in m['checks']:
    pl = importlib.import_module('props.' + c['property_id'].lower())
    files = pl.COQ_PROPS if isinstance(pl.COQ_PROPS, (list, tuple)) else [pl.COQ_PROPS]
    for f in files:
        if not os.path.exists(os.path.join('coq', f + 'o')):
            missing.append(f)
print('setup: %d registered checks, theorem files missing: %s' % (len(m['checks']), missing or 'none'))
import vlib.main as vm
bad = vm.hygiene()
print('setup: forbidden constructs in the whole Coq tree (Admitted, Axiom, Parameter, top-level Variable, kernel flags ...): %s' % (bad or 'none'))
if bad:
    missing.append('hygiene')
sys.exit(1 if missing else 0)
PY
