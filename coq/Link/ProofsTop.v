(** Link, part 7: the statements of Props/C09link.v and Props/C10link.v assembled. *)
From Coq Require Import List Bool Arith NArith ZArith QArith Lia.
From DV Require Import Common.Res Common.Str Common.Jv.
From DV Require Generated.T_content Content.Model Content.Spec Content.ProofsCorrupt Content.ProofsTop
     Json.Model Json.ProofsCodec Json.ProofsStruct.
From DV Require Import Ext.Types Ext.Classes Ext.Seq Ext.Model Ext.Spec Ext.ValidFacts Ext.ProofsValidBase.
From DV Require Import Link.Abs Link.ProofsNames Link.ProofsReps Link.ProofsTo Link.ProofsOf Link.ProofsOps.
Import ListNotations.
Local Open Scope nat_scope.

Module CPT := DV.Content.ProofsTop.

(** * C09 with the real validity check *)

Lemma from_to_content (c : jv) s :
  JM.wf c -> JM.to_json CM.check_valid c = Ok s -> JM.from_json CM.check_valid s = Ok c.
Proof. apply (JS.from_to CM.check_valid). Qed.

Lemma constructors_agree_content (store : str -> option str) :
  (forall b, store b = Some b) ->
  forall c, JM.wf c ->
    JM.from_json CM.check_valid (JM.print c) = JM.from_runtime_repr CM.check_valid c /\
    JM.save_load CM.check_valid store c = JM.from_runtime_repr CM.check_valid c.
Proof. intros Hs. apply (JS.constructors_agree CM.check_valid store Hs). Qed.

Section WithTok.
  Variable qtok : Q -> str.
  Variable tokq : str -> option Q.
  Variable reo : option (list (list Q)).

  Lemma roundtrip_ext (store : str -> option str) (e : jext) :
    (forall b, store b = Some b) ->
    valid e -> ext_wf_json e = true -> aff_toks_ok qtok (hdr_of e) = true -> aff_rt qtok tokq (hdr_of e) ->
    reo_toks_ok qtok reo = true -> reo_rt qtok tokq reo ->
    JM.to_json CM.check_valid (to_content_r qtok reo e) = Ok (JM.print (to_content_r qtok reo e)) /\
    JM.from_json CM.check_valid (JM.print (to_content_r qtok reo e)) = Ok (to_content_r qtok reo e) /\
    JM.from_runtime_repr CM.check_valid (to_content_r qtok reo e) = Ok (to_content_r qtok reo e) /\
    JM.save_load CM.check_valid store (to_content_r qtok reo e) = Ok (to_content_r qtok reo e) /\
    (exists e', of_content tokq (to_content_r qtok reo e) = Some e' /\ ext_equiv e e') /\
    reo_of_content tokq (to_content_r qtok reo e) = Some reo.
  Proof.
    intros Hs Hv Hwf Ha Hrt Hr Hrrt.
    pose proof (wf_to_content qtok reo e (proj1 (proj2 Hv)) Hwf Ha Hr) as Hw.
    pose proof (proj1 (valid_to_content qtok reo e Hv)) as Hck.
    pose proof (to_json_valid qtok reo e Hv) as Htj.
    split; [exact Htj|]. split; [apply (from_to_content _ _ Hw Htj)|].
    split; [apply (JS.from_runtime_repr_iff_valid CM.check_valid); exact Hck|].
    split; [apply (JS.file_roundtrip CM.check_valid store Hs _ Hw Hck)|].
    split; [apply (of_to_content qtok tokq reo e Hv Hrt) | apply (reo_of_to_content qtok tokq reo e Hrrt)].
  Qed.

  (** * C10: the gates hand back valid extensions *)

  Definition abstracts_valid (c : jv) : Prop :=
    forall e, of_content tokq c = Some e ->
              Forall (fun n => 1 <= n) (shape (hdr_of e)) -> mult1_single e -> valid e.

  Lemma gates_ext :
    (forall c, CM.check_valid c = Ok tt -> abstracts_valid c) /\
    (forall s c, JM.from_json CM.check_valid s = Ok c -> abstracts_valid c) /\
    (forall (parse : str -> res jv) s c, CM.from_json parse s = Ok c -> abstracts_valid c) /\
    (forall c c', CM.from_runtime_repr c = Ok c' -> abstracts_valid c') /\
    (forall exts make_empty empty i c, CM.wrapper_init exts make_empty empty = Ok (i, c) -> abstracts_valid c).
  Proof.
    assert (G : forall c, CM.check_valid c = Ok tt -> abstracts_valid c).
    { intros c Hck e Hof Hp Hn. apply (gate_valid_partial tokq c e Hck Hof Hp Hn). }
    split; [exact G|]. split; [|split; [|split]].
    - intros s c H. apply G. rewrite <- from_json_models_agree in H.
      apply (DV.Content.ProofsCorrupt.from_json_gate parse_res s c H).
    - intros parse s c H. apply G. apply (DV.Content.ProofsCorrupt.from_json_gate parse s c H).
    - intros c c' H. destruct (DV.Content.ProofsCorrupt.from_runtime_repr_gate c c' H) as [-> H2]. apply G. exact H2.
    - intros exts me empty i c H. apply G. apply (DV.Content.ProofsCorrupt.wrapper_gate exts me empty i c H).
  Qed.

  (** and every gate lets the content of a valid extension through *)
  Lemma gates_accept_valid (e : jext) :
    valid e ->
    CM.from_runtime_repr (to_content_r qtok reo e) = Ok (to_content_r qtok reo e) /\
    (forall (parse : str -> res jv) s, parse s = Ok (to_content_r qtok reo e) -> CM.from_json parse s = Ok (to_content_r qtok reo e)) /\
    CM.wrapper_init [(TC.dcm_meta_ecode, to_content_r qtok reo e)] false JNull = Ok (Some 0, to_content_r qtok reo e).
  Proof.
    intros Hv. pose proof (proj1 (valid_to_content qtok reo e Hv)) as Hck. split; [|split].
    - unfold CM.from_runtime_repr. rewrite Hck. reflexivity.
    - intros parse s Hp. unfold CM.from_json. rewrite Hp. cbn [bind]. rewrite Hck. reflexivity.
    - unfold CM.wrapper_init, CM.screen. rewrite Z.eqb_refl, Hck. cbn [bind snd]. rewrite Hck. reflexivity.
  Qed.
End WithTok.
