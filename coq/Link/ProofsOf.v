(** Link, part 4: [of_content].
      [of_content_reps]   a content on which the abstraction is defined holds exactly the abstracted extension,
                          whose keys are distinct, sit in classes valid for the shape, constants as singletons;
      [gate_valid]        C10 x C07: an ACCEPTED content abstracts to a [valid] extension (positive extents,
                          no key in a varying class of multiplicity one);
      [of_to_content]     of_content (to_content e) = Some e' with e' = e as an unordered map. *)
From Coq Require Import List Bool Arith NArith ZArith QArith Lia.
From DV Require Import Common.Res Common.Str Common.Jv.
From DV Require Generated.T_content Content.PyVal Content.Model Content.Spec Content.ProofsBasic
     Content.ProofsClasses Content.ProofsLoops Content.ProofsMain.
From DV Require Import Ext.Types Ext.Classes Ext.Seq Ext.Model Ext.Spec Ext.TableFacts Ext.ValidFacts
     Ext.ProofsValidBase.
From DV Require Import Link.Abs Link.ProofsNames Link.ProofsReps Link.ProofsTo.
Import ListNotations.
Local Open Scope nat_scope.

(** * [omap] *)

Lemma omap_Forall2 {A B} (f : A -> option B) l r :
  omap f l = Some r <-> Forall2 (fun x y => f x = Some y) l r.
Proof.
  revert r. induction l as [|x l IH]; intros r; cbn [omap].
  - split; [intros [= <-]; constructor | intros H; inversion H; reflexivity].
  - destruct (f x) as [y|] eqn:Ef.
    + destruct (omap f l) as [ys|] eqn:El.
      * split; [intros [= <-]; constructor; [exact Ef | apply IH; reflexivity]|].
        intros H. inversion H as [|? y' ? ys' Hy Hys]; subst. apply IH in Hys. congruence.
      * split; [discriminate|]. intros H. inversion H as [|? y' ? ys' Hy Hys]; subst. apply IH in Hys. discriminate.
    + split; [discriminate|]. intros H. inversion H; congruence.
Qed.

Lemma omap_map_id {A B} (f : A -> option B) (g : B -> A) r :
  (forall y, In y r -> f (g y) = Some y) -> omap f (map g r) = Some r.
Proof.
  induction r as [|y r IH]; intros H; [reflexivity|]. cbn [map omap].
  rewrite (H y (or_introl eq_refl)), IH; [reflexivity | intros z Hz; apply H; right; exact Hz].
Qed.

Lemma nat_of_jv_inv v n : nat_of_jv v = Some n -> v = nat_jv n.
Proof.
  destruct v; try discriminate. cbn [nat_of_jv]. destruct (0 <=? z)%Z eqn:E; [|discriminate].
  intros [= <-]. apply Z.leb_le in E. unfold nat_jv. rewrite Z2Nat.id; [reflexivity | exact E].
Qed.

Lemma nat_of_jv_nat n : nat_of_jv (nat_jv n) = Some n.
Proof.
  unfold nat_of_jv, nat_jv. replace (0 <=? Z.of_nat n)%Z with true by (symmetry; apply Z.leb_le; lia).
  rewrite Nat2Z.id. reflexivity.
Qed.

Lemma shape_inv shv sh : omap nat_of_jv shv = Some sh -> shv = map nat_jv sh.
Proof.
  rewrite omap_Forall2. induction 1 as [|x y l r Hxy _ IH]; [reflexivity|].
  cbn [map]. rewrite (nat_of_jv_inv _ _ Hxy), IH. reflexivity.
Qed.

Lemma sdim_inv v sd : sdim_of_jv v = Some sd -> v = sdim_jv sd.
Proof.
  unfold sdim_of_jv. destruct v; try discriminate.
  - intros [= <-]. reflexivity.
  - destruct (nat_of_jv (JInt z)) as [n|] eqn:E; [|discriminate]. cbn [option_map]. intros [= <-].
    apply (nat_of_jv_inv _ _ E).
Qed.

Lemma sdim_of_jv_sdim sd : sdim_of_jv (sdim_jv sd) = Some sd.
Proof. destruct sd as [d|]; [|reflexivity]. unfold sdim_of_jv, sdim_jv. cbn [nat_jv]. fold (nat_jv d). rewrite nat_of_jv_nat. reflexivity. Qed.

(** * Class dictionaries *)

Lemma render_unrender c v vs : unrender c v = Some vs -> render c vs = v.
Proof.
  destruct c; cbn [unrender render]; destruct v; try discriminate; intros [= <-]; reflexivity.
Qed.

Lemma dict_entries_spec c d es :
  dict_entries c d = Some es ->
  Forall2 (fun (kv : str * jv) (x : entry) => fst x = fst kv /\ fst (snd x) = c /\ unrender c (snd kv) = Some (snd (snd x))) d es.
Proof.
  revert es. induction d as [|[k v] d IH]; intros es H; cbn [dict_entries] in H.
  - injection H as <-. constructor.
  - destruct (unrender c v) as [vs|] eqn:Eu; [|discriminate].
    destruct (dict_entries c d) as [es'|]; [|discriminate]. injection H as <-.
    constructor; [cbn [fst snd]; auto | apply IH; reflexivity].
Qed.

Lemma Forall2_len {A B} (R : A -> B -> Prop) l r : Forall2 R l r -> length l = length r.
Proof. induction 1 as [|a b l r _ _ IH]; [reflexivity | cbn [length]; rewrite IH; reflexivity]. Qed.

Lemma Forall2_In_l {A B} (R : A -> B -> Prop) l r x : Forall2 R l r -> In x l -> exists y, In y r /\ R x y.
Proof.
  induction 1 as [|a b l r Hab _ IH]; intros Hin; [destruct Hin|].
  destruct Hin as [<-|Hin]; [exists b; split; [left; reflexivity | exact Hab]|].
  destruct (IH Hin) as [y [Hy Hr]]. exists y. split; [right; exact Hy | exact Hr].
Qed.
Lemma Forall2_In_r {A B} (R : A -> B -> Prop) l r y : Forall2 R l r -> In y r -> exists x, In x l /\ R x y.
Proof.
  induction 1 as [|a b l r Hab _ IH]; intros Hin; [destruct Hin|].
  destruct Hin as [<-|Hin]; [exists a; split; [left; reflexivity | exact Hab]|].
  destruct (IH Hin) as [x [Hx Hr]]. exists x. split; [right; exact Hx | exact Hr].
Qed.

(** what a successful [class_entries_of] says *)
Lemma class_entries_of_spec (o : CS.obj) c es :
  class_entries_of o c = Some es ->
  CS.class_entry_ok o (name_of_cls c) = true /\
  (forall x, In x es -> fst (snd x) = c) /\
  match CS.class_dict o (name_of_cls c) with
  | Some d => PV.has_key (name_of_base (base_of c)) o = true /\ dict_entries c d = Some es
  | None => PV.has_key (name_of_base (base_of c)) o = false /\ es = []
  end.
Proof.
  unfold class_entries_of, CS.class_entry_ok, CS.class_dict, PV.has_key. cbn [name_of_cls fst snd].
  destruct (jassoc (name_of_base (base_of c)) o) as [[| | | | | |bo]|]; try discriminate.
  - destruct (jassoc (name_of_sub (sub_of c)) bo) as [[| | | | | |d]|]; try discriminate.
    intros H. split; [reflexivity|]. split; [|split; [reflexivity | exact H]].
    intros x Hx. apply dict_entries_spec in H. destruct (Forall2_In_r _ _ _ _ H Hx) as [kv [_ [_ [Hc _]]]]. exact Hc.
  - intros [= <-]. split; [reflexivity|]. split; [intros x []|]. split; reflexivity.
Qed.

Lemma all_entries_of_spec (o : CS.obj) cs es :
  all_entries_of o cs = Some es ->
  (forall c, In c cs -> exists ec, class_entries_of o c = Some ec) /\
  (forall x, In x es <-> exists c ec, In c cs /\ class_entries_of o c = Some ec /\ In x ec).
Proof.
  revert es. induction cs as [|c cs IH]; intros es H; cbn [all_entries_of] in H.
  - injection H as <-. split; [intros c []|]. intros x. split; [intros [] | intros [c [ec [[] _]]]].
  - destruct (class_entries_of o c) as [a|] eqn:Ea; [|discriminate].
    destruct (all_entries_of o cs) as [b|] eqn:Eb; [|discriminate]. injection H as <-.
    destruct (IH b eq_refl) as [IH1 IH2]. split.
    + intros c' [<-|Hc']; [exists a; exact Ea | apply IH1; exact Hc'].
    + intros x. rewrite in_app_iff, IH2. split.
      * intros [Hx|[c' [ec [Hc' [He Hx]]]]]; [exists c, a; split; [left; reflexivity | split; assumption]|].
        exists c', ec. split; [right; exact Hc' | split; assumption].
      * intros [c' [ec [[<-|Hc'] [He Hx]]]]; [left; congruence | right; exists c', ec; auto].
Qed.

Section WithTok.
  Variable qtok : Q -> str.
  Variable tokq : str -> option Q.
  Variable reo : option (list (list Q)).

  Lemma q_of_jv_scalar v q : q_of_jv tokq v = Some q -> CS.is_scalar v = true.
  Proof. destruct v; try discriminate; reflexivity. Qed.

  Lemma rows_inv rows a :
    omap (row_of_jv tokq) rows = Some a ->
    exists rows', rows = map JArr rows' /\ Forall (Forall (fun v => CS.is_scalar v = true)) rows' /\
                  map (@length jv) rows' = map (@length Q) a.
  Proof.
    rewrite omap_Forall2. induction 1 as [|x y l r Hxy _ IH].
    - exists []. repeat split; constructor.
    - destruct IH as [rows' [-> [Hs Hl]]]. unfold row_of_jv in Hxy. destruct x as [| | | | |xs|]; try discriminate.
      apply omap_Forall2 in Hxy. exists (xs :: rows'). split; [reflexivity|]. split.
      + constructor; [|exact Hs]. apply Forall_forall. intros v Hv.
        destruct (Forall2_In_l _ _ _ _ Hxy Hv) as [q [_ Hq]]. apply (q_of_jv_scalar _ _ Hq).
      + cbn [map]. rewrite Hl. f_equal. apply (Forall2_len _ _ _ Hxy).
  Qed.

  (** ** What [of_content] returns *)

  Theorem of_content_reps c e :
    of_content tokq c = Some e ->
    exists o, c = JObj o /\ reps o e /\ NoDup (keys_e e) /\
      (forall k cl vs, In (k, (cl, vs)) (entries e) -> class_ok (shape (hdr_of e)) cl = true) /\
      (forall k vs, In (k, (GConst, vs)) (entries e) -> length vs = 1).
  Proof.
    unfold of_content. destruct c as [| | | | | |o]; try discriminate.
    destruct (jassoc PV.K_shape o) as [[| | | | |shv|]|] eqn:Eshape; try discriminate.
    destruct (jassoc PV.K_affine o) as [[| | | | |rows|]|] eqn:Eaff; try discriminate.
    destruct (jassoc PV.K_slice_dim o) as [sdv|] eqn:Esd; try discriminate.
    destruct (omap nat_of_jv shv) as [sh|] eqn:Osh; try discriminate.
    destruct (omap (row_of_jv tokq) rows) as [a|] eqn:Oa; try discriminate.
    destruct (sdim_of_jv sdv) as [sd|] eqn:Osd; try discriminate.
    destruct (all_entries_of o all_classes) as [es|] eqn:Oes; try discriminate.
    destruct (PV.has_key (name_of_base BGlobal) o && nodup_keys (map fst es) && forallb _ es) eqn:Econd; [|discriminate].
    intros [= <-]. apply andb_true_iff in Econd as [Econd Hcok]. apply andb_true_iff in Econd as [Hglob Hnd].
    apply nodup_keys_NoDup in Hnd. rewrite forallb_forall in Hcok.
    destruct (all_entries_of_spec o _ _ Oes) as [Hall Hin].
    exists o. split; [reflexivity|]. cbn [hdr_of entries shape sdim aff].
    assert (Hcls : forall x, In x es -> exists ec, class_entries_of o (fst (snd x)) = Some ec /\ In x ec).
    { intros x Hx. apply Hin in Hx as [c' [ec [_ [He Hx]]]].
      destruct (class_entries_of_spec o c' ec He) as [_ [Hc _]]. rewrite (Hc x Hx). exists ec. split; assumption. }
    split; [|split; [exact Hnd|split]].
    - constructor; cbn [hdr_of entries shape sdim aff].
      + rewrite Eshape, (shape_inv _ _ Osh). reflexivity.
      + rewrite Esd, (sdim_inv _ _ Osd). reflexivity.
      + destruct (rows_inv _ _ Oa) as [rows' [-> [Hs Hl]]]. exists rows'. split; [exact Eaff | split; assumption].
      + intros c. destruct (Hall c (all_classes_complete c)) as [ec He].
        apply (class_entries_of_spec o c ec He).
      + intros c. destruct (Hall c (all_classes_complete c)) as [ec He].
        destruct (class_entries_of_spec o c ec He) as [_ [_ Hd]].
        destruct (CS.class_dict o (name_of_cls c)) as [d|].
        * destruct Hd as [Hk _]. split; [intros _; exists d; reflexivity | intros _].
          destruct c; cbn [base_of has_base has_time has_vec name_of_base] in *; first [reflexivity | exact Hk].
        * destruct Hd as [Hk _]. split; [|intros [d Hd]; discriminate]. intros Hb. exfalso.
          destruct c; cbn [base_of has_base has_time has_vec name_of_base] in *; congruence.
      + intros c d Hd k v. destruct (Hall c (all_classes_complete c)) as [ec He].
        destruct (class_entries_of_spec o c ec He) as [_ [Hc Hde]]. rewrite Hd in Hde. destruct Hde as [_ Hde].
        apply dict_entries_spec in Hde. split.
        * intros Hkv. destruct (Forall2_In_l _ _ _ _ Hde Hkv) as [[k' [c' vs]] [Hx [Hk [Hc' Hu]]]].
          cbn [fst snd] in Hk, Hc', Hu. subst k' c'. exists vs. split.
          -- apply Hin. exists c, ec. split; [apply all_classes_complete | split; assumption].
          -- symmetry. apply (render_unrender _ _ _ Hu).
        * intros [vs [Hx ->]]. destruct (Hcls _ Hx) as [ec' [He' Hx']]. cbn [fst snd] in He'.
          rewrite He in He'. injection He' as <-.
          destruct (Forall2_In_r _ _ _ _ Hde Hx') as [[k' v'] [Hkv [Hk [_ Hu]]]]. cbn [fst snd] in Hk, Hu. subst k'.
          rewrite (render_unrender _ _ _ Hu). exact Hkv.
    - intros k cl vs Hx. apply (Hcok _ Hx).
    - intros k vs Hx. destruct (Hcls _ Hx) as [ec [He Hx']]. cbn [fst snd] in He.
      destruct (class_entries_of_spec o GConst ec He) as [_ [_ Hd]].
      destruct (CS.class_dict o (name_of_cls GConst)) as [d|]; [|destruct Hd as [_ ->]; destruct Hx'].
      destruct Hd as [_ Hd]. apply dict_entries_spec in Hd.
      destruct (Forall2_In_r _ _ _ _ Hd Hx') as [kv [_ [_ [_ Hu]]]]. cbn [unrender snd] in Hu. injection Hu as <-. reflexivity.
  Qed.

  (** ** The gate: accepted + abstractable = valid *)

  (** a varying class of multiplicity one holds exactly one value (weaker than [nondegenerate], which excludes such
      entries altogether) *)
  Definition mult1_single (e : jext) : Prop :=
    forall k c vs, In (k, (c, vs)) (entries e) -> c <> GConst -> mult_spec (dims (hdr_of e)) c = 1 -> length vs = 1.

  Lemma nondegenerate_mult1_single e : nondegenerate e -> mult1_single e.
  Proof. intros H k c vs Hin Hc Hm. exfalso. apply (H _ _ _ Hin Hc Hm). Qed.

  (** FULL STATEMENT (false): CM.check_valid c = Ok tt -> of_content c = Some e -> valid e.
      check_valid accepts a zero extent (every multiplicity is then 0 or unchecked) and does not count the
      values of a key in a class of multiplicity one; see Props/C10link.v for the witnesses. *)
  Theorem gate_valid_partial c e :
    CM.check_valid c = Ok tt -> of_content tokq c = Some e ->
    Forall (fun n => 1 <= n) (shape (hdr_of e)) -> mult1_single e -> valid e.
  Proof.
    intros Hck Hof Hp Hnd. destruct (of_content_reps c e Hof) as [o [-> [R [Hnodup [Hcok Hconst]]]]].
    pose proof (reps_wf_domain o e R Hp) as Hwf.
    apply (CPM.check_valid_iff_spec _ Hwf) in Hck.
    apply (reps_valid_gen o e R Hck Hp Hnodup Hcok Hconst).
    intros k cl vs Hin Hc _ Hm. apply (Hnd _ _ _ Hin Hc Hm).
  Qed.

  (** ** of_content after to_content *)

  Lemma dict_entries_render c (l : list entry) :
    (forall x, In x l -> fst (snd x) = c) -> (c = GConst -> forall x, In x l -> length (snd (snd x)) = 1) ->
    dict_entries c (map (fun kv : entry => (fst kv, render c (snd (snd kv)))) l) = Some l.
  Proof.
    induction l as [|[k [c' vs]] l IH]; intros Hc Hs; [reflexivity|]. cbn [map dict_entries fst snd].
    pose proof (Hc _ (or_introl eq_refl)) as Hc'. cbn [fst snd] in Hc'. subst c'.
    assert (Hu : unrender c (render c vs) = Some vs).
    { destruct c; try reflexivity. specialize (Hs eq_refl _ (or_introl eq_refl)). cbn [fst snd] in Hs.
      destruct vs as [|v [|w vs]]; try discriminate Hs. reflexivity. }
    rewrite Hu, IH; [reflexivity | intros x Hx; apply Hc; right; exact Hx | intros E x Hx; apply (Hs E); right; exact Hx].
  Qed.

  Definition stored_entries (e : jext) (cs : list cls) : list entry :=
    flat_map (fun c => if has_base (hdr_of e) (base_of c) then class_entries e c else []) cs.

  Lemma class_entries_of_to e c :
    (forall k vs, In (k, (GConst, vs)) (entries e) -> length vs = 1) ->
    class_entries_of (to_members_r qtok reo e) c = Some (if has_base (hdr_of e) (base_of c) then class_entries e c else []).
  Proof.
    intros Hconst. unfold class_entries_of. rewrite jassoc_base_r.
    destruct (has_base (hdr_of e) (base_of c)); [|reflexivity].
    assert (Hsub : jassoc (name_of_sub (sub_of c))
                     [(name_of_sub (sub_of (first_sub (base_of c))), JObj (class_obj e (first_sub (base_of c))));
                      (name_of_sub SSlices, JObj (class_obj e (slices_of_base (base_of c))))]
                   = Some (JObj (class_obj e c))) by (destruct c; reflexivity).
    unfold base_jv. rewrite Hsub. unfold class_obj. apply dict_entries_render.
    - intros x Hx. apply filter_In in Hx as [_ Hx]. apply cls_eqb_eq in Hx. exact Hx.
    - intros -> [k [c' vs]] Hx. apply filter_In in Hx as [Hx Hc]. cbn [fst snd] in *. apply cls_eqb_eq in Hc. subst c'.
      apply (Hconst _ _ Hx).
  Qed.

  Lemma all_entries_of_to e cs :
    (forall k vs, In (k, (GConst, vs)) (entries e) -> length vs = 1) ->
    all_entries_of (to_members_r qtok reo e) cs = Some (stored_entries e cs).
  Proof.
    intros Hconst. induction cs as [|c cs IH]; [reflexivity|]. cbn [all_entries_of].
    rewrite (class_entries_of_to e c Hconst), IH. reflexivity.
  Qed.

  Lemma in_stored_entries e x :
    In x (stored_entries e all_classes) <-> In x (entries e) /\ has_base (hdr_of e) (base_of (fst (snd x))) = true.
  Proof.
    unfold stored_entries. rewrite in_flat_map. split.
    - intros [c [_ Hx]]. destruct (has_base (hdr_of e) (base_of c)) eqn:Hb; [|destruct Hx].
      apply filter_In in Hx as [Hx Hc]. apply cls_eqb_eq in Hc. rewrite Hc. split; assumption.
    - intros [Hx Hb]. exists (fst (snd x)). split; [apply all_classes_complete|]. rewrite Hb.
      apply filter_In. split; [exact Hx | apply cls_eqb_refl].
  Qed.

  Lemma NoDup_app_intro {A} (l1 l2 : list A) :
    NoDup l1 -> NoDup l2 -> (forall x, In x l1 -> In x l2 -> False) -> NoDup (l1 ++ l2).
  Proof.
    induction l1 as [|a l1 IH]; intros H1 H2 Hx; [exact H2|]. cbn [app].
    inversion H1 as [|? ? Hn H1']; subst. constructor.
    - intros Hin. apply in_app_iff in Hin as [Hin|Hin]; [contradiction | apply (Hx a (or_introl eq_refl) Hin)].
    - apply IH; [exact H1' | exact H2 | intros x Ha Hb; apply (Hx x (or_intror Ha) Hb)].
  Qed.

  Lemma stored_entries_NoDup e cs :
    NoDup (keys_e e) -> NoDup cs -> NoDup (map fst (stored_entries e cs)).
  Proof.
    intros Hnd. induction cs as [|c cs IH]; intros Hcs; [constructor|].
    inversion Hcs as [|? ? Hn Hcs']; subst. unfold stored_entries. cbn [flat_map]. rewrite map_app.
    apply NoDup_app_intro.
    - destruct (has_base _ _); [|constructor]. unfold class_entries, keys_e in *.
      revert Hnd. generalize (entries e) as l. induction l as [|x l IHl]; intros Hnd; [constructor|].
      cbn [filter map] in *. inversion Hnd as [|? ? Hx Hnd']; subst.
      destruct (cls_eqb _ c); [|apply IHl; exact Hnd']. cbn [map]. constructor; [|apply IHl; exact Hnd'].
      intros Hin. apply Hx. apply in_map_iff in Hin as [y [Hy Hin]]. apply filter_In in Hin as [Hin _].
      apply in_map_iff. exists y. split; assumption.
    - apply IH. exact Hcs'.
    - intros k H1 H2. apply in_map_iff in H1 as [[k1 [c1 vs1]] [Hk1 H1]]. apply in_map_iff in H2 as [[k2 [c2 vs2]] [Hk2 H2]].
      cbn [fst] in Hk1, Hk2. subst k1 k2.
      destruct (has_base (hdr_of e) (base_of c)); [|destruct H1].
      apply filter_In in H1 as [H1 Hc1]. cbn [fst snd] in Hc1. apply cls_eqb_eq in Hc1. subst c1.
      apply in_flat_map in H2 as [c' [Hc' H2]]. destruct (has_base (hdr_of e) (base_of c')); [|destruct H2].
      apply filter_In in H2 as [H2 Hc2]. cbn [fst snd] in Hc2. apply cls_eqb_eq in Hc2. subst c2.
      pose proof (In_lookup e _ _ Hnd H1) as L1. pose proof (In_lookup e _ _ Hnd H2) as L2.
      rewrite L1 in L2. injection L2 as -> _. contradiction.
  Qed.

  Lemma all_classes_NoDup : NoDup all_classes.
  Proof. unfold all_classes. repeat constructor; cbn [In]; intuition discriminate. Qed.

  Lemma assoc_ext_NoDup (l1 l2 : list entry) :
    NoDup (map fst l1) -> NoDup (map fst l2) -> (forall x, In x l1 <-> In x l2) -> forall k, assoc k l1 = assoc k l2.
  Proof.
    intros N1 N2 H k. destruct (assoc k l1) as [x|] eqn:E1.
    - apply assoc_In in E1. apply H in E1. symmetry. apply (In_assoc k x l2 N2 E1).
    - destruct (assoc k l2) as [y|] eqn:E2; [|reflexivity]. apply assoc_In in E2. apply H in E2.
      rewrite (In_assoc k y l1 N1 E2) in E1. discriminate.
  Qed.

  Lemma rows_rt a :
    Forall (Forall (fun q => tokq (qtok q) = Some q)) a -> omap (row_of_jv tokq) (map (row_jv qtok) a) = Some a.
  Proof.
    intros H. apply omap_map_id. intros r Hr. rewrite Forall_forall in H. specialize (H r Hr).
    unfold row_of_jv, row_jv. apply omap_map_id. intros q Hq. rewrite Forall_forall in H. apply (H q Hq).
  Qed.

  Lemma has_key_base e b : PV.has_key (name_of_base b) (to_members_r qtok reo e) = has_base (hdr_of e) b.
  Proof. unfold PV.has_key. rewrite jassoc_base_r. destruct (has_base (hdr_of e) b); reflexivity. Qed.

  (** abstracting the content of a valid extension gives the extension back, as an unordered map *)
  Theorem of_to_content e :
    valid e -> aff_rt qtok tokq (hdr_of e) ->
    exists e', of_content tokq (to_content_r qtok reo e) = Some e' /\ ext_equiv e e'.
  Proof.
    intros [Hh [Hnd Hent]] Hrt.
    assert (Hconst : forall k vs, In (k, (GConst, vs)) (entries e) -> length vs = 1).
    { intros k vs Hin. destruct (Hent _ _ _ Hin) as [_ [_ Hl]]. rewrite Hl. destruct (dims (hdr_of e)) as [[? ?] ?]. reflexivity. }
    assert (Hbase : forall x, In x (entries e) -> has_base (hdr_of e) (base_of (fst (snd x))) = true).
    { intros [k [c vs]] Hin. cbn [fst snd]. destruct (Hent _ _ _ Hin) as [Hok _]. apply Hh. exact Hok. }
    set (es := stored_entries e all_classes).
    assert (Hes : forall x, In x es <-> In x (entries e)).
    { intros x. unfold es. rewrite in_stored_entries. split; [tauto | intros Hx; split; [exact Hx | apply Hbase; exact Hx]]. }
    assert (Hnd' : NoDup (map fst es)) by (apply stored_entries_NoDup; [exact Hnd | apply all_classes_NoDup]).
    exists (mk_ext (hdr_of e) es). split.
    - rewrite to_content_members_r. unfold of_content.
      rewrite jassoc_shape, jassoc_affine, jassoc_slice_dim. unfold shape_jv, aff_jv.
      rewrite (omap_map_id nat_of_jv nat_jv (shape (hdr_of e)) (fun y _ => nat_of_jv_nat y)).
      rewrite (rows_rt _ Hrt), sdim_of_jv_sdim, (all_entries_of_to e all_classes Hconst).
      fold es. rewrite !has_key_base. cbn [has_base].
      rewrite (NoDup_nodup_keys _ Hnd'). cbn [andb].
      replace (forallb _ es) with true.
      + destruct (hdr_of e); reflexivity.
      + symmetry. apply forallb_forall. intros [k [c vs]] Hx. cbn [fst snd]. apply Hes in Hx. apply (Hent _ _ _ Hx).
    - split; [reflexivity|]. intros k. unfold lookup_e. cbn [entries]. symmetry.
      apply assoc_ext_NoDup; [exact Hnd' | exact Hnd | exact Hes].
  Qed.
  Theorem reo_of_to_content e :
    reo_rt qtok tokq reo -> reo_of_content tokq (to_content_r qtok reo e) = Some reo.
  Proof.
    intros Hrt. rewrite to_content_members_r. unfold reo_of_content. rewrite jassoc_reorient.
    destruct reo as [m|]; [|reflexivity]. cbn [reo_jv aff_jv]. unfold aff_jv. rewrite (rows_rt m Hrt). reflexivity.
  Qed.
End WithTok.
