(** Link, part 10: the executable float tokens.  [qtok_dec q] (sign, integer part, '.', at least one fraction
    digit) is, for EVERY rational [q], a float lexeme of the JSON number grammar ([Json.Model.float_tok]); so with
    [qtok := qtok_dec] the hypothesis [aff_toks_ok] holds for every header. *)
From Coq Require Import List Bool ZArith NArith QArith Decimal DecimalFacts DecimalPos DecimalN DecimalZ Lia.
From DV Require Import Common.Str Common.Jv Common.Res.
From DV Require Json.Model Json.ProofsLex Json.ProofsNum.
From DV Require Import Ext.Types Link.Abs.
Import ListNotations.

Module JL := DV.Json.ProofsLex.

Local Open Scope N_scope.

Lemma span_digits_all (ds rest : str) :
  forallb JM.is_digit ds = true ->
  match rest with [] => True | c :: _ => JM.is_digit c = false end ->
  JM.span_digits (ds ++ rest) = (ds, rest).
Proof.
  intros Hd Hr. induction ds as [|c ds IH]; cbn [List.app].
  - destruct rest as [|c r]; [reflexivity|]. cbn [JM.span_digits]. rewrite Hr. reflexivity.
  - cbn [forallb] in Hd. apply andb_true_iff in Hd as [Hc Hd]. cbn [JM.span_digits]. rewrite Hc, (IH Hd). reflexivity.
Qed.

Lemma uint_digits d : forallb JM.is_digit (JM.uint_str d) = true.
Proof. induction d; cbn [JM.uint_str forallb]; try reflexivity; rewrite IHd; reflexivity. Qed.

Lemma frac_digits_digits f : forall r d, (0 <= r < d)%Z -> forallb JM.is_digit (frac_digits f r d) = true.
Proof.
  induction f as [|f IH]; intros r d Hr; cbn [frac_digits]; [reflexivity|].
  destruct (r =? 0)%Z; [reflexivity|]. cbn [forallb]. apply andb_true_iff. split.
  - assert (H : (0 <= 10 * r / d < 10)%Z).
    { split; [apply Z.div_pos; lia | apply Z.div_lt_upper_bound; lia]. }
    unfold JM.is_digit. apply andb_true_iff. split; apply N.leb_le; lia.
  - apply IH. apply Z.mod_pos_bound. lia.
Qed.

(** integer part, dot, a non-empty run of digits: a float token *)
Lemma scan_plain_decimal (neg : bool) (ip : Z) (fr : str) :
  (0 <= ip)%Z -> fr <> [] -> forallb JM.is_digit fr = true ->
  let t := (if neg then [45] else []) ++ JM.print_int ip ++ 46 :: fr in
  JM.scan_number t = Some (JNum t, []).
Proof.
  intros Hip Hne Hfr t.
  assert (Hfrac : JM.scan_frac (46 :: fr) = (46 :: fr, [])).
  { cbn [JM.scan_frac]. change (46 =? 46) with true. cbv iota.
    rewrite <- (List.app_nil_r fr) at 1. rewrite (span_digits_all fr [] Hfr I).
    destruct fr; [contradiction | reflexivity]. }
  assert (Hbody : exists c r, JM.print_int ip = c :: r /\ (c =? 45) = false /\
                              JM.scan_intpart (JM.print_int ip ++ 46 :: fr) = Some (JM.print_int ip, 46 :: fr)).
  { destruct ip as [|p|p]; [| |lia].
    - exists 48, []. repeat split; reflexivity.
    - unfold JM.print_int. cbn [Z.to_int].
      destruct (JL.pos_uint_head p) as (c & r & E & _ & Hd & H48 & _). rewrite E.
      exists c, (JM.uint_str r). split; [reflexivity|]. split.
      + apply N.eqb_neq. intros ->. discriminate Hd.
      + cbn [List.app JM.scan_intpart]. destruct (N.eqb_spec c 48); [contradiction|]. rewrite Hd.
        rewrite (span_digits_all (JM.uint_str r) (46 :: fr) (uint_digits r) eq_refl). reflexivity. }
  destruct Hbody as (c & r & Ec & H45 & Hint).
  unfold JM.scan_number.
  assert (Hminus : JM.scan_minus t = (neg, JM.print_int ip ++ 46 :: fr)).
  { subst t. destruct neg; cbn [List.app JM.scan_minus].
    - change (45 =? 45) with true. reflexivity.
    - rewrite Ec. cbn [List.app JM.scan_minus]. rewrite H45. reflexivity. }
  rewrite Hminus, Hint, Hfrac. cbn [JM.scan_exp]. subst t. rewrite List.app_nil_r. reflexivity.
Qed.

Theorem qtok_dec_float_tok q : JM.float_tok (qtok_dec q) = true.
Proof.
  unfold JM.float_tok, qtok_dec. cbv zeta.
  set (n := Qnum q). set (d := Z.pos (Qden q)). set (a := Z.abs n).
  set (fr := match frac_digits 80 (a mod d) d with [] => [48] | _ :: _ => frac_digits 80 (a mod d) d end).
  assert (Hfr : fr <> [] /\ forallb JM.is_digit fr = true).
  { subst fr. pose proof (frac_digits_digits 80 (a mod d) d (Z.mod_pos_bound a d eq_refl)) as Hd.
    destruct (frac_digits 80 (a mod d) d); [split; [discriminate | reflexivity] | split; [discriminate | exact Hd]]. }
  destruct Hfr as [Hne Hdig].
  assert (Hip : (0 <= a / d)%Z) by (apply Z.div_pos; subst a d; lia).
  pose proof (scan_plain_decimal (n <? 0)%Z (a / d) fr Hip Hne Hdig) as H. cbv zeta in H.
  rewrite H, str_eqb_refl. apply orb_true_r.
Qed.

Theorem aff_toks_ok_dec (h : hdr) : aff_toks_ok qtok_dec h = true.
Proof.
  unfold aff_toks_ok. apply forallb_forall. intros r _. apply forallb_forall. intros q _. apply qtok_dec_float_tok.
Qed.
