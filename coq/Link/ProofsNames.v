(** Link, part 1: the class names, valid classes and value counts of the content rules (Content/Spec.v) read
    on a header of the Ext model: [valid_classes_spec] = the classes with [class_ok], [n_expected] =
    [mult_spec (dims h)], [slice_dim_value] = [sdim h]; and the shape of an affine of scalars. *)
From Coq Require Import List Bool Arith NArith ZArith QArith Lia.
From DV Require Import Common.Res Common.Str Common.Jv.
From DV Require Generated.T_content Content.PyVal Content.Model Content.Spec.
From DV Require Import Ext.Types Ext.Classes Ext.Seq Ext.Model Ext.Spec Ext.TableFacts Ext.ValidFacts Ext.ProofsValidBase.
From DV Require Import Link.Abs.
Import ListNotations.
Local Open Scope nat_scope.

(** * Class names *)

Definition cs_base (b : cbase) : CS.base :=
  match b with BGlobal => CS.Global | BTime => CS.Time | BVector => CS.Vector end.
Definition cs_sub (s : csub) : CS.sub :=
  match s with SConst => CS.Const | SSlices => CS.Slices | SSamples => CS.Samples end.

(** the generated table of Content is the list of the names of the six classes of Ext, in order *)
Lemma classifications_names : TC.classifications = map name_of_cls all_classes.
Proof. reflexivity. Qed.

Lemma cls_of_name_of c : cls_of_name (name_of_cls c) = Some c.
Proof. destruct c; reflexivity. Qed.

Lemma name_of_cls_inj c1 c2 : name_of_cls c1 = name_of_cls c2 -> c1 = c2.
Proof.
  intros H. assert (H' : cls_of_name (name_of_cls c1) = cls_of_name (name_of_cls c2)) by (rewrite H; reflexivity).
  rewrite !cls_of_name_of in H'. injection H' as ->. reflexivity.
Qed.

Lemma decode_name c : CS.decode (name_of_cls c) = Some (cs_base (base_of c), cs_sub (sub_of c)).
Proof. destruct c; reflexivity. Qed.

Lemma name_of_base_inj b1 b2 : name_of_base b1 = name_of_base b2 -> b1 = b2.
Proof. destruct b1, b2; intros H; try reflexivity; vm_compute in H; discriminate H. Qed.

(** * The shape *)

Lemma dim_nat sh i : CS.dim (map nat_jv sh) i = Z.of_nat (nth i sh 1).
Proof.
  unfold CS.dim. rewrite nth_error_map. destruct (nth_error sh i) as [n|] eqn:E; cbn [option_map].
  - unfold nat_jv. cbn [PV.as_int]. rewrite (nth_error_nth _ _ _ E). reflexivity.
  - apply nth_error_None in E. rewrite (nth_overflow _ _ E). reflexivity.
Qed.

Lemma of_nat_eqb_1 n : (Z.of_nat n =? 1)%Z = (n =? 1).
Proof. destruct (Nat.eqb_spec n 1) as [->|H]; [reflexivity | apply Z.eqb_neq; lia]. Qed.

Lemma applicable_ok sh c :
  3 <= length sh <= 5 -> CS.applicable (map nat_jv sh) (cs_base (base_of c)) = class_ok sh c.
Proof.
  intros Hn. unfold CS.applicable, class_ok. rewrite map_length, dim_nat, of_nat_eqb_1.
  destruct sh as [|x [|y [|z [|t [|v [|w r]]]]]]; cbn [length] in Hn; try lia;
    destruct c; reflexivity.
Qed.

Lemma in_vcs sh cl :
  3 <= length sh <= 5 ->
  (In cl (CS.valid_classes_spec (map nat_jv sh)) <-> exists c, cl = name_of_cls c /\ class_ok sh c = true).
Proof.
  intros Hn. unfold CS.valid_classes_spec. rewrite filter_In, classifications_names, in_map_iff. split.
  - intros [[c [<- _]] H]. exists c. split; [reflexivity|].
    rewrite decode_name, (applicable_ok sh c Hn) in H. exact H.
  - intros [c [-> H]]. split; [exists c; split; [reflexivity | apply all_classes_complete]|].
    rewrite decode_name, (applicable_ok sh c Hn). exact H.
Qed.

(** * The slice dimension *)

Lemma sdv_some (o : CS.obj) sd :
  jassoc PV.K_slice_dim o = Some (sdim_jv sd) -> (forall d, sd = Some d -> d < 3) ->
  CS.slice_dim_value o = Some sd.
Proof.
  intros H Hd. unfold CS.slice_dim_value. rewrite H. destruct sd as [d|]; [|reflexivity].
  specialize (Hd d eq_refl). destruct d as [|[|[|d]]]; try lia; reflexivity.
Qed.

Lemma sdv_inv (o : CS.obj) sd x :
  jassoc PV.K_slice_dim o = Some (sdim_jv sd) -> CS.slice_dim_value o = Some x ->
  x = sd /\ forall d, sd = Some d -> d < 3.
Proof.
  intros H Hx. unfold CS.slice_dim_value in Hx. rewrite H in Hx. destruct sd as [d|].
  - destruct d as [|[|[|d]]].
    + injection Hx as <-. split; [reflexivity | intros ? [= <-]; lia].
    + injection Hx as <-. split; [reflexivity | intros ? [= <-]; lia].
    + injection Hx as <-. split; [reflexivity | intros ? [= <-]; lia].
    + exfalso. cbn [sdim_jv nat_jv PV.as_int] in Hx.
      replace (Z.of_nat (S (S (S d)))) with (Z.pos (Pos.of_succ_nat d + 2)) in Hx by lia.
      destruct (Pos.of_succ_nat d) as [p|p|]; cbn in Hx; try discriminate Hx;
        destruct p; discriminate Hx.
  - injection Hx as <-. split; [reflexivity | discriminate].
Qed.

(** * Value counts *)

Lemma n_expected_mult h c sd :
  sdim h = sd -> (is_slices c = true -> sd <> None) ->
  CS.n_expected (map nat_jv (shape h)) sd (cs_base (base_of c)) (cs_sub (sub_of c)) = Z.of_nat (mult_spec (dims h) c).
Proof.
  intros Hs Hsl. unfold CS.n_expected, dims. rewrite Hs, !dim_nat.
  destruct c; cbn [base_of sub_of cs_base cs_sub mult_spec]; try reflexivity;
    try (rewrite ?Nat2Z.inj_mul; destruct sd; reflexivity);
    (destruct sd as [d|]; [rewrite dim_nat, ?Nat2Z.inj_mul; reflexivity | exfalso; apply Hsl; reflexivity]).
Qed.

Lemma n_expected_noslice sh c :
  is_slices c = true -> CS.n_expected sh None (cs_base (base_of c)) (cs_sub (sub_of c)) = 0%Z.
Proof. destruct c; intros H; try discriminate H; reflexivity. Qed.

(** * An affine of scalars *)

Lemma is_row4_len (r : list jv) :
  Forall (fun v => CS.is_scalar v = true) r -> (CS.is_row4 (JArr r) = true <-> length r = 4).
Proof.
  intros Hs. destruct r as [|a [|b [|c [|d [|x r]]]]]; cbn [CS.is_row4 length]; try (split; [discriminate | lia]).
  repeat (apply Forall_cons_iff in Hs as [? Hs]).
  repeat match goal with H : CS.is_scalar _ = true |- _ => rewrite H; clear H end. split; reflexivity.
Qed.

Lemma is_4x4_len (rows : list (list jv)) :
  Forall (Forall (fun v => CS.is_scalar v = true)) rows ->
  (CS.is_4x4 (JArr (map JArr rows)) = true <-> length rows = 4 /\ Forall (fun r => length r = 4) rows).
Proof.
  intros Hs. destruct rows as [|r1 [|r2 [|r3 [|r4 [|r5 rows]]]]]; cbn [CS.is_4x4 map length];
    try (split; [discriminate | intros [H _]; lia]).
  apply Forall_cons_iff in Hs as [H1 Hs]. apply Forall_cons_iff in Hs as [H2 Hs].
  apply Forall_cons_iff in Hs as [H3 Hs]. apply Forall_cons_iff in Hs as [H4 _].
  rewrite !andb_true_iff, (is_row4_len _ H1), (is_row4_len _ H2), (is_row4_len _ H3), (is_row4_len _ H4).
  split.
  - intros [[[E1 E2] E3] E4]. split; [reflexivity|]. repeat constructor; assumption.
  - intros [_ H]. repeat (apply Forall_cons_iff in H as [? H]). tauto.
Qed.

Lemma map_length_eq {A B} (l1 : list (list A)) (l2 : list (list B)) n :
  map (@length A) l1 = map (@length B) l2 ->
  (length l1 = n /\ Forall (fun r => length r = 4) l1) <-> (length l2 = n /\ Forall (fun r => length r = 4) l2).
Proof.
  intros H. assert (Hl : length l1 = length l2).
  { rewrite <- (map_length (@length A) l1), H, map_length. reflexivity. }
  assert (Hf : Forall (fun r => length r = 4) l1 <-> Forall (fun r => length r = 4) l2).
  { clear Hl. revert l2 H. induction l1 as [|a l1 IH]; intros [|b l2] H; try discriminate H.
    - split; constructor.
    - cbn [map] in H. injection H as Hab H. rewrite !Forall_cons_iff, Hab, (IH l2 H). reflexivity. }
  rewrite Hl, Hf. reflexivity.
Qed.
