(** Link, part 5: the two models of [nitool inject] agree.
    [Cli.Model.inject] (C19) works on the abstract view [mext] of an extension and on the command-line
    strings; [Ext.Ops.inject] (C07) works on [ext jv] and on the converted values.  On the view [Abs.view e]
    of a valid extension they refuse together and, when they accept, the resulting views coincide
    (class dictionaries equal INCLUDING the key order). *)
From Coq Require Import List Bool Arith NArith ZArith QArith Lia.
From DV Require Import Common.Res Common.Str Common.Jv Common.PyNum.
From DV Require Cli.Model Cli.ProofsNitool.
From DV Require Import Ext.Types Ext.Classes Ext.Seq Ext.Model Ext.Spec Ext.TableFacts Ext.ValidFacts
     Ext.ProofsValidBase Ext.Ops Ext.ProofsValidOps.
From DV Require Import Link.Abs Link.ProofsNames Link.ProofsTo.
Import ListNotations.
Local Open Scope nat_scope.

Module CLI := DV.Cli.Model.
Module CLP := DV.Cli.ProofsNitool.

(** * Dictionaries *)

Lemma dict_has_in (k : str) (d : list (str * jv)) : CLI.dict_has k d = true <-> In k (map fst d).
Proof.
  unfold CLI.dict_has. induction d as [|[k' v] d IH]; cbn [CLI.dict_get map fst In]; [split; [discriminate | tauto]|].
  destruct (str_eqb k k') eqn:E.
  - apply str_eqb_eq in E. subst. split; [intros _; left; reflexivity | reflexivity].
  - rewrite IH. split; [tauto | intros [->|H]; [rewrite str_eqb_refl in E; discriminate | exact H]].
Qed.

Lemma dict_del_absent (k : str) (d : list (str * jv)) : ~ In k (map fst d) -> CLI.dict_del k d = d.
Proof.
  induction d as [|[k' v] d IH]; intros H; [reflexivity|]. cbn [CLI.dict_del map fst In] in *.
  destruct (str_eqb k k') eqn:E; [apply str_eqb_eq in E; subst; exfalso; apply H; left; reflexivity|].
  rewrite IH; [reflexivity | tauto].
Qed.

Lemma dict_set_fresh (k : str) (v : jv) (d : list (str * jv)) : ~ In k (map fst d) -> CLI.dict_set k v d = d ++ [(k, v)].
Proof.
  induction d as [|[k' v'] d IH]; intros H; [reflexivity|]. cbn [CLI.dict_set map fst In app] in *.
  destruct (str_eqb k k') eqn:E; [apply str_eqb_eq in E; subst; exfalso; apply H; left; reflexivity|].
  rewrite IH; [reflexivity | tauto].
Qed.

Lemma cls_of_name_sound cn c : cls_of_name cn = Some c -> cn = name_of_cls c.
Proof.
  destruct cn as [a b]. unfold cls_of_name, base_of_name, sub_of_name. cbn [fst snd].
  destruct (str_eqb_spec a s_global) as [->|_];
    [|destruct (str_eqb_spec a s_time) as [->|_]; [|destruct (str_eqb_spec a s_vector) as [->|_]; [|discriminate]]];
    (destruct (str_eqb_spec b s_const) as [->|_];
     [|destruct (str_eqb_spec b s_slices) as [->|_]; [|destruct (str_eqb_spec b s_samples) as [->|_]; [|discriminate]]]);
    intros H; first [discriminate H | injection H as <-; reflexivity].
Qed.

Lemma inject_cond_dec (m : CLI.mext jv) cn k (values : list str) force :
  CLP.inject_cond jv m cn k values force \/ ~ CLP.inject_cond jv m cn k values force.
Proof.
  unfold CLP.inject_cond. destruct (CLI.valid_class m cn); [|right; intros [H _]; discriminate].
  destruct (Nat.eq_dec (length values) (CLI.x_mult m cn)) as [E|E]; [|right; intros [_ [H _]]; contradiction].
  destruct (CLI.has_key m k); [|left; auto]. destruct force; [left; auto|].
  right. intros [_ [_ [H|H]]]; discriminate.
Qed.

Lemma clsn_name_eqb c c' : CLI.clsn_eqb (name_of_cls c) (name_of_cls c') = cls_eqb c c'.
Proof. destruct c, c'; reflexivity. Qed.

Lemma valid_class_view e c : CLI.valid_class (view e) (name_of_cls c) = class_valid (hdr_of e) c.
Proof.
  unfold CLI.valid_class, view, class_valid, mem_cls. cbn [CLI.x_valid].
  induction (valid_classes (hdr_of e)) as [|c' l IH]; [reflexivity|]. cbn [map existsb]. rewrite clsn_name_eqb, IH. reflexivity.
Qed.

Lemma x_dict_view e c : CLI.x_dict (view e) (name_of_cls c) = class_obj e c.
Proof. unfold view. cbn [CLI.x_dict]. rewrite cls_of_name_of. reflexivity. Qed.

Lemma x_dict_view_none e cn : cls_of_name cn = None -> CLI.x_dict (view e) cn = [].
Proof. intros H. unfold view. cbn [CLI.x_dict]. rewrite H. reflexivity. Qed.

Lemma x_mult_view e c : CLI.x_mult (view e) (name_of_cls c) = match multiplicity (hdr_of e) c with Ok m => m | Err _ => 0 end.
Proof. unfold view. cbn [CLI.x_mult]. rewrite cls_of_name_of. reflexivity. Qed.

Lemma class_obj_keys e c k : In k (map fst (class_obj e c)) <-> exists vs, In (k, (c, vs)) (entries e).
Proof.
  rewrite in_map_iff. split.
  - intros [[k' v] [Hk Hin]]. cbn [fst] in Hk. subst k'. apply in_class_obj in Hin as [vs [Hin _]]. exists vs. exact Hin.
  - intros [vs Hin]. exists (k, render c vs). split; [reflexivity|]. apply in_class_obj. exists vs. split; [exact Hin | reflexivity].
Qed.

(** under validity the keys the command sees are all the keys *)
Lemma has_key_view e k : valid e -> CLI.has_key (view e) k = mem_key k (keys_e e).
Proof.
  intros Hv. unfold CLI.has_key, view. cbn [CLI.x_valid CLI.x_dict].
  destruct (mem_key k (keys_e e)) eqn:Em.
  - apply mem_key_In in Em. unfold keys_e in Em. apply in_map_iff in Em as [[k' [c vs]] [Hk Hin]]. cbn [fst] in Hk. subst k'.
    apply existsb_exists. exists (name_of_cls c). split.
    + apply in_map. apply mem_cls_In. change (class_valid (hdr_of e) c = true). rewrite class_valid_ok.
      destruct Hv as [_ [_ Hent]]. apply (Hent _ _ _ Hin).
    + rewrite cls_of_name_of. apply dict_has_in. apply class_obj_keys. exists vs. exact Hin.
  - apply mem_key_false in Em. destruct (existsb _ _) eqn:Ex; [|reflexivity]. exfalso. apply Em.
    apply existsb_exists in Ex as [cn [Hcn Hd]]. apply in_map_iff in Hcn as [c [<- _]]. rewrite cls_of_name_of in Hd.
    apply dict_has_in, class_obj_keys in Hd as [vs Hin]. unfold keys_e. apply in_map_iff. exists (k, (c, vs)). split; [reflexivity | exact Hin].
Qed.

(** removing a key from the entries = deleting it from every class dictionary *)
Lemma class_obj_remove h (l : list entry) k c :
  class_obj (mk_ext h (filter (fun kv : entry => negb (key_eqb k (fst kv))) l)) c = CLI.dict_del k (class_obj (mk_ext h l) c).
Proof.
  unfold class_obj, class_entries. cbn [entries].
  induction l as [|[k' [c' vs]] l IH]; [reflexivity|]. cbn [filter fst snd].
  destruct (key_eqb k k') eqn:Ek; cbn [negb]; unfold key_eqb in Ek.
  - destruct (cls_eqb c' c); [|exact IH]. cbn [map CLI.dict_del fst snd]. rewrite Ek. exact IH.
  - cbn [filter fst snd]. destruct (cls_eqb c' c); [|exact IH]. cbn [map CLI.dict_del fst snd]. rewrite Ek, IH. reflexivity.
Qed.

Lemma class_obj_app h (l : list entry) k c' vs c :
  class_obj (mk_ext h (l ++ [(k, (c', vs))])) c =
  class_obj (mk_ext h l) c ++ (if cls_eqb c' c then [(k, render c vs)] else []).
Proof.
  unfold class_obj, class_entries. cbn [entries]. rewrite filter_app, map_app. cbn [filter fst snd].
  destruct (cls_eqb c' c); reflexivity.
Qed.

Lemma filter_valid_keys e k : valid e ->
  filter (fun kv : entry => negb (key_eqb k (fst kv) && class_valid (hdr_of e) (fst (snd kv)))) (entries e)
  = filter (fun kv : entry => negb (key_eqb k (fst kv))) (entries e).
Proof.
  intros [_ [_ Hent]]. apply filter_ext_in. intros [k' [c vs]] Hin. cbn [fst snd].
  destruct (Hent _ _ _ Hin) as [Hok _]. rewrite class_valid_ok, Hok, andb_true_r. reflexivity.
Qed.

(** * The values *)

Definition finish (l : list CLI.ival) : CLI.stored := match l with [v] => CLI.SScalar v | _ => CLI.SList l end.

Lemma mapM_len {A B} (f : A -> res B) l r : mapM f l = Ok r -> length r = length l.
Proof. intros H. apply mapM_Forall2 in H. induction H; [reflexivity | cbn [length]; congruence]. Qed.

Lemma convert_values_finish values ty sv :
  CLI.convert_values values ty = Ok sv -> exists l, sv = finish l /\ length l = length values.
Proof.
  unfold CLI.convert_values. fold finish. destruct ty as [t|].
  - destruct (str_eqb t CLI.str_str).
    + intros [= <-]. eexists. split; [reflexivity | apply map_length].
    + destruct (str_eqb t CLI.str_int).
      * destruct (mapM CLI.conv_int values) as [l|] eqn:E; cbn [rmap]; [|discriminate]. intros [= <-].
        exists l. split; [reflexivity | apply (mapM_len _ _ _ E)].
      * destruct (str_eqb t CLI.str_float); [|discriminate].
        destruct (mapM CLI.conv_float values) as [l|] eqn:E; cbn [rmap]; [|discriminate]. intros [= <-].
        exists l. split; [reflexivity | apply (mapM_len _ _ _ E)].
  - destruct (mapM CLI.conv_int values) as [l|] eqn:E.
    + intros [= <-]. exists l. split; [reflexivity | apply (mapM_len _ _ _ E)].
    + destruct (mapM CLI.conv_float values) as [l|] eqn:E2.
      * intros [= <-]. exists l. split; [reflexivity | apply (mapM_len _ _ _ E2)].
      * intros [= <-]. eexists. split; [reflexivity | apply map_length].
Qed.

Section Stored.
  Variable ftok : fval -> str.

  Lemma stored_values_finish l : stored_values ftok (finish l) = map (ival_jv ftok) l.
  Proof. destruct l as [|v [|w l]]; reflexivity. Qed.

  (** a single value is stored bare = the rendering of a constant; several = the rendering of a varying class *)
  Lemma stored_render c l :
    (c = GConst -> length l = 1) -> (c <> GConst -> length l <> 1) ->
    stored_jv ftok (finish l) = render c (stored_values ftok (finish l)).
  Proof.
    intros H1 H2. destruct (cls_eqb_spec c GConst) as [->|Hc].
    - specialize (H1 eq_refl). destruct l as [|v [|w l]]; try discriminate H1. reflexivity.
    - specialize (H2 Hc). destruct l as [|v [|w l]]; [|contradiction|]; destruct c; try contradiction; reflexivity.
  Qed.

  (** * Agreement *)

  Theorem inject_models_agree (e : jext) c k values ty force sv :
    valid e -> values <> [] -> CLI.convert_values values ty = Ok sv ->
    (c = GConst \/ mult_spec (dims (hdr_of e)) c <> 1) ->
    match CLI.inject (stored_jv ftok) (view e) (name_of_cls c) k values ty force with
    | Ok (rc, Some m') =>
        rc = 0%Z /\ exists e', inject e c k (stored_values ftok sv) force = Ok e' /\ mext_eq m' (view e')
    | Ok (rc, None) => rc = 1%Z /\ inject e c k (stored_values ftok sv) force = Err EValue
    | Err _ => False
    end.
  Proof.
    intros Hv Hne Hconv Hc. pose proof (hdr_wf_shape_wf _ (proj1 Hv)) as Hwf.
    destruct (convert_values_finish _ _ _ Hconv) as [l [-> Hl]].
    assert (Hlen : length (stored_values ftok (finish l)) = length values)
      by (rewrite stored_values_finish, map_length; exact Hl).
    assert (Hpos : length values <> 0) by (destruct values; [contradiction | discriminate]).
    assert (Hndim : ndim_ok (hdr_of e) = true).
    { pose proof (valid_validb e Hv) as Hb. unfold validb in Hb. rewrite !andb_true_iff in Hb. tauto. }
    (* the Ext side, up to the decision *)
    unfold inject. rewrite Hndim, Hlen. cbn [negb].
    replace (length values =? 0) with false by (symmetry; apply Nat.eqb_neq; exact Hpos).
    rewrite (visible_keys_valid e Hv).
    (* the Cli side *)
    destruct (inject_cond_dec (view e) (name_of_cls c) k values force) as [Hcond|Hcond].
    2:{ rewrite (CLP.inject_refuses jv (stored_jv ftok) _ _ _ _ ty _ Hcond). split; [reflexivity|].
        unfold CLP.inject_cond in Hcond. rewrite valid_class_view, x_mult_view, (has_key_view e k Hv) in Hcond.
        destruct (class_valid (hdr_of e) c) eqn:Ecv; cbn [negb]; [|reflexivity].
        destruct (multiplicity (hdr_of e) c) as [m|er] eqn:Em; cbn [bind].
        2:{ unfold multiplicity in Em. rewrite Ecv in Em. discriminate Em. }
        destruct (Nat.eqb_spec (length values) m) as [Elen|Elen]; cbn [negb]; [|reflexivity].
        destruct (mem_key k (keys_e e)) eqn:Emem.
        - destruct force; cbn [negb andb]; [|reflexivity]. exfalso. apply Hcond. repeat split; [exact Elen | right; reflexivity].
        - exfalso. apply Hcond. repeat split; [exact Elen | left; reflexivity]. }
    rewrite (CLP.inject_accepts jv (stored_jv ftok) _ _ _ _ ty _ Hcond), Hconv. cbv zeta.
    destruct Hcond as [Hvc [Hm Hk]]. rewrite valid_class_view in Hvc. rewrite x_mult_view in Hm. rewrite (has_key_view e k Hv) in Hk.
    rewrite Hvc. cbn [negb].
    destruct (multiplicity (hdr_of e) c) as [m|er] eqn:Em; [|exfalso; apply Hpos; exact Hm]. cbn [bind].
    rewrite Hm, Nat.eqb_refl. cbn [negb].
    assert (Hpf : mem_key k (keys_e e) && negb force = false).
    { destruct Hk as [->| ->]; [reflexivity | apply andb_false_r]. }
    rewrite Hpf. split; [reflexivity|]. eexists. split; [reflexivity|].
    (* the class of the values *)
    rewrite class_valid_ok in Hvc.
    assert (Hm1 : c <> GConst -> m <> 1).
    { intros Hc'. destruct Hc as [->|Hc]; [contradiction|].
      destruct (is_slices c) eqn:Es.
      - destruct (sdim (hdr_of e)) as [d|] eqn:Ed.
        + rewrite (multiplicity_wf _ _ Hwf Hvc) in Em by (intros _; congruence). injection Em as <-. exact Hc.
        + rewrite (multiplicity_noslice _ _ Hvc Es Ed) in Em. injection Em as <-. lia.
      - rewrite (multiplicity_wf _ _ Hwf Hvc) in Em by (intros Hs; congruence). injection Em as <-. exact Hc. }
    assert (Hm0 : c = GConst -> m = 1).
    { intros ->. unfold multiplicity in Em. destruct (negb _) in Em; [discriminate|]. injection Em as <-. reflexivity. }
    assert (Hrender : stored_jv ftok (finish l) = render c (stored_values ftok (finish l))).
    { apply stored_render; intros H; [rewrite Hl, Hm; apply Hm0; exact H | rewrite Hl, Hm; apply Hm1; exact H]. }
    set (vals := stored_values ftok (finish l)) in *.
    (* the entries that are kept *)
    set (kept := if mem_key k (keys_e e)
                 then filter (fun kv : entry => negb (key_eqb k (fst kv) && class_valid (hdr_of e) (fst (snd kv)))) (entries e)
                 else entries e).
    assert (Hkept : forall c', class_obj (mk_ext (hdr_of e) kept) c' = CLI.x_dict (CLP.cleared jv (view e) k) (name_of_cls c')
                               /\ ~ In k (map fst (class_obj (mk_ext (hdr_of e) kept) c'))).
    { intros c'. unfold CLP.cleared, kept. rewrite (has_key_view e k Hv).
      destruct (mem_key k (keys_e e)) eqn:Emem.
      - rewrite (filter_valid_keys e k Hv), class_obj_remove.
        replace (mk_ext (hdr_of e) (entries e)) with e by (destruct e; reflexivity). split.
        2:{ intros Hin. apply dict_has_in in Hin. unfold CLI.dict_has in Hin. rewrite CLP.dict_get_del_same in Hin. discriminate. }
        apply mem_key_In in Emem. unfold keys_e in Emem. apply in_map_iff in Emem as [[k' [c0 vs0]] [Hk' Hin0]]. cbn [fst] in Hk'. subst k'.
        assert (Hfind : exists cc, CLI.classification (view e) k = Some cc /\ CLI.dict_has k (CLI.x_dict (view e) cc) = true /\ In cc (CLI.x_valid (view e))).
        { unfold CLI.classification. destruct (find _ (CLI.x_valid (view e))) as [cc|] eqn:Ef.
          - apply find_some in Ef as [H1 H2]. exists cc. auto.
          - exfalso. pose proof (find_none _ _ Ef (name_of_cls c0)) as Hn. cbv beta in Hn.
            rewrite x_dict_view in Hn. assert (Hd : CLI.dict_has k (class_obj e c0) = true) by (apply dict_has_in, class_obj_keys; exists vs0; exact Hin0).
            rewrite Hd in Hn. discriminate Hn. unfold view. cbn [CLI.x_valid]. apply in_map. apply mem_cls_In.
            change (class_valid (hdr_of e) c0 = true). rewrite class_valid_ok. destruct Hv as [_ [_ Hent]]. apply (Hent _ _ _ Hin0). }
        destruct Hfind as [cc [Hcl [Hd Hcc]]]. rewrite Hcl. unfold view in Hcc. cbn [CLI.x_valid] in Hcc.
        apply in_map_iff in Hcc as [c1 [<- _]]. rewrite x_dict_view in Hd. apply dict_has_in, class_obj_keys in Hd as [vs1 Hin1].
        assert (c1 = c0).
        { destruct Hv as [_ [Hnd _]]. pose proof (In_lookup e _ _ Hnd Hin0) as L0. pose proof (In_lookup e _ _ Hnd Hin1) as L1.
          rewrite L0 in L1. injection L1 as -> _. reflexivity. }
        subst c1. unfold CLI.upd_dict. cbn [CLI.x_dict]. rewrite clsn_name_eqb.
        destruct (cls_eqb_spec c' c0) as [->|Hne'].
        + rewrite x_dict_view. reflexivity.
        + rewrite x_dict_view. apply dict_del_absent. intros Hin. apply class_obj_keys in Hin as [vs2 Hin2].
          destruct Hv as [_ [Hnd _]]. pose proof (In_lookup e _ _ Hnd Hin0) as L0. pose proof (In_lookup e _ _ Hnd Hin2) as L2.
          rewrite L0 in L2. injection L2 as -> _. apply Hne'. reflexivity.
      - replace (mk_ext (hdr_of e) (entries e)) with e by (destruct e; reflexivity). split; [rewrite x_dict_view; reflexivity|].
        intros Hin. apply class_obj_keys in Hin as [vs Hin]. apply mem_key_false in Emem. apply Emem.
        unfold keys_e. apply in_map_iff. exists (k, (c', vs)). split; [reflexivity | exact Hin]. }
    (* the three components *)
    split; [|split].
    - unfold CLI.upd_dict, CLP.cleared. cbn [CLI.x_valid]. destruct (CLI.has_key _ _); [destruct (CLI.classification _ _)|]; reflexivity.
    - intros cn. unfold CLI.upd_dict, CLP.cleared. cbn [CLI.x_mult]. destruct (CLI.has_key _ _); [destruct (CLI.classification _ _)|]; reflexivity.
    - intros cn. unfold CLI.upd_dict at 1. cbn [CLI.x_dict].
      destruct (CLI.clsn_eqb cn (name_of_cls c)) eqn:Ecn.
      + apply CLP.clsn_eqb_eq in Ecn. subst cn. rewrite x_dict_view.
        destruct (Hkept c) as [Hd Hfresh]. rewrite <- Hd, (dict_set_fresh _ _ _ Hfresh), Hrender.
        fold kept. rewrite class_obj_app, cls_eqb_refl. reflexivity.
      + unfold view at 2. cbn [CLI.x_dict]. destruct (cls_of_name cn) as [c'|] eqn:Edec.
        * assert (cn = name_of_cls c') by (apply cls_of_name_sound; exact Edec).
          subst cn. destruct (Hkept c') as [Hd _]. rewrite <- Hd. fold kept. rewrite class_obj_app.
          rewrite clsn_name_eqb in Ecn. replace (cls_eqb c c') with false.
          -- rewrite app_nil_r. reflexivity.
          -- symmetry. destruct (cls_eqb_spec c c') as [->|]; [rewrite cls_eqb_refl in Ecn; discriminate | reflexivity].
        * unfold CLP.cleared.
          destruct (CLI.has_key (view e) k); [destruct (CLI.classification (view e) k) as [cc|]|];
            try (apply x_dict_view_none; exact Edec).
          unfold CLI.upd_dict. cbn [CLI.x_dict].
          destruct (CLI.clsn_eqb cn cc) eqn:Ecc; [|apply x_dict_view_none; exact Edec].
          apply CLP.clsn_eqb_eq in Ecc. subst cc. rewrite (x_dict_view_none e cn Edec). reflexivity.
  Qed.

  (** a class name that is not one of the six is refused by the command *)
  Lemma inject_unknown_class (e : jext) cn k values ty force :
    cls_of_name cn = None -> CLI.inject (stored_jv ftok) (view e) cn k values ty force = Ok (1%Z, None).
  Proof.
    intros Hn. unfold CLI.inject. replace (CLI.valid_class (view e) cn) with false; [reflexivity|].
    symmetry. unfold CLI.valid_class, view. cbn [CLI.x_valid]. destruct (existsb _ _) eqn:E; [|reflexivity].
    apply existsb_exists in E as [cn' [Hin Heq]]. apply CLP.clsn_eqb_eq in Heq. subst cn'.
    apply in_map_iff in Hin as [c [<- _]]. rewrite cls_of_name_of in Hn. discriminate.
  Qed.
End Stored.
