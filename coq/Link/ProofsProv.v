(** Link, part 9: PROVENANCE.  The operations of the extension algebra never invent a value: every value of a
    result is a value of an input or the "absent" value [vnone]; every key of a result is a key of an input.
    Stated for an arbitrary predicate [P] on values with [P vnone] (and [Q] on keys); instantiated in
    ProofsOps2.v with JSON well-formedness, which turns "can be written" into "reloads to itself" for every
    extension produced by a history of operations. *)
From Coq Require Import List Bool Arith NArith ZArith QArith Lia.
From DV Require Import Common.Res Common.Str Ext.Types Ext.Classes Ext.Seq Ext.Model Ext.Ops Ext.ProofsValidBase.
Import ListNotations.
Local Open Scope nat_scope.

(** * Lists *)
Section Lists.
  Context {A : Type} (P : A -> Prop).

  Lemma FP_firstn n (l : list A) : Forall P l -> Forall P (firstn n l).
  Proof. intros H. rewrite <- (firstn_skipn n l) in H. apply Forall_app in H. apply H. Qed.
  Lemma FP_skipn n (l : list A) : Forall P l -> Forall P (skipn n l).
  Proof. intros H. rewrite <- (firstn_skipn n l) in H. apply Forall_app in H. apply H. Qed.
  Lemma FP_py_slice a b (l : list A) : Forall P l -> Forall P (py_slice a b l).
  Proof. intros H. unfold py_slice. apply FP_firstn, FP_skipn, H. Qed.
  Lemma FP_every_nth_fuel f s (l : list A) : Forall P l -> Forall P (every_nth_fuel f s l).
  Proof.
    revert l. induction f as [|f IH]; intros l H; cbn [every_nth_fuel]; [constructor|].
    destruct l as [|x r]; [constructor|]. constructor; [inversion H; assumption | apply IH, FP_skipn, H].
  Qed.
  Lemma FP_every_nth i s (l : list A) : Forall P l -> Forall P (every_nth i s l).
  Proof. intros H. unfold every_nth. apply FP_every_nth_fuel, FP_skipn, H. Qed.
  Lemma FP_repeat x n : P x -> Forall P (repeat x n).
  Proof. intros H. induction n; cbn [repeat]; constructor; assumption. Qed.
  Lemma FP_flat_map {B} (f : B -> list A) (l : list B) : (forall x, In x l -> Forall P (f x)) -> Forall P (flat_map f l).
  Proof.
    induction l as [|x l IH]; intros H; cbn [flat_map]; [constructor|].
    apply Forall_app. split; [apply H; left; reflexivity | apply IH; intros y Hy; apply H; right; exact Hy].
  Qed.
  Lemma FP_rep_list n (l : list A) : Forall P l -> Forall P (rep_list n l).
  Proof.
    intros H. unfold rep_list. induction n as [|n IH]; cbn [repeat concat]; [constructor|].
    apply Forall_app. split; assumption.
  Qed.
  Lemma FP_rep_each n (l : list A) : Forall P l -> Forall P (rep_each n l).
  Proof.
    intros H. unfold rep_each. apply FP_flat_map. intros x Hx. apply FP_repeat.
    rewrite Forall_forall in H. apply H, Hx.
  Qed.
  Lemma FP_interleave n m nv (l1 l2 : list A) : Forall P l1 -> Forall P l2 -> Forall P (interleave n m nv l1 l2).
  Proof.
    intros H1 H2. unfold interleave. apply FP_flat_map. intros v _. apply Forall_app. split; apply FP_py_slice; assumption.
  Qed.
  Lemma FP_app (l1 l2 : list A) : Forall P l1 -> Forall P l2 -> Forall P (l1 ++ l2).
  Proof. intros H1 H2. apply Forall_app. split; assumption. Qed.
  Lemma FP_nth_error (l : list A) i x : nth_error l i = Some x -> Forall P l -> P x.
  Proof. intros H F. rewrite Forall_forall in F. apply F. eapply nth_error_In, H. Qed.
End Lists.

#[global] Hint Resolve FP_firstn FP_skipn FP_py_slice FP_every_nth FP_repeat FP_rep_list FP_rep_each FP_interleave FP_app : prov.

(** generic inversion of the [res] plumbing of the model *)
Ltac inv_res :=
  repeat match goal with
         | H : Ok _ = Ok _ |- _ => injection H as H; try subst
         | H : Err _ = Ok _ |- _ => discriminate H
         | H : Some _ = Some _ |- _ => injection H as H; try subst
         | H : None = Some _ |- _ => discriminate H
         | H : Some _ = None |- _ => discriminate H
         | H : bind _ _ = Ok _ |- _ => let x := fresh "x" in let E := fresh "E" in apply bind_ok in H as [x [E H]]
         | H : (if ?b then _ else _) = Ok _ |- _ => let E := fresh "E" in destruct b eqn:E
         | H : match ?x with _ => _ end = Ok _ |- _ => let E := fresh "E" in destruct x eqn:E
         end.

Section Prov.
  Context {V : Type} (veqb : V -> V -> bool) (vnone : V) (P : V -> Prop).
  Hypothesis Pnone : P vnone.

  Notation kst := (kst V).
  Definition kP (s : kst) : Prop := match s with Some (_, vs) => Forall P vs | None => True end.

  Lemma visible_kP h s : kP s -> kP (visible h s).
  Proof. intros H. unfold visible. destruct s as [[c vs]|]; [destruct (class_valid h c); [exact H | exact I] | exact I]. Qed.

  Lemma visible_FP h s c vs : visible h s = Some (c, vs) -> kP s -> Forall P vs.
  Proof. intros E H. pose proof (visible_kP h s H) as K. rewrite E in K. exact K. Qed.

  Lemma hd_res_P (vs : list V) v : hd_res vs = Ok v -> Forall P vs -> P v.
  Proof. destruct vs; [discriminate|]. intros [= <-] H. inversion H; assumption. Qed.

  Lemma put_kP h c vs s : put h c vs = Ok s -> Forall P vs -> kP s.
  Proof. unfold put. destruct (has_base h (base_of c)); [|discriminate]. intros [= <-] H. exact H. Qed.

  (** ** _simplify *)
  Lemma simplify_const_P h c vs dests d vs' :
    simplify_const veqb h c vs dests = Ok (Some (d, vs')) -> Forall P vs -> Forall P vs'.
  Proof.
    intros H F. induction dests as [|d0 ds IH]; cbn [simplify_const] in H; [discriminate|].
    destruct (has_base h (base_of d0)); [|apply IH, H].
    apply bind_ok in H as [period [_ H]]. apply bind_ok in H as [isc [_ H]].
    destruct isc; [|apply IH, H]. destruct period as [p|].
    - injection H as _ <-. auto with prov.
    - apply bind_ok in H as [v [Hv H]]. injection H as _ <-. constructor; [apply (hd_res_P _ _ Hv F) | constructor].
  Qed.

  Lemma simplify_repeat_P h vs dests d vs' :
    simplify_repeat veqb h vs dests = Ok (Some (d, vs')) -> Forall P vs -> Forall P vs'.
  Proof.
    intros H F. induction dests as [|d0 ds IH]; cbn [simplify_repeat] in H; [discriminate|].
    destruct (has_base h (base_of d0)); [|apply IH, H].
    apply bind_ok in H as [dm [_ H]]. apply bind_ok in H as [rep [_ H]].
    destruct rep; [|apply IH, H]. injection H as _ <-. auto with prov.
  Qed.

  Lemma simplify_k_P h s s' : simplify_k veqb vnone h s = Ok s' -> kP s -> kP s'.
  Proof.
    intros H K. unfold simplify_k in H. destruct (visible h s) as [[c vs]|] eqn:Ev; [|discriminate].
    pose proof (visible_FP _ _ _ _ Ev K) as F.
    destruct c.
    - destruct vs as [|v [|w r]]; try (injection H as <-; exact K).
      destruct (veqb v vnone); injection H as <-; [exact I | exact K].
    - destruct (const_dests GSlices) as [dests|]; [|discriminate]. apply bind_ok in H as [r [Hr H]].
      destruct r as [[d vs']|]; [injection H as <-; apply (simplify_const_P _ _ _ _ _ _ Hr F)|].
      destruct (repeat_dests GSlices) as [rd|]; [|injection H as <-; exact K].
      apply bind_ok in H as [r2 [Hr2 H]]. destruct r2 as [[d vs']|]; injection H as <-; [apply (simplify_repeat_P _ _ _ _ _ Hr2 F) | exact K].
    - destruct (const_dests TSamples) as [dests|]; [|discriminate]. apply bind_ok in H as [r [Hr H]].
      destruct r as [[d vs']|]; [injection H as <-; apply (simplify_const_P _ _ _ _ _ _ Hr F)|].
      destruct (repeat_dests TSamples) as [rd|]; [|injection H as <-; exact K].
      apply bind_ok in H as [r2 [Hr2 H]]. destruct r2 as [[d vs']|]; injection H as <-; [apply (simplify_repeat_P _ _ _ _ _ Hr2 F) | exact K].
    - destruct (const_dests TSlices) as [dests|]; [|discriminate]. apply bind_ok in H as [r [Hr H]].
      destruct r as [[d vs']|]; [injection H as <-; apply (simplify_const_P _ _ _ _ _ _ Hr F)|].
      destruct (repeat_dests TSlices) as [rd|]; [|injection H as <-; exact K].
      apply bind_ok in H as [r2 [Hr2 H]]. destruct r2 as [[d vs']|]; injection H as <-; [apply (simplify_repeat_P _ _ _ _ _ Hr2 F) | exact K].
    - destruct (const_dests VSamples) as [dests|]; [|discriminate]. apply bind_ok in H as [r [Hr H]].
      destruct r as [[d vs']|]; [injection H as <-; apply (simplify_const_P _ _ _ _ _ _ Hr F)|].
      destruct (repeat_dests VSamples) as [rd|]; [|injection H as <-; exact K].
      apply bind_ok in H as [r2 [Hr2 H]]. destruct r2 as [[d vs']|]; injection H as <-; [apply (simplify_repeat_P _ _ _ _ _ Hr2 F) | exact K].
    - destruct (const_dests VSlices) as [dests|]; [|discriminate]. apply bind_ok in H as [r [Hr H]].
      destruct r as [[d vs']|]; [injection H as <-; apply (simplify_const_P _ _ _ _ _ _ Hr F)|].
      destruct (repeat_dests VSlices) as [rd|]; [|injection H as <-; exact K].
      apply bind_ok in H as [r2 [Hr2 H]]. destruct r2 as [[d vs']|]; injection H as <-; [apply (simplify_repeat_P _ _ _ _ _ Hr2 F) | exact K].
  Qed.

  (** ** _get_changed_class / _change_class *)
  Lemma changed_class_P h s new sd vals : changed_class vnone h s new sd = Ok vals -> kP s -> Forall P vals.
  Proof.
    intros H K. unfold changed_class in H. cbv zeta in H. pose proof (visible_kP h s K) as Kv.
    destruct (ocls_eqb _ _).
    - injection H as <-. destruct (visible h s) as [[c vs]|]; [exact Kv | constructor].
    - destruct (preserving _) as [allowed|]; [|discriminate].
      destruct (negb _); [discriminate|]. apply bind_ok in H as [cm [_ H]]. apply bind_ok in H as [nm [_ H]].
      destruct (cm =? 0); [discriminate|].
      assert (Fv : Forall P (match visible h s with None => [vnone] | Some (_, vs) => vs end)).
      { destruct (visible h s) as [[c vs]|]; [exact Kv | constructor; [exact Pnone | constructor]]. }
      match type of H with context [if ?b then rep_list ?n ?l else rep_each _ _] =>
        set (result := if b then rep_list n l else rep_each n l) in H;
        assert (Fr : Forall P result) by (subst result; destruct b; auto with prov)
      end.
      destruct (cls_eqb new GConst).
      + apply bind_ok in H as [v [Hv H]]. injection H as <-. constructor; [apply (hd_res_P _ _ Hv Fr) | constructor].
      + injection H as <-. exact Fr.
  Qed.

  Lemma change_class_k_P h s new s' : change_class_k vnone h s new = Ok s' -> kP s -> kP s'.
  Proof.
    intros H K. unfold change_class_k in H. destruct (ocls_eqb _ _); [injection H as <-; exact K|].
    apply bind_ok in H as [vals [Hv H]]. apply (put_kP _ _ _ _ H). apply (changed_class_P _ _ _ _ _ Hv K).
  Qed.

  Local Hint Resolve simplify_k_P put_kP changed_class_P change_class_k_P hd_res_P visible_FP visible_kP : prov.

  Lemma kP_some c vs : Forall P vs -> kP (Some (c, vs)).
  Proof. intros H; exact H. Qed.
  Local Hint Resolve kP_some : prov.

  (** ** get_subset per key *)
  Lemma copy_slice_k_P ho hr c vs idx s' :
    copy_slice_k veqb vnone ho hr c vs idx = Ok s' -> Forall P vs -> kP s'.
  Proof.
    intros H F. unfold copy_slice_k in H. cbv zeta in H.
    apply bind_ok in H as [dest [_ H]]. destruct (negb _); [discriminate|].
    apply bind_ok in H as [dm [_ H]]. apply bind_ok in H as [stride [_ H]]. apply bind_ok in H as [sub2 [E2 H]].
    apply (simplify_k_P _ _ _ H). apply kP_some.
    destruct (_ <? dm); [destruct (_ =? 0); [discriminate|]|]; injection E2 as <-; auto with prov.
  Qed.

  Lemma global_slice_subset_P ho vs sb idx sub :
    global_slice_subset ho vs sb idx = Ok sub -> Forall P vs -> Forall P sub.
  Proof.
    intros H F. unfold global_slice_subset in H. destruct (n_slices ho) as [n|]; [|discriminate].
    destruct sb.
    - destruct (negb _); [injection H as <-; auto with prov|].
      destruct (shape_at ho 3); [|discriminate]. destruct (shape_at ho 4); [|discriminate]. injection H as <-.
      apply FP_flat_map. intros; auto with prov.
    - destruct (negb _); [injection H as <-; auto with prov|].
      destruct (shape_at ho 3); [|discriminate]. destruct (shape_at ho 4); [|discriminate]. injection H as <-.
      apply FP_flat_map. intros; auto with prov.
    - destruct (shape_at ho 3); [|discriminate]. injection H as <-. auto with prov.
  Qed.

  Lemma copy_sample_k_P ho hr c vs sb idx s' :
    copy_sample_k veqb vnone ho hr c vs sb idx = Ok s' -> Forall P vs -> kP s'.
  Proof.
    intros H F. unfold copy_sample_k in H.
    destruct (is_samples c).
    - destruct (cbase_eqb (base_of c) sb).
      + apply bind_ok in H as [dest [_ H]]. apply bind_ok in H as [dm [_ H]].
        destruct (dm =? 1).
        * destruct (nth_error vs idx) as [v|] eqn:En; [|discriminate].
          apply (put_kP _ _ _ _ H). constructor; [apply (FP_nth_error P _ _ _ En F) | constructor].
        * destruct (shape_at ho 3) as [[|st]|]; try discriminate.
          apply bind_ok in H as [s1 [E1 H]]. apply (simplify_k_P _ _ _ H). apply (put_kP _ _ _ _ E1). auto with prov.
      + destruct (cls_eqb c TSamples).
        * apply bind_ok in H as [dm [_ H]]. apply bind_ok in H as [s1 [E1 H]].
          apply (simplify_k_P _ _ _ H). apply (put_kP _ _ _ _ E1). auto with prov.
        * apply (put_kP _ _ _ _ H F).
    - destruct (cbase_eqb (base_of c) sb).
      + destruct (preserving (Some c)) as [pc|]; [|discriminate]. destruct (first_valid hr pc); [|discriminate].
        apply (put_kP _ _ _ _ H F).
      + destruct (negb _).
        * destruct sb; try apply (put_kP _ _ _ _ H F).
          destruct (n_slices hr); [|discriminate]. apply bind_ok in H as [s1 [E1 H]].
          apply (simplify_k_P _ _ _ H). apply (put_kP _ _ _ _ E1). auto with prov.
        * apply bind_ok in H as [sub [Es H]]. apply bind_ok in H as [s1 [E1 H]].
          apply (simplify_k_P _ _ _ H). apply (put_kP _ _ _ _ E1). apply (global_slice_subset_P _ _ _ _ _ Es F).
  Qed.

  Lemma subset_k_P h hr dim idx s s' : subset_k veqb vnone h hr dim idx s = Ok s' -> kP s -> kP s'.
  Proof.
    intros H K. unfold subset_k in H. destruct (visible h s) as [[c vs]|] eqn:Ev; [|injection H as <-; exact I].
    pose proof (visible_FP _ _ _ _ Ev K) as F.
    destruct (cls_eqb c GConst); [apply (put_kP _ _ _ _ H F)|].
    destruct (odim_is _ _).
    - destruct (negb _); [apply (put_kP _ _ _ _ H F) | apply (copy_slice_k_P _ _ _ _ _ _ H F)].
    - destruct (dim <? 3); [apply (put_kP _ _ _ _ H F)|].
      destruct (dim =? 3); apply (copy_sample_k_P _ _ _ _ _ _ _ H F).
  Qed.

  (** ** _insert per key *)
  Lemma reclassify_k_P hs ks oc ks' : reclassify_k vnone hs ks oc = Ok ks' -> kP ks -> kP ks'.
  Proof.
    intros H K. unfold reclassify_k in H. cbv zeta in H. destruct (ocls_eqb _ _); [injection H as <-; exact K|].
    destruct (preserving _) as [la|]; [|discriminate]. destruct (preserving (Some oc)) as [oa|]; [|discriminate].
    destruct (mem_cls oc la); [apply (change_class_k_P _ _ _ _ H K)|].
    destruct (negb _); [|injection H as <-; exact K].
    destruct (find _ la) as [d|]; [apply (change_class_k_P _ _ _ _ H K)|].
    destruct (kst_class (visible hs ks)); [discriminate | injection H as <-; exact K].
  Qed.

  Lemma to_global_slices_P hs ho ks ko classes lv ov lo :
    to_global_slices vnone hs ho ks ko classes lv ov = Ok lo ->
    kP ks -> kP ko -> Forall P lv -> Forall P ov -> Forall P (fst lo) /\ Forall P (snd lo).
  Proof.
    intros H Ks Ko Fl Fo. unfold to_global_slices in H.
    destruct (cls_eqb classes GSlices); [injection H as <-; split; assumption|].
    apply bind_ok in H as [ks2 [E2 H]]. pose proof (change_class_k_P _ _ _ _ E2 Ks) as K2.
    destruct (visible hs ks2) as [[c lv2]|] eqn:Ev; [|discriminate].
    apply bind_ok in H as [ov2 [Eo H]]. injection H as <-. cbn [fst snd].
    split; [apply (visible_FP _ _ _ _ Ev K2) | apply (changed_class_P _ _ _ _ _ Eo Ko)].
  Qed.

  Lemma insert_slice_k_P hs ho ks ko ks' :
    insert_slice_k veqb vnone hs ho ks ko = Ok ks' -> kP ks -> kP ko -> kP ks'.
  Proof.
    intros H Ks Ko. unfold insert_slice_k in H. destruct (visible hs ks) as [[classes lv]|] eqn:Ev; [|discriminate].
    pose proof (visible_FP _ _ _ _ Ev Ks) as Fl.
    apply bind_ok in H as [ov [Eo H]]. pose proof (changed_class_P _ _ _ _ _ Eo Ko) as Fo.
    assert (Gen : forall lo n m,
               to_global_slices vnone hs ho ks ko classes lv ov = Ok lo ->
               kP (Some (GSlices, interleave n m (prod_list (skipn 3 (shape hs))) (fst lo) (snd lo)))).
    { intros lo n m El. destruct (to_global_slices_P _ _ _ _ _ _ _ _ El Ks Ko Fl Fo) as [A B]. apply kP_some. auto with prov. }
    destruct classes.
    - destruct (negb _); [|injection H as <-; exact Ks].
      destruct (find _ _) as [b|]; [|injection H as <-; exact Ks].
      apply bind_ok in H as [ks2 [E2 H]]. pose proof (change_class_k_P _ _ _ _ E2 Ks) as K2.
      apply bind_ok in H as [ov2 [Eo2 H]]. pose proof (changed_class_P _ _ _ _ _ Eo2 Ko) as Fo2.
      destruct (visible hs ks2) as [[c2 lv2]|] eqn:Ev2; [|discriminate]. injection H as <-.
      apply kP_some. apply FP_app; [apply (visible_FP _ _ _ _ Ev2 K2) | exact Fo2].
    - apply bind_ok in H as [lo [El H]]. destruct (n_slices hs); [|discriminate]. destruct (n_slices ho); [|discriminate].
      injection H as <-. apply (Gen _ _ _ El).
    - apply bind_ok in H as [lo [El H]]. destruct (n_slices hs); [|discriminate]. destruct (n_slices ho); [|discriminate].
      injection H as <-. apply (Gen _ _ _ El).
    - injection H as <-. apply kP_some. auto with prov.
    - apply bind_ok in H as [lo [El H]]. destruct (n_slices hs); [|discriminate]. destruct (n_slices ho); [|discriminate].
      injection H as <-. apply (Gen _ _ _ El).
    - apply bind_ok in H as [lo [El H]]. destruct (n_slices hs); [|discriminate]. destruct (n_slices ho); [|discriminate].
      injection H as <-. apply (Gen _ _ _ El).
  Qed.

  Lemma insert_non_slice_k_P hs ho ks ko ks' :
    insert_non_slice_k veqb vnone hs ho ks ko = Ok ks' -> kP ks -> kP ks'.
  Proof.
    intros H Ks. unfold insert_non_slice_k in H. destruct (visible hs ks) as [[classes lv]|]; [|discriminate].
    apply bind_ok in H as [ov [_ H]]. destruct (list_eqb _ _ _); injection H as <-; [exact Ks | exact I].
  Qed.

  Lemma insert_sample_k_P hs ho ks ko sb ks' :
    insert_sample_k veqb vnone hs ho ks ko sb = Ok ks' -> kP ks -> kP ko -> kP ks'.
  Proof.
    intros H Ks Ko. unfold insert_sample_k in H. destruct (visible hs ks) as [[classes lv]|] eqn:Ev; [|discriminate].
    pose proof (visible_FP _ _ _ _ Ev Ks) as Fl.
    destruct (samples_of_base sb) as [sc|]; [|discriminate].
    apply bind_ok in H as [ov [Eo H]]. pose proof (changed_class_P _ _ _ _ _ Eo Ko) as Fo. cbv zeta in H.
    destruct (cls_eqb classes GConst && negb _).
    - destruct (negb _); [|injection H as <-; exact Ks].
      apply bind_ok in H as [ks2 [E2 H]]. pose proof (change_class_k_P _ _ _ _ E2 Ks) as K2.
      apply bind_ok in H as [ov2 [Eo2 H]]. pose proof (changed_class_P _ _ _ _ _ Eo2 Ko) as Fo2.
      destruct (visible hs ks2) as [[c2 lv2]|] eqn:Ev2; [|discriminate]. injection H as <-.
      apply kP_some. apply FP_app; [apply (visible_FP _ _ _ _ Ev2 K2) | exact Fo2].
    - destruct (cls_eqb classes sc && negb _); [injection H as <-; apply kP_some; auto with prov|].
      destruct (cls_eqb classes GConst && list_eqb _ _ _); [injection H as <-; exact Ks|].
      apply bind_ok in H as [lo [El H]].
      destruct (to_global_slices_P _ _ _ _ _ _ _ _ El Ks Ko Fl Fo) as [A B].
      destruct (cbase_eqb sb BTime && _).
      + destruct (n_slices hs); [|discriminate].
        destruct (shape_at hs 3); [|discriminate]. destruct (shape_at ho 3); [|discriminate]. destruct (shape_at hs 4); [|discriminate].
        injection H as <-. apply kP_some. auto with prov.
      + injection H as <-. apply kP_some. auto with prov.
  Qed.

  Lemma insert_k_P hs ho dim ks ko ks' : insert_k veqb vnone hs ho dim ks ko = Ok ks' -> kP ks -> kP ko -> kP ks'.
  Proof.
    intros H Ks Ko. unfold insert_k in H. cbv zeta in H.
    set (ko2 := match visible ho ko with Some (c, vs) => if is_slices c && negb (use_slices hs ho) then None else Some (c, vs) | None => None end) in H.
    assert (K2 : kP ko2).
    { subst ko2. pose proof (visible_kP ho ko Ko) as Kv. destruct (visible ho ko) as [[c vs]|]; [|exact I].
      destruct (_ && _); [exact I | exact Kv]. }
    assert (Main : forall oc, bind (reclassify_k vnone hs ks oc) (fun ks1 =>
                     if odim_is (sdim hs) dim then insert_slice_k veqb vnone hs ho ks1 ko2
                     else if dim <? 3 then insert_non_slice_k veqb vnone hs ho ks1 ko2
                     else if dim =? 3 then insert_sample_k veqb vnone hs ho ks1 ko2 BTime
                     else if dim =? 4 then insert_sample_k veqb vnone hs ho ks1 ko2 BVector
                     else Ok ks1) = Ok ks' -> kP ks').
    { intros oc Hm. apply bind_ok in Hm as [ks1 [E1 Hm]]. pose proof (reclassify_k_P _ _ _ _ E1 Ks) as K1.
      destruct (odim_is _ _); [apply (insert_slice_k_P _ _ _ _ _ Hm K1 K2)|].
      destruct (dim <? 3); [apply (insert_non_slice_k_P _ _ _ _ _ Hm K1)|].
      destruct (dim =? 3); [apply (insert_sample_k_P _ _ _ _ _ _ Hm K1 K2)|].
      destruct (dim =? 4); [apply (insert_sample_k_P _ _ _ _ _ _ Hm K1 K2)|]. injection Hm as <-. exact K1. }
    destruct ko2 as [[c2 vs2]|]; [apply (Main _ H)|].
    destruct (visible hs ks); [apply (Main _ H) | injection H as <-; exact Ks].
  Qed.

  Lemma init_k_P hfull h0 k0 : kP k0 -> kP (init_k hfull h0 k0).
  Proof.
    intros K. unfold init_k. pose proof (visible_kP h0 k0 K) as Kv. destruct (visible h0 k0) as [[c vs]|]; [|exact I].
    destruct (_ && _); [exact I | exact Kv].
  Qed.

  Lemma insert_all_k_P hfull dim others : forall j ks ks',
    insert_all_k veqb vnone hfull dim j others ks = Ok ks' ->
    kP ks -> Forall (fun p => kP (snd p)) others -> kP ks'.
  Proof.
    induction others as [|[ho ko] r IH]; intros j ks ks' H K F; cbn [insert_all_k] in H; [injection H as <-; exact K|].
    apply bind_ok in H as [ks1 [E1 H]]. inversion F as [|? ? Fo Fr]; subst. cbn [snd] in Fo.
    apply (IH _ _ _ H); [apply (insert_k_P _ _ _ _ _ _ E1 K Fo) | exact Fr].
  Qed.

  Lemma merge_k_P hfull dim ins ks' :
    merge_k veqb vnone hfull dim ins = Ok ks' -> Forall (fun p => kP (snd p)) ins -> kP ks'.
  Proof.
    intros H F. unfold merge_k in H. destruct ins as [|[h0 k0] r]; [discriminate|].
    inversion F as [|? ? F0 Fr]; subst. cbn [snd] in F0.
    apply bind_ok in H as [ks [E H]]. pose proof (insert_all_k_P _ _ _ _ _ _ E (init_k_P hfull h0 k0 F0) Fr) as K.
    destruct (visible hfull ks) as [[c vs]|]; [|injection H as <-; exact K].
    destruct c; try (injection H as <-; exact K). apply (simplify_k_P _ _ _ H K).
  Qed.
End Prov.

(** * Whole extensions and histories *)
Section ProvExt.
  Context {V : Type} (veqb : V -> V -> bool) (vnone : V).
  Variable P : V -> Prop.                    (* values *)
  Variable Q : key -> Prop.                  (* keys *)
  Variable A : list (list QArith_base.Q) -> Prop.   (* affines *)
  Hypothesis Pnone : P vnone.

  Notation ext := (ext V).

  Definition eP (e : ext) : Prop := Forall (fun kv => Forall P (snd (snd kv))) (entries e).
  Definition eQ (e : ext) : Prop := Forall (fun kv => Q (fst kv)) (entries e).
  Definition inv (e : ext) : Prop := eP e /\ eQ e /\ A (aff (hdr_of e)).

  Lemma lookup_kP (e : ext) k : eP e -> kP P (lookup_e e k).
  Proof.
    intros H. destruct (lookup_e e k) as [[c vs]|] eqn:E; [|exact I]. apply lookup_In in E.
    unfold eP in H. rewrite Forall_forall in H. apply (H _ E).
  Qed.

  Lemma map_keys_P (f : key -> res (kst V)) keys ents :
    map_keys f keys = Ok ents ->
    (forall k s, In k keys -> f k = Ok s -> kP P s) -> (forall k, In k keys -> Q k) ->
    Forall (fun kv => Forall P (snd (snd kv))) ents /\ Forall (fun kv => Q (fst kv)) ents.
  Proof.
    intros H Hp Hq. split; apply Forall_forall; intros [k [c vs]] Hin; destruct (map_keys_In f keys ents k (c, vs) H Hin) as [Hk Hf].
    - apply (Hp k _ Hk Hf).
    - apply (Hq k Hk).
  Qed.

  Lemma keys_Q (e : ext) k : eQ e -> In k (keys_e e) -> Q k.
  Proof.
    intros H Hin. unfold keys_e in Hin. apply in_map_iff in Hin as [kv [<- Hin]]. unfold eQ in H. rewrite Forall_forall in H. apply (H _ Hin).
  Qed.

  Lemma get_subset_inv (e r : ext) dim idx : get_subset veqb vnone e dim idx = Ok r -> inv e -> inv r.
  Proof.
    intros H [Hp [Hq Ha]]. pose proof H as H0. unfold get_subset in H.
    apply bind_ok in H as [hr [Ehr H]]. apply bind_ok in H as [u [_ H]]. apply bind_ok in H as [ents [Eents H]].
    injection H as <-.
    destruct (map_keys_P _ _ _ Eents) as [R1 R2].
    - intros k s _ Hs. apply (subset_k_P veqb vnone P _ _ _ _ _ _ Hs). apply lookup_kP, Hp.
    - intros k Hk. rewrite dedup_keys_nil_In in Hk. apply (keys_Q e k Hq Hk).
    - split; [exact R1|]. split; [exact R2|]. cbn [hdr_of].
      unfold subset_hdr in Ehr. destruct (5 <=? dim); [discriminate|]. destruct (negb _); [discriminate|].
      destruct (set_nth dim 1 _); [|discriminate]. unfold make_empty_hdr in Ehr.
      destruct (negb _); [discriminate|]. destruct (negb _); [discriminate|]. destruct (negb _); [discriminate|].
      injection Ehr as <-. exact Ha.
  Qed.

  Lemma from_sequence_inv (es : list ext) dim affine sd r :
    from_sequence veqb vnone es dim affine sd = Ok r ->
    Forall inv es -> (forall a, affine = Some a -> A a) -> inv r.
  Proof.
    intros H Hall Haff. unfold from_sequence in H.
    apply bind_ok in H as [hfull [Eh H]]. apply bind_ok in H as [ents [Eents H]]. injection H as <-.
    rewrite Forall_forall in Hall.
    destruct (map_keys_P _ _ _ Eents) as [R1 R2].
    - intros k s _ Hs. apply (merge_k_P veqb vnone P Pnone _ _ _ _ Hs).
      apply Forall_forall. intros [h s0] Hin. apply in_map_iff in Hin as [e [[= <- <-] Hin]]. cbn [snd].
      apply lookup_kP. apply (Hall e Hin).
    - intros k Hk. rewrite dedup_keys_nil_In in Hk. apply in_flat_map in Hk as [e [He Hk]].
      apply (keys_Q e k); [apply (Hall e He) | exact Hk].
    - split; [exact R1|]. split; [exact R2|]. cbn [hdr_of].
      unfold merge_hdr in Eh. destruct (5 <=? dim); [discriminate|].
      destruct (map (@hdr_of V) es) as [|h0 hs] eqn:Em; [discriminate|].
      destruct (_ && _); [discriminate|]. destruct (set_nth _ _ _) as [osh|]; [|discriminate].
      apply bind_ok in Eh as [hf [Ehf Eh]]. destruct (negb _); [discriminate|]. destruct (forallb _ _); [|discriminate].
      injection Eh as <-. unfold make_empty_hdr in Ehf.
      destruct (negb _); [discriminate|]. destruct (negb _); [discriminate|]. destruct (negb _); [discriminate|].
      injection Ehf as <-. cbn [aff]. destruct affine as [a|]; [apply Haff; reflexivity|].
      destruct es as [|e0 es']; [discriminate|]. cbn [map] in Em. injection Em as <- _.
      apply (Hall e0 (or_introl eq_refl)).
  Qed.

  Lemma filter_inv (p : key * (cls * list V) -> bool) (e : ext) : inv e -> inv (mk_ext (hdr_of e) (filter p (entries e))).
  Proof.
    intros [Hp [Hq Ha]]. unfold inv, eP, eQ in *. cbn [entries hdr_of]. rewrite !Forall_forall in *.
    split; [|split; [|exact Ha]]; intros x Hx; apply filter_In in Hx as [Hx _]; auto.
  Qed.

  (** the side conditions of an operation: what it brings in from outside satisfies the predicates *)
  Definition op_ok (o : op V) : Prop :=
    match o with
    | OMerge before after _ affine _ => Forall inv (before ++ after) /\ (forall a, affine = Some a -> A a)
    | OInject _ k values _ => Q k /\ Forall P values
    | _ => True
    end.

  Lemma apply_inv (o : op V) (e r : ext) : apply veqb vnone o e = Ok r -> inv e -> op_ok o -> inv r.
  Proof.
    intros H He Ho. destruct o as [dim idx | before after dim affine sd | f | | c k values force]; cbn [apply op_ok] in *.
    - apply (get_subset_inv _ _ _ _ H He).
    - destruct Ho as [Hall Haff]. apply (from_sequence_inv _ _ _ _ _ H); [|exact Haff].
      apply Forall_forall. intros x Hx. rewrite Forall_forall in Hall.
      apply in_app_iff in Hx as [Hx|[<-|Hx]]; [apply Hall, in_app_iff; left; exact Hx | exact He | apply Hall, in_app_iff; right; exact Hx].
    - unfold filter_meta in H. destruct (negb _); [discriminate|]. injection H as <-. apply filter_inv, He.
    - unfold clear_slice_meta in H. destruct (negb _); [discriminate|]. injection H as <-. apply filter_inv, He.
    - unfold inject in H. destruct (negb _); [discriminate|]. destruct (_ =? 0); [discriminate|]. destruct (negb _); [discriminate|].
      apply bind_ok in H as [m [_ H]]. destruct (negb _); [discriminate|]. destruct (_ && _); [discriminate|]. injection H as <-.
      destruct Ho as [Hk Hv].
      assert (Hkept : inv (mk_ext (hdr_of e) (if mem_key k (visible_keys e)
                 then filter (fun kv => negb (key_eqb k (fst kv) && class_valid (hdr_of e) (fst (snd kv)))) (entries e)
                 else entries e))).
      { destruct (mem_key k (visible_keys e)); [apply filter_inv, He | destruct e; exact He]. }
      destruct Hkept as [K1 [K2 K3]]. unfold inv, eP, eQ in *. cbn [entries hdr_of] in *.
      split; [|split; [|exact K3]]; apply Forall_app; split; try assumption; constructor; try constructor; assumption.
  Qed.

  Fixpoint ops_ok (ops : list (op V)) : Prop :=
    match ops with [] => True | o :: r => op_ok o /\ ops_ok r end.

  Theorem run_inv (ops : list (op V)) : forall (e r : ext), run veqb vnone ops e = Ok r -> inv e -> ops_ok ops -> inv r.
  Proof.
    unfold run. induction ops as [|o ops IH]; intros e r H He Ho; cbn [fold_left] in H.
    - injection H as <-. exact He.
    - cbn [ops_ok] in Ho. destruct Ho as [Ho1 Ho2]. cbn [bind] in H.
      destruct (apply veqb vnone o e) as [e'|err] eqn:Ea.
      + apply (IH e' r H (apply_inv o e e' Ea He Ho1) Ho2).
      + exfalso. clear -H. induction ops as [|o' ops IH']; cbn [fold_left bind] in H; [discriminate | exact (IH' H)].
  Qed.
End ProvExt.
