(** Link: concrete extensions and contents for the non-vacuity Examples and the refutation witnesses. *)
From Coq Require Import List Bool Arith NArith ZArith QArith Lia.
From DV Require Import Common.Res Common.Str Common.Jv Common.PyNum.
From DV Require Cli.Model.
From DV Require Import Ext.Types Ext.Classes Ext.Seq Ext.Model Ext.Spec Ext.ValidFacts Ext.ProofsValidBase
     Ext.ProofsSimplifyCanon Ext.Ops.
From DV Require Import Link.Abs.
Import ListNotations.
Local Open Scope nat_scope.

Definition lx_aff : list (list Q) := [[2; 0; 0; -8]; [0; 0; 1 # 2; 3]; [0; -1; 0; 21 # 2]; [0; 0; 0; 1]]%Q.

(** "EchoTime", "k", "Zü" ... as code points *)
Definition kt : key := [69; 99; 104; 111; 84; 105; 109; 101]%N.
Definition kv : key := [107]%N.
Definition ks : key := [83; 108; 105; 99; 101]%N.
Definition kw : key := [90; 252]%N.
Definition kg : key := [103]%N.
Definition kc : key := [99]%N.

(** a 5-D extension with a key in every classification *)
Definition lx5 : jext :=
  mk_ext (mk_hdr [2; 2; 2; 3; 2] (Some 1) lx_aff true true)
    [(kt, (TSamples, [JInt 10; JInt 11; JInt 12; JInt 13; JInt 14; JNum [49; 46; 53]%N]));
     (kv, (VSamples, [JStr [97]%N; JStr [252; 98]%N]));
     (ks, (TSlices, [JInt 30; JNull]));
     (kw, (VSlices, [JInt 40; JInt 41; JInt 42; JInt 43; JInt 44; JArr [JInt 1; JBool true]]));
     (kg, (GSlices, map JInt [50; 51; 52; 53; 54; 55; 56; 57; 58; 59; 60; 61]%Z));
     (kc, (GConst, [JObj [([97]%N, JInt 1); ([98]%N, JArr [])]]))].

(** (X,Y,Z,1): the 'time' dictionaries exist and are empty *)
Definition lx4 : jext :=
  mk_ext (mk_hdr [2; 2; 3; 1] (Some 2) lx_aff true false)
    [(ks, (GSlices, [JInt 1; JInt 2; JInt 3])); (kc, (GConst, [JStr [97]%N]))].

(** 3-D without a slice dimension *)
Definition lx3 : jext := mk_ext (mk_hdr [4; 5; 6] None lx_aff false false) [(kc, (GConst, [JInt 7]))].

Lemma valid_of_b (e : jext) : validb e = true -> nondegenerateb e = true -> valid e /\ nondegenerate e.
Proof. intros H1 H2. pose proof (validb_valid e H1) as Hv. split; [exact Hv | apply (nondegenerateb_nondegenerate e Hv H2)]. Qed.

Lemma lx5_ok : valid lx5 /\ nondegenerate lx5.
Proof. apply valid_of_b; vm_compute; reflexivity. Qed.
Lemma lx4_ok : valid lx4 /\ nondegenerate lx4.
Proof. apply valid_of_b; vm_compute; reflexivity. Qed.
Lemma lx3_ok : valid lx3 /\ nondegenerate lx3.
Proof. apply valid_of_b; vm_compute; reflexivity. Qed.

Lemma lx5_tight : hdr_tight (hdr_of lx5).
Proof. intros c. destruct c; reflexivity. Qed.
Lemma lx4_tight : hdr_tight (hdr_of lx4).
Proof. intros c. destruct c; reflexivity. Qed.

Lemma storable_of_valid (e : jext) : valid e -> storable e.
Proof.
  intros [Hh [Hnd Hent]]. split; [|split].
  - intros k c vs Hin. apply Hh. apply (Hent _ _ _ Hin).
  - intros k vs Hin. destruct (Hent _ _ _ Hin) as [_ [_ Hl]]. rewrite Hl. destruct (dims (hdr_of e)) as [[? ?] ?]. reflexivity.
  - intros c. unfold class_entries, keys_e in *. revert Hnd. generalize (entries e) as l.
    induction l as [|x l IH]; intros Hnd; [constructor|]. cbn [filter map] in *.
    inversion Hnd as [|? ? Hx Hnd']; subst. destruct (cls_eqb _ c); [|apply IH; exact Hnd'].
    cbn [map]. constructor; [|apply IH; exact Hnd'].
    intros Hin. apply Hx. apply in_map_iff in Hin as [y [Hy Hin]]. apply filter_In in Hin as [Hin _].
    apply in_map_iff. exists y. split; assumption.
Qed.

Lemma aff_rt_dec_b (h : hdr) :
  forallb (forallb (fun q => match tokq_dec (qtok_dec q) with Some q' => Qeq_bool q q' && Z.eqb (Qnum q) (Qnum q') && Pos.eqb (Qden q) (Qden q') | None => false end)) (aff h) = true ->
  aff_rt qtok_dec tokq_dec h.
Proof.
  intros H. unfold aff_rt. apply Forall_forall. intros r Hr. apply Forall_forall. intros q Hq.
  rewrite forallb_forall in H. specialize (H r Hr). rewrite forallb_forall in H. specialize (H q Hq).
  destruct (tokq_dec (qtok_dec q)) as [[n d]|]; [|discriminate]. destruct q as [n0 d0]. cbn [Qnum Qden] in H.
  apply andb_true_iff in H as [H Hd]. apply andb_true_iff in H as [_ Hn].
  apply Z.eqb_eq in Hn. apply Pos.eqb_eq in Hd. subst. reflexivity.
Qed.

Lemma lx_aff_rt : aff_rt qtok_dec tokq_dec (hdr_of lx5) /\ aff_rt qtok_dec tokq_dec (hdr_of lx4) /\ aff_rt qtok_dec tokq_dec (hdr_of lx3).
Proof. repeat split; apply aff_rt_dec_b; vm_compute; reflexivity. Qed.

(** * Refutation witnesses *)

(** three values under ('time','samples') of a (2,2,3,1) extension (multiplicity 1): check_valid does not count them *)
Definition lx_degenerate : jext :=
  mk_ext (mk_hdr [2; 2; 3; 1] (Some 2) lx_aff true false) [(kt, (TSamples, [JInt 1; JInt 2; JInt 3]))].

(** a zero extent: every multiplicity that is looked at is 0 or 1 *)
Definition lx_zero : jext := mk_ext (mk_hdr [0; 2; 2] None lx_aff false false) [(kc, (GConst, [JInt 7]))].

(** a key stored under ('time','samples') of a 3-D extension that still has a 'time' dictionary (stale) *)
Definition lx_stale : jext :=
  mk_ext (mk_hdr [2; 2; 3] (Some 2) lx_aff true false) [(kt, (TSamples, [JInt 1]))].

(** a (2,2,2,1,2) extension that still has 'time' dictionaries, with a key in ('time','samples') (multiplicity 2):
    storable, positive, nondegenerate, not tight *)
Definition lx_untight : jext :=
  mk_ext (mk_hdr [2; 2; 2; 1; 2] (Some 2) lx_aff true true) [(kt, (TSamples, [JInt 1; JInt 2]))].
(** the same without the 'time' dictionaries: tight, positive, nondegenerate; the entry has nowhere to go *)
Definition lx_unstorable : jext :=
  mk_ext (mk_hdr [2; 2; 2; 1; 2] (Some 2) lx_aff false true) [(kt, (TSamples, [JInt 1; JInt 2]))].

(** a reorientation transform (voxel order with a flipped first and swapped second / third axes) *)
Definition lx_reo : option (list (list Q)) := Some [[-1; 0; 0; 1]; [0; 0; 1; 0]; [0; 1; 0; 0]; [0; 0; 0; 1]]%Q.

Lemma not_valid_b (e : jext) : validb e = false -> ~ valid e.
Proof. intros H Hv. apply valid_validb in Hv. congruence. Qed.

(** * The command line *)
Definition lx_ftok (f : fval) : str := match f with FFin q => qtok_dec q | _ => [110; 97; 110]%N end.
Definition L2 : str := [50]%N.
Definition L7 : str := [55]%N.
Definition L25 : str := [50; 46; 53]%N.
