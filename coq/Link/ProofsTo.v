(** Link, part 3: [to_content].
      [reps_to_content]      the content of an extension holds exactly its header and entries;
      [valid_to_content]     valid e -> check_valid (to_content e) = Ok tt (and valid_spec, wf_domain);
      [to_content_valid]     the converse, on extensions that are the reading of a content dictionary
                             ([storable]) with tight base dictionaries, positive extents and no key in a varying
                             class of multiplicity one;
      [wf_to_content]        JSON well-formedness of the content. *)
From Coq Require Import List Bool Arith NArith ZArith QArith Lia.
From DV Require Import Common.Res Common.Str Common.Jv.
From DV Require Generated.T_content Content.PyVal Content.Model Content.Spec Content.ProofsBasic
     Content.ProofsClasses Content.ProofsLoops Content.ProofsMain.
From DV Require Import Ext.Types Ext.Classes Ext.Seq Ext.Model Ext.Spec Ext.TableFacts Ext.ValidFacts
     Ext.ProofsValidBase Ext.ProofsSimplifyCanon.
From DV Require Import Link.Abs Link.ProofsNames Link.ProofsReps.
Import ListNotations.
Local Open Scope nat_scope.

Section WithTok.
  Variable qtok : Q -> str.
  Variable reo : option (list (list Q)).

  Definition to_members_r (e : jext) : CS.obj := base_members e ++ header_members_r qtok reo (hdr_of e).

  Lemma to_content_members_r e : to_content_r qtok reo e = JObj (to_members_r e).
  Proof. reflexivity. Qed.

  (** ** Looking things up in the content *)

  Lemma jassoc_shape e : jassoc PV.K_shape (to_members_r e) = Some (shape_jv (shape (hdr_of e))).
  Proof. unfold to_members_r, base_members. destruct (has_time _), (has_vec _); reflexivity. Qed.
  Lemma jassoc_affine e : jassoc PV.K_affine (to_members_r e) = Some (aff_jv qtok (aff (hdr_of e))).
  Proof. unfold to_members_r, base_members. destruct (has_time _), (has_vec _); reflexivity. Qed.
  Lemma jassoc_slice_dim e : jassoc PV.K_slice_dim (to_members_r e) = Some (sdim_jv (sdim (hdr_of e))).
  Proof. unfold to_members_r, base_members. destruct (has_time _), (has_vec _); reflexivity. Qed.
  Lemma jassoc_version e : jassoc PV.K_version (to_members_r e) = Some version_jv.
  Proof. unfold to_members_r, base_members. destruct (has_time _), (has_vec _); reflexivity. Qed.
  Lemma jassoc_reorient e : jassoc K_reorient (to_members_r e) = Some (reo_jv qtok reo).
  Proof. unfold to_members_r, base_members. destruct (has_time _), (has_vec _); reflexivity. Qed.

  Lemma jassoc_base_r e b :
    jassoc (name_of_base b) (to_members_r e) = if has_base (hdr_of e) b then Some (base_jv e b) else None.
  Proof.
    unfold to_members_r, base_members, has_base. destruct b, (has_time _), (has_vec _); reflexivity.
  Qed.

  Lemma class_dict_to_r e c :
    CS.class_dict (to_members_r e) (name_of_cls c) =
    if has_base (hdr_of e) (base_of c) then Some (class_obj e c) else None.
  Proof.
    unfold CS.class_dict. cbn [name_of_cls fst snd]. rewrite jassoc_base_r.
    destruct (has_base (hdr_of e) (base_of c)); [|reflexivity]. destruct c; reflexivity.
  Qed.

  Lemma top_keys e :
    map fst (to_members_r e) =
    name_of_base BGlobal :: (if has_time (hdr_of e) then [name_of_base BTime] else [])
      ++ (if has_vec (hdr_of e) then [name_of_base BVector] else [])
      ++ [PV.K_shape; PV.K_affine; K_reorient; PV.K_slice_dim; PV.K_version].
  Proof. unfold to_members_r, base_members. destruct (has_time _), (has_vec _); reflexivity. Qed.

  Lemma in_class_obj e c k v :
    In (k, v) (class_obj e c) <-> exists vs, In (k, (c, vs)) (entries e) /\ v = render c vs.
  Proof.
    unfold class_obj, class_entries. rewrite in_map_iff. split.
    - intros [[k' [c' vs]] [Heq Hin]]. apply filter_In in Hin as [Hin Hc]. cbn [fst snd] in Heq, Hc.
      apply cls_eqb_eq in Hc. subst c'. injection Heq as -> <-. exists vs. split; [exact Hin | reflexivity].
    - intros [vs [Hin ->]]. exists (k, (c, vs)). split; [reflexivity|]. apply filter_In.
      split; [exact Hin | apply cls_eqb_refl].
  Qed.

  (** per-key reading of a class dictionary: the key's entry when it sits in that class, nothing otherwise *)
  Lemma jassoc_class_obj e c k :
    NoDup (keys_e e) ->
    jassoc k (class_obj e c) =
    match lookup_e e k with
    | Some (c', vs) => if cls_eqb c' c then Some (render c vs) else None
    | None => None
    end.
  Proof.
    unfold class_obj, class_entries, lookup_e, keys_e. generalize (entries e) as l.
    induction l as [|[k' [c' vs]] l IH]; intros Hnd; [reflexivity|].
    cbn [map fst] in Hnd. inversion Hnd as [|? ? Hn Hnd']; subst. cbn [assoc filter fst snd]. unfold key_eqb.
    destruct (str_eqb k k') eqn:Ek.
    - apply str_eqb_eq in Ek. subst k'. destruct (cls_eqb c' c); [cbn [map jassoc fst snd]; rewrite str_eqb_refl; reflexivity|].
      destruct (jassoc k _) as [v|] eqn:Ej; [|reflexivity]. exfalso. apply Hn.
      assert (Hin : In k (map fst (map (fun kv : entry => (fst kv, render c (snd (snd kv)))) (filter (fun kv : entry => cls_eqb (fst (snd kv)) c) l)))).
      { clear -Ej. induction (map _ _) as [|[k0 v0] d IHd]; [discriminate|]. cbn [jassoc] in Ej. cbn [map fst].
        destruct (str_eqb k k0) eqn:E; [apply str_eqb_eq in E; left; congruence | right; apply IHd, Ej]. }
      rewrite map_map in Hin. cbn [fst] in Hin. apply in_map_iff in Hin as [x [Hx Hin]]. apply filter_In in Hin as [Hin _].
      apply in_map_iff. exists x. split; assumption.
    - destruct (cls_eqb c' c); [cbn [map jassoc fst snd]; rewrite Ek|]; apply IH, Hnd'.
  Qed.

  Lemma reps_to_content e : reps (to_members_r e) e.
  Proof.
    constructor.
    - apply jassoc_shape.
    - apply jassoc_slice_dim.
    - exists (map (map (fun q => JNum (qtok q))) (aff (hdr_of e))). split; [|split].
      + rewrite jassoc_affine. unfold aff_jv, row_jv. rewrite map_map. reflexivity.
      + apply Forall_forall. intros r Hr. apply in_map_iff in Hr as [r0 [<- _]].
        apply Forall_forall. intros v Hv. apply in_map_iff in Hv as [q [<- _]]. reflexivity.
      + rewrite map_map. apply map_ext. intros r. apply map_length.
    - intros c. unfold CS.class_entry_ok. cbn [name_of_cls fst snd]. rewrite jassoc_base_r.
      destruct (has_base (hdr_of e) (base_of c)); [|reflexivity]. destruct c; reflexivity.
    - intros c. rewrite class_dict_to_r. destruct (has_base (hdr_of e) (base_of c)).
      + split; [intros _; eexists; reflexivity | reflexivity].
      + split; [discriminate | intros [d Hd]; discriminate].
    - intros c d Hd k v. rewrite class_dict_to_r in Hd.
      destruct (has_base (hdr_of e) (base_of c)); [|discriminate]. injection Hd as <-. apply in_class_obj.
  Qed.

  (** ** Required fields *)

  Lemma version_fields_current :
    CS.version_fields version_jv =
    Some [PV.K_affine; K_reorient; PV.K_shape; PV.K_slice_dim; PV.K_version; name_of_base BGlobal].
  Proof. vm_compute. reflexivity. Qed.

  Lemma rule_required_to e : CS.rule_required (to_members_r e) = true.
  Proof.
    unfold CS.rule_required. rewrite jassoc_version, version_fields_current.
    unfold PV.has_key. cbn [forallb].
    rewrite jassoc_affine, jassoc_reorient, jassoc_shape, jassoc_slice_dim, jassoc_version.
    rewrite (jassoc_base_r e BGlobal). reflexivity.
  Qed.

  (** ** C07 x C10: every valid extension passes the validity check *)

  Theorem valid_to_content e :
    valid e ->
    CM.check_valid (to_content_r qtok reo e) = Ok tt /\
    CS.valid_spec (to_content_r qtok reo e) = true /\ CS.wf_domain (to_content_r qtok reo e) = true.
  Proof.
    intros Hv. rewrite to_content_members_r.
    pose proof (reps_to_content e) as R.
    assert (Hwf : CS.wf_domain (JObj (to_members_r e)) = true).
    { apply (reps_wf_domain _ e R). apply Hv. }
    assert (Hs : CS.valid_spec (JObj (to_members_r e)) = true).
    { apply CPM.valid_spec_rules. split; [apply rule_required_to | exact (reps_rules _ _ R Hv)]. }
    split; [|split; assumption]. apply (CPM.check_valid_iff_spec _ Hwf). exact Hs.
  Qed.

  (** ** The converse *)

  Lemma NoDup_by_class (l : list entry) :
    (forall c, NoDup (map fst (filter (fun kv : entry => cls_eqb (fst (snd kv)) c) l))) ->
    (forall k c1 vs1 c2 vs2, In (k, (c1, vs1)) l -> In (k, (c2, vs2)) l -> c1 = c2) ->
    NoDup (map fst l).
  Proof.
    induction l as [|[k [c vs]] l IH]; intros Hc Hx; cbn [map fst]; constructor.
    - intros Hin. apply in_map_iff in Hin as [[k' [c' vs']] [Hk Hin]]. cbn [fst] in Hk. subst k'.
      assert (c' = c) by (apply (Hx k c' vs' c vs); [right; exact Hin | left; reflexivity]). subst c'.
      specialize (Hc c). cbn [filter fst snd] in Hc. rewrite cls_eqb_refl in Hc. cbn [map fst] in Hc.
      inversion Hc as [|? ? Hn _]; subst. apply Hn. apply in_map_iff. exists (k, (c, vs')).
      split; [reflexivity|]. apply filter_In. split; [exact Hin | apply cls_eqb_refl].
    - apply IH.
      + intros c0. specialize (Hc c0). cbn [filter fst snd] in Hc.
        destruct (cls_eqb c c0); [cbn [map] in Hc; inversion Hc; assumption | exact Hc].
      + intros k0 c1 vs1 c2 vs2 H1 H2. apply (Hx k0 c1 vs1 c2 vs2); right; assumption.
  Qed.

  (** each key once: the keys of one class are distinct (a dict), and the uniqueness rule separates the classes *)
  Lemma to_content_nodup e :
    storable e ->
    (forall k c vs, In (k, (c, vs)) (entries e) -> class_ok (shape (hdr_of e)) c = true) ->
    CS.valid_spec (JObj (to_members_r e)) = true -> NoDup (keys_e e).
  Proof.
    intros [Hbase [Hconst Hcls]] Hcok Hck. pose proof (reps_to_content e) as R.
    apply CPM.valid_spec_rules in Hck as [_ [_ [_ [R4 [_ [_ [_ R8]]]]]]].
    pose proof (shape_value_reps _ _ R) as Hshape.
    assert (Hn : 3 <= length (shape (hdr_of e)) <= 5).
    { unfold CS.rule_ndim in R4. rewrite Hshape, map_length in R4. apply andb_true_iff in R4 as [A B].
      apply Nat.leb_le in A, B. lia. }
    unfold CS.rule_unique in R8. rewrite Hshape in R8.
    pose proof (proj2 (CL.unique_iff _ _ (CPC.valid_classes_nodup _)) R8) as R8'. clear R8. rename R8' into R8.
    apply NoDup_by_class; [exact Hcls|].
    intros k c1 vs1 c2 vs2 H1 H2.
    destruct (cls_eqb_spec c1 c2) as [Heq|Hne]; [exact Heq | exfalso].
    assert (V1 : In (name_of_cls c1) (CS.valid_classes_spec (map nat_jv (shape (hdr_of e)))))
      by (apply (in_vcs _ _ Hn); exists c1; split; [reflexivity | apply (Hcok _ _ _ H1)]).
    assert (V2 : In (name_of_cls c2) (CS.valid_classes_spec (map nat_jv (shape (hdr_of e)))))
      by (apply (in_vcs _ _ Hn); exists c2; split; [reflexivity | apply (Hcok _ _ _ H2)]).
    assert (Hnn : name_of_cls c1 <> name_of_cls c2) by (intros Heq; apply Hne, name_of_cls_inj; exact Heq).
    specialize (R8 _ _ V1 V2 Hnn). unfold CL.disjoint_pair, CS.class_keys_spec in R8.
    rewrite !class_dict_to_r, (Hbase _ _ _ H1), (Hbase _ _ _ H2) in R8.
    assert (Hi : CM.intersects (map fst (class_obj e c1)) (map fst (class_obj e c2)) = true); [|congruence].
    apply CL.intersects_true. exists k. split; apply in_map_iff.
    - exists (k, render c1 vs1). split; [reflexivity|]. apply in_class_obj. exists vs1. split; [exact H1 | reflexivity].
    - exists (k, render c2 vs2). split; [reflexivity|]. apply in_class_obj. exists vs2. split; [exact H2 | reflexivity].
  Qed.

  (** FULL STATEMENT (false): check_valid (to_content e) = Ok tt -> valid e.  The check does not look at the
      number of values in a class of multiplicity one, cannot see a key that [to_content] had to drop or a
      constant that is not a singleton, and accepts a non-positive extent; see C07_content_valid_refuted. *)
  Theorem to_content_valid_partial e :
    storable e -> hdr_tight (hdr_of e) -> Forall (fun n => 1 <= n) (shape (hdr_of e)) -> nondegenerate e ->
    CM.check_valid (to_content_r qtok reo e) = Ok tt -> valid e.
  Proof.
    intros Hst Ht Hp Hnondeg Hck. rewrite to_content_members_r in Hck.
    pose proof (reps_to_content e) as R.
    pose proof (reps_wf_domain _ e R Hp) as Hwf.
    apply (CPM.check_valid_iff_spec _ Hwf) in Hck.
    assert (Hcok : forall k c vs, In (k, (c, vs)) (entries e) -> class_ok (shape (hdr_of e)) c = true).
    { intros k c vs Hin. rewrite <- (Ht c). apply (proj1 Hst _ _ _ Hin). }
    apply (reps_valid _ e R Hck Hp); try assumption; [|apply Hst].
    apply (to_content_nodup e Hst Hcok Hck).
  Qed.

  (** ** JSON well-formedness *)

  Lemma nodupb_NoDup (l : list str) : NoDup l -> JM.nodupb l = true.
  Proof.
    induction 1 as [|k r Hn _ IH]; [reflexivity|]. cbn [JM.nodupb]. rewrite IH, andb_true_r.
    apply negb_true_iff. destruct (existsb (str_eqb k) r) eqn:E; [|reflexivity].
    exfalso. apply Hn. apply CL.existsb_str_in. exact E.
  Qed.

  Lemma wfb_render c vs : forallb JM.wfb vs = true -> JM.wfb (render c vs) = true.
  Proof.
    intros H. destruct c; cbn [render]; try exact H. destruct vs as [|v vs]; [reflexivity|].
    cbn [hd forallb] in *. apply andb_true_iff in H as [H _]. exact H.
  Qed.

  Lemma wfb_class_obj e c :
    NoDup (keys_e e) -> ext_wf_json e = true -> JM.wfb (JObj (class_obj e c)) = true.
  Proof.
    intros Hnd Hwf. cbn [JM.wfb]. apply andb_true_iff. split.
    - apply nodupb_NoDup. unfold class_obj. rewrite map_map. cbn [fst].
      change (map (fun x : entry => fst x) (class_entries e c)) with (map fst (class_entries e c)).
      unfold class_entries, keys_e in *. revert Hnd. generalize (entries e) as l.
      induction l as [|x l IH]; intros Hnd; [constructor|]. cbn [filter map] in *.
      inversion Hnd as [|? ? Hn Hnd']; subst. destruct (cls_eqb _ c); [|apply IH; exact Hnd'].
      cbn [map]. constructor; [|apply IH; exact Hnd'].
      intros Hin. apply Hn. apply in_map_iff in Hin as [y [Hy Hin]]. apply filter_In in Hin as [Hin _].
      apply in_map_iff. exists y. split; assumption.
    - apply forallb_forall. intros [k v] Hkv. apply in_class_obj in Hkv as [vs [Hin ->]]. cbn [fst snd].
      unfold ext_wf_json in Hwf. rewrite forallb_forall in Hwf. specialize (Hwf _ Hin). cbn [fst snd] in Hwf.
      apply andb_true_iff in Hwf as [Hk Hvs]. rewrite Hk. apply wfb_render. exact Hvs.
  Qed.

  Lemma wfb_obj2 k1 k2 v1 v2 :
    str_eqb k1 k2 = false -> forallb JM.scalar k1 = true -> forallb JM.scalar k2 = true ->
    JM.wfb v1 = true -> JM.wfb v2 = true -> JM.wfb (JObj [(k1, v1); (k2, v2)]) = true.
  Proof.
    intros Hk H1 H2 W1 W2. cbn [JM.wfb map fst snd forallb JM.nodupb existsb]. rewrite Hk, H1, H2, W1, W2. reflexivity.
  Qed.

  Lemma wfb_base e b : NoDup (keys_e e) -> ext_wf_json e = true -> JM.wfb (base_jv e b) = true.
  Proof.
    intros Hnd Hwf. unfold base_jv.
    apply wfb_obj2; try apply (wfb_class_obj e _ Hnd Hwf); destruct b; reflexivity.
  Qed.

  Lemma wfb_aff a : forallb (forallb (fun q => JM.float_tok (qtok q))) a = true -> JM.wfb (aff_jv qtok a) = true.
  Proof.
    intros H. unfold aff_jv. cbn [JM.wfb]. rewrite forallb_forall in *. intros v Hv.
    apply in_map_iff in Hv as [r [<- Hr]]. specialize (H r Hr). unfold row_jv. cbn [JM.wfb].
    rewrite forallb_forall in *. intros w Hw. apply in_map_iff in Hw as [q [<- Hq]]. cbn [JM.wfb]. apply (H q Hq).
  Qed.

  Lemma wfb_shape sh : JM.wfb (shape_jv sh) = true.
  Proof. unfold shape_jv. cbn [JM.wfb]. apply forallb_forall. intros v Hv. apply in_map_iff in Hv as [n [<- _]]. reflexivity. Qed.

  Lemma wfb_version : JM.wfb version_jv = true.
  Proof. vm_compute. reflexivity. Qed.

  (** keys are distinct and are strings of scalar values, values are well formed, the affine tokens are floats *)
  Theorem wf_to_content e :
    NoDup (keys_e e) -> ext_wf_json e = true -> aff_toks_ok qtok (hdr_of e) = true -> reo_toks_ok qtok reo = true ->
    JM.wf (to_content_r qtok reo e).
  Proof.
    intros Hnd Hwf Ha Hr.
    assert (Wr : JM.wfb (reo_jv qtok reo) = true) by (destruct reo as [m|]; [apply wfb_aff; exact Hr | reflexivity]). unfold JM.wf, to_content_r. cbn [JM.wfb].
    fold (to_members_r e). rewrite top_keys. apply andb_true_iff. split.
    - destruct (has_time _), (has_vec _); vm_compute; reflexivity.
    - unfold to_members_r. rewrite forallb_app. apply andb_true_iff. split.
      + unfold base_members. cbn [forallb fst snd]. rewrite (wfb_base e BGlobal Hnd Hwf).
        rewrite forallb_app. destruct (has_time _), (has_vec _); cbn [forallb fst snd app];
          rewrite ?(wfb_base e BTime Hnd Hwf), ?(wfb_base e BVector Hnd Hwf); reflexivity.
      + unfold header_members_r. cbn [forallb fst snd].
        rewrite wfb_shape, (wfb_aff _ Ha), Wr, wfb_version.
        destruct (sdim (hdr_of e)); reflexivity.
  Qed.
End WithTok.

(** * Without a transform: the instances at [reo = None] (names used outside Link) *)
Definition to_members (qtok : Q -> str) (e : jext) : CS.obj := to_members_r qtok None e.

Lemma to_content_members qtok e : to_content qtok e = JObj (to_members qtok e).
Proof. reflexivity. Qed.

Lemma jassoc_base qtok e b :
  jassoc (name_of_base b) (to_members qtok e) = if has_base (hdr_of e) b then Some (base_jv e b) else None.
Proof. apply jassoc_base_r. Qed.

Lemma class_dict_to qtok e c :
  CS.class_dict (to_members qtok e) (name_of_cls c) =
  if has_base (hdr_of e) (base_of c) then Some (class_obj e c) else None.
Proof. apply class_dict_to_r. Qed.

