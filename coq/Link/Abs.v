(** The abstraction between the three representations of a DcmMeta extension:

      [Ext.Types.ext jv]      the working model of merge / split / simplify / lookup (header + per-key
                              (class, values); C03..C08, C13 and the validity notion [Ext.Spec.valid] of C07);
      raw content [jv]        the JSON dictionary on which [Content.Model.check_valid] (C10) and the JSON codec
                              (C09) are defined;
      [Cli.Model.mext jv]     what [nitool inject] consults (C19).

    [to_content e] is the content dictionary the library holds for [e] (DcmMetaExtension.make_empty 516-565 +
    one entry per key in its class dictionary), INCLUDING the key order of make_empty:
      'global', ['time'], ['vector'], 'dcmmeta_shape', 'dcmmeta_affine', 'dcmmeta_reorient_transform',
      'dcmmeta_slice_dim', 'dcmmeta_version';  inside a base dictionary 'const' | 'samples', then 'slices';
      inside a class dictionary the keys in the order of [entries e].
    * class dictionaries exist for exactly the base classes the header has ([has_time], [has_vec]; 'global'
      always); an entry whose base dictionary does not exist has nowhere to go and is dropped (never the
      case in a valid extension: [hdr_wf]);
    * a ('global','const') value is stored bare ([hd JNull] of the singleton), every other class stores the
      list of its values as a JSON list -- ALSO a varying class of multiplicity 1 (a 1-list).  The real code
      is inconsistent there (bare in _copy_slice and nitool inject, 1-list in _change_class); such entries are
      outside [nondegenerate], the domain of the whole Ext model;
    * 'dcmmeta_shape' = list of ints; 'dcmmeta_slice_dim' = int or null;
    * 'dcmmeta_affine' = 4x4 list of float tokens.  The affine of [hdr] is exact ([Q]); an entry is rendered
      as the opaque number token [qtok q] (Section variable standing for float.__repr__).  The theorems that
      need it assume, FOR THE ENTRIES OF THE EXTENSION AT HAND, that the tokens are lexically valid floats
      ([aff_toks_ok], for Json.wf) and that [tokq (qtok q) = Some q] ([aff_rt], for [of_content]); the
      executable instance [qtok_dec] / [tokq_dec] (exact decimal expansion) is Python's repr on dyadic
      rationals with at most 15 significant digits and magnitude in [1e-4, 1e16) or zero;
    * 'dcmmeta_reorient_transform': [hdr] has no such field (the extension algebra never reads it; Ext/Types.v is
      shared by everything).  The transform is carried BESIDE the extension: [to_content_r qtok reo e] renders
      [reo : option (list (list Q))] ([None] = null, [Some m] like the affine, same token treatment);
      [to_content qtok e := to_content_r qtok None e].  Conversions with a voxel order produce [Some m];
    * 'dcmmeta_version' = the generated [meta_version] token.

    [of_content c] is defined exactly when the header fields are well typed (shape: list of non-negative
    ints; affine: list of lists of number tokens that [tokq] reads, or ints; slice dim: null or a
    non-negative int), every class dictionary of a base dictionary that is present is a dictionary, every
    value under a varying class is a list, the 'global' dictionary exists, and each key sits in exactly one
    class dictionary, of a class that is valid for the shape.  No proofs in this file. *)
From Coq Require Import List Bool Arith NArith ZArith QArith Lia.
From DV Require Import Common.Res Common.Str Common.Jv Common.PyNum.
From DV Require Generated.T_content Content.PyVal Content.Model Content.Spec Json.Model Cli.Model.
From DV Require Import Ext.Types Ext.Classes Ext.Seq Ext.Model Ext.Spec Ext.Ops.
Import ListNotations.
Local Open Scope nat_scope.

Module PV := DV.Content.PyVal.
Module CM := DV.Content.Model.
Module CS := DV.Content.Spec.
Module JM := DV.Json.Model.
Module TC := DV.Generated.T_content.

Notation jext := (ext jv).
Notation entry := (key * (cls * list jv))%type.

(** "dcmmeta_reorient_transform" *)
Definition K_reorient : str :=
  [100; 99; 109; 109; 101; 116; 97; 95; 114; 101; 111; 114; 105; 101; 110; 116; 95; 116; 114; 97; 110; 115; 102; 111; 114; 109]%N.

(** * Pieces that do not depend on the float tokens *)

Definition nat_jv (n : nat) : jv := JInt (Z.of_nat n).
Definition shape_jv (sh : list nat) : jv := JArr (map nat_jv sh).
Definition sdim_jv (sd : option nat) : jv := match sd with None => JNull | Some d => nat_jv d end.
Definition version_jv : jv := JNum (fst TC.meta_version).

(** how a class stores the values of one key *)
Definition render (c : cls) (vs : list jv) : jv :=
  match c with GConst => hd JNull vs | _ => JArr vs end.
Definition unrender (c : cls) (v : jv) : option (list jv) :=
  match c with
  | GConst => Some [v]
  | _ => match v with JArr vs => Some vs | _ => None end
  end.

Definition class_entries (e : jext) (c : cls) : list entry :=
  filter (fun kv => cls_eqb (fst (snd kv)) c) (entries e).
Definition class_obj (e : jext) (c : cls) : CS.obj :=
  map (fun kv => (fst kv, render c (snd (snd kv)))) (class_entries e c).

(** the first sub-class of a base dictionary ('const' for 'global', 'samples' otherwise); the second is 'slices' *)
Definition first_sub (b : cbase) : cls :=
  match b with BGlobal => GConst | BTime => TSamples | BVector => VSamples end.

Definition base_jv (e : jext) (b : cbase) : jv :=
  JObj [(name_of_sub (sub_of (first_sub b)), JObj (class_obj e (first_sub b)));
        (name_of_sub SSlices, JObj (class_obj e (slices_of_base b)))].

Definition base_members (e : jext) : CS.obj :=
  (name_of_base BGlobal, base_jv e BGlobal)
  :: (if has_time (hdr_of e) then [(name_of_base BTime, base_jv e BTime)] else [])
  ++ (if has_vec (hdr_of e) then [(name_of_base BVector, base_jv e BVector)] else []).

(** option-valued map *)
Fixpoint omap {A B} (f : A -> option B) (l : list A) : option (list B) :=
  match l with
  | [] => Some []
  | x :: r => match f x, omap f r with Some y, Some ys => Some (y :: ys) | _, _ => None end
  end.

Definition nat_of_jv (v : jv) : option nat :=
  match v with JInt z => if (0 <=? z)%Z then Some (Z.to_nat z) else None | _ => None end.
Definition sdim_of_jv (v : jv) : option (option nat) :=
  match v with JNull => Some None | _ => option_map Some (nat_of_jv v) end.

Fixpoint dict_entries (c : cls) (d : CS.obj) : option (list entry) :=
  match d with
  | [] => Some []
  | (k, v) :: r => match unrender c v, dict_entries c r with
                   | Some vs, Some es => Some ((k, (c, vs)) :: es)
                   | _, _ => None
                   end
  end.

(** the entries of one classification; a base dictionary that is absent holds none *)
Definition class_entries_of (o : CS.obj) (c : cls) : option (list entry) :=
  match jassoc (name_of_base (base_of c)) o with
  | None => Some []
  | Some (JObj bo) => match jassoc (name_of_sub (sub_of c)) bo with
                      | Some (JObj d) => dict_entries c d
                      | _ => None
                      end
  | Some _ => None
  end.

Fixpoint all_entries_of (o : CS.obj) (cs : list cls) : option (list entry) :=
  match cs with
  | [] => Some []
  | c :: r => match class_entries_of o c, all_entries_of o r with
              | Some a, Some b => Some (a ++ b)
              | _, _ => None
              end
  end.

Section WithTok.
  Variable qtok : Q -> str.            (* float.__repr__ of an affine entry *)
  Variable tokq : str -> option Q.     (* the exact value of float(token) *)

  Definition row_jv (r : list Q) : jv := JArr (map (fun q => JNum (qtok q)) r).
  Definition aff_jv (a : list (list Q)) : jv := JArr (map row_jv a).

  (** the reorientation transform of a conversion with a voxel order: not part of [hdr] (the extension algebra never
      reads it), carried beside the extension; [None] = null *)
  Definition reo_jv (reo : option (list (list Q))) : jv :=
    match reo with None => JNull | Some m => aff_jv m end.

  Definition header_members_r (reo : option (list (list Q))) (h : hdr) : CS.obj :=
    [(PV.K_shape, shape_jv (shape h)); (PV.K_affine, aff_jv (aff h)); (K_reorient, reo_jv reo);
     (PV.K_slice_dim, sdim_jv (sdim h)); (PV.K_version, version_jv)].

  (** the content of the extension [e] whose reorientation transform is [reo] *)
  Definition to_content_r (reo : option (list (list Q))) (e : jext) : jv :=
    JObj (base_members e ++ header_members_r reo (hdr_of e)).

  (** without a transform (everything but conversions with a voxel order) *)
  Definition header_members (h : hdr) : CS.obj := header_members_r None h.
  Definition to_content (e : jext) : jv := to_content_r None e.

  Definition q_of_jv (v : jv) : option Q :=
    match v with JNum t => tokq t | JInt z => Some (inject_Z z) | _ => None end.
  Definition row_of_jv (v : jv) : option (list Q) :=
    match v with JArr l => omap q_of_jv l | _ => None end.

  Definition of_content (c : jv) : option jext :=
    match c with
    | JObj o =>
        match jassoc PV.K_shape o, jassoc PV.K_affine o, jassoc PV.K_slice_dim o with
        | Some (JArr shv), Some (JArr rows), Some sdv =>
            match omap nat_of_jv shv, omap row_of_jv rows, sdim_of_jv sdv, all_entries_of o all_classes with
            | Some sh, Some a, Some sd, Some es =>
                if PV.has_key (name_of_base BGlobal) o && nodup_keys (map fst es)
                   && forallb (fun kv : entry => class_ok sh (fst (snd kv))) es
                then Some (mk_ext (mk_hdr sh sd a (PV.has_key (name_of_base BTime) o) (PV.has_key (name_of_base BVector) o)) es)
                else None
            | _, _, _, _ => None
            end
        | _, _, _ => None
        end
    | _ => None
    end.

  (** the transform a content records ([Some None]: null or, for version 0.5, no such field) *)
  Definition reo_of_content (c : jv) : option (option (list (list Q))) :=
    match c with
    | JObj o => match jassoc K_reorient o with
                | None | Some JNull => Some None
                | Some (JArr rows) => option_map Some (omap row_of_jv rows)
                | Some _ => None
                end
    | _ => None
    end.

  (** the extents are positive ints, the affine and the slice dimension are readable; and, beyond the header, what
      a dict is: every base / class dictionary that is present is a dictionary, with distinct member names, and holds
      a list under every varying class *)
  Definition typed (c : jv) : Prop :=
    match c with
    | JObj o =>
        (exists sh, jassoc PV.K_shape o = Some (shape_jv sh) /\ Forall (fun n => 1 <= n) sh) /\
        (exists rows a, jassoc PV.K_affine o = Some (JArr rows) /\ omap row_of_jv rows = Some a) /\
        (exists sdv sd, jassoc PV.K_slice_dim o = Some sdv /\ sdim_of_jv sdv = Some sd) /\
        (forall c, CS.class_entry_ok o (name_of_cls c) = true) /\
        (forall c d, CS.class_dict o (name_of_cls c) = Some d ->
                     NoDup (map fst d) /\ (c <> GConst -> forall k v, In (k, v) d -> exists vs, v = JArr vs))
    | _ => False
    end.

  (** the token hypotheses, for the affine of one header *)
  Definition aff_toks_ok (h : hdr) : bool := forallb (forallb (fun q => JM.float_tok (qtok q))) (aff h).
  Definition aff_rt (h : hdr) : Prop := Forall (Forall (fun q => tokq (qtok q) = Some q)) (aff h).
  (** ... and for a reorientation transform *)
  Definition reo_toks_ok (reo : option (list (list Q))) : bool :=
    match reo with None => true | Some m => forallb (forallb (fun q => JM.float_tok (qtok q))) m end.
  Definition reo_rt (reo : option (list (list Q))) : Prop :=
    match reo with None => True | Some m => Forall (Forall (fun q => tokq (qtok q) = Some q)) m end.
End WithTok.

(** dictionaries of classifications that are not valid for the recorded shape are dropped (check_valid never reads
    them; the abstraction cannot hold their keys) *)
Definition prune_stale (c : jv) : jv :=
  match c with
  | JObj o =>
      match jassoc PV.K_shape o with
      | Some (JArr shv) =>
          match omap nat_of_jv shv with
          | Some sh =>
              JObj (filter (fun kv : str * jv =>
                              negb ((str_eqb (fst kv) (name_of_base BTime) && negb (class_ok sh TSamples))
                                    || (str_eqb (fst kv) (name_of_base BVector) && negb (class_ok sh VSamples)))) o)
          | None => c
          end
      | _ => c
      end
  | _ => c
  end.

(** * What [to_content] keeps: the extensions that ARE the reading of a content dictionary *)

(** every entry has a base dictionary to live in, constants are singletons, and the keys of one class are
    distinct (a class dictionary is a dict) *)
Definition storable (e : jext) : Prop :=
  (forall k c vs, In (k, (c, vs)) (entries e) -> has_base (hdr_of e) (base_of c) = true) /\
  (forall k vs, In (k, (GConst, vs)) (entries e) -> length vs = 1) /\
  (forall c, NoDup (map fst (class_entries e c))).

(** JSON well-formedness of the keys and values of an extension (strings of Unicode scalar values, float
    tokens of the JSON grammar, distinct member names inside values) *)
Definition ext_wf_json (e : jext) : bool :=
  forallb (fun kv : entry => forallb JM.scalar (fst kv) && forallb JM.wfb (snd (snd kv))) (entries e).

(** * The executable float tokens: exact decimal expansion *)

Fixpoint frac_digits (fuel : nat) (r d : Z) : str :=
  match fuel with
  | O => []
  | S f => if (r =? 0)%Z then [] else N.add 48 (Z.to_N (10 * r / d)) :: frac_digits f ((10 * r) mod d) d
  end.

Definition qtok_dec (q : Q) : str :=
  let n := Qnum q in
  let d := Zpos (Qden q) in
  let a := Z.abs n in
  let fr := frac_digits 80 (a mod d) d in
  (if (n <? 0)%Z then [45%N] else []) ++ JM.print_int (a / d) ++ 46%N :: (match fr with [] => [48%N] | _ => fr end).

(** digits -> (numerator, number of digits) *)
Fixpoint dec_val (acc : Z) (s : str) : option Z :=
  match s with
  | [] => Some acc
  | c :: r => if JM.is_digit c then dec_val (10 * acc + Z.of_N (c - 48)) r else None
  end.
Fixpoint split_dot (s : str) : str * option str :=
  match s with
  | [] => ([], None)
  | c :: r => if N.eqb c 46 then ([], Some r) else let (a, b) := split_dot r in (c :: a, b)
  end.
(** plain decimals only: [-]digits[.digits] *)
Definition tokq_dec (t : str) : option Q :=
  let (neg, body) := match t with c :: r => if N.eqb c 45 then (true, r) else (false, t) | [] => (false, t) end in
  let (ip, fr) := split_dot body in
  match ip, fr with
  | _ :: _, Some f =>
      match dec_val 0 (ip ++ f) with
      | Some n => Some (Qred ((if neg then - n else n)%Z # Pos.pow 10 (Pos.of_nat (length f))))
      | None => None
      end
  | _, _ => None
  end.

(** * The command-line view ([Cli.Model.mext]) of an extension *)

Definition view (e : jext) : Cli.Model.mext jv :=
  {| Cli.Model.x_valid := map name_of_cls (valid_classes (hdr_of e));
     Cli.Model.x_mult := fun cn => match cls_of_name cn with
                                   | Some c => match multiplicity (hdr_of e) c with Ok m => m | Err _ => 0 end
                                   | None => 0
                                   end;
     Cli.Model.x_dict := fun cn => match cls_of_name cn with Some c => class_obj e c | None => [] end |}.

Section Stored.
  Variable ftok : fval -> str.         (* float.__repr__ of a converted command-line value *)

  Definition ival_jv (v : Cli.Model.ival) : jv :=
    match v with
    | Cli.Model.IVInt z => JInt z
    | Cli.Model.IVFloat f => JNum (ftok f)
    | Cli.Model.IVStr s => JStr s
    end.
  (** what [nitool inject] stores: a single value bare, several as a list *)
  Definition stored_jv (s : Cli.Model.stored) : jv :=
    match s with Cli.Model.SScalar v => ival_jv v | Cli.Model.SList l => JArr (map ival_jv l) end.
  (** the same values as the value list of the Ext model *)
  Definition stored_values (s : Cli.Model.stored) : list jv :=
    match s with Cli.Model.SScalar v => [ival_jv v] | Cli.Model.SList l => map ival_jv l end.
End Stored.

Definition mext_eq (a b : Cli.Model.mext jv) : Prop :=
  Cli.Model.x_valid a = Cli.Model.x_valid b /\
  (forall c, Cli.Model.x_mult a c = Cli.Model.x_mult b c) /\
  (forall c, Cli.Model.x_dict a c = Cli.Model.x_dict b c).

(** [json.loads] as the [parse] argument of [Content.Model.from_json] *)
Definition parse_res (s : str) : res jv :=
  match JM.parse s with Some j => Ok j | None => Err EValue end.
