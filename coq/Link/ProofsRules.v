(** Link, part 8: [Ext.Spec.valid] of the working model IS the literal reading of the format rules of C10
    ([Content.Rules.valid_rules]: positive extents, an affine of numbers, exactly `multiplicity` values AS A LIST
    for every varying class -- multiplicity one included --, no key in two of the six class dictionaries) on the
    content of the extension:

      [valid_rules_to]     valid e -> valid_rules (to_content e) = true
      [rules_valid_to]     valid_rules (to_content e) = true -> valid e     (e storable, tight base dictionaries)

    so the provisos "positive extents" and "nondegenerate" of the check_valid versions disappear: they were the
    blind spots of check_valid, not of the rules. *)
From Coq Require Import List Bool Arith NArith ZArith QArith Lia.
From DV Require Import Common.Res Common.Str Common.Jv.
From DV Require Generated.T_content Content.PyVal Content.Model Content.Spec Content.Rules Content.ProofsBasic
     Content.ProofsClasses Content.ProofsLoops Content.ProofsMain Content.ProofsRules.
From DV Require Import Ext.Types Ext.Classes Ext.Seq Ext.Model Ext.Spec Ext.TableFacts Ext.ValidFacts
     Ext.ProofsValidBase Ext.ProofsSimplifyCanon.
From DV Require Import Link.Abs Link.ProofsNames Link.ProofsReps Link.ProofsTo.
Import ListNotations.
Local Open Scope nat_scope.

Module CR := DV.Content.Rules.
Module CPR := DV.Content.ProofsRules.

(** * Generic in the content *)

Lemma reps_lit o e :
  reps o e -> valid e -> CR.lit_shape o = true /\ CR.lit_counts o = true /\ CR.lit_unique o = true.
Proof.
  intros R [Hh [Hnd Hent]]. pose proof (hdr_wf_shape_wf _ Hh) as Hwf.
  destruct Hh as [Hn [Hp [Hsd _]]]. unfold ndim in Hn.
  pose proof (shape_value_reps _ _ R) as Hshape.
  pose proof (sdv_some o _ (rp_sdim _ _ R) Hsd) as Hsdv.
  split; [|split].
  - unfold CR.lit_shape. rewrite Hshape, map_length. rewrite !andb_true_iff. split; [split; apply Nat.leb_le; lia|].
    apply forallb_forall. intros v Hv. apply in_map_iff in Hv as [n [<- Hin]]. rewrite Forall_forall in Hp.
    specialize (Hp n Hin). unfold nat_jv, CR.pos_entry. apply Z.leb_le. lia.
  - unfold CR.lit_counts. rewrite Hshape, Hsdv. apply forallb_forall. intros cl Hcl.
    apply (in_vcs _ _ Hn) in Hcl as [c [-> Hc]]. rewrite decode_name.
    destruct (CS.class_dict o (name_of_cls c)) as [d|] eqn:Ed; [|reflexivity].
    destruct (cs_sub (sub_of c)) eqn:Es; [reflexivity | |]; cbv zeta;
      (destruct (1 <=? _)%Z eqn:E1; [|reflexivity]; apply forallb_forall; intros [k v] Hkv;
       apply (rp_ent _ _ R c d Ed) in Hkv as [vs [Hin ->]]; destruct (Hent _ _ _ Hin) as [_ [Hsl Hlen]];
       rewrite <- Es, (n_expected_mult _ c _ eq_refl Hsl); cbn [snd];
       destruct c; try discriminate Es; cbn [render CR.is_list_of]; rewrite Hlen; apply Z.eqb_refl).
  - unfold CR.lit_unique.
    apply (CL.unique_iff o _ CPC.classifications_nodup).
    intros c1 c2 H1 H2 Hne. rewrite classifications_names in H1, H2.
    apply in_map_iff in H1 as [a [<- _]]. apply in_map_iff in H2 as [b [<- _]].
    unfold CL.disjoint_pair. destruct (CM.intersects _ _) eqn:Ei; [|reflexivity]. exfalso.
    apply CL.intersects_true in Ei as [k [Hk1 Hk2]]. unfold CS.class_keys_spec in Hk1, Hk2.
    destruct (CS.class_dict o (name_of_cls a)) as [d1|] eqn:E1; [|destruct Hk1].
    destruct (CS.class_dict o (name_of_cls b)) as [d2|] eqn:E2; [|destruct Hk2].
    apply in_map_iff in Hk1 as [[k1 v1] [Hk1 Hin1]]. apply in_map_iff in Hk2 as [[k2 v2] [Hk2 Hin2]].
    cbn [fst] in Hk1, Hk2. subst k1 k2.
    apply (rp_ent _ _ R a d1 E1) in Hin1 as [vs1 [Hin1 _]]. apply (rp_ent _ _ R b d2 E2) in Hin2 as [vs2 [Hin2 _]].
    pose proof (In_lookup e _ _ Hnd Hin1) as L1. pose proof (In_lookup e _ _ Hnd Hin2) as L2.
    rewrite L1 in L2. injection L2 as -> _. apply Hne. reflexivity.
Qed.

(** the literal rules give what the check_valid route had to assume *)
Lemma reps_valid_lit o e :
  reps o e -> CR.valid_rules (JObj o) = true ->
  NoDup (keys_e e) ->
  (forall k c vs, In (k, (c, vs)) (entries e) -> class_ok (shape (hdr_of e)) c = true) ->
  (forall k vs, In (k, (GConst, vs)) (entries e) -> length vs = 1) ->
  valid e.
Proof.
  intros R Hr Hnd Hcok Hconst. pose proof (CPR.rules_accept_spec _ Hr) as Hv.
  apply CPR.valid_rules_clauses in Hr as [_ [_ [R3 [L4 [R5 [L6 _]]]]]].
  pose proof (shape_value_reps _ _ R) as Hshape.
  assert (Hp : Forall (fun n => 1 <= n) (shape (hdr_of e))).
  { unfold CR.lit_shape in L4. rewrite Hshape in L4. apply andb_true_iff in L4 as [_ L4].
    rewrite forallb_forall in L4. apply Forall_forall. intros n Hn.
    specialize (L4 (nat_jv n) (in_map _ _ _ Hn)). unfold nat_jv, CR.pos_entry in L4. apply Z.leb_le in L4. lia. }
  assert (Hn : 3 <= length (shape (hdr_of e)) <= 5).
  { unfold CR.lit_shape in L4. rewrite Hshape, map_length in L4. rewrite !andb_true_iff in L4.
    destruct L4 as [[A B] _]. apply Nat.leb_le in A, B. lia. }
  assert (Hsdv : exists x, CS.slice_dim_value o = Some x).
  { unfold CS.rule_slice_dim in R3. destruct (CS.slice_dim_value o) as [x|]; [exists x; reflexivity | discriminate]. }
  destruct Hsdv as [x Hsdv]. destruct (sdv_inv o _ x (rp_sdim _ _ R) Hsdv) as [-> Hsd].
  apply (reps_valid_gen o e R Hv Hp Hnd Hcok Hconst).
  intros k c vs Hin Hc Hsl Hm.
  pose proof (Hcok _ _ _ Hin) as Hok.
  assert (Hvc : In (name_of_cls c) (CS.valid_classes_spec (map nat_jv (shape (hdr_of e)))))
    by (apply (in_vcs _ _ Hn); exists c; split; [reflexivity | exact Hok]).
  unfold CS.rule_class_dicts in R5. rewrite Hshape in R5. rewrite forallb_forall in R5. specialize (R5 _ Hvc).
  destruct (CS.class_dict o (name_of_cls c)) as [d|] eqn:Ed; [|discriminate R5].
  assert (Hkv : In (k, render c vs) d) by (apply (rp_ent _ _ R c d Ed); exists vs; split; [exact Hin | reflexivity]).
  unfold CR.lit_counts in L6. rewrite Hshape, Hsdv in L6. rewrite forallb_forall in L6. specialize (L6 _ Hvc).
  rewrite decode_name, Ed in L6.
  assert (Hne : CS.n_expected (map nat_jv (shape (hdr_of e))) (sdim (hdr_of e)) (cs_base (base_of c)) (cs_sub (sub_of c)) = 1%Z)
    by (rewrite (n_expected_mult _ c _ eq_refl Hsl), Hm; reflexivity).
  destruct c; try contradiction; cbn [sub_of cs_sub] in L6, Hne; cbv zeta in L6; rewrite Hne in L6; cbn [Z.leb Z.compare Pos.compare Pos.compare_cont] in L6;
    rewrite forallb_forall in L6; specialize (L6 _ Hkv); cbn [snd render CR.is_list_of] in L6; apply Z.eqb_eq in L6; lia.
Qed.

Section WithTok.
  Variable qtok : Q -> str.
  Variable reo : option (list (list Q)).

  Lemma affine_numbers_to e : CR.affine_numbers (to_members_r qtok reo e) = true.
  Proof.
    unfold CR.affine_numbers. rewrite jassoc_affine. unfold aff_jv. apply forallb_forall. intros r Hr.
    apply in_map_iff in Hr as [r0 [<- _]]. unfold row_jv, CR.row_numbers. apply forallb_forall. intros v Hv.
    apply in_map_iff in Hv as [q [<- _]]. reflexivity.
  Qed.

  Theorem valid_rules_to e : valid e -> CR.valid_rules (to_content_r qtok reo e) = true.
  Proof.
    intros Hv. rewrite to_content_members_r. pose proof (reps_to_content qtok reo e) as R.
    destruct (reps_rules _ _ R Hv) as [R2 [R3 [R4 [R5 [R6 [R7 R8]]]]]].
    destruct (reps_lit _ _ R Hv) as [L4 [L6 L8]].
    apply CPR.valid_rules_clauses. repeat split; try assumption.
    - apply rule_required_to.
    - unfold CR.lit_affine. rewrite R2, affine_numbers_to. reflexivity.
  Qed.

  Theorem rules_valid_to e :
    storable e -> hdr_tight (hdr_of e) -> CR.valid_rules (to_content_r qtok reo e) = true -> valid e.
  Proof.
    intros Hst Ht Hr. rewrite to_content_members_r in Hr. pose proof (reps_to_content qtok reo e) as R.
    assert (Hcok : forall k c vs, In (k, (c, vs)) (entries e) -> class_ok (shape (hdr_of e)) c = true).
    { intros k c vs Hin. rewrite <- (Ht c). apply (proj1 Hst _ _ _ Hin). }
    apply (reps_valid_lit _ e R Hr); [|exact Hcok|apply Hst].
    apply (to_content_nodup qtok reo e Hst Hcok). apply CPR.rules_accept_spec. exact Hr.
  Qed.

  (** on the readings of content dictionaries with tight base dictionaries, validity of the working model and the
      literal format rules coincide *)
  Theorem valid_iff_rules e :
    storable e -> hdr_tight (hdr_of e) -> (valid e <-> CR.valid_rules (to_content_r qtok reo e) = true).
  Proof. intros Hst Ht. split; [apply valid_rules_to | apply (rules_valid_to e Hst Ht)]. Qed.
End WithTok.
