(** Link, part 6: C07 x C09 x C10 composed.
      [serialisable]            a valid extension can be written ([to_json] instantiated with the REAL
                                [Content.check_valid]) and, when its keys / values / affine tokens are JSON
                                well formed, the text loads back to the very same content;
      [closure_serialisable]    the same for the result of every finite history of operations (Ext.Ops.run);
      [from_json_models_agree]  the two models of DcmMetaExtension.from_json (Content/Model.v with json.loads
                                as a parameter, Json/Model.v with the check as a parameter) are one function. *)
From Coq Require Import List Bool Arith NArith ZArith QArith Lia.
From DV Require Import Common.Res Common.Str Common.Jv.
From DV Require Content.Model Content.Spec Json.Model Json.ProofsCodec Json.ProofsStruct.
From DV Require Import Ext.Types Ext.Classes Ext.Seq Ext.Model Ext.Spec Ext.ValidFacts Ext.ProofsValidBase
     Ext.Ops Ext.ProofsValidOps.
From DV Require Import Link.Abs Link.ProofsNames Link.ProofsReps Link.ProofsTo Link.ProofsOf.
Import ListNotations.
Local Open Scope nat_scope.

Module JS := DV.Json.ProofsStruct.

Lemma from_json_models_agree s : CM.from_json parse_res s = JM.from_json CM.check_valid s.
Proof.
  unfold CM.from_json, JM.from_json, parse_res. destruct (JM.parse s) as [j|]; [|reflexivity]. cbn [bind].
  destruct (CM.check_valid j) as [[]|]; reflexivity.
Qed.

Lemma from_runtime_repr_models_agree c : CM.from_runtime_repr c = JM.from_runtime_repr CM.check_valid c.
Proof. unfold CM.from_runtime_repr, JM.from_runtime_repr. destruct (CM.check_valid c) as [[]|]; reflexivity. Qed.

Section WithTok.
  Variable qtok : Q -> str.

  (** every valid extension can be serialised; the text is the printed content *)
  Theorem to_json_valid e :
    valid e -> JM.to_json CM.check_valid (to_content qtok e) = Ok (JM.print (to_content qtok e)).
  Proof. intros Hv. unfold JM.to_json. rewrite (proj1 (valid_to_content qtok e Hv)). reflexivity. Qed.

  Theorem serialisable e :
    valid e ->
    exists s, JM.to_json CM.check_valid (to_content qtok e) = Ok s /\
              (ext_wf_json e = true -> aff_toks_ok qtok (hdr_of e) = true ->
               JM.from_json CM.check_valid s = Ok (to_content qtok e)).
  Proof.
    intros Hv. exists (JM.print (to_content qtok e)). split; [apply to_json_valid; exact Hv|].
    intros Hwf Ha. apply (JS.from_to CM.check_valid); [|apply to_json_valid; exact Hv].
    apply wf_to_content; [apply Hv | exact Hwf | exact Ha].
  Qed.

  (** every extension produced by a history of operations (each used inside its precondition) can be written,
      and reloads to itself when its keys / values / affine tokens are JSON well formed *)
  Theorem closure_serialisable (veqb : jv -> jv -> bool) (vnone : jv) :
    (forall v, veqb v v = true) ->
    forall (ops : list (op jv)) (e r : jext),
      valid e -> nondegenerate e -> ops_dom veqb vnone ops e -> run veqb vnone ops e = Ok r ->
      valid r /\ nondegenerate r /\
      CM.check_valid (to_content qtok r) = Ok tt /\
      exists s, JM.to_json CM.check_valid (to_content qtok r) = Ok s /\
                (ext_wf_json r = true -> aff_toks_ok qtok (hdr_of r) = true ->
                 JM.from_json CM.check_valid s = Ok (to_content qtok r)).
  Proof.
    intros Hrefl ops e r Hv Hn Hd Hrun.
    destruct (run_valid veqb vnone Hrefl ops e r Hv Hn Hd Hrun) as [Hv' Hn'].
    split; [exact Hv'|]. split; [exact Hn'|]. split; [apply (valid_to_content qtok r Hv')|].
    apply serialisable. exact Hv'.
  Qed.
End WithTok.
