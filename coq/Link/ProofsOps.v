(** Link, part 6: C07 x C09 x C10 composed.
      [serialisable]            a valid extension can be written ([to_json] instantiated with the REAL
                                [Content.check_valid]) and, when its keys / values / affine tokens are JSON
                                well formed, the text loads back to the very same content;
      [closure_serialisable]    the same for the result of every finite history of operations (Ext.Ops.run);
      [from_json_models_agree]  the two models of DcmMetaExtension.from_json (Content/Model.v with json.loads
                                as a parameter, Json/Model.v with the check as a parameter) are one function. *)
From Coq Require Import List Bool Arith NArith ZArith QArith Lia.
From DV Require Import Common.Res Common.Str Common.Jv.
From DV Require Content.Model Content.Spec Json.Model Json.ProofsCodec Json.ProofsStruct.
From DV Require Import Ext.Types Ext.Classes Ext.Seq Ext.Model Ext.Spec Ext.ValidFacts Ext.ProofsValidBase
     Ext.Ops Ext.ProofsValidOps.
From DV Require Import Link.Abs Link.ProofsNames Link.ProofsReps Link.ProofsTo Link.ProofsOf Link.ProofsProv.
Import ListNotations.
Local Open Scope nat_scope.

Module JS := DV.Json.ProofsStruct.

Lemma from_json_models_agree s : CM.from_json parse_res s = JM.from_json CM.check_valid s.
Proof.
  unfold CM.from_json, JM.from_json, parse_res. destruct (JM.parse s) as [j|]; [|reflexivity]. cbn [bind].
  destruct (CM.check_valid j) as [[]|]; reflexivity.
Qed.

Lemma from_runtime_repr_models_agree c : CM.from_runtime_repr c = JM.from_runtime_repr CM.check_valid c.
Proof. unfold CM.from_runtime_repr, JM.from_runtime_repr. destruct (CM.check_valid c) as [[]|]; reflexivity. Qed.

Section WithTok.
  Variable qtok : Q -> str.
  Variable reo : option (list (list Q)).

  (** every valid extension can be serialised; the text is the printed content *)
  Theorem to_json_valid e :
    valid e -> JM.to_json CM.check_valid (to_content_r qtok reo e) = Ok (JM.print (to_content_r qtok reo e)).
  Proof. intros Hv. unfold JM.to_json. rewrite (proj1 (valid_to_content qtok reo e Hv)). reflexivity. Qed.

  Theorem serialisable e :
    valid e ->
    exists s, JM.to_json CM.check_valid (to_content_r qtok reo e) = Ok s /\
              (ext_wf_json e = true -> aff_toks_ok qtok (hdr_of e) = true -> reo_toks_ok qtok reo = true ->
               JM.from_json CM.check_valid s = Ok (to_content_r qtok reo e)).
  Proof.
    intros Hv. exists (JM.print (to_content_r qtok reo e)). split; [apply to_json_valid; exact Hv|].
    intros Hwf Ha Hr. apply (JS.from_to CM.check_valid); [|apply to_json_valid; exact Hv].
    apply wf_to_content; [apply Hv | exact Hwf | exact Ha | exact Hr].
  Qed.

  (** every extension produced by a history of operations (each used inside its precondition) can be written,
      and reloads to itself when its keys / values / affine tokens are JSON well formed *)
  Theorem closure_serialisable (veqb : jv -> jv -> bool) (vnone : jv) :
    (forall v, veqb v v = true) ->
    forall (ops : list (op jv)) (e r : jext),
      valid e -> nondegenerate e -> ops_dom veqb vnone ops e -> run veqb vnone ops e = Ok r ->
      valid r /\ nondegenerate r /\
      CM.check_valid (to_content_r qtok reo r) = Ok tt /\
      exists s, JM.to_json CM.check_valid (to_content_r qtok reo r) = Ok s /\
                (ext_wf_json r = true -> aff_toks_ok qtok (hdr_of r) = true -> reo_toks_ok qtok reo = true ->
                 JM.from_json CM.check_valid s = Ok (to_content_r qtok reo r)).
  Proof.
    intros Hrefl ops e r Hv Hn Hd Hrun.
    destruct (run_valid veqb vnone Hrefl ops e r Hv Hn Hd Hrun) as [Hv' Hn'].
    split; [exact Hv'|]. split; [exact Hn'|]. split; [apply (valid_to_content qtok reo r Hv')|].
    apply serialisable. exact Hv'.
  Qed.

  (** ** With provenance: nothing that is not JSON well formed can get into a result *)

  Definition wf_value (v : jv) : Prop := JM.wfb v = true.
  Definition wf_key (k : key) : Prop := forallb JM.scalar k = true.
  Definition wf_aff (a : list (list Q)) : Prop := forallb (forallb (fun q => JM.float_tok (qtok q))) a = true.

  (** keys / values / affine tokens of an extension are JSON well formed *)
  Definition jsonable (e : jext) : Prop := ext_wf_json e = true /\ aff_toks_ok qtok (hdr_of e) = true.
  (** ... and so is everything the operations of a history bring in from outside: the partners and affine argument
      of a merge, the key and values of an inject *)
  Definition ops_jsonable (ops : list (op jv)) : Prop := ops_ok wf_value wf_key wf_aff ops.

  Lemma jsonable_inv e : jsonable e <-> inv wf_value wf_key wf_aff e.
  Proof.
    unfold jsonable, inv, eP, eQ, ext_wf_json, aff_toks_ok, wf_aff, wf_value, wf_key. rewrite forallb_forall, !Forall_forall. split.
    - intros [H Ha]. split; [|split; [|exact Ha]]; intros x Hx; specialize (H x Hx); apply andb_true_iff in H as [H1 H2].
      + apply Forall_forall. rewrite forallb_forall in H2. exact H2.
      + exact H1.
    - intros [Hp [Hq Ha]]. split; [|exact Ha]. intros x Hx. apply andb_true_iff. split; [apply (Hq x Hx)|].
      apply forallb_forall. specialize (Hp x Hx). rewrite Forall_forall in Hp. exact Hp.
  Qed.

  Theorem run_jsonable (veqb : jv -> jv -> bool) (ops : list (op jv)) (e r : jext) :
    run veqb JNull ops e = Ok r -> jsonable e -> ops_jsonable ops -> jsonable r.
  Proof.
    intros H He Ho. apply jsonable_inv. apply (run_inv veqb JNull wf_value wf_key wf_aff eq_refl ops e r H); [|exact Ho].
    apply jsonable_inv. exact He.
  Qed.

  (** EVERY extension produced by a history of operations from JSON-well-formed material is valid, passes
      check_valid, is written by to_json and read back by from_json to the very same content *)
  Theorem closure_reloads (veqb : jv -> jv -> bool) :
    (forall v, veqb v v = true) ->
    forall (ops : list (op jv)) (e r : jext),
      valid e -> nondegenerate e -> ops_dom veqb JNull ops e -> jsonable e -> ops_jsonable ops ->
      reo_toks_ok qtok reo = true ->
      run veqb JNull ops e = Ok r ->
      valid r /\ nondegenerate r /\ jsonable r /\
      JM.to_json CM.check_valid (to_content_r qtok reo r) = Ok (JM.print (to_content_r qtok reo r)) /\
      JM.from_json CM.check_valid (JM.print (to_content_r qtok reo r)) = Ok (to_content_r qtok reo r).
  Proof.
    intros Hrefl ops e r Hv Hn Hd Hj Ho Hreo Hrun.
    destruct (run_valid veqb JNull Hrefl ops e r Hv Hn Hd Hrun) as [Hv' Hn'].
    pose proof (run_jsonable veqb ops e r Hrun Hj Ho) as [Hw Ha].
    split; [exact Hv'|]. split; [exact Hn'|]. split; [split; assumption|].
    split; [apply to_json_valid; exact Hv'|].
    apply (JS.from_to CM.check_valid); [|apply to_json_valid; exact Hv'].
    apply wf_to_content; [apply Hv' | exact Hw | exact Ha | exact Hreo].
  Qed.
End WithTok.
