(** Link, part 11: the third blind spot of check_valid seen from the abstraction.  A content the gates accept may
    hold keys in dictionaries of classifications that are NOT valid for its shape (stale dictionaries, N14b); such a
    content has no abstraction ([of_content = None]).  Dropping those dictionaries ([prune_stale], which changes
    nothing check_valid reads) always gives one: accepted + typed => the pruned content abstracts. *)
From Coq Require Import List Bool Arith NArith ZArith QArith Lia.
From DV Require Import Common.Res Common.Str Common.Jv.
From DV Require Generated.T_content Content.PyVal Content.Model Content.Spec Content.ProofsBasic
     Content.ProofsClasses Content.ProofsLoops Content.ProofsMain.
From DV Require Import Ext.Types Ext.Classes Ext.Seq Ext.Model Ext.Spec Ext.TableFacts Ext.ValidFacts Ext.ProofsValidBase.
From DV Require Import Link.Abs Link.ProofsNames Link.ProofsReps Link.ProofsTo Link.ProofsOf.
Import ListNotations.
Local Open Scope nat_scope.

Lemma jassoc_filter_key (g : str -> bool) k (o : CS.obj) :
  jassoc k (filter (fun kv : str * jv => g (fst kv)) o) = if g k then jassoc k o else None.
Proof.
  induction o as [|[k' v] o IH]; cbn [filter jassoc fst]; [destruct (g k); reflexivity|].
  destruct (g k') eqn:Eg; cbn [jassoc]; destruct (str_eqb k k') eqn:Ek.
  - apply str_eqb_eq in Ek. subst k'. rewrite Eg. reflexivity.
  - exact IH.
  - apply str_eqb_eq in Ek. subst k'. rewrite IH, Eg. reflexivity.
  - exact IH.
Qed.

Lemma dict_entries_some c (d : CS.obj) :
  (c <> GConst -> forall k v, In (k, v) d -> exists vs, v = JArr vs) -> exists es, dict_entries c d = Some es.
Proof.
  induction d as [|[k v] d IH]; intros H; [exists []; reflexivity|]. cbn [dict_entries].
  destruct IH as [es Hes]; [intros Hc k' v' Hin; apply (H Hc k' v'); right; exact Hin|]. rewrite Hes.
  destruct (cls_eqb_spec c GConst) as [->|Hc]; [eexists; reflexivity|].
  destruct (H Hc k v (or_introl eq_refl)) as [vs ->]. destruct c; try contradiction; eexists; reflexivity.
Qed.

Lemma all_entries_of_some (o : CS.obj) cs :
  (forall c, In c cs -> exists ec, class_entries_of o c = Some ec) -> exists es, all_entries_of o cs = Some es.
Proof.
  induction cs as [|c cs IH]; intros H; [exists []; reflexivity|]. cbn [all_entries_of].
  destruct (H c (or_introl eq_refl)) as [ec ->]. destruct IH as [es ->]; [intros c' Hc'; apply H; right; exact Hc'|].
  eexists. reflexivity.
Qed.

Lemma all_entries_NoDup (o : CS.obj) cs : forall es,
  all_entries_of o cs = Some es -> NoDup cs ->
  (forall c ec, class_entries_of o c = Some ec -> NoDup (map fst ec)) ->
  (forall c1 c2 ec1 ec2 k, c1 <> c2 -> class_entries_of o c1 = Some ec1 -> class_entries_of o c2 = Some ec2 ->
                           In k (map fst ec1) -> In k (map fst ec2) -> False) ->
  NoDup (map fst es).
Proof.
  induction cs as [|c cs IH]; intros es H Hcs Hin Hx; cbn [all_entries_of] in H.
  - injection H as <-. constructor.
  - destruct (class_entries_of o c) as [a|] eqn:Ea; [|discriminate].
    destruct (all_entries_of o cs) as [b|] eqn:Eb; [|discriminate]. injection H as <-.
    inversion Hcs as [|? ? Hn Hcs']; subst. rewrite map_app. apply NoDup_app_intro.
    + apply (Hin c a Ea).
    + apply (IH b eq_refl Hcs' Hin Hx).
    + intros k Ha Hb. apply in_map_iff in Hb as [x [Hk Hx']]. subst k.
      destruct (all_entries_of_spec o cs b Eb) as [_ Hspec]. apply Hspec in Hx' as [c' [ec [Hc' [He Hx']]]].
      apply (Hx c c' a ec (fst x)); [intros ->; contradiction | exact Ea | exact He | exact Ha|].
      apply in_map_iff. exists x. split; [reflexivity | exact Hx'].
Qed.

Lemma class_ok_base sh c c' : base_of c = base_of c' -> class_ok sh c = class_ok sh c'.
Proof. intros H. unfold class_ok. rewrite H. reflexivity. Qed.

Section WithTok.
  Variable tokq : str -> option Q.

  Theorem prune_abstracts c :
    CM.check_valid c = Ok tt -> typed tokq c -> exists e, of_content tokq (prune_stale c) = Some e.
  Proof.
    intros Hck Ht. destruct c as [| | | | | |o]; try (exfalso; exact Ht).
    destruct Ht as [[sh [Hshape Hpos]] [[rows [a [Haff Ha]]] [[sdv [sd [Hsd Hsdv]]] [Hty Hd]]]].
    (* the rules *)
    assert (Hwf : CS.wf_domain (JObj o) = true).
    { unfold CS.wf_domain. rewrite Hshape. unfold shape_jv. apply andb_true_iff. split.
      - apply forallb_forall. intros v Hv. apply in_map_iff in Hv as [n [<- Hn]]. rewrite Forall_forall in Hpos.
        specialize (Hpos n Hn). unfold nat_jv, CS.shape_entry_ok. apply negb_true_iff, Z.eqb_neq. lia.
      - apply forallb_forall. intros cl Hcl. unfold CS.valid_classes_spec in Hcl. apply filter_In in Hcl as [Hcl _].
        rewrite classifications_names in Hcl. apply in_map_iff in Hcl as [c [<- _]]. apply Hty. }
    apply (CPM.check_valid_iff_spec _ Hwf) in Hck.
    apply CPM.valid_spec_rules in Hck as [_ [_ [_ [R4 [R5 [_ [_ R8]]]]]]].
    assert (Hsv : CS.shape_value o = Some (map nat_jv sh)) by (unfold CS.shape_value; rewrite Hshape; reflexivity).
    assert (Hn : 3 <= length sh <= 5).
    { unfold CS.rule_ndim in R4. rewrite Hsv, map_length in R4. apply andb_true_iff in R4 as [A B]. apply Nat.leb_le in A, B. lia. }
    assert (Hdict : forall c, class_ok sh c = true -> exists d, CS.class_dict o (name_of_cls c) = Some d).
    { intros c Hc. unfold CS.rule_class_dicts in R5. rewrite Hsv in R5. rewrite forallb_forall in R5.
      specialize (R5 (name_of_cls c) (proj2 (in_vcs _ _ Hn) (ex_intro _ c (conj eq_refl Hc)))).
      destruct (CS.class_dict o (name_of_cls c)) as [d|]; [exists d; reflexivity | discriminate]. }
    unfold CS.rule_unique in R8. rewrite Hsv in R8.
    pose proof (proj2 (CL.unique_iff _ _ (CPC.valid_classes_nodup _)) R8) as Huniq. clear R8.
    (* the pruned content *)
    set (g := fun k : str => negb ((str_eqb k (name_of_base BTime) && negb (class_ok sh TSamples))
                                   || (str_eqb k (name_of_base BVector) && negb (class_ok sh VSamples)))).
    set (o' := filter (fun kv : str * jv => g (fst kv)) o).
    assert (Hprune : prune_stale (JObj o) = JObj o').
    { unfold prune_stale. rewrite Hshape. unfold shape_jv.
      rewrite (omap_map_id nat_of_jv nat_jv sh (fun y _ => nat_of_jv_nat y)). reflexivity. }
    assert (Hg : forall c, g (name_of_base (base_of c)) = class_ok sh c).
    { intros c. unfold g. destruct c; cbn [base_of name_of_base];
        first [ change (str_eqb s_global s_time) with false; change (str_eqb s_global s_vector) with false;
                cbn [andb orb negb]; symmetry; apply class_ok_global; [exact Hn | reflexivity]
              | change (str_eqb s_time s_time) with true; change (str_eqb s_time s_vector) with false;
                cbn [andb orb]; rewrite orb_false_r, negb_involutive; apply class_ok_base; reflexivity
              | change (str_eqb s_vector s_time) with false; change (str_eqb s_vector s_vector) with true;
                cbn [andb orb]; rewrite negb_involutive; apply class_ok_base; reflexivity ]. }
    assert (Hlook : forall c, jassoc (name_of_base (base_of c)) o' =
                              if class_ok sh c then jassoc (name_of_base (base_of c)) o else None).
    { intros c. unfold o'. rewrite jassoc_filter_key, Hg. reflexivity. }
    (* the entries of one class *)
    assert (Hce : forall c, exists ec, class_entries_of o' c = Some ec /\
                   (class_ok sh c = false -> ec = []) /\
                   (class_ok sh c = true -> exists d, CS.class_dict o (name_of_cls c) = Some d /\ dict_entries c d = Some ec)).
    { intros c. unfold class_entries_of. rewrite Hlook. destruct (class_ok sh c) eqn:Hc.
      - destruct (Hdict c Hc) as [d Hdc]. pose proof Hdc as Hdc'. unfold CS.class_dict in Hdc. cbn [name_of_cls fst snd] in Hdc.
        destruct (jassoc (name_of_base (base_of c)) o) as [[| | | | | |bo]|]; try discriminate.
        destruct (jassoc (name_of_sub (sub_of c)) bo) as [[| | | | | |d0]|]; try discriminate. injection Hdc as ->.
        destruct (dict_entries_some c d (proj2 (Hd c d Hdc'))) as [ec Hec]. exists ec.
        split; [exact Hec|]. split; [discriminate|]. intros _. exists d. split; [exact Hdc' | exact Hec].
      - exists []. split; [reflexivity|]. split; [reflexivity | discriminate]. }
    destruct (all_entries_of_some o' all_classes (fun c _ => let (ec, H) := Hce c in ex_intro _ ec (proj1 H))) as [es Hes].
    (* membership *)
    assert (Hcls : forall c ec, class_entries_of o' c = Some ec ->
                   (forall x, In x ec -> fst (snd x) = c /\ class_ok sh c = true) /\
                   (class_ok sh c = true -> exists d, CS.class_dict o (name_of_cls c) = Some d /\ map fst ec = map fst d)).
    { intros c ec He. destruct (Hce c) as [ec' [He' [Hno Hyes]]]. rewrite He in He'. injection He' as <-. split.
      - intros x Hx. destruct (class_ok sh c) eqn:Hc; [|rewrite (Hno eq_refl) in Hx; destruct Hx].
        destruct (Hyes eq_refl) as [d [_ Hde]]. apply dict_entries_spec in Hde.
        destruct (Forall2_In_r _ _ _ _ Hde Hx) as [kv [_ [_ [Hc' _]]]]. split; [exact Hc' | reflexivity].
      - intros Hc. destruct (Hyes Hc) as [d [Hdc Hde]]. exists d. split; [exact Hdc|].
        apply dict_entries_spec in Hde. clear -Hde. induction Hde as [|kv x d ec [Hk _] _ IH]; [reflexivity|].
        cbn [map]. rewrite Hk, IH. reflexivity. }
    exists (mk_ext (mk_hdr sh sd a (PV.has_key (name_of_base BTime) o') (PV.has_key (name_of_base BVector) o')) es).
    rewrite Hprune. unfold of_content.
    assert (Hk1 : jassoc PV.K_shape o' = Some (JArr (map nat_jv sh)))
      by (unfold o'; rewrite jassoc_filter_key; change (g PV.K_shape) with true; exact Hshape).
    assert (Hk2 : jassoc PV.K_affine o' = Some (JArr rows))
      by (unfold o'; rewrite jassoc_filter_key; change (g PV.K_affine) with true; exact Haff).
    assert (Hk3 : jassoc PV.K_slice_dim o' = Some sdv)
      by (unfold o'; rewrite jassoc_filter_key; change (g PV.K_slice_dim) with true; exact Hsd).
    rewrite Hk1, Hk2, Hk3, (omap_map_id nat_of_jv nat_jv sh (fun y _ => nat_of_jv_nat y)), Ha, Hsdv, Hes.
    assert (Hglob : PV.has_key (name_of_base BGlobal) o' = true).
    { pose proof (Hlook GConst) as HL. rewrite (class_ok_global sh GConst Hn eq_refl) in HL. cbn [base_of] in HL.
      destruct (Hdict GConst (class_ok_global sh GConst Hn eq_refl)) as [d Hdc]. unfold CS.class_dict in Hdc.
      cbn [name_of_cls fst snd base_of] in Hdc. unfold PV.has_key. rewrite HL.
      destruct (jassoc (name_of_base BGlobal) o); [reflexivity | discriminate]. }
    assert (Hnd : NoDup (map fst es)).
    { apply (all_entries_NoDup o' all_classes es Hes all_classes_NoDup).
      - intros c ec He. destruct (Hcls c ec He) as [Hmem Hkeys]. destruct (class_ok sh c) eqn:Hc.
        + destruct (Hkeys eq_refl) as [d [Hdc ->]]. apply (Hd c d Hdc).
        + destruct ec as [|x ec]; [constructor|]. destruct (Hmem x (or_introl eq_refl)) as [_ Habs]. discriminate.
      - intros c1 c2 ec1 ec2 k Hne He1 He2 H1 H2.
        destruct (Hcls c1 ec1 He1) as [Hm1 Hk1']. destruct (Hcls c2 ec2 He2) as [Hm2 Hk2'].
        assert (Hc1 : class_ok sh c1 = true).
        { apply in_map_iff in H1 as [x [_ Hx]]. apply (Hm1 x Hx). }
        assert (Hc2 : class_ok sh c2 = true).
        { apply in_map_iff in H2 as [x [_ Hx]]. apply (Hm2 x Hx). }
        destruct (Hk1' Hc1) as [d1 [Hd1 E1]]. destruct (Hk2' Hc2) as [d2 [Hd2 E2]]. rewrite E1 in H1. rewrite E2 in H2.
        assert (V1 : In (name_of_cls c1) (CS.valid_classes_spec (map nat_jv sh))) by (apply (in_vcs _ _ Hn); exists c1; auto).
        assert (V2 : In (name_of_cls c2) (CS.valid_classes_spec (map nat_jv sh))) by (apply (in_vcs _ _ Hn); exists c2; auto).
        assert (Hnn : name_of_cls c1 <> name_of_cls c2) by (intros Heq; apply Hne, name_of_cls_inj; exact Heq).
        specialize (Huniq _ _ V1 V2 Hnn). unfold CL.disjoint_pair, CS.class_keys_spec in Huniq. rewrite Hd1, Hd2 in Huniq.
        assert (Hi : CM.intersects (map fst d1) (map fst d2) = true) by (apply CL.intersects_true; exists k; auto).
        congruence. }
    rewrite Hglob, (NoDup_nodup_keys _ Hnd). cbn [andb].
    replace (forallb _ es) with true; [reflexivity|]. symmetry. apply forallb_forall. intros x Hx.
    destruct (all_entries_of_spec o' all_classes es Hes) as [_ Hspec]. apply Hspec in Hx as [c [ec [_ [He Hx]]]].
    destruct (Hcls c ec He) as [Hmem _]. destruct (Hmem x Hx) as [-> Hc]. exact Hc.
  Qed.

  (** the content of an extension is typed (positive extents, readable affine tokens, keys of a class distinct) *)
  Lemma typed_to_content (qtok : Q -> str) reo e :
    Forall (fun n => 1 <= n) (shape (hdr_of e)) -> aff_rt qtok tokq (hdr_of e) ->
    (forall c, NoDup (map fst (class_entries e c))) -> typed tokq (to_content_r qtok reo e).
  Proof.
    intros Hp Hrt Hnd. rewrite to_content_members_r. cbn [typed]. pose proof (reps_to_content qtok reo e) as R.
    split; [exists (shape (hdr_of e)); split; [apply jassoc_shape | exact Hp]|].
    split; [eexists _, (aff (hdr_of e)); split; [rewrite jassoc_affine; reflexivity | apply (rows_rt qtok tokq _ Hrt)]|].
    split; [eexists _, (sdim (hdr_of e)); split; [apply jassoc_slice_dim | apply sdim_of_jv_sdim]|].
    split; [apply (rp_typed _ _ R)|].
    intros c d Hd. rewrite class_dict_to_r in Hd. destruct (has_base (hdr_of e) (base_of c)); [|discriminate]. injection Hd as <-. split.
    - unfold class_obj. rewrite map_map. cbn [fst]. apply Hnd.
    - intros Hc k v Hin. apply in_class_obj in Hin as [vs [_ ->]]. exists vs. destruct c; try contradiction; reflexivity.
  Qed.
End WithTok.
