(** Link, part 2: [reps o e] -- the content dictionary [o] holds the header fields and, class by class, the
    entries of the extension [e] -- and what the eight format rules of Content/Spec.v say about [e]:
      [reps_rules] : a valid extension's content meets rules 2-8 and lies in [wf_domain];
      [reps_valid] : conversely, for a content that meets the rules the extension is valid, PROVIDED the
                     things the rules (like check_valid) do not look at hold: positive extents, no key in a
                     varying class of multiplicity one, each key once, in a class valid for the shape, constants
                     as singletons.
    Both [to_content e] (ProofsTo.v) and every content on which [of_content] is defined (ProofsOf.v) are
    instances of [reps]. *)
From Coq Require Import List Bool Arith NArith ZArith QArith Lia.
From DV Require Import Common.Res Common.Str Common.Jv.
From DV Require Generated.T_content Content.PyVal Content.Model Content.Spec Content.ProofsBasic
     Content.ProofsClasses Content.ProofsLoops Content.ProofsMain.
From DV Require Import Ext.Types Ext.Classes Ext.Seq Ext.Model Ext.Spec Ext.TableFacts Ext.ValidFacts Ext.ProofsValidBase.
From DV Require Import Link.Abs Link.ProofsNames.
Import ListNotations.
Local Open Scope nat_scope.

Module CL := DV.Content.ProofsLoops.
Module CPM := DV.Content.ProofsMain.
Module CPC := DV.Content.ProofsClasses.

Record reps (o : CS.obj) (e : jext) : Prop := mk_reps {
  rp_shape : jassoc PV.K_shape o = Some (shape_jv (shape (hdr_of e)));
  rp_sdim : jassoc PV.K_slice_dim o = Some (sdim_jv (sdim (hdr_of e)));
  rp_aff : exists rows, jassoc PV.K_affine o = Some (JArr (map JArr rows)) /\
                        Forall (Forall (fun v => CS.is_scalar v = true)) rows /\
                        map (@length jv) rows = map (@length Q) (aff (hdr_of e));
  rp_typed : forall c, CS.class_entry_ok o (name_of_cls c) = true;
  rp_base : forall c, has_base (hdr_of e) (base_of c) = true <-> exists d, CS.class_dict o (name_of_cls c) = Some d;
  rp_ent : forall c d, CS.class_dict o (name_of_cls c) = Some d ->
             forall k v, In (k, v) d <-> exists vs, In (k, (c, vs)) (entries e) /\ v = render c vs }.

Lemma shape_value_reps o e : reps o e -> CS.shape_value o = Some (map nat_jv (shape (hdr_of e))).
Proof. intros R. unfold CS.shape_value. rewrite (rp_shape _ _ R). reflexivity. Qed.

Lemma n_values_render c vs : c <> GConst -> CS.n_values (render c vs) = Some (length vs).
Proof. intros Hc. destruct c; try contradiction; reflexivity. Qed.

(** the domain of C10_iff *)
Lemma reps_wf_domain o e :
  reps o e -> Forall (fun n => 1 <= n) (shape (hdr_of e)) -> CS.wf_domain (JObj o) = true.
Proof.
  intros R Hp. unfold CS.wf_domain. rewrite (rp_shape _ _ R). unfold shape_jv. apply andb_true_iff. split.
  - apply forallb_forall. intros v Hv. apply in_map_iff in Hv as [n [<- Hn]].
    rewrite Forall_forall in Hp. specialize (Hp n Hn). unfold nat_jv, CS.shape_entry_ok.
    apply negb_true_iff, Z.eqb_neq. lia.
  - apply forallb_forall. intros cl Hcl. unfold CS.valid_classes_spec in Hcl. apply filter_In in Hcl as [Hcl _].
    rewrite classifications_names in Hcl. apply in_map_iff in Hcl as [c [<- _]]. apply (rp_typed _ _ R).
Qed.

(** * From a valid extension to the rules *)

Lemma reps_rules o e :
  reps o e -> valid e ->
  CS.rule_affine o = true /\ CS.rule_slice_dim o = true /\ CS.rule_ndim o = true /\
  CS.rule_class_dicts o = true /\ CS.rule_counts o = true /\ CS.rule_no_slice_data o = true /\
  CS.rule_unique o = true.
Proof.
  intros R [Hh [Hnd Hent]]. pose proof (hdr_wf_shape_wf _ Hh) as Hwf.
  destruct Hh as [Hn [Hp [Hsd [[Ha4 Har] Hb]]]]. unfold ndim in Hn.
  pose proof (shape_value_reps _ _ R) as Hshape.
  pose proof (sdv_some o _ (rp_sdim _ _ R) Hsd) as Hsdv.
  split; [|split; [|split; [|split; [|split; [|split]]]]].
  - destruct (rp_aff _ _ R) as [rows [Ha [Hs Hl]]]. unfold CS.rule_affine. rewrite Ha.
    apply (is_4x4_len rows Hs). apply (map_length_eq rows (aff (hdr_of e)) 4 Hl). split; assumption.
  - unfold CS.rule_slice_dim. rewrite Hsdv. reflexivity.
  - unfold CS.rule_ndim. rewrite Hshape, map_length. apply andb_true_iff. split; apply Nat.leb_le; lia.
  - unfold CS.rule_class_dicts. rewrite Hshape. apply forallb_forall. intros cl Hcl.
    apply (in_vcs _ _ Hn) in Hcl as [c [-> Hc]]. destruct (proj1 (rp_base _ _ R c) (Hb c Hc)) as [d ->]. reflexivity.
  - unfold CS.rule_counts. rewrite Hshape, Hsdv. apply forallb_forall. intros cl Hcl.
    apply (in_vcs _ _ Hn) in Hcl as [c [-> Hc]]. rewrite decode_name.
    destruct (CS.class_dict o (name_of_cls c)) as [d|] eqn:Ed; [|reflexivity]. cbv zeta.
    destruct (1 <? _)%Z eqn:E1; [|reflexivity]. apply forallb_forall. intros [k v] Hkv.
    apply (rp_ent _ _ R c d Ed) in Hkv as [vs [Hin ->]]. destruct (Hent _ _ _ Hin) as [_ [Hsl Hlen]].
    rewrite (n_expected_mult _ c _ eq_refl Hsl) in E1 |- *.
    unfold CS.value_count_ok. cbn [snd].
    destruct (cls_eqb_spec c GConst) as [->|Hc'].
    + cbn [mult_spec] in E1. discriminate E1.
    + rewrite (n_values_render c vs Hc'), Hlen. apply Z.eqb_refl.
  - unfold CS.rule_no_slice_data. rewrite Hshape, Hsdv.
    destruct (sdim (hdr_of e)) as [d0|] eqn:Esd; [reflexivity|].
    apply forallb_forall. intros cl Hcl. apply (in_vcs _ _ Hn) in Hcl as [c [-> Hc]]. rewrite decode_name.
    destruct (cs_sub (sub_of c)) eqn:Es; try reflexivity.
    destruct (CS.class_dict o (name_of_cls c)) as [d|] eqn:Ed; [|reflexivity].
    destruct d as [|[k v] d]; [reflexivity|]. exfalso.
    destruct (proj1 (rp_ent _ _ R c _ Ed k v) (or_introl eq_refl)) as [vs [Hin _]].
    destruct (Hent _ _ _ Hin) as [_ [Hsl _]]. apply Hsl; [|reflexivity].
    unfold is_slices. destruct (sub_of c); try discriminate Es; reflexivity.
  - unfold CS.rule_unique. rewrite Hshape.
    apply (CL.unique_iff o _ (CPC.valid_classes_nodup _)).
    intros c1 c2 H1 H2 Hne. apply (in_vcs _ _ Hn) in H1 as [a [-> Ha]]. apply (in_vcs _ _ Hn) in H2 as [b [-> Hb']].
    unfold CL.disjoint_pair.
    destruct (CM.intersects _ _) eqn:Ei; [|reflexivity]. exfalso.
    apply CL.intersects_true in Ei as [k [Hk1 Hk2]]. unfold CS.class_keys_spec in Hk1, Hk2.
    destruct (CS.class_dict o (name_of_cls a)) as [d1|] eqn:E1; [|destruct Hk1].
    destruct (CS.class_dict o (name_of_cls b)) as [d2|] eqn:E2; [|destruct Hk2].
    apply in_map_iff in Hk1 as [[k1 v1] [Hk1 Hin1]]. apply in_map_iff in Hk2 as [[k2 v2] [Hk2 Hin2]].
    cbn [fst] in Hk1, Hk2. subst k1 k2.
    apply (rp_ent _ _ R a d1 E1) in Hin1 as [vs1 [Hin1 _]]. apply (rp_ent _ _ R b d2 E2) in Hin2 as [vs2 [Hin2 _]].
    pose proof (In_lookup e _ _ Hnd Hin1) as L1. pose proof (In_lookup e _ _ Hnd Hin2) as L2.
    rewrite L1 in L2. injection L2 as -> _. apply Hne. reflexivity.
Qed.

(** * From the rules to a valid extension *)

Lemma reps_valid_gen o e :
  reps o e -> CS.valid_spec (JObj o) = true ->
  Forall (fun n => 1 <= n) (shape (hdr_of e)) ->
  NoDup (keys_e e) ->
  (forall k c vs, In (k, (c, vs)) (entries e) -> class_ok (shape (hdr_of e)) c = true) ->
  (forall k vs, In (k, (GConst, vs)) (entries e) -> length vs = 1) ->
  (forall k c vs, In (k, (c, vs)) (entries e) -> c <> GConst ->
                  (is_slices c = true -> sdim (hdr_of e) <> None) ->
                  mult_spec (dims (hdr_of e)) c = 1 -> length vs = 1) ->
  valid e.
Proof.
  intros R Hv Hp Hnd Hcok Hconst Hdeg.
  apply CPM.valid_spec_rules in Hv as [_ [R2 [R3 [R4 [R5 [R6 [R7 _]]]]]]].
  pose proof (shape_value_reps _ _ R) as Hshape.
  assert (Hn : 3 <= length (shape (hdr_of e)) <= 5).
  { unfold CS.rule_ndim in R4. rewrite Hshape, map_length in R4. apply andb_true_iff in R4 as [A B].
    apply Nat.leb_le in A, B. lia. }
  assert (Hsdv : exists x, CS.slice_dim_value o = Some x).
  { unfold CS.rule_slice_dim in R3. destruct (CS.slice_dim_value o) as [x|]; [exists x; reflexivity | discriminate]. }
  destruct Hsdv as [x Hsdv]. destruct (sdv_inv o _ x (rp_sdim _ _ R) Hsdv) as [-> Hsd].
  assert (Hwf : shape_wf (hdr_of e)) by (split; [exact Hn | split; [exact Hp | exact Hsd]]).
  assert (Hdict : forall c, class_ok (shape (hdr_of e)) c = true -> exists d, CS.class_dict o (name_of_cls c) = Some d).
  { intros c Hc. unfold CS.rule_class_dicts in R5. rewrite Hshape in R5. rewrite forallb_forall in R5.
    specialize (R5 (name_of_cls c) (proj2 (in_vcs _ _ Hn) (ex_intro _ c (conj eq_refl Hc)))).
    destruct (CS.class_dict o (name_of_cls c)) as [d|]; [exists d; reflexivity | discriminate]. }
  split; [|split; [exact Hnd|]].
  - split; [exact Hn|]. split; [exact Hp|]. split; [exact Hsd|]. split.
    + destruct (rp_aff _ _ R) as [rows [Ha [Hs Hl]]]. unfold CS.rule_affine in R2. rewrite Ha in R2.
      apply (is_4x4_len rows Hs) in R2. apply (map_length_eq rows (aff (hdr_of e)) 4 Hl). exact R2.
    + intros c Hc. apply (rp_base _ _ R c). apply Hdict. exact Hc.
  - intros k c vs Hin. pose proof (Hcok _ _ _ Hin) as Hc. split; [exact Hc|].
    destruct (Hdict c Hc) as [d Ed].
    assert (Hkv : In (k, render c vs) d) by (apply (rp_ent _ _ R c d Ed); exists vs; split; [exact Hin | reflexivity]).
    assert (Hvc : In (name_of_cls c) (CS.valid_classes_spec (map nat_jv (shape (hdr_of e)))))
      by (apply (in_vcs _ _ Hn); exists c; split; [reflexivity | exact Hc]).
    assert (Hsl : is_slices c = true -> sdim (hdr_of e) <> None).
    { intros Hs Hnone. unfold CS.rule_no_slice_data in R7. rewrite Hshape, Hsdv, Hnone in R7.
      rewrite forallb_forall in R7. specialize (R7 _ Hvc). rewrite decode_name, Ed in R7.
      unfold is_slices in Hs. destruct (sub_of c); try discriminate Hs. cbn [cs_sub] in R7.
      destruct d; [destruct Hkv | discriminate R7]. }
    split; [exact Hsl|].
    destruct (cls_eqb_spec c GConst) as [->|Hc'].
    + rewrite (Hconst _ _ Hin). reflexivity.
    + destruct (Nat.eq_dec (mult_spec (dims (hdr_of e)) c) 1) as [Hm1|Hm1].
      { rewrite Hm1. apply (Hdeg _ _ _ Hin Hc' Hsl Hm1). }
      pose proof (mult_spec_pos (hdr_of e) c Hwf) as Hm0.
      unfold CS.rule_counts in R6. rewrite Hshape, Hsdv in R6. rewrite forallb_forall in R6.
      specialize (R6 _ Hvc). rewrite decode_name, Ed in R6. cbv zeta in R6.
      rewrite (n_expected_mult _ c _ eq_refl Hsl) in R6.
      destruct (1 <? _)%Z eqn:E1; [|apply Z.ltb_ge in E1; lia].
      rewrite forallb_forall in R6. specialize (R6 _ Hkv). unfold CS.value_count_ok in R6. cbn [snd] in R6.
      rewrite (n_values_render c vs Hc') in R6. apply Z.eqb_eq in R6. lia.
Qed.

Lemma reps_valid o e :
  reps o e -> CS.valid_spec (JObj o) = true ->
  Forall (fun n => 1 <= n) (shape (hdr_of e)) ->
  NoDup (keys_e e) ->
  (forall k c vs, In (k, (c, vs)) (entries e) -> class_ok (shape (hdr_of e)) c = true) ->
  (forall k vs, In (k, (GConst, vs)) (entries e) -> length vs = 1) ->
  nondegenerate e ->
  valid e.
Proof.
  intros R Hv Hp Hnd Hcok Hconst Hnondeg. apply (reps_valid_gen o e R Hv Hp Hnd Hcok Hconst).
  intros k c vs Hin Hc _ Hm. exfalso. apply (Hnondeg _ _ _ Hin Hc Hm).
Qed.
