(** Correspondence glue for the abstraction of Link/Abs.v.

    One case = an extension of the working model (the JSON form of props/extlib.py: header + entries) together with
    what the REAL library holds for it: the content dictionary [ext._content] rendered as [jv] WITH its key order,
    the outcome of [to_json()] and its text.

    [check] (nothing here depends on the ORDER of the members of the observed dictionaries: no property states
    the order in which make_empty fills the content, only that a round trip keeps whatever order there is):
      * [to_content_r qtok_dec reo e] and the observed content are equal AS MAPS: the same top-level members; the header
        fields (shape, affine, reorient transform, slice dim, version) equal; every base dictionary has the same
        sub-dictionaries; the class dictionaries are equal as maps (distinct keys);
      * [Content.check_valid] accepts the observed content iff to_json succeeded (any exception = refusal), and the
        model content gets the same verdict;
      * when to_json succeeded, [Json.parse] of the text IS the observed content (members in the same order: the
        round trip of C09 keeps key order); the text itself (indentation, separators) is not compared;
      * [of_content tokq_dec] of the observed content is the case's extension as an unordered map, and
        [reo_of_content tokq_dec] of it is the case's reorientation transform. *)
From Coq Require Import List Bool Arith NArith ZArith QArith.
From DV Require Import Common.Res Common.Str Common.Jv.
From DV Require Import Ext.Types Ext.Classes Ext.Seq Ext.Model Ext.Corr.
From DV Require Import Link.Abs.
Import ListNotations.
Local Open Scope nat_scope.

Record case := mk_case {
  c_ext : jext;
  c_reo : option (list (list Q));   (* the reorientation transform of the extension ([None] = null) *)
  c_content : jv;
  c_json : res unit;        (* to_json(): Ok, or the exception class *)
  c_text : str }.           (* the text when Ok, [] otherwise *)

Definition obj_lookup (k : str) (o : list (str * jv)) : option jv := jassoc k o.

(** equality of two dictionaries as unordered maps with distinct keys *)
Definition dict_eqb_unordered (a b : list (str * jv)) : bool :=
  nodup_keys (map fst a) && nodup_keys (map fst b) && (length a =? length b)
  && forallb (fun kv => match jassoc (fst kv) b with Some v => jv_eqb (snd kv) v | None => false end) a.

(** two dictionaries with the same member names (as sets; names distinct) *)
Definition same_names (x y : list (str * jv)) : bool :=
  nodup_keys (map fst x) && nodup_keys (map fst y) && (length x =? length y)
  && forallb (fun kv => match jassoc (fst kv) y with Some _ => true | None => false end) x.

(** a base dictionary: the same sub-dictionaries, class dictionaries equal as maps *)
Definition base_eqb (a b : jv) : bool :=
  match a, b with
  | JObj x, JObj y =>
      same_names x y
      && forallb (fun kv => match snd kv, jassoc (fst kv) y with
                            | JObj d1, Some (JObj d2) => dict_eqb_unordered d1 d2
                            | _, _ => false
                            end) x
  | _, _ => false
  end.

Definition is_base_name (k : str) : bool :=
  str_eqb k (name_of_base BGlobal) || str_eqb k (name_of_base BTime) || str_eqb k (name_of_base BVector).

Definition content_eqb (model observed : jv) : bool :=
  match model, observed with
  | JObj x, JObj y =>
      same_names x y
      && forallb (fun kv => match jassoc (fst kv) y with
                            | Some v => if is_base_name (fst kv) then base_eqb (snd kv) v else jv_eqb (snd kv) v
                            | None => false
                            end) x
  | _, _ => false
  end.

(** accepted / refused (the exception class of a refusal is not compared: the property says "can be serialised") *)
Definition res_unit_eqb (a b : res unit) : bool := Bool.eqb (is_ok a) (is_ok b).

Definition check (c : case) : bool :=
  let m := to_content_r qtok_dec (c_reo c) (c_ext c) in
  content_eqb m (c_content c)
  && res_unit_eqb (CM.check_valid (c_content c)) (c_json c)
  && res_unit_eqb (CM.check_valid m) (c_json c)
  && match c_json c with
     | Ok _ => match JM.parse (c_text c) with Some j => jv_eqb j (c_content c) | None => false end
     | Err _ => true
     end
  && match of_content tokq_dec (c_content c) with
     | Some e' => ext_eqb (c_ext c) e'
     | None => false
     end
  && match reo_of_content tokq_dec (c_content c), c_reo c with
     | Some None, None => true
     | Some (Some m), Some m' => llq_eqb m m'
     | _, _ => false
     end.

(** what the model says, for the replay file *)
Definition show (c : case) :=
  (to_content_r qtok_dec (c_reo c) (c_ext c), CM.check_valid (c_content c), CM.check_valid (to_content_r qtok_dec (c_reo c) (c_ext c)),
   reo_of_content tokq_dec (c_content c),
   match JM.parse (c_text c) with Some j => Some (jv_eqb j (c_content c)) | None => None end,
   match of_content tokq_dec (c_content c) with Some e' => Some (ext_eqb (c_ext c) e') | None => None end).
