(** The hand-written model of the TM conversion equals the definitions GENERATED from the Python
    sources of both functions (coq/Generated/T_time.v, tools/tables/t_time.py), for every string.
    The C20 theorems are proved about the hand model; this file carries them over to what the code
    says now.  If either Python function is edited, T_time.v changes and these proofs re-check. *)
From Coq Require Import List Bool ZArith NArith QArith Lia.
From DV Require Import Common.Res Common.Str Common.F64 Common.PyNum Common.PyOps Time.Model Generated.T_time.
Import ListNotations.
Local Open Scope nat_scope.

Lemma str_replace_colons_fuel s : forall fuel, length s < fuel ->
  str_replace_fuel fuel s [58%N] [] = remove_colons s.
Proof.
  induction s as [|c r IH]; intros fuel Hf; destruct fuel as [|f]; try (cbn in Hf; lia); [reflexivity|].
  cbn [str_replace_fuel prefixb remove_colons filter length skipn app].
  rewrite N.eqb_sym. destruct (N.eqb c 58) eqn:E; cbn [andb negb].
  - apply IH. cbn in Hf. lia.
  - f_equal. apply IH. cbn in Hf. lia.
Qed.

Lemma str_replace_colons s : str_replace s [58%N] [] = remove_colons s.
Proof. unfold str_replace. apply str_replace_colons_fuel. lia. Qed.

Lemma slice_2_4 {A} (l : list A) : py_slice (Some 2) (Some 4) l = firstn 2 (skipn 2 l).
Proof. unfold py_slice. rewrite firstn_skipn_comm. reflexivity. Qed.

Lemma py_add_int a b : py_add (PI a) (PI b) = PI (a + b).
Proof. reflexivity. Qed.

Lemma promote z f : py_to_float (py_add (PI z) (PF f)) = int_plus_float z f.
Proof. destruct f; reflexivity. Qed.

Lemma body_eq_src s : dcm_time_to_sec_src s = time_to_sec_body s.
Proof.
  unfold dcm_time_to_sec_src, time_to_sec_body.
  rewrite str_replace_colons. set (t := remove_colons s).
  change (py_slice None (Some 2) t) with (firstn 2 t).
  change (py_slice (Some 4) None t) with (skipn 4 t).
  rewrite slice_2_4.
  destruct (py_int (firstn 2 t)) as [hh|e]; [|reflexivity]. cbn [bind py_mul].
  destruct (Nat.ltb 2 (length t)).
  - destruct (py_int (firstn 2 (skipn 2 t))) as [mm|e]; [|reflexivity]. cbn [bind py_mul]. rewrite py_add_int.
    destruct (Nat.ltb 4 (length t)).
    + destruct (py_float (skipn 4 t)) as [f|e]; [|reflexivity]. cbn [bind]. rewrite promote. reflexivity.
    + reflexivity.
  - cbn [bind]. destruct (Nat.ltb 4 (length t)).
    + destruct (py_float (skipn 4 t)) as [f|e]; [|reflexivity]. cbn [bind]. rewrite promote. reflexivity.
    + reflexivity.
Qed.

Theorem dcm_time_to_sec_src_eq : forall s, dcm_time_to_sec_src s = dcm_time_to_sec s.
Proof. exact body_eq_src. Qed.

Lemma body_eq_src2 s : tm_to_seconds_src s = time_to_sec_body s.
Proof.
  unfold tm_to_seconds_src, time_to_sec_body.
  rewrite str_replace_colons. set (t := remove_colons s).
  change (py_slice None (Some 2) t) with (firstn 2 t).
  change (py_slice (Some 4) None t) with (skipn 4 t).
  rewrite slice_2_4.
  destruct (py_int (firstn 2 t)) as [hh|e]; [|reflexivity]. cbn [bind py_mul].
  destruct (Nat.ltb 2 (length t)).
  - destruct (py_int (firstn 2 (skipn 2 t))) as [mm|e]; [|reflexivity]. cbn [bind py_mul]. rewrite py_add_int.
    destruct (Nat.ltb 4 (length t)).
    + destruct (py_float (skipn 4 t)) as [f|e]; [|reflexivity]. cbn [bind]. rewrite promote. reflexivity.
    + reflexivity.
  - cbn [bind]. destruct (Nat.ltb 4 (length t)).
    + destruct (py_float (skipn 4 t)) as [f|e]; [|reflexivity]. cbn [bind]. rewrite promote. reflexivity.
    + reflexivity.
Qed.

Theorem tm_to_seconds_src_eq : forall s, tm_to_seconds_src s = tm_to_seconds s.
Proof. exact body_eq_src2. Qed.

(** the C20 statements, carried over to the generated definitions *)
From DV Require Import Time.Spec Time.Proofs.

Theorem src_same : forall s, dcm_time_to_sec_src s = tm_to_seconds_src s.
Proof. intros s. rewrite dcm_time_to_sec_src_eq, tm_to_seconds_src_eq. apply same_function. Qed.

Theorem src_hms c (hh mm ss : nat) frac : hh < 100 -> mm < 100 -> ss < 100 -> all_digits frac = true ->
  dcm_time_to_sec_src (tm_hms c hh mm ss frac) = Ok (tm_value hh mm ss frac) /\
  tm_to_seconds_src (tm_hms c hh mm ss frac) = Ok (tm_value hh mm ss frac).
Proof.
  intros. rewrite dcm_time_to_sec_src_eq, tm_to_seconds_src_eq. unfold tm_to_seconds.
  split; apply tm_hms_ok; assumption.
Qed.

Theorem src_hm c (hh mm : nat) : hh < 100 -> mm < 100 ->
  dcm_time_to_sec_src (tm_hm c hh mm) = Ok (FFin (f_of_Z (whole_secs hh mm))) /\
  tm_to_seconds_src (tm_hm c hh mm) = Ok (FFin (f_of_Z (whole_secs hh mm))).
Proof.
  intros. rewrite dcm_time_to_sec_src_eq, tm_to_seconds_src_eq. unfold tm_to_seconds.
  split; apply tm_hm_ok; assumption.
Qed.

Theorem src_h (hh : nat) : hh < 100 ->
  dcm_time_to_sec_src (tm_h hh) = Ok (FFin (f_of_Z (Z.of_nat hh * 3600))) /\
  tm_to_seconds_src (tm_h hh) = Ok (FFin (f_of_Z (Z.of_nat hh * 3600))).
Proof.
  intros. rewrite dcm_time_to_sec_src_eq, tm_to_seconds_src_eq. unfold tm_to_seconds.
  split; apply tm_h_ok; assumption.
Qed.
