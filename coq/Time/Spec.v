(** What a TM string denotes (written from the property text, independent of the algorithm). *)
From Coq Require Import List Bool ZArith NArith QArith.
From DV Require Import Common.Res Common.Str Common.F64 Common.PyNum Time.Model.
Import ListNotations.
Local Open Scope nat_scope.

(** two decimal digits of n (n < 100) *)
Definition d2 (n : nat) : str := [(48 + N.of_nat (n / 10))%N; (48 + N.of_nat (n mod 10))%N].
Definition sep (colons : bool) : str := if colons then [58%N] else [].
Definition all_digits (l : str) : bool := forallb is_digit l.
(** value of a digit string *)
Definition digits_val (l : str) : Z := fold_left (fun a c => (a * 10 + (Z.of_N c - 48))%Z) l 0%Z.
Definition frac_part (frac : str) : str := match frac with [] => [] | _ => 46%N :: frac end.

(** the three forms of a TM value: HH, HHMM, HHMMSS[.F+], with or without colons *)
Definition tm_h (hh : nat) : str := d2 hh.
Definition tm_hm (c : bool) (hh mm : nat) : str := d2 hh ++ sep c ++ d2 mm.
Definition tm_hms (c : bool) (hh mm ss : nat) (frac : str) : str :=
  d2 hh ++ sep c ++ d2 mm ++ sep c ++ d2 ss ++ frac_part frac.

Definition whole_secs (hh mm : nat) : Z := (Z.of_nat hh * 3600 + Z.of_nat mm * 60)%Z.

(** ss.ffffff as the correctly rounded double of the decimal it denotes *)
Definition secs_field (ss : nat) (frac : str) : fval :=
  dec_to_f64 false (Z.of_nat ss * 10 ^ Z.of_nat (length frac) + digits_val frac)%Z
             (2 + length frac) (- Z.of_nat (length frac))%Z.

(** hh*3600 + mm*60 + ss.ffffff, as Python computes it: exact integer part, one rounded addition *)
Definition tm_value (hh mm ss : nat) (frac : str) : fval :=
  int_plus_float (whole_secs hh mm) (secs_field ss frac).
