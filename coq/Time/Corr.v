From Coq Require Import List Bool ZArith NArith QArith.
From DV Require Import Common.Res Common.Str Common.F64 Common.PyNum Time.Model.
Import ListNotations.

(** implementation observation: Some exact value of the returned double, or the error class *)
Inductive tobs := TVal (q : Q) | TInf (neg : bool) | TNan | TErr (e : err).

(* c_valid: the string is a valid DICOM TM value (the property speaks of those only; what the two functions do with anything
   else - reject it, or convert it somehow - is not compared, so that stricter input validation is not reported) *)
Record case := { c_str : str; c_valid : bool; c_obs1 : tobs; c_obs2 : tobs }.   (* dcm_time_to_sec, tm_to_seconds *)

Definition obs_of (r : res fval) : tobs :=
  match r with
  | Ok (FFin q) => TVal q
  | Ok (FInf n) => TInf n
  | Ok FNan => TNan
  | Err e => TErr e
  end.

Definition tobs_eqb (a b : tobs) : bool :=
  match a, b with
  | TVal x, TVal y => Qeq_bool x y
  | TInf x, TInf y => Bool.eqb x y
  | TNan, TNan => true
  | TErr x, TErr y => err_eqb x y
  | _, _ => false
  end.

Definition check (c : case) : bool :=
  negb (c_valid c) ||
  (tobs_eqb (obs_of (dcm_time_to_sec (c_str c))) (c_obs1 c) &&
   tobs_eqb (obs_of (tm_to_seconds (c_str c))) (c_obs2 c)).

Definition show (c : case) := (obs_of (dcm_time_to_sec (c_str c)), obs_of (tm_to_seconds (c_str c))).
