From Coq Require Import List Bool ZArith NArith QArith Lia ZifyBool ZifyN.
From DV Require Import Common.Res Common.Str Common.F64 Common.PyNum Time.Model Time.Spec.
Import ListNotations.
Local Open Scope nat_scope.

Lemma same_function : forall s, dcm_time_to_sec s = tm_to_seconds s.
Proof. reflexivity. Qed.

(** * characters *)
Lemma digit_not_space c : is_digit c = true -> py_isspace c = false.
Proof. unfold is_digit, py_isspace. lia. Qed.
Lemma digit_not_colon c : is_digit c = true -> N.eqb c 58 = false.
Proof. unfold is_digit. lia. Qed.
Lemma digit_not_sign c : is_digit c = true -> N.eqb c 43 = false /\ N.eqb c 45 = false.
Proof. unfold is_digit. lia. Qed.
Lemma digit_not_misc c : is_digit c = true ->
  N.eqb c 95 = false /\ N.eqb c 46 = false /\ N.eqb c 101 = false /\ N.eqb c 69 = false.
Proof. unfold is_digit. lia. Qed.
Lemma digit_dec_val c : is_digit c = true -> dec_val c = Some (Z.of_N c - 48)%Z.
Proof. unfold dec_val. intros ->. reflexivity. Qed.

Lemma d2_digits (n : nat) : n < 100 ->
  is_digit (48 + N.of_nat (n / 10)) = true /\ is_digit (48 + N.of_nat (n mod 10)) = true.
Proof.
  intros Hn. unfold is_digit.
  assert (n / 10 < 10) by (apply Nat.div_lt_upper_bound; lia).
  assert (n mod 10 < 10) by (apply Nat.mod_upper_bound; lia).
  lia.
Qed.

Lemma d2_value (n : nat) : n < 100 ->
  ((Z.of_N (48 + N.of_nat (n / 10)) - 48) * 10 + (Z.of_N (48 + N.of_nat (n mod 10)) - 48))%Z = Z.of_nat n.
Proof.
  intros Hn. pose proof (Nat.div_mod n 10 ltac:(lia)). lia.
Qed.

(** * strip is the identity on strings whose first and last characters are not spaces *)
Lemma py_strip_id s c r :
  s = c :: r -> py_isspace c = false ->
  (exists pre z, s = pre ++ [z] /\ py_isspace z = false) -> py_strip s = s.
Proof.
  intros -> Hc [pre [z [E Hz]]]. unfold py_strip, py_rstrip.
  cbn [py_lstrip]. rewrite Hc. rewrite E, rev_app_distr. cbn [rev app py_lstrip]. rewrite Hz.
  cbn [rev]. rewrite rev_involutive. reflexivity.
Qed.

(** * int() of two digits *)
Lemma py_int_two a b : is_digit a = true -> is_digit b = true ->
  py_int [a; b] = Ok ((Z.of_N a - 48) * 10 + (Z.of_N b - 48))%Z.
Proof.
  intros Ha Hb.
  pose proof (digit_not_space _ Ha) as Sa. pose proof (digit_not_space _ Hb) as Sb.
  destruct (digit_not_sign _ Ha) as [P M].
  unfold py_int, py_strip, py_rstrip.
  cbn [py_lstrip]. rewrite Sa. cbn [rev app py_lstrip]. rewrite Sb. cbn [rev app].
  unfold split_sign. rewrite P, M.
  unfold digit_part. rewrite (digit_dec_val _ Ha).
  cbn [digit_run]. rewrite (digit_dec_val _ Hb). cbn [digit_run]. reflexivity.
Qed.

Lemma py_int_d2 (n : nat) : n < 100 -> py_int (d2 n) = Ok (Z.of_nat n).
Proof.
  intros Hn. destruct (d2_digits n Hn) as [Ha Hb].
  unfold d2. rewrite (py_int_two _ _ Ha Hb). f_equal. apply d2_value; exact Hn.
Qed.

(** * removing colons *)
Lemma remove_colons_app a b : remove_colons (a ++ b) = remove_colons a ++ remove_colons b.
Proof. apply filter_app. Qed.
Lemma remove_colons_digits l : all_digits l = true -> remove_colons l = l.
Proof.
  unfold all_digits, remove_colons. induction l as [|c l IH]; cbn [forallb filter]; [reflexivity|].
  intros H. apply andb_prop in H as [Hc Hl]. rewrite (digit_not_colon _ Hc). cbn [negb]. f_equal. auto.
Qed.
Lemma remove_colons_sep c : remove_colons (sep c) = [].
Proof. destruct c; reflexivity. Qed.
Lemma remove_colons_d2 (n : nat) : n < 100 -> remove_colons (d2 n) = d2 n.
Proof.
  intros Hn. apply remove_colons_digits. destruct (d2_digits n Hn) as [Ha Hb].
  unfold all_digits, d2. cbn [forallb]. rewrite Ha, Hb. reflexivity.
Qed.
Lemma remove_colons_frac f : all_digits f = true -> remove_colons (frac_part f) = frac_part f.
Proof.
  intros H. destruct f as [|c f]; [reflexivity|]. unfold frac_part.
  change (remove_colons (46%N :: c :: f)) with (46%N :: remove_colons (c :: f)).
  f_equal. apply remove_colons_digits; exact H.
Qed.

(** * digit runs *)
Lemma digit_run_digits l : all_digits l = true -> forall acc cnt,
  digit_run dec_val 10 acc cnt l
  = (fold_left (fun a c => (a * 10 + (Z.of_N c - 48))%Z) l acc, cnt + length l, []).
Proof.
  unfold all_digits. induction l as [|c l IH]; intros H acc cnt; cbn [digit_run fold_left length].
  - f_equal. f_equal. lia.
  - cbn [forallb] in H. apply andb_prop in H as [Hc Hl].
    rewrite (digit_dec_val _ Hc). rewrite (IH Hl). f_equal. f_equal. lia.
Qed.

Lemma fold_digits_shift l : forall acc,
  fold_left (fun a c => (a * 10 + (Z.of_N c - 48))%Z) l acc
  = (acc * 10 ^ Z.of_nat (length l) + digits_val l)%Z.
Proof.
  unfold digits_val. induction l as [|c l IH]; intros acc; cbn [fold_left length].
  - change (Z.of_nat 0) with 0%Z. rewrite Z.pow_0_r. lia.
  - rewrite (IH (acc * 10 + (Z.of_N c - 48))%Z), (IH (0 * 10 + (Z.of_N c - 48))%Z).
    rewrite Nat2Z.inj_succ, Z.pow_succ_r by lia. lia.
Qed.

Lemma dec_to_f64_ext sg m m' n n' e e' :
  m = m' -> n = n' -> e = e' -> dec_to_f64 sg m n e = dec_to_f64 sg m' n' e'.
Proof. intros -> -> ->. reflexivity. Qed.

(** * float() of  SS[.F+] *)
Lemma py_float_secs (ss : nat) frac : ss < 100 -> all_digits frac = true ->
  py_float (d2 ss ++ frac_part frac) = Ok (secs_field ss frac).
Proof.
  intros Hs Hf. destruct (d2_digits ss Hs) as [Ha Hb].
  set (a := (48 + N.of_nat (ss / 10))%N) in *. set (b := (48 + N.of_nat (ss mod 10))%N) in *.
  pose proof (digit_not_space _ Ha) as Sa.
  destruct (digit_not_sign _ Ha) as [P M].
  assert (Hstrip : py_strip (d2 ss ++ frac_part frac) = a :: b :: frac_part frac).
  { change (d2 ss ++ frac_part frac) with (a :: b :: frac_part frac).
    apply py_strip_id with (c := a) (r := b :: frac_part frac); [reflexivity | exact Sa |].
    destruct frac as [|c f].
    - exists [a], b. split; [reflexivity | apply digit_not_space; exact Hb].
    - unfold frac_part. destruct (@exists_last _ (c :: f) ltac:(discriminate)) as [pre [z Hz]].
      exists (a :: b :: 46%N :: pre), z. split; [cbn [app]; rewrite Hz; reflexivity|].
      apply digit_not_space. unfold all_digits in Hf. rewrite Hz, forallb_app in Hf.
      apply andb_prop in Hf as [_ Hz']. cbn [forallb] in Hz'. apply andb_prop in Hz' as [Hz' _]. exact Hz'. }
  unfold py_float. rewrite Hstrip. unfold split_sign. rewrite P, M.
  (* not inf / nan: first character is a digit *)
  assert (Hlow : to_lower a = a) by (unfold to_lower, is_digit in *; destruct ((65 <=? a)%N && (a <=? 90)%N) eqn:E; [lia | reflexivity]).
  assert (Hninf : forall t u, str_eqb (lower_str (a :: t)) (105%N :: u) = false).
  { intros t u. unfold lower_str. cbn [map str_eqb]. rewrite Hlow. unfold is_digit in Ha.
    assert ((a =? 105)%N = false) as -> by lia. reflexivity. }
  assert (Hnnan : forall t u, str_eqb (lower_str (a :: t)) (110%N :: u) = false).
  { intros t u. unfold lower_str. cbn [map str_eqb]. rewrite Hlow. unfold is_digit in Ha.
    assert ((a =? 110)%N = false) as -> by lia. reflexivity. }
  rewrite !Hninf, Hnnan. cbn [orb].
  unfold digit_part at 1. rewrite (digit_dec_val _ Ha). cbn [digit_run]. rewrite (digit_dec_val _ Hb).
  destruct frac as [|c f].
  - (* no fraction *)
    cbn [frac_part digit_run]. cbn [Nat.add Nat.eqb].
    unfold secs_field. cbn [length]. apply f_equal. apply dec_to_f64_ext.
    + change (Z.of_nat 0) with 0%Z. unfold pow10. rewrite !Z.pow_0_r. unfold digits_val. cbn [fold_left].
      subst a b. pose proof (d2_value ss Hs). lia.
    + lia.
    + lia.
  - cbn [frac_part digit_run].
    assert (Hdot : dec_val 46 = None) by reflexivity. rewrite Hdot.
    assert ((46 =? 95)%N = false) as -> by reflexivity.
    assert ((46 =? 46)%N = true) as -> by reflexivity.
    unfold digit_part.
    pose proof Hf as Hf'. unfold all_digits in Hf'. cbn [forallb] in Hf'. apply andb_prop in Hf' as [Hc Hfl].
    rewrite (digit_dec_val _ Hc). rewrite (digit_run_digits f Hfl).
    cbn [Nat.add Nat.eqb].
    unfold secs_field. apply f_equal.
    apply dec_to_f64_ext.
    + unfold pow10. rewrite (fold_digits_shift f).
      replace (digits_val (c :: f)) with ((Z.of_N c - 48) * 10 ^ Z.of_nat (length f) + digits_val f)%Z.
      2:{ unfold digits_val at 2. cbn [fold_left]. rewrite (fold_digits_shift f). lia. }
      cbn [length]. rewrite Nat2Z.inj_succ, Z.pow_succ_r by lia.
      subst a b. pose proof (d2_value ss Hs). nia.
    + cbn [length]. lia.
    + cbn [length]. lia.
Qed.

(** * the three forms *)
Lemma strip_form c hh mm ss frac : hh < 100 -> mm < 100 -> ss < 100 -> all_digits frac = true ->
  remove_colons (tm_hms c hh mm ss frac) = d2 hh ++ d2 mm ++ d2 ss ++ frac_part frac.
Proof.
  intros Hh Hm Hs Hf. unfold tm_hms.
  rewrite !remove_colons_app, !remove_colons_sep, !remove_colons_d2, remove_colons_frac by assumption.
  reflexivity.
Qed.

Lemma len_gt (a b c d : N) rest : Nat.ltb 2 (length (a :: b :: c :: d :: rest)) = true /\
                                  Nat.ltb 4 (length (a :: b :: c :: d :: rest)) = match rest with [] => false | _ => true end.
Proof. destruct rest as [|x [|y r]]; split; reflexivity. Qed.

Theorem tm_h_ok (hh : nat) : hh < 100 ->
  dcm_time_to_sec (tm_h hh) = Ok (FFin (f_of_Z (Z.of_nat hh * 3600))).
Proof.
  intros Hh. unfold dcm_time_to_sec, time_to_sec_body, tm_h.
  rewrite remove_colons_d2 by assumption.
  change (firstn 2 (d2 hh)) with (d2 hh). rewrite py_int_d2 by assumption.
  cbn [bind length d2 Nat.ltb Nat.leb]. reflexivity.
Qed.

Theorem tm_hm_ok c (hh mm : nat) : hh < 100 -> mm < 100 ->
  dcm_time_to_sec (tm_hm c hh mm) = Ok (FFin (f_of_Z (whole_secs hh mm))).
Proof.
  intros Hh Hm. unfold dcm_time_to_sec, time_to_sec_body, tm_hm.
  rewrite !remove_colons_app, remove_colons_sep, !remove_colons_d2 by assumption.
  change (firstn 2 (d2 hh ++ [] ++ d2 mm)) with (d2 hh).
  change (firstn 2 (skipn 2 (d2 hh ++ [] ++ d2 mm))) with (d2 mm).
  rewrite !py_int_d2 by assumption.
  cbn [bind length d2 app Nat.ltb Nat.leb]. reflexivity.
Qed.

Theorem tm_hms_ok c (hh mm ss : nat) frac : hh < 100 -> mm < 100 -> ss < 100 -> all_digits frac = true ->
  dcm_time_to_sec (tm_hms c hh mm ss frac) = Ok (tm_value hh mm ss frac).
Proof.
  intros Hh Hm Hs Hf. unfold dcm_time_to_sec, time_to_sec_body.
  rewrite strip_form by assumption.
  change (firstn 2 (d2 hh ++ d2 mm ++ d2 ss ++ frac_part frac)) with (d2 hh).
  change (firstn 2 (skipn 2 (d2 hh ++ d2 mm ++ d2 ss ++ frac_part frac))) with (d2 mm).
  change (skipn 4 (d2 hh ++ d2 mm ++ d2 ss ++ frac_part frac)) with (d2 ss ++ frac_part frac).
  rewrite !py_int_d2 by assumption. cbn [bind].
  assert (L2 : Nat.ltb 2 (length (d2 hh ++ d2 mm ++ d2 ss ++ frac_part frac)) = true) by reflexivity.
  assert (L4 : Nat.ltb 4 (length (d2 hh ++ d2 mm ++ d2 ss ++ frac_part frac)) = true) by reflexivity.
  rewrite L2, L4. cbn [bind].
  rewrite py_float_secs by assumption. cbn [bind]. reflexivity.
Qed.
