From Coq Require Import List Bool ZArith NArith QArith Lia.
From DV Require Import Common.Res Common.Str Common.F64 Common.PyNum Time.Model.
Import ListNotations.

Lemma same_function : forall s, dcm_time_to_sec s = tm_to_seconds s.
Proof. reflexivity. Qed.
