(** Model of dcmstack.dcm_time_to_sec (dcmstack.py:257-282) and extract.tm_to_seconds
    (extract.py:276-301): DICOM TM string -> seconds past midnight (a Python float). *)
From Coq Require Import List Bool ZArith NArith QArith.
From DV Require Import Common.Res Common.Str Common.F64 Common.PyNum.
Import ListNotations.
Local Open Scope res_scope.

(** Python [int + float]: the int is converted to a double (exact below 2^53), then added. *)
Definition int_plus_float (z : Z) (f : fval) : fval :=
  match f with
  | FFin q => FFin (fadd (f_of_Z z) q)
  | FInf n => FInf n
  | FNan => FNan
  end.

Definition remove_colons (s : str) : str := filter (fun c => negb (N.eqb c 58)) s.

(** statement-by-statement transliteration; both Python functions have the same body *)
Definition time_to_sec_body (time_str : str) : res fval :=
  let time_str := remove_colons time_str in                               (* time_str.replace(':', '') *)
  do hh <- py_int (firstn 2 time_str);                                    (* int(time_str[:2]) * 3600 *)
  let result := (hh * 3600)%Z in
  let str_len := length time_str in
  do result <- (if Nat.ltb 2 str_len                                      (* if str_len > 2 *)
                then do mm <- py_int (firstn 2 (skipn 2 time_str)); Ok (result + mm * 60)%Z
                else Ok result);
  if Nat.ltb 4 str_len                                                    (* if str_len > 4 *)
  then do f <- py_float (skipn 4 time_str); Ok (int_plus_float result f)  (* result += float(time_str[4:]) *)
  else Ok (FFin (f_of_Z result)).                                         (* float(result) *)

Definition dcm_time_to_sec (s : str) : res fval := time_to_sec_body s.
Definition tm_to_seconds (s : str) : res fval := time_to_sec_body s.
