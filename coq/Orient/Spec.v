(** Small abstract vocabulary the C17 theorems are stated in. *)
From Coq Require Import List Bool Arith ZArith NArith QArith Lia.
From DV Require Import Common.Res Common.Str Orient.Model.
Import ListNotations.
Local Open Scope nat_scope.

(** anatomical axis of an (upper-case) letter: L/R -> 0, A/P -> 1, S/I -> 2 *)
Definition axis_of (c : N) : option nat :=
  if N.eqb c cL || N.eqb c cR then Some 0
  else if N.eqb c cA || N.eqb c cP then Some 1
  else if N.eqb c cS || N.eqb c cI then Some 2
  else None.

(** "three letters after case folding, one from each of LR / AP / SI" *)
Definition valid_code (s : str) : Prop :=
  exists a b c x y z,
    upper s = [a; b; c] /\
    axis_of a = Some x /\ axis_of b = Some y /\ axis_of c = Some z /\
    x <> y /\ y <> z /\ x <> z.

(** signed permutation of the three spatial axes: row k = (p_k, f_k), p a permutation of 0..2, f = +-1 *)
Definition is_flip (f : Z) : bool := Z.eqb f 1 || Z.eqb f (-1).
Definition is_perm3 (p0 p1 p2 : nat) : bool :=
  (p0 <? 3) && (p1 <? 3) && (p2 <? 3) && negb (p0 =? p1) && negb (p1 =? p2) && negb (p0 =? p2).
Definition is_sperm (o : ornt) : bool :=
  match o with
  | [Some (p0, f0); Some (p1, f1); Some (p2, f2)] =>
      is_perm3 p0 p1 p2 && is_flip f0 && is_flip f1 && is_flip f2
  | _ => false
  end.

(** The signed-permutation matrix with the flip translations: row k has f_k in column p_k and
    (n_k - 1) in the last column when axis k is flipped. *)
Definition T_row (sh : list nat) (k : nat) (r : nat * Z) : list Q :=
  let '(p, f) := r in
  map (fun j => if j =? p then inject_Z f else 0%Q) [0; 1; 2]
  ++ [if Z.eqb f (-1) then (inject_Z (Z.of_nat (nth k sh 0%nat)) - 1)%Q else 0%Q].
Definition T_spec (rows : list (nat * Z)) (sh : list nat) : mat :=
  map (fun kr => T_row sh (fst kr) (snd kr)) (combine [0; 1; 2] rows) ++ [[0; 0; 0; 1]%Q].

(** entrywise equality of matrices over Q *)
Definition mat_eq (a b : mat) : Prop :=
  length a = length b /\
  forall i, i < length a -> length (nth i a []) = length (nth i b []) /\
                            forall j, j < length (nth i a []) -> (mentry a i j == mentry b i j)%Q.

(** a rational that is a natural number *)
Definition q_to_nat (q : Q) : option nat :=
  let r := Qred q in
  if (Pos.eqb (Qden r) 1 && Z.leb 0 (Qnum r))%bool then Some (Z.to_nat (Qnum r)) else None.

(** Apply a 4x4 voxel transform to an array index: the first three components go through
    T·(i,j,k,1), the remaining ones are kept. *)
Definition apply_aff (T : mat) (idx : list nat) : option (list nat) :=
  match idx with
  | i :: j :: k :: rest =>
      let v := [inject_Z (Z.of_nat i); inject_Z (Z.of_nat j); inject_Z (Z.of_nat k); 1%Q] in
      match q_to_nat (dot (nth 0 T []) v), q_to_nat (dot (nth 1 T []) v), q_to_nat (dot (nth 2 T []) v) with
      | Some i', Some j', Some k' => Some (i' :: j' :: k' :: rest)
      | _, _, _ => None
      end
  | _ => None
  end.

(** Row [d] strictly dominates column [j] of the 3x3 part. *)
Definition dominant (A : mat) (j d : nat) : Prop :=
  d < 3 /\ forall i, i < 3 -> i <> d -> (sq (mentry A i j) < sq (mentry A d j))%Q.

(** Every column of the 3x3 part has a strictly dominant row and these rows are distinct.
    True of every axis-aligned affine (signed permutation x positive zooms) and of rotations of
    those up to the point where two entries of a column tie. *)
Definition unambiguous (A : mat) : Prop :=
  exists d0 d1 d2,
    dominant A 0 d0 /\ dominant A 1 d1 /\ dominant A 2 d2 /\ d0 <> d1 /\ d1 <> d2 /\ d0 <> d2.
