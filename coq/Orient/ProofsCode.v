(** The validity loop of reorder_voxels (upper(), length test, delete-while-iterating) accepts
    exactly the codes with one letter per anatomical axis -- for ALL strings. *)
From Coq Require Import List Bool Arith ZArith NArith Lia.
From DV Require Import Common.Res Common.Str Orient.Model Orient.Spec.
Import ListNotations.
Local Open Scope nat_scope.

Definition is_some {A} (o : option A) : bool := match o with Some _ => true | None => false end.
Definition axis_is (k : nat) (c : N) : bool :=
  match axis_of c with Some x => x =? k | None => false end.

Ltac six c :=
  destruct (N.eqb_spec c cL) as [->|?]; [reflexivity|];
  destruct (N.eqb_spec c cR) as [->|?]; [reflexivity|];
  destruct (N.eqb_spec c cA) as [->|?]; [reflexivity|];
  destruct (N.eqb_spec c cP) as [->|?]; [reflexivity|];
  destruct (N.eqb_spec c cS) as [->|?]; [reflexivity|];
  destruct (N.eqb_spec c cI) as [->|?]; [reflexivity|];
  reflexivity.

Lemma char_in_all c : char_in c sLRAPSI = is_some (axis_of c).
Proof. unfold char_in, sLRAPSI, axis_of, is_some; cbn [existsb]. six c. Qed.
Lemma char_in_LR c : char_in c [cL; cR] = axis_is 0 c.
Proof. unfold char_in, axis_is, axis_of; cbn [existsb]. six c. Qed.
Lemma char_in_AP c : char_in c [cA; cP] = axis_is 1 c.
Proof. unfold char_in, axis_is, axis_of; cbn [existsb]. six c. Qed.
Lemma char_in_SI c : char_in c [cS; cI] = axis_is 2 c.
Proof. unfold char_in, axis_is, axis_of; cbn [existsb]. six c. Qed.

Lemma axis_of_range c x : axis_of c = Some x -> x < 3.
Proof.
  unfold axis_of.
  destruct (N.eqb c cL || N.eqb c cR); [intros [= <-]; lia|].
  destruct (N.eqb c cA || N.eqb c cP); [intros [= <-]; lia|].
  destruct (N.eqb c cS || N.eqb c cI); [intros [= <-]; lia|discriminate].
Qed.

(** the sub-lists of ['LR','AP','SI'] : every value dcm_axes can take *)
Definition sLR : str := [cL; cR].  Definition sAP : str := [cA; cP].  Definition sSI : str := [cS; cI].
Definition sublists3 : list (list str) :=
  [[sLR; sAP; sSI]; [sLR; sAP]; [sLR; sSI]; [sAP; sSI]; [sLR]; [sAP]; [sSI]; []].

Ltac in_sub := cbn [In]; repeat (first [left; reflexivity | right]); try reflexivity.

Lemma filter_sub (g : str -> bool) axes : In axes sublists3 -> In (filter g axes) sublists3.
Proof.
  intros H. cbn [In sublists3] in H.
  repeat (destruct H as [<-|H]); try contradiction; cbn [filter];
    repeat match goal with |- context [if g ?x then _ else _] => destruct (g x) end;
    unfold sublists3; cbn [In]; auto 12.
Qed.

(** The delete-while-iterating loop removes exactly the axes containing the character: the element
    skipped after a deletion can never contain the same character because the axes are disjoint. *)
Lemma del_loop_spec c axes :
  In axes sublists3 ->
  del_loop (S (length axes)) 0 c axes = filter (fun ax => negb (char_in c ax)) axes.
Proof.
  intros H. cbn [In sublists3] in H.
  assert (Hlr := char_in_LR c). assert (Hap := char_in_AP c). assert (Hsi := char_in_SI c).
  fold sLR in Hlr. fold sAP in Hap. fold sSI in Hsi.
  unfold axis_is in *.
  repeat (destruct H as [<-|H]); try contradiction;
    cbn [del_loop length nth_error remove_nth filter];
    rewrite ?Hlr, ?Hap, ?Hsi;
    (destruct (axis_of c) as [[|[|[|x]]]|] eqn:E;
     cbn [Nat.eqb negb del_loop length nth_error remove_nth filter];
     rewrite ?Hlr, ?Hap, ?Hsi, ?E; cbn [Nat.eqb negb]; try reflexivity).
Qed.

Lemma filter_filter {A} (f g : A -> bool) l :
  filter f (filter g l) = filter (fun x => g x && f x) l.
Proof.
  induction l as [|x l IH]; [reflexivity|]. cbn [filter].
  destruct (g x); cbn [filter andb]; [destruct (f x)|]; rewrite IH; reflexivity.
Qed.

(** induction over the string *)
Lemma vo_loop_spec cs : forall axes,
  In axes sublists3 ->
  vo_loop cs axes =
  if forallb (fun c => char_in c sLRAPSI) cs
  then Ok (filter (fun ax => negb (existsb (fun c => char_in c ax) cs)) axes)
  else Err EValue.
Proof.
  induction cs as [|c r IH]; intros axes H.
  - cbn [vo_loop forallb existsb negb]. f_equal. induction axes as [|x l IHl]; [reflexivity|].
    cbn [filter]. f_equal.
    assert (forall l : list str, filter (fun _ => true) l = l) as E
      by (induction l0 as [|? ? IH0]; [reflexivity | cbn [filter]; now rewrite IH0]).
    symmetry; apply E.
  - cbn [vo_loop forallb]. destruct (char_in c sLRAPSI); cbn [negb andb]; [|reflexivity].
    rewrite del_loop_spec by assumption. rewrite IH by (apply filter_sub; assumption).
    destruct (forallb (fun c0 => char_in c0 sLRAPSI) r); [|reflexivity].
    f_equal. rewrite filter_filter. apply filter_ext. intros ax. cbn [existsb].
    rewrite negb_orb. reflexivity.
Qed.

Definition valid_codeb (s : str) : bool :=
  match upper s with
  | [a; b; c] =>
      match axis_of a, axis_of b, axis_of c with
      | Some x, Some y, Some z => negb (x =? y) && negb (y =? z) && negb (x =? z)
      | _, _, _ => false
      end
  | _ => false
  end.

Lemma valid_code_iff s : valid_code s <-> valid_codeb s = true.
Proof.
  unfold valid_code, valid_codeb. split.
  - intros (a & b & c & x & y & z & -> & -> & -> & -> & Hxy & Hyz & Hxz).
    apply Nat.eqb_neq in Hxy, Hyz, Hxz. rewrite Hxy, Hyz, Hxz. reflexivity.
  - destruct (upper s) as [|a [|b [|c [|d l]]]]; try discriminate.
    destruct (axis_of a) as [x|] eqn:Ea; try discriminate.
    destruct (axis_of b) as [y|] eqn:Eb; try discriminate.
    destruct (axis_of c) as [z|] eqn:Ec; try discriminate.
    intros H. apply andb_prop in H as [H Hxz]. apply andb_prop in H as [Hxy Hyz].
    apply negb_true_iff, Nat.eqb_neq in Hxy, Hyz, Hxz.
    exists a, b, c, x, y, z. repeat split; assumption.
Qed.

(** The whole validity section of reorder_voxels, for every string. *)
Lemma check_voxel_order_spec s :
  check_voxel_order s = if valid_codeb s then Ok (upper s) else Err EValue.
Proof.
  unfold check_voxel_order, valid_codeb.
  destruct (upper s) as [|a [|b [|c [|d l]]]]; try reflexivity.
  cbn [length Nat.eqb negb].
  rewrite vo_loop_spec by (unfold dcm_axes0, sublists3, sLR, sAP, sSI; cbn [In]; auto).
  cbn [forallb existsb]. rewrite !char_in_all.
  unfold dcm_axes0. cbn [filter]. rewrite !char_in_LR, !char_in_AP, !char_in_SI.
  unfold axis_is.
  destruct (axis_of a) as [x|] eqn:Ea; cbn [is_some andb]; [|reflexivity].
  destruct (axis_of b) as [y|] eqn:Eb; cbn [is_some andb]; [|reflexivity].
  destruct (axis_of c) as [z|] eqn:Ec; cbn [is_some andb]; [|reflexivity].
  apply axis_of_range in Ea, Eb, Ec.
  destruct x as [|[|[|x]]]; try lia; destruct y as [|[|[|y]]]; try lia; destruct z as [|[|[|z]]]; try lia;
    reflexivity.
Qed.

Theorem check_voxel_order_valid s : valid_code s -> check_voxel_order s = Ok (upper s).
Proof. intros H. apply valid_code_iff in H. rewrite check_voxel_order_spec, H. reflexivity. Qed.

Theorem check_voxel_order_invalid s : ~ valid_code s -> check_voxel_order s = Err EValue.
Proof.
  intros H. rewrite check_voxel_order_spec. destruct (valid_codeb s) eqn:E; [|reflexivity].
  exfalso. apply H, valid_code_iff, E.
Qed.

Lemma check_voxel_order_ok s vo : check_voxel_order s = Ok vo -> vo = upper s /\ valid_codeb s = true.
Proof.
  rewrite check_voxel_order_spec. destruct (valid_codeb s); [intros [= <-]; auto | discriminate].
Qed.

(** the fuel of [del_loop] is never the reason the loop stops *)
Lemma del_loop_S fuel i c axes :
  del_loop (S fuel) i c axes =
  match nth_error axes i with
  | None => axes
  | Some ax => if char_in c ax then del_loop fuel (S i) c (remove_nth i axes)
               else del_loop fuel (S i) c axes
  end.
Proof. reflexivity. Qed.

Lemma remove_nth_length {A} (l : list A) : forall i, length (remove_nth i l) <= length l.
Proof.
  induction l as [|x l IHl]; intros [|i]; cbn [remove_nth length]; try lia.
  specialize (IHl i). lia.
Qed.

Lemma del_loop_fuel c : forall fuel i axes,
  length axes < fuel + i -> del_loop (S fuel) i c axes = del_loop fuel i c axes.
Proof.
  induction fuel as [|fuel IH]; intros i axes H.
  - rewrite del_loop_S. cbn [del_loop]. destruct (nth_error axes i) eqn:E; [|reflexivity].
    assert (i < length axes) by (apply nth_error_Some; congruence). lia.
  - rewrite (del_loop_S (S fuel) i c axes), (del_loop_S fuel i c axes).
    destruct (nth_error axes i) as [ax|] eqn:E; [|reflexivity].
    pose proof (remove_nth_length axes i) as Hr.
    destruct (char_in c ax); apply IH; lia.
Qed.
