(** Correspondence glue for C17: one case = inputs of dcmstack.reorder_voxels + what the
    implementation returned; [check] = the model returns exactly that.

    Only what the property text talks about is compared: the output array (shape, voxels), the
    output affine, the returned transform, "raised ValueError", and "inputs not modified".  The fourth
    return value (ornt_trans) is not mentioned by the property and is NOT compared (its encoding may
    change freely); neither is the dtype of the output array. *)
From Coq Require Import List Bool Arith ZArith NArith QArith.
From DV Require Import Common.Res Common.Str Orient.Model.
Import ListNotations.
Local Open Scope nat_scope.

Inductive obs :=
| ObsOk (shape : list nat) (data : list Z) (aff trans : mat) (inputs_unchanged : bool)
| ObsErr (e : err).

Record case := {
  c_shape : list nat;      (* vox_array.shape *)
  c_data : list Z;         (* vox_array.ravel() (C order) *)
  c_aff : mat;             (* affine, any 2-D shape, exact binary values *)
  c_code : str;            (* voxel_order *)
  c_obs : obs
}.

Definition list_eqb {A} (eqb : A -> A -> bool) (l1 l2 : list A) : bool :=
  (length l1 =? length l2) && forallb (fun xy => eqb (fst xy) (snd xy)) (combine l1 l2).

Definition run (c : case) : res (arr * mat4 * mat4 * ornt) :=
  reorder {| ashape := c_shape c; adata := c_data c |} (c_aff c) (c_code c).

Definition check (c : case) : bool :=
  match run c, c_obs c with
  | Ok (a', A', T, _), ObsOk sh d A2 T2 unchanged =>
      list_eqb Nat.eqb (ashape a') sh && list_eqb Z.eqb (adata a') d &&
      mat_eqb A' A2 && mat_eqb T T2 && unchanged
  | Err e, ObsErr e' => err_eqb e e'
  | _, _ => false
  end.

(** for replay files: the model's own result, with reduced fractions *)
Definition show (c : case) :=
  match run c with
  | Ok (a', A', T, o) => Ok (ashape a', adata a', map (map Qred) A', map (map Qred) T, o)
  | Err e => Err e
  end.
