(** nibabel inv_ornt_aff: the literal product undo_flip·undo_reorder, its entries, its action on an
    index vector, and the columns of [affine · aff_trans]. *)
From Coq Require Import List Bool Arith ZArith QArith Lia Lqa.
From DV Require Import Common.Res Orient.Model Orient.Spec Orient.ProofsArr.
Import ListNotations.
Local Open Scope nat_scope.

(** center_trans = -(shape - 1) / 2 *)
Definition ctr (N : Q) : Q := (- (N - 1) / 2)%Q.

(** what inv_ornt_aff computes for three complete rows, with the flips and sizes as rationals *)
Definition T_lit (p0 p1 p2 : nat) (F0 F1 F2 N0 N1 N2 : Q) : mat :=
  mmul (diag_with_last_col [F0; F1; F2]
          [(F0 * ctr N0 - ctr N0)%Q; (F1 * ctr N1 - ctr N1)%Q; (F2 * ctr N2 - ctr N2)%Q])
       (map (fun ax => nth ax (eye 4) []) [p0; p1; p2; 3]).

Definition NQ (n : nat) : Q := inject_Z (Z.of_nat n).

Lemma inv_ornt_aff_lit p0 p1 p2 f0 f1 f2 n0 n1 n2 rest :
  In [p0; p1; p2] perms3 ->
  inv_ornt_aff [Some (p0, f0); Some (p1, f1); Some (p2, f2)] (n0 :: n1 :: n2 :: rest) =
  Ok (T_lit p0 p1 p2 (inject_Z f0) (inject_Z f1) (inject_Z f2) (NQ n0) (NQ n1) (NQ n2)).
Proof.
  intros H. cbn [In perms3] in H.
  repeat (destruct H as [H|H]; [injection H as <- <- <-; reflexivity|]). contradiction.
Qed.

Ltac qcompute := cbv -[Qplus Qmult Qminus Qopp Qdiv Qinv Qeq ctr Z.eqb NQ inject_Z].

(** action on (X,Y,Z,1): row k gives  F_k * V[p_k] + (F_k c_k - c_k) *)
Lemma T_lit_action p0 p1 p2 F0 F1 F2 N0 N1 N2 X Y Z :
  In [p0; p1; p2] perms3 ->
  let T := T_lit p0 p1 p2 F0 F1 F2 N0 N1 N2 in
  let V := [X; Y; Z; 1%Q] in
  (dot (nth 0 T []) V == F0 * nth p0 V 0 + (F0 * ctr N0 - ctr N0))%Q /\
  (dot (nth 1 T []) V == F1 * nth p1 V 0 + (F1 * ctr N1 - ctr N1))%Q /\
  (dot (nth 2 T []) V == F2 * nth p2 V 0 + (F2 * ctr N2 - ctr N2))%Q.
Proof.
  intros H. cbn [In perms3] in H.
  repeat (destruct H as [H|H]; [injection H as <- <- <-; qcompute; repeat split; ring|]). contradiction.
Qed.

(** the flip translation: 0 for an unflipped axis, n - 1 for a flipped one *)
Lemma trans_flip f N :
  is_flip f = true ->
  (inject_Z f * ctr N - ctr N == if Z.eqb f (-1) then N - 1 else 0)%Q.
Proof.
  unfold is_flip. intros H. apply orb_prop in H. destruct H as [H|H]; apply Z.eqb_eq in H; subst f;
    cbn [Z.eqb Pos.eqb]; unfold ctr; change (inject_Z 1) with 1%Q; change (inject_Z (-1)) with (-1 # 1)%Q; field.
Qed.

(** entries of aff_trans: the signed permutation matrix with the flip translations *)
Lemma T_lit_spec p0 p1 p2 f0 f1 f2 n0 n1 n2 rest :
  In [p0; p1; p2] perms3 ->
  is_flip f0 = true -> is_flip f1 = true -> is_flip f2 = true ->
  mat_eq (T_lit p0 p1 p2 (inject_Z f0) (inject_Z f1) (inject_Z f2) (NQ n0) (NQ n1) (NQ n2))
         (T_spec [(p0, f0); (p1, f1); (p2, f2)] (n0 :: n1 :: n2 :: rest)).
Proof.
  intros H H0 H1 H2.
  pose proof (trans_flip f0 (NQ n0) H0) as E0. pose proof (trans_flip f1 (NQ n1) H1) as E1.
  pose proof (trans_flip f2 (NQ n2) H2) as E2.
  cbn [In perms3] in H.
  repeat (destruct H as [H|H];
    [injection H as <- <- <-; split; [reflexivity|];
     intros i Hi; cbn in Hi;
     destruct i as [|[|[|[|i]]]]; try lia; (split; [reflexivity|]);
     intros j Hj; cbn in Hj;
     destruct j as [|[|[|[|j]]]]; try lia;
     unfold mentry, T_spec, T_row; cbn [combine map app fst snd nth Nat.eqb];
     fold (NQ n0) (NQ n1) (NQ n2);
     rewrite <- ?E0, <- ?E1, <- ?E2; qcompute; ring |]).
  contradiction.
Qed.

(** 4x4 matrices are explicit lists *)
Lemma is_shape44 A :
  is_shape 4 4 A = true ->
  exists a00 a01 a02 a03 a10 a11 a12 a13 a20 a21 a22 a23 a30 a31 a32 a33 : Q,
    A = [[a00; a01; a02; a03]; [a10; a11; a12; a13]; [a20; a21; a22; a23]; [a30; a31; a32; a33]].
Proof.
  unfold is_shape. intros H. apply andb_prop in H as [Hl Hr].
  destruct A as [|r0 [|r1 [|r2 [|r3 [|r4 A]]]]]; try discriminate.
  cbn [forallb] in Hr. repeat (apply andb_prop in Hr as [? Hr]).
  destruct r0 as [|? [|? [|? [|? [|? ?]]]]]; try discriminate.
  destruct r1 as [|? [|? [|? [|? [|? ?]]]]]; try discriminate.
  destruct r2 as [|? [|? [|? [|? [|? ?]]]]]; try discriminate.
  destruct r3 as [|? [|? [|? [|? [|? ?]]]]]; try discriminate.
  repeat eexists.
Qed.

(** columns of the 3x3 part of A · aff_trans: column p_k is F_k times column k of A *)
Lemma mmul_T_lit_cols A p0 p1 p2 F0 F1 F2 N0 N1 N2 :
  is_shape 4 4 A = true -> In [p0; p1; p2] perms3 ->
  let A' := mmul A (T_lit p0 p1 p2 F0 F1 F2 N0 N1 N2) in
  forall i, i < 3 ->
    (mentry A' i p0 == F0 * mentry A i 0)%Q /\
    (mentry A' i p1 == F1 * mentry A i 1)%Q /\
    (mentry A' i p2 == F2 * mentry A i 2)%Q.
Proof.
  intros HA H.
  destruct (is_shape44 A HA) as (a00 & a01 & a02 & a03 & a10 & a11 & a12 & a13 & a20 & a21 & a22 & a23
                                 & a30 & a31 & a32 & a33 & ->).
  cbn [In perms3] in H.
  repeat (destruct H as [H|H];
    [injection H as <- <- <-; intros A' i Hi; subst A';
     destruct i as [|[|[|i]]]; try lia; qcompute; repeat split; ring |]).
  contradiction.
Qed.

Lemma mmul_shape44 A B : is_shape 4 4 A = true -> is_shape 4 4 B = true -> is_shape 4 4 (mmul A B) = true.
Proof.
  intros HA HB.
  destruct (is_shape44 A HA) as (a00 & a01 & a02 & a03 & a10 & a11 & a12 & a13 & a20 & a21 & a22 & a23
                                 & a30 & a31 & a32 & a33 & ->).
  destruct (is_shape44 B HB) as (b00 & b01 & b02 & b03 & b10 & b11 & b12 & b13 & b20 & b21 & b22 & b23
                                 & b30 & b31 & b32 & b33 & ->).
  reflexivity.
Qed.

Lemma T_lit_shape p0 p1 p2 F0 F1 F2 N0 N1 N2 :
  In [p0; p1; p2] perms3 -> is_shape 4 4 (T_lit p0 p1 p2 F0 F1 F2 N0 N1 N2) = true.
Proof.
  intros H. cbn [In perms3] in H.
  repeat (destruct H as [H|H]; [injection H as <- <- <-; reflexivity|]). contradiction.
Qed.

(* ------------------------------------------------------------------ rationals that are naturals *)

Lemma Qred_int z : Qred (z # 1) = (z # 1)%Q.
Proof.
  unfold Qred. pose proof (Z.ggcd_gcd z 1) as Hg. pose proof (Z.ggcd_correct_divisors z 1) as Hd.
  destruct (Z.ggcd z 1) as [g [aa bb]]. cbn [fst snd] in *. rewrite Z.gcd_1_r in Hg. subst g.
  destruct Hd as [H1 H2]. rewrite Z.mul_1_l in H1, H2. subst aa bb. reflexivity.
Qed.

Lemma q_to_nat_eq q m : (q == NQ m)%Q -> q_to_nat q = Some m.
Proof.
  intros H. unfold q_to_nat. rewrite (Qred_complete _ _ H). unfold NQ, inject_Z.
  rewrite Qred_int.
  cbn [Qden Qnum Pos.eqb andb]. rewrite (proj2 (Z.leb_le 0 (Z.of_nat m))) by lia.
  rewrite Nat2Z.id. reflexivity.
Qed.

(** conditional flip of one index component *)
Definition cf (f : Z) (n i : nat) : nat := if Z.eqb f (-1) then n - 1 - i else i.

Lemma cf_lt f n i : i < n -> cf f n i < n.
Proof. unfold cf. destruct (Z.eqb f (-1)); lia. Qed.

Lemma cf_invol f n i : i < n -> cf f n (cf f n i) = i.
Proof. unfold cf. destruct (Z.eqb f (-1)); lia. Qed.

Lemma NQ_cf f n i :
  is_flip f = true -> i < n ->
  (NQ (cf f n i) == inject_Z f * NQ i + (inject_Z f * ctr (NQ n) - ctr (NQ n)))%Q.
Proof.
  intros Hf Hi. rewrite (trans_flip f (NQ n) Hf). unfold cf, is_flip in *.
  apply orb_prop in Hf. destruct Hf as [Hf|Hf]; apply Z.eqb_eq in Hf; subst f; cbn [Z.eqb Pos.eqb].
  - change (inject_Z 1) with 1%Q. ring.
  - unfold NQ. rewrite !Nat2Z.inj_sub by lia. change (Z.of_nat 1) with 1%Z.
    unfold Z.sub. rewrite !inject_Z_plus, !inject_Z_opp.
    change (inject_Z (-1)) with (-1 # 1)%Q. change (inject_Z 1) with 1%Q. ring.
Qed.
