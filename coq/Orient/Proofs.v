(** Main lemmas behind the C17 theorems. *)
From Coq Require Import List Bool Arith ZArith NArith QArith Lia Lqa.
From DV Require Import Common.Res Common.Str Orient.Model Orient.Spec
  Orient.ProofsCode Orient.ProofsArr Orient.ProofsOrnt Orient.ProofsIO Orient.ProofsAff.
Import ListNotations.
Local Open Scope nat_scope.

(* --------------------------------------------------------------------- anatomy of a success *)

Lemma reorder_ok a A code a' A' T o :
  reorder a A code = Ok (a', A', T, o) ->
  valid_codeb code = true /\ 3 <= length (ashape a) /\ is_shape 4 4 A = true /\
  ornt_transform (io_orientation A) (axcodes2ornt (upper code)) = Ok o /\
  apply_orientation a o = Ok a' /\ inv_ornt_aff o (ashape a) = Ok T /\ A' = mmul A T.
Proof.
  unfold reorder. destruct (check_voxel_order code) as [vo|] eqn:Ev; [|discriminate].
  apply check_voxel_order_ok in Ev as [-> Hv].
  destruct (length (ashape a) <? 3) eqn:El; [discriminate|]. apply Nat.ltb_ge in El.
  destruct (is_shape 4 4 A) eqn:EA; [|discriminate]. cbn [negb].
  destruct (ornt_transform _ _) as [t|] eqn:Et; [|discriminate].
  destruct (apply_orientation a t) as [b|] eqn:Eb; [|discriminate].
  destruct (inv_ornt_aff t (ashape a)) as [U|] eqn:EU; [|discriminate].
  intros [= <- <- <- <-]. repeat split; auto.
Qed.

Lemma is_sperm_inv o :
  is_sperm o = true ->
  exists p0 f0 p1 f1 p2 f2,
    o = [Some (p0, f0); Some (p1, f1); Some (p2, f2)] /\ In [p0; p1; p2] perms3 /\
    is_flip f0 = true /\ is_flip f1 = true /\ is_flip f2 = true.
Proof.
  unfold is_sperm.
  destruct o as [|[[p0 f0]|] [|[[p1 f1]|] [|[[p2 f2]|] [|r s]]]]; try discriminate.
  intros H. repeat (apply andb_prop in H as [H ?]).
  exists p0, f0, p1, f1, p2, f2. repeat split; auto.
  unfold is_perm3 in H. repeat (apply andb_prop in H as [H ?]).
  repeat match goal with E : (_ <? _) = true |- _ => apply Nat.ltb_lt in E end.
  repeat match goal with E : negb (_ =? _) = true |- _ => apply negb_true_iff, Nat.eqb_neq in E end.
  destruct p0 as [|[|[|p0]]]; try lia; destruct p1 as [|[|[|p1]]]; try lia; destruct p2 as [|[|[|p2]]]; try lia;
    cbn [In perms3]; auto 10.
Qed.

(** a successful reorder used a signed permutation, and the affine had a complete orientation *)
Lemma reorder_sperm a A code a' A' T o :
  reorder a A code = Ok (a', A', T, o) -> is_sperm o = true /\ is_sperm (io_orientation A) = true.
Proof.
  intros H. apply reorder_ok in H as (Hv & _ & _ & Ht & _).
  pose proof (transform_good_in (io_orientation A) (upper code) (io_orientation_ok A) (valid_in_codes48 _ Hv)) as G.
  unfold transform_good in G. rewrite Ht in G.
  apply andb_prop in G as [G _]. apply andb_prop in G as [G1 G2]. auto.
Qed.

(* ------------------------------------------------------------------------------- the voxels *)

Definition cflip (f : Z) (ax : nat) (a : arr) : arr := if Z.eqb f (-1) then aflip ax a else a.

Lemma set_nth_nth {A} (l : list A) d : forall k, set_nth k (nth k l d) l = l.
Proof. induction l as [|x l IH]; intros [|k]; cbn [set_nth nth]; try reflexivity. f_equal. apply IH. Qed.

Lemma cflip_props f ax a :
  wf_arr a ->
  wf_arr (cflip f ax a) /\ ashape (cflip f ax a) = ashape a /\
  forall idx, in_bounds (ashape a) idx = true ->
    aget (cflip f ax a) idx = aget a (set_nth ax (cf f (nth ax (ashape a) 0) (nth ax idx 0)) idx).
Proof.
  intros Hwf. unfold cflip, cf. destruct (Z.eqb f (-1)).
  - split; [apply wf_aflip|]. split; [reflexivity|]. intros idx H. apply aget_aflip; assumption.
  - split; [exact Hwf|]. split; [reflexivity|]. intros idx H. rewrite set_nth_nth. reflexivity.
Qed.

Lemma in_bounds3 n0 n1 n2 rest x y z r :
  in_bounds (n0 :: n1 :: n2 :: rest) (x :: y :: z :: r) = true <->
  x < n0 /\ y < n1 /\ z < n2 /\ in_bounds rest r = true.
Proof.
  cbn [in_bounds]. rewrite !andb_true_iff, !Nat.ltb_lt. tauto.
Qed.

Lemma flips3 a n0 n1 n2 rest f0 f1 f2 :
  wf_arr a -> ashape a = n0 :: n1 :: n2 :: rest ->
  let t := apply_flips [f0; f1; f2] 0 a in
  wf_arr t /\ ashape t = n0 :: n1 :: n2 :: rest /\
  forall i0 i1 i2 r, in_bounds (n0 :: n1 :: n2 :: rest) (i0 :: i1 :: i2 :: r) = true ->
    aget t (i0 :: i1 :: i2 :: r) = aget a (cf f0 n0 i0 :: cf f1 n1 i1 :: cf f2 n2 i2 :: r).
Proof.
  intros Hwf Hsh t.
  assert (Et : t = cflip f2 2 (cflip f1 1 (cflip f0 0 a))) by reflexivity.
  destruct (cflip_props f0 0 a Hwf) as (W0 & S0 & G0).
  destruct (cflip_props f1 1 _ W0) as (W1 & S1 & G1).
  destruct (cflip_props f2 2 _ W1) as (W2 & S2 & G2).
  rewrite Et. split; [exact W2|]. split; [congruence|].
  intros i0 i1 i2 r Hb.
  assert (Hb' := Hb). apply in_bounds3 in Hb' as (H0 & H1 & H2 & Hr).
  rewrite G2 by (rewrite S1, S0, Hsh; exact Hb). rewrite S1, S0, Hsh. cbn [set_nth nth].
  rewrite G1 by (rewrite S0, Hsh; apply in_bounds3; repeat split; auto using cf_lt).
  rewrite S0, Hsh. cbn [set_nth nth].
  rewrite G0 by (rewrite Hsh; apply in_bounds3; repeat split; auto using cf_lt).
  rewrite Hsh. cbn [set_nth nth]. reflexivity.
Qed.

(** source index of an output index: component k is output component p_k, reversed when flipped *)
Definition src3 (p0 : nat) (f0 : Z) (p1 : nat) (f1 : Z) (p2 : nat) (f2 : Z) (n0 n1 n2 : nat)
           (idx' : list nat) : list nat :=
  cf f0 n0 (nth p0 idx' 0) :: cf f1 n1 (nth p1 idx' 0) :: cf f2 n2 (nth p2 idx' 0) :: skipn 3 idx'.

Lemma apply_orientation_eq a n0 n1 n2 rest p0 f0 p1 f1 p2 f2 a' :
  ashape a = n0 :: n1 :: n2 :: rest ->
  apply_orientation a [Some (p0, f0); Some (p1, f1); Some (p2, f2)] = Ok a' ->
  a' = atranspose (argsort_nat [p0; p1; p2] ++ seq 3 (length rest)) (apply_flips [f0; f1; f2] 0 a).
Proof.
  intros Hsh. unfold apply_orientation. rewrite Hsh.
  cbn [length Nat.ltb Nat.leb ornt_rows map fst snd Nat.sub]. rewrite Nat.sub_0_r.
  intros [= <-]. reflexivity.
Qed.

Lemma in_bounds_cons_inv sh idx : in_bounds sh idx = true -> length idx = length sh.
Proof. apply in_bounds_length. Qed.

Lemma cf_inj f n x y : x < n -> y < n -> cf f n x = cf f n y -> x = y.
Proof. intros Hx Hy E. apply (f_equal (cf f n)) in E. rewrite !cf_invol in E by assumption. exact E. Qed.

(** Everything the data theorem needs, for one signed permutation. *)
Lemma data_core a n0 n1 n2 rest p0 f0 p1 f1 p2 f2 a' :
  wf_arr a -> ashape a = n0 :: n1 :: n2 :: rest ->
  In [p0; p1; p2] perms3 ->
  apply_orientation a [Some (p0, f0); Some (p1, f1); Some (p2, f2)] = Ok a' ->
  (* shape *)
  (length (ashape a') = length (ashape a) /\ nth p0 (ashape a') 0 = n0 /\ nth p1 (ashape a') 0 = n1 /\
   nth p2 (ashape a') 0 = n2 /\ skipn 3 (ashape a') = rest) /\
  (* values *)
  (forall idx', in_bounds (ashape a') idx' = true ->
     in_bounds (ashape a) (src3 p0 f0 p1 f1 p2 f2 n0 n1 n2 idx') = true /\
     aget a' idx' = aget a (src3 p0 f0 p1 f1 p2 f2 n0 n1 n2 idx')) /\
  (* bijection *)
  (forall idx, in_bounds (ashape a) idx = true ->
     exists idx', in_bounds (ashape a') idx' = true /\ src3 p0 f0 p1 f1 p2 f2 n0 n1 n2 idx' = idx) /\
  (forall i1 i2, in_bounds (ashape a') i1 = true -> in_bounds (ashape a') i2 = true ->
     src3 p0 f0 p1 f1 p2 f2 n0 n1 n2 i1 = src3 p0 f0 p1 f1 p2 f2 n0 n1 n2 i2 -> i1 = i2).
Proof.
  intros Hwf Hsh Hp Ha.
  apply (apply_orientation_eq a n0 n1 n2 rest) in Ha; [|exact Hsh].
  destruct (flips3 a n0 n1 n2 rest f0 f1 f2 Hwf Hsh) as (Wt & St & Gt).
  set (t := apply_flips [f0; f1; f2] 0 a) in *.
  assert (Hq : In (argsort_nat [p0; p1; p2]) perms3).
  { cbn [In perms3] in Hp. repeat (destruct Hp as [Hp|Hp]; [injection Hp as <- <- <-; cbn; auto 10|]). contradiction. }
  assert (Hsh' : ashape a' = permute_shape (argsort_nat [p0; p1; p2]) [n0; n1; n2] ++ rest).
  { rewrite Ha. unfold atranspose. cbn [tabulate ashape]. rewrite St. apply permute_shape_ext, Hq. }
  assert (Hget : forall x y z r, in_bounds (ashape a') (x :: y :: z :: r) = true ->
            length r = length rest /\
            aget a' (x :: y :: z :: r) = aget t (unpermute (argsort_nat [p0; p1; p2]) [x; y; z] ++ r)).
  { intros x y z r Hb.
    assert (Hlr : length r = length rest).
    { apply in_bounds_length in Hb. rewrite Hsh', app_length in Hb.
      unfold permute_shape in Hb. rewrite map_length in Hb.
      assert (length (argsort_nat [p0; p1; p2]) = 3)
        by (cbn [In perms3] in Hq; repeat (destruct Hq as [<-|Hq]); try contradiction; reflexivity).
      cbn [length] in Hb. lia. }
    split; [exact Hlr|]. rewrite Ha. rewrite aget_atranspose.
    - rewrite <- Hlr, unpermute_ext by exact Hq. reflexivity.
    - exact Wt.
    - rewrite Ha in Hb. exact Hb.
    - rewrite <- Hlr, unpermute_ext by exact Hq. rewrite St.
      rewrite Hsh' in Hb. clear - Hb Hq Hlr.
      cbn [In perms3] in Hq.
      repeat (destruct Hq as [Hq|Hq];
        [rewrite <- Hq in *; cbn [permute_shape map nth app] in Hb; cbn [unpermute length seq map index_of Nat.eqb nth app];
         apply in_bounds3 in Hb; apply in_bounds3; tauto|]).
      contradiction. }
  clearbody t.
  cbn [In perms3] in Hp.
  repeat (destruct Hp as [Hp|Hp];
    [injection Hp as <- <- <-; cbn in Hsh';
     cbn [argsort_nat length seq fold_left insert_nat nth Nat.leb unpermute map index_of Nat.eqb app] in Hget;
     (  split; [rewrite Hsh', Hsh; cbn [length nth skipn]; repeat split; reflexivity|];
  split; [intros [|x [|y [|z r]]] Hb; try (rewrite Hsh' in Hb; apply in_bounds_length in Hb; cbn [length] in Hb; discriminate Hb);
          let Hlr := fresh "Hlr" in let Hg := fresh "Hg" in
          destruct (Hget x y z r Hb) as [Hlr Hg];
          rewrite Hsh' in Hb; apply in_bounds3 in Hb; destruct Hb as (Hx & Hy & Hz & Hr);
          unfold src3; cbn [nth skipn]; rewrite Hsh;
          split; [apply in_bounds3; repeat split; auto using cf_lt|];
          rewrite Hg; apply Gt; apply in_bounds3; repeat split; assumption |];
  split; [intros [|i0 [|i1 [|i2 r]]] Hb; try (rewrite Hsh in Hb; apply in_bounds_length in Hb; cbn [length] in Hb; discriminate Hb);
          rewrite Hsh in Hb; apply in_bounds3 in Hb; destruct Hb as (H0 & H1 & H2 & Hr);
          match goal with
          | |- context [src3 ?p0 ?f0 ?p1 ?f1 ?p2 ?f2 ?n0 ?n1 ?n2 _] =>
              exists (map (fun j => nth (index_of j [p0; p1; p2]) [cf f0 n0 i0; cf f1 n1 i1; cf f2 n2 i2] 0) [0; 1; 2] ++ r)
          end;
          cbn [map index_of Nat.eqb nth app]; rewrite Hsh';
          split; [apply in_bounds3; repeat split; auto using cf_lt|];
          unfold src3; cbn [nth skipn]; rewrite !cf_invol by assumption; reflexivity |];
  intros [|x1 [|y1 [|z1 r1]]] [|x2 [|y2 [|z2 r2]]] Hb1 Hb2;
    try (rewrite Hsh' in Hb1; apply in_bounds_length in Hb1; cbn [length] in Hb1; discriminate Hb1); try (rewrite Hsh' in Hb2; apply in_bounds_length in Hb2; cbn [length] in Hb2; discriminate Hb2);
    rewrite Hsh' in Hb1, Hb2; apply in_bounds3 in Hb1, Hb2;
    destruct Hb1 as (Hx1 & Hy1 & Hz1 & Hr1); destruct Hb2 as (Hx2 & Hy2 & Hz2 & Hr2);
    unfold src3; cbn [nth skipn]; intros E; injection E as E0 E1 E2 Er;
    apply cf_inj in E0; [|assumption|assumption];
    apply cf_inj in E1; [|assumption|assumption];
    apply cf_inj in E2; [|assumption|assumption];
    subst; reflexivity) |]).
  contradiction.
Qed.

(* ------------------------------------------------------------------ the transform as an index map *)

Lemma nth_NQ p x y z : p < 3 -> nth p [NQ x; NQ y; NQ z; 1%Q] 0%Q = NQ (nth p [x; y; z] 0).
Proof. intros H. destruct p as [|[|[|p]]]; try lia; reflexivity. Qed.

Lemma perms3_lt p0 p1 p2 : In [p0; p1; p2] perms3 -> p0 < 3 /\ p1 < 3 /\ p2 < 3.
Proof.
  intros H. cbn [In perms3] in H.
  repeat (destruct H as [H|H]; [injection H as <- <- <-; lia|]). contradiction.
Qed.

Lemma apply_aff_core p0 f0 p1 f1 p2 f2 n0 n1 n2 x y z r :
  In [p0; p1; p2] perms3 ->
  is_flip f0 = true -> is_flip f1 = true -> is_flip f2 = true ->
  nth p0 [x; y; z] 0 < n0 -> nth p1 [x; y; z] 0 < n1 -> nth p2 [x; y; z] 0 < n2 ->
  apply_aff (T_lit p0 p1 p2 (inject_Z f0) (inject_Z f1) (inject_Z f2) (NQ n0) (NQ n1) (NQ n2))
            (x :: y :: z :: r) =
  Some (cf f0 n0 (nth p0 [x; y; z] 0) :: cf f1 n1 (nth p1 [x; y; z] 0) :: cf f2 n2 (nth p2 [x; y; z] 0) :: r).
Proof.
  intros Hp F0 F1 F2 H0 H1 H2.
  destruct (perms3_lt _ _ _ Hp) as (L0 & L1 & L2).
  destruct (T_lit_action p0 p1 p2 (inject_Z f0) (inject_Z f1) (inject_Z f2) (NQ n0) (NQ n1) (NQ n2)
              (NQ x) (NQ y) (NQ z) Hp) as (E0 & E1 & E2).
  rewrite nth_NQ in E0, E1, E2 by assumption.
  rewrite <- NQ_cf in E0, E1, E2 by assumption.
  unfold apply_aff.
  change [inject_Z (Z.of_nat x); inject_Z (Z.of_nat y); inject_Z (Z.of_nat z); 1%Q]
    with [NQ x; NQ y; NQ z; 1%Q].
  rewrite (q_to_nat_eq _ _ E0), (q_to_nat_eq _ _ E1), (q_to_nat_eq _ _ E2). reflexivity.
Qed.

Lemma src3_nth p0 f0 p1 f1 p2 f2 n0 n1 n2 x y z r :
  p0 < 3 -> p1 < 3 -> p2 < 3 ->
  src3 p0 f0 p1 f1 p2 f2 n0 n1 n2 (x :: y :: z :: r) =
  cf f0 n0 (nth p0 [x; y; z] 0) :: cf f1 n1 (nth p1 [x; y; z] 0) :: cf f2 n2 (nth p2 [x; y; z] 0) :: r.
Proof.
  intros L0 L1 L2. unfold src3. cbn [skipn].
  destruct p0 as [|[|[|p0]]]; try lia; destruct p1 as [|[|[|p1]]]; try lia; destruct p2 as [|[|[|p2]]]; try lia;
    reflexivity.
Qed.

(* ------------------------------------------------------------------------------ C17_data *)

Theorem reorder_data a A code a' A' T o :
  wf_arr a ->
  reorder a A code = Ok (a', A', T, o) ->
  (length (ashape a') = length (ashape a) /\
   (forall k pk fk, nth_error o k = Some (Some (pk, fk)) -> nth pk (ashape a') 0 = nth k (ashape a) 0) /\
   skipn 3 (ashape a') = skipn 3 (ashape a)) /\
  (forall idx', in_bounds (ashape a') idx' = true ->
     exists idx, apply_aff T idx' = Some idx /\ in_bounds (ashape a) idx = true /\
                 aget a' idx' = aget a idx /\ skipn 3 idx = skipn 3 idx') /\
  (forall idx, in_bounds (ashape a) idx = true ->
     exists! idx', in_bounds (ashape a') idx' = true /\ apply_aff T idx' = Some idx).
Proof.
  intros Hwf H. destruct (reorder_sperm _ _ _ _ _ _ _ H) as [Hs _].
  apply reorder_ok in H as (Hv & Hnd & HA & Ht & Ha & HT & ->).
  destruct (is_sperm_inv o Hs) as (p0 & f0 & p1 & f1 & p2 & f2 & -> & Hp & F0 & F1 & F2).
  destruct (ashape a) as [|n0 [|n1 [|n2 rest]]] eqn:Hsh; cbn [length] in Hnd; try lia.
  rewrite inv_ornt_aff_lit in HT by exact Hp. injection HT as <-.
  destruct (perms3_lt _ _ _ Hp) as (L0 & L1 & L2).
  destruct (data_core a n0 n1 n2 rest p0 f0 p1 f1 p2 f2 a' Hwf Hsh Hp Ha)
    as ((Sl & S0 & S1 & S2 & Sr) & Hval & Hex & Hinj).
  rewrite Hsh in Sl, Hval, Hex.
  assert (Haff : forall idx', in_bounds (ashape a') idx' = true ->
            apply_aff (T_lit p0 p1 p2 (inject_Z f0) (inject_Z f1) (inject_Z f2) (NQ n0) (NQ n1) (NQ n2)) idx'
            = Some (src3 p0 f0 p1 f1 p2 f2 n0 n1 n2 idx')).
  { intros idx' Hb.
    assert (Hlen := in_bounds_length _ _ Hb). rewrite Sl in Hlen. cbn [length] in Hlen.
    destruct idx' as [|x [|y [|z r]]]; try discriminate Hlen.
    rewrite src3_nth by assumption.
    assert (Hlt : forall p, p < 3 -> nth p [x; y; z] 0 < nth p (ashape a') 0).
    { intros p Lp. pose proof (in_bounds_nth _ _ p Hb ltac:(rewrite Sl; cbn [length]; lia)) as G.
      destruct p as [|[|[|p]]]; try lia; exact G. }
    apply apply_aff_core; try assumption.
    - rewrite <- S0. apply Hlt, L0.
    - rewrite <- S1. apply Hlt, L1.
    - rewrite <- S2. apply Hlt, L2. }
  split; [|split].
  - split; [exact Sl|]. split; [|exact Sr].
    intros k pk fk Hk. destruct k as [|[|[|k]]]; cbn [nth_error] in Hk.
    + injection Hk as <- <-. exact S0.
    + injection Hk as <- <-. exact S1.
    + injection Hk as <- <-. exact S2.
    + destruct k; discriminate Hk.
  - intros idx' Hb. destruct (Hval idx' Hb) as [Hi Hg].
    exists (src3 p0 f0 p1 f1 p2 f2 n0 n1 n2 idx'). split; [apply Haff, Hb|].
    split; [exact Hi|]. split; [exact Hg|]. reflexivity.
  - intros idx Hb. destruct (Hex idx Hb) as (idx' & Hb' & Hsrc).
    exists idx'. split.
    + split; [exact Hb'|]. rewrite Haff by exact Hb'. rewrite Hsrc. reflexivity.
    + intros j [Hbj Hj]. rewrite Haff in Hj by exact Hbj. injection Hj as Hj.
      apply Hinj; try assumption. congruence.
Qed.

(* ---------------------------------------------------------------------------- C17_affine *)

Theorem reorder_affine a A code a' A' T o :
  reorder a A code = Ok (a', A', T, o) ->
  A' = mmul A T /\ is_sperm o = true /\ is_shape 4 4 T = true /\
  exists rows, ornt_rows o = Some rows /\ mat_eq T (T_spec rows (ashape a)).
Proof.
  intros H. destruct (reorder_sperm _ _ _ _ _ _ _ H) as [Hs _].
  apply reorder_ok in H as (Hv & Hnd & HA & Ht & Ha & HT & ->).
  split; [reflexivity|]. split; [exact Hs|].
  destruct (is_sperm_inv o Hs) as (p0 & f0 & p1 & f1 & p2 & f2 & -> & Hp & F0 & F1 & F2).
  destruct (ashape a) as [|n0 [|n1 [|n2 rest]]] eqn:Hsh; cbn [length] in Hnd; try lia.
  rewrite inv_ornt_aff_lit in HT by exact Hp. injection HT as <-.
  split; [apply T_lit_shape, Hp|].
  exists [(p0, f0); (p1, f1); (p2, f2)]. split; [reflexivity|].
  apply T_lit_spec; assumption.
Qed.

(* ----------------------------------------------------------------------------- C17_codes *)

Lemma col_scaled A A' j k d f :
  is_flip f = true ->
  (forall i, i < 3 -> (mentry A' i j == inject_Z f * mentry A i k)%Q) ->
  dominant A k d -> dominant A' j d /\ sgn A' d j = (sgn A d k * f)%Z.
Proof.
  intros Hf H [Hd Hdom].
  assert (Hsq : forall i, i < 3 -> (sq (mentry A' i j) == sq (mentry A i k))%Q).
  { intros i Hi. unfold sq. rewrite (H i Hi). unfold is_flip in Hf. apply orb_prop in Hf.
    destruct Hf as [Hf|Hf]; apply Z.eqb_eq in Hf; subst f.
    - change (inject_Z 1) with 1%Q. ring.
    - change (inject_Z (-1)) with (-1 # 1)%Q. ring. }
  split.
  - split; [exact Hd|]. intros i Hi Hid. rewrite (Hsq i Hi), (Hsq d Hd). apply Hdom; assumption.
  - assert (Hpos : (0 < sq (mentry A d k))%Q).
    { destruct d as [|[|[|d]]]; try lia.
      + pose proof (Hdom 1 ltac:(lia) ltac:(lia)) as G. pose proof (sq_nonneg (mentry A 1 k)). lra.
      + pose proof (Hdom 0 ltac:(lia) ltac:(lia)) as G. pose proof (sq_nonneg (mentry A 0 k)). lra.
      + pose proof (Hdom 0 ltac:(lia) ltac:(lia)) as G. pose proof (sq_nonneg (mentry A 0 k)). lra. }
    unfold sgn. rewrite (H d Hd). unfold sq in Hpos. set (x := mentry A d k) in *.
    unfold is_flip in Hf. apply orb_prop in Hf.
    destruct Hf as [Hf|Hf]; apply Z.eqb_eq in Hf; subst f.
    + change (inject_Z 1) with 1%Q. rewrite Qmult_1_l, Z.mul_1_r. reflexivity.
    + change (inject_Z (-1)) with (-1 # 1)%Q.
      destruct (Qle_bool 0 x) eqn:E1; destruct (Qle_bool 0 ((-1 # 1) * x)) eqn:E2; try reflexivity; exfalso.
      * apply Qle_bool_iff in E1, E2. assert (x == 0)%Q by lra. rewrite H0 in Hpos. lra.
      * assert (~ (0 <= x)%Q) by (intros G; apply Qle_bool_iff in G; congruence).
        assert (~ (0 <= (-1 # 1) * x)%Q) by (intros G; apply Qle_bool_iff in G; congruence). lra.
Qed.

Lemma upper_valid_len3 code : valid_codeb code = true -> length (axcodes2ornt (upper code)) = 3.
Proof.
  unfold valid_codeb, axcodes2ornt. rewrite map_length.
  destruct (upper code) as [|x [|y [|z [|w l]]]]; try discriminate. reflexivity.
Qed.

Theorem reorder_codes a A code a' A' T o :
  unambiguous A ->
  reorder a A code = Ok (a', A', T, o) ->
  io_orientation A' = axcodes2ornt (upper code) /\ aff2axcodes A' = map Some (upper code).
Proof.
  intros (d0 & d1 & d2 & D0 & D1 & D2 & N01 & N12 & N02) H.
  pose proof (io_orientation_unamb A d0 d1 d2 D0 D1 D2 N01 N12 N02) as Eio.
  apply reorder_ok in H as (Hv & Hnd & HA & Ht & Ha & HT & ->).
  pose proof (valid_in_codes48 _ Hv) as Hc.
  pose proof (transform_good_in (io_orientation A) (upper code) (io_orientation_ok A) Hc) as G.
  unfold transform_good in G. rewrite Ht in G.
  apply andb_prop in G as [G R]. apply andb_prop in G as [Hs _].
  destruct (is_sperm_inv o Hs) as (p0 & f0 & p1 & f1 & p2 & f2 & -> & Hp & F0 & F1 & F2).
  destruct (ashape a) as [|n0 [|n1 [|n2 rest]]] eqn:Hsh; cbn [length] in Hnd; try lia.
  rewrite inv_ornt_aff_lit in HT by exact Hp. injection HT as <-.
  pose proof (mmul_T_lit_cols A p0 p1 p2 (inject_Z f0) (inject_Z f1) (inject_Z f2) (NQ n0) (NQ n1) (NQ n2) HA Hp) as C.
  cbv zeta in C. set (A' := mmul A _) in *.
  destruct (col_scaled A A' p0 0 d0 f0 F0 (fun i Hi => proj1 (C i Hi)) D0) as [E0 S0].
  destruct (col_scaled A A' p1 1 d1 f1 F1 (fun i Hi => proj1 (proj2 (C i Hi))) D1) as [E1 S1].
  destruct (col_scaled A A' p2 2 d2 f2 F2 (fun i Hi => proj2 (proj2 (C i Hi))) D2) as [E2 S2].
  assert (Hio : io_orientation A' = axcodes2ornt (upper code)).
  { pose proof (upper_valid_len3 code Hv) as Hl.
    destruct (axcodes2ornt (upper code)) as [|e0 [|e1 [|e2 [|e3 e]]]]; try discriminate Hl.
    rewrite Eio in R. cbn [combine forallb fst snd rel_row nth] in R.
    apply andb_prop in R as [R0 R]. apply andb_prop in R as [R1 R]. apply andb_prop in R as [R2 _].
    clear C Ht Ha Hc Hs.
    cbn [In perms3] in Hp.
    repeat (destruct Hp as [Hp|Hp];
      [injection Hp as <- <- <-; cbn [nth] in R0, R1, R2;
       repeat match goal with
              | Rk : match ?e with Some _ => _ | None => false end = true |- _ =>
                  destruct e as [[? ?]|]; [|discriminate Rk];
                  apply andb_prop in Rk as [?Ha ?Hb]; apply Nat.eqb_eq in Ha; apply Z.eqb_eq in Hb; subst
              end;
       first [ rewrite (io_orientation_unamb A' d0 d1 d2) by auto
             | rewrite (io_orientation_unamb A' d0 d2 d1) by auto
             | rewrite (io_orientation_unamb A' d1 d0 d2) by auto
             | rewrite (io_orientation_unamb A' d1 d2 d0) by auto
             | rewrite (io_orientation_unamb A' d2 d0 d1) by auto
             | rewrite (io_orientation_unamb A' d2 d1 d0) by auto ];
       rewrite ?S0, ?S1, ?S2; reflexivity |]).
    contradiction. }
  split; [exact Hio|]. unfold aff2axcodes. rewrite Hio. apply code_axcodes, Hc.
Qed.

(* ---------------------------------------------------------------------------- C17_errors *)

Lemma check_voxel_order_cases code :
  check_voxel_order code = Err EValue \/ (check_voxel_order code = Ok (upper code) /\ valid_codeb code = true).
Proof. rewrite check_voxel_order_spec. destruct (valid_codeb code); auto. Qed.

Theorem reorder_invalid_code a A code : ~ valid_code code -> reorder a A code = Err EValue.
Proof. intros H. unfold reorder. rewrite (check_voxel_order_invalid code H). reflexivity. Qed.

Theorem reorder_low_dim a A code : length (ashape a) < 3 -> reorder a A code = Err EValue.
Proof.
  intros H. unfold reorder. destruct (check_voxel_order_cases code) as [->|[-> _]]; [reflexivity|].
  apply Nat.ltb_lt in H. rewrite H. reflexivity.
Qed.

Theorem reorder_bad_affine a A code : is_shape 4 4 A = false -> reorder a A code = Err EValue.
Proof.
  intros H. unfold reorder. destruct (check_voxel_order_cases code) as [->|[-> _]]; [reflexivity|].
  destruct (length (ashape a) <? 3); [reflexivity|]. rewrite H. reflexivity.
Qed.

Lemma ornt_transform_err s e x : ornt_transform s e = Err x -> x = EValue.
Proof.
  unfold ornt_transform. destruct (negb _); [intros [= <-]; reflexivity|].
  generalize 0 at 1. generalize (map (fun _ : ornt_row => @None (nat * Z)) s).
  induction e as [|[[eo ef]|] e IH]; intros r i; cbn [ornt_transform_loop].
  - discriminate.
  - destruct (find_start eo s 0) as [[si sf]|]; [apply IH | intros [= <-]; reflexivity].
  - intros [= <-]; reflexivity.
Qed.

Lemma after_transform a A code o :
  valid_codeb code = true -> 3 <= length (ashape a) ->
  ornt_transform (io_orientation A) (axcodes2ornt (upper code)) = Ok o ->
  exists a' T, apply_orientation a o = Ok a' /\ inv_ornt_aff o (ashape a) = Ok T.
Proof.
  intros Hv Hnd Ht.
  pose proof (transform_good_in (io_orientation A) (upper code) (io_orientation_ok A) (valid_in_codes48 _ Hv)) as G.
  unfold transform_good in G. rewrite Ht in G.
  apply andb_prop in G as [G _]. apply andb_prop in G as [Hs _].
  destruct (is_sperm_inv o Hs) as (p0 & f0 & p1 & f1 & p2 & f2 & -> & Hp & F0 & F1 & F2).
  destruct (ashape a) as [|n0 [|n1 [|n2 rest]]] eqn:Hsh; cbn [length] in Hnd; try lia.
  rewrite inv_ornt_aff_lit by exact Hp.
  unfold apply_orientation. rewrite Hsh. cbn [length Nat.ltb Nat.leb ornt_rows]. eauto.
Qed.

(** the only exception reorder_voxels raises is ValueError *)
Theorem reorder_only_value_error a A code x : reorder a A code = Err x -> x = EValue.
Proof.
  unfold reorder. destruct (check_voxel_order_cases code) as [->|[-> Hv]]; [intros [= <-]; reflexivity|].
  destruct (length (ashape a) <? 3) eqn:El; [intros [= <-]; reflexivity|]. apply Nat.ltb_ge in El.
  destruct (negb (is_shape 4 4 A)); [intros [= <-]; reflexivity|].
  destruct (ornt_transform _ _) as [o|y] eqn:Et; [|intros [= <-]; eapply ornt_transform_err, Et].
  destruct (after_transform a A code o Hv El Et) as (a' & T & -> & ->). discriminate.
Qed.

(** valid codes are not rejected: with a >= 3-D array and a 4x4 affine whose orientation is complete
    (in particular an unambiguous one) the call succeeds *)
Theorem reorder_succeeds a A code :
  valid_code code -> 3 <= length (ashape a) -> is_shape 4 4 A = true ->
  is_sperm (io_orientation A) = true ->
  exists r, reorder a A code = Ok r.
Proof.
  intros Hv Hnd HA Hs. apply valid_code_iff in Hv.
  unfold reorder. rewrite check_voxel_order_spec, Hv.
  apply Nat.ltb_ge in Hnd. rewrite Hnd, HA. cbn [negb]. apply Nat.ltb_ge in Hnd.
  destruct (transform_total_in _ _ Hs (valid_in_codes48 _ Hv)) as [o Ht]. rewrite Ht.
  destruct (after_transform a A code o Hv Hnd Ht) as (a' & T & -> & ->). eauto.
Qed.

Lemma unambiguous_sperm A : unambiguous A -> is_sperm (io_orientation A) = true.
Proof.
  intros (d0 & d1 & d2 & D0 & D1 & D2 & N01 & N12 & N02).
  rewrite (io_orientation_unamb A d0 d1 d2) by assumption.
  destruct D0 as [L0 _], D1 as [L1 _], D2 as [L2 _].
  unfold is_sperm, is_perm3, sgn.
  repeat match goal with |- context [Qle_bool ?a ?b] => destruct (Qle_bool a b) end;
    cbn [is_flip Z.eqb Pos.eqb orb andb];
    rewrite !andb_true_r;
    repeat (apply andb_true_intro; split);
    try (apply Nat.ltb_lt; assumption); apply negb_true_iff, Nat.eqb_neq; assumption.
Qed.
