(** Index arithmetic of C-ordered arrays: [aget (tabulate sh f) idx = f idx], flips, transposes. *)
From Coq Require Import List Bool Arith ZArith Lia Permutation.
From DV Require Import Common.Res Orient.Model.
Import ListNotations.
Local Open Scope nat_scope.

Lemma all_indices_length sh : length (all_indices sh) = prod sh.
Proof.
  induction sh as [|n sh IH]; [reflexivity|]. cbn [all_indices prod].
  generalize 0 as s. induction n as [|n IHn]; intros s; [reflexivity|].
  cbn [seq flat_map]. rewrite app_length, map_length, IH, IHn. lia.
Qed.

Lemma offset_lt sh : forall idx, in_bounds sh idx = true -> offset sh idx < prod sh.
Proof.
  induction sh as [|n sh IH]; intros [|i idx] H; cbn [in_bounds] in H; try discriminate.
  - cbn. lia.
  - apply andb_prop in H as [Hi H]. apply Nat.ltb_lt in Hi. specialize (IH idx H).
    cbn [offset prod]. nia.
Qed.

Lemma in_bounds_length sh : forall idx, in_bounds sh idx = true -> length idx = length sh.
Proof.
  induction sh as [|n sh IH]; intros [|i idx] H; cbn [in_bounds] in H; try discriminate; [reflexivity|].
  apply andb_prop in H as [_ H]. cbn [length]. f_equal. apply IH, H.
Qed.

(** blocks of equal length *)
Lemma nth_error_flat_map_uniform {A B} (g : A -> list B) m (l : list A) :
  (forall x, length (g x) = m) ->
  forall i j, j < m ->
  nth_error (flat_map g l) (i * m + j) =
  match nth_error l i with Some x => nth_error (g x) j | None => None end.
Proof.
  intros Hg. induction l as [|x l IH]; intros i j Hj.
  - cbn [flat_map]. destruct (i * m + j), i; reflexivity.
  - cbn [flat_map]. destruct i as [|i].
    + cbn [Nat.mul Nat.add nth_error]. apply nth_error_app1. rewrite Hg. exact Hj.
    + cbn [nth_error]. rewrite nth_error_app2 by (rewrite Hg; lia).
      rewrite Hg. replace (S i * m + j - m) with (i * m + j) by lia. apply IH, Hj.
Qed.

Lemma nth_error_seq s n i : i < n -> nth_error (seq s n) i = Some (s + i).
Proof.
  revert s i. induction n as [|n IH]; intros s i H; [lia|].
  destruct i as [|i]; cbn [seq nth_error]; [f_equal; lia|].
  rewrite IH by lia. f_equal. lia.
Qed.

Lemma nth_error_all_indices sh : forall idx,
  in_bounds sh idx = true -> nth_error (all_indices sh) (offset sh idx) = Some idx.
Proof.
  induction sh as [|n sh IH]; intros [|i idx] H; cbn [in_bounds] in H; try discriminate; [reflexivity|].
  apply andb_prop in H as [Hi H]. apply Nat.ltb_lt in Hi.
  cbn [all_indices offset].
  rewrite (nth_error_flat_map_uniform _ (prod sh)).
  - rewrite nth_error_seq by exact Hi. cbn [Nat.add].
    rewrite nth_error_map, (IH idx H). reflexivity.
  - intros x. rewrite map_length. apply all_indices_length.
  - apply offset_lt, H.
Qed.

Lemma wf_tabulate sh f : wf_arr (tabulate sh f).
Proof. unfold wf_arr, tabulate; cbn [adata ashape]. rewrite map_length. apply all_indices_length. Qed.

Lemma aget_tabulate sh f idx :
  in_bounds sh idx = true -> aget (tabulate sh f) idx = Some (oz (f idx)).
Proof.
  intros H. unfold aget, tabulate; cbn [ashape adata]. rewrite H.
  rewrite nth_error_map, (nth_error_all_indices sh idx H). reflexivity.
Qed.

Lemma aget_out a idx : in_bounds (ashape a) idx = false -> aget a idx = None.
Proof. intros H. unfold aget. rewrite H. reflexivity. Qed.

Lemma wf_aget a idx : wf_arr a -> in_bounds (ashape a) idx = true -> exists v, aget a idx = Some v.
Proof.
  intros Hwf H. unfold aget. rewrite H.
  destruct (nth_error (adata a) (offset (ashape a) idx)) as [v|] eqn:E; [eauto|].
  apply nth_error_None in E. pose proof (offset_lt _ _ H). unfold wf_arr in Hwf. lia.
Qed.

(** [tabulate] of a total source map *)
Lemma aget_tabulate_src a sh (src : list nat -> list nat) idx :
  wf_arr a -> in_bounds sh idx = true -> in_bounds (ashape a) (src idx) = true ->
  aget (tabulate sh (fun i => aget a (src i))) idx = aget a (src idx).
Proof.
  intros Hwf H Hs. rewrite aget_tabulate by exact H.
  destruct (wf_aget a (src idx) Hwf Hs) as [v ->]. reflexivity.
Qed.

(* --------------------------------------------------------------------------------------- flips *)

Lemma in_bounds_set_nth sh : forall ax idx v,
  in_bounds sh idx = true -> (ax < length sh -> v < nth ax sh 0) ->
  in_bounds sh (set_nth ax v idx) = true.
Proof.
  induction sh as [|n sh IH]; intros ax [|i idx] v H Hv; cbn [in_bounds] in H; try discriminate.
  - destruct ax; reflexivity.
  - apply andb_prop in H as [Hi H]. destruct ax as [|ax]; cbn [set_nth in_bounds].
    + rewrite H, andb_true_r. apply Nat.ltb_lt. cbn [nth length] in Hv. apply Hv. lia.
    + rewrite Hi. cbn [andb]. apply IH; [exact H|]. intros Hax. cbn [nth length] in Hv. apply Hv. lia.
Qed.

Lemma in_bounds_nth sh : forall idx ax,
  in_bounds sh idx = true -> ax < length sh -> nth ax idx 0 < nth ax sh 0.
Proof.
  induction sh as [|n sh IH]; intros [|i idx] ax H Hax; cbn [in_bounds] in H; try discriminate.
  - cbn [length] in Hax. lia.
  - apply andb_prop in H as [Hi H]. apply Nat.ltb_lt in Hi. destruct ax as [|ax]; cbn [nth]; [exact Hi|].
    apply IH; [exact H | cbn [length] in Hax; lia].
Qed.

Lemma in_bounds_flip sh ax idx :
  in_bounds sh idx = true -> in_bounds sh (flip_idx sh ax idx) = true.
Proof.
  intros H. unfold flip_idx. apply in_bounds_set_nth; [exact H|].
  intros Hax. pose proof (in_bounds_nth sh idx ax H Hax). lia.
Qed.

Lemma wf_aflip ax a : wf_arr (aflip ax a).
Proof. apply wf_tabulate. Qed.

Lemma aget_aflip ax a idx :
  wf_arr a -> in_bounds (ashape a) idx = true ->
  aget (aflip ax a) idx = aget a (flip_idx (ashape a) ax idx).
Proof.
  intros Hwf H. unfold aflip. apply aget_tabulate_src; [exact Hwf | exact H | apply in_bounds_flip, H].
Qed.

(* ---------------------------------------------------------------------------------- transposes *)

Lemma wf_atranspose axes a : wf_arr (atranspose axes a).
Proof. apply wf_tabulate. Qed.

Lemma aget_atranspose axes a idx' :
  wf_arr a ->
  in_bounds (permute_shape axes (ashape a)) idx' = true ->
  in_bounds (ashape a) (unpermute axes idx') = true ->
  aget (atranspose axes a) idx' = aget a (unpermute axes idx').
Proof. intros Hwf H Hs. unfold atranspose. apply aget_tabulate_src; assumption. Qed.

Lemma map_nth_seq_tail {A} (rest : list A) d : forall pre,
  map (fun k => nth k (pre ++ rest) d) (seq (length pre) (length rest)) = rest.
Proof.
  induction rest as [|x rest IH]; intros pre; [reflexivity|].
  cbn [length seq map]. rewrite nth_middle. f_equal.
  specialize (IH (pre ++ [x])). rewrite app_length in IH. cbn [length] in IH.
  replace (length pre + 1) with (S (length pre)) in IH by lia.
  rewrite <- IH at 2. apply map_ext. intros k. rewrite <- app_assoc. reflexivity.
Qed.

Lemma index_of_app_notin k q l : ~ In k q -> index_of k (q ++ l) = length q + index_of k l.
Proof.
  induction q as [|x q IH]; intros H; [reflexivity|].
  cbn [app index_of length]. destruct (Nat.eqb_spec x k) as [->|Hn]; [exfalso; apply H; left; reflexivity|].
  rewrite IH; [lia|]. intros Hin. apply H. right. exact Hin.
Qed.

Lemma index_of_seq m : forall s k, s <= k < s + m -> index_of k (seq s m) = k - s.
Proof.
  induction m as [|m IH]; intros s k H; [lia|].
  cbn [seq index_of]. destruct (Nat.eqb_spec s k) as [->|Hn]; [lia|].
  rewrite IH by lia. lia.
Qed.

(** the six permutations of the three spatial axes *)
Definition perms3 : list (list nat) := [[0;1;2]; [0;2;1]; [1;0;2]; [1;2;0]; [2;0;1]; [2;1;0]].

Lemma permute_shape_ext q n0 n1 n2 rest :
  In q perms3 ->
  permute_shape (q ++ seq 3 (length rest)) (n0 :: n1 :: n2 :: rest) =
  permute_shape q [n0; n1; n2] ++ rest.
Proof.
  intros Hq. unfold permute_shape. rewrite map_app. f_equal.
  - cbn [In perms3] in Hq. repeat (destruct Hq as [<-|Hq]); try contradiction; reflexivity.
  - apply (map_nth_seq_tail rest 0 [n0; n1; n2]).
Qed.

Lemma unpermute_ext q x y z r :
  In q perms3 ->
  unpermute (q ++ seq 3 (length r)) (x :: y :: z :: r) = unpermute q [x; y; z] ++ r.
Proof.
  intros Hq. unfold unpermute.
  assert (Hl : length q = 3)
    by (cbn [In perms3] in Hq; repeat (destruct Hq as [<-|Hq]); try contradiction; reflexivity).
  rewrite app_length, seq_length, Hl. rewrite (seq_app 3 (length r) 0), map_app. cbn [Nat.add]. f_equal.
  - cbn [In perms3] in Hq. repeat (destruct Hq as [<-|Hq]); try contradiction; reflexivity.
  - rewrite <- (map_nth_seq_tail r 0 [x; y; z]) at 2. cbn [length].
    apply map_ext_in. intros k Hk. apply in_seq in Hk.
    rewrite index_of_app_notin.
    + rewrite index_of_seq by lia. rewrite Hl. f_equal. lia.
    + intros Hin. cbn [In perms3] in Hq.
      repeat (destruct Hq as [<-|Hq]); try contradiction; cbn [In] in Hin; lia.
Qed.

Lemma in_bounds_app sh1 : forall sh2 i1 i2,
  length i1 = length sh1 ->
  in_bounds (sh1 ++ sh2) (i1 ++ i2) = in_bounds sh1 i1 && in_bounds sh2 i2.
Proof.
  induction sh1 as [|n sh1 IH]; intros sh2 [|i i1] i2 Hl; cbn [length] in Hl; try discriminate.
  - reflexivity.
  - cbn [app in_bounds]. rewrite IH by lia. apply andb_assoc.
Qed.

(* ------------------------------------------------------------- multiset of voxels (bijection) *)

Lemma all_indices_in sh : forall idx, In idx (all_indices sh) <-> in_bounds sh idx = true.
Proof.
  induction sh as [|n sh IH]; intros idx.
  - cbn [all_indices In in_bounds]. destruct idx; split; intros H; try discriminate; auto.
    destruct H as [H|[]]; discriminate.
  - cbn [all_indices]. rewrite in_flat_map. split.
    + intros (i & Hi & H). apply in_map_iff in H as (t & <- & Ht). apply in_seq in Hi.
      cbn [in_bounds]. apply andb_true_intro. split; [apply Nat.ltb_lt; lia | apply IH, Ht].
    + destruct idx as [|i t]; cbn [in_bounds]; [discriminate|]. intros H.
      apply andb_prop in H as [Hi H]. apply Nat.ltb_lt in Hi.
      exists i. split; [apply in_seq; lia | apply in_map, IH, H].
Qed.

