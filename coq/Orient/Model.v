(** Executable model of
      dcmstack.dcmstack.ornt_transform / axcodes2ornt / reorder_voxels   (src/dcmstack/dcmstack.py:110-254)
    and of the nibabel 5.4.2 functions they call
      nibabel.orientations.io_orientation / apply_orientation / inv_ornt_aff / ornt2axcodes / aff2axcodes.

    Conventions
    - arrays: shape + flat data in C order ([arr]); numpy views (flip, transpose) are index maps, the
      result is materialised with [tabulate];
    - matrices: row-major [list (list Q)]; a 4x4 affine is a [mat] with [is_shape 4 4];
    - orientations: the numpy (n,2) float arrays become [list (option (nat * Z))]; a [None] row is a
      NaN row ([io_orientation] on a dropped axis, [axcodes2ornt] on an unknown letter) or a row of
      [np.empty_like] that was never assigned;
    - Python exceptions: [Err EValue] = ValueError, [Err ECrash] = anything else (OrientationError,
      IndexError ...; unreachable from [reorder], proved in Proofs.v).

    What is NOT modelled literally: the SVD / polar-decomposition step of [io_orientation]
    (see the comment at [io_orientation]). *)
From Coq Require Import List Bool Arith ZArith NArith QArith Lia.
From DV Require Import Common.Res Common.Str.
Import ListNotations.
Local Open Scope nat_scope.

(* ------------------------------------------------------------------------------------------ arrays *)

Record arr := { ashape : list nat; adata : list Z }.

Fixpoint prod (sh : list nat) : nat :=
  match sh with [] => 1 | n :: r => n * prod r end.

Fixpoint in_bounds (sh idx : list nat) : bool :=
  match sh, idx with
  | [], [] => true
  | n :: sh', i :: idx' => (i <? n) && in_bounds sh' idx'
  | _, _ => false
  end.

(** C-order offset of a multi-index. *)
Fixpoint offset (sh idx : list nat) : nat :=
  match sh, idx with
  | _ :: sh', i :: idx' => i * prod sh' + offset sh' idx'
  | _, _ => 0
  end.

Definition aget (a : arr) (idx : list nat) : option Z :=
  if in_bounds (ashape a) idx then nth_error (adata a) (offset (ashape a) idx) else None.

(** All multi-indices of a shape, in C order. *)
Fixpoint all_indices (sh : list nat) : list (list nat) :=
  match sh with
  | [] => [[]]
  | n :: sh' => flat_map (fun i => map (cons i) (all_indices sh')) (seq 0 n)
  end.

Definition oz (o : option Z) : Z := match o with Some v => v | None => 0%Z end.

(** The array of shape [sh] whose element at [idx] is [f idx]. *)
Definition tabulate (sh : list nat) (f : list nat -> option Z) : arr :=
  {| ashape := sh; adata := map (fun idx => oz (f idx)) (all_indices sh) |}.

Definition wf_arr (a : arr) : Prop := length (adata a) = prod (ashape a).

(** replace element [k] of a list *)
Fixpoint set_nth {A} (k : nat) (x : A) (l : list A) : list A :=
  match l, k with
  | [], _ => []
  | _ :: r, 0 => x :: r
  | y :: r, S k' => y :: set_nth k' x r
  end.

Fixpoint remove_nth {A} (k : nat) (l : list A) : list A :=
  match l, k with
  | [], _ => []
  | _ :: r, 0 => r
  | y :: r, S k' => y :: remove_nth k' r
  end.

(** [np.flip(a, axis=ax)]: a view with a[.., i, ..] = a[.., n-1-i, ..]. *)
Definition flip_idx (sh : list nat) (ax : nat) (idx : list nat) : list nat :=
  set_nth ax (nth ax sh 0 - 1 - nth ax idx 0) idx.

Definition aflip (ax : nat) (a : arr) : arr :=
  tabulate (ashape a) (fun idx => aget a (flip_idx (ashape a) ax idx)).

(** position of the first occurrence of [k] in [l] ([length l] when absent) *)
Fixpoint index_of (k : nat) (l : list nat) : nat :=
  match l with
  | [] => 0
  | x :: r => if x =? k then 0 else S (index_of k r)
  end.

(** [a.transpose(axes)]: out.shape[j] = a.shape[axes[j]], out[idx'] = a[idx] with idx[axes[j]] = idx'[j]. *)
Definition permute_shape (axes sh : list nat) : list nat := map (fun ax => nth ax sh 0) axes.
Definition unpermute (axes idx' : list nat) : list nat :=
  map (fun k => nth (index_of k axes) idx' 0) (seq 0 (length axes)).

Definition atranspose (axes : list nat) (a : arr) : arr :=
  tabulate (permute_shape axes (ashape a)) (fun idx' => aget a (unpermute axes idx')).

(* ---------------------------------------------------------------------------------------- matrices *)

Definition mat := list (list Q).
Definition mat4 := mat.      (* a [mat] for which [is_shape 4 4] holds *)

Definition mentry (m : mat) (i j : nat) : Q := nth j (nth i m []) 0%Q.

Definition is_shape (r c : nat) (m : mat) : bool :=
  (length m =? r) && forallb (fun row => length row =? c) m.

Fixpoint dot (u v : list Q) : Q :=
  match u, v with
  | x :: u', y :: v' => (x * y + dot u' v')%Q
  | _, _ => 0%Q
  end.

Definition ncols (m : mat) : nat := match m with [] => 0 | r :: _ => length r end.
Definition mcol (m : mat) (j : nat) : list Q := map (fun row => nth j row 0%Q) m.
Definition mcols (m : mat) : list (list Q) := map (mcol m) (seq 0 (ncols m)).

(** [np.dot(a, b)] for 2-D arrays of compatible shape. *)
Definition mmul (a b : mat) : mat := map (fun row => map (fun col => dot row col) (mcols b)) a.

Definition eye (n : nat) : mat :=
  map (fun i => map (fun j => if i =? j then 1%Q else 0%Q) (seq 0 n)) (seq 0 n).

Definition mat_eqb (a b : mat) : bool :=
  (length a =? length b) &&
  forallb (fun rr => (length (fst rr) =? length (snd rr)) &&
                     forallb (fun xy => Qeq_bool (fst xy) (snd xy)) (combine (fst rr) (snd rr)))
          (combine a b).

(* ------------------------------------------------------------------------------------ orientations *)

Definition ornt_row := option (nat * Z).       (* (output axis, flip = 1 | -1);  None = NaN row *)
Definition ornt := list ornt_row.

Definition cL : N := 76%N.  Definition cR : N := 82%N.
Definition cA : N := 65%N.  Definition cP : N := 80%N.
Definition cS : N := 83%N.  Definition cI : N := 73%N.

(** [list(zip('LPI','RAS'))] *)
Definition labels : list (N * N) := [(cL, cR); (cP, cA); (cI, cS)].

(** dcmstack.axcodes2ornt (labels=None; codes are the characters of a str, never None). *)
Fixpoint axcode_row (code : N) (label_idx : nat) (ls : list (N * N)) : ornt_row :=
  match ls with
  | [] => None
  | (c0, c1) :: r =>
      if N.eqb code c0 || N.eqb code c1
      then (if N.eqb code c0 then Some (label_idx, (-1)%Z) else Some (label_idx, 1%Z))
      else axcode_row code (S label_idx) r
  end.

Definition axcodes2ornt (axcodes : str) : ornt := map (fun c => axcode_row c 0 labels) axcodes.

(** nibabel ornt2axcodes (labels=None): NaN row -> None.  (A row with an axis outside 0..2 raises in
    nibabel; it is given None here - never produced by [io_orientation] on a 4x4 affine.) *)
Definition ornt2axcodes (o : ornt) : list (option N) :=
  map (fun r => match r with
                | None => None
                | Some (ax, d) =>
                    match nth_error labels ax with
                    | None => None
                    | Some (c0, c1) => if Z.eqb d 1 then Some c1 else if Z.eqb d (-1) then Some c0 else None
                    end
                end) o.

(** dcmstack.ornt_transform.  Both arguments are (n,2) arrays; [result = np.empty_like(start)] starts
    as unassigned rows (None).  The inner [for .. else: raise ValueError] is [find_start]. *)
Fixpoint find_start (end_out : nat) (start : ornt) (i : nat) : option (nat * Z) :=
  match start with
  | [] => None
  | Some (so, sf) :: r => if so =? end_out then Some (i, sf) else find_start end_out r (S i)
  | None :: r => find_start end_out r (S i)          (* NaN == x is False *)
  end.

Fixpoint ornt_transform_loop (start : ornt) (end_rows : ornt) (end_in_idx : nat) (result : ornt) : res ornt :=
  match end_rows with
  | [] => Ok result
  | None :: _ => Err EValue                          (* NaN end_out_idx is never found *)
  | Some (eo, ef) :: r =>
      match find_start eo start 0 with
      | None => Err EValue
      | Some (start_in_idx, sf) =>
          let flip := if Z.eqb sf ef then 1%Z else (-1)%Z in
          ornt_transform_loop start r (S end_in_idx) (set_nth start_in_idx (Some (end_in_idx, flip)) result)
      end
  end.

Definition ornt_transform (start_ornt end_ornt : ornt) : res ornt :=
  if negb (length start_ornt =? length end_ornt) then Err EValue
  else ornt_transform_loop start_ornt end_ornt 0 (map (fun _ => None) start_ornt).

(* ------------------------------------------------------------------------- nibabel io_orientation *)

Definition sq (x : Q) : Q := (x * x)%Q.

(** column [j] of the 3x3 part RZS = affine[:3,:3] *)
Definition col3 (A : mat) (j : nat) : list Q := [mentry A 0 j; mentry A 1 j; mentry A 2 j].
Definition norm2 (c : list Q) : Q := fold_right (fun x s => (sq x + s)%Q) 0%Q c.

(** Squares of the entries of column [j] of RS = RZS / zooms ([zooms[zooms == 0] = 1]).

    MODELLING ASSUMPTION.  nibabel then replaces RS by its polar factor R = P[:,keep]·Qs[keep] (SVD).
    When the columns of RZS are mutually orthogonal (non-zero or zero) RS has orthonormal (or zero)
    columns and R = RS; the model takes R := RS.  Inputs covered: affines whose 3x3 part has mutually
    orthogonal columns (every rotation·zoom·axis-permutation/flip), and on which the comparisons
    below are not within floating-point noise of a tie (see [unambiguous] in Spec.v for the class on
    which no comparison matters).  All comparisons are made on squares, in Q. *)
Definition rs2 (A : mat) (j : nat) : list Q :=
  let c := col3 A j in
  let n := norm2 c in
  let n' := if Qeq_bool n 0 then 1%Q else n in
  map (fun x => (sq x / n')%Q) c.

Fixpoint qmax (l : list Q) : Q :=
  match l with
  | [] => 0%Q
  | [x] => x
  | x :: r => let m := qmax r in if Qle_bool m x then x else m
  end.

(** [np.argsort(np.min(-(R**2), axis=0), kind='stable')]: columns by decreasing strength, ties by index. *)
Definition strength (A : mat) (j : nat) : Q := qmax (rs2 A j).
Fixpoint insert_by (key : nat -> Q) (j : nat) (l : list nat) : list nat :=
  match l with
  | [] => [j]
  | k :: r => if Qle_bool (key j) (key k) then k :: insert_by key j r else j :: k :: r
  end.
Definition in_axes (A : mat) : list nat :=
  fold_left (fun l j => insert_by (strength A) j l) [0; 1; 2] [].

(** [np.argmax]: index of the first maximum. *)
Fixpoint argmax_from (l : list Q) (i : nat) (best : nat) (bestv : Q) : nat :=
  match l with
  | [] => best
  | x :: r => if Qle_bool x bestv then argmax_from r (S i) best bestv else argmax_from r (S i) i x
  end.
Definition argmax (l : list Q) : nat :=
  match l with [] => 0 | x :: r => argmax_from r 1 0 x end.

(** (atol of np.allclose)^2 = 1e-16 *)
Definition tol2 : Q := (1 # 10000000000000000)%Q.

(** One iteration of [for in_ax in in_axes]; [zeroed] = rows of R already set to 0. *)
Definition io_step (A : mat) (st : list nat * ornt) (in_ax : nat) : list nat * ornt :=
  let '(zeroed, o) := st in
  let col2 := map (fun ix => if existsb (Nat.eqb (fst ix)) zeroed then 0%Q else snd ix)
                  (combine [0; 1; 2] (rs2 A in_ax)) in
  if forallb (fun x => Qle_bool x tol2) col2 then (zeroed, o)          (* np.allclose(col, 0) *)
  else
    let out_ax := argmax col2 in
    let flip := if Qle_bool 0 (mentry A out_ax in_ax) then 1%Z else (-1)%Z in
    (out_ax :: zeroed, set_nth in_ax (Some (out_ax, flip)) o).

Definition io_orientation (A : mat) : ornt :=
  snd (fold_left (io_step A) (in_axes A) ([], [None; None; None])).

Definition aff2axcodes (A : mat) : list (option N) := ornt2axcodes (io_orientation A).

(* ------------------------------------------------------ nibabel apply_orientation / inv_ornt_aff *)

(** all rows assigned?  -> the rows *)
Fixpoint ornt_rows (o : ornt) : option (list (nat * Z)) :=
  match o with
  | [] => Some []
  | None :: _ => None
  | Some r :: o' => match ornt_rows o' with None => None | Some rs => Some (r :: rs) end
  end.

(** stable argsort of a list of naturals *)
Fixpoint insert_nat (key : nat -> nat) (j : nat) (l : list nat) : list nat :=
  match l with
  | [] => [j]
  | k :: r => if key k <=? key j then k :: insert_nat key j r else j :: k :: r
  end.
Definition argsort_nat (keys : list nat) : list nat :=
  fold_left (fun l j => insert_nat (fun i => nth i keys 0) j l) (seq 0 (length keys)) [].

Fixpoint apply_flips (flips : list Z) (ax : nat) (a : arr) : arr :=
  match flips with
  | [] => a
  | f :: r => apply_flips r (S ax) (if Z.eqb f (-1) then aflip ax a else a)
  end.

Definition apply_orientation (a : arr) (o : ornt) : res arr :=
  let n := length o in
  let ndim := length (ashape a) in
  if ndim <? n then Err ECrash else                    (* OrientationError *)
  match ornt_rows o with
  | None => Err ECrash                                 (* OrientationError: NaN rows *)
  | Some rows =>
      let t := apply_flips (map snd rows) 0 a in
      let full_transpose := argsort_nat (map fst rows) ++ seq n (ndim - n) in
      Ok (atranspose full_transpose t)
  end.

Definition diag_with_last_col (d : list Q) (t : list Q) : mat :=
  (* np.diag(d + [1.0]) with [:p, p] := t *)
  let p := length d in
  map (fun i => map (fun j => if (j =? p) && (i <? p) then nth i t 0%Q
                              else if i =? j then nth i (d ++ [1%Q]) 0%Q else 0%Q) (seq 0 (S p)))
      (seq 0 (S p)).

Definition inv_ornt_aff (o : ornt) (shape : list nat) : res mat :=
  match ornt_rows o with
  | None => Err ECrash                                 (* OrientationError *)
  | Some rows =>
      let p := length rows in
      let shp := firstn p shape in
      if negb (length shp =? p) then Err EValue else   (* broadcasting error *)
      let axis_transpose := map fst rows in
      if negb (forallb (fun ax => ax <=? p) axis_transpose) then Err ECrash else   (* IndexError *)
      let undo_reorder := map (fun ax => nth ax (eye (S p)) []) (axis_transpose ++ [p]) in
      let flips := map (fun r => inject_Z (snd r)) rows in
      let center := map (fun n => (- (inject_Z (Z.of_nat n) - 1) / 2)%Q) shp in
      let trans := map (fun fc => (fst fc * snd fc - snd fc)%Q) (combine flips center) in
      Ok (mmul (diag_with_last_col flips trans) undo_reorder)
  end.

(* ---------------------------------------------------------------------- dcmstack reorder_voxels *)

(** Python [str.upper()] restricted to what can matter: it is exact on every character whose
    upper-casing consists only of letters of "LRAPSI" (a-z, U+00DF -> "SS", U+0131 -> "I",
    U+017F -> "S"; checked against CPython 3.12 over all code points by the harness); every other
    character is left as it is, which is not one of LRAPSI either way, so acceptance and the
    accepted string are exact for ALL strings. *)
Definition upper_cp (c : N) : list N :=
  if (N.leb 97 c && N.leb c 122)%bool then [(c - 32)%N]
  else if N.eqb c 223 then [cS; cS]
  else if N.eqb c 305 then [cI]
  else if N.eqb c 383 then [cS]
  else [c].
Definition upper (s : str) : str := flat_map upper_cp s.

Definition char_in (c : N) (s : str) : bool := existsb (N.eqb c) s.

Definition sLRAPSI : str := [cL; cR; cA; cP; cS; cI].
Definition dcm_axes0 : list str := [[cL; cR]; [cA; cP]; [cS; cI]].

(** [for idx, axis in enumerate(dcm_axes): if char in axis: del dcm_axes[idx]] -- the list iterator is
    a position [i] into the list being mutated: after a deletion the element that moved into
    position [i] is skipped.  [fuel] > number of iterations. *)
Fixpoint del_loop (fuel i : nat) (c : N) (axes : list str) : list str :=
  match fuel with
  | 0 => axes
  | S fuel' =>
      match nth_error axes i with
      | None => axes
      | Some ax => if char_in c ax then del_loop fuel' (S i) c (remove_nth i axes)
                   else del_loop fuel' (S i) c axes
      end
  end.

Fixpoint vo_loop (cs : str) (axes : list str) : res (list str) :=
  match cs with
  | [] => Ok axes
  | c :: r => if negb (char_in c sLRAPSI) then Err EValue
              else vo_loop r (del_loop (S (length axes)) 0 c axes)
  end.

Definition check_voxel_order (voxel_order : str) : res str :=
  let vo := upper voxel_order in
  if negb (length vo =? 3) then Err EValue else
  match vo_loop vo dcm_axes0 with
  | Err e => Err e
  | Ok axes => if negb (length axes =? 0) then Err EValue else Ok vo
  end.

Definition reorder (a : arr) (A : mat4) (voxel_order : str) : res (arr * mat4 * mat4 * ornt) :=
  match check_voxel_order voxel_order with
  | Err e => Err e
  | Ok vo =>
      if length (ashape a) <? 3 then Err EValue else
      if negb (is_shape 4 4 A) then Err EValue else
      let orig_ornt := io_orientation A in
      let new_ornt := axcodes2ornt vo in
      match ornt_transform orig_ornt new_ornt with
      | Err e => Err e
      | Ok ornt_trans =>
          match apply_orientation a ornt_trans with
          | Err e => Err e
          | Ok a' =>
              match inv_ornt_aff ornt_trans (ashape a) with
              | Err e => Err e
              | Ok aff_trans => Ok (a', mmul A aff_trans, aff_trans, ornt_trans)
              end
          end
      end
  end.
