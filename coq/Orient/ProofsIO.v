(** nibabel io_orientation (greedy strongest-first argmax) on unambiguous matrices: the result is the
    dominant row of every column, whatever the processing order. *)
From Coq Require Import List Bool Arith ZArith QArith Lia Lqa.
From DV Require Import Common.Res Orient.Model Orient.Spec Orient.ProofsArr.
Import ListNotations.
Local Open Scope nat_scope.

Definition sgn (A : mat) (d j : nat) : Z := if Qle_bool 0 (mentry A d j) then 1%Z else (-1)%Z.

Lemma Qle_bool_lt x y : (x < y)%Q -> Qle_bool x y = true.
Proof. intros H. apply Qle_bool_iff, Qlt_le_weak, H. Qed.

Lemma Qle_bool_gt x y : (y < x)%Q -> Qle_bool x y = false.
Proof.
  intros H. destruct (Qle_bool x y) eqn:E; [|reflexivity].
  apply Qle_bool_iff in E. exfalso. exact (Qlt_not_le _ _ H E).
Qed.

Lemma sq_nonneg x : (0 <= sq x)%Q.
Proof. unfold sq. nra. Qed.

Lemma argmax3 v0 v1 v2 d :
  d < 3 ->
  (forall i, i < 3 -> i <> d -> (nth i [v0; v1; v2] 0 < nth d [v0; v1; v2] 0)%Q) ->
  argmax [v0; v1; v2] = d.
Proof.
  intros Hd H. unfold argmax. cbn [argmax_from].
  destruct d as [|[|[|d]]]; try lia.
  - pose proof (H 1 ltac:(lia) ltac:(lia)) as H1. pose proof (H 2 ltac:(lia) ltac:(lia)) as H2.
    cbn [nth] in H1, H2. rewrite (Qle_bool_lt _ _ H1), (Qle_bool_lt _ _ H2). reflexivity.
  - pose proof (H 0 ltac:(lia) ltac:(lia)) as H0. pose proof (H 2 ltac:(lia) ltac:(lia)) as H2.
    cbn [nth] in H0, H2. rewrite (Qle_bool_gt _ _ H0), (Qle_bool_lt _ _ H2). reflexivity.
  - pose proof (H 0 ltac:(lia) ltac:(lia)) as H0. pose proof (H 1 ltac:(lia) ltac:(lia)) as H1.
    cbn [nth] in H0, H1. destruct (Qle_bool v1 v0).
    + rewrite (Qle_bool_gt _ _ H0). reflexivity.
    + rewrite (Qle_bool_gt _ _ H1). reflexivity.
Qed.

Lemma dom_facts A j d :
  dominant A j d ->
  (0 < norm2 (col3 A j))%Q /\
  Qeq_bool (norm2 (col3 A j)) 0 = false /\
  (tol2 < sq (mentry A d j) / norm2 (col3 A j))%Q /\
  forall i, i < 3 -> i <> d ->
    (sq (mentry A i j) / norm2 (col3 A j) < sq (mentry A d j) / norm2 (col3 A j))%Q.
Proof.
  intros [Hd H].
  pose proof (sq_nonneg (mentry A 0 j)) as N0. pose proof (sq_nonneg (mentry A 1 j)) as N1.
  pose proof (sq_nonneg (mentry A 2 j)) as N2.
  unfold norm2, col3. cbn [fold_right].
  set (s0 := sq (mentry A 0 j)) in *. set (s1 := sq (mentry A 1 j)) in *. set (s2 := sq (mentry A 2 j)) in *.
  assert (Hn : (0 < s0 + (s1 + (s2 + 0)))%Q /\ (tol2 * (s0 + (s1 + (s2 + 0))) < sq (mentry A d j))%Q).
  { unfold tol2. destruct d as [|[|[|d]]]; try lia.
    - pose proof (H 1 ltac:(lia) ltac:(lia)) as H1. pose proof (H 2 ltac:(lia) ltac:(lia)) as H2.
      fold s0 s1 s2 in H1, H2 |- *. split; lra.
    - pose proof (H 0 ltac:(lia) ltac:(lia)) as H0. pose proof (H 2 ltac:(lia) ltac:(lia)) as H2.
      fold s0 s1 s2 in H0, H2 |- *. split; lra.
    - pose proof (H 0 ltac:(lia) ltac:(lia)) as H0. pose proof (H 1 ltac:(lia) ltac:(lia)) as H1.
      fold s0 s1 s2 in H0, H1 |- *. split; lra. }
  destruct Hn as [Hn Ht]. split; [exact Hn|]. split; [|split].
  - destruct (Qeq_bool _ 0) eqn:E; [|reflexivity]. apply Qeq_bool_iff in E. lra.
  - apply Qlt_shift_div_l; assumption.
  - intros i Hi Hid. unfold Qdiv. apply Qmult_lt_compat_r; [apply Qinv_lt_0_compat, Hn|].
    apply H; assumption.
Qed.

Lemma existsb_notin d zeroed : ~ In d zeroed -> existsb (Nat.eqb d) zeroed = false.
Proof.
  intros H. destruct (existsb (Nat.eqb d) zeroed) eqn:E; [|reflexivity].
  apply existsb_exists in E as (x & Hx & Hdx). apply Nat.eqb_eq in Hdx. subst x. contradiction.
Qed.

Lemma io_step_dom A zeroed o j d :
  dominant A j d -> ~ In d zeroed ->
  io_step A (zeroed, o) j = (d :: zeroed, set_nth j (Some (d, sgn A d j)) o).
Proof.
  intros Hdom Hnz. destruct (dom_facts A j d Hdom) as (Hn & Hne & Htol & Hlt).
  destruct Hdom as [Hd _].
  unfold io_step, rs2. cbv zeta. rewrite Hne.
  set (n := norm2 (col3 A j)) in *.
  set (w := fun i => if existsb (Nat.eqb i) zeroed then 0%Q else (sq (mentry A i j) / n)%Q).
  change (map (fun ix : nat * Q => if existsb (Nat.eqb (fst ix)) zeroed then 0%Q else snd ix)
              (combine [0; 1; 2] (map (fun x => (sq x / n)%Q) (col3 A j))))
    with [w 0; w 1; w 2].
  assert (Hwd : w d = (sq (mentry A d j) / n)%Q) by (unfold w; rewrite existsb_notin by exact Hnz; reflexivity).
  assert (Htol0 : (0 < tol2)%Q) by (unfold tol2; reflexivity).
  assert (Hw : forall i, i < 3 -> i <> d -> (w i < w d)%Q).
  { intros i Hi Hid. rewrite Hwd. unfold w. destruct (existsb (Nat.eqb i) zeroed); [lra|]. apply Hlt; assumption. }
  assert (Hall : forallb (fun x => Qle_bool x tol2) [w 0; w 1; w 2] = false).
  { assert (G : Qle_bool (w d) tol2 = false) by (apply Qle_bool_gt; rewrite Hwd; exact Htol).
    cbn [forallb]. destruct d as [|[|[|d]]]; try lia; rewrite G;
      rewrite ?andb_false_r, ?andb_false_l; reflexivity. }
  rewrite Hall.
  assert (Harg : argmax [w 0; w 1; w 2] = d).
  { apply argmax3; [exact Hd|]. intros i Hi Hid.
    replace (nth i [w 0; w 1; w 2] 0%Q) with (w i) by (destruct i as [|[|[|i]]]; try lia; reflexivity).
    replace (nth d [w 0; w 1; w 2] 0%Q) with (w d) by (destruct d as [|[|[|d]]]; try lia; reflexivity).
    apply Hw; assumption. }
  rewrite Harg. reflexivity.
Qed.

Lemma in_axes_perm A : In (in_axes A) perms3.
Proof.
  unfold in_axes. cbn [fold_left insert_by].
  repeat (match goal with
          | |- context [if Qle_bool ?a ?b then _ else _] => destruct (Qle_bool a b)
          end; cbn [insert_by]);
    cbn [In perms3]; auto 10.
Qed.

Theorem io_orientation_unamb A d0 d1 d2 :
  dominant A 0 d0 -> dominant A 1 d1 -> dominant A 2 d2 ->
  d0 <> d1 -> d1 <> d2 -> d0 <> d2 ->
  io_orientation A = [Some (d0, sgn A d0 0); Some (d1, sgn A d1 1); Some (d2, sgn A d2 2)].
Proof.
  intros D0 D1 D2 N01 N12 N02. unfold io_orientation.
  pose proof (in_axes_perm A) as Hin. cbn [In perms3] in Hin.
  repeat (destruct Hin as [<-|Hin]); try contradiction; cbn [fold_left];
    repeat (erewrite io_step_dom; [| eassumption | cbn [In]; intuition congruence]);
    reflexivity.
Qed.
