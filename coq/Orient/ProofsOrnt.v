(** Orientation arrays: shape of [io_orientation]'s result, the 48 codes, and [ornt_transform]
    decided over the finite set of 3-row orientations. *)
From Coq Require Import List Bool Arith ZArith NArith QArith Lia.
From DV Require Import Common.Res Common.Str Orient.Model Orient.Spec Orient.ProofsCode.
Import ListNotations.
Local Open Scope nat_scope.

(* ------------------------------------------------------------ rows produced by io_orientation *)

Definition row_ok (r : ornt_row) : bool :=
  match r with None => true | Some (i, f) => (i <? 3) && is_flip f end.
Definition ornt_ok (o : ornt) : bool := (length o =? 3) && forallb row_ok o.

Lemma set_nth_length {A} (l : list A) : forall k x, length (set_nth k x l) = length l.
Proof. induction l as [|y l IH]; intros [|k] x; cbn [set_nth length]; auto. Qed.

Lemma set_nth_forallb {A} (p : A -> bool) (l : list A) : forall k x,
  p x = true -> forallb p l = true -> forallb p (set_nth k x l) = true.
Proof.
  induction l as [|y l IH]; intros [|k] x Hx H; cbn [set_nth forallb] in *; auto.
  - apply andb_prop in H as [_ H]. rewrite Hx, H. reflexivity.
  - apply andb_prop in H as [Hy H]. rewrite Hy, IH; auto.
Qed.

Lemma argmax_from_lt l : forall i best bestv, best < i -> argmax_from l i best bestv < i + length l.
Proof.
  induction l as [|x l IH]; intros i best bestv H; cbn [argmax_from length]; [lia|].
  destruct (Qle_bool x bestv).
  - specialize (IH (S i) best bestv). lia.
  - specialize (IH (S i) i x). lia.
Qed.

Lemma argmax_lt l : l <> [] -> argmax l < length l.
Proof.
  destruct l as [|x l]; [congruence|]. intros _. unfold argmax.
  pose proof (argmax_from_lt l 1 0 x). cbn [length]. lia.
Qed.

Lemma io_step_ok A st j : ornt_ok (snd st) = true -> ornt_ok (snd (io_step A st j)) = true.
Proof.
  destruct st as [zeroed o]. unfold io_step. cbn [snd]. intros H.
  set (col2 := map _ (combine [0; 1; 2] (rs2 A j))).
  destruct (forallb _ col2); cbn [snd]; [exact H|].
  unfold ornt_ok in *. apply andb_prop in H as [Hl Hf].
  rewrite set_nth_length, Hl. cbn [andb]. apply set_nth_forallb; [|exact Hf].
  cbn [row_ok]. apply andb_true_intro. split.
  - apply Nat.ltb_lt. assert (Hlen : length col2 = 3) by reflexivity.
    rewrite <- Hlen. apply argmax_lt. destruct col2; [discriminate | congruence].
  - destruct (Qle_bool 0 _); reflexivity.
Qed.

Lemma io_orientation_ok A : ornt_ok (io_orientation A) = true.
Proof.
  unfold io_orientation.
  assert (G : forall l st, ornt_ok (snd st) = true -> ornt_ok (snd (fold_left (io_step A) l st)) = true).
  { induction l as [|j l IH]; intros st H; cbn [fold_left]; [exact H|]. apply IH, io_step_ok, H. }
  apply G. reflexivity.
Qed.

(* --------------------------------------------------------------- the finite set of orientations *)

Definition all_rows : list ornt_row :=
  [None; Some (0, 1%Z); Some (0, (-1)%Z); Some (1, 1%Z); Some (1, (-1)%Z); Some (2, 1%Z); Some (2, (-1)%Z)].
Definition all_ornt3 : list ornt :=
  flat_map (fun r0 => flat_map (fun r1 => map (fun r2 => [r0; r1; r2]) all_rows) all_rows) all_rows.

Lemma row_ok_in r : row_ok r = true -> In r all_rows.
Proof.
  destruct r as [[i f]|]; cbn [row_ok]; [|intros _; left; reflexivity].
  intros H. apply andb_prop in H as [Hi Hf]. apply Nat.ltb_lt in Hi.
  unfold is_flip in Hf. apply orb_prop in Hf.
  destruct Hf as [Hf|Hf]; apply Z.eqb_eq in Hf; subst f;
    destruct i as [|[|[|i]]]; try lia; cbn [all_rows In]; auto 10.
Qed.

Lemma ornt_ok_in o : ornt_ok o = true -> In o all_ornt3.
Proof.
  unfold ornt_ok. intros H. apply andb_prop in H as [Hl Hf].
  destruct o as [|r0 [|r1 [|r2 [|r3 o]]]]; try discriminate.
  cbn [forallb] in Hf. apply andb_prop in Hf as [H0 Hf]. apply andb_prop in Hf as [H1 Hf].
  apply andb_prop in Hf as [H2 _].
  unfold all_ornt3. apply in_flat_map. exists r0. split; [apply row_ok_in, H0|].
  apply in_flat_map. exists r1. split; [apply row_ok_in, H1|].
  apply (in_map (fun r => [r0; r1; r])), row_ok_in, H2.
Qed.

(* ------------------------------------------------------------------------------ the 48 codes *)

Definition letters : str := [cL; cR; cA; cP; cS; cI].
Definition triples : list str :=
  flat_map (fun a => flat_map (fun b => map (fun c => [a; b; c]) letters) letters) letters.
Definition code_ok (s : str) : bool :=
  match s with
  | [a; b; c] =>
      match axis_of a, axis_of b, axis_of c with
      | Some x, Some y, Some z => negb (x =? y) && negb (y =? z) && negb (x =? z)
      | _, _, _ => false
      end
  | _ => false
  end.
Definition codes48 : list str := filter code_ok triples.

Lemma codes48_length : length codes48 = 48.
Proof. vm_compute. reflexivity. Qed.

Lemma axis_of_letter c x : axis_of c = Some x -> In c letters.
Proof.
  unfold axis_of, letters. cbn [In].
  destruct (N.eqb_spec c cL); [auto|]. destruct (N.eqb_spec c cR); [auto 10|].
  destruct (N.eqb_spec c cA); [auto 10|]. destruct (N.eqb_spec c cP); [auto 10|].
  destruct (N.eqb_spec c cS); [auto 10|]. destruct (N.eqb_spec c cI); [auto 10|].
  cbn [orb]. discriminate.
Qed.

Lemma valid_in_codes48 s : valid_codeb s = true -> In (upper s) codes48.
Proof.
  unfold valid_codeb, codes48. intros H. apply filter_In.
  destruct (upper s) as [|a [|b [|c [|d l]]]]; try discriminate.
  split; [|exact H].
  destruct (axis_of a) as [x|] eqn:Ea; try discriminate.
  destruct (axis_of b) as [y|] eqn:Eb; try discriminate.
  destruct (axis_of c) as [z|] eqn:Ec; try discriminate.
  unfold triples. apply in_flat_map. exists a. split; [eapply axis_of_letter, Ea|].
  apply in_flat_map. exists b. split; [eapply axis_of_letter, Eb|].
  apply (in_map (fun c0 => [a; b; c0])). eapply axis_of_letter, Ec.
Qed.

Lemma codes48_valid s : In (upper s) codes48 -> valid_codeb s = true.
Proof.
  unfold codes48, valid_codeb. intros H. apply filter_In in H as [_ H]. exact H.
Qed.

(** facts about the 48 codes, decided by computation *)
Definition opt_str_eqb (a : list (option N)) (b : str) : bool :=
  (length a =? length b) &&
  forallb (fun xy => match fst xy with Some x => N.eqb x (snd xy) | None => false end) (combine a b).

Lemma opt_str_eqb_eq a b : opt_str_eqb a b = true -> a = map Some b.
Proof.
  unfold opt_str_eqb. revert b. induction a as [|x a IH]; intros [|y b] H; try discriminate; [reflexivity|].
  cbn [length Nat.eqb combine forallb fst snd] in H.
  apply andb_prop in H as [Hl H]. apply andb_prop in H as [Hx H].
  destruct x as [x|]; [|discriminate]. apply N.eqb_eq in Hx. subst y.
  cbn [map]. f_equal. apply IH. rewrite Hl, H. reflexivity.
Qed.

Lemma codes48_facts :
  forallb (fun c => is_sperm (axcodes2ornt c) && opt_str_eqb (ornt2axcodes (axcodes2ornt c)) c) codes48 = true.
Proof. vm_compute. reflexivity. Qed.

Lemma code_sperm c : In c codes48 -> is_sperm (axcodes2ornt c) = true.
Proof.
  intros H. pose proof (proj1 (forallb_forall _ _) codes48_facts c H) as G.
  apply andb_prop in G as [G _]. exact G.
Qed.

Lemma code_axcodes c : In c codes48 -> ornt2axcodes (axcodes2ornt c) = map Some c.
Proof.
  intros H. pose proof (proj1 (forallb_forall _ _) codes48_facts c H) as G.
  apply andb_prop in G as [_ G]. apply opt_str_eqb_eq, G.
Qed.

(* ------------------------------------------------- ornt_transform over the finite domain *)

(** [t] relates [s] (start) and [e] (end): row k of t is (j, f) where row j of e names the same output
    axis as row k of s, and f is the product of the two flips. *)
Definition rel_row (s e : ornt) (k : nat) (tr : ornt_row) : bool :=
  match tr, nth k s None with
  | Some (j, f), Some (so, sf) =>
      match nth j e None with
      | Some (eo, ef) => (eo =? so) && Z.eqb ef (sf * f)
      | None => false
      end
  | _, _ => false
  end.
Definition transform_good (s e : ornt) : bool :=
  match ornt_transform s e with
  | Err EValue => true
  | Err _ => false
  | Ok t => is_sperm t && is_sperm s &&
            forallb (fun kt => rel_row s e (fst kt) (snd kt)) (combine [0; 1; 2] t)
  end.

Lemma transform_table :
  forallb (fun s => forallb (fun c => transform_good s (axcodes2ornt c)) codes48) all_ornt3 = true.
Proof. vm_compute. reflexivity. Qed.

Lemma transform_good_in s c :
  ornt_ok s = true -> In c codes48 -> transform_good s (axcodes2ornt c) = true.
Proof.
  intros Hs Hc. apply ornt_ok_in in Hs.
  pose proof (proj1 (forallb_forall _ _) transform_table s Hs) as G.
  exact (proj1 (forallb_forall _ _) G c Hc).
Qed.

(** a complete start orientation (a signed permutation) is always transformable *)
Definition transform_total (s e : ornt) : bool :=
  if is_sperm s then match ornt_transform s e with Ok _ => true | Err _ => false end else true.
Lemma transform_total_table :
  forallb (fun s => forallb (fun c => transform_total s (axcodes2ornt c)) codes48) all_ornt3 = true.
Proof. vm_compute. reflexivity. Qed.

Lemma is_sperm_ok s : is_sperm s = true -> ornt_ok s = true.
Proof.
  unfold is_sperm, ornt_ok.
  destruct s as [|[[p0 f0]|] [|[[p1 f1]|] [|[[p2 f2]|] [|r s]]]]; try discriminate.
  intros H. repeat (apply andb_prop in H as [H ?]).
  unfold is_perm3 in H. repeat (apply andb_prop in H as [H ?]).
  cbn [length Nat.eqb forallb row_ok andb].
  repeat match goal with E : _ = true |- _ => rewrite E; clear E end. reflexivity.
Qed.

Lemma transform_total_in s c :
  is_sperm s = true -> In c codes48 -> exists t, ornt_transform s (axcodes2ornt c) = Ok t.
Proof.
  intros Hs Hc. pose proof (ornt_ok_in s (is_sperm_ok s Hs)) as Hin.
  pose proof (proj1 (forallb_forall _ _) transform_total_table s Hin) as G.
  pose proof (proj1 (forallb_forall _ _) G c Hc) as G'. unfold transform_total in G'.
  rewrite Hs in G'. destruct (ornt_transform s (axcodes2ornt c)) as [t|]; [eauto | discriminate].
Qed.
