(** Axis-aligned affines are unambiguous; the summary lemma for the error behaviour. *)
From Coq Require Import List Bool Arith ZArith NArith QArith Lia Lqa.
From DV Require Import Common.Res Common.Str Orient.Model Orient.Spec
  Orient.ProofsCode Orient.ProofsArr Orient.ProofsOrnt Orient.ProofsIO Orient.ProofsAff Orient.Proofs.
Import ListNotations.
Local Open Scope nat_scope.

(** signed permutation x non-zero zooms: each column of the 3x3 part has exactly one non-zero entry,
    in pairwise different rows *)
Definition axis_aligned (A : mat) : Prop :=
  exists d0 d1 d2, d0 < 3 /\ d1 < 3 /\ d2 < 3 /\ d0 <> d1 /\ d1 <> d2 /\ d0 <> d2 /\
    forall j d, In (j, d) [(0, d0); (1, d1); (2, d2)] ->
      ~ (mentry A d j == 0)%Q /\ forall i, i < 3 -> i <> d -> (mentry A i j == 0)%Q.

Lemma axis_aligned_unambiguous A : axis_aligned A -> unambiguous A.
Proof.
  intros (d0 & d1 & d2 & L0 & L1 & L2 & N01 & N12 & N02 & H).
  assert (G : forall j d, In (j, d) [(0, d0); (1, d1); (2, d2)] -> d < 3 -> dominant A j d).
  { intros j d Hin Ld. destruct (H j d Hin) as [Hnz Hz]. split; [exact Ld|].
    intros i Hi Hid. unfold sq. rewrite (Hz i Hi Hid).
    assert (0 < mentry A d j * mentry A d j)%Q; [|lra].
    destruct (Qlt_le_dec 0 (mentry A d j)); [nra|].
    destruct (Qlt_le_dec (mentry A d j) 0); [nra|]. exfalso. apply Hnz. lra. }
  exists d0, d1, d2. repeat split; try assumption; apply G; cbn [In]; auto.
Qed.

Theorem reorder_errors :
  (forall a A code, ~ valid_code code -> reorder a A code = Err EValue) /\
  (forall a A code, length (ashape a) < 3 -> reorder a A code = Err EValue) /\
  (forall a A code, is_shape 4 4 A = false -> reorder a A code = Err EValue) /\
  (forall code, valid_code code -> check_voxel_order code = Ok (upper code)) /\
  (forall a A code, valid_code code -> 3 <= length (ashape a) -> is_shape 4 4 A = true ->
                    unambiguous A -> exists r, reorder a A code = Ok r) /\
  (forall a A code e, reorder a A code = Err e -> e = EValue).
Proof.
  split; [exact reorder_invalid_code|]. split; [exact reorder_low_dim|].
  split; [exact reorder_bad_affine|]. split; [exact check_voxel_order_valid|].
  split; [|exact reorder_only_value_error].
  intros a A code Hv Hnd HA Hu. apply reorder_succeeds; auto using unambiguous_sperm.
Qed.
