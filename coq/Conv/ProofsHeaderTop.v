(** The C20 header lemmas for stacks reachable by a history of operations. *)
From Coq Require Import List Bool Arith ZArith NArith QArith Qcanon Lia.
From DV Require Import Common.Res Common.Str Common.F64 Generated.T_conv
  Stack.Model Stack.Spec Stack.ProofsShape Stack.ProofsInv
  Orient.Model Orient.Spec Orient.ProofsAff
  Conv.Geom Conv.GeomSpec Conv.Header Conv.ProofsGeomAff Conv.ProofsHeader.
Import ListNotations.
Local Open Scope nat_scope.

Lemma slice_axis_reachable : forall gs st code embed st' go h,
  reachable st -> gfiles_ok gs st ->
  conv gs st code embed = (st', Ok (go, h)) ->
  exists S T V r c f2,
    0 < S /\ 0 < T /\ 0 < V /\ o_shape (go_nifti go) = grid_shape r c S T V /\
    h_slice_dim h = nth 2 (go_perm go) 0 /\ snd (h_dim_info h) = Some (h_slice_dim h) /\
    h_slice_dim h < 3 /\ h_n_slices h = S /\ nth (h_slice_dim h) (ashape (go_data go)) 0 = S /\
    nth 2 (go_flips go) 1%Z = f2 /\
    (forall idx' i j s t v,
       s < S -> t < T -> v < V ->
       in_bounds (ashape (go_data go)) idx' = true ->
       apply_aff (go_T go) idx' = Some (cell_idx (length (grid_shape r c S T V)) i j s t v) ->
       nth (h_slice_dim h) idx' 0 = cf f2 S s) /\
    (forall idx1 idx2 i j s1 s2 t v a,
       s1 < S -> s2 < S -> t < T -> v < V ->
       in_bounds (ashape (go_data go)) idx1 = true -> in_bounds (ashape (go_data go)) idx2 = true ->
       apply_aff (go_T go) idx1 = Some (cell_idx (length (grid_shape r c S T V)) i j s1 t v) ->
       apply_aff (go_T go) idx2 = Some (cell_idx (length (grid_shape r c S T V)) i j s2 t v) ->
       a <> h_slice_dim h -> nth a idx1 0 = nth a idx2 0) /\
    (forall vol k, vol < T * V -> k < S ->
       file_at gs (o_order (go_nifti go)) (vol * S + k) = file_at gs (go_ord0 go) (vol * S + cf f2 S k)).
Proof. intros gs st code embed st' go h Hr. exact (hdr_slice_axis gs st code embed st' go h (reachable_wf st Hr)). Qed.

Lemma freq_phase_reachable : forall gs st code embed st' go h,
  reachable st -> conv gs st code embed = (st', Ok (go, h)) ->
  let perm := go_perm go in
  (forall p, pe_dirs st = [Some p] -> p = phase_row ->
     h_dim_info h = (Some (nth 0 perm 0), Some (nth 1 perm 0), Some (nth 2 perm 0))) /\
  (forall p, pe_dirs st = [Some p] -> p <> phase_row ->
     h_dim_info h = (Some (nth 1 perm 0), Some (nth 0 perm 0), Some (nth 2 perm 0))) /\
  ((forall p, pe_dirs st <> [Some p]) ->
     h_dim_info h = (None, None, Some (nth 2 perm 0))).
Proof. intros gs st code embed st' go h Hr. exact (hdr_freq_phase gs st code embed st' go h (reachable_wf st Hr)). Qed.

Lemma directions_reachable : forall gs st code embed st' go h,
  reachable st -> conv gs st code embed = (st', Ok (go, h)) ->
  (forall k i, k < 3 -> i < 3 ->
     (mentry (go_aff go) i (nth k (go_perm go) 0%nat) == inject_Z (nth k (go_flips go) 1%Z) * mentry (go_aff0 go) i k)%Q) /\
  (forall k, k < 3 -> (nth k (go_flips go) 1%Z = 1%Z \/ nth k (go_flips go) 1%Z = (-1)%Z)) /\
  (forall i, i < 3 ->
     (mentry (go_aff0 go) i 0 == sg i * (vget (row_dir (go_first go)) i * fst (g_ps (go_first go))))%Q /\
     (mentry (go_aff0 go) i 1 == sg i * (vget (col_dir (go_first go)) i * snd (g_ps (go_first go))))%Q).
Proof. intros gs st code embed st' go h Hr. exact (hdr_directions gs st code embed st' go h (reachable_wf st Hr)). Qed.

Lemma tr_reachable : forall gs st code embed st' go h,
  reachable st -> conv gs st code embed = (st', Ok (go, h)) ->
  h_units h = xyzt_units /\
  (forall q, h_pixdim4 h = Some q <-> exists tr : Qc, rep_times st = [Some tr] /\ q = this tr).
Proof. intros gs st code embed st' go h Hr. exact (hdr_tr gs st code embed st' go h (reachable_wf st Hr)). Qed.

Lemma slice_times_reachable : forall gs st code embed st' go h,
  reachable st -> gfiles_ok gs st ->
  conv gs st code embed = (st', Ok (go, h)) ->
  exists S T V r c,
    0 < S /\ 0 < T /\ 0 < V /\ o_shape (go_nifti go) = grid_shape r c S T V /\
    let fin := o_order (go_nifti go) in
    forall l,
      h_slice_times h = Some l <->
      (1 < S /\ forallb (has_acq gs) fin = true /\
       rel_times gs (firstn S fin) = Ok l /\
       (forall vol, 1 <= vol < T * V ->
          exists lv, rel_times gs (chunk_at S vol fin) = Ok lv /\ close_list np_rtol np_atol l lv = true) /\
       all_zero l = false).
Proof. intros gs st code embed st' go h Hr. exact (hdr_slice_times gs st code embed st' go h (reachable_wf st Hr)). Qed.

(** what [rel_times] hands over: element k is (acquisition time of the k-th file) - (the earliest of them),
    one float subtraction each *)
Lemma rel_times_meaning : forall gs idl l,
  rel_times gs idl = Ok l <->
  exists ts, mapM (acq_seconds gs) idl = Ok ts /\ l = map (fun x => fsub x (qmin ts)) ts.
Proof. exact rel_times_spec. Qed.
