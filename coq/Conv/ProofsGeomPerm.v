(** Arrays related by a bijection of their index spaces hold the same multiset of values. *)
From Coq Require Import List Bool Arith ZArith Lia Permutation.
From DV Require Import Orient.Model Orient.ProofsArr.
Import ListNotations.
Local Open Scope nat_scope.

Lemma flat_map_seq_blocks P : forall n s,
  flat_map (fun i => seq (i * P) P) (seq s n) = seq (s * P) (n * P).
Proof.
  induction n as [|n IH]; intros s; cbn [seq flat_map]; [reflexivity|].
  rewrite IH. replace (S n * P) with (P + n * P) by lia. rewrite seq_app. f_equal. f_equal. lia.
Qed.

Lemma map_add_seq a : forall m s, map (fun k => a + k) (seq s m) = seq (a + s) m.
Proof.
  induction m as [|m IH]; intros s; cbn [seq map]; [reflexivity|].
  rewrite IH. f_equal. f_equal. lia.
Qed.

(** the C-order offsets of [all_indices sh] are 0, 1, 2, ... *)
Lemma offsets_all_indices sh : map (offset sh) (all_indices sh) = seq 0 (prod sh).
Proof.
  induction sh as [|n sh IH]; [reflexivity|].
  cbn [all_indices prod]. rewrite flat_map_concat_map, concat_map, map_map, <- flat_map_concat_map.
  rewrite (flat_map_ext _ (fun i => seq (i * prod sh) (prod sh))).
  - rewrite flat_map_seq_blocks. reflexivity.
  - intros i. rewrite map_map. cbn [offset].
    rewrite <- (map_map (offset sh) (fun k => i * prod sh + k)), IH.
    rewrite map_add_seq. f_equal. lia.
Qed.

Lemma all_indices_nodup sh : NoDup (all_indices sh).
Proof.
  apply (NoDup_map_inv (offset sh)). rewrite offsets_all_indices. apply seq_NoDup.
Qed.

Lemma map_nth_seq {A} (l : list A) d : map (fun k => nth k l d) (seq 0 (length l)) = l.
Proof.
  induction l as [|x l IH]; [reflexivity|].
  cbn [length seq map nth]. f_equal. rewrite <- seq_shift, map_map. exact IH.
Qed.

(** a well-formed array is the tabulation of its own contents *)
Lemma adata_all_indices a :
  wf_arr a -> adata a = map (fun idx => oz (aget a idx)) (all_indices (ashape a)).
Proof.
  intros Hwf. unfold wf_arr in Hwf.
  rewrite <- (map_nth_seq (adata a) 0%Z) at 1. rewrite Hwf, <- offsets_all_indices, map_map.
  apply map_ext_in. intros idx Hin. apply all_indices_in in Hin.
  unfold aget. rewrite Hin.
  pose proof (offset_lt _ _ Hin) as Hlt. rewrite <- Hwf in Hlt.
  rewrite (nth_error_nth' _ 0%Z Hlt). reflexivity.
Qed.

Lemma nodup_map_inj_in {A B} (f : A -> B) (l : list A) :
  (forall x y, In x l -> In y l -> f x = f y -> x = y) -> NoDup l -> NoDup (map f l).
Proof.
  intros Hinj Hnd. induction Hnd as [|x l Hx Hnd IH]; cbn [map]; constructor.
  - intros Hin. apply in_map_iff in Hin. destruct Hin as (y & Hy & Hyl).
    assert (y = x) by (apply Hinj; [right; exact Hyl | left; reflexivity | exact Hy]). subst y. contradiction.
  - apply IH. intros a b Ha Hb. apply Hinj; right; assumption.
Qed.

(** the values of [b] are those of [a] read through a bijection [src] of the index spaces *)
Theorem bijection_permutation (a b : arr) (src : list nat -> list nat) :
  wf_arr a -> wf_arr b ->
  (forall idx', in_bounds (ashape b) idx' = true ->
     in_bounds (ashape a) (src idx') = true /\ aget b idx' = aget a (src idx')) ->
  (forall i1 i2, in_bounds (ashape b) i1 = true -> in_bounds (ashape b) i2 = true -> src i1 = src i2 -> i1 = i2) ->
  (forall idx, in_bounds (ashape a) idx = true -> exists idx', in_bounds (ashape b) idx' = true /\ src idx' = idx) ->
  Permutation (adata b) (adata a).
Proof.
  intros Ha Hb Hval Hinj Hsur.
  rewrite (adata_all_indices a Ha), (adata_all_indices b Hb).
  rewrite (map_ext_in _ (fun idx' => oz (aget a (src idx')))).
  - rewrite <- (map_map src (fun idx => oz (aget a idx))). apply Permutation_map.
    apply NoDup_Permutation.
    + apply nodup_map_inj_in; [|apply all_indices_nodup].
      intros x y Hx Hy. apply Hinj; apply all_indices_in; assumption.
    + apply all_indices_nodup.
    + intros idx. rewrite in_map_iff, all_indices_in. split.
      * intros (idx' & <- & Hin). apply all_indices_in in Hin. apply Hval, Hin.
      * intros Hin. destruct (Hsur idx Hin) as (idx' & Hb' & <-). exists idx'. split; [reflexivity|].
        apply all_indices_in, Hb'.
  - intros idx' Hin. apply all_indices_in in Hin. destruct (Hval idx' Hin) as [_ ->]. reflexivity.
Qed.
