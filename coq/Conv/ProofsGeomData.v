(** C02 (a), (b): every source pixel is found exactly once in the output array, at a voxel whose world
    coordinates are the pixel's patient position. *)
From Coq Require Import List Bool Arith ZArith NArith QArith Qcanon Lia Lqa Permutation.
From DV Require Import Common.Res Common.Str Generated.T_conv
  Stack.Model Stack.Sort Stack.Order Stack.Spec Stack.ProofsOrder Stack.ProofsShape Stack.ProofsInv Stack.ProofsC11
  Orient.Model Orient.Spec Orient.ProofsArr Orient.ProofsAff Orient.ProofsOrnt Orient.Proofs
  Conv.Geom Conv.GeomSpec Conv.ProofsGeomBase Conv.ProofsGeomReorient Conv.ProofsGeomAff.
Import ListNotations.
Local Open Scope nat_scope.

Lemma cell_pos_lt S T V s t v : s < S -> t < T -> v < V -> cell_pos S T s t v < V * T * S.
Proof.
  intros Hs Ht Hv. unfold cell_pos.
  assert (H2 : t * S + s < T * S) by nia.
  assert (H3 : v * (T * S) + T * S <= V * (T * S)).
  { replace (v * (T * S) + T * S) with ((v + 1) * (T * S)) by lia. apply Nat.mul_le_mono_r. lia. }
  replace (V * T * S) with (V * (T * S)) by lia. lia.
Qed.

(** Everything a successful conversion of a well-formed stack establishes, in one place. *)
Lemma conv_setup gs st code embed st' go :
  wf st -> conv_geom gs st code embed = (st', Ok go) ->
  exists st1 st2 i0 col S T V r c,
    get_data st = (st1, Ok (go_ord0 go, grid_shape r c S T V)) /\ wf st1 /\
    get_affine st1 = (st2, Ok (i0, col)) /\ files_info st2 = files_info st1 /\
    go_ord0 go = ids (files_info st1) /\ Permutation (files st1) (files st) /\
    0 < S /\ 0 < T /\ 0 < V /\ length (files_info st1) = V * T * S /\
    (forall f, In f (files st1) -> f_rows f = r /\ f_cols f = c) /\
    i0 = f_id (e_file (nth 0 (files_info st1) dflt_entry)) /\
    (1 < S -> col = Some (i0, f_id (e_file (nth 1 (files_info st1) dflt_entry)))) /\
    length (files_info st1) / nvols_of_shape (grid_shape r c S T V) = S /\
    glookup gs i0 = Some (go_first go) /\ stack_affine gs i0 col = Ok (go_aff0 go) /\
    go_data0 go = stack_data gs (go_ord0 go) (grid_shape r c S T V) /\
    reorient (go_data0 go) (go_aff0 go) code = Ok (go_data go, go_aff go, go_T go, go_ornt go) /\
    to_nifti st (vorder_of (files_info st2) code (go_ornt go)) embed = (st', Ok (go_nifti go)) /\
    rep_times st2 = rep_times st /\ pe_dirs st2 = pe_dirs st /\
    (gfiles_of gs (go_ord0 go) = Ok (go_files go) /\ out_dtype (go_files go) = Ok (go_dtype go)) /\
    go_perm go = ornt_perm (go_ornt go) /\ go_flips go = ornt_flips (go_ornt go).
Proof.
  intros Hwf H.
  destruct (conv_geom_ok _ _ _ _ _ _ H) as (st1 & st2 & sh & i0 & col & Hd & Ha & Hg0 & HA0 & Hd0 & Hre & Hn & Hdt & Hpm & Hfl).
  destruct (get_data_grid st st1 _ sh Hwf Hd) as (Hwf1 & Hord & Hsh1 & Hperm & Hrt & Hpe & S & T & V & r & c & HS & HT & HV & -> & Hlen & Hrc).
  destruct (get_affine_clean st1 _ st2 i0 col Hsh1 Ha) as (Hfi2 & Hrt2 & Hpe2 & Hi0 & Hcol).
  assert (Hfpv : length (files_info st1) / nvols_of_shape (grid_shape r c S T V) = S).
  { rewrite nvols_grid, Hlen. replace (V * T * S) with (S * (T * V)) by lia. apply Nat.div_mul. nia. }
  exists st1, st2, i0, col, S, T, V, r, c.
  repeat (split; [first [assumption | congruence]|]).
  split; [intros HS1; apply Hcol; rewrite Hfpv; exact HS1|].
  repeat (split; [first [assumption | congruence]|]). assumption.
Qed.

(* ------------------------------------------------------------------------------------------ *)
(** * (a) values *)

Theorem conv_values gs st code embed st' go :
  wf st -> gfiles_ok gs st ->
  conv_geom gs st code embed = (st', Ok go) ->
  exists S T V r c,
    0 < S /\ 0 < T /\ 0 < V /\
    o_shape (go_nifti go) = grid_shape r c S T V /\
    length (go_ord0 go) = V * T * S /\
    (forall s t v i j, s < S -> t < T -> v < V -> i < r -> j < c ->
       exists g z idx',
         file_at gs (go_ord0 go) (cell_pos S T s t v) = Some g /\ pix_at g i j = Some z /\
         in_bounds (ashape (go_data go)) idx' = true /\
         apply_aff (go_T go) idx' = Some (cell_idx (length (grid_shape r c S T V)) i j s t v) /\
         aget (go_data go) idx' = Some z /\
         forall idx'', in_bounds (ashape (go_data go)) idx'' = true ->
           apply_aff (go_T go) idx'' = Some (cell_idx (length (grid_shape r c S T V)) i j s t v) -> idx'' = idx') /\
    (forall idx', in_bounds (ashape (go_data go)) idx' = true ->
       exists s t v i j, s < S /\ t < T /\ v < V /\ i < r /\ j < c /\
         apply_aff (go_T go) idx' = Some (cell_idx (length (grid_shape r c S T V)) i j s t v)).
Proof.
  intros Hwf Hok H.
  destruct (conv_setup _ _ _ _ _ _ Hwf H)
    as (st1 & st2 & i0 & col & S & T & V & r & c & Hd & Hwf1 & Ha & Hfi2 & Hord & Hperm & HS & HT & HV & Hlen & Hrc
        & Hi0 & Hcol & Hfpv & Hg0 & HA0 & Hd0 & Hre & Hn & _).
  set (sh := grid_shape r c S T V) in *.
  assert (Hlo : length (go_ord0 go) = V * T * S) by (rewrite Hord; unfold ids; rewrite map_length; exact Hlen).
  assert (Hsh0 : ashape (go_data0 go) = sh) by (rewrite Hd0; apply stack_data_shape; assumption).
  assert (Hwf0 : wf_arr (go_data0 go)) by (rewrite Hd0; apply stack_data_wf).
  assert (Hnd : 3 <= length (ashape (go_data0 go))) by (rewrite Hsh0; apply grid_shape_length).
  destruct (reorient_facts _ _ _ _ _ _ _ Hwf0 Hnd (stack_affine_shape _ _ _ _ HA0) Hre)
    as (p0 & f0 & p1 & f1 & p2 & f2 & n0 & n1 & n2 & rest & Ho & Hp & F0 & F1 & F2 & Hshd & _ & Hval & Hex & Hinj & _).
  destruct (to_nifti_out _ _ _ _ _ _ _ _ _ _ _ Hd Ha Hn) as (Hosh & _).
  exists S, T, V, r, c. split; [exact HS|]. split; [exact HT|]. split; [exact HV|].
  split; [exact Hosh|]. split; [exact Hlo|]. split.
  - intros s t v i j Hs Ht Hv Hi Hj.
    set (idx := cell_idx (length sh) i j s t v).
    assert (Hb : in_bounds sh idx = true) by (apply cell_idx_bounds; assumption).
    destruct (cell_idx_nth r c S T V i j s t v Ht Hv) as (E0 & E1 & E2 & E3 & E4). fold sh idx in E0, E1, E2, E3, E4.
    (* the file of that cell *)
    assert (Hk : cell_pos S T s t v < length (files_info st1)).
    { rewrite Hlen. apply cell_pos_lt; assumption. }
    destruct (file_at_ok gs st st1 _ Hok Hperm Hk) as (g & Hg & Hgok).
    assert (Hin : In (e_file (nth (cell_pos S T s t v) (files_info st1) dflt_entry)) (files st1))
      by (unfold files; apply in_map, nth_In, Hk).
    destruct (Hrc _ Hin) as [Hr Hc].
    destruct (pix_at_ok g _ i j Hgok) as [z Hz]; [rewrite Hr; exact Hi | rewrite Hc; exact Hj|].
    (* the voxel *)
    rewrite <- Hsh0 in Hb. destruct (Hex idx Hb) as (idx' & Hb' & Hsrc).
    destruct (Hval idx' Hb') as (Haff & _ & Hget).
    exists g, z, idx'. rewrite <- Hord in Hg.
    split; [exact Hg|]. split; [exact Hz|]. split; [exact Hb'|].
    split; [rewrite Haff, Hsrc; reflexivity|]. split.
    + rewrite Hget, Hsrc, Hd0. rewrite Hsh0 in Hb. unfold sh in *.
      rewrite (stack_data_get gs (go_ord0 go) r c S T V idx HS HT HV Hlo Hb).
      rewrite E0, E1, E2, E3, E4, Hg, Hz. reflexivity.
    + intros idx'' Hb'' Haff''. destruct (Hval idx'' Hb'') as (Haff2 & _).
      rewrite Haff2 in Haff''. injection Haff'' as Hsrc''.
      apply Hinj; try assumption. rewrite Hsrc''. symmetry. exact Hsrc.
  - intros idx' Hb'. destruct (Hval idx' Hb') as (Haff & Hb0 & _).
    rewrite Hsh0 in Hb0.
    destruct (grid_bounds r c S T V _ HT HV Hb0) as (Hi & Hj & Hs & Ht & Hv & Eidx).
    set (idx := src3 p0 f0 p1 f1 p2 f2 n0 n1 n2 idx') in *.
    exists (nth 2 idx 0), (nth 3 idx 0), (nth 4 idx 0), (nth 0 idx 0), (nth 1 idx 0).
    repeat (split; [assumption|]). rewrite Haff. f_equal. exact Eidx.
Qed.

(* ------------------------------------------------------------------------------------------ *)
(** * (b) geometry *)

Lemma cell_pos_mod S T s t v : s < S -> (cell_pos S T s t v) mod S = s.
Proof.
  intros Hs. unfold cell_pos. replace (v * (T * S) + t * S + s) with (s + (v * T + t) * S) by lia.
  rewrite Nat.mod_add by lia. apply Nat.mod_small, Hs.
Qed.

Lemma file_at_ids gs fi k :
  k < length fi -> file_at gs (ids fi) k = glookup gs (f_id (e_file (nth k fi dflt_entry))).
Proof.
  intros Hk. unfold file_at. rewrite ids_nth_error, (nth_error_nth' _ dflt_entry Hk). reflexivity.
Qed.

Lemma pixel_pos_nth g i j r :
  r < 3 ->
  (vget (pixel_pos g i j) r ==
   vget (g_ipp g) r + NQ i * fst (g_ps g) * vget (row_dir g) r + NQ j * snd (g_ps g) * vget (col_dir g) r)%Q.
Proof. intros Hr. unfold pixel_pos. rewrite vget_map3 by exact Hr. reflexivity. Qed.

Lemma world_nth A idx r : r < 3 -> is_shape 4 4 A = true -> vget (world A idx) r = nth r (mat_vec A (hom idx)) 0%Q.
Proof.
  intros Hr HA. unfold world, vget.
  destruct (is_shape44 A HA) as (a00 & a01 & a02 & a03 & a10 & a11 & a12 & a13 & a20 & a21 & a22 & a23
                                 & a30 & a31 & a32 & a33 & ->).
  destruct r as [|[|[|r]]]; try lia; reflexivity.
Qed.

Theorem conv_geometry_dev gs st code embed st' go :
  wf st -> gfiles_ok gs st ->
  conv_geom gs st code embed = (st', Ok go) ->
  forall S T V r c,
    0 < S -> 0 < T -> 0 < V ->
    o_shape (go_nifti go) = grid_shape r c S T V ->
    forall e, on_line_dev gs (go_ord0 go) S e ->
    forall s t v i j g idx',
      s < S -> t < T -> v < V ->
      file_at gs (go_ord0 go) (cell_pos S T s t v) = Some g ->
      apply_aff (go_T go) idx' = Some (cell_idx (length (grid_shape r c S T V)) i j s t v) ->
      forall q, q < 3 ->
        (vget (world (go_aff go) idx') q + sg q * e (cell_pos S T s t v) q == vget (ras (pixel_pos g i j)) q)%Q.
Proof.
  intros Hwf Hok H S' T' V' r' c' HS' HT' HV' Hosh' e Hline s t v i j g idx' Hs Ht Hv Hg Happ.
  destruct (conv_setup _ _ _ _ _ _ Hwf H)
    as (st1 & st2 & i0 & col & S & T & V & r & c & Hd & Hwf1 & Ha & Hfi2 & Hord & Hperm & HS & HT & HV & Hlen & Hrc
        & Hi0 & Hcol & Hfpv & Hg0 & HA0 & Hd0 & Hre & Hn & _).
  destruct (to_nifti_out _ _ _ _ _ _ _ _ _ _ _ Hd Ha Hn) as (Hosh & _).
  (* the two descriptions of the shape agree *)
  assert (Hgs : grid_shape r' c' S' T' V' = grid_shape r c S T V) by congruence.
  assert (HSTV : S' = S /\ (T' = T /\ V' = V)).
  { clear - Hgs HS HT HV HS' HT' HV'. unfold grid_shape in Hgs.
    destruct (V' =? 1) eqn:E1; destruct (V =? 1) eqn:E2;
      try (destruct (T' =? 1) eqn:E3); try (destruct (T =? 1) eqn:E4);
      try discriminate; injection Hgs as ? ? ?; subst;
      repeat match goal with E : (_ =? _) = true |- _ => apply Nat.eqb_eq in E end; subst; try lia.
    all: repeat match goal with E : (_ =? _) = false |- _ => apply Nat.eqb_neq in E end; try lia. }
  destruct HSTV as (-> & -> & ->). rewrite Hgs in Happ. clear Hosh' Hgs.
  set (sh := grid_shape r c S T V) in *.
  assert (Hsh0 : ashape (go_data0 go) = sh) by (rewrite Hd0; apply stack_data_shape; assumption).
  assert (Hwf0 : wf_arr (go_data0 go)) by (rewrite Hd0; apply stack_data_wf).
  assert (Hnd : 3 <= length (ashape (go_data0 go))) by (rewrite Hsh0; apply grid_shape_length).
  pose proof (stack_affine_shape _ _ _ _ HA0) as HA0s.
  destruct (reorient_facts _ _ _ _ _ _ _ Hwf0 Hnd HA0s Hre)
    as (p0 & f0 & p1 & f1 & p2 & f2 & n0 & n1 & n2 & rest & Ho & Hp & F0 & F1 & F2 & Hshd & _ & _ & _ & _
        & _ & HAs & HTs & Hact & Hcomp & _).
  (* first and second sorted file *)
  destruct Hline as (g0 & g1 & Hf0 & Hf1 & Hall).
  assert (Hlen0 : 0 < length (files_info st1)) by (rewrite Hlen; nia).
  assert (Hg0' : go_first go = g0).
  { rewrite Hord, file_at_ids in Hf0 by exact Hlen0. rewrite <- Hi0, Hg0 in Hf0. congruence. }
  destruct (stack_affine_vec gs i0 col _ _ HA0 Hg0) as (c2 & Hvec & Hc2).
  destruct (Hall _ _ Hg) as ((Hrd & Hcd & Hps0 & Hps1) & Hipp).
  (* T (idx', 1) = (i, j, s, 1) *)
  destruct (apply_aff_inv _ _ _ Happ) as (D0 & D1 & D2).
  destruct (cell_idx_nth r c S T V i j s t v Ht Hv) as (E0 & E1 & E2 & _). fold sh in E0, E1, E2.
  rewrite E0 in D0. rewrite E1 in D1. rewrite E2 in D2.
  destruct (Hact (NQ (nth 0 idx' 0)) (NQ (nth 1 idx' 0)) (NQ (nth 2 idx' 0))) as (_ & _ & _ & D3).
  fold (hom idx') in D3.
  intros k Hk. rewrite world_nth by assumption.
  unfold hom at 1. rewrite (Hcomp _ _ _ k Hk). fold (hom idx').
  rewrite (mat_vec44_rows _ _ HTs).
  rewrite (mat_vec44_proper (go_aff0 go) _ _ _ _ (NQ i) (NQ j) (NQ s) 1%Q k HA0s D0 D1 D2 D3).
  rewrite (Hvec _ _ _ k Hk). rewrite ras_nth, pixel_pos_nth by exact Hk.
  rewrite (Hipp k Hk), (Hrd k Hk), (Hcd k Hk), Hps0, Hps1, Hg0'.
  rewrite cell_pos_mod by exact Hs.
  destruct (1 <? S) eqn:ES.
  - apply Nat.ltb_lt in ES. specialize (Hf1 ES).
    assert (Hlen1 : 1 < length (files_info st1)) by (rewrite Hlen; nia).
    rewrite Hord, file_at_ids in Hf1 by exact Hlen1.
    assert (Hf0' : glookup gs i0 = Some g0) by (rewrite Hg0; f_equal; exact Hg0').
    rewrite (Hc2 _ _ g0 g1 (Hcol ES) Hf0' Hf1 k Hk). ring.
  - apply Nat.ltb_ge in ES. assert (s = 0) by lia. subst s. change (NQ 0) with 0%Q. ring.
Qed.

Lemma on_line_is_dev gs ord S : on_line gs ord S -> on_line_dev gs ord S (fun _ _ => 0%Q).
Proof.
  intros (g0 & g1 & H0 & H1 & Hall). exists g0, g1. split; [exact H0|]. split; [exact H1|].
  intros k g Hg. destruct (Hall k g Hg) as [Hsf Hipp]. split; [exact Hsf|].
  intros r Hr. rewrite (Hipp r Hr). ring.
Qed.

Theorem conv_geometry gs st code embed st' go :
  wf st -> gfiles_ok gs st ->
  conv_geom gs st code embed = (st', Ok go) ->
  forall S T V r c,
    0 < S -> 0 < T -> 0 < V ->
    o_shape (go_nifti go) = grid_shape r c S T V ->
    on_line gs (go_ord0 go) S ->
    forall s t v i j g idx',
      s < S -> t < T -> v < V ->
      file_at gs (go_ord0 go) (cell_pos S T s t v) = Some g ->
      apply_aff (go_T go) idx' = Some (cell_idx (length (grid_shape r c S T V)) i j s t v) ->
      veq3 (world (go_aff go) idx') (ras (pixel_pos g i j)).
Proof.
  intros Hwf Hok H S T V r c HS HT HV Hosh Hline s t v i j g idx' Hs Ht Hv Hg Happ q Hq.
  pose proof (conv_geometry_dev gs st code embed st' go Hwf Hok H S T V r c HS HT HV Hosh _ (on_line_is_dev _ _ _ Hline)
                s t v i j g idx' Hs Ht Hv Hg Happ q Hq) as G.
  rewrite <- G. ring.
Qed.
