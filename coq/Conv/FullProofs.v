(** The composed conversion [conv_full] projects onto the three existing models, so that every theorem about
    [conv_geom] (C02), [conv] (C20 header) and [conv_meta] (C01, C14) transfers; the voxel-order bit that
    [Stack.Model.to_nifti] is given, the permutation and the affine are THE values the geometry half computes. *)
From Coq Require Import List Bool Arith ZArith NArith QArith Qcanon Lia Permutation.
From DV Require Import Common.Res Common.Str
  Stack.Model Stack.Spec Stack.ProofsShape Stack.ProofsInv
  Orient.Model Orient.Spec Orient.ProofsArr Orient.ProofsAff Orient.Proofs
  Conv.Geom Conv.GeomSpec Conv.Header Conv.ProofsGeomBase Conv.ProofsGeomReorient Conv.ProofsGeomAff
  Conv.ProofsGeomData Conv.ProofsHeader
  Ext.Types Ext.Model Ext.Spec
  Conv.Meta Conv.ProofsMetaBase Conv.ProofsMetaEmbed Conv.ProofsMetaStack Conv.Full.
Import ListNotations.
Local Open Scope nat_scope.

(** the two lists of the six axis permutations coincide *)
Lemma perms3_is_perm3 p : In p perms3 <-> ProofsMetaEmbed.is_perm3 p.
Proof. reflexivity. Qed.

(** the shape of the reoriented array is [Conv.Meta.permute_shape] of the shape before reorientation *)
Lemma permuted_shape p0 p1 p2 n0 n1 n2 rest sh :
  In [p0; p1; p2] perms3 -> length sh = length (n0 :: n1 :: n2 :: rest) ->
  nth p0 sh 0 = n0 -> nth p1 sh 0 = n1 -> nth p2 sh 0 = n2 -> skipn 3 sh = rest ->
  sh = Meta.permute_shape [p0; p1; p2] (n0 :: n1 :: n2 :: rest).
Proof.
  intros Hp Hl H0 H1 H2 Hr.
  destruct sh as [|a [|b [|c r]]]; cbn [length] in Hl; try lia.
  cbn [skipn] in Hr. subst r.
  cbn [In perms3] in Hp.
  repeat (destruct Hp as [Hp|Hp]; [injection Hp as <- <- <-; cbn in H0, H1, H2; subst; reflexivity|]).
  contradiction.
Qed.

Lemma is_shape44_aff_ok A : is_shape 4 4 A = true -> aff_ok A.
Proof.
  unfold is_shape. intros H. apply andb_prop in H as [H1 H2]. apply Nat.eqb_eq in H1. split; [exact H1|].
  apply Forall_forall. intros r Hr. rewrite forallb_forall in H2. apply Nat.eqb_eq, H2, Hr.
Qed.

(** grid shapes determine the grid *)
Lemma grid_shape_inj r c S T V r' c' S' T' V' :
  0 < S -> 0 < T -> 0 < V -> 0 < S' -> 0 < T' -> 0 < V' ->
  grid_shape r c S T V = grid_shape r' c' S' T' V' -> r = r' /\ c = c' /\ S = S' /\ T = T' /\ V = V'.
Proof.
  intros HS HT HV HS' HT' HV'. unfold grid_shape.
  destruct (Nat.eqb_spec V 1) as [EV|NV], (Nat.eqb_spec V' 1) as [EV'|NV'];
    try destruct (Nat.eqb_spec T 1) as [ET|NT]; try destruct (Nat.eqb_spec T' 1) as [ET'|NT'];
    intros H; try discriminate H; injection H; intros; subst; repeat split; congruence.
Qed.

Section WithV.
  Context {V : Type} (veqb : V -> V -> bool) (vnone : V).
  Notation conv_full := (conv_full veqb vnone).
  Notation embed_of := (embed_of veqb vnone).

  (* ---------------------------------------------------------------------------------------- *)
  (** * Projections *)

  (** onto [Conv.Header.conv] (hence C20's header theorems) *)
  Lemma full_conv gs ms st code em filt st' go h oe :
    conv_full gs ms st code em filt = (st', Ok (go, h, oe)) ->
    conv gs st code em = (st', Ok (go, h)) /\
    (if em then exists e, oe = Some e /\ embed_of ms go h filt = Ok e else oe = None).
  Proof.
    unfold Full.conv_full. destruct (conv gs st code em) as [s r]. destruct r as [[go0 h0]|e]; [|discriminate].
    cbn [bind]. destruct em.
    - destruct (embed_of ms go0 h0 filt) as [e|e] eqn:Ee; [|discriminate]. cbn [bind].
      intros H. injection H as <- <- <- <-. split; [reflexivity|]. exists e. split; [reflexivity | exact Ee].
    - intros H. injection H as <- <- <- <-. split; reflexivity.
  Qed.

  (** onto [Conv.Geom.conv_geom] (hence C02) and [header_of] *)
  Lemma full_geom gs ms st code em filt st' go h oe :
    conv_full gs ms st code em filt = (st', Ok (go, h, oe)) ->
    conv_geom gs st code em = (st', Ok go) /\ header_of gs go = Ok h.
  Proof. intros H. apply full_conv in H as [H _]. apply conv_ok in H. exact H. Qed.

  (** without embedding there is no extension and nothing else changes *)
  Lemma full_noembed gs ms st code filt :
    conv_full gs ms st code false filt =
    (fst (conv gs st code false), rmap (fun gh => (fst gh, snd gh, None)) (snd (conv gs st code false))).
  Proof.
    unfold Full.conv_full. destruct (conv gs st code false) as [s r]. destruct r as [[go h]|e]; reflexivity.
  Qed.

  (** what the geometry half hands to the embed block *)
  Lemma full_threading gs st code em st' go :
    wf st -> conv_geom gs st code em = (st', Ok go) ->
    to_nifti st (o_vo (go_nifti go)) em = (st', Ok (go_nifti go)) /\
    ProofsMetaEmbed.is_perm3 (go_perm go) /\ aff_ok (go_aff go) /\
    ashape (go_data go) = Meta.permute_shape (go_perm go) (o_shape (go_nifti go)) /\
    nth 2 (go_perm go) 0 = nth 2 (go_perm go) 2 /\
    o_vo (go_nifti go) = vo_of_flips code (ascending (files_info (fst (get_data st)))) (go_flips go).
  Proof.
    intros Hwf Hg.
    destruct (conv_setup _ _ _ _ _ _ Hwf Hg)
      as (st1 & st2 & i0 & col & S & T & Vn & r & c & Hd & Hwf1 & Ha & Hfi2 & Hord & Hperm & HS & HT & HV & Hlen & Hrc
          & Hi0 & Hcol & Hfpv & Hg0 & HA0 & Hd0 & Hre & Hn & _ & _ & _ & Hpm & Hfl).
    destruct (to_nifti_out _ _ _ _ _ _ _ _ _ _ _ Hd Ha Hn) as (Hosh & _ & _ & Hvo & _).
    assert (Hsh0 : ashape (go_data0 go) = grid_shape r c S T Vn) by (rewrite Hd0; apply stack_data_shape; assumption).
    assert (Hwf0 : wf_arr (go_data0 go)) by (rewrite Hd0; apply stack_data_wf).
    assert (Hnd : 3 <= length (ashape (go_data0 go))) by (rewrite Hsh0; apply grid_shape_length).
    destruct (reorient_facts _ _ _ _ _ _ _ Hwf0 Hnd (stack_affine_shape _ _ _ _ HA0) Hre)
      as (p0 & f0 & p1 & f1 & p2 & f2 & n0 & n1 & n2 & rest & Ho & Hp & F0 & F1 & F2 & Hshd & (Sl & S0 & S1 & S2 & Sr)
          & _ & _ & _ & _ & HA4 & _).
    assert (Epm : go_perm go = [p0; p1; p2]) by (rewrite Hpm, Ho; reflexivity).
    split; [rewrite Hvo; exact Hn|].
    split; [rewrite Epm; apply perms3_is_perm3; exact Hp|].
    split; [apply is_shape44_aff_ok; exact HA4|].
    split.
    { rewrite Hosh, Epm, <- Hsh0, Hshd. apply permuted_shape; try assumption. rewrite Sl, Hshd. reflexivity. }
    split; [rewrite Epm; reflexivity|].
    rewrite Hvo. unfold vorder_of, vo_of_flips, flip_bit. rewrite Hd. cbn [fst]. rewrite Hfi2, Hfl. reflexivity.
  Qed.

  (** onto [Conv.Meta.conv_meta] (hence C01, C14): the embedded extension IS the result of [conv_meta] at the
      voxel-order bit, permutation and affine of the geometry half *)
  Lemma full_meta gs ms st code filt st' go h oe :
    wf st -> conv_full gs ms st code true filt = (st', Ok (go, h, oe)) ->
    exists e, oe = Some e /\
      to_nifti st (o_vo (go_nifti go)) true = (st', Ok (go_nifti go)) /\
      conv_meta veqb vnone ms st (o_vo (go_nifti go)) (go_perm go) (go_aff go) filt = (st', Ok e) /\
      ProofsMetaEmbed.is_perm3 (go_perm go) /\ aff_ok (go_aff go) /\
      ashape (go_data go) = Meta.permute_shape (go_perm go) (o_shape (go_nifti go)) /\
      h_slice_dim h = nth 2 (go_perm go) 2.
  Proof.
    intros Hwf H. destruct (full_geom _ _ _ _ _ _ _ _ _ _ H) as [Hg Hh].
    apply full_conv in H as [_ [e [-> Ee]]].
    destruct (full_threading _ _ _ _ _ _ Hwf Hg) as (Hn & Hp & Ha & Hsh & Hn2 & _).
    destruct (header_fields _ _ _ Hh) as (Hsd & _).
    exists e. split; [reflexivity|]. split; [exact Hn|].
    split.
    { unfold conv_meta. rewrite Hn. cbn [bind]. unfold Full.embed_of in Ee. rewrite <- Hsh, <- Hn2, <- Hsd. f_equal. exact Ee. }
    repeat (split; [assumption|]). rewrite Hsd. exact Hn2.
  Qed.

  (** conversely: when the geometry and header halves succeed and [conv_meta] at their outputs yields [e], the
      composed conversion yields exactly that *)
  Lemma full_of_parts gs ms st code filt st' go h e :
    wf st -> conv gs st code true = (st', Ok (go, h)) ->
    snd (conv_meta veqb vnone ms st (o_vo (go_nifti go)) (go_perm go) (go_aff go) filt) = Ok e ->
    conv_full gs ms st code true filt = (st', Ok (go, h, Some e)).
  Proof.
    intros Hwf Hc Hm. destruct (conv_ok _ _ _ _ _ _ _ Hc) as [Hg Hh].
    destruct (full_threading _ _ _ _ _ _ Hwf Hg) as (Hn & _ & _ & Hsh & Hn2 & _).
    destruct (header_fields _ _ _ Hh) as (Hsd & _).
    unfold Full.conv_full. rewrite Hc. cbn [bind].
    unfold conv_meta in Hm. rewrite Hn in Hm. cbn [snd bind] in Hm.
    unfold Full.embed_of. rewrite Hsh, Hsd, Hn2, Hm. reflexivity.
  Qed.

  (* ---------------------------------------------------------------------------------------- *)
  (** * The reversal is decided by the geometry *)

  (** the files of every volume are reversed exactly when a reorientation was requested, there is more than one
      file per volume and [flips[2] = -1] -- the test of line 889, on the flips of THIS conversion *)
  Lemma full_flip gs st code em st' go :
    wf st -> conv_geom gs st code em = (st', Ok go) ->
    exists S T Vn r c,
      0 < S /\ 0 < T /\ 0 < Vn /\ o_shape (go_nifti go) = grid_shape r c S T Vn /\
      o_flip (go_nifti go) = negb (is_empty code) && (1 <? S) && flip_bit (go_flips go) /\
      (is_empty code = true -> go_perm go = [0; 1; 2] /\ go_flips go = [1; 1; 1]%Z).
  Proof.
    intros Hwf Hg.
    destruct (conv_setup _ _ _ _ _ _ Hwf Hg)
      as (st1 & st2 & i0 & col & S & T & Vn & r & c & Hd & Hwf1 & Ha & Hfi2 & Hord & Hperm & HS & HT & HV & Hlen & Hrc
          & Hi0 & Hcol & Hfpv & Hg0 & HA0 & Hd0 & Hre & Hn & _ & _ & _ & Hpm & Hfl).
    destruct (to_nifti_out _ _ _ _ _ _ _ _ _ _ _ Hd Ha Hn) as (Hosh & _ & _ & _ & Hflip & _).
    exists S, T, Vn, r, c. repeat (split; [assumption|]).
    rewrite Hfi2, Hfpv in Hflip. split.
    - rewrite Hflip. unfold vorder_of, flip_bit. rewrite Hfl.
      destruct (is_empty code); [reflexivity|]. cbn [negb andb]. rewrite eqb_eqb. reflexivity.
    - intros Ec. unfold reorient in Hre. rewrite Ec in Hre. injection Hre as _ _ _ Eo.
      rewrite Hpm, Hfl, <- Eo. split; reflexivity.
  Qed.
End WithV.
