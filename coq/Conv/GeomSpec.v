(** Vocabulary in which the C02 theorems are stated: patient position of a source pixel, voxel index of a
    grid cell, the geometric regularity of a series, what it means for the files of a stack to be
    described by a list of [gfile]s. *)
From Coq Require Import List Bool Arith ZArith NArith QArith Qcanon Lia.
From DV Require Import Common.Res Common.Str Stack.Model Stack.ProofsShape Orient.Model Orient.Spec Orient.ProofsAff Conv.Geom.
Import ListNotations.
Local Open Scope nat_scope.

(** [NQ n] (Orient.ProofsAff): a natural number as a rational *)

(** matrix times vector *)
Definition mat_vec (A : mat) (v : list Q) : list Q := map (fun row => dot row v) A.

(** homogeneous coordinates of the first three components of a voxel index *)
Definition hom (idx : list nat) : list Q := [NQ (nth 0 idx 0); NQ (nth 1 idx 0); NQ (nth 2 idx 0); 1%Q].

(** world (RAS) coordinates an affine assigns to a voxel index *)
Definition world (A : mat) (idx : list nat) : list Q := firstn 3 (mat_vec A (hom idx)).

(** componentwise equality of 3-vectors over Q *)
Definition veq3 (a b : list Q) : Prop := forall r, r < 3 -> (vget a r == vget b r)%Q.

(** DICOM patient (LPS) -> NIfTI (RAS): x and y negated *)
Definition ras (v : list Q) : list Q := [- vget v 0; - vget v 1; vget v 2]%Q.

(** DICOM PS3.3 C.7.6.2.1.1: patient position of the pixel in ROW i, COLUMN j of a file: the image position
    plus i row-steps (PixelSpacing[0] along the column direction cosine iop[3:6]) plus j column-steps
    (PixelSpacing[1] along the row direction cosine iop[0:3]) *)
Definition pixel_pos (g : gfile) (i j : nat) : list Q :=
  map (fun r => vget (g_ipp g) r + NQ i * fst (g_ps g) * vget (row_dir g) r
                                 + NQ j * snd (g_ps g) * vget (col_dir g) r)%Q [0; 1; 2].

(** voxel index (in the unreordered array of [nd] dimensions) of pixel (i, j) of the file in grid cell
    (slice s, time t, vector component v) *)
Definition cell_idx (nd i j s t v : nat) : list nat := firstn nd [i; j; s; t; v].

(** position in the sorted file list of grid cell (s, t, v) of an S x T x V grid: slice fastest *)
Definition cell_pos (S T s t v : nat) : nat := v * (T * S) + t * S + s.

(** the file (with pixels and geometry) at position [k] of a list of ids *)
Definition file_at (gs : list gfile) (ord : list nat) (k : nat) : option gfile :=
  match nth_error ord k with
  | Some id => glookup gs id
  | None => None
  end.

(** [gs] describes the files of the stack: every file has its [gfile] (found under its id), whose pixel
    matrix is rows x cols *)
Definition gfile_ok (g : gfile) (f : file) : Prop :=
  g_file g = f /\ length (g_pix g) = f_rows f /\ Forall (fun row => length row = f_cols f) (g_pix g).
Definition gfiles_ok (gs : list gfile) (st : state) : Prop :=
  forall f, In f (files st) -> exists g, glookup gs (f_id f) = Some g /\ gfile_ok g f.

(** Regular geometry of the sorted series [ord] (S files per volume): all files share orientation and pixel
    spacing with the first one, and the file at position k sits at
      ipp(first) + (k mod S) * (ipp(second) - ipp(first))
    i.e. the slices of every volume lie on one line with equal gaps (for S = 1: all at the same position). *)
Definition same_frame (g g0 : gfile) : Prop :=
  veq3 (row_dir g) (row_dir g0) /\ veq3 (col_dir g) (col_dir g0) /\
  (fst (g_ps g) == fst (g_ps g0))%Q /\ (snd (g_ps g) == snd (g_ps g0))%Q.

Definition on_line (gs : list gfile) (ord : list nat) (S : nat) : Prop :=
  exists g0 g1,
    file_at gs ord 0 = Some g0 /\ (1 < S -> file_at gs ord 1 = Some g1) /\
    forall k g, file_at gs ord k = Some g ->
      same_frame g g0 /\
      forall r, r < 3 ->
        (vget (g_ipp g) r ==
         vget (g_ipp g0) r + (if 1 <? S then NQ (k mod S) * (vget (g_ipp g1) r - vget (g_ipp g0) r) else 0))%Q.

(** [on_line] up to a per-file error vector [e k] (k = position in the sorted list): the general form behind the
    error bound for irregularly spaced series *)
Definition on_line_dev (gs : list gfile) (ord : list nat) (S : nat) (e : nat -> nat -> Q) : Prop :=
  exists g0 g1,
    file_at gs ord 0 = Some g0 /\ (1 < S -> file_at gs ord 1 = Some g1) /\
    forall k g, file_at gs ord k = Some g ->
      same_frame g g0 /\
      forall r, r < 3 ->
        (vget (g_ipp g) r ==
         vget (g_ipp g0) r + (if 1 <? S then NQ (k mod S) * (vget (g_ipp g1) r - vget (g_ipp g0) r) else 0) + e k r)%Q.

(** The sorter's slice position of every file ([f_pos], what the files are sorted by) IS the geometric slice
    indicator ipp . normal of that file (both are read from the same DicomWrapper; compared on every
    correspondence case). *)
Definition positions_ok (gs : list gfile) (st : state) : Prop :=
  forall f g, In f (files st) -> glookup gs (f_id f) = Some g -> (this (f_pos f) == slice_indicator g)%Q.

(** Geometry of the SOURCES (independent of the order the sorter produces): all files share orientation and
    pixel spacing, and every file is displaced from a common origin [o] proportionally to its slice indicator
    along a common vector [d] (for orthonormal direction cosines: d = the slice normal). *)
Definition sources_line (gs : list gfile) (st : state) (d : list Q) : Prop :=
  exists (g0 : gfile) (o : list Q),
    forall f g, In f (files st) -> glookup gs (f_id f) = Some g ->
      same_frame g g0 /\
      forall r, r < 3 -> (vget (g_ipp g) r == vget o r + slice_indicator g * vget d r)%Q.

(** ... and the stack's distinct slice positions, in ascending order, form an EXACT arithmetic progression (the
    code only checks this to 4 %). *)
Definition sources_regular (gs : list gfile) (st : state) : Prop :=
  (exists d, sources_line gs st d) /\
  exists p0 dp : Q,
    forall s, s < length (pos_vals st) ->
      (this (nth s (ssort qc_leb (pos_vals st)) (Q2Qc 0)) == p0 + NQ s * dp)%Q.

(** deviation of slice s from the regular lattice spanned by the first two positions:
    (P[s] - P[0]) - s (P[1] - P[0])  =  sum over j < s of (gap_j - gap_0),  gap_j = P[j+1] - P[j] *)
Definition pos_at (P : list Qc) (s : nat) : Q := this (nth s P (Q2Qc 0)).
Definition slice_dev (P : list Qc) (s : nat) : Q := (pos_at P s - pos_at P 0 - NQ s * (pos_at P 1 - pos_at P 0))%Q.
Fixpoint gap_excess (P : list Qc) (s : nat) : Q :=
  match s with
  | 0 => 0%Q
  | Datatypes.S j => (gap_excess P j + ((pos_at P (Datatypes.S j) - pos_at P j) - (pos_at P 1 - pos_at P 0)))%Q
  end.
