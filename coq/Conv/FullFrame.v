(** C01's domain restriction [normals_ok] (open finding N9) from a condition on the SOURCES: when the per-file
    extension affines are the single-file NIfTI affines of files that share ImageOrientationPatient, PixelSpacing and
    slice spacing exactly, the slice normals (row 2 of those affines) coincide, hence are np.allclose. *)
From Coq Require Import List Bool Arith ZArith NArith QArith Qcanon Qabs Lia.
From DV Require Import Common.Res Common.Str Stack.Model Orient.Model Conv.Geom Conv.ProofsGeomAff
  Ext.Types Ext.Seq Ext.Model Conv.Meta Conv.ProofsMetaBase Conv.ProofsMetaStack.
Import ListNotations.

Lemma normal2_file_affine g g' :
  g_iop g = g_iop g' -> g_ps g = g_ps g' -> g_zs g = g_zs g' -> normal2 (file_affine g) = normal2 (file_affine g').
Proof.
  intros H1 H2 H3. unfold normal2, file_affine, dicom_affine, Geom.slice_normal, row_dir, col_dir.
  rewrite lps2ras_val, H1, H2, H3. cbv [mmul map mcols mcol ncols seq length nth firstn app].
  reflexivity.
Qed.

Lemma allclose_refl rt at_ l : (0 <= rt)%Q -> (0 <= at_)%Q -> allclose rt at_ l l = true.
Proof.
  intros Hr Ha. unfold allclose. rewrite Nat.eqb_refl. cbn [andb]. induction l as [|x l IH]; [reflexivity|].
  cbn [combine forallb fst snd]. rewrite IH, andb_true_r. apply Qle_bool_iff.
  assert (E : (Qabs (x - x) == 0)%Q) by (setoid_replace (x - x)%Q with 0%Q by ring; reflexivity).
  rewrite E. assert (0 <= rt * Qabs x)%Q by (apply Qmult_le_0_compat; [exact Hr | apply Qabs_nonneg]).
  apply (Qle_trans _ (0 + 0)%Q); [apply Qle_refl | apply Qplus_le_compat; assumption].
Qed.

Section WithV.
  Context {V : Type}.

  (** every metadata entry carries the single-file affine of a file with the orientation / spacings of [g0] *)
  Definition shared_frame (ms : list (mfile V)) : Prop :=
    exists g0, forall m, In m ms ->
      exists g, m_aff m = file_affine g /\ g_iop g = g_iop g0 /\ g_ps g = g_ps g0 /\ g_zs g = g_zs g0.

  Lemma normals_ok_shared_frame (ms : list (mfile V)) : shared_frame ms -> normals_ok ms.
  Proof.
    intros [g0 H] m m' Hm Hm'. destruct (H m Hm) as (g & -> & A1 & A2 & A3). destruct (H m' Hm') as (g' & -> & B1 & B2 & B3).
    unfold normals_close. rewrite (normal2_file_affine g g') by congruence.
    apply allclose_refl; vm_compute; discriminate.
  Qed.
End WithV.
