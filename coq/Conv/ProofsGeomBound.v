(** How far off the affine can be on an ACCEPTED stack: the spacing check of get_shape
    ([np.allclose(avg_spacing, spacings, rtol = T_stack.spacing_rtol)], atol = numpy's 1e-8) bounds every gap
    against the first one, hence the deviation [slice_dev] of every slice from the lattice the affine assumes. *)
From Coq Require Import List Bool Arith ZArith NArith QArith Qcanon Qabs Lia Lqa Permutation Sorted.
From DV Require Import Common.Res Common.Str Generated.T_stack
  Stack.Model Stack.Sort Stack.Order Stack.Spec Stack.ProofsOrder Stack.ProofsShape Stack.ProofsInv Stack.ProofsC11
  Orient.Model Orient.ProofsAff Conv.Geom Conv.GeomSpec Conv.ProofsGeomBase Conv.ProofsGeomSrc.
Import ListNotations.
Local Open Scope nat_scope.

(** gap number j of an ascending position list *)
Definition gap_at (P : list Qc) (j : nat) : Q := (pos_at P (S j) - pos_at P j)%Q.

Lemma gaps_nth (P : list Qc) : forall j, S j < length P -> nth_error (gaps P) j = Some (gap_at P j).
Proof.
  induction P as [|a P IH]; intros j Hj; [cbn in Hj; lia|].
  destruct P as [|b P]; [cbn in Hj; lia|].
  destruct j as [|j].
  - reflexivity.
  - cbn [gaps nth_error]. rewrite IH by (cbn [length] in *; lia). reflexivity.
Qed.

Lemma gap_pos (P : list Qc) j : StronglySorted Qclt P -> S j < length P -> (0 < gap_at P j)%Q.
Proof.
  intros Hs Hj. pose proof (strongly_sorted_nth P Hs j (S j) ltac:(lia) Hj) as H.
  unfold gap_at, pos_at. unfold Qclt in H. lra.
Qed.

(** the acceptance tolerance, from the source (T_stack.spacing_rtol = 4 %) and numpy's default atol *)
Definition gap_bound (g0 : Q) : Q :=
  (2 * spacing_rtol / (1 - spacing_rtol) * g0 + 2 / (1 - spacing_rtol) * np_atol)%Q.

Lemma gap_bound_val g0 : (gap_bound g0 == (1 # 12) * g0 + (25 # 12) * np_atol)%Q.
Proof. unfold gap_bound. rewrite spacing_tol. field. Qed.

(** every gap of an evenly spaced (to tolerance) ascending list is within [gap_bound] of the first gap *)
Lemma gap_close (P : list Qc) j :
  StronglySorted Qclt P -> even_spacing P -> S j < length P ->
  (Qabs (gap_at P j - gap_at P 0) <= gap_bound (gap_at P 0))%Q.
Proof.
  intros Hs He Hj.
  assert (H0 : 1 < length P) by lia.
  pose proof (gap_pos P j Hs Hj) as Gj. pose proof (gap_pos P 0 Hs H0) as G0.
  pose proof (He _ (nth_error_In _ _ (gaps_nth P j Hj))) as Ej.
  pose proof (He _ (nth_error_In _ _ (gaps_nth P 0 H0))) as E0.
  set (m := qmean (gaps P)) in *. set (gj := gap_at P j) in *. set (g0 := gap_at P 0) in *. clearbody m gj g0.
  assert (Pj : (0 <= gj)%Q) by (apply Qlt_le_weak, Gj). assert (P0 : (0 <= g0)%Q) by (apply Qlt_le_weak, G0).
  rewrite (Qabs_pos gj Pj) in Ej. rewrite (Qabs_pos g0 P0) in E0.
  apply Qabs_Qle_condition in Ej. apply Qabs_Qle_condition in E0.
  unfold spec_rtol in *. rewrite gap_bound_val. apply Qabs_Qle_condition.
  destruct Ej as [Ej1 Ej2]. destruct E0 as [E01 E02]. unfold np_atol in *. split; lra.
Qed.

Lemma NQ_succ j : (NQ (S j) == NQ j + 1)%Q.
Proof. unfold NQ. rewrite Nat2Z.inj_succ. unfold Z.succ. rewrite inject_Z_plus. reflexivity. Qed.

Lemma gap_excess_bound (P : list Qc) :
  StronglySorted Qclt P -> even_spacing P ->
  forall s, s < length P -> (Qabs (gap_excess P s) <= NQ s * gap_bound (gap_at P 0))%Q.
Proof.
  intros Hs He. induction s as [|s IH]; intros Hl; cbn [gap_excess].
  - change (NQ 0) with 0%Q. rewrite Qabs_pos; lra.
  - specialize (IH ltac:(lia)). pose proof (gap_close P s Hs He Hl) as Gs.
    fold (gap_at P s) (gap_at P 0).
    eapply Qle_trans; [apply Qabs_triangle|]. rewrite NQ_succ. lra.
Qed.

(** the spacing check passed on every stack that converts *)
Lemma accepted_spacing st st1 ord sh :
  wf st -> get_data st = (st1, Ok (ord, sh)) ->
  let P := ssort qc_leb (pos_vals st) in
  StronglySorted Qclt P /\ (1 < length P -> even_spacing P).
Proof.
  intros Hwf Hd P.
  destruct (get_data_grid st st1 ord sh Hwf Hd) as (Hwf1 & _ & Hsh1 & _).
  destruct (get_shape_sound st1 sh Hwf1) as (S & T & V & r & c & [Hg _] & _); [rewrite Hsh1; reflexivity|].
  assert (Hgs : get_shape st = (st1, Ok sh)).
  { unfold get_data in Hd. destruct (get_shape st) as [s1 [sh1|e1]]; [|discriminate]. injection Hd as <- _ <-. reflexivity. }
  destruct (get_shape_pos_sets st) as [Hpv _]. rewrite Hgs in Hpv. cbn [fst] in Hpv.
  destruct Hwf1 as [Hwf10 _]. destruct Hwf as [Hwf0 _].
  destruct (grid_complete_dims st1 S T V Hwf10 Hg) as (_ & _ & _ & _ & HS & _ & Hsp).
  rewrite Hpv in HS, Hsp.
  destruct (pos_sorted st Hwf0) as (HPs & _ & HPl). fold P in HPs, HPl.
  split; [exact HPs|]. intros H1. apply spacing_ok_iff, Hsp. rewrite HS, <- HPl. exact H1.
Qed.

(** THE BOUND: on every stack that converts, slice s deviates from the lattice the affine assumes by at most
    s * (gap_0 / 12 + 25/12 * 1e-8), gap_0 = the gap between the first two sorted slices (the slice column) *)
Theorem slice_dev_bound st st1 ord sh :
  wf st -> get_data st = (st1, Ok (ord, sh)) ->
  let P := ssort qc_leb (pos_vals st) in
  forall s, s < length P -> (Qabs (slice_dev P s) <= NQ s * gap_bound (gap_at P 0))%Q.
Proof.
  intros Hwf Hd P s Hs.
  destruct (accepted_spacing st st1 ord sh Hwf Hd) as [HPs He]. fold P in HPs, He.
  rewrite slice_dev_sum.
  destruct (Nat.eq_dec s 0) as [->|Hn].
  - cbn [gap_excess]. change (NQ 0) with 0%Q. rewrite Qabs_pos; lra.
  - apply gap_excess_bound; [exact HPs | apply He; lia | exact Hs].
Qed.
