(** The affine of the stack ([get_affine]) applied to an index vector, in terms of the DICOM geometry of the
    first two sorted files. *)
From Coq Require Import List Bool Arith ZArith NArith QArith Qcanon Lia Lqa.
From DV Require Import Common.Res Common.Str Generated.T_conv
  Orient.Model Orient.Spec Orient.ProofsAff Conv.Geom Conv.GeomSpec.
Import ListNotations.
Local Open Scope nat_scope.

(** sign of the LPS -> RAS conversion on component r *)
Definition sg (r : nat) : Q := if r <? 2 then (-1 # 1)%Q else 1%Q.

Lemma lps2ras_val : lps2ras = [[-1; 0; 0; 0]; [0; -1; 0; 0]; [0; 0; 1; 0]; [0; 0; 0; 1]]%Q.
Proof. reflexivity. Qed.

Lemma ras_nth v r : r < 3 -> (vget (ras v) r == sg r * vget v r)%Q.
Proof. intros H. destruct r as [|[|[|r]]]; try lia; unfold ras, vget, sg; cbn [nth Nat.ltb Nat.leb]; ring. Qed.

Lemma file_affine_shape g : is_shape 4 4 (file_affine g) = true.
Proof. reflexivity. Qed.

Lemma set_col3_shape A c : is_shape 4 4 A = true -> is_shape 4 4 (set_col3 A 2 c) = true.
Proof.
  intros HA.
  destruct (is_shape44 A HA) as (a00 & a01 & a02 & a03 & a10 & a11 & a12 & a13 & a20 & a21 & a22 & a23
                                 & a30 & a31 & a32 & a33 & ->).
  reflexivity.
Qed.

Lemma stack_affine_shape gs i0 col A0 : stack_affine gs i0 col = Ok A0 -> is_shape 4 4 A0 = true.
Proof.
  unfold stack_affine. destruct (glookup gs i0) as [g0|]; [|discriminate].
  destruct col as [[a b]|].
  - destruct (glookup gs a) as [ga|]; [|discriminate]. destruct (glookup gs b) as [gb|]; [|discriminate].
    intros H. injection H as <-. apply set_col3_shape, file_affine_shape.
  - intros H. injection H as <-. apply file_affine_shape.
Qed.

(** the single-file affine applied to (X, Y, Z, 1) *)
Lemma file_affine_vec g X Y Z r :
  r < 3 ->
  (nth r (mat_vec (file_affine g) [X; Y; Z; 1%Q]) 0 ==
   sg r * (vget (row_dir g) r * fst (g_ps g) * X + vget (col_dir g) r * snd (g_ps g) * Y
           + vget (slice_normal g) r * g_zs g * Z + vget (g_ipp g) r))%Q.
Proof.
  intros Hr. unfold file_affine, dicom_affine. rewrite lps2ras_val.
  set (rd := row_dir g). set (cd := col_dir g). set (n := slice_normal g). set (ipp := g_ipp g).
  set (p0 := fst (g_ps g)). set (p1 := snd (g_ps g)). set (zs := g_zs g).
  clearbody rd cd n ipp p0 p1 zs.
  destruct r as [|[|[|r]]]; try lia; cbv -[Qplus Qmult Qopp Qminus Qeq vget]; ring.
Qed.

Lemma file_offset_nth g r : r < 3 -> (vget (file_offset g) r == sg r * vget (g_ipp g) r)%Q.
Proof.
  intros Hr. change (vget (file_offset g) r) with (nth r (file_offset g) 0%Q).
  unfold file_offset, file_affine, dicom_affine. rewrite lps2ras_val.
  set (rd := row_dir g). set (cd := col_dir g). set (n := slice_normal g). set (ipp := g_ipp g).
  set (p0 := fst (g_ps g)). set (p1 := snd (g_ps g)). set (zs := g_zs g).
  clearbody rd cd n ipp p0 p1 zs.
  destruct r as [|[|[|r]]]; try lia; cbv -[Qplus Qmult Qopp Qminus Qeq vget]; ring.
Qed.

(** replacing the slice column *)
Lemma set_col3_vec A c X Y Z r :
  is_shape 4 4 A = true -> r < 3 ->
  (nth r (mat_vec (set_col3 A 2 c) [X; Y; Z; 1%Q]) 0 == nth r (mat_vec A [X; Y; 0; 1%Q]) 0 + vget c r * Z)%Q.
Proof.
  intros HA Hr.
  destruct (is_shape44 A HA) as (a00 & a01 & a02 & a03 & a10 & a11 & a12 & a13 & a20 & a21 & a22 & a23
                                 & a30 & a31 & a32 & a33 & ->).
  destruct r as [|[|[|r]]]; try lia; cbv -[Qplus Qmult Qopp Qminus Qeq vget]; ring.
Qed.

Lemma vsub_nth a b r : r < 3 -> vget (vsub a b) r = (vget a r - vget b r)%Q.
Proof. intros Hr. destruct r as [|[|[|r]]]; try lia; reflexivity. Qed.

Lemma vget_map3 (f : nat -> Q) r : r < 3 -> vget (map f [0; 1; 2]) r = f r.
Proof. intros Hr. destruct r as [|[|[|r]]]; try lia; reflexivity. Qed.

(** the stack's affine applied to (X, Y, Z, 1): in-plane part and origin from the first sorted file [g0],
    slice column [c2]; when the slice column was taken from two files, [c2] is the difference of their
    positions (in RAS) *)
Lemma stack_affine_vec gs i0 col A0 g0 :
  stack_affine gs i0 col = Ok A0 -> glookup gs i0 = Some g0 ->
  exists c2 : list Q,
    (forall X Y Z r, r < 3 ->
       (nth r (mat_vec A0 [X; Y; Z; 1%Q]) 0 ==
        sg r * (vget (row_dir g0) r * fst (g_ps g0) * X + vget (col_dir g0) r * snd (g_ps g0) * Y + vget (g_ipp g0) r)
        + vget c2 r * Z)%Q) /\
    (forall a b ga gb, col = Some (a, b) -> glookup gs a = Some ga -> glookup gs b = Some gb ->
       forall r, r < 3 -> (vget c2 r == sg r * (vget (g_ipp gb) r - vget (g_ipp ga) r))%Q).
Proof.
  unfold stack_affine. intros H Hg. rewrite Hg in H.
  destruct col as [[a b]|].
  - destruct (glookup gs a) as [ga|] eqn:Ea; [|discriminate].
    destruct (glookup gs b) as [gb|] eqn:Eb; [|discriminate].
    injection H as <-. exists (vsub (file_offset gb) (file_offset ga)). split.
    + intros X Y Z r Hr. rewrite set_col3_vec by (auto using file_affine_shape).
      rewrite file_affine_vec by exact Hr. ring.
    + intros a' b' ga' gb' E Ha' Hb' r Hr. injection E as <- <-.
      rewrite Ea in Ha'. rewrite Eb in Hb'. injection Ha' as <-. injection Hb' as <-.
      rewrite vsub_nth by exact Hr. rewrite !file_offset_nth by exact Hr. ring.
  - injection H as <-. exists (map (fun r => sg r * (vget (slice_normal g0) r * g_zs g0))%Q [0; 1; 2]). split.
    + intros X Y Z r Hr. rewrite file_affine_vec by exact Hr.
      rewrite vget_map3 by exact Hr. ring.
    + intros a b ga gb E. discriminate.
Qed.

(* ------------------------------------------------------------------------------------------ *)
(** * Index vectors *)

Lemma q_to_nat_inv q m : q_to_nat q = Some m -> (q == NQ m)%Q.
Proof.
  unfold q_to_nat. destruct (Pos.eqb (Qden (Qred q)) 1 && Z.leb 0 (Qnum (Qred q)))%bool eqn:E; [|discriminate].
  intros H. injection H as <-. apply andb_prop in E as [E1 E2].
  apply Pos.eqb_eq in E1. apply Z.leb_le in E2.
  transitivity (Qred q); [symmetry; apply Qred_correct|].
  destruct (Qred q) as [n d]. cbn [Qden Qnum] in *. subst d.
  unfold NQ. rewrite Z2Nat.id by exact E2. reflexivity.
Qed.

(** [apply_aff T idx' = Some idx] says T (idx', 1) = (idx, 1) on the first three components *)
Lemma apply_aff_inv T idx' idx :
  apply_aff T idx' = Some idx ->
  (dot (nth 0 T []) (hom idx') == NQ (nth 0 idx 0%nat))%Q /\
  (dot (nth 1 T []) (hom idx') == NQ (nth 1 idx 0%nat))%Q /\
  (dot (nth 2 T []) (hom idx') == NQ (nth 2 idx 0%nat))%Q.
Proof.
  unfold apply_aff. destruct idx' as [|i [|j [|k rest]]]; try discriminate.
  unfold hom. cbn [nth].
  change [inject_Z (Z.of_nat i); inject_Z (Z.of_nat j); inject_Z (Z.of_nat k); 1%Q] with [NQ i; NQ j; NQ k; 1%Q].
  destruct (q_to_nat (dot (nth 0 T []) [NQ i; NQ j; NQ k; 1%Q])) as [i'|] eqn:E0; [|discriminate].
  destruct (q_to_nat (dot (nth 1 T []) [NQ i; NQ j; NQ k; 1%Q])) as [j'|] eqn:E1; [|discriminate].
  destruct (q_to_nat (dot (nth 2 T []) [NQ i; NQ j; NQ k; 1%Q])) as [k'|] eqn:E2; [|discriminate].
  intros H. injection H as <-. cbn [nth]. auto using q_to_nat_inv.
Qed.

(** a 4x4 matrix applied to componentwise equal vectors *)
Lemma mat_vec44_proper A X Y Z W X' Y' Z' W' r :
  is_shape 4 4 A = true -> (X == X')%Q -> (Y == Y')%Q -> (Z == Z')%Q -> (W == W')%Q ->
  (nth r (mat_vec A [X; Y; Z; W]) 0 == nth r (mat_vec A [X'; Y'; Z'; W']) 0)%Q.
Proof.
  intros HA HX HY HZ HW.
  destruct (is_shape44 A HA) as (a00 & a01 & a02 & a03 & a10 & a11 & a12 & a13 & a20 & a21 & a22 & a23
                                 & a30 & a31 & a32 & a33 & ->).
  destruct r as [|[|[|[|r]]]]; cbn -[Qplus Qmult]; try rewrite HX, HY, HZ, HW; try reflexivity;
    destruct r; reflexivity.
Qed.

Lemma mat_vec44_rows T v :
  is_shape 4 4 T = true ->
  mat_vec T v = [dot (nth 0 T []) v; dot (nth 1 T []) v; dot (nth 2 T []) v; dot (nth 3 T []) v].
Proof.
  intros HT.
  destruct (is_shape44 T HT) as (b00 & b01 & b02 & b03 & b10 & b11 & b12 & b13 & b20 & b21 & b22 & b23
                                 & b30 & b31 & b32 & b33 & ->).
  reflexivity.
Qed.
