(** The reorientation step of [to_nifti] ([reorient] = [reorder_voxels] or nothing) as a signed permutation
    of the first three axes: where every voxel comes from, how the returned transform acts on index
    vectors, and how it composes with the affine.  One statement covers both the reordering and the
    "no voxel order" case. *)
From Coq Require Import List Bool Arith ZArith NArith QArith Qcanon Lia Lqa Permutation.
From DV Require Import Common.Res Common.Str
  Orient.Model Orient.Spec Orient.ProofsArr Orient.ProofsAff Orient.ProofsOrnt Orient.ProofsCode Orient.Proofs
  Conv.Geom Conv.GeomSpec.
Import ListNotations.
Local Open Scope nat_scope.

Ltac qcompute := cbv -[Qplus Qmult Qminus Qopp Qdiv Qinv Qeq ctr Z.eqb NQ inject_Z].

(** last row of the transform *)
Lemma T_lit_row3 p0 p1 p2 F0 F1 F2 N0 N1 N2 X Y Z :
  In [p0; p1; p2] perms3 ->
  (dot (nth 3 (T_lit p0 p1 p2 F0 F1 F2 N0 N1 N2) []) [X; Y; Z; 1%Q] == 1)%Q.
Proof.
  intros H. cbn [In perms3] in H.
  repeat (destruct H as [H|H]; [injection H as <- <- <-; qcompute; ring|]). contradiction.
Qed.

(** how a transform acts on homogeneous index vectors: row k picks component p_k with sign f_k and adds
    n_k - 1 on a flipped axis; the last row is (0, 0, 0, 1) *)
Definition acts_as (T : mat) (p0 : nat) (f0 : Z) (p1 : nat) (f1 : Z) (p2 : nat) (f2 : Z) (n0 n1 n2 : nat) : Prop :=
  forall X Y Z : Q,
    let V := [X; Y; Z; 1%Q] in
    (dot (nth 0 T []) V == inject_Z f0 * nth p0 V 0 + (if Z.eqb f0 (-1) then NQ n0 - 1 else 0))%Q /\
    (dot (nth 1 T []) V == inject_Z f1 * nth p1 V 0 + (if Z.eqb f1 (-1) then NQ n1 - 1 else 0))%Q /\
    (dot (nth 2 T []) V == inject_Z f2 * nth p2 V 0 + (if Z.eqb f2 (-1) then NQ n2 - 1 else 0))%Q /\
    (dot (nth 3 T []) V == 1)%Q.

Lemma cf_one n i : cf 1 n i = i.
Proof. reflexivity. Qed.

Lemma apply_aff_eye x y z r : apply_aff (eye 4) (x :: y :: z :: r) = Some (x :: y :: z :: r).
Proof.
  unfold apply_aff.
  rewrite (q_to_nat_eq _ x), (q_to_nat_eq _ y), (q_to_nat_eq _ z); [reflexivity| | |];
    unfold NQ; cbv -[Qplus Qmult Qeq inject_Z Z.of_nat]; ring.
Qed.

Lemma src3_id n0 n1 n2 idx' :
  3 <= length idx' -> src3 0 1 1 1 2 1 n0 n1 n2 idx' = idx'.
Proof.
  destruct idx' as [|x [|y [|z r]]]; cbn [length]; try lia. intros _. reflexivity.
Qed.

(** (A0 T) v = A0 (T v) for 4x4 matrices, componentwise *)
Lemma mat_vec_mmul44 A0 T X Y Z W r :
  is_shape 4 4 A0 = true -> is_shape 4 4 T = true -> r < 4 ->
  (nth r (mat_vec (mmul A0 T) [X; Y; Z; W]) 0 == nth r (mat_vec A0 (mat_vec T [X; Y; Z; W])) 0)%Q.
Proof.
  intros HA HT Hr.
  destruct (is_shape44 A0 HA) as (a00 & a01 & a02 & a03 & a10 & a11 & a12 & a13 & a20 & a21 & a22 & a23
                                  & a30 & a31 & a32 & a33 & ->).
  destruct (is_shape44 T HT) as (b00 & b01 & b02 & b03 & b10 & b11 & b12 & b13 & b20 & b21 & b22 & b23
                                 & b30 & b31 & b32 & b33 & ->).
  destruct r as [|[|[|[|r]]]]; try lia; cbv -[Qplus Qmult Qeq]; ring.
Qed.

Lemma mmul_eye44 A0 : is_shape 4 4 A0 = true -> mat_eq A0 (mmul A0 (eye 4)).
Proof.
  intros HA.
  destruct (is_shape44 A0 HA) as (a00 & a01 & a02 & a03 & a10 & a11 & a12 & a13 & a20 & a21 & a22 & a23
                                  & a30 & a31 & a32 & a33 & ->).
  split; [reflexivity|]. intros i Hi. cbn [length] in Hi.
  destruct i as [|[|[|[|i]]]]; try lia; (split; [reflexivity|]); intros j Hj; cbn [length nth] in Hj;
    destruct j as [|[|[|[|j]]]]; try lia; cbv -[Qplus Qmult Qeq]; ring.
Qed.

Lemma mat_eq_refl A : mat_eq A A.
Proof. split; [reflexivity|]. intros i Hi. split; [reflexivity|]. intros j Hj. reflexivity. Qed.

(** Everything later proofs need to know about a successful reorientation. *)
Lemma reorient_facts d0 A0 code d A T o :
  wf_arr d0 -> 3 <= length (ashape d0) -> is_shape 4 4 A0 = true ->
  reorient d0 A0 code = Ok (d, A, T, o) ->
  exists p0 f0 p1 f1 p2 f2 n0 n1 n2 rest,
    o = [Some (p0, f0); Some (p1, f1); Some (p2, f2)] /\ In [p0; p1; p2] perms3 /\
    is_flip f0 = true /\ is_flip f1 = true /\ is_flip f2 = true /\
    ashape d0 = n0 :: n1 :: n2 :: rest /\
    (length (ashape d) = length (ashape d0) /\ nth p0 (ashape d) 0 = n0 /\ nth p1 (ashape d) 0 = n1 /\
     nth p2 (ashape d) 0 = n2 /\ skipn 3 (ashape d) = rest) /\
    (forall idx', in_bounds (ashape d) idx' = true ->
       apply_aff T idx' = Some (src3 p0 f0 p1 f1 p2 f2 n0 n1 n2 idx') /\
       in_bounds (ashape d0) (src3 p0 f0 p1 f1 p2 f2 n0 n1 n2 idx') = true /\
       aget d idx' = aget d0 (src3 p0 f0 p1 f1 p2 f2 n0 n1 n2 idx')) /\
    (forall idx, in_bounds (ashape d0) idx = true ->
       exists idx', in_bounds (ashape d) idx' = true /\ src3 p0 f0 p1 f1 p2 f2 n0 n1 n2 idx' = idx) /\
    (forall i1 i2, in_bounds (ashape d) i1 = true -> in_bounds (ashape d) i2 = true ->
       src3 p0 f0 p1 f1 p2 f2 n0 n1 n2 i1 = src3 p0 f0 p1 f1 p2 f2 n0 n1 n2 i2 -> i1 = i2) /\
    mat_eq A (mmul A0 T) /\ is_shape 4 4 A = true /\ is_shape 4 4 T = true /\
    acts_as T p0 f0 p1 f1 p2 f2 n0 n1 n2 /\
    (forall X Y Z r, r < 3 ->
       (nth r (mat_vec A [X; Y; Z; 1%Q]) 0 == nth r (mat_vec A0 (mat_vec T [X; Y; Z; 1%Q])) 0)%Q) /\
    (forall i, i < 3 ->
       (mentry A i p0 == inject_Z f0 * mentry A0 i 0)%Q /\
       (mentry A i p1 == inject_Z f1 * mentry A0 i 1)%Q /\
       (mentry A i p2 == inject_Z f2 * mentry A0 i 2)%Q).
Proof.
  intros Hwf Hnd HA0. unfold reorient. destruct (is_empty code) eqn:Ec.
  - (* no reorientation *)
    intros H. injection H as <- <- <- <-.
    destruct (ashape d0) as [|n0 [|n1 [|n2 rest]]] eqn:Hsh; cbn [length] in Hnd; try lia.
    exists 0, 1%Z, 1, 1%Z, 2, 1%Z, n0, n1, n2, rest.
    split; [reflexivity|]. split; [cbn; auto|]. split; [reflexivity|]. split; [reflexivity|]. split; [reflexivity|].
    split; [reflexivity|]. split; [cbn; repeat split; reflexivity|].
    assert (Hlen : forall idx', in_bounds (n0 :: n1 :: n2 :: rest) idx' = true -> 3 <= length idx').
    { intros idx' Hb. apply in_bounds_length in Hb. rewrite Hb. cbn [length]. lia. }
    split; [|split; [|split; [|split; [|split; [|split; [|split; [|split]]]]]]].
    + intros idx' Hb. rewrite src3_id by (apply Hlen, Hb).
      split; [|split; [exact Hb | reflexivity]].
      destruct idx' as [|x [|y [|z r]]]; try (apply Hlen in Hb; cbn [length] in Hb; lia).
      apply apply_aff_eye.
    + intros idx Hb. exists idx. split; [exact Hb|]. apply src3_id, Hlen, Hb.
    + intros i1 i2 H1 H2. rewrite !src3_id by (apply Hlen; assumption). auto.
    + apply mmul_eye44, HA0.
    + exact HA0.
    + reflexivity.
    + intros X Y Z V. subst V. repeat split; cbv -[Qplus Qmult Qminus Qeq NQ inject_Z]; ring.
    + intros X Y Z r Hr.
      destruct (is_shape44 A0 HA0) as (a00 & a01 & a02 & a03 & a10 & a11 & a12 & a13 & a20 & a21 & a22 & a23
                                       & a30 & a31 & a32 & a33 & ->).
      destruct r as [|[|[|r]]]; try lia; cbv -[Qplus Qmult Qeq]; ring.
    + intros i Hi. unfold mentry. change (inject_Z 1) with 1%Q. repeat split; ring.
  - (* reorder_voxels *)
    intros H. destruct (reorder_sperm _ _ _ _ _ _ _ H) as [Hs _].
    apply reorder_ok in H as (Hv & _ & _ & Ht & Ha & HT & ->).
    destruct (is_sperm_inv o Hs) as (p0 & f0 & p1 & f1 & p2 & f2 & -> & Hp & F0 & F1 & F2).
    destruct (ashape d0) as [|n0 [|n1 [|n2 rest]]] eqn:Hsh; cbn [length] in Hnd; try lia.
    rewrite inv_ornt_aff_lit in HT by exact Hp. injection HT as <-.
    destruct (perms3_lt _ _ _ Hp) as (L0 & L1 & L2).
    destruct (data_core d0 n0 n1 n2 rest p0 f0 p1 f1 p2 f2 d Hwf Hsh Hp Ha)
      as ((Sl & S0 & S1 & S2 & Sr) & Hval & Hex & Hinj).
    rewrite Hsh in Sl, Hval, Hex.
    set (TT := T_lit p0 p1 p2 (inject_Z f0) (inject_Z f1) (inject_Z f2) (NQ n0) (NQ n1) (NQ n2)) in *.
    assert (HTs : is_shape 4 4 TT = true) by (apply T_lit_shape, Hp).
    exists p0, f0, p1, f1, p2, f2, n0, n1, n2, rest.
    split; [reflexivity|]. split; [exact Hp|]. split; [exact F0|]. split; [exact F1|]. split; [exact F2|].
    split; [reflexivity|]. split; [cbn [length] in *; repeat split; assumption|].
    split; [|split; [|split; [|split; [|split; [|split; [|split; [|split]]]]]]].
    + intros idx' Hb. destruct (Hval idx' Hb) as [Hi Hg]. split; [|split; assumption].
      assert (Hlen := in_bounds_length _ _ Hb). rewrite Sl in Hlen. cbn [length] in Hlen.
      destruct idx' as [|x [|y [|z r]]]; try discriminate Hlen.
      rewrite src3_nth by assumption.
      assert (Hlt : forall p, p < 3 -> nth p [x; y; z] 0 < nth p (ashape d) 0).
      { intros p Lp. pose proof (in_bounds_nth _ _ p Hb ltac:(rewrite Sl; cbn [length]; lia)) as G.
        destruct p as [|[|[|p]]]; try lia; exact G. }
      apply apply_aff_core; try assumption.
      * rewrite <- S0. apply Hlt, L0.
      * rewrite <- S1. apply Hlt, L1.
      * rewrite <- S2. apply Hlt, L2.
    + exact Hex.
    + exact Hinj.
    + apply mat_eq_refl.
    + apply mmul_shape44; assumption.
    + exact HTs.
    + intros X Y Z V. subst V.
      destruct (T_lit_action p0 p1 p2 (inject_Z f0) (inject_Z f1) (inject_Z f2) (NQ n0) (NQ n1) (NQ n2) X Y Z Hp)
        as (E0 & E1 & E2).
      fold TT in E0, E1, E2.
      rewrite (trans_flip f0 (NQ n0) F0) in E0. rewrite (trans_flip f1 (NQ n1) F1) in E1.
      rewrite (trans_flip f2 (NQ n2) F2) in E2.
      split; [exact E0|]. split; [exact E1|]. split; [exact E2|]. apply T_lit_row3, Hp.
    + intros X Y Z r Hr. apply mat_vec_mmul44; try assumption. lia.
    + intros i Hi. apply (mmul_T_lit_cols A0 p0 p1 p2 _ _ _ _ _ _ HA0 Hp i Hi).
Qed.

Lemma reorient_wf d0 A0 code d A T o :
  wf_arr d0 -> 3 <= length (ashape d0) -> reorient d0 A0 code = Ok (d, A, T, o) -> wf_arr d.
Proof.
  intros Hwf Hnd. unfold reorient. destruct (is_empty code).
  - intros H. injection H as <- _ _ _. exact Hwf.
  - intros H. destruct (reorder_sperm _ _ _ _ _ _ _ H) as [Hs _].
    apply reorder_ok in H as (_ & _ & _ & _ & Ha & _).
    destruct (is_sperm_inv o Hs) as (p0 & f0 & p1 & f1 & p2 & f2 & -> & _).
    destruct (ashape d0) as [|n0 [|n1 [|n2 rest]]] eqn:Hsh; cbn [length] in Hnd; try lia.
    rewrite (apply_orientation_eq d0 n0 n1 n2 rest p0 f0 p1 f1 p2 f2 d Hsh Ha). apply wf_atranspose.
Qed.
