(** C02 (c), (d): changing the voxel order only permutes and flips array axes; the dtype rule. *)
From Coq Require Import List Bool Arith ZArith NArith QArith Qcanon Lia Lqa Permutation.
From DV Require Import Common.Res Common.Str Generated.T_conv
  Stack.Model Stack.Spec Stack.ProofsShape Stack.ProofsInv
  Orient.Model Orient.Spec Orient.ProofsArr Orient.ProofsAff Orient.Proofs
  Conv.Geom Conv.GeomSpec Conv.ProofsGeomBase Conv.ProofsGeomReorient Conv.ProofsGeomAff Conv.ProofsGeomData
  Conv.ProofsGeomPerm.
Import ListNotations.
Local Open Scope nat_scope.

(** the values of the output are those of the unreordered array *)
Lemma conv_same_values gs st code embed st' go :
  wf st -> conv_geom gs st code embed = (st', Ok go) ->
  Permutation (adata (go_data go)) (adata (go_data0 go)).
Proof.
  intros Hwf H.
  destruct (conv_setup _ _ _ _ _ _ Hwf H)
    as (st1 & st2 & i0 & col & S & T & V & r & c & Hd & Hwf1 & Ha & Hfi2 & Hord & Hperm & HS & HT & HV & Hlen & Hrc
        & Hi0 & Hcol & Hfpv & Hg0 & HA0 & Hd0 & Hre & Hn & _).
  assert (Hsh0 : ashape (go_data0 go) = grid_shape r c S T V) by (rewrite Hd0; apply stack_data_shape; assumption).
  assert (Hwf0 : wf_arr (go_data0 go)) by (rewrite Hd0; apply stack_data_wf).
  assert (Hnd : 3 <= length (ashape (go_data0 go))) by (rewrite Hsh0; apply grid_shape_length).
  destruct (reorient_facts _ _ _ _ _ _ _ Hwf0 Hnd (stack_affine_shape _ _ _ _ HA0) Hre)
    as (p0 & f0 & p1 & f1 & p2 & f2 & n0 & n1 & n2 & rest & Ho & Hp & F0 & F1 & F2 & Hshd & _ & Hval & Hex & Hinj & _).
  apply (bijection_permutation (go_data0 go) (go_data go) (src3 p0 f0 p1 f1 p2 f2 n0 n1 n2)).
  - exact Hwf0.
  - eapply reorient_wf; eassumption.
  - intros idx' Hb. destruct (Hval idx' Hb) as (_ & H1 & H2). split; assumption.
  - exact Hinj.
  - exact Hex.
Qed.

(** Two voxel orders for the same stack. *)
Theorem conv_invariance gs st c1 c2 e1 e2 s1 s2 o1 o2 :
  wf st ->
  conv_geom gs st c1 e1 = (s1, Ok o1) -> conv_geom gs st c2 e2 = (s2, Ok o2) ->
  (* same unreordered image *)
  go_data0 o1 = go_data0 o2 /\ go_aff0 o1 = go_aff0 o2 /\ go_ord0 o1 = go_ord0 o2 /\
  (* same value multiset, same dtype *)
  Permutation (adata (go_data o1)) (adata (go_data o2)) /\ go_dtype o1 = go_dtype o2 /\
  (* each affine is the unreordered one composed with the reported transform *)
  mat_eq (go_aff o1) (mmul (go_aff0 o1) (go_T o1)) /\ mat_eq (go_aff o2) (mmul (go_aff0 o2) (go_T o2)) /\
  (* world-space content: voxels of the two outputs that come from the same unreordered voxel hold the same
     value at the same world position, and every voxel of one output has exactly one such partner *)
  (forall idx1 idx2 idx,
     in_bounds (ashape (go_data o1)) idx1 = true -> in_bounds (ashape (go_data o2)) idx2 = true ->
     apply_aff (go_T o1) idx1 = Some idx -> apply_aff (go_T o2) idx2 = Some idx ->
     aget (go_data o1) idx1 = aget (go_data o2) idx2 /\ veq3 (world (go_aff o1) idx1) (world (go_aff o2) idx2)) /\
  (forall idx1, in_bounds (ashape (go_data o1)) idx1 = true ->
     exists idx2 idx, in_bounds (ashape (go_data o2)) idx2 = true /\
       apply_aff (go_T o1) idx1 = Some idx /\ apply_aff (go_T o2) idx2 = Some idx /\
       forall idx2', in_bounds (ashape (go_data o2)) idx2' = true -> apply_aff (go_T o2) idx2' = Some idx -> idx2' = idx2).
Proof.
  intros Hwf H1 H2.
  pose proof (conv_same_values _ _ _ _ _ _ Hwf H1) as P1.
  pose proof (conv_same_values _ _ _ _ _ _ Hwf H2) as P2.
  destruct (conv_setup _ _ _ _ _ _ Hwf H1)
    as (st1 & st2 & i0 & col & S & T & V & r & c & Hd & Hwf1 & Ha & Hfi2 & Hord & Hperm & HS & HT & HV & Hlen & Hrc
        & Hi0 & Hcol & Hfpv & Hg0 & HA0 & Hd0 & Hre & Hn & _ & _ & Hdt & _).
  destruct (conv_setup _ _ _ _ _ _ Hwf H2)
    as (st1' & st2' & i0' & col' & S' & T' & V' & r' & c' & Hd' & Hwf1' & Ha' & Hfi2' & Hord' & Hperm' & HS' & HT' & HV' & Hlen' & Hrc'
        & Hi0' & Hcol' & Hfpv' & Hg0' & HA0' & Hd0' & Hre' & Hn' & _ & _ & Hdt' & _).
  rewrite Hd in Hd'. injection Hd' as <- Eord Esh.
  rewrite Ha in Ha'. injection Ha' as <- <- <-.
  assert (Ed0 : go_data0 o1 = go_data0 o2) by (rewrite Hd0, Hd0', Eord, Esh; reflexivity).
  assert (EA0 : go_aff0 o1 = go_aff0 o2) by congruence.
  assert (Ef : go_first o1 = go_first o2) by congruence.
  split; [exact Ed0|]. split; [exact EA0|]. split; [exact Eord|].
  split; [rewrite P1, P2, Ed0; reflexivity|]. split; [congruence|].
  assert (Hsh0 : ashape (go_data0 o1) = grid_shape r c S T V) by (rewrite Hd0; apply stack_data_shape; assumption).
  assert (Hwf0 : wf_arr (go_data0 o1)) by (rewrite Hd0; apply stack_data_wf).
  assert (Hnd : 3 <= length (ashape (go_data0 o1))) by (rewrite Hsh0; apply grid_shape_length).
  pose proof (stack_affine_shape _ _ _ _ HA0) as HA0s.
  destruct (reorient_facts _ _ _ _ _ _ _ Hwf0 Hnd HA0s Hre)
    as (p0 & f0 & p1 & f1 & p2 & f2 & n0 & n1 & n2 & rest & Ho & Hp & F0 & F1 & F2 & Hshd & _ & Hval & Hex & Hinj
        & Hmeq & HAs & HTs & Hact & Hcomp & _).
  rewrite <- Ed0, <- EA0 in Hre'.
  destruct (reorient_facts _ _ _ _ _ _ _ Hwf0 Hnd HA0s Hre')
    as (q0 & h0 & q1 & h1 & q2 & h2 & m0 & m1 & m2 & rest' & Ho' & Hq & G0 & G1 & G2 & Hshd' & _ & Hval' & Hex' & Hinj'
        & Hmeq' & HAs' & HTs' & Hact' & Hcomp' & _).
  split; [exact Hmeq|]. split; [rewrite <- EA0; exact Hmeq'|]. split.
  - intros idx1 idx2 idx Hb1 Hb2 A1 A2.
    destruct (Hval idx1 Hb1) as (A1' & _ & V1). destruct (Hval' idx2 Hb2) as (A2' & _ & V2).
    rewrite A1' in A1. rewrite A2' in A2. injection A1 as E1. injection A2 as E2.
    split; [rewrite V1, V2, E1, E2; reflexivity|].
    intros k Hk. rewrite !world_nth by assumption.
    unfold hom at 1 2. rewrite (Hcomp _ _ _ k Hk), (Hcomp' _ _ _ k Hk).
    fold (hom idx1) (hom idx2). rewrite (mat_vec44_rows _ _ HTs), (mat_vec44_rows _ _ HTs').
    assert (B1 := apply_aff_inv _ _ _ A1'). assert (B2 := apply_aff_inv _ _ _ A2').
    rewrite E1 in B1. rewrite E2 in B2. destruct B1 as (B10 & B11 & B12). destruct B2 as (B20 & B21 & B22).
    destruct (Hact (NQ (nth 0 idx1 0)) (NQ (nth 1 idx1 0)) (NQ (nth 2 idx1 0))) as (_ & _ & _ & B13).
    destruct (Hact' (NQ (nth 0 idx2 0)) (NQ (nth 1 idx2 0)) (NQ (nth 2 idx2 0))) as (_ & _ & _ & B23).
    fold (hom idx1) in B13. fold (hom idx2) in B23.
    apply mat_vec44_proper; [exact HA0s| | | |].
    + rewrite B10, B20. reflexivity.
    + rewrite B11, B21. reflexivity.
    + rewrite B12, B22. reflexivity.
    + rewrite B13, B23. reflexivity.
  - intros idx1 Hb1. destruct (Hval idx1 Hb1) as (A1 & Hb0 & _).
    destruct (Hex' _ Hb0) as (idx2 & Hb2 & Hsrc2).
    exists idx2, (src3 p0 f0 p1 f1 p2 f2 n0 n1 n2 idx1).
    split; [exact Hb2|]. split; [exact A1|]. destruct (Hval' idx2 Hb2) as (A2 & _).
    split; [rewrite A2, Hsrc2; reflexivity|].
    intros idx2' Hb2' A2'. destruct (Hval' idx2' Hb2') as (A2'' & _).
    apply Hinj'; try assumption. congruence.
Qed.

(** (d) the dtype rule *)
Lemma hack_constants :
  hack_bits = 16 /\ bits_stored_default = 16 /\
  uint16_str = [117; 105; 110; 116; 49; 54]%N /\ int16_str = [105; 110; 116; 49; 54]%N.
Proof. repeat split. Qed.

Theorem conv_dtype gs st code embed st' go :
  wf st -> conv_geom gs st code embed = (st', Ok go) ->
  file_at gs (go_ord0 go) 0 = Some (go_first go) /\
  go_dtype go = (if g_unsigned16 (go_first go) && (bits_stored_of (go_first go) <? 16)
                 then int16_str else g_dtype (go_first go)) /\
  (go_dtype go = int16_str <->
   (g_dtype (go_first go) = uint16_str /\ bits_stored_of (go_first go) < 16) \/ g_dtype (go_first go) = int16_str).
Proof.
  intros Hwf H.
  destruct (conv_setup _ _ _ _ _ _ Hwf H)
    as (st1 & st2 & i0 & col & S & T & V & r & c & Hd & Hwf1 & Ha & Hfi2 & Hord & Hperm & HS & HT & HV & Hlen & Hrc
        & Hi0 & Hcol & Hfpv & Hg0 & HA0 & Hd0 & Hre & Hn & _ & _ & Hdt & _).
  assert (Hlen0 : 0 < length (files_info st1)) by (rewrite Hlen; nia).
  split; [rewrite Hord, file_at_ids by exact Hlen0; rewrite <- Hi0; exact Hg0|].
  rewrite Hdt. unfold out_dtype. destruct hack_constants as (-> & _).
  split; [reflexivity|].
  unfold g_unsigned16.
  destruct (str_eqb_spec (g_dtype (go_first go)) uint16_str) as [E|E]; cbn [andb].
  - destruct (bits_stored_of (go_first go) <? 16) eqn:Eb.
    + apply Nat.ltb_lt in Eb. split; [intros _; left; split; assumption | reflexivity].
    + apply Nat.ltb_ge in Eb. split.
      * intros E2. right. exact E2.
      * intros [[_ Hlt] | E2]; [lia | exact E2].
  - split; [intros E2; right; exact E2 | intros [[E2 _] | E2]; [contradiction | exact E2]].
Qed.
