(** C02 (c), (d): changing the voxel order only permutes and flips array axes; the dtype rule. *)
From Coq Require Import List Bool Arith ZArith NArith QArith Qcanon Lia Lqa Permutation.
From DV Require Import Common.Res Common.Str Generated.T_conv
  Stack.Model Stack.Spec Stack.ProofsShape Stack.ProofsInv
  Orient.Model Orient.Spec Orient.ProofsArr Orient.ProofsAff Orient.Proofs
  Conv.Geom Conv.GeomSpec Conv.ProofsGeomBase Conv.ProofsGeomReorient Conv.ProofsGeomAff Conv.ProofsGeomData
  Conv.ProofsGeomPerm.
Import ListNotations.
Local Open Scope nat_scope.

(** the values of the output are those of the unreordered array *)
Lemma conv_same_values gs st code embed st' go :
  wf st -> conv_geom gs st code embed = (st', Ok go) ->
  Permutation (adata (go_data go)) (adata (go_data0 go)).
Proof.
  intros Hwf H.
  destruct (conv_setup _ _ _ _ _ _ Hwf H)
    as (st1 & st2 & i0 & col & S & T & V & r & c & Hd & Hwf1 & Ha & Hfi2 & Hord & Hperm & HS & HT & HV & Hlen & Hrc
        & Hi0 & Hcol & Hfpv & Hg0 & HA0 & Hd0 & Hre & Hn & _).
  assert (Hsh0 : ashape (go_data0 go) = grid_shape r c S T V) by (rewrite Hd0; apply stack_data_shape; assumption).
  assert (Hwf0 : wf_arr (go_data0 go)) by (rewrite Hd0; apply stack_data_wf).
  assert (Hnd : 3 <= length (ashape (go_data0 go))) by (rewrite Hsh0; apply grid_shape_length).
  destruct (reorient_facts _ _ _ _ _ _ _ Hwf0 Hnd (stack_affine_shape _ _ _ _ HA0) Hre)
    as (p0 & f0 & p1 & f1 & p2 & f2 & n0 & n1 & n2 & rest & Ho & Hp & F0 & F1 & F2 & Hshd & _ & Hval & Hex & Hinj & _).
  apply (bijection_permutation (go_data0 go) (go_data go) (src3 p0 f0 p1 f1 p2 f2 n0 n1 n2)).
  - exact Hwf0.
  - eapply reorient_wf; eassumption.
  - intros idx' Hb. destruct (Hval idx' Hb) as (_ & H1 & H2). split; assumption.
  - exact Hinj.
  - exact Hex.
Qed.

(** Two voxel orders for the same stack. *)
Theorem conv_invariance gs st c1 c2 e1 e2 s1 s2 o1 o2 :
  wf st ->
  conv_geom gs st c1 e1 = (s1, Ok o1) -> conv_geom gs st c2 e2 = (s2, Ok o2) ->
  (* same unreordered image *)
  go_data0 o1 = go_data0 o2 /\ go_aff0 o1 = go_aff0 o2 /\ go_ord0 o1 = go_ord0 o2 /\
  (* same value multiset, same dtype *)
  Permutation (adata (go_data o1)) (adata (go_data o2)) /\ go_dtype o1 = go_dtype o2 /\
  (* each affine is the unreordered one composed with the reported transform *)
  mat_eq (go_aff o1) (mmul (go_aff0 o1) (go_T o1)) /\ mat_eq (go_aff o2) (mmul (go_aff0 o2) (go_T o2)) /\
  (* world-space content: voxels of the two outputs that come from the same unreordered voxel hold the same
     value at the same world position, and every voxel of one output has exactly one such partner *)
  (forall idx1 idx2 idx,
     in_bounds (ashape (go_data o1)) idx1 = true -> in_bounds (ashape (go_data o2)) idx2 = true ->
     apply_aff (go_T o1) idx1 = Some idx -> apply_aff (go_T o2) idx2 = Some idx ->
     aget (go_data o1) idx1 = aget (go_data o2) idx2 /\ veq3 (world (go_aff o1) idx1) (world (go_aff o2) idx2)) /\
  (forall idx1, in_bounds (ashape (go_data o1)) idx1 = true ->
     exists idx2 idx, in_bounds (ashape (go_data o2)) idx2 = true /\
       apply_aff (go_T o1) idx1 = Some idx /\ apply_aff (go_T o2) idx2 = Some idx /\
       forall idx2', in_bounds (ashape (go_data o2)) idx2' = true -> apply_aff (go_T o2) idx2' = Some idx -> idx2' = idx2).
Proof.
  intros Hwf H1 H2.
  pose proof (conv_same_values _ _ _ _ _ _ Hwf H1) as P1.
  pose proof (conv_same_values _ _ _ _ _ _ Hwf H2) as P2.
  destruct (conv_setup _ _ _ _ _ _ Hwf H1)
    as (st1 & st2 & i0 & col & S & T & V & r & c & Hd & Hwf1 & Ha & Hfi2 & Hord & Hperm & HS & HT & HV & Hlen & Hrc
        & Hi0 & Hcol & Hfpv & Hg0 & HA0 & Hd0 & Hre & Hn & _ & _ & (Hgl & Hdt) & _).
  destruct (conv_setup _ _ _ _ _ _ Hwf H2)
    as (st1' & st2' & i0' & col' & S' & T' & V' & r' & c' & Hd' & Hwf1' & Ha' & Hfi2' & Hord' & Hperm' & HS' & HT' & HV' & Hlen' & Hrc'
        & Hi0' & Hcol' & Hfpv' & Hg0' & HA0' & Hd0' & Hre' & Hn' & _ & _ & (Hgl' & Hdt') & _).
  rewrite Hd in Hd'. injection Hd' as <- Eord Esh.
  rewrite Ha in Ha'. injection Ha' as <- <- <-.
  assert (Ed0 : go_data0 o1 = go_data0 o2) by (rewrite Hd0, Hd0', Eord, Esh; reflexivity).
  assert (EA0 : go_aff0 o1 = go_aff0 o2) by congruence.
  assert (Ef : go_first o1 = go_first o2) by congruence.
  split; [exact Ed0|]. split; [exact EA0|]. split; [exact Eord|].
  split; [rewrite P1, P2, Ed0; reflexivity|].
  split; [rewrite Eord in Hgl; rewrite Hgl in Hgl'; injection Hgl' as Egl; rewrite Egl in Hdt; congruence|].
  assert (Hsh0 : ashape (go_data0 o1) = grid_shape r c S T V) by (rewrite Hd0; apply stack_data_shape; assumption).
  assert (Hwf0 : wf_arr (go_data0 o1)) by (rewrite Hd0; apply stack_data_wf).
  assert (Hnd : 3 <= length (ashape (go_data0 o1))) by (rewrite Hsh0; apply grid_shape_length).
  pose proof (stack_affine_shape _ _ _ _ HA0) as HA0s.
  destruct (reorient_facts _ _ _ _ _ _ _ Hwf0 Hnd HA0s Hre)
    as (p0 & f0 & p1 & f1 & p2 & f2 & n0 & n1 & n2 & rest & Ho & Hp & F0 & F1 & F2 & Hshd & _ & Hval & Hex & Hinj
        & Hmeq & HAs & HTs & Hact & Hcomp & _).
  rewrite <- Ed0, <- EA0 in Hre'.
  destruct (reorient_facts _ _ _ _ _ _ _ Hwf0 Hnd HA0s Hre')
    as (q0 & h0 & q1 & h1 & q2 & h2 & m0 & m1 & m2 & rest' & Ho' & Hq & G0 & G1 & G2 & Hshd' & _ & Hval' & Hex' & Hinj'
        & Hmeq' & HAs' & HTs' & Hact' & Hcomp' & _).
  split; [exact Hmeq|]. split; [rewrite <- EA0; exact Hmeq'|]. split.
  - intros idx1 idx2 idx Hb1 Hb2 A1 A2.
    destruct (Hval idx1 Hb1) as (A1' & _ & V1). destruct (Hval' idx2 Hb2) as (A2' & _ & V2).
    rewrite A1' in A1. rewrite A2' in A2. injection A1 as E1. injection A2 as E2.
    split; [rewrite V1, V2, E1, E2; reflexivity|].
    intros k Hk. rewrite !world_nth by assumption.
    unfold hom at 1 2. rewrite (Hcomp _ _ _ k Hk), (Hcomp' _ _ _ k Hk).
    fold (hom idx1) (hom idx2). rewrite (mat_vec44_rows _ _ HTs), (mat_vec44_rows _ _ HTs').
    assert (B1 := apply_aff_inv _ _ _ A1'). assert (B2 := apply_aff_inv _ _ _ A2').
    rewrite E1 in B1. rewrite E2 in B2. destruct B1 as (B10 & B11 & B12). destruct B2 as (B20 & B21 & B22).
    destruct (Hact (NQ (nth 0 idx1 0)) (NQ (nth 1 idx1 0)) (NQ (nth 2 idx1 0))) as (_ & _ & _ & B13).
    destruct (Hact' (NQ (nth 0 idx2 0)) (NQ (nth 1 idx2 0)) (NQ (nth 2 idx2 0))) as (_ & _ & _ & B23).
    fold (hom idx1) in B13. fold (hom idx2) in B23.
    apply mat_vec44_proper; [exact HA0s| | | |].
    + rewrite B10, B20. reflexivity.
    + rewrite B11, B21. reflexivity.
    + rewrite B12, B22. reflexivity.
    + rewrite B13, B23. reflexivity.
  - intros idx1 Hb1. destruct (Hval idx1 Hb1) as (A1 & Hb0 & _).
    destruct (Hex' _ Hb0) as (idx2 & Hb2 & Hsrc2).
    exists idx2, (src3 p0 f0 p1 f1 p2 f2 n0 n1 n2 idx1).
    split; [exact Hb2|]. split; [exact A1|]. destruct (Hval' idx2 Hb2) as (A2 & _).
    split; [rewrite A2, Hsrc2; reflexivity|].
    intros idx2' Hb2' A2'. destruct (Hval' idx2' Hb2') as (A2'' & _).
    apply Hinj'; try assumption. congruence.
Qed.

(** (d) the dtype rule *)
Lemma hack_constants :
  hack_bits = 16 /\ bits_stored_default = 16 /\ uint16_str = dt_name DUint16 /\ int16_str = dt_name DInt16.
Proof. repeat split. Qed.

(** [result_type] depends only on the set of dtypes, and is an upper bound of each of them for the binary
    promotion *)
Lemma present_in l d : present l d = true <-> In d l.
Proof.
  unfold present. rewrite existsb_exists. split.
  - intros (x & Hx & E). destruct d, x; try discriminate; exact Hx.
  - intros H. exists d. split; [exact H | destruct d; reflexivity].
Qed.

Lemma present_ext l l' : (forall d, In d l <-> In d l') -> forall d, present l d = present l' d.
Proof.
  intros H d. destruct (present l d) eqn:E1, (present l' d) eqn:E2; try reflexivity.
  - apply present_in, H, present_in in E1. congruence.
  - apply present_in, H, present_in in E2. congruence.
Qed.

Lemma result_type_set l l' : (forall d, In d l <-> In d l') -> result_type l = result_type l'.
Proof. intros H. unfold result_type. rewrite !(present_ext l l' H). reflexivity. Qed.

Lemma rt7_upper i8 u8 i16 u16 i32 f32 f64 d :
  (match d with DInt8 => i8 | DUint8 => u8 | DInt16 => i16 | DUint16 => u16 | DInt32 => i32
              | DFloat32 => f32 | DFloat64 => f64 end) = true ->
  promote d (rt7 i8 u8 i16 u16 i32 f32 f64) = rt7 i8 u8 i16 u16 i32 f32 f64.
Proof.
  destruct i8, u8, i16, u16, i32, f32, f64, d; intros H; try discriminate H; reflexivity.
Qed.

Lemma result_type_upper l d : In d l -> promote d (result_type l) = result_type l.
Proof.
  intros H. apply present_in in H. unfold result_type. apply rt7_upper. destruct d; exact H.
Qed.

Lemma promote_laws :
  (forall a b, promote a b = promote b a) /\ (forall a, promote a a = a) /\
  (forall a b, promote a (promote a b) = promote a b).
Proof.
  split; [|split].
  - intros a b. destruct a, b; reflexivity.
  - intros a. destruct a; reflexivity.
  - intros a b. destruct a, b; reflexivity.
Qed.

Lemma fold_max_ge l : forall a, a <= fold_left Nat.max l a.
Proof.
  induction l as [|y l IH]; intros a; cbn [fold_left]; [lia|].
  transitivity (Nat.max a y); [lia | apply IH].
Qed.

Lemma fold_max_upper l : forall a x, In x (a :: l) -> x <= fold_left Nat.max l a.
Proof.
  induction l as [|y l IH]; intros a x Hin; cbn [fold_left].
  - destruct Hin as [E|[]]. lia.
  - destruct Hin as [E|[E|Hin]].
    + subst x. transitivity (Nat.max a y); [lia | apply fold_max_ge].
    + subst x. transitivity (Nat.max a y); [lia | apply fold_max_ge].
    + apply IH. right. exact Hin.
Qed.

Lemma dt_name_inj a b : dt_name a = dt_name b -> a = b.
Proof. destruct a, b; intros H; try reflexivity; discriminate H. Qed.

Lemma gfiles_of_nth gs ord gl :
  gfiles_of gs ord = Ok gl -> length gl = length ord /\ forall k, k < length ord -> nth_error gl k = file_at gs ord k.
Proof.
  unfold gfiles_of, file_at. revert gl. induction ord as [|id ord IH]; intros gl; cbn [mapM].
  - intros H. injection H as <-. split; [reflexivity|]. intros k Hk. cbn in Hk. lia.
  - destruct (glookup gs id) as [g|] eqn:Eg; [|discriminate].
    destruct (mapM _ ord) as [gr|e]; [|discriminate]. intros H. injection H as <-.
    destruct (IH gr eq_refl) as [Hl Hn]. split; [cbn [length]; lia|].
    intros [|k] Hk; cbn [nth_error]; [symmetry; exact Eg|]. apply Hn. cbn [length] in Hk. lia.
Qed.

Theorem conv_dtype gs st code embed st' go :
  wf st -> conv_geom gs st code embed = (st', Ok go) ->
  (* [go_files] are the files of the stack, in sorted order *)
  length (go_files go) = length (go_ord0 go) /\
  (forall k, k < length (go_ord0 go) -> nth_error (go_files go) k = file_at gs (go_ord0 go) k) /\
  exists dl,
    map (fun g => dt_of_name (g_dtype g)) (go_files go) = map Some dl /\ dl <> [] /\
    let j := result_type dl in
    let bits := fold_left Nat.max (map bits_stored_of (go_files go)) 0 in
    (* the rule *)
    go_dtype go = (if dt_eqb j DUint16 && (bits <? 16) then dt_name DInt16 else dt_name j) /\
    (* [j] holds every file's dtype, [bits] bounds every file's BitsStored *)
    (forall d, In d dl -> promote d j = j) /\
    (forall g, In g (go_files go) -> bits_stored_of g <= bits).
Proof.
  intros Hwf H.
  destruct (conv_geom_ok _ _ _ _ _ _ H) as (st1 & st2 & sh & i0 & col & _ & _ & _ & _ & _ & _ & _ & (Hgl & Hdt) & _).
  destruct (gfiles_of_nth _ _ _ Hgl) as [Hl Hn]. split; [exact Hl|]. split; [exact Hn|].
  unfold out_dtype in Hdt.
  destruct (mapM _ (go_files go)) as [dl|e] eqn:Em; [|discriminate].
  assert (Hmap : map (fun g => dt_of_name (g_dtype g)) (go_files go) = map Some dl).
  { clear - Em. revert dl Em. induction (go_files go) as [|g gl IH]; intros dl; cbn [mapM map].
    - intros E. injection E as <-. reflexivity.
    - destruct (dt_of_name (g_dtype g)) as [d|]; [|discriminate].
      destruct (mapM _ gl) as [dr|e]; [|discriminate]. intros E. injection E as <-.
      cbn [map]. f_equal. apply IH. reflexivity. }
  destruct dl as [|d0 ds]; [discriminate|]. injection Hdt as Hdt.
  exists (d0 :: ds). split; [exact Hmap|]. split; [discriminate|]. cbv zeta.
  destruct hack_constants as (Hb & _ & Hu & Hi). rewrite Hb, Hu, Hi in Hdt.
  split; [|split].
  - rewrite <- Hdt.
    destruct (dt_eqb (result_type (d0 :: ds)) DUint16) eqn:E.
    + assert (E2 : result_type (d0 :: ds) = DUint16) by (destruct (result_type (d0 :: ds)); try discriminate; reflexivity).
      rewrite E2. rewrite str_eqb_refl. reflexivity.
    + destruct (str_eqb_spec (dt_name (result_type (d0 :: ds))) (dt_name DUint16)) as [E2|E2]; [|reflexivity].
      apply dt_name_inj in E2. rewrite E2 in E. discriminate.
  - intros d Hin. apply result_type_upper, Hin.
  - intros g Hin. apply (fold_max_upper (map bits_stored_of (go_files go)) 0). right. apply in_map, Hin.
Qed.

(* ------------------------------------------------------------------------------------------ *)
(** * The DICOM rescale *)

Lemma row_rescaled_spec r : forall zs xs, row_rescaled r zs xs = true ->
  forall j z, nth_error zs j = Some z -> exists x, nth_error xs j = Some x /\ (inject_Z z == rescaled_val r x)%Q.
Proof.
  induction zs as [|z0 zs IH]; intros [|x0 xs] H j z Hj; cbn [row_rescaled] in H; try discriminate.
  - destruct j; discriminate.
  - apply andb_prop in H as [H0 H1]. destruct j as [|j]; cbn [nth_error] in *.
    + injection Hj as <-. exists x0. split; [reflexivity | apply Qeq_bool_iff, H0].
    + apply (IH xs H1 j z Hj).
Qed.

Lemma rescaled_ok_spec g r :
  rescaled_ok g r = true ->
  forall i j z, pix_at g i j = Some z -> exists x, stored_at r i j = Some x /\ (inject_Z z == rescaled_val r x)%Q.
Proof.
  unfold rescaled_ok, pix_at, stored_at. generalize (g_pix g) (rs_stored r).
  induction l as [|zr zs IH]; intros [|xr xs] H i j z Hz; cbn [rows_rescaled] in H; try discriminate.
  - destruct i; discriminate.
  - apply andb_prop in H as [H0 H1]. destruct i as [|i]; cbn [nth_error] in *.
    + apply (row_rescaled_spec r zr xr H0 j z Hz).
    + apply (IH xs H1 i j z Hz).
Qed.

(** C02 (a) with the rescale made explicit: the voxel of pixel (i, j) of the file in cell (s, t, v) holds
    [rs_den * (slope * stored + intercept)] of that file's stored pixel *)
Theorem conv_values_rescaled gs st code embed st' go (rs : gfile -> rescale) :
  wf st -> gfiles_ok gs st ->
  conv_geom gs st code embed = (st', Ok go) ->
  (forall g, In g (go_files go) -> rescaled_ok g (rs g) = true) ->
  exists S T V r c,
    0 < S /\ 0 < T /\ 0 < V /\ o_shape (go_nifti go) = grid_shape r c S T V /\
    forall s t v i j, s < S -> t < T -> v < V -> i < r -> j < c ->
      exists g x z idx',
        file_at gs (go_ord0 go) (cell_pos S T s t v) = Some g /\ stored_at (rs g) i j = Some x /\
        in_bounds (ashape (go_data go)) idx' = true /\
        apply_aff (go_T go) idx' = Some (cell_idx (length (grid_shape r c S T V)) i j s t v) /\
        aget (go_data go) idx' = Some z /\ (inject_Z z == rescaled_val (rs g) x)%Q.
Proof.
  intros Hwf Hok H Hrs.
  destruct (conv_values gs st code embed st' go Hwf Hok H) as (S & T & V & r & c & HS & HT & HV & Hsh & Hlen & Hall & _).
  destruct (conv_geom_ok _ _ _ _ _ _ H) as (_ & _ & _ & _ & _ & _ & _ & _ & _ & _ & _ & _ & (Hgl & _) & _).
  destruct (gfiles_of_nth _ _ _ Hgl) as [_ Hn].
  exists S, T, V, r, c. repeat (split; [assumption|]).
  intros s t v i j Hs Ht Hv Hi Hj.
  destruct (Hall s t v i j Hs Ht Hv Hi Hj) as (g & z & idx' & Hg & Hz & Hb & Ha & Hget & _).
  assert (Hk : cell_pos S T s t v < length (go_ord0 go)) by (rewrite Hlen; apply cell_pos_lt; assumption).
  assert (Hin : In g (go_files go)) by (eapply nth_error_In; rewrite (Hn _ Hk); exact Hg).
  destruct (rescaled_ok_spec g (rs g) (Hrs g Hin) i j z Hz) as (x & Hx & Hv').
  exists g, x, z, idx'. repeat split; assumption.
Qed.
