(** C01 / C14, part 3: the header rewrite (shape after reorientation, slice_dim := permutation[2], affine) and
    [filter_meta] on top of the nest; lookups through [get_meta]; key sets. *)
From Coq Require Import List Bool Arith NArith ZArith QArith Lia.
From DV Require Import Common.Res Common.Str Ext.Types Ext.Classes Ext.Seq Ext.Model Ext.Spec Ext.TableFacts
     Ext.ValidFacts Ext.LookupSpec Ext.ProofsLookup Ext.ProofsMergeSeq Ext.ProofsMergeDen Ext.ProofsMergeFrame
     Ext.ProofsMerge Conv.Meta Conv.ProofsMetaBase Conv.ProofsMetaNest.
From DV Require Stack.Model Stack.Spec.
Import ListNotations.
Local Open Scope nat_scope.

(** the six axis permutations *)
Definition is_perm3 (perm : list nat) : Prop :=
  In perm [[0; 1; 2]; [0; 2; 1]; [1; 0; 2]; [1; 2; 0]; [2; 0; 1]; [2; 1; 0]].

Lemma perm_facts perm x y z tl :
  is_perm3 perm ->
  exists d0 d1 d2,
    permute_shape perm (x :: y :: z :: tl) = [d0; d1; d2] ++ tl /\
    nth 2 perm 2 < 3 /\
    (forall d, nth (nth 2 perm 2) [d0; d1; d2] d = z) /\
    (1 <= x -> 1 <= y -> 1 <= z -> 1 <= d0 /\ 1 <= d1 /\ 1 <= d2).
Proof.
  intros H. unfold is_perm3 in H. cbn [In] in H.
  destruct H as [<-|[<-|[<-|[<-|[<-|[<-|[]]]]]]]; cbn; eexists _, _, _;
    (split; [reflexivity|]); (split; [lia|]); (split; [intros d; reflexivity|]); intros; lia.
Qed.

Lemma class_ok_cong a b c : length a = length b -> nth 3 a 0 = nth 3 b 0 -> class_ok a c = class_ok b c.
Proof. intros H1 H2. unfold class_ok. rewrite H1, H2. reflexivity. Qed.

Lemma In_firstn' {A} (x : A) n l : In x (firstn n l) -> In x l.
Proof. revert l. induction n as [|n IH]; intros [|y l]; cbn; try tauto. intros [H|H]; [left; exact H | right; apply IH; exact H]. Qed.
Lemma In_skipn' {A} (x : A) n l : In x (skipn n l) -> In x l.
Proof. revert l. induction n as [|n IH]; intros [|y l]; cbn; try tauto. intros H. right. apply IH. exact H. Qed.
Lemma In_py_slice {A} (x : A) a b l : In x (py_slice a b l) -> In x l.
Proof. unfold py_slice. intros H. apply In_firstn' in H. apply In_skipn' in H. exact H. Qed.

Lemma mapM_forall {A B} (f : A -> res B) (P : B -> Prop) l ys :
  mapM f l = Ok ys -> (forall a y, f a = Ok y -> P y) -> forall y, In y ys -> P y.
Proof.
  revert ys. induction l as [|x r IH]; intros ys H Hf; cbn [mapM] in H.
  - injection H as <-. intros y [].
  - destruct (f x) as [y0|] eqn:Ex; [|discriminate]. destruct (mapM f r) as [ys'|] eqn:Er; [|discriminate].
    injection H as <-. intros y [<-|Hy]; [apply (Hf x); exact Ex | apply (IH ys' eq_refl Hf); exact Hy].
Qed.

Section WithV.
  Context {V : Type} (veqb : V -> V -> bool) (vnone : V).
  Hypothesis veqb_spec : forall a b, reflect (a = b) (veqb a b).

  Notation ext := (ext V).
  Notation mfile := (mfile V).
  Notation den := (den vnone).
  Notation rep := (rep vnone).
  Notation lookup := (meta_lookup vnone).

  (** * Keys of a merge come from its inputs *)
  Definition kincl (es : list ext) (K : key -> Prop) : Prop := forall x k, In x es -> In k (keys_e x) -> K k.

  Lemma from_sequence_keys es dim a sd r (K : key -> Prop) :
    from_sequence veqb vnone es dim a sd = Ok r -> kincl es K -> forall k, In k (keys_e r) -> K k.
  Proof.
    unfold from_sequence. intros H HK k Hk.
    apply bind_ok in H as [hfull [_ H]]. apply bind_ok in H as [ents [He H]]. injection H as <-.
    destruct (map_keys_spec _ _ _ He (proj1 (dedup_keys_spec _ []))) as [_ [Hents _]].
    unfold keys_e in Hk. cbn [entries] in Hk. apply in_map_iff in Hk as [[k' x] [E Hx]]. cbn [fst] in E. subst k'.
    destruct (Hents _ _ Hx) as [Hin _]. apply (proj2 (dedup_keys_spec _ [])) in Hin as [Hin _].
    apply in_flat_map in Hin as [y [Hy Hky]]. apply (HK y k Hy Hky).
  Qed.

  Lemma nest_keys exts dsh sd m (K : key -> Prop) :
    nest veqb vnone exts dsh sd = Ok m -> kincl exts K -> forall k, In k (keys_e m) -> K k.
  Proof.
    rewrite nest_unfold. unfold nest_core. intros H HK.
    destruct (n_vols dsh =? 0); [discriminate|].
    apply bind_ok in H as [vols [Hv H]].
    assert (HKv : kincl vols K).
    { destruct (1 <? length exts / n_vols dsh); [|injection Hv as <-; exact HK].
      intros x k Hx. revert k. apply (mapM_forall _ (fun y => forall k, In k (keys_e y) -> K k) _ _ Hv); [|exact Hx].
      intros i y Hy. apply (from_sequence_keys _ _ _ _ _ K Hy). intros z k Hz. apply HK. apply In_py_slice in Hz. exact Hz. }
    destruct (length dsh) as [|[|[|[|[|[|n]]]]]].
    1-4, 7: (destruct vols as [|m0 vols']; [discriminate|]; injection H as <-; intros k Hk; apply (HKv m0 k); [left; reflexivity | exact Hk]).
    - apply (from_sequence_keys _ _ _ _ _ K H HKv).
    - apply bind_ok in H as [vecs [Hc H]].
      assert (HKc : kincl vecs K).
      { destruct (negb (nth 3 dsh 0 =? 1)); [|injection Hc as <-; exact HKv].
        intros x k Hx. revert k. apply (mapM_forall _ (fun y => forall k, In k (keys_e y) -> K k) _ _ Hc); [|exact Hx].
        intros i y Hy. apply (from_sequence_keys _ _ _ _ _ K Hy). intros z k Hz. apply HKv. apply In_py_slice in Hz. exact Hz. }
      apply (from_sequence_keys _ _ _ _ _ K H HKc).
  Qed.

  (** * Lookups on the image the extension was written for *)

  (** the image matches the extension: same shape, the header's slice dimension is the extension's, and the
      slice rows of the two affines are within [meta_valid]'s tolerance *)
  Definition img_matches (im : img) (e : ext) : Prop :=
    ishape im = shape (hdr_of e) /\ islice im = sdim (hdr_of e) /\
    forall d, sdim (hdr_of e) = Some d ->
      close_vec rtol_default T_ext_tol.meta_valid_atol (firstn 3 (nth d (iaff im) [])) (firstn 3 (nth d (aff (hdr_of e)) [])).

  Lemma den_keys (e : ext) k p : den e k p <> vnone -> In k (keys_e e).
  Proof.
    unfold Spec.den, lookup_e. destruct (assoc k (entries e)) as [[c vs]|] eqn:E; [|congruence].
    intros _. apply assoc_In' in E. unfold keys_e. apply in_map_iff. exists (k, (c, vs)). split; [reflexivity | exact E].
  Qed.

  Lemma get_meta_den im (e : ext) k ix sd :
    valid e -> sdim (hdr_of e) = Some sd -> img_matches im e -> in_bounds ix (ishape im) ->
    get_meta im e k (Some ix) vnone = Ok (den e k (pos_of im ix)).
  Proof.
    intros Hv Hsd [Hsh [Hsl Hcl]] Hib.
    pose proof (valid_good_k e k Hv) as Hg. pose proof (visible_good _ _ Hg) as Hvis.
    destruct (lookup_e e k) as [[c vs]|] eqn:El.
    - destruct (cls_eqb_spec c GConst) as [->|Hc].
      + rewrite (get_meta_const im e k (Some ix) vnone vs) by (rewrite El; exact Hvis).
        unfold Spec.den. rewrite El. destruct Hg as [Hok [_ Hlen]]. rewrite Hok.
        destruct (dims (hdr_of e)) as [[nS nT] nV]. destruct (pos_of im ix) as [[s t] v]. cbn [cidx mult_spec] in *.
        destruct vs as [|v0 [|v1 vs']]; cbn in Hlen; try lia. reflexivity.
      + destruct Hv as [Hwf Hrest]. pose proof Hwf as [Hnd [_ [Hsd3 _]]].
        apply (get_meta_value vnone im e k ix vnone c vs); try assumption.
        * split; [exact Hwf | exact Hrest].
        * split; [rewrite Hsh; exact Hnd | intros d Hd; rewrite Hsl in Hd; apply Hsd3; exact Hd].
        * unfold agrees. destruct c; try congruence; try (rewrite Hsh; reflexivity);
            (exists sd, sd; split; [rewrite Hsl; exact Hsd|]; split; [exact Hsd|]; split; [rewrite Hsh; reflexivity|];
             split; [apply Hcl; exact Hsd|]; try exact I; rewrite Hsh; reflexivity).
    - rewrite (get_meta_absent im e k (Some ix) vnone) by (rewrite El; reflexivity).
      unfold Spec.den. rewrite El. reflexivity.
  Qed.

  (** * Rewrite of shape / slice_dim / affine, then the filter *)

  Section Embed.
    Variables (fs : list mfile) (r c S T Vn : nat).
    Hypothesis Hfs : forall f, In f fs ->
      mfile_ok f /\ Stack.Model.f_rows (m_file f) = r /\ Stack.Model.f_cols (m_file f) = c.
    Hypothesis Hlen : length fs = S * T * Vn.
    Hypothesis HS : 1 <= S.
    Hypothesis HT : 1 <= T.
    Hypothesis HV : 1 <= Vn.
    Hypothesis Hr : 1 <= r.
    Hypothesis Hc : 1 <= c.
    Hypothesis Hclose : forall f g, In f fs -> In g fs -> normals_close (m_aff f) (m_aff g).
    Variables (perm : list nat) (oaff : list (list Q)) (filt : key -> bool).
    Hypothesis Hperm : is_perm3 perm.
    Hypothesis Hoaff : aff_ok oaff.

    Let gsh := grid_shape r c S T Vn.
    Let dsh := permute_shape perm gsh.
    Let sd := nth 2 perm 2.

    Definition src (p : pos) (k : key) : V := grid_src vnone fs S T p k.

    Lemma gsh_form : exists tl, gsh = r :: c :: S :: tl /\ Forall (fun n => 1 <= n) tl /\
                                nth 3 gsh 1 = T /\ nth 4 gsh 1 = Vn.
    Proof.
      unfold gsh, grid_shape. destruct (Nat.eqb_spec Vn 1) as [EV|NV]; [destruct (Nat.eqb_spec T 1) as [ET|NT]|];
        eexists; (split; [reflexivity|]); (split; [repeat (apply Forall_cons; [lia|]); apply Forall_nil|]); cbn [nth]; lia.
    Qed.

    Theorem embed_spec :
      exists e,
        embed veqb vnone fs dsh sd oaff filt = Ok e /\
        valid e /\ shape (hdr_of e) = dsh /\ sdim (hdr_of e) = Some sd /\ aff (hdr_of e) = oaff /\
        dims (hdr_of e) = (S, T, Vn) /\
        (forall k p, in_dims (S, T, Vn) p -> den e k p = if filt k then vnone else src p k) /\
        (forall k, filt k = true -> lookup_e e k = None) /\
        (forall k, In k (keys_e e) -> filt k = false /\ exists f, In f fs /\ In k (map fst (m_meta f))).
    Proof.
      destruct gsh_form as [tl [Eg [Htl [Hn3 Hn4]]]].
      destruct (perm_facts perm r c S tl Hperm) as [d0 [d1 [d2 [Ed [Hsd [HnS Hpos]]]]]].
      assert (Edsh : dsh = [d0; d1; d2] ++ tl) by (unfold dsh; rewrite Eg; exact Ed).
      assert (Etl : tl = skipn 3 gsh) by (rewrite Eg; reflexivity).
      destruct (nest_rep veqb vnone veqb_spec fs r c S T Vn Hfs Hlen HS HT HV Hclose dsh sd d0 d1 d2) as [m [Em Rm]].
      { rewrite Edsh, Etl. reflexivity. }
      { exact Hsd. }
      { apply HnS. }
      fold gsh in Rm. destruct Rm as [Rv Rsh Rsd Raff Rden].
      assert (Hdm : dims (hdr_of m) = (S, T, Vn)).
      { unfold dims. rewrite Rsd, Rsh. rewrite Hn3, Hn4. rewrite Eg. reflexivity. }
      assert (Hlen_d : length dsh = length gsh) by (rewrite Edsh, Eg; reflexivity).
      assert (Hn3d : forall d, nth 3 dsh d = nth 3 gsh d) by (intros d; rewrite Edsh, Eg; reflexivity).
      assert (Hn4d : forall d, nth 4 dsh d = nth 4 gsh d) by (intros d; rewrite Edsh, Eg; reflexivity).
      assert (Hnsd : forall d, nth sd dsh d = S).
      { intros d. rewrite Edsh. specialize (HnS d). fold sd in HnS, Hsd.
        destruct sd as [|[|[|n]]]; try lia; exact HnS. }
      pose proof Rv as [Hwf [Hnd Hent]]. pose proof Hwf as [Hndim [Hpos_g [_ [_ Hbase]]]]. unfold ndim in Hndim. rewrite Rsh in *.
      (* the rewritten header *)
      set (h1 := mk_hdr dsh (Some sd) oaff (has_time (hdr_of m)) (has_vec (hdr_of m))).
      assert (Erw : rewrite_hdr (hdr_of m) dsh sd oaff = Ok h1).
      { unfold rewrite_hdr. rewrite Hlen_d.
        replace ((3 <=? length gsh) && (length gsh <? 6)) with true
          by (symmetry; apply andb_true_iff; split; [apply Nat.leb_le | apply Nat.ltb_lt]; lia).
        cbn [negb]. replace (sd <? 3) with true by (symmetry; apply Nat.ltb_lt; exact Hsd). cbn [negb].
        rewrite (aff_ok_is_4x4 _ Hoaff). reflexivity. }
      assert (Hcls : forall c0, class_ok dsh c0 = class_ok gsh c0) by (intros c0; apply class_ok_cong; [exact Hlen_d | apply Hn3d]).
      assert (Hdm1 : dims h1 = (S, T, Vn)).
      { unfold dims, h1. cbn [sdim shape]. rewrite Hnsd, Hn3d, Hn4d, Hn3, Hn4. reflexivity. }
      set (e1 := mk_ext h1 (entries m)).
      assert (Hv1 : valid e1).
      { split; [|split].
        - unfold hdr_wf, e1, h1, ndim. cbn [hdr_of shape sdim aff has_time has_vec]. split; [rewrite Hlen_d; exact Hndim|].
          split.
          { rewrite Edsh. cbn [app]. destruct (Hpos Hr Hc HS) as [P0 [P1 P2]].
            repeat (apply Forall_cons; [assumption|]). exact Htl. }
          split; [intros d E; injection E as <-; exact Hsd|]. split; [exact Hoaff|].
          intros c0 Hc0. rewrite Hcls in Hc0. specialize (Hbase c0 Hc0). destruct (base_of c0); exact Hbase.
        - exact Hnd.
        - intros k c0 vs Hin. cbn [e1 entries hdr_of] in *. destruct (Hent k c0 vs Hin) as [A [B C]].
          split; [unfold h1; cbn [shape]; rewrite Hcls; exact A|]. split; [intros _; unfold h1; cbn [sdim]; discriminate|].
          rewrite Hdm1, <- Hdm. exact C. }
      assert (Hden1 : forall k p, den e1 k p = den m k p).
      { intros k p. unfold Spec.den, lookup_e, e1. cbn [hdr_of entries].
        destruct (assoc k (entries m)) as [[c0 vs]|]; [|reflexivity].
        unfold h1 at 1. cbn [shape]. rewrite Hcls, Rsh, Hdm1, Hdm. reflexivity. }
      (* the filter *)
      set (g := fun kv : key * (cls * list V) => negb (class_valid h1 (fst (snd kv)) && filt (fst kv))).
      set (e2 := mk_ext h1 (filter g (entries m))).
      assert (Efl : filter_meta filt e1 = Ok e2).
      { unfold filter_meta. cbn [e1 hdr_of entries].
        replace (forallb (fun c0 => has_base h1 (base_of c0)) (valid_classes h1)) with true; [reflexivity|].
        symmetry. apply forallb_forall. intros c0 Hc0. destruct Hv1 as [[_ [_ [_ [_ Hb1]]]] _]. apply Hb1.
        cbn [e1 hdr_of]. rewrite <- class_valid_ok. unfold class_valid. apply mem_cls_In. exact Hc0. }
      assert (Hlk : forall k, lookup_e e2 k = if filt k then None else lookup_e e1 k).
      { intros k. unfold lookup_e. cbn [e2 e1 entries]. rewrite (assoc_filter g _ k Hnd).
        destruct (assoc k (entries m)) as [[c0 vs]|] eqn:Ea; [|destruct (filt k); reflexivity].
        unfold g. cbn [fst snd]. apply assoc_In' in Ea. destruct (Hent k c0 vs Ea) as [A _].
        rewrite class_valid_ok. unfold h1 at 1. cbn [shape]. rewrite Hcls, A. cbn [andb]. destruct (filt k); reflexivity. }
      exists e2. split.
      { unfold embed. rewrite (mapM_exts fs r c Hfs). cbn [bind]. fold (exts fs) in Em. rewrite Em. cbn [bind].
        rewrite Erw. cbn [bind]. exact Efl. }
      split.
      { destruct Hv1 as [W1 [W2 W3]]. split; [exact W1|]. split.
        - unfold keys_e. cbn [e2 entries]. apply NoDup_map_fst_filter. exact Hnd.
        - intros k c0 vs Hin. cbn [e2 entries hdr_of] in Hin. apply filter_In in Hin as [Hin _]. apply (W3 k c0 vs Hin). }
      split; [reflexivity|]. split; [reflexivity|]. split; [reflexivity|]. split; [exact Hdm1|].
      split.
      { intros k p Hp. unfold Spec.den at 1. rewrite Hlk. cbn [e2 hdr_of].
        destruct (filt k); [reflexivity|].
        change (den e1 k p = src p k). rewrite Hden1. apply Rden. rewrite Hdm. exact Hp. }
      split.
      { intros k Hk. rewrite Hlk, Hk. reflexivity. }
      intros k Hk. unfold keys_e in Hk. cbn [e2 entries] in Hk. apply in_map_iff in Hk as [[k' [c0 vs]] [E Hin]].
      cbn [fst] in E. subst k'. apply filter_In in Hin as [Hin Hg]. unfold g in Hg. cbn [fst snd] in Hg.
      destruct (Hent k c0 vs Hin) as [A _].
      rewrite class_valid_ok in Hg. unfold h1 in Hg at 1. cbn [shape] in Hg. rewrite Hcls, A in Hg. cbn [andb] in Hg.
      split; [destruct (filt k); [discriminate | reflexivity]|].
      assert (HK : In k (keys_e m)) by (unfold keys_e; apply in_map_iff; exists (k, (c0, vs)); split; [reflexivity | exact Hin]).
      apply (nest_keys (exts fs) dsh sd m (fun k => exists f, In f fs /\ In k (map fst (m_meta f))) Em); [|exact HK].
      intros x k0 Hx Hk0. unfold exts in Hx. apply in_map_iff in Hx as [f [<- Hf]]. rewrite file_keys in Hk0. eauto.
    Qed.
  End Embed.
End WithV.
