(** C01 / C14, part 2: the three-level nest of [to_nifti]'s embed block is a lossless encoding of the per-file
    dictionaries: the nested extension says, at grid position (s,t,v), what file number s + S*(t + T*v) of the
    final order said. *)
From Coq Require Import List Bool Arith NArith ZArith QArith Lia.
From DV Require Import Common.Res Common.Str Ext.Types Ext.Classes Ext.Seq Ext.Model Ext.Spec Ext.TableFacts
     Ext.ValidFacts Ext.ProofsMergeSeq Ext.ProofsMergeDen Ext.ProofsMergeFrame Ext.ProofsMerge
     Conv.Meta Conv.ProofsMetaBase.
From DV Require Stack.Model Stack.Spec.
Import ListNotations.
Local Open Scope nat_scope.

Notation grid_shape := Stack.Spec.grid_shape.

Lemma grid_nth3 r c S T Vn d : T = 1 \/ d = 1 \/ True -> nth 3 (grid_shape r c S T Vn) 1 = T.
Proof.
  intros _. unfold grid_shape. destruct (Nat.eqb_spec Vn 1); [destruct (Nat.eqb_spec T 1); subst|]; reflexivity.
Qed.
Lemma grid_nth4 r c S T Vn : nth 4 (grid_shape r c S T Vn) 1 = Vn.
Proof.
  unfold grid_shape. destruct (Nat.eqb_spec Vn 1); [destruct (Nat.eqb_spec T 1); subst|]; reflexivity.
Qed.

Lemma div_grid S T Vn : 1 <= T -> 1 <= Vn -> S * T * Vn / (T * Vn) = S.
Proof. intros HT HV. replace (S * T * Vn) with (S * (T * Vn)) by lia. apply Nat.div_mul. nia. Qed.

Section WithV.
  Context {V : Type} (veqb : V -> V -> bool) (vnone : V).
  Hypothesis veqb_spec : forall a b, reflect (a = b) (veqb a b).

  Notation ext := (ext V).
  Notation mfile := (mfile V).
  Notation rep := (rep vnone).
  Notation lookup := (meta_lookup vnone).

  Definition mdflt : mfile := mk_mfile Stack.Model.dflt_file [] [].
  Definition edflt : ext := file_ext' mdflt.

  Lemma rep_ext (e : ext) sh a src src' :
    rep e sh a src -> (forall p k, in_dims (dims (hdr_of e)) p -> src p k = src' p k) -> rep e sh a src'.
  Proof.
    intros R H. destruct R as [R1 R2 R3 R4 R5]. constructor; try assumption.
    intros k p Hp. rewrite (R5 k p Hp). apply H. exact Hp.
  Qed.

  (** [nest] with every quantity it reads from [data.shape] as an explicit argument *)
  Definition nest_core (exts : list ext) (nv ns nd nt nV : nat) : res ext :=
    if nv =? 0 then Err ECrash else
    let fpv := length exts / nv in
    bind (if 1 <? fpv
          then mapM (fun i => from_sequence veqb vnone (py_slice (i * ns) (i * ns + ns) exts) 2 None None) (seq 0 nv)
          else Ok exts)
         (fun vol_meta =>
            match nd with
            | 5 =>
                bind (if negb (nt =? 1)
                      then mapM (fun v => from_sequence veqb vnone (py_slice (v * nt) (v * nt + nt) vol_meta) 3 None None)
                                (seq 0 nV)
                      else Ok vol_meta)
                     (fun vec_meta => from_sequence veqb vnone vec_meta 4 None None)
            | 4 => from_sequence veqb vnone vol_meta 3 None None
            | _ => match vol_meta with m :: _ => Ok m | [] => Err EIndex end
            end).

  Lemma nest_unfold exts dsh sd :
    nest veqb vnone exts dsh sd =
    nest_core exts (n_vols dsh) (nth sd dsh 0) (length dsh) (nth 3 dsh 0) (nth 4 dsh 0).
  Proof. reflexivity. Qed.

  Section Grid.
    Variables (fs : list mfile) (r c S T Vn : nat).
    Hypothesis Hfs : forall f, In f fs ->
      mfile_ok f /\ Stack.Model.f_rows (m_file f) = r /\ Stack.Model.f_cols (m_file f) = c.
    Hypothesis Hlen : length fs = S * T * Vn.
    Hypothesis HS : 1 <= S.
    Hypothesis HT : 1 <= T.
    Hypothesis HV : 1 <= Vn.
    Hypothesis Hclose : forall f g, In f fs -> In g fs -> normals_close (m_aff f) (m_aff g).

    Definition fat (i : nat) : mfile := nth i fs mdflt.
    Definition exts : list ext := map file_ext' fs.
    Definition idx (s t v : nat) : nat := s + S * (t + T * v).
    (** what the nested extension has to say *)
    Definition grid_src (p : pos) (k : key) : V := let '(s, t, v) := p in lookup (fat (idx s t v)) k.

    Lemma fat_in i : i < S * T * Vn -> In (fat i) fs.
    Proof. intros Hi. apply nth_In. rewrite Hlen. exact Hi. Qed.

    Lemma exts_nth i : i < S * T * Vn -> nth i exts edflt = file_ext' (fat i).
    Proof. intros _. unfold exts, edflt, fat. apply map_nth. Qed.

    Lemma exts_length : length exts = S * T * Vn.
    Proof. unfold exts. rewrite map_length. exact Hlen. Qed.

    Lemma mapM_exts : mapM file_ext fs = Ok exts.
    Proof. apply mapM_map_ok. intros f Hf. apply file_ext_eq. destruct (Hfs f Hf) as [[_ [_ [Ha _]]] _]. exact Ha. Qed.

    Lemma rep_exts i : i < S * T * Vn ->
      rep (nth i exts edflt) [r; c; 1] (m_aff (fat i)) (fun _ k => lookup (fat i) k).
    Proof.
      intros Hi. rewrite (exts_nth i Hi). destruct (Hfs _ (fat_in i Hi)) as [Hok [Hr Hc]].
      pose proof (rep_file vnone (fat i) Hok) as R. rewrite Hr, Hc in R. exact R.
    Qed.

    Lemma close_fat i j : i < S * T * Vn -> j < S * T * Vn -> normals_close (m_aff (fat i)) (m_aff (fat j)).
    Proof. intros Hi Hj. apply Hclose; apply fat_in; assumption. Qed.

    (** ** level 1: the volumes *)
    Definition vol_src (j : nat) (p : pos) (k : key) : V := lookup (fat (j * S + coord AxS p)) k.

    Lemma volumes :
      exists vols,
        (if 1 <? S
         then mapM (fun i => from_sequence veqb vnone (py_slice (i * S) (i * S + S) exts) 2 None None) (seq 0 (T * Vn))
         else Ok exts) = Ok vols /\
        length vols = T * Vn /\
        forall j, j < T * Vn -> rep (nth j vols edflt) [r; c; S] (m_aff (fat (j * S))) (vol_src j).
    Proof.
      destruct (Nat.ltb_spec 1 S) as [H1|H1].
      - destruct (mapM_seq_family
                    (fun i => from_sequence veqb vnone (py_slice (i * S) (i * S + S) exts) 2 None None)
                    (fun j y => rep y [r; c; S] (m_aff (fat (j * S))) (vol_src j)) (T * Vn)) as [vols [E [Hl Hp]]].
        + intros j Hj.
          assert (Hb : j * S + S <= length exts) by (rewrite exts_length; nia).
          destruct (stack_level veqb vnone veqb_spec (py_slice (j * S) (j * S + S) exts) edflt S [r; c; 1] 2 AxS [r; c; S]
                      (fun i => m_aff (fat (j * S + i))) (fun i _ k => lookup (fat (j * S + i)) k)) as [y [Ey Ry]].
          * apply py_slice_length. exact Hb.
          * lia.
          * constructor.
          * intros i Hi. rewrite (py_slice_nth (j * S) S exts i edflt Hi). apply rep_exts. nia.
          * intros i Hi. apply close_fat; nia.
          * exists y. split; [exact Ey|]. rewrite Nat.add_0_r in Ry. exact Ry.
        + exists vols. split; [exact E|]. split; [exact Hl|]. intros j Hj. apply Hp. exact Hj.
      - assert (ES : S = 1) by lia. exists exts. split; [reflexivity|]. split; [rewrite exts_length, ES; lia|].
        intros j Hj. assert (Hj' : j < S * T * Vn) by (rewrite ES; lia).
        replace (j * S) with j by (rewrite ES; lia). rewrite ES.
        apply (rep_ext _ _ _ (fun _ k => lookup (fat j) k)); [apply rep_exts; exact Hj'|].
        intros p k Hp. unfold vol_src. rewrite (rep_dims _ _ _ _ _ (rep_exts j Hj')) in Hp.
        destruct p as [[s t] v]. cbn [nth in_dims coord] in *. replace (j * S + s) with j by (rewrite ES; lia). reflexivity.
    Qed.

    (** ** the whole nest *)
    Theorem nest_rep (dsh : list nat) (sd d0 d1 d2 : nat) :
      dsh = [d0; d1; d2] ++ skipn 3 (grid_shape r c S T Vn) -> sd < 3 -> nth sd [d0; d1; d2] 0 = S ->
      exists m, nest veqb vnone exts dsh sd = Ok m /\
                rep m (grid_shape r c S T Vn) (m_aff (fat 0)) grid_src.
    Proof.
      intros Hd Hsd HnS. rewrite nest_unfold.
      assert (Hns : nth sd dsh 0 = S).
      { rewrite Hd. destruct sd as [|[|[|sd]]]; try lia; exact HnS. }
      assert (Hnv : n_vols dsh = T * Vn).
      { unfold n_vols. rewrite Hd. cbn [app nth]. unfold grid_shape.
        destruct (Nat.eqb_spec Vn 1); [destruct (Nat.eqb_spec T 1)|]; subst; cbn [skipn nth]; lia. }
      rewrite Hns, Hnv. unfold nest_core.
      destruct (Nat.eqb_spec (T * Vn) 0) as [E0|_]; [nia|].
      rewrite exts_length, (div_grid S T Vn HT HV).
      destruct volumes as [vols [Ev [Hvl Hvr]]]. rewrite Ev. cbn [bind].
      unfold grid_shape in *. destruct (Nat.eqb_spec Vn 1) as [EV|NV]; [destruct (Nat.eqb_spec T 1) as [ET|NT]|].
      - (* 3-D *)
        rewrite Hd. cbn [skipn app length].
        destruct vols as [|m vols']; [cbn in Hvl; rewrite EV, ET in Hvl; lia|]. exists m. split; [reflexivity|].
        pose proof (Hvr 0 ltac:(rewrite EV, ET; lia)) as R0. cbn [nth] in R0.
        apply (rep_ext _ _ _ _ _ R0). intros p k Hp. rewrite (rep_dims _ _ _ _ _ R0) in Hp.
        destruct p as [[s t] v]. cbn [nth in_dims] in Hp. unfold vol_src, grid_src, idx. cbn [coord].
        assert (Et : t = 0) by lia. assert (Ev0 : v = 0) by lia.
        replace (0 * S + s) with (s + S * (t + T * v)); [reflexivity|]. rewrite Et, Ev0. lia.
      - (* 4-D *)
        rewrite Hd. cbn [skipn app length].
        destruct (stack_level veqb vnone veqb_spec vols edflt T [r; c; S] 3 AxT [r; c; S; T]
                    (fun j => m_aff (fat (j * S))) vol_src) as [m [Em Rm]].
        + rewrite Hvl, EV. lia.
        + lia.
        + constructor.
        + intros j Hj. apply Hvr. rewrite EV. lia.
        + intros j Hj. apply close_fat; rewrite EV; nia.
        + exists m. split; [exact Em|]. apply (rep_ext _ _ _ _ _ Rm). intros p k Hp.
          rewrite (rep_dims _ _ _ _ _ Rm) in Hp. destruct p as [[s t] v]. cbn [nth in_dims] in Hp.
          unfold vol_src, grid_src, idx. cbn [coord set_coord].
          assert (Ev0 : v = 0) by lia.
          replace (t * S + s) with (s + S * (t + T * v)); [reflexivity|]. rewrite Ev0. nia.
      - (* 5-D *)
        rewrite Hd. cbn [skipn app length nth].
        destruct (Nat.eqb_spec T 1) as [ET|NT]; cbn [negb].
        + (* singleton time axis: the volumes are merged along dim 4 directly *)
          cbn [bind].
          destruct (stack_level veqb vnone veqb_spec vols edflt Vn [r; c; S] 4 AxV [r; c; S; 1; Vn]
                      (fun j => m_aff (fat (j * S))) vol_src) as [m [Em Rm]].
          * rewrite Hvl, ET. lia.
          * lia.
          * constructor.
          * intros j Hj. apply Hvr. rewrite ET. lia.
          * intros j Hj. apply close_fat; rewrite ET; nia.
          * exists m. split; [exact Em|]. rewrite ET at 1. apply (rep_ext _ _ _ _ _ Rm). intros p k Hp.
            rewrite (rep_dims _ _ _ _ _ Rm) in Hp. destruct p as [[s t] v]. cbn [nth in_dims] in Hp.
            unfold vol_src, grid_src, idx. cbn [coord set_coord].
            assert (Et : t = 0) by lia.
            replace (v * S + s) with (s + S * (t + T * v)); [reflexivity|]. rewrite Et, ET. lia.
        + (* per vector component along dim 3, then along dim 4 *)
          destruct (mapM_seq_family
                      (fun v => from_sequence veqb vnone (py_slice (v * T) (v * T + T) vols) 3 None None)
                      (fun v y => rep y [r; c; S; T] (m_aff (fat (v * T * S)))
                                      (fun p k => vol_src (v * T + coord AxT p) (set_coord AxT p 0) k)) Vn)
            as [vecs [Evec [Hcl Hcr]]].
          { intros v Hv.
            assert (Hb : v * T + T <= length vols) by (rewrite Hvl; nia).
            destruct (stack_level veqb vnone veqb_spec (py_slice (v * T) (v * T + T) vols) edflt T [r; c; S] 3 AxT [r; c; S; T]
                        (fun j => m_aff (fat ((v * T + j) * S))) (fun j => vol_src (v * T + j))) as [y [Ey Ry]].
            - apply py_slice_length. exact Hb.
            - lia.
            - constructor.
            - intros j Hj. rewrite (py_slice_nth (v * T) T vols j edflt Hj). apply Hvr. nia.
            - intros j Hj. apply close_fat; nia.
            - exists y. split; [exact Ey|]. rewrite Nat.add_0_r in Ry. exact Ry. }
          rewrite Evec. cbn [bind].
          destruct (stack_level veqb vnone veqb_spec vecs edflt Vn [r; c; S; T] 4 AxV [r; c; S; T; Vn]
                      (fun v => m_aff (fat (v * T * S)))
                      (fun v p k => vol_src (v * T + coord AxT p) (set_coord AxT p 0) k)) as [m [Em Rm]].
          * exact Hcl.
          * lia.
          * constructor. lia.
          * intros v Hv. apply Hcr. exact Hv.
          * intros v Hv. apply close_fat; nia.
          * exists m. split; [exact Em|]. apply (rep_ext _ _ _ _ _ Rm). intros p k Hp.
            rewrite (rep_dims _ _ _ _ _ Rm) in Hp. destruct p as [[s t] v]. cbn [nth in_dims] in Hp.
            unfold vol_src, grid_src, idx. cbn [coord set_coord].
            replace ((v * T + t) * S + s) with (s + S * (t + T * v)) by nia. reflexivity.
    Qed.
  End Grid.
End WithV.
