(** Correspondence glue for the conversion model (C02, C20 header half).
    A case = configuration + files in ADD order (sorter abstraction, pixels, geometry, as seen through
    nibabel's DicomWrapper and the default extractor) + voxel-order string + what
    [DicomStack.to_nifti(order, embed_meta=False)] produced. *)
From Coq Require Import List Bool Arith ZArith NArith QArith Qcanon Qabs.
From DV Require Import Common.Res Common.Str Generated.T_conv Stack.Model Orient.Model Conv.Geom Conv.Header.
Import ListNotations.
Local Open Scope nat_scope.

Record obs := mkobs {
  ob_err : option err;                                  (* exception class of to_nifti, None = returned *)
  ob_order : list nat;                                  (* ids of _files_info after the call *)
  ob_dirty : bool;                                      (* _shape_dirty after the call *)
  ob_shape : list nat;
  ob_data : list Z;                                     (* C-order contents *)
  ob_dtype : str;
  ob_aff : mat;
  ob_dim_info : option nat * option nat * option nat;   (* get_dim_info() *)
  ob_pixdim4 : Q;
  ob_units : str * str;                                 (* get_xyzt_units() *)
  ob_stimes : option (list Q)                           (* argument of set_slice_times, None = not called *)
}.

Record case := mkcase {
  c_time : bool;
  c_vec : bool;
  c_files : list gfile;            (* in add order *)
  c_code : option str;             (* None = the default argument of to_nifti *)
  c_exact : bool;                  (* every float operation of the implementation is exact on this input *)
  c_pos_exact : bool;              (* ... including np.inner(ipp, slice_normal) of every file *)
  c_faffs : list mat;              (* observed single-file NIfTI affines (from_dicom_wrapper), parallel to c_files *)
  c_rescale : list rescale;        (* stored pixels and scale factors of every file, parallel to c_files *)
  c_qaff : option mat;             (* result of DicomStack.get_affine() as an early / the FIRST query on a fresh stack (None: not observed) *)
  c_T : option mat;                (* meta_ext.reorient_transform of the same conversion with embed_meta=True (None: not observed) *)
  c_obs : obs
}.

Fixpoint nats_eqb (a b : list nat) : bool :=
  match a, b with
  | [], [] => true
  | x :: xs, y :: ys => Nat.eqb x y && nats_eqb xs ys
  | _, _ => false
  end.
Fixpoint zs_eqb (a b : list Z) : bool :=
  match a, b with
  | [], [] => true
  | x :: xs, y :: ys => Z.eqb x y && zs_eqb xs ys
  | _, _ => false
  end.
Fixpoint qs_eqb (a b : list Q) : bool :=
  match a, b with
  | [], [] => true
  | x :: xs, y :: ys => Qeq_bool x y && qs_eqb xs ys
  | _, _ => false
  end.
Definition onat_eqb (a b : option nat) : bool :=
  match a, b with
  | None, None => true
  | Some x, Some y => Nat.eqb x y
  | _, _ => false
  end.

(** tolerance for the inexact stream: 2^-30 *)
Definition tol : Q := (1 # 1073741824)%Q.
Definition q_close (exact : bool) (a b : Q) : bool :=
  if exact then Qeq_bool a b else Qle_bool (Qabs (a - b)) tol.
Definition mat_close (exact : bool) (a b : mat) : bool :=
  (length a =? length b) &&
  forallb (fun rr => (length (fst rr) =? length (snd rr)) &&
                     forallb (fun xy => q_close exact (fst xy) (snd xy)) (combine (fst rr) (snd rr)))
          (combine a b).

(** the DicomWrapper contract on one file: single-file affine, slice indicator *)
Definition contract_ok (exact pexact : bool) (g : gfile) (A : mat) : bool :=
  mat_close exact (file_affine g) A &&
  q_close pexact (this (f_pos (g_file g))) (slice_indicator g).

Fixpoint rescales_ok (gs : list gfile) (rs : list rescale) : bool :=
  match gs, rs with
  | [], [] => true
  | g :: gr, r :: rr => rescaled_ok g r && rescales_ok gr rr
  | _, _ => false
  end.

Fixpoint contracts_ok (exact pexact : bool) (gs : list gfile) (As : list mat) : bool :=
  match gs, As with
  | [], [] => true
  | g :: gr, A :: Ar => contract_ok exact pexact g A && contracts_ok exact pexact gr Ar
  | _, _ => false
  end.

Definition model (c : case) : res state * (state * res (geom_out * hdr_out)) :=
  match add_all (init (c_time c) (c_vec c)) (map g_file (c_files c)) with
  | Err e => (Err e, (init (c_time c) (c_vec c), Err e))
  | Ok st => (Ok st, conv (c_files c) st (match c_code c with Some s => s | None => default_voxel_order end) false)
  end.

Definition check_state (c : case) (st' : state) : bool :=
  nats_eqb (ids (files_info st')) (ob_order (c_obs c)) && Bool.eqb (shape_dirty st') (ob_dirty (c_obs c)).

(** get_affine() on a stack that has only been filled: the model sorts first ([get_affine] starts with [get_shape]), so
    the affine is that of the first SORTED file whatever the add order and whichever public query comes first *)
Definition check_qaff (c : case) : bool :=
  match c_qaff c with
  | None => true
  | Some A =>
      match add_all (init (c_time c) (c_vec c)) (map g_file (c_files c)) with
      | Err _ => false
      | Ok st =>
          match snd (get_affine st) with
          | Err _ => false
          | Ok (i0, col) =>
              match stack_affine (c_files c) i0 col with
              | Ok A0 => mat_close (c_exact c) A0 A
              | Err _ => false
              end
          end
      end
  end.

(** values + geometry + reported transform (C02).  The private state left behind by the call ([check_state]: order of
    _files_info, _shape_dirty) is NOT part of either check: only public results are compared. *)
Definition check_geom (c : case) : bool :=
  contracts_ok (c_exact c) (c_pos_exact c) (c_files c) (c_faffs c) && rescales_ok (c_files c) (c_rescale c) && check_qaff c &&
  match model c with
  | (Err _, _) => false                                   (* every add of a case succeeds *)
  | (Ok _, (st', r)) =>
      match r, ob_err (c_obs c) with
      | Err e, Some e' => err_eqb e e'
      | Ok (go, _), None =>
          nats_eqb (ashape (go_data go)) (ob_shape (c_obs c)) &&
          zs_eqb (adata (go_data go)) (ob_data (c_obs c)) &&
          str_eqb (go_dtype go) (ob_dtype (c_obs c)) &&
          mat_close (c_exact c) (go_aff go) (ob_aff (c_obs c)) &&
          match c_T c with Some T => mat_close true (go_T go) T | None => true end
      | _, _ => false
      end
  end.

(** header fields (C20) *)
Definition check_hdr (c : case) : bool :=
  match model c with
  | (Err _, _) => false
  | (Ok _, (st', r)) =>
      match r, ob_err (c_obs c) with
      | Err e, Some e' => err_eqb e e'
      | Ok (_, h), None =>
          let '(f, p, s) := h_dim_info h in
          let '(f', p', s') := ob_dim_info (c_obs c) in
          onat_eqb f f' && onat_eqb p p' && onat_eqb s s' &&
          Qeq_bool (match h_pixdim4 h with Some t => t | None => 1%Q end) (ob_pixdim4 (c_obs c)) &&
          str_eqb (fst (h_units h)) (fst (ob_units (c_obs c))) &&
          str_eqb (snd (h_units h)) (snd (ob_units (c_obs c))) &&
          match h_slice_times h, ob_stimes (c_obs c) with
          | None, None => true
          | Some l, Some l' => qs_eqb l l'
          | _, _ => false
          end
      | _, _ => false
      end
  end.

Definition check (c : case) : bool := check_geom c && check_hdr c.

(** what the model computed, for replay files *)
Definition show (c : case) :=
  match model c with
  | (Err e, _) => (Some e, [], false, ([], [], [], []), (None, None, None, None, None))
  | (Ok _, (st', Err e)) => (Some e, ids (files_info st'), shape_dirty st', ([], [], [], []), (None, None, None, None, None))
  | (Ok _, (st', Ok (go, h))) =>
      (None, ids (files_info st'), shape_dirty st',
       (ashape (go_data go), adata (go_data go), go_dtype go, map (map Qred) (go_aff go)),
       (Some (h_dim_info h), Some (h_pixdim4 h), Some (go_perm go), Some (go_flips go), Some (h_slice_times h)))
  end.

(** * The dtype lattice against numpy: [np.result_type] of two / three dtypes *)
Record lcase := mklcase { l_args : list str; l_res : str }.

Definition check_lattice (c : lcase) : bool :=
  match mapM (fun s => match dt_of_name s with Some d => Ok d | None => Err ECrash end) (l_args c) with
  | Ok (d :: ds) => str_eqb (dt_name (result_type (d :: ds))) (l_res c)
  | _ => false
  end.

Definition show_lattice (c : lcase) :=
  match mapM (fun s => match dt_of_name s with Some d => Ok d | None => Err ECrash end) (l_args c) with
  | Ok (d :: ds) => Some (dt_name (result_type (d :: ds)))
  | _ => None
  end.
