(** C12 lifted from the sorter's abstract record [nifti_out] to the real outputs.

    Dependency lemma ([conv_full_dep]): the RESULT of the composed conversion (data array, affine, transform,
    header fields, embedded extension) depends on the stack state only through
      (a) what [Stack.Model.to_nifti] returns for that state (the record [nifti_out], for every voxel-order
          abstraction), and
      (b) the re-sorted file list that [get_shape] leaves behind when it succeeds
    (b is needed for one bit only: whether the sorted files ascend in slice position).  Both are history
    independent -- (a) is [C12_history], (b) is the determinism of the shape computation -- hence so is the
    conversion ([full_history], [full_fresh]). *)
From Coq Require Import List Bool Arith ZArith NArith QArith Qcanon Lia Permutation.
From DV Require Import Common.Res Common.Str
  Stack.Model Stack.Spec Stack.ProofsShape Stack.ProofsInv Stack.ProofsC11 Stack.ProofsC12
  Orient.Model Conv.Geom Conv.Header
  Ext.Types Ext.Model Conv.Meta Conv.Full.
Import ListNotations.
Local Open Scope nat_scope.

(* ------------------------------------------------------------------------------------------ *)
(** * [conv_geom] as a function of what it reads from the state *)

(** everything [conv_geom] computes once it has: the sorted file list [fi] (read for [ascending] only), the ids
    in sorted order, the shape, the affine source [(i0, col)], and the sorter's [to_nifti] as a function [tn] of
    the voxel-order abstraction *)
Definition geom_of (gs : list gfile) (code : str) (fi : list entry) (ord0 : list nat) (sh : list nat)
           (i0 : nat) (col : option (nat * nat)) (tn : vorder -> res nifti_out) : res geom_out :=
  match glookup gs i0, stack_affine gs i0 col,
        mapM (fun id => match glookup gs id with Some g => Ok g | None => Err ECrash end) ord0 with
  | Some g0, Ok A0, Ok gl =>
      match out_dtype gl with
      | Err e => Err e
      | Ok dtype =>
          let d0 := stack_data gs ord0 sh in
          match reorient d0 A0 code with
          | Err e => Err e
          | Ok (d, A, T, o) =>
              match tn (vorder_of fi code o) with
              | Err e => Err e
              | Ok n => Ok (mkgeom n ord0 g0 gl d0 A0 d dtype A T o (ornt_perm o) (ornt_flips o))
              end
          end
      end
  | _, _, _ => Err ECrash
  end.

Lemma geom_of_ext gs code fi ord0 sh i0 col tn1 tn2 :
  (forall vo, tn1 vo = tn2 vo) -> geom_of gs code fi ord0 sh i0 col tn1 = geom_of gs code fi ord0 sh i0 col tn2.
Proof.
  intros H. unfold geom_of.
  destruct (glookup gs i0); [|reflexivity]. destruct (stack_affine gs i0 col); [|reflexivity].
  destruct (mapM _ ord0); [|reflexivity]. destruct (out_dtype _); [|reflexivity].
  destruct (reorient _ _ _) as [[[[d A] T] o]|e]; [|reflexivity]. rewrite H. reflexivity.
Qed.

Lemma conv_geom_snd gs st code em :
  snd (conv_geom gs st code em) =
  match snd (get_data st) with
  | Err e => Err e
  | Ok (ord0, sh) =>
      match snd (get_affine (fst (get_data st))) with
      | Err e => Err e
      | Ok (i0, col) =>
          geom_of gs code (files_info (fst (get_affine (fst (get_data st))))) ord0 sh i0 col
                  (fun vo => snd (to_nifti st vo em))
      end
  end.
Proof.
  unfold conv_geom, geom_of.
  destruct (get_data st) as [st1 [[ord0 sh]|e]]; [|reflexivity]. cbn [fst snd].
  destruct (get_affine st1) as [st2 [[i0 col]|e]]; [|reflexivity]. cbn [fst snd].
  destruct (glookup gs i0); [|reflexivity]. destruct (stack_affine gs i0 col); [|reflexivity].
  destruct (mapM _ ord0); [|reflexivity]. destruct (out_dtype _); [|reflexivity].
  destruct (reorient _ _ _) as [[[[d A] T] o]|e]; [|reflexivity].
  destruct (to_nifti st (vorder_of (files_info st2) code o) em) as [st3 [n|e]]; reflexivity.
Qed.

(** after a successful shape query the affine query cannot fail and leaves the file list alone *)
Lemma get_affine_after st sh :
  snd (get_shape st) = Ok sh ->
  let s1 := fst (get_shape st) in
  exists col, snd (get_affine s1) = Ok (f_id (e_file (nth 0 (files_info s1) dflt_entry)), col) /\
              files_info (fst (get_affine s1)) = files_info s1.
Proof.
  intros H s1. pose proof (get_shape_again st sh H) as Hag. fold s1 in Hag.
  unfold get_affine. rewrite Hag.
  cbn [fst snd]. eexists; split; reflexivity.
Qed.

Lemma get_data_form st :
  get_data st = (fst (get_shape st),
                 match snd (get_shape st) with
                 | Err e => Err e
                 | Ok sh => Ok (ids (files_info (fst (get_shape st))), sh)
                 end).
Proof. unfold get_data. destruct (get_shape st) as [s [sh|e]]; reflexivity. Qed.

(** the dependency lemma for the geometry half *)
Lemma conv_geom_dep gs st1 st2 code em :
  (forall vo, snd (to_nifti st1 vo em) = snd (to_nifti st2 vo em)) ->
  (forall sh, snd (get_shape st1) = Ok sh -> files_info (fst (get_shape st1)) = files_info (fst (get_shape st2))) ->
  snd (conv_geom gs st1 code em) = snd (conv_geom gs st2 code em).
Proof.
  intros Hto Hfi. rewrite !conv_geom_snd.
  pose proof (Hto None) as H0. rewrite !to_nifti_result in H0.
  rewrite !get_data_form in *. cbn [fst snd] in *.
  revert H0.
  destruct (snd (get_shape st1)) as [sh1|e1] eqn:E1, (snd (get_shape st2)) as [sh2|e2] eqn:E2; intros H0.
  - destruct (get_affine_after st1 sh1 E1) as [col1 [Ea1 Ef1]]. destruct (get_affine_after st2 sh2 E2) as [col2 [Ea2 Ef2]].
    cbv zeta in Ea1, Ef1, Ea2, Ef2. rewrite Ea1, Ea2 in *. rewrite Ef1, Ef2.
    injection H0 as _ Hsh Hi0 Hcol _ _ _ _ _. subst sh2 col2.
    rewrite (Hfi sh1 eq_refl).
    apply geom_of_ext. exact Hto.
  - destruct (get_affine_after st1 sh1 E1) as [col1 [Ea1 _]]. cbv zeta in Ea1. rewrite Ea1 in H0. discriminate H0.
  - destruct (get_affine_after st2 sh2 E2) as [col2 [Ea2 _]]. cbv zeta in Ea2. rewrite Ea2 in H0. discriminate H0.
  - injection H0 as ->. reflexivity.
Qed.

(* ------------------------------------------------------------------------------------------ *)
(** * The composed conversion as a function of the geometric result *)

Section WithV.
  Context {V : Type} (veqb : V -> V -> bool) (vnone : V).
  Notation conv_full := (conv_full veqb vnone).

  Definition full_of (gs : list gfile) (ms : list (mfile V)) (em : bool) (filt : key -> bool) (r : res geom_out)
    : res (geom_out * hdr_out * option (ext V)) :=
    match r with
    | Err e => Err e
    | Ok go =>
        match header_of gs go with
        | Err e => Err e
        | Ok h =>
            if em then match embed_of veqb vnone ms go h filt with Err e => Err e | Ok e => Ok (go, h, Some e) end
            else Ok (go, h, None)
        end
    end.

  Lemma conv_full_snd gs ms st code em filt :
    snd (conv_full gs ms st code em filt) = full_of gs ms em filt (snd (conv_geom gs st code em)).
  Proof.
    unfold Full.conv_full, conv, full_of. destruct (conv_geom gs st code em) as [s [go|e]]; [|reflexivity].
    cbn [snd]. destruct (header_of gs go) as [h|e]; [|reflexivity]. cbn [bind].
    destruct em; [|reflexivity]. destruct (embed_of veqb vnone ms go h filt); reflexivity.
  Qed.

  (** THE DEPENDENCY LEMMA: same [nifti_out] for every voxel-order abstraction and same re-sorted file list =>
      same data array, affine, transform, header fields and extension *)
  Theorem conv_full_dep gs ms st1 st2 code em filt :
    (forall vo, snd (to_nifti st1 vo em) = snd (to_nifti st2 vo em)) ->
    (forall sh, snd (get_shape st1) = Ok sh -> files_info (fst (get_shape st1)) = files_info (fst (get_shape st2))) ->
    snd (conv_full gs ms st1 code em filt) = snd (conv_full gs ms st2 code em filt).
  Proof. intros H1 H2. rewrite !conv_full_snd. f_equal. apply conv_geom_dep; assumption. Qed.

  (* ---------------------------------------------------------------------------------------- *)
  (** * Histories *)

  (** two stacks that satisfy the history invariant and hold the same files re-sort them identically *)
  Lemma resorted_det st1 st2 :
    inv st1 -> inv st2 -> cfg_time st1 = cfg_time st2 -> cfg_vec st1 = cfg_vec st2 ->
    Permutation (files st1) (files st2) ->
    forall sh, snd (get_shape st1) = Ok sh -> files_info (fst (get_shape st1)) = files_info (fst (get_shape st2)).
  Proof.
    intros Hi1 Hi2 Hct Hcv Hp sh Hsh.
    assert (Hsame : same_stack st1 st2).
    { apply same_stack_of_files; try assumption; [apply Hi1 | apply Hi2]. }
    destruct (compute_shape_det st1 st2 (proj1 (proj1 Hi1)) (proj1 (proj1 Hi2)) Hsame) as [Hr Hf].
    destruct (get_shape_canon st1 Hi1) as [Hr1 Hf1]. destruct (get_shape_canon st2 Hi2) as [Hr2 Hf2].
    rewrite (Hf1 sh Hsh), (Hf sh) by congruence. symmetry. apply (Hf2 sh). congruence.
  Qed.

  Theorem full_det gs ms st1 st2 code em filt :
    inv st1 -> inv st2 -> cfg_time st1 = cfg_time st2 -> cfg_vec st1 = cfg_vec st2 ->
    Permutation (files st1) (files st2) ->
    snd (conv_full gs ms st1 code em filt) = snd (conv_full gs ms st2 code em filt).
  Proof.
    intros Hi1 Hi2 Hct Hcv Hp. apply conv_full_dep.
    - intros vo. apply to_nifti_det; assumption.
    - apply resorted_det; assumption.
  Qed.

  Lemma history_stacks ct cv h1 h2 :
    Permutation (accepted (init ct cv) h1) (accepted (init ct cv) h2) ->
    let st1 := run (init ct cv) h1 in let st2 := run (init ct cv) h2 in
    inv st1 /\ inv st2 /\ cfg_time st1 = cfg_time st2 /\ cfg_vec st1 = cfg_vec st2 /\ Permutation (files st1) (files st2).
  Proof.
    intros Hp st1 st2.
    split; [apply inv_run, inv_init|]. split; [apply inv_run, inv_init|].
    destruct (run_cfg h1 (init ct cv)) as [A1 B1]. destruct (run_cfg h2 (init ct cv)) as [A2 B2].
    split; [unfold st1, st2; congruence|]. split; [unfold st1, st2; congruence|].
    unfold st1, st2. rewrite (run_files h1 _ (wf_init ct cv)), (run_files h2 _ (wf_init ct cv)). cbn [files init files_info map app].
    exact Hp.
  Qed.

  (** two arbitrary histories that accept the same files: same conversion (or the same exception) *)
  Theorem full_history gs ms ct cv h1 h2 code em filt :
    Permutation (accepted (init ct cv) h1) (accepted (init ct cv) h2) ->
    snd (conv_full gs ms (run (init ct cv) h1) code em filt) = snd (conv_full gs ms (run (init ct cv) h2) code em filt).
  Proof.
    intros Hp. destruct (history_stacks ct cv h1 h2 Hp) as (I1 & I2 & C1 & C2 & P). apply full_det; assumption.
  Qed.

  (** the files added in another order, followed by any queries and conversions, against a fresh stack *)
  Theorem full_fresh gs ms ct cv fs fs' ops code em filt :
    no_adds ops = true ->
    Permutation (accepted (init ct cv) (map OAdd fs)) (accepted (init ct cv) (map OAdd fs')) ->
    snd (conv_full gs ms (run (init ct cv) (map OAdd fs' ++ ops)) code em filt) =
    snd (conv_full gs ms (run (init ct cv) (map OAdd fs)) code em filt).
  Proof.
    intros Hno Hp. apply full_history.
    rewrite accepted_app, (accepted_no_adds ops _ Hno), app_nil_r. symmetry. exact Hp.
  Qed.
End WithV.
