(** C01 / C14, part 1: the per-file extension, small list lemmas, and one level of the nest
    ([from_sequence] of equally shaped valid extensions whose slice normals are close) as concatenation,
    specialised from Ext/ProofsMerge.v ([merge_den], [merge_total]). *)
From Coq Require Import List Bool Arith NArith ZArith QArith Lia.
From DV Require Import Common.Res Common.Str Ext.Types Ext.Classes Ext.Seq Ext.Model Ext.Spec Ext.TableFacts
     Ext.ValidFacts Ext.ProofsMergeSeq Ext.ProofsMergeDen Ext.ProofsMergeFrame Ext.ProofsMerge Conv.Meta.
From DV Require Stack.Model.
Import ListNotations.
Local Open Scope nat_scope.

(** * Small facts *)

Definition aff_ok (a : list (list Q)) : Prop := length a = 4 /\ Forall (fun r => length r = 4) a.

Lemma aff_ok_is_4x4 a : aff_ok a -> is_4x4 a = true.
Proof.
  intros [H1 H2]. unfold is_4x4. rewrite H1. cbn [Nat.eqb andb].
  apply forallb_forall. intros r Hr. rewrite Forall_forall in H2. rewrite (H2 r Hr). reflexivity.
Qed.

(** the row of the affine the code calls the slice normal, for slice dimension 2 *)
Definition normal2 (a : list (list Q)) : list Q := firstn 3 (nth 2 a []).
(** [np.allclose] with default tolerances *)
Definition normals_close (a b : list (list Q)) : Prop :=
  allclose rtol_default atol_default (normal2 a) (normal2 b) = true.

Lemma use_slices_sd2 h1 h2 :
  sdim h1 = Some 2 -> sdim h2 = Some 2 -> use_slices h1 h2 = allclose rtol_default atol_default (normal2 (aff h1)) (normal2 (aff h2)).
Proof. intros H1 H2. unfold use_slices, slice_normal. rewrite H1, H2. reflexivity. Qed.

Lemma mapM_seq_family {B} (f : nat -> res B) (P : nat -> B -> Prop) n :
  (forall j, j < n -> exists y, f j = Ok y /\ P j y) ->
  exists ys, mapM f (seq 0 n) = Ok ys /\ length ys = n /\ forall j d, j < n -> P j (nth j ys d).
Proof.
  assert (G : forall n a, (forall j, j < n -> exists y, f (a + j) = Ok y /\ P (a + j) y) ->
              exists ys, mapM f (seq a n) = Ok ys /\ length ys = n /\ forall j d, j < n -> P (a + j) (nth j ys d)).
  { clear n. induction n as [|n IH]; intros a H.
    - exists []. split; [reflexivity|]. split; [reflexivity|]. intros j d Hj. lia.
    - destruct (H 0 ltac:(lia)) as [y [Ey Py]]. rewrite Nat.add_0_r in Ey, Py.
      destruct (IH (S a)) as [ys [Em [Hl Hp]]].
      { intros j Hj. destruct (H (S j) ltac:(lia)) as [z [Ez Pz]].
        replace (S a + j) with (a + S j) by lia. eauto. }
      exists (y :: ys). cbn [seq mapM]. rewrite Ey, Em. split; [reflexivity|]. split; [cbn; lia|].
      intros [|j] d Hj; cbn [nth].
      + rewrite Nat.add_0_r. exact Py.
      + replace (a + S j) with (S a + j) by lia. apply Hp. lia. }
  intros H. destruct (G n 0) as [ys [E [Hl Hp]]]; [intros j Hj; apply (H j Hj)|].
  exists ys. split; [exact E|]. split; [exact Hl|]. intros j d Hj. apply (Hp j d Hj).
Qed.

Lemma mapM_map_ok {A B} (f : A -> res B) (g : A -> B) l : (forall x, In x l -> f x = Ok (g x)) -> mapM f l = Ok (map g l).
Proof.
  induction l as [|x r IH]; intros H; cbn [mapM map]; [reflexivity|].
  rewrite (H x (or_introl eq_refl)), (IH (fun z Hz => H z (or_intror Hz))). reflexivity.
Qed.

Lemma NoDup_map_fst_filter {A B} (g : A * B -> bool) (l : list (A * B)) :
  NoDup (map fst l) -> NoDup (map fst (filter g l)).
Proof.
  induction l as [|x r IH]; cbn [filter map]; intros H; [constructor|].
  inversion H as [|? ? Hn Hr]; subst. destruct (g x); [|apply IH; exact Hr].
  cbn [map]. constructor; [|apply IH; exact Hr].
  intros Hin. apply Hn. apply in_map_iff in Hin as [y [Ey Hy]]. apply filter_In in Hy as [Hy _].
  rewrite <- Ey. apply in_map. exact Hy.
Qed.

Section WithV.
  Context {V : Type} (veqb : V -> V -> bool) (vnone : V).
  Hypothesis veqb_spec : forall a b, reflect (a = b) (veqb a b).

  Notation ext := (ext V).
  Notation mfile := (mfile V).
  Notation den := (den vnone).

  Lemma assoc_filter (g : key * (cls * list V) -> bool) (l : list (key * (cls * list V))) k :
    NoDup (map fst l) ->
    assoc k (filter g l) = match assoc k l with Some x => if g (k, x) then Some x else None | None => None end.
  Proof.
    induction l as [|[k' x] r IH]; cbn [filter assoc map fst]; intros Hnd; [reflexivity|].
    inversion Hnd as [|? ? Hn Hr]; subst. unfold key_eqb. destruct (str_eqb_spec k k') as [->|Hne].
    - destruct (g (k', x)) eqn:Eg.
      + cbn [assoc]. unfold key_eqb. rewrite str_eqb_refl. reflexivity.
      + rewrite (IH Hr). rewrite (assoc_notin r k' Hn). reflexivity.
    - destruct (g (k', x)); [|apply IH; exact Hr].
      cbn [assoc]. unfold key_eqb. destruct (str_eqb_spec k k') as [->|_]; [congruence|]. apply IH; exact Hr.
  Qed.

  (** * The per-file extension *)

  Definition file_hdr (f : mfile) : hdr :=
    mk_hdr [Stack.Model.f_rows (m_file f); Stack.Model.f_cols (m_file f); 1] (Some 2) (m_aff f) false false.
  Definition file_entries (f : mfile) : list (key * (cls * list V)) :=
    map (fun kv => (fst kv, (GConst, [snd kv]))) (m_meta f).
  Definition file_ext' (f : mfile) : ext := mk_ext (file_hdr f) (file_entries f).

  (** a file in the domain: positive matrix size, a 4x4 affine, a dictionary (no key twice) *)
  Definition mfile_ok (f : mfile) : Prop :=
    1 <= Stack.Model.f_rows (m_file f) /\ 1 <= Stack.Model.f_cols (m_file f) /\ aff_ok (m_aff f) /\
    NoDup (map fst (m_meta f)).

  Lemma file_ext_eq f : aff_ok (m_aff f) -> file_ext f = Ok (file_ext' f).
  Proof.
    intros Ha. unfold file_ext, make_empty_hdr. cbn [length Nat.leb Nat.ltb andb negb].
    pose proof (aff_ok_is_4x4 _ Ha) as H4. unfold is_4x4 in H4. rewrite H4. cbn [negb Nat.ltb Nat.leb bind].
    reflexivity.
  Qed.

  Lemma file_lookup f k :
    lookup_e (file_ext' f) k = match meta_assoc k (m_meta f) with Some v => Some (GConst, [v]) | None => None end.
  Proof.
    unfold lookup_e, file_ext', file_entries. cbn [entries].
    induction (m_meta f) as [|[k' v] r IH]; cbn [map assoc meta_assoc fst snd]; [reflexivity|].
    destruct (key_eqb k k'); [reflexivity | exact IH].
  Qed.

  Lemma file_keys f : keys_e (file_ext' f) = map fst (m_meta f).
  Proof. unfold keys_e, file_ext', file_entries. cbn [entries]. rewrite map_map. reflexivity. Qed.

  Lemma file_valid f : mfile_ok f -> valid (file_ext' f).
  Proof.
    intros [Hr [Hc [Ha Hnd]]]. split; [|split].
    - unfold hdr_wf, file_ext', file_hdr, ndim. cbn [hdr_of shape sdim aff length].
      split; [lia|]. split; [repeat constructor; assumption|].
      split; [intros d H; injection H as <-; lia|]. split; [exact Ha|].
      intros c H. destruct c; cbn in H; try discriminate; reflexivity.
    - rewrite file_keys. exact Hnd.
    - intros k c vs Hin. unfold file_ext', file_entries in Hin. cbn [entries] in Hin.
      apply in_map_iff in Hin as [[k' v] [E _]]. injection E as <- <- <-.
      split; [reflexivity|]. split; [discriminate|]. reflexivity.
  Qed.

  Lemma file_den f k p : den (file_ext' f) k p = meta_lookup vnone f k.
  Proof.
    unfold Spec.den, meta_lookup. rewrite file_lookup. destruct (meta_assoc k (m_meta f)) as [v|]; [|reflexivity].
    cbn [file_ext' hdr_of file_hdr shape]. cbn. destruct p as [[s t] v0]. reflexivity.
  Qed.

  (** * "Extension [e] has shape [sh], slice dimension 2, affine [a], and says [src] at every grid position" *)
  Record rep (e : ext) (sh : list nat) (a : list (list Q)) (src : pos -> key -> V) : Prop := mk_rep {
    rep_valid : valid e;
    rep_shape : shape (hdr_of e) = sh;
    rep_sdim : sdim (hdr_of e) = Some 2;
    rep_aff : aff (hdr_of e) = a;
    rep_den : forall k p, in_dims (dims (hdr_of e)) p -> den e k p = src p k }.

  Lemma rep_file f : mfile_ok f ->
    rep (file_ext' f) [Stack.Model.f_rows (m_file f); Stack.Model.f_cols (m_file f); 1] (m_aff f)
        (fun _ k => meta_lookup vnone f k).
  Proof. intros H. constructor; try reflexivity; [apply file_valid; exact H | intros k p _; apply file_den]. Qed.

  Lemma rep_dims e sh a src : rep e sh a src -> dims (hdr_of e) = (nth 2 sh 1, nth 3 sh 1, nth 4 sh 1).
  Proof. intros R. unfold dims. rewrite (rep_sdim _ _ _ _ R), (rep_shape _ _ _ _ R). reflexivity. Qed.

  (** * One level of the nest *)

  (** the four (input shape, merge dimension) situations of [to_nifti]'s embed block *)
  Inductive level : list nat -> nat -> axis -> nat -> list nat -> Prop :=
  | LvSlice r c N : level [r; c; 1] 2 AxS N [r; c; N]
  | LvTime r c nS N : level [r; c; nS] 3 AxT N [r; c; nS; N]
  | LvVec r c nS nT N : 2 <= nT -> level [r; c; nS; nT] 4 AxV N [r; c; nS; nT; N]
  | LvVec1 r c nS N : level [r; c; nS] 4 AxV N [r; c; nS; 1; N].

  Lemma stack_level (es : list ext) (edflt : ext) (N : nat) sh0 dim ax sh'
        (afn : nat -> list (list Q)) (src : nat -> pos -> key -> V) :
    length es = N -> 2 <= N -> level sh0 dim ax N sh' ->
    (forall j, j < N -> rep (nth j es edflt) sh0 (afn j) (src j)) ->
    (forall j, j < N -> normals_close (afn 0) (afn j)) ->
    exists r, from_sequence veqb vnone es dim None None = Ok r /\
              rep r sh' (afn 0) (fun p k => src (coord ax p) (set_coord ax p 0) k).
  Proof.
    intros Hlen HN Hlv Hrep Hclose.
    destruct es as [|e0 es']; [cbn in Hlen; lia|].
    assert (Hin : forall x, In x (e0 :: es') -> exists j, j < N /\ x = nth j (e0 :: es') edflt).
    { intros x Hx. destruct (In_nth _ _ edflt Hx) as [j [Hj E]]. exists j. split; [lia | symmetry; exact E]. }
    pose proof (Hrep 0 ltac:(lia)) as R0. cbn [nth] in R0.
    assert (Hok : inputs_ok (e0 :: es') e0 None).
    { split; [reflexivity|]. split; [lia|]. intros x Hx. destruct (Hin x Hx) as [j [Hj ->]].
      pose proof (Hrep j Hj) as Rj. split; [exact (rep_valid _ _ _ _ Rj)|].
      split; [rewrite (rep_shape _ _ _ _ Rj), (rep_shape _ _ _ _ R0); reflexivity|].
      cbn [out_sdim]. rewrite (rep_sdim _ _ _ _ Rj), (rep_sdim _ _ _ _ R0). reflexivity. }
    assert (Hsd0 : out_sdim None e0 = Some 2) by (cbn [out_sdim]; exact (rep_sdim _ _ _ _ R0)).
    assert (Hax : axis_of (out_sdim None e0) dim = Some ax) by (rewrite Hsd0; destruct Hlv; reflexivity).
    assert (Hn3 : 3 <= dim -> out_sdim None e0 <> None) by (intros _; rewrite Hsd0; discriminate).
    assert (Hsh' : set_nth dim (length (e0 :: es')) (pad_to (S dim) (shape (hdr_of e0))) = Some sh').
    { rewrite (rep_shape _ _ _ _ R0), Hlen. destruct Hlv; reflexivity. }
    assert (Htr : trailing1b sh' = false).
    { destruct Hlv; unfold trailing1b; cbn [length last Nat.ltb Nat.leb andb]; try reflexivity;
        (destruct (Nat.eqb_spec N 1); [lia | reflexivity]). }
    destruct (merge_total veqb vnone veqb_spec (e0 :: es') e0 dim None None Hok) as [r Hr].
    - split; exact I.
    - destruct Hlv; lia.
    - rewrite (rep_shape _ _ _ _ R0). destruct Hlv; reflexivity.
    - rewrite (rep_shape _ _ _ _ R0). destruct Hlv; cbn [length nth]; lia.
    - exact Hn3.
    - intros sh Hs. rewrite Hsh' in Hs. injection Hs as <-. exact Htr.
    - exists r. split; [exact Hr|].
      destruct (merge_setup veqb vnone (e0 :: es') e0 dim None None r Hok Hr) as [ents [_ [F _]]].
      pose proof (fr_shape _ _ _ _ F) as Hs. rewrite Hsh' in Hs.
      assert (Htr' : trailing1b (shape (hdr_of r)) = false) by (injection Hs as <-; exact Htr).
      destruct (merge_den veqb vnone veqb_spec (e0 :: es') e0 dim None None r ax Hok Hr Hax Hn3 Htr') as [_ [Hsd [Haf [Hv Hd]]]].
      injection Hs as Hs. rewrite Hsd0 in Hsd.
      assert (Ha0 : aff (hdr_of r) = afn 0) by (rewrite Haf; exact (rep_aff _ _ _ _ R0)).
      constructor; [exact Hv | symmetry; exact Hs | exact Hsd | exact Ha0|].
      intros k p Hp.
      assert (Hdr : dims (hdr_of r) = (nth 2 sh' 1, nth 3 sh' 1, nth 4 sh' 1)).
      { unfold dims. rewrite Hsd, <- Hs. reflexivity. }
      rewrite Hdr in Hp.
      assert (Hc : coord ax p < N /\ in_dims (nth 2 sh0 1, nth 3 sh0 1, nth 4 sh0 1) (set_coord ax p 0)).
      { destruct p as [[s t] v]. destruct Hlv; cbn [nth coord set_coord in_dims] in *; lia. }
      destruct Hc as [Hc Hp0].
      rewrite (Hd k p) by (rewrite Hdr; exact Hp).
      rewrite (nth_indep _ e0 edflt) by lia.
      pose proof (Hrep _ Hc) as Rj.
      rewrite den_in_use.
      + apply (rep_den _ _ _ _ Rj). rewrite (rep_dims _ _ _ _ Rj). exact Hp0.
      + rewrite use_slices_sd2; [|exact Hsd | exact (rep_sdim _ _ _ _ Rj)].
        rewrite Ha0, (rep_aff _ _ _ _ Rj). apply Hclose. exact Hc.
  Qed.
End WithV.
