(** C20, header half: slice axis, frequency / phase axes and their world directions, repetition time,
    slice times. *)
From Coq Require Import List Bool Arith ZArith NArith QArith Qcanon Lia Lqa Permutation.
From DV Require Import Common.Res Common.Str Common.F64 Common.PyNum Generated.T_conv
  Stack.Model Stack.Sort Stack.Spec Stack.ProofsShape Stack.ProofsInv
  Orient.Model Orient.Spec Orient.ProofsArr Orient.ProofsAff Orient.Proofs
  Time.Model
  Conv.Geom Conv.GeomSpec Conv.Header Conv.ProofsGeomBase Conv.ProofsGeomReorient Conv.ProofsGeomAff Conv.ProofsGeomData.
Import ListNotations.
Local Open Scope nat_scope.

(* ------------------------------------------------------------------------------------------ *)
(** * Unfolding *)

Lemma conv_ok gs st code embed st' go h :
  conv gs st code embed = (st', Ok (go, h)) ->
  conv_geom gs st code embed = (st', Ok go) /\ header_of gs go = Ok h.
Proof.
  unfold conv. destruct (conv_geom gs st code embed) as [s3 r]. destruct r as [g|e]; [|discriminate].
  destruct (header_of gs g) as [h'|e] eqn:Eh; [|discriminate].
  intros H. injection H as <- <- <-. auto.
Qed.

Lemma header_fields gs go h :
  header_of gs go = Ok h ->
  h_slice_dim h = nth 2 (go_perm go) 0 /\
  h_units h = xyzt_units /\
  h_pixdim4 h = option_map (fun t : Qc => this t) (o_tr (go_nifti go)) /\
  h_dim_info h =
    (match o_phase (go_nifti go) with
     | None => (None, None, Some (nth 2 (go_perm go) 0))
     | Some true => (Some (nth 0 (go_perm go) 0), Some (nth 1 (go_perm go) 0), Some (nth 2 (go_perm go) 0))
     | Some false => (Some (nth 1 (go_perm go) 0), Some (nth 0 (go_perm go) 0), Some (nth 2 (go_perm go) 0))
     end) /\
  h_n_slices h = nth (nth 2 (go_perm go) 0) (ashape (go_data go)) 0 /\
  slice_times_arg gs (o_order (go_nifti go)) (nvols_of_shape (ashape (go_data0 go))) (h_n_slices h)
  = Ok (h_slice_times h).
Proof.
  unfold header_of.
  destruct (slice_times_arg _ _ _ _) as [stimes|e] eqn:Es; [|discriminate].
  intros H. injection H as <-. cbn [h_slice_dim h_units h_pixdim4 h_dim_info h_n_slices h_slice_times].
  repeat split; try assumption. destruct (o_phase (go_nifti go)) as [[|]|]; reflexivity.
Qed.

(* ------------------------------------------------------------------------------------------ *)
(** * Slice axis *)

Lemma cf_cf_eq f n x s : x < n -> s < n -> cf f n x = s -> x = cf f n s.
Proof. intros Hx Hs E. rewrite <- E. symmetry. apply cf_invol, Hx. Qed.

(** file order after the in-place reversal: position k of volume [vol] holds the file that the sorter put at
    slice [cf f2 S k] of that volume *)
Lemma nth_rev_chunks {A} (l : list A) S nv vol k d :
  nv * S <= length l -> vol < nv -> k < S ->
  nth (vol * S + k) (map_chunks (@rev A) S nv l) d = nth (vol * S + (S - 1 - k)) l d.
Proof.
  intros Hl Hv Hk.
  rewrite <- (nth_chunk _ S vol k d Hk).
  rewrite (map_chunks_chunk (@rev A) S nv l vol (@rev_length A) Hl Hv).
  assert (Hcl : length (chunk S vol l) = S).
  { unfold chunk. rewrite firstn_length, skipn_length. nia. }
  rewrite rev_nth by (rewrite Hcl; exact Hk). rewrite Hcl.
  replace (S - Datatypes.S k) with (S - 1 - k) by lia.
  apply nth_chunk. lia.
Qed.

Theorem hdr_slice_axis gs st code embed st' go h :
  wf st -> gfiles_ok gs st ->
  conv gs st code embed = (st', Ok (go, h)) ->
  exists S T V r c f2,
    0 < S /\ 0 < T /\ 0 < V /\ o_shape (go_nifti go) = grid_shape r c S T V /\
    (* the header's slice axis is permutation[2], a spatial axis of length S *)
    h_slice_dim h = nth 2 (go_perm go) 0 /\ snd (h_dim_info h) = Some (h_slice_dim h) /\
    h_slice_dim h < 3 /\ h_n_slices h = S /\ nth (h_slice_dim h) (ashape (go_data go)) 0 = S /\
    nth 2 (go_flips go) 1%Z = f2 /\
    (* it is the axis along which the source slices are stacked: the voxel of pixel (i, j) of the file in cell
       (s, t, v) has coordinate s (S - 1 - s when that axis was flipped) on it, and its other coordinates do
       not depend on s *)
    (forall idx' i j s t v,
       s < S -> t < T -> v < V ->
       in_bounds (ashape (go_data go)) idx' = true ->
       apply_aff (go_T go) idx' = Some (cell_idx (length (grid_shape r c S T V)) i j s t v) ->
       nth (h_slice_dim h) idx' 0 = cf f2 S s) /\
    (forall idx1 idx2 i j s1 s2 t v a,
       s1 < S -> s2 < S -> t < T -> v < V ->
       in_bounds (ashape (go_data go)) idx1 = true -> in_bounds (ashape (go_data go)) idx2 = true ->
       apply_aff (go_T go) idx1 = Some (cell_idx (length (grid_shape r c S T V)) i j s1 t v) ->
       apply_aff (go_T go) idx2 = Some (cell_idx (length (grid_shape r c S T V)) i j s2 t v) ->
       a <> h_slice_dim h -> nth a idx1 0 = nth a idx2 0) /\
    (* after the in-place reversal the file list follows the OUTPUT slice order: position k of a volume holds
       the file whose pixels are at output slice k *)
    (forall vol k, vol < T * V -> k < S ->
       file_at gs (o_order (go_nifti go)) (vol * S + k) = file_at gs (go_ord0 go) (vol * S + cf f2 S k)).
Proof.
  intros Hwf Hok H. destruct (conv_ok _ _ _ _ _ _ _ H) as [Hg Hh].
  destruct (header_fields _ _ _ Hh) as (Hsd & _ & _ & Hdi & Hns & _).
  destruct (conv_setup _ _ _ _ _ _ Hwf Hg)
    as (st1 & st2 & i0 & col & S & T & V & r & c & Hd & Hwf1 & Ha & Hfi2 & Hord & Hperm & HS & HT & HV & Hlen & Hrc
        & Hi0 & Hcol & Hfpv & Hg0 & HA0 & Hd0 & Hre & Hn & _ & _ & _ & Hpm & Hfl).
  destruct (to_nifti_out _ _ _ _ _ _ _ _ _ _ _ Hd Ha Hn) as (Hosh & _ & _ & _ & Hflip & Horder & _).
  assert (Hsh0 : ashape (go_data0 go) = grid_shape r c S T V) by (rewrite Hd0; apply stack_data_shape; assumption).
  assert (Hwf0 : wf_arr (go_data0 go)) by (rewrite Hd0; apply stack_data_wf).
  assert (Hnd : 3 <= length (ashape (go_data0 go))) by (rewrite Hsh0; apply grid_shape_length).
  destruct (reorient_facts _ _ _ _ _ _ _ Hwf0 Hnd (stack_affine_shape _ _ _ _ HA0) Hre)
    as (p0 & f0 & p1 & f1 & p2 & f2 & n0 & n1 & n2 & rest & Ho & Hp & F0 & F1 & F2 & Hshd & (Sl & S0 & S1 & S2 & Sr)
        & Hval & Hex & Hinj & _).
  destruct (perms3_lt _ _ _ Hp) as (L0 & L1 & L2).
  assert (Hn2 : n2 = S).
  { rewrite Hsh0 in Hshd. unfold grid_shape in Hshd.
    destruct (V =? 1); [destruct (T =? 1)|]; injection Hshd as _ _ E; congruence. }
  assert (Hperm2 : nth 2 (go_perm go) 0 = p2) by (rewrite Hpm, Ho; reflexivity).
  assert (Hflip2 : nth 2 (go_flips go) 1%Z = f2) by (rewrite Hfl, Ho; reflexivity).
  exists S, T, V, r, c, f2.
  split; [exact HS|]. split; [exact HT|]. split; [exact HV|]. split; [exact Hosh|].
  split; [exact Hsd|]. split; [rewrite Hdi, Hsd; destruct (o_phase (go_nifti go)) as [[|]|]; reflexivity|].
  split; [rewrite Hsd, Hperm2; exact L2|]. split; [rewrite Hns, Hperm2, S2; exact Hn2|].
  split; [rewrite Hsd, Hperm2, S2; exact Hn2|]. split; [exact Hflip2|].
  (* components of the source index *)
  assert (Hcomp : forall idx', in_bounds (ashape (go_data go)) idx' = true ->
            nth p0 idx' 0 < n0 /\ nth p1 idx' 0 < n1 /\ nth p2 idx' 0 < n2 /\
            src3 p0 f0 p1 f1 p2 f2 n0 n1 n2 idx' =
            cf f0 n0 (nth p0 idx' 0) :: cf f1 n1 (nth p1 idx' 0) :: cf f2 n2 (nth p2 idx' 0) :: skipn 3 idx').
  { intros idx' Hb. assert (Hl := in_bounds_length _ _ Hb). rewrite Sl, Hshd in Hl. cbn [length] in Hl.
    assert (Hlt : forall p, p < 3 -> nth p idx' 0 < nth p (ashape (go_data go)) 0).
    { intros p Lp. apply in_bounds_nth; [exact Hb | rewrite Sl, Hshd; cbn [length]; lia]. }
    rewrite <- S0, <- S1, <- S2. repeat split; try (apply Hlt; assumption). }
  split; [|split].
  - intros idx' i j s t v Hs Ht Hv Hb Happ.
    destruct (Hval idx' Hb) as (Happ' & _). rewrite Happ' in Happ. injection Happ as E.
    destruct (Hcomp idx' Hb) as (_ & _ & Hlt2 & Esrc). rewrite Esrc in E.
    destruct (cell_idx_nth r c S T V i j s t v Ht Hv) as (_ & _ & E2 & _).
    assert (E2' : cf f2 n2 (nth p2 idx' 0) = s).
    { rewrite <- E2, <- E. reflexivity. }
    rewrite Hsd, Hperm2. rewrite Hn2 in *. apply cf_cf_eq; assumption.
  - intros idx1 idx2 i j s1 s2 t v a Hs1 Hs2 Ht Hv Hb1 Hb2 A1 A2 Hne.
    destruct (Hval idx1 Hb1) as (A1' & _). destruct (Hval idx2 Hb2) as (A2' & _).
    rewrite A1' in A1. rewrite A2' in A2. injection A1 as E1. injection A2 as E2.
    destruct (Hcomp idx1 Hb1) as (Q10 & Q11 & _ & Es1). destruct (Hcomp idx2 Hb2) as (Q20 & Q21 & _ & Es2).
    rewrite Es1 in E1. rewrite Es2 in E2.
    destruct (cell_idx_nth r c S T V i j s1 t v Ht Hv) as (C10 & C11 & _ & C13 & C14).
    destruct (cell_idx_nth r c S T V i j s2 t v Ht Hv) as (C20 & C21 & _ & C23 & C24).
    assert (N0 : nth p0 idx1 0 = nth p0 idx2 0).
    { apply (cf_inj f0 n0); try assumption.
      transitivity i; [rewrite <- C10, <- E1; reflexivity | rewrite <- C20, <- E2; reflexivity]. }
    assert (N1 : nth p1 idx1 0 = nth p1 idx2 0).
    { apply (cf_inj f1 n1); try assumption.
      transitivity j; [rewrite <- C11, <- E1; reflexivity | rewrite <- C21, <- E2; reflexivity]. }
    assert (Nr : skipn 3 idx1 = skipn 3 idx2).
    { assert (G1 : skipn 3 idx1 = skipn 3 (cell_idx (length (grid_shape r c S T V)) i j s1 t v)) by (rewrite <- E1; reflexivity).
      assert (G2 : skipn 3 idx2 = skipn 3 (cell_idx (length (grid_shape r c S T V)) i j s2 t v)) by (rewrite <- E2; reflexivity).
      rewrite G1, G2. unfold cell_idx, grid_shape. destruct (V =? 1); [destruct (T =? 1)|]; reflexivity. }
    rewrite Hsd, Hperm2 in Hne.
    destruct (Nat.eq_dec a p0) as [->|Na0]; [exact N0|].
    destruct (Nat.eq_dec a p1) as [->|Na1]; [exact N1|].
    assert (Ha3 : 3 <= a).
    { clear - Hp Hne Na0 Na1. cbn [In perms3] in Hp.
      repeat (destruct Hp as [Hp|Hp]; [injection Hp as <- <- <-; lia|]). contradiction. }
    assert (Hl1 := in_bounds_length _ _ Hb1). assert (Hl2 := in_bounds_length _ _ Hb2).
    rewrite <- (firstn_skipn 3 idx1), <- (firstn_skipn 3 idx2).
    assert (Hf1 : length (firstn 3 idx1) = 3) by (rewrite firstn_length, Hl1, Sl, Hshd; cbn [length]; lia).
    assert (Hf2 : length (firstn 3 idx2) = 3) by (rewrite firstn_length, Hl2, Sl, Hshd; cbn [length]; lia).
    rewrite !app_nth2 by lia. rewrite Hf1, Hf2, Nr. reflexivity.
  - intros vol k Hvol Hk.
    assert (Hlen2 : length (files_info st2) = V * T * S) by (rewrite Hfi2; exact Hlen).
    rewrite Hfi2, Hfpv in Hflip, Horder. rewrite nvols_grid in Horder.
    rewrite Horder, Hord.
    assert (Hpos : vol * S + k < V * T * S) by nia.
    destruct (o_flip (go_nifti go)) eqn:Efl.
    + (* reversed *)
      assert (Hf2 : f2 = (-1)%Z /\ 1 < S).
      { unfold vorder_of in Hflip. destruct (is_empty code); [discriminate|].
        rewrite eqb_eqb in Hflip. symmetry in Hflip. apply andb_prop in Hflip as [G1 G2].
        rewrite <- Hfl, Hflip2 in G2. apply Z.eqb_eq in G2. apply Nat.ltb_lt in G1. auto. }
      destruct Hf2 as [-> _]. unfold cf. cbn [Z.eqb Pos.eqb].
      rewrite !file_at_ids.
      * f_equal. f_equal. f_equal. apply nth_rev_chunks; try assumption. rewrite Hlen. nia.
      * rewrite Hlen. nia.
      * rewrite map_chunks_length by apply rev_length. rewrite Hlen. exact Hpos.
    + (* not reversed: either no flip, or a single slice *)
      assert (Hcf : cf f2 S k = k).
      { unfold vorder_of in Hflip. destruct (is_empty code) eqn:Ec.
        - unfold reorient in Hre. rewrite Ec in Hre. injection Hre as _ _ _ Eo. rewrite <- Eo in Ho.
          injection Ho as _ _ _ _ _ <-. reflexivity.
        - rewrite eqb_eqb in Hflip. symmetry in Hflip. apply andb_false_iff in Hflip as [G|G].
          + apply Nat.ltb_ge in G. unfold cf. destruct (Z.eqb f2 (-1)); lia.
          + rewrite <- Hfl, Hflip2 in G. unfold cf. rewrite G. reflexivity. }
      rewrite Hcf. reflexivity.
Qed.

(* ------------------------------------------------------------------------------------------ *)
(** * Frequency / phase axes and world directions *)

Lemma single_some_iff {A} (l : list (option A)) x : single_some l = Some x <-> l = [Some x].
Proof.
  unfold single_some. destruct l as [|[a|] [|b l]]; split; intros H; try discriminate; try congruence.
Qed.

Lemma phase_row_is_row : phase_row = row_str.
Proof. reflexivity. Qed.

Theorem hdr_freq_phase gs st code embed st' go h :
  wf st -> conv gs st code embed = (st', Ok (go, h)) ->
  let perm := go_perm go in
  (forall p, pe_dirs st = [Some p] -> p = phase_row ->
     h_dim_info h = (Some (nth 0 perm 0), Some (nth 1 perm 0), Some (nth 2 perm 0))) /\
  (forall p, pe_dirs st = [Some p] -> p <> phase_row ->
     h_dim_info h = (Some (nth 1 perm 0), Some (nth 0 perm 0), Some (nth 2 perm 0))) /\
  ((forall p, pe_dirs st <> [Some p]) ->
     h_dim_info h = (None, None, Some (nth 2 perm 0))).
Proof.
  intros Hwf H perm. destruct (conv_ok _ _ _ _ _ _ _ H) as [Hg Hh].
  destruct (header_fields _ _ _ Hh) as (_ & _ & _ & Hdi & _).
  destruct (conv_setup _ _ _ _ _ _ Hwf Hg)
    as (st1 & st2 & i0 & col & S & T & V & r & c & Hd & Hwf1 & Ha & Hfi2 & Hord & Hperm & HS & HT & HV & Hlen & Hrc
        & Hi0 & Hcol & Hfpv & Hg0 & HA0 & Hd0 & Hre & Hn & Hrt & Hpe & _).
  destruct (to_nifti_out _ _ _ _ _ _ _ _ _ _ _ Hd Ha Hn) as (_ & _ & _ & _ & _ & _ & _ & _ & Hph).
  rewrite Hpe in Hph. rewrite Hdi, Hph. fold perm. rewrite phase_row_is_row.
  split; [|split].
  - intros p Hp ->. rewrite Hp. cbn [single_some option_map]. rewrite str_eqb_refl. reflexivity.
  - intros p Hp Hne. rewrite Hp. cbn [single_some option_map].
    destruct (str_eqb_spec p row_str) as [E|E]; [contradiction | reflexivity].
  - intros Hnone. destruct (single_some (pe_dirs st)) as [p|] eqn:E; [|reflexivity].
    apply single_some_iff in E. exfalso. apply (Hnone p E).
Qed.

(** the world direction of output axis permutation[k] is the direction of unreordered axis k up to the sign
    flips[k]; the unreordered axes 0 / 1 run along the DICOM column / row direction cosines of the first
    sorted file (LPS -> RAS), scaled by the pixel spacing *)
Theorem hdr_directions gs st code embed st' go h :
  wf st -> conv gs st code embed = (st', Ok (go, h)) ->
  (forall k i, k < 3 -> i < 3 ->
     (mentry (go_aff go) i (nth k (go_perm go) 0%nat) == inject_Z (nth k (go_flips go) 1%Z) * mentry (go_aff0 go) i k)%Q) /\
  (forall k, k < 3 -> (nth k (go_flips go) 1%Z = 1%Z \/ nth k (go_flips go) 1%Z = (-1)%Z)) /\
  (forall i, i < 3 ->
     (mentry (go_aff0 go) i 0 == sg i * (vget (row_dir (go_first go)) i * fst (g_ps (go_first go))))%Q /\
     (mentry (go_aff0 go) i 1 == sg i * (vget (col_dir (go_first go)) i * snd (g_ps (go_first go))))%Q).
Proof.
  intros Hwf H. destruct (conv_ok _ _ _ _ _ _ _ H) as [Hg Hh].
  destruct (conv_setup _ _ _ _ _ _ Hwf Hg)
    as (st1 & st2 & i0 & col & S & T & V & r & c & Hd & Hwf1 & Ha & Hfi2 & Hord & Hperm & HS & HT & HV & Hlen & Hrc
        & Hi0 & Hcol & Hfpv & Hg0 & HA0 & Hd0 & Hre & Hn & _ & _ & _ & Hpm & Hfl).
  assert (Hsh0 : ashape (go_data0 go) = grid_shape r c S T V) by (rewrite Hd0; apply stack_data_shape; assumption).
  assert (Hwf0 : wf_arr (go_data0 go)) by (rewrite Hd0; apply stack_data_wf).
  assert (Hnd : 3 <= length (ashape (go_data0 go))) by (rewrite Hsh0; apply grid_shape_length).
  pose proof (stack_affine_shape _ _ _ _ HA0) as HA0s.
  destruct (reorient_facts _ _ _ _ _ _ _ Hwf0 Hnd HA0s Hre)
    as (p0 & f0 & p1 & f1 & p2 & f2 & n0 & n1 & n2 & rest & Ho & Hp & F0 & F1 & F2 & _ & _ & _ & _ & _
        & _ & _ & _ & _ & _ & Hcols).
  rewrite Hpm, Hfl, Ho. cbn [ornt_perm ornt_flips map].
  split; [|split].
  - intros k i Hk Hi. destruct (Hcols i Hi) as (C0 & C1 & C2).
    destruct k as [|[|[|k]]]; try lia; cbn [nth]; assumption.
  - intros k Hk. unfold is_flip in F0, F1, F2.
    destruct k as [|[|[|k]]]; try lia; cbn [nth];
      match goal with F : (Z.eqb ?f 1 || Z.eqb ?f (-1))%bool = true |- ?f = _ \/ _ =>
        apply orb_prop in F; destruct F as [F|F]; apply Z.eqb_eq in F; auto end.
  - intros i Hi. destruct (stack_affine_vec gs i0 col _ _ HA0 Hg0) as (c2 & Hvec & _).
    destruct (is_shape44 _ HA0s) as (a00 & a01 & a02 & a03 & a10 & a11 & a12 & a13 & a20 & a21 & a22 & a23
                                     & a30 & a31 & a32 & a33 & EA).
    pose proof (Hvec 1%Q 0%Q 0%Q i Hi) as V1. pose proof (Hvec 0%Q 1%Q 0%Q i Hi) as V2.
    pose proof (Hvec 0%Q 0%Q 0%Q i Hi) as V0.
    rewrite EA in V0, V1, V2 |- *.
    destruct i as [|[|[|i]]]; try lia; unfold mentry; cbn [nth];
      cbn -[Qplus Qmult Qeq sg vget row_dir col_dir] in V0, V1, V2; split; lra.
Qed.

(* ------------------------------------------------------------------------------------------ *)
(** * Repetition time *)

Theorem hdr_tr gs st code embed st' go h :
  wf st -> conv gs st code embed = (st', Ok (go, h)) ->
  h_units h = xyzt_units /\
  (forall q, h_pixdim4 h = Some q <-> exists tr : Qc, rep_times st = [Some tr] /\ q = this tr).
Proof.
  intros Hwf H. destruct (conv_ok _ _ _ _ _ _ _ H) as [Hg Hh].
  destruct (header_fields _ _ _ Hh) as (_ & Hu & Hpd & _).
  destruct (conv_setup _ _ _ _ _ _ Hwf Hg)
    as (st1 & st2 & i0 & col & S & T & V & r & c & Hd & Hwf1 & Ha & Hfi2 & Hord & Hperm & HS & HT & HV & Hlen & Hrc
        & Hi0 & Hcol & Hfpv & Hg0 & HA0 & Hd0 & Hre & Hn & Hrt & Hpe & _).
  destruct (to_nifti_out _ _ _ _ _ _ _ _ _ _ _ Hd Ha Hn) as (_ & _ & _ & _ & _ & _ & _ & Htr & _).
  rewrite Hrt in Htr. split; [exact Hu|]. intros q. rewrite Hpd, Htr. split.
  - destruct (single_some (rep_times st)) as [tr|] eqn:E; [|discriminate].
    intros G. injection G as <-. exists tr. split; [apply single_some_iff, E | reflexivity].
  - intros (tr & E & ->). apply single_some_iff in E. rewrite E. reflexivity.
Qed.

(* ------------------------------------------------------------------------------------------ *)
(** * Slice times *)

Lemma consistent_with_true gs rel0 chunks :
  consistent_with gs rel0 chunks = Ok true <->
  Forall (fun c => exists lv, rel_times gs c = Ok lv /\ close_list np_rtol np_atol rel0 lv = true) chunks.
Proof.
  induction chunks as [|c chunks IH]; cbn [consistent_with].
  - split; [constructor | reflexivity].
  - destruct (rel_times gs c) as [rv|e] eqn:E.
    + destruct (close_list np_rtol np_atol rel0 rv) eqn:Ec.
      * rewrite IH. split.
        -- intros G. constructor; [exists rv; auto | exact G].
        -- intros G. inversion G. assumption.
      * split; [discriminate|]. intros G. inversion G as [|? ? (lv & E1 & E2) ?]. congruence.
    + split; [discriminate|]. intros G. inversion G as [|? ? (lv & E1 & E2) ?]. congruence.
Qed.

(** what [rel_times] returns: each file's acquisition time minus the earliest of the list *)
Lemma rel_times_spec gs idl l :
  rel_times gs idl = Ok l <->
  exists ts, mapM (acq_seconds gs) idl = Ok ts /\ l = map (fun x => fsub x (qmin ts)) ts.
Proof.
  unfold rel_times. destruct (mapM (acq_seconds gs) idl) as [ts|e].
  - split; [intros G; injection G as <-; eauto | intros (ts' & G & ->); injection G as <-; reflexivity].
  - split; [discriminate | intros (ts' & G & _); discriminate].
Qed.

Theorem hdr_slice_times gs st code embed st' go h :
  wf st -> gfiles_ok gs st ->
  conv gs st code embed = (st', Ok (go, h)) ->
  exists S T V r c,
    0 < S /\ 0 < T /\ 0 < V /\ o_shape (go_nifti go) = grid_shape r c S T V /\
    let fin := o_order (go_nifti go) in
    forall l,
      h_slice_times h = Some l <->
      (1 < S /\ forallb (has_acq gs) fin = true /\
       rel_times gs (firstn S fin) = Ok l /\
       (forall vol, 1 <= vol < T * V ->
          exists lv, rel_times gs (chunk_at S vol fin) = Ok lv /\ close_list np_rtol np_atol l lv = true) /\
       all_zero l = false).
Proof.
  intros Hwf Hok H. destruct (conv_ok _ _ _ _ _ _ _ H) as [Hg Hh].
  destruct (hdr_slice_axis _ _ _ _ _ _ _ Hwf Hok H)
    as (S & T & V & r & c & f2 & HS & HT & HV & Hosh & _ & _ & _ & HnS & _).
  destruct (header_fields _ _ _ Hh) as (_ & _ & _ & _ & _ & Hst).
  destruct (conv_setup _ _ _ _ _ _ Hwf Hg)
    as (st1 & st2 & i0 & col & S' & T' & V' & r' & c' & Hd & Hwf1 & Ha & Hfi2 & Hord & Hperm & HS' & HT' & HV' & Hlen & Hrc
        & Hi0 & Hcol & Hfpv & Hg0 & HA0 & Hd0 & Hre & Hn & _).
  destruct (to_nifti_out _ _ _ _ _ _ _ _ _ _ _ Hd Ha Hn) as (Hosh' & _ & _ & _ & _ & Horder & _).
  assert (Hsh0 : ashape (go_data0 go) = grid_shape r' c' S' T' V') by (rewrite Hd0; apply stack_data_shape; assumption).
  assert (Hgs : grid_shape r c S T V = grid_shape r' c' S' T' V') by congruence.
  assert (Hnv : nvols_of_shape (ashape (go_data0 go)) = T * V) by (rewrite Hsh0, <- Hgs; apply nvols_grid).
  assert (Hfl : length (o_order (go_nifti go)) = (T * V) * S).
  { rewrite Horder. unfold ids. rewrite map_length.
    assert (E : nvols_of_shape (grid_shape r' c' S' T' V') = T * V) by (rewrite <- Hgs; apply nvols_grid).
    assert (ES : S' = S).
    { clear - Hgs. unfold grid_shape in Hgs.
      destruct (V =? 1); [destruct (T =? 1)|]; destruct (V' =? 1); try (destruct (T' =? 1));
        try discriminate; injection Hgs; intros; subst; reflexivity. }
    destruct (o_flip (go_nifti go)); [rewrite map_chunks_length by apply rev_length|];
      rewrite Hfi2, Hlen; rewrite nvols_grid in E; subst S'; nia. }
  exists S, T, V, r, c. repeat (split; [assumption|]).
  intros fin l. subst fin. rewrite HnS, Hnv in Hst. unfold slice_times_arg in Hst.
  assert (Hdiv : length (o_order (go_nifti go)) / (T * V) = S) by (rewrite Hfl, Nat.mul_comm; apply Nat.div_mul; nia).
  rewrite Hdiv in Hst.
  destruct ((1 <? S) && forallb (has_acq gs) (o_order (go_nifti go))) eqn:Ec.
  - apply andb_prop in Ec as [E1 E2]. apply Nat.ltb_lt in E1.
    destruct (rel_times gs (firstn S (o_order (go_nifti go)))) as [rel0|e] eqn:Er; [|discriminate].
    destruct (consistent_with gs rel0 _) as [ok|e] eqn:Ecw; [|discriminate].
    injection Hst as Hst. split.
    + intros G. rewrite G in Hst.
      destruct ok; [|discriminate]. destruct (all_zero rel0) eqn:Ez; [discriminate|].
      cbn [andb negb] in Hst. injection Hst as <-.
      split; [exact E1|]. split; [exact E2|]. split; [reflexivity|]. split; [|exact Ez].
      apply consistent_with_true in Ecw. rewrite Forall_forall in Ecw.
      intros vol Hvol. apply Ecw. apply in_map_iff. exists vol. split; [reflexivity|].
      apply in_seq. lia.
    + intros (_ & _ & G3 & G4 & G5). injection G3 as <-.
      assert (Eok : ok = true).
      { assert (G : consistent_with gs rel0 (map (fun k => chunk_at S k (o_order (go_nifti go))) (seq 1 (T * V - 1))) = Ok true).
        { apply consistent_with_true. rewrite Forall_forall. intros ch Hin. apply in_map_iff in Hin.
          destruct Hin as (vol & <- & Hin). apply in_seq in Hin. apply G4. lia. }
        congruence. }
      rewrite Eok, G5 in Hst. cbn [andb negb] in Hst. congruence.
  - injection Hst as Hst. split; [intros G; congruence|].
    intros (G1 & G2 & _). apply Nat.ltb_lt in G1. rewrite G1, G2 in Ec. discriminate.
Qed.
