(** C01 end to end: the lookup AT THE VOXEL INDEX at which C02 places a source pixel returns what that source file
    carried.  Composition of
      C02  [conv_values]      where every pixel of the file in grid cell (s,t,v) lands in the output array,
      C20  [hdr_slice_axis]   that voxel's coordinate on the slice axis is s (or S-1-s), and the file list after the
                              reversal follows the OUTPUT slice order,
      C01  [conv_spec]        position (s',t,v) of the extension says what file number s' + S (t + T v) of the FINAL
                              order said,
      C08  [get_meta_den]     a lookup on a matching image is the denotation,
    through the projection lemmas of Conv/FullProofs.v. *)
From Coq Require Import List Bool Arith ZArith NArith QArith Qcanon Qabs Lia Permutation.
From DV Require Import Common.Res Common.Str
  Stack.Model Stack.Spec Stack.ProofsShape Stack.ProofsInv
  Orient.Model Orient.Spec Orient.ProofsArr Orient.ProofsAff Orient.Proofs
  Conv.Geom Conv.GeomSpec Conv.Header Conv.ProofsGeomBase Conv.ProofsGeomReorient Conv.ProofsGeomAff
  Conv.ProofsGeomData Conv.ProofsGeomSrc Conv.ProofsHeader
  Ext.Types Ext.Model Ext.Spec
  Conv.Meta Conv.ProofsMetaBase Conv.ProofsMetaEmbed Conv.ProofsMetaStack Conv.Full Conv.FullProofs.
From DV Require Ext.LookupSpec.
Import ListNotations.
Local Open Scope nat_scope.

(* ------------------------------------------------------------------------------------------ *)
(** * Small facts *)

Lemma glookup_id gs id g : glookup gs id = Some g -> f_id (g_file g) = id.
Proof.
  induction gs as [|g0 gs IH]; cbn [glookup]; [discriminate|].
  destruct (Nat.eqb_spec (f_id (g_file g0)) id) as [E|_]; [intros H; injection H as <-; exact E | exact IH].
Qed.

Lemma file_at_id gs ord k g : file_at gs ord k = Some g -> nth k ord 0 = f_id (g_file g) /\ k < length ord.
Proof.
  unfold file_at. destruct (nth_error ord k) as [id|] eqn:E; [|discriminate]. intros H.
  rewrite (glookup_id _ _ _ H). split; [apply nth_error_nth; exact E|].
  apply nth_error_Some. rewrite E. discriminate.
Qed.

(** the transform leaves the components beyond the third untouched *)
Lemma apply_aff_tail T idx idx2 k : apply_aff T idx = Some idx2 -> 3 <= k -> nth k idx 0 = nth k idx2 0.
Proof.
  unfold apply_aff. destruct idx as [|a [|b [|c0 rest]]]; try discriminate.
  destruct (q_to_nat _); [|discriminate]. destruct (q_to_nat _); [|discriminate]. destruct (q_to_nat _); [|discriminate].
  intros H Hk. injection H as <-. destruct k as [|[|[|k]]]; try lia. reflexivity.
Qed.

(** a natural-number index of the array model as the integer index [get_meta] takes *)
Lemma in_bounds_Z sh idx :
  Orient.Model.in_bounds sh idx = true -> LookupSpec.in_bounds (map Z.of_nat idx) sh.
Proof.
  intros Hb. pose proof (in_bounds_length _ _ Hb) as Hl. split; [rewrite map_length; exact Hl|].
  intros j Hj. pose proof (in_bounds_nth sh idx j Hb Hj) as Hn.
  change 0%Z with (Z.of_nat 0). rewrite map_nth. lia.
Qed.

Lemma to_nat_of_nat idx : map Z.to_nat (map Z.of_nat idx) = idx.
Proof. rewrite map_map. rewrite <- (map_id idx) at 2. apply map_ext. intros a. apply Nat2Z.id. Qed.

Lemma close_vec_refl rt at_ l : (0 <= rt)%Q -> (0 <= at_)%Q -> LookupSpec.close_vec rt at_ l l.
Proof.
  intros Hr Ha. unfold LookupSpec.close_vec. induction l as [|x l IH]; constructor; [|exact IH].
  assert (E : (Qabs (x - x) == 0)%Q) by (setoid_replace (x - x)%Q with 0%Q by ring; reflexivity).
  rewrite E.
  assert (0 <= rt * Qabs x)%Q by (apply Qmult_le_0_compat; [exact Hr | apply Qabs_nonneg]).
  apply (Qle_trans _ (0 + 0)%Q); [apply Qle_refl | apply Qplus_le_compat; assumption].
Qed.

Lemma cell_pos_vol S T s t v : cell_pos S T s t v = (v * T + t) * S + s.
Proof. unfold cell_pos. lia. Qed.

Section WithV.
  Context {V : Type} (veqb : V -> V -> bool) (vnone : V).
  Hypothesis veqb_spec : forall a b, reflect (a = b) (veqb a b).
  Notation conv_full := (conv_full veqb vnone).
  Notation lookup := (meta_lookup vnone).
  Notation den := (den vnone).

  (** the image the conversion produces matches the extension it embeds: same shape, the header's slice axis
      (dim_info) is the extension's slice_dim, and both carry the same affine *)
  Lemma full_img_matches (go : geom_out) (h : hdr_out) (e : ext V) :
    shape (hdr_of e) = ashape (go_data go) -> sdim (hdr_of e) = Some (h_slice_dim h) -> aff (hdr_of e) = go_aff go ->
    img_matches (full_img go h) e.
  Proof.
    intros Hs Hd Ha. unfold img_matches, full_img. cbn [ishape islice iaff].
    split; [symmetry; exact Hs|]. split; [symmetry; exact Hd|]. intros d _. rewrite Ha.
    apply close_vec_refl; vm_compute; discriminate.
  Qed.

  Theorem voxel_lossless gs ms st code filt st' go h oe :
    wf st -> gfiles_ok gs st -> covers ms st -> metas_ok ms -> normals_ok ms ->
    conv_full gs ms st code true filt = (st', Ok (go, h, oe)) ->
    exists e S T Vn r c,
      oe = Some e /\ valid e /\ img_matches (full_img go h) e /\
      shape (hdr_of e) = ashape (go_data go) /\ sdim (hdr_of e) = Some (nth 2 (go_perm go) 0) /\
      aff (hdr_of e) = go_aff go /\
      0 < S /\ 0 < T /\ 0 < Vn /\ o_shape (go_nifti go) = grid_shape r c S T Vn /\
      length (go_ord0 go) = Vn * T * S /\
      (* every source file sits in a cell of the grid *)
      (forall f, In f (files st) ->
         exists s t v g, s < S /\ t < T /\ v < Vn /\
           file_at gs (go_ord0 go) (cell_pos S T s t v) = Some g /\ g_file g = f) /\
      (* every pixel (i, j) of the file in cell (s, t, v): THE output voxel idx' of C02_values, and the lookup there *)
      forall s t v i j, s < S -> t < T -> v < Vn -> i < r -> j < c ->
        exists g m z idx',
          file_at gs (go_ord0 go) (cell_pos S T s t v) = Some g /\ In (g_file g) (files st) /\
          find_mfile ms (f_id (g_file g)) = Ok m /\ m_file m = g_file g /\
          pix_at g i j = Some z /\
          Orient.Model.in_bounds (ashape (go_data go)) idx' = true /\
          apply_aff (go_T go) idx' = Some (cell_idx (length (grid_shape r c S T Vn)) i j s t v) /\
          aget (go_data go) idx' = Some z /\
          (forall idx'', Orient.Model.in_bounds (ashape (go_data go)) idx'' = true ->
             apply_aff (go_T go) idx'' = Some (cell_idx (length (grid_shape r c S T Vn)) i j s t v) -> idx'' = idx') /\
          forall k, filt k = false ->
            Ext.Model.get_meta (full_img go h) e k (Some (map Z.of_nat idx')) vnone = Ok (lookup m k) /\
            den e k (LookupSpec.pos_of (full_img go h) (map Z.of_nat idx')) = lookup m k.
  Proof.
    intros Hwf Hok Hcov Hms Hnorm H.
    destruct (full_geom _ _ _ _ _ _ _ _ _ _ _ _ H) as [Hg Hh].
    pose proof (proj1 (full_conv _ _ _ _ _ _ _ _ _ _ _ _ H)) as Hc.
    destruct (full_meta veqb vnone _ _ _ _ _ _ _ _ _ Hwf H) as (e & -> & Hn & Hm & Hp3 & Haff & Hsh & Hsd2).
    (* C02 *)
    destruct (conv_values gs st code true st' go Hwf Hok Hg) as (S & T & Vn & r & c & HS & HT & HV & Hosh & Hlen & Hcells & _).
    (* C20 *)
    destruct (hdr_slice_axis gs st code true st' go h Hwf Hok Hc)
      as (S1 & T1 & V1 & r1 & c1 & f2 & HS1 & HT1 & HV1 & Hosh1 & Hsd & _ & Hsd3 & _ & _ & _ & Hax & _ & Hrev).
    rewrite Hosh in Hosh1.
    destruct (grid_shape_inj _ _ _ _ _ _ _ _ _ _ HS HT HV HS1 HT1 HV1 Hosh1) as (<- & <- & <- & <- & <-).
    (* C01 *)
    destruct (conv_spec veqb vnone veqb_spec ms st (o_vo (go_nifti go)) (go_perm go) (go_aff go) filt
                Hwf Hcov Hms Hnorm Hp3 Haff st' (go_nifti go) Hn)
      as (S2 & T2 & V2 & r2 & c2 & e2 & HS2 & HT2 & HV2 & Hosh2 & Hol & Ec & Hv & Hshape & Hsdim & Haf & Hdm & Hden & _).
    rewrite Hm in Ec. injection Ec as <-.
    rewrite Hosh in Hosh2.
    assert (HS2' : 0 < S2) by lia. assert (HT2' : 0 < T2) by lia. assert (HV2' : 0 < V2) by lia.
    destruct (grid_shape_inj _ _ _ _ _ _ _ _ _ _ HS HT HV HS2' HT2' HV2' Hosh2) as (<- & <- & <- & <- & <-).
    assert (Hshe : shape (hdr_of e) = ashape (go_data go)) by (rewrite Hshape, Hsh, Hosh; reflexivity).
    assert (Hsde : sdim (hdr_of e) = Some (h_slice_dim h)) by (rewrite Hsdim, Hsd2; reflexivity).
    assert (Him : img_matches (full_img go h) e) by (apply full_img_matches; assumption).
    (* the sorter's side *)
    destruct (conv_setup _ _ _ _ _ _ Hwf Hg)
      as (st1 & st2 & i0 & col & S3 & T3 & V3 & r3 & c3 & Hd & Hwf1 & _ & _ & Hord & Hperm & HS3 & HT3 & HV3 & Hlen3 & _).
    assert (Hl1 : length (files_info st1) = Vn * T * S).
    { rewrite <- Hlen, Hord. unfold ids. rewrite map_length. reflexivity. }
    exists e, S, T, Vn, r, c.
    split; [reflexivity|]. split; [exact Hv|]. split; [exact Him|]. split; [exact Hshe|].
    split; [rewrite Hsde, Hsd; reflexivity|]. split; [exact Haf|].
    split; [exact HS|]. split; [exact HT|]. split; [exact HV|]. split; [exact Hosh|]. split; [exact Hlen|].
    split.
    { (* coverage *)
      intros f Hf. assert (Hf1 : In f (files st1)) by (eapply Permutation_in; [symmetry; exact Hperm | exact Hf]).
      unfold files in Hf1. apply in_map_iff in Hf1 as [en [Ef Hen]].
      destruct (In_nth _ _ dflt_entry Hen) as [p [Hp Ep]]. rewrite Hl1 in Hp.
      destruct (decompose_pos S T Vn p HS HT Hp) as (Ed & Dv & Dt & Ds).
      exists (p mod S), (p / S mod T), (p / S / T).
      destruct (file_at_ok gs st st1 p Hok Hperm ltac:(rewrite Hl1; exact Hp)) as (g & Hfa & Hgok).
      exists g. repeat (split; [assumption|]). split.
      - rewrite Hord. unfold cell_pos. replace (p / S / T * (T * S) + p / S mod T * S + p mod S) with p by lia. exact Hfa.
      - destruct Hgok as [Eg _]. rewrite Eg, Ep. exact Ef. }
    intros s t v i j Hs Ht Hv0 Hi Hj.
    destruct (Hcells s t v i j Hs Ht Hv0 Hi Hj) as (g & z & idx' & Hfa & Hpx & Hb & Happ & Hget & Huniq).
    (* the file in that cell is a file of the stack *)
    assert (Hpos : cell_pos S T s t v < length (files_info st1)) by (rewrite Hl1; apply cell_pos_lt; assumption).
    destruct (file_at_ok gs st st1 _ Hok Hperm Hpos) as (g' & Hfa' & Hgok).
    rewrite <- Hord, Hfa in Hfa'. injection Hfa' as <-.
    assert (Hin : In (g_file g) (files st)).
    { destruct Hgok as [-> _]. eapply Permutation_in; [exact Hperm|]. unfold files. apply in_map, nth_In, Hpos. }
    destruct (Hcov _ Hin) as (m & Em & Emf).
    exists g, m, z, idx'.
    split; [exact Hfa|]. split; [exact Hin|]. split; [exact Em|]. split; [exact Emf|]. split; [exact Hpx|].
    split; [exact Hb|]. split; [exact Happ|]. split; [exact Hget|]. split; [exact Huniq|].
    (* where that voxel sits in the grid of the extension *)
    set (s' := cf f2 S s).
    assert (Hs' : s' < S) by (apply cf_lt; exact Hs).
    assert (Es' : nth (h_slice_dim h) idx' 0 = s') by (apply (Hax idx' i j s t v); assumption).
    destruct (cell_idx_nth r c S T Vn i j s t v Ht Hv0) as (_ & _ & _ & C3 & C4).
    assert (E3 : nth 3 idx' 0 = t) by (rewrite (apply_aff_tail _ _ _ 3 Happ) by lia; exact C3).
    assert (E4 : nth 4 idx' 0 = v) by (rewrite (apply_aff_tail _ _ _ 4 Happ) by lia; exact C4).
    assert (Epos : LookupSpec.pos_of (full_img go h) (map Z.of_nat idx') = (s', t, v)).
    { unfold LookupSpec.pos_of, full_img. cbn [islice]. rewrite to_nat_of_nat, Es', E3, E4. reflexivity. }
    (* the file at that position of the FINAL order is the file of cell (s, t, v) *)
    assert (Hvol : v * T + t < T * Vn) by nia.
    pose proof (Hrev (v * T + t) s' Hvol Hs') as Hr. unfold s' in Hr at 2. rewrite cf_invol in Hr by exact Hs.
    rewrite <- (cell_pos_vol S T s t v), Hfa in Hr.
    destruct (file_at_id _ _ _ _ Hr) as [Eid _].
    assert (Eix : s' + S * (t + T * v) = (v * T + t) * S + s') by lia.
    assert (Emf' : find_mfile ms (nth (s' + S * (t + T * v)) (o_order (go_nifti go)) 0) = Ok m) by (rewrite Eix, Eid; exact Em).
    intros k Hk. pose proof (Hden s' t v m Hs' Ht Hv0 Emf' k) as D. rewrite Hk in D.
    rewrite Epos. split; [|exact D].
    rewrite (get_meta_den vnone (full_img go h) e k (map Z.of_nat idx') (h_slice_dim h) Hv Hsde Him).
    - rewrite Epos, D. reflexivity.
    - unfold full_img. cbn [ishape]. apply in_bounds_Z. exact Hb.
  Qed.
End WithV.
