(** C01 / C14, part 5: the statements of Props/C01.v and Props/C14conv.v. *)
From Coq Require Import List Bool Arith NArith ZArith QArith Lia Permutation.
From DV Require Import Common.Res Common.Str Ext.Types Ext.Classes Ext.Seq Ext.Model Ext.Spec Ext.TableFacts
     Ext.ValidFacts Ext.LookupSpec Ext.ProofsLookup Ext.ProofsMergeSeq Ext.ProofsMergeDen Ext.ProofsMerge
     Filter.Model Filter.Proofs Generated.T_filter
     Conv.Meta Conv.ProofsMetaBase Conv.ProofsMetaNest Conv.ProofsMetaEmbed Conv.ProofsMetaStack.
From DV Require Stack.Model Stack.Spec Stack.Sort Stack.ProofsOrder Stack.ProofsShape Stack.ProofsInv Stack.ProofsC11.
Import ListNotations.
Local Open Scope nat_scope.

(** * The per-volume reversal: list position s of the final order is position S-1-s of the sorted order *)

Lemma map_chunks_rev_nth {A} (d : A) k : forall nv l j s,
  nv * k <= length l -> j < nv -> s < k ->
  nth (s + k * j) (SM.map_chunks (@rev A) k nv l) d = nth ((k - 1 - s) + k * j) l d.
Proof.
  induction nv as [|nv IH]; intros l j s Hl Hj Hs; [lia|].
  cbn [SM.map_chunks].
  assert (Hf : length (firstn k l) = k) by (rewrite firstn_length; cbn in Hl; lia).
  destruct j as [|j].
  - rewrite Nat.mul_0_r, !Nat.add_0_r. rewrite app_nth1 by (rewrite rev_length, Hf; exact Hs).
    rewrite rev_nth by (rewrite Hf; exact Hs). rewrite Hf.
    replace (k - S s) with (k - 1 - s) by lia. apply nth_firstn_lt. lia.
  - rewrite app_nth2 by (rewrite rev_length, Hf; nia). rewrite rev_length, Hf.
    replace (s + k * S j - k) with (s + k * j) by nia.
    rewrite IH; [|rewrite skipn_length; cbn in Hl; lia | lia | exact Hs].
    rewrite nth_skipn_add. f_equal. nia.
Qed.

Lemma ids_map_chunks_rev k nv fi : SM.ids (SM.map_chunks (@rev SM.entry) k nv fi) = SM.map_chunks (@rev nat) k nv (SM.ids fi).
Proof. unfold SM.ids. apply Stack.ProofsOrder.map_chunks_map. intros c. apply map_rev. Qed.

Theorem flip_order st vo em st' o :
  SI.wf st -> SM.to_nifti st vo em = (st', Ok o) ->
  exists ord0 S T V r c,
    1 <= S /\ 1 <= T /\ 1 <= V /\ SM.o_shape o = Stack.Spec.grid_shape r c S T V /\
    snd (SM.get_data st) = Ok (ord0, SM.o_shape o) /\ length ord0 = S * T * V /\
    (SM.o_flip o = false -> SM.o_order o = ord0) /\
    (SM.o_flip o = true ->
       forall s j, s < S -> j < T * V -> nth (s + S * j) (SM.o_order o) 0 = nth ((S - 1 - s) + S * j) ord0 0).
Proof.
  intros Hwf H.
  destruct (to_nifti_grid st vo em st' o Hwf H) as [S [T [V [r [c [HS [HT [HV [Esh [Eord [Hlen _]]]]]]]]]]].
  unfold SM.to_nifti, SM.get_data in *.
  destruct (SM.get_shape st) as [s1 [sh|e]] eqn:Egs; [|discriminate].
  assert (Hagain : SM.get_shape s1 = (s1, Ok sh)).
  { pose proof (Stack.ProofsC11.get_shape_again st sh) as G. rewrite Egs in G. apply G. reflexivity. }
  unfold SM.get_affine in H. rewrite Hagain in H.
  set (fi := SM.files_info s1) in *.
  exists (SM.ids fi), S, T, V, r, c.
  destruct (1 <? length fi / SM.nvols_of_shape sh) eqn:E1.
  - (* several files per volume *)
    cbn [SM.files_info] in H. fold fi in H.
    destruct vo as [w|].
    + cbn [andb] in H.
      destruct (Bool.eqb (SM.ascending fi) w) eqn:Ew.
      * injection H as <- <-. cbn [SM.o_shape SM.o_order SM.o_flip SM.files_info SM.with_shape SM.with_files] in *.
        assert (Hl : length fi = S * T * V).
        { rewrite <- Hlen. rewrite (Stack.Sort.map_chunks_length (@rev SM.entry)); [reflexivity | intros c0; apply rev_length]. }
        assert (Hnv : SM.nvols_of_shape sh = T * V) by (rewrite Esh; apply Stack.ProofsC12.nvols_grid_shape; lia).
        assert (Hfpv : length fi / SM.nvols_of_shape sh = S) by (rewrite Hnv, Hl; apply div_grid; assumption).
        repeat split; try assumption; try reflexivity.
        { unfold SM.ids. rewrite map_length. exact Hl. }
        { discriminate. }
        intros _ s j Hs Hj. rewrite ids_map_chunks_rev, Hfpv, Hnv.
        apply map_chunks_rev_nth; [unfold SM.ids; rewrite map_length, Hl; nia | exact Hj | exact Hs].
      * injection H as <- <-. cbn [SM.o_shape SM.o_order SM.o_flip SM.files_info] in *. fold fi in Hlen |- *.
        repeat split; try assumption; try reflexivity.
        { unfold SM.ids. rewrite map_length. exact Hlen. }
        intros Hc; discriminate Hc.
    + injection H as <- <-. cbn [SM.o_shape SM.o_order SM.o_flip SM.files_info] in *. fold fi in Hlen |- *.
      repeat split; try assumption; try reflexivity.
      { unfold SM.ids. rewrite map_length. exact Hlen. }
      intros Hc; discriminate Hc.
  - destruct vo as [w|]; cbn [andb] in H; injection H as <- <-; cbn [SM.o_shape SM.o_order SM.o_flip] in *;
      fold fi in Hlen |- *;
      (repeat split; try assumption; try reflexivity;
       [unfold SM.ids; rewrite map_length; exact Hlen | intros Hc; discriminate Hc]).
Qed.

Section WithV.
  Context {V : Type} (veqb : V -> V -> bool) (vnone : V).
  Hypothesis veqb_spec : forall a b, reflect (a = b) (veqb a b).

  Notation ext := (ext V).
  Notation mfile := (mfile V).
  Notation den := (den vnone).
  Notation lookup := (meta_lookup vnone).

  (** * [filter_meta] on any valid extension removes exactly the keys the filter names, in every classification *)
  Theorem filter_meta_exact (filt : key -> bool) (e : ext) :
    valid e ->
    exists e', filter_meta filt e = Ok e' /\ hdr_of e' = hdr_of e /\ valid e' /\
      forall k, lookup_e e' k = if filt k then None else lookup_e e k.
  Proof.
    intros Hv. pose proof Hv as [Hwf [Hnd Hent]].
    set (g := fun kv : key * (cls * list V) => negb (class_valid (hdr_of e) (fst (snd kv)) && filt (fst kv))).
    exists (mk_ext (hdr_of e) (filter g (entries e))). split; [|split; [reflexivity|split]].
    - unfold filter_meta.
      replace (forallb (fun c0 => has_base (hdr_of e) (base_of c0)) (valid_classes (hdr_of e))) with true; [reflexivity|].
      symmetry. apply forallb_forall. intros c0 Hc0. destruct Hwf as [_ [_ [_ [_ Hb]]]]. apply Hb.
      rewrite <- class_valid_ok. unfold class_valid. apply mem_cls_In. exact Hc0.
    - split; [exact Hwf|]. split.
      + unfold keys_e. cbn [entries]. apply NoDup_map_fst_filter. exact Hnd.
      + intros k c0 vs Hin. cbn [entries hdr_of] in Hin. apply filter_In in Hin as [Hin _]. apply (Hent k c0 vs Hin).
    - intros k. unfold lookup_e. cbn [entries]. rewrite (assoc_filter g _ k Hnd).
      destruct (assoc k (entries e)) as [[c0 vs]|] eqn:Ea; [|destruct (filt k); reflexivity].
      unfold g. cbn [fst snd]. apply assoc_In' in Ea. destruct (Hent k c0 vs Ea) as [A _].
      rewrite class_valid_ok, A. cbn [andb]. destruct (filt k); reflexivity.
  Qed.

  Section Conv.
    Variables (ms : list mfile) (st : SM.state) (vo : SM.vorder) (perm : list nat) (oaff : list (list Q))
              (filt : key -> bool).
    Hypothesis Hwf : SI.wf st.
    Hypothesis Hcov : covers ms st.
    Hypothesis Hms : metas_ok ms.
    Hypothesis Hnorm : normals_ok ms.
    Hypothesis Hperm : is_perm3 perm.
    Hypothesis Hoaff : aff_ok oaff.

    Theorem lossless_top st' o :
      SM.to_nifti st vo true = (st', Ok o) ->
      exists S T Vn r c e,
        1 <= S /\ 1 <= T /\ 1 <= Vn /\
        SM.o_shape o = Stack.Spec.grid_shape r c S T Vn /\ length (SM.o_order o) = S * T * Vn /\
        conv_meta veqb vnone ms st vo perm oaff filt = (st', Ok e) /\
        valid e /\
        shape (hdr_of e) = permute_shape perm (SM.o_shape o) /\ sdim (hdr_of e) = Some (nth 2 perm 2) /\
        aff (hdr_of e) = oaff /\
        forall s t v m k, s < S -> t < T -> v < Vn ->
          find_mfile ms (nth (s + S * (t + T * v)) (SM.o_order o) 0) = Ok m -> filt k = false ->
          den e k (s, t, v) = lookup m k /\
          forall im ix, img_matches im e -> in_bounds ix (ishape im) -> pos_of im ix = (s, t, v) ->
            get_meta im e k (Some ix) vnone = Ok (lookup m k).
    Proof.
      intros Hto.
      destruct (conv_spec veqb vnone veqb_spec ms st vo perm oaff filt Hwf Hcov Hms Hnorm Hperm Hoaff st' o Hto)
        as (S & T & Vn & r & c & e & HS & HT & HV & Esh & Hol & Ec & Hv & Hsh & Hsd & Haf & Hdm & Hden & _).
      exists S, T, Vn, r, c, e. repeat (split; [assumption|]).
      intros s t v m k Hs Ht Hv0 Em Hf.
      pose proof (Hden s t v m Hs Ht Hv0 Em k) as D. rewrite Hf in D. split; [exact D|].
      intros im ix Him Hib Hpos. rewrite (get_meta_den vnone im e k ix _ Hv Hsd Him Hib), Hpos, D. reflexivity.
    Qed.

    Theorem filtered_top st' o :
      SM.to_nifti st vo true = (st', Ok o) ->
      exists e, conv_meta veqb vnone ms st vo perm oaff filt = (st', Ok e) /\
        forall k, filt k = true ->
          lookup_e e k = None /\ (forall p, den e k p = vnone) /\ forall im ix d, get_meta im e k ix d = Ok d.
    Proof.
      intros Hto.
      destruct (conv_spec veqb vnone veqb_spec ms st vo perm oaff filt Hwf Hcov Hms Hnorm Hperm Hoaff st' o Hto)
        as (S & T & Vn & r & c & e & _ & _ & _ & _ & _ & Ec & _ & _ & _ & _ & _ & _ & Hflt & _).
      exists e. split; [exact Ec|]. intros k Hk. pose proof (Hflt k Hk) as El. split; [exact El|]. split.
      - intros p. unfold Spec.den. rewrite El. reflexivity.
      - intros im ix d. apply get_meta_absent. rewrite El. reflexivity.
    Qed.

    Theorem keys_top st' o :
      SM.to_nifti st vo true = (st', Ok o) ->
      exists e, conv_meta veqb vnone ms st vo perm oaff filt = (st', Ok e) /\
        NoDup (keys_e e) /\
        (forall k, In k (keys_e e) ->
           filt k = false /\
           exists id m, In id (SM.o_order o) /\ find_mfile ms id = Ok m /\ In k (map fst (m_meta m))) /\
        (forall id m k x, In id (SM.o_order o) -> find_mfile ms id = Ok m ->
           meta_assoc k (m_meta m) = Some x -> x <> vnone -> filt k = false -> In k (keys_e e)).
    Proof.
      intros Hto.
      destruct (conv_spec veqb vnone veqb_spec ms st vo perm oaff filt Hwf Hcov Hms Hnorm Hperm Hoaff st' o Hto)
        as (S & T & Vn & r & c & e & _ & _ & _ & _ & _ & Ec & Hv & _ & _ & _ & _ & _ & _ & Hk1 & Hk2).
      exists e. split; [exact Ec|]. split; [exact (proj1 (proj2 Hv))|]. split; [exact Hk1 | exact Hk2].
    Qed.
  End Conv.

  (** with the default filter: no key containing an exclude literal survives unless it contains an include literal,
      whatever its classification *)
  Theorem default_privacy (ms : list mfile) st vo perm oaff st' o :
    SI.wf st -> covers ms st -> metas_ok ms -> normals_ok ms -> is_perm3 perm -> aff_ok oaff ->
    SM.to_nifti st vo true = (st', Ok o) ->
    exists e, conv_meta veqb vnone ms st vo perm oaff default_filter = (st', Ok e) /\
      forall k c vs, In (k, (c, vs)) (entries e) ->
        (exists x, In x default_key_excl_res /\ containsb x k = true) ->
        exists i, In i default_key_incl_res /\ containsb i k = true.
  Proof.
    intros Hwf Hcov Hms Hnorm Hperm Hoaff Hto.
    destruct (keys_top ms st vo perm oaff default_filter Hwf Hcov Hms Hnorm Hperm Hoaff st' o Hto) as [e [Ec [_ [Hk _]]]].
    exists e. split; [exact Ec|]. intros k c vs Hin [x [Hx Hcx]].
    assert (Hke : In k (keys_e e)) by (unfold keys_e; apply in_map_iff; exists (k, (c, vs)); split; [reflexivity | exact Hin]).
    destruct (Hk k Hke) as [Hf _]. unfold default_filter, key_regex_filter in Hf.
    assert (He : joined_search literal_matches default_key_excl_res k = true).
    { destruct defaults_nonempty as [Hne _]. apply (joined_search_spec literal_matches _ k Hne). exists x. split; assumption. }
    rewrite He in Hf. cbn [andb] in Hf. apply negb_false_iff in Hf.
    destruct default_key_incl_res as [|i0 is'] eqn:Ei; [discriminate|].
    apply (joined_search_spec literal_matches (i0 :: is') k) in Hf; [|discriminate]. exact Hf.
  Qed.
End WithV.
