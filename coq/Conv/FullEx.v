(** A concrete series for the non-vacuity examples of the composed conversion (Props/C01full.v, C12full.v,
    C06conv.v): SAGITTAL, 2 x 2 pixels, 2 slices x 2 time points x 2 vector components (8 files, 5-D result), explicit
    time and vector ordering, files added in scrambled order, converted with voxel order "LAS": the slice axis
    MOVES to output axis 0 and is FLIPPED, so every volume's files are reversed in place; metadata with a per-slice,
    a per-volume, a per-vector, a constant and an everywhere-None key. *)
From Coq Require Import List Bool Arith ZArith NArith QArith Qcanon Lia Permutation.
From DV Require Import Common.Res Common.Str Common.Jv Stack.Model Stack.ProofsShape Stack.ProofsInv
  Orient.Model Orient.Spec Conv.Geom Conv.GeomSpec Conv.Header Conv.ExamplesGeom
  Ext.Types Ext.Model Ext.Spec Conv.Meta Conv.ProofsMetaBase Conv.ProofsMetaStack Conv.ProofsMetaEx
  Conv.Full.
Import ListNotations.
Local Open Scope nat_scope.

(** file of cell (s, t, v): number k = 4 v + 2 t + s, at x = 1 + 2 s; columns along +y, rows along +z: the slice
    normal is -x, the slice indicator -(1 + 2 s) (so the sorter puts s = 1 first) *)
Definition fx_gf (s t v : nat) : gfile :=
  let k := 4 * v + 2 * t + s in
  let x := (1 + 2 * Z.of_nat s)%Z in
  mkgfile
    (mkfile k true 2 2 [1; 1]%Q [0; 1; 0; 0; 0; 1]%Q (Q2Qc (inject_Z (- x)))
            (Some (Q2Qc (inject_Z (Z.of_nat t)))) (Some (Q2Qc (inject_Z (Z.of_nat v)))) []
            (Some (Q2Qc 2000)) (Some ex_row) 1 12 true)
    [[Z.of_nat (100 * k); Z.of_nat (100 * k + 1)]; [Z.of_nat (100 * k + 10); Z.of_nat (100 * k + 11)]]
    [0; 1; 0; 0; 0; 1]%Q [inject_Z x; 0; 0]%Q (1, 1)%Q 1%Q ex_u16 (Some 12) (Some (ex_tm t s)).

Definition fk_slice : key := [115]%N.              (* "s"   : the slice position only *)
Definition fk_vol : key := [118; 111; 108]%N.      (* "vol" : one value per volume *)
Definition fk_vec : key := [118; 101; 99]%N.       (* "vec" : one value per vector component *)
Definition fk_const : key := [99]%N.               (* "c"   : identical in all files *)
Definition fk_none : key := [110]%N.               (* "n"   : None in every file *)
Definition fk_file : key := [102]%N.               (* "f"   : the file number *)
Definition fx_keys : list key := [fk_slice; fk_vol; fk_vec; fk_const; fk_none; fk_file].

(** the per-file extension carries the single-file NIfTI affine of the SAME geometry *)
Definition fx_mf (s t v : nat) : mfile jv :=
  mk_mfile (g_file (fx_gf s t v)) (file_affine (fx_gf s t v))
           [(fk_slice, JInt (100 + Z.of_nat s)); (fk_vol, JInt (Z.of_nat (10 * t + v))); (fk_vec, JInt (Z.of_nat v));
            (fk_const, JStr [120]%N); (fk_none, JNull); (fk_file, JInt (Z.of_nat (4 * v + 2 * t + s)))].

(** add order *)
Definition fx_cells : list (nat * nat * nat) :=
  [(1, 1, 0); (0, 0, 1); (1, 0, 0); (0, 1, 1); (0, 0, 0); (1, 1, 1); (0, 1, 0); (1, 0, 1)].
Definition fx_gs : list gfile := map (fun x => fx_gf (fst (fst x)) (snd (fst x)) (snd x)) fx_cells.
Definition fx_ms : list (mfile jv) := map (fun x => fx_mf (fst (fst x)) (snd (fst x)) (snd x)) fx_cells.
Definition fx_adds : list op := map (fun g => OAdd (g_file g)) fx_gs.
Definition fx_st : state := run (init true true) fx_adds.
Definition fx_filt : key -> bool := fun _ => false.

Lemma fx_reachable : reachable fx_st.
Proof. exists true, true, fx_adds. reflexivity. Qed.

Lemma fx_wf : wf fx_st.
Proof. apply reachable_wf, fx_reachable. Qed.

Lemma fx_files : files fx_st = map g_file fx_gs.
Proof. vm_compute. reflexivity. Qed.

Lemma fx_gfiles_ok : gfiles_ok fx_gs fx_st.
Proof.
  intros f Hin. rewrite fx_files in Hin. cbn [map fx_gs fx_cells In fst snd] in Hin.
  repeat (destruct Hin as [<-|Hin];
          [eexists; split; [reflexivity|]; split; [reflexivity|]; split; [reflexivity|]; repeat constructor|]).
  contradiction.
Qed.

Lemma fx_covers : covers fx_ms fx_st.
Proof.
  apply covers_of_incl; [vm_compute; repeat constructor; cbn; intuition lia|].
  intros f Hf. rewrite fx_files in Hf. exact Hf.
Qed.

Lemma fx_metas_ok : metas_ok fx_ms.
Proof. apply metas_okb. vm_compute. reflexivity. Qed.

Lemma fx_normals_ok : normals_ok fx_ms.
Proof. apply normals_okb_ok. vm_compute. reflexivity. Qed.

(** the conversion (results extracted from the evaluated model, not written by hand) *)
Definition fx_result := Eval vm_compute in snd (conv_full jv_eqb JNull fx_gs fx_ms fx_st ex_LAS true fx_filt).
Definition fx_go : geom_out := ltac:(let r := eval cbv delta [fx_result] in fx_result in match r with Ok (?go, _, _) => exact go end).
Definition fx_h : hdr_out := ltac:(let r := eval cbv delta [fx_result] in fx_result in match r with Ok (_, ?h, _) => exact h end).
Definition fx_e : ext jv := ltac:(let r := eval cbv delta [fx_result] in fx_result in match r with Ok (_, _, Some ?e) => exact e end).

Lemma fx_conv :
  conv_full jv_eqb JNull fx_gs fx_ms fx_st ex_LAS true fx_filt =
  (fst (conv_full jv_eqb JNull fx_gs fx_ms fx_st ex_LAS true fx_filt), Ok (fx_go, fx_h, Some fx_e)).
Proof. vm_compute. reflexivity. Qed.

(** what happened: shape (2,2,2,2,2), slice axis = output axis 0, flipped; sorted order 1 0 3 2 5 4 7 6 (s = 1 first),
    final order 0 1 2 ... 7 *)
Lemma fx_facts :
  go_perm fx_go = [2; 1; 0] /\ go_flips fx_go = [1; -1; -1]%Z /\ h_slice_dim fx_h = 0 /\
  ashape (go_data fx_go) = [2; 2; 2; 2; 2] /\ o_shape (go_nifti fx_go) = Stack.Spec.grid_shape 2 2 2 2 2 /\
  go_ord0 fx_go = [1; 0; 3; 2; 5; 4; 7; 6] /\ o_order (go_nifti fx_go) = [0; 1; 2; 3; 4; 5; 6; 7] /\
  o_flip (go_nifti fx_go) = true /\ o_vo (go_nifti fx_go) = Some true.
Proof. repeat split; vm_compute; reflexivity. Qed.

(** two histories accepting the same files: the adds above, and the adds in reverse order interleaved with queries
    and conversions (which re-sort, flip and set the dirty flag along the way) *)
Definition fx_h1 : list op := fx_adds.
Definition fx_h2 : list op :=
  firstn 5 (rev fx_adds) ++ [OGetShape; OToNifti (Some true) true] ++ skipn 5 (rev fx_adds) ++
  [OToNiftiWrapper (Some true); OGetAffine; OGetData; OToNifti None false].

Lemma fx_histories :
  Permutation (accepted (init true true) fx_h1) (accepted (init true true) fx_h2) /\
  ids (files_info (run (init true true) fx_h1)) = [3; 4; 1; 6; 0; 7; 2; 5] /\
  ids (files_info (run (init true true) fx_h2)) = [1; 0; 3; 2; 5; 4; 7; 6] /\
  shape_dirty (run (init true true) fx_h1) = true /\ shape_dirty (run (init true true) fx_h2) = false.
Proof.
  split.
  - assert (E1 : accepted (init true true) fx_h1 = map g_file fx_gs) by (vm_compute; reflexivity).
    assert (E2 : accepted (init true true) fx_h2 = rev (map g_file fx_gs)) by (vm_compute; reflexivity).
    rewrite E1, E2. apply Permutation_rev.
  - repeat split; vm_compute; reflexivity.
Qed.
