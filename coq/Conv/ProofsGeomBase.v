(** Anatomy of a successful conversion: what [conv_geom = Ok] establishes about the sorter's state, the
    shape, the number of files, the file order and the reorientation. *)
From Coq Require Import List Bool Arith ZArith NArith QArith Qcanon Lia Lqa Permutation.
From DV Require Import Common.Res Common.Str Generated.T_conv
  Stack.Model Stack.Sort Stack.Order Stack.Spec Stack.ProofsOrder Stack.ProofsShape Stack.ProofsInv Stack.ProofsC11
  Orient.Model Orient.Spec Orient.ProofsArr Orient.ProofsAff Orient.ProofsOrnt Orient.Proofs
  Conv.Geom Conv.GeomSpec.
Import ListNotations.
Local Open Scope nat_scope.

(* ------------------------------------------------------------------------------------------ *)
(** * Unfolding [conv_geom] *)

(** the [gfile]s of a list of ids *)
Definition gfiles_of (gs : list gfile) (ord : list nat) : res (list gfile) :=
  mapM (fun id => match glookup gs id with Some g => Ok g | None => Err ECrash end) ord.

Lemma conv_geom_ok gs st code embed st' go :
  conv_geom gs st code embed = (st', Ok go) ->
  exists st1 st2 sh i0 col,
    get_data st = (st1, Ok (go_ord0 go, sh)) /\
    get_affine st1 = (st2, Ok (i0, col)) /\
    glookup gs i0 = Some (go_first go) /\
    stack_affine gs i0 col = Ok (go_aff0 go) /\
    go_data0 go = stack_data gs (go_ord0 go) sh /\
    reorient (go_data0 go) (go_aff0 go) code = Ok (go_data go, go_aff go, go_T go, go_ornt go) /\
    to_nifti st (vorder_of (files_info st2) code (go_ornt go)) embed = (st', Ok (go_nifti go)) /\
    (gfiles_of gs (go_ord0 go) = Ok (go_files go) /\ out_dtype (go_files go) = Ok (go_dtype go)) /\
    go_perm go = ornt_perm (go_ornt go) /\ go_flips go = ornt_flips (go_ornt go).
Proof.
  unfold conv_geom.
  destruct (get_data st) as [st1 rd] eqn:Ed. destruct rd as [[ord0 sh]|e]; [|discriminate].
  destruct (get_affine st1) as [st2 ra] eqn:Ea. destruct ra as [[i0 col]|e]; [|discriminate].
  destruct (glookup gs i0) as [g0|] eqn:Eg; [|discriminate].
  destruct (stack_affine gs i0 col) as [A0|e] eqn:EA; [|discriminate].
  destruct (mapM _ ord0) as [gl|e] eqn:Egl; [|discriminate].
  destruct (out_dtype gl) as [dtype|e] eqn:Edt; [|discriminate].
  destruct (reorient (stack_data gs ord0 sh) A0 code) as [[[[d A] T] o]|e] eqn:Er; [|discriminate].
  destruct (to_nifti st (vorder_of (files_info st2) code o) embed) as [st3 rn] eqn:En.
  destruct rn as [n|e]; [|discriminate].
  intros H. injection H as <- <-.
  cbn [go_ord0 go_first go_files go_data0 go_aff0 go_data go_aff go_T go_ornt go_nifti go_dtype go_perm go_flips].
  exists st1, st2, sh, i0, col. unfold gfiles_of. repeat split; auto.
Qed.

(* ------------------------------------------------------------------------------------------ *)
(** * The sorter's side *)

Lemma nvols_grid r c S T V : nvols_of_shape (grid_shape r c S T V) = T * V.
Proof.
  unfold nvols_of_shape, grid_shape.
  destruct (V =? 1) eqn:EV; [apply Nat.eqb_eq in EV; subst V|].
  - destruct (T =? 1) eqn:ET; [apply Nat.eqb_eq in ET; subst T|]; cbn [nth]; lia.
  - cbn [nth]. reflexivity.
Qed.

Lemma grid_shape_length r c S T V : 3 <= length (grid_shape r c S T V).
Proof. unfold grid_shape. destruct (V =? 1); [destruct (T =? 1)|]; cbn [length]; lia. Qed.

Lemma get_shape_files st : wf st -> Permutation (files (fst (get_shape st))) (files st).
Proof.
  intros [Hwf0 _]. unfold get_shape. destruct (shape_dirty st); [|reflexivity].
  destruct (compute_shape st) as [st' r] eqn:Ec. cbn [fst].
  destruct (compute_shape_reorder st st' r Hwf0 Ec) as [fi2 [[Hp _] Hst']].
  assert (Hfi : files_info st' = fi2) by (destruct Hst' as [-> | [sh' [-> _]]]; reflexivity).
  unfold files. rewrite Hfi. apply files_strip_perm, Hp.
Qed.

Lemma get_shape_sets st :
  rep_times (fst (get_shape st)) = rep_times st /\ pe_dirs (fst (get_shape st)) = pe_dirs st.
Proof.
  unfold get_shape. destruct (shape_dirty st); [|auto].
  unfold compute_shape.
  destruct (grid_dims _ _ _ _) as [[nvol T]|e]; [|auto].
  destruct (order_files st _ _ nvol T _) as [fi2 [[]|e]]; cbn; auto.
Qed.

(** what a successful [get_data] establishes *)
Lemma get_data_grid st st1 ord sh :
  wf st -> get_data st = (st1, Ok (ord, sh)) ->
  wf st1 /\ ord = ids (files_info st1) /\ get_shape st1 = (st1, Ok sh) /\
  Permutation (files st1) (files st) /\
  rep_times st1 = rep_times st /\ pe_dirs st1 = pe_dirs st /\
  exists S T V r c, 0 < S /\ 0 < T /\ 0 < V /\ sh = grid_shape r c S T V /\
     length (files_info st1) = V * T * S /\
     (forall f, In f (files st1) -> f_rows f = r /\ f_cols f = c).
Proof.
  intros Hwf. unfold get_data.
  destruct (get_shape st) as [s1 r1] eqn:E. destruct r1 as [sh'|e]; [|discriminate].
  intros H. injection H as <- <- <-.
  assert (Hwf1 : wf s1) by (pose proof (get_shape_wf st Hwf) as G; rewrite E in G; exact G).
  assert (Hagain : get_shape s1 = (s1, Ok sh')).
  { pose proof (get_shape_again st sh') as G. rewrite E in G. cbn [fst snd] in G. apply G. reflexivity. }
  split; [exact Hwf1|]. split; [reflexivity|]. split; [exact Hagain|].
  split; [pose proof (get_shape_files st Hwf) as G; rewrite E in G; exact G|].
  pose proof (get_shape_sets st) as G. rewrite E in G. cbn [fst] in G. destruct G as (G1 & G2).
  split; [exact G1|]. split; [exact G2|].
  destruct (get_shape_sound s1 sh' Hwf1) as (S & T & V & r & c & [Hg Hrc] & ->); [rewrite Hagain; reflexivity|].
  destruct Hwf1 as [Hwf10 _].
  destruct (grid_complete_dims s1 S T V Hwf10 Hg) as (HS & HT & HV & Hlen & _).
  exists S, T, V, r, c. repeat split; auto; apply Hrc; assumption.
Qed.

Lemma get_affine_clean st1 sh st2 i0 col :
  get_shape st1 = (st1, Ok sh) -> get_affine st1 = (st2, Ok (i0, col)) ->
  files_info st2 = files_info st1 /\ rep_times st2 = rep_times st1 /\ pe_dirs st2 = pe_dirs st1 /\
  i0 = f_id (e_file (nth 0 (files_info st1) dflt_entry)) /\
  (1 < length (files_info st1) / nvols_of_shape sh ->
   col = Some (i0, f_id (e_file (nth 1 (files_info st1) dflt_entry)))).
Proof.
  intros Hs. unfold get_affine. rewrite Hs. intros H. injection H as <- <- <-.
  repeat split; auto. intros G. apply Nat.ltb_lt in G. rewrite G. reflexivity.
Qed.

Lemma eqb_eqb a b : Bool.eqb a (Bool.eqb a b) = b.
Proof. destruct a, b; reflexivity. Qed.

(** the result record of the sorter's [to_nifti], given the two queries it starts with *)
Lemma to_nifti_out st st1 ord sh st2 i0 col vo embed st3 n :
  get_data st = (st1, Ok (ord, sh)) -> get_affine st1 = (st2, Ok (i0, col)) ->
  to_nifti st vo embed = (st3, Ok n) ->
  let fi := files_info st2 in
  let nv := nvols_of_shape sh in
  let fpv := length fi / nv in
  o_shape n = sh /\ o_aff0 n = i0 /\ o_slicecol n = col /\ o_vo n = vo /\
  o_flip n = match vo with None => false | Some w => (1 <? fpv) && Bool.eqb (ascending fi) w end /\
  o_order n = ids (if o_flip n then map_chunks (@rev entry) fpv nv fi else fi) /\
  files_info st3 = (if o_flip n then map_chunks (@rev entry) fpv nv fi else fi) /\
  o_tr n = single_some (rep_times st2) /\
  o_phase n = option_map (fun p => str_eqb p row_str) (single_some (pe_dirs st2)).
Proof.
  intros Hd Ha. unfold to_nifti. rewrite Hd, Ha. intros H. injection H as <- <-.
  cbn [o_shape o_aff0 o_slicecol o_vo o_flip o_order o_tr o_phase].
  repeat split; auto;
    destruct (match vo with None => false | Some w => _ end); reflexivity.
Qed.

(* ------------------------------------------------------------------------------------------ *)
(** * The array filled from the sorted files *)

Lemma pad5_grid r c S T V :
  0 < T -> 0 < V ->
  nth 2 (pad5 (grid_shape r c S T V)) 1 = S /\ nth 3 (pad5 (grid_shape r c S T V)) 1 = T /\
  nth 4 (pad5 (grid_shape r c S T V)) 1 = V /\
  trim5 (pad5 (grid_shape r c S T V)) = grid_shape r c S T V.
Proof.
  intros HT HV. unfold grid_shape.
  destruct (V =? 1) eqn:EV.
  - apply Nat.eqb_eq in EV. subst V. destruct (T =? 1) eqn:ET.
    + apply Nat.eqb_eq in ET. subst T. cbn. auto.
    + unfold pad5, trim5. cbn [length Nat.sub repeat app nth Nat.eqb firstn]. rewrite ET. auto.
  - unfold pad5, trim5. cbn [length Nat.sub repeat app nth]. rewrite EV. auto.
Qed.

(** components of an in-bounds index of a grid shape *)
Lemma grid_bounds r c S T V idx :
  0 < T -> 0 < V ->
  in_bounds (grid_shape r c S T V) idx = true ->
  nth 0 idx 0 < r /\ nth 1 idx 0 < c /\ nth 2 idx 0 < S /\ nth 3 idx 0 < T /\ nth 4 idx 0 < V /\
  idx = cell_idx (length (grid_shape r c S T V)) (nth 0 idx 0) (nth 1 idx 0) (nth 2 idx 0) (nth 3 idx 0) (nth 4 idx 0).
Proof.
  intros HT HV. unfold grid_shape, cell_idx.
  destruct (V =? 1) eqn:EV; [apply Nat.eqb_eq in EV; subst V; destruct (T =? 1) eqn:ET; [apply Nat.eqb_eq in ET; subst T|]|].
  - destruct idx as [|i [|j [|s [|x idx]]]]; cbn [in_bounds]; try discriminate;
      try (rewrite !andb_false_r; discriminate).
    rewrite !andb_true_iff, !Nat.ltb_lt. cbn [nth length firstn]. intuition lia.
  - destruct idx as [|i [|j [|s [|t [|x idx]]]]]; cbn [in_bounds]; try discriminate;
      try (rewrite !andb_false_r; discriminate).
    rewrite !andb_true_iff, !Nat.ltb_lt. cbn [nth length firstn]. intuition lia.
  - destruct idx as [|i [|j [|s [|t [|v [|x idx]]]]]]; cbn [in_bounds]; try discriminate;
      try (rewrite !andb_false_r; discriminate).
    rewrite !andb_true_iff, !Nat.ltb_lt. cbn [nth length firstn]. intuition lia.
Qed.

Lemma cell_idx_bounds r c S T V i j s t v :
  i < r -> j < c -> s < S -> t < T -> v < V ->
  in_bounds (grid_shape r c S T V) (cell_idx (length (grid_shape r c S T V)) i j s t v) = true.
Proof.
  intros Hi Hj Hs Ht Hv. unfold grid_shape, cell_idx.
  destruct (V =? 1); [destruct (T =? 1)|]; cbn [length firstn in_bounds];
    rewrite ?andb_true_iff, ?Nat.ltb_lt; repeat split; auto.
Qed.

(** components of [cell_idx] (time / vector components read 0 when the dimension is trimmed) *)
Lemma cell_idx_nth r c S T V i j s t v :
  t < T -> v < V ->
  let idx := cell_idx (length (grid_shape r c S T V)) i j s t v in
  nth 0 idx 0 = i /\ nth 1 idx 0 = j /\ nth 2 idx 0 = s /\ nth 3 idx 0 = t /\ nth 4 idx 0 = v.
Proof.
  intros Ht Hv. unfold grid_shape, cell_idx.
  destruct (V =? 1) eqn:EV; [apply Nat.eqb_eq in EV; subst V; destruct (T =? 1) eqn:ET; [apply Nat.eqb_eq in ET; subst T|]|];
    cbn [length firstn nth]; repeat split; lia.
Qed.

Lemma stack_data_wf gs ord sh : wf_arr (stack_data gs ord sh).
Proof. apply wf_tabulate. Qed.

Lemma stack_data_shape gs ord r c S T V :
  0 < T -> 0 < V -> ashape (stack_data gs ord (grid_shape r c S T V)) = grid_shape r c S T V.
Proof.
  intros HT HV. unfold stack_data. cbn [ashape tabulate].
  apply (pad5_grid r c S T V HT HV).
Qed.

(** the value stored at an in-bounds index: the pixel of the file in that grid cell *)
Lemma stack_data_get gs ord r c S T V idx :
  0 < S -> 0 < T -> 0 < V -> length ord = V * T * S ->
  in_bounds (grid_shape r c S T V) idx = true ->
  aget (stack_data gs ord (grid_shape r c S T V)) idx =
  Some (oz (match file_at gs ord (cell_pos S T (nth 2 idx 0) (nth 3 idx 0) (nth 4 idx 0)) with
            | Some g => pix_at g (nth 0 idx 0) (nth 1 idx 0)
            | None => None
            end)).
Proof.
  intros HS HT HV Hlen Hb.
  destruct (pad5_grid r c S T V HT HV) as (E2 & E3 & E4 & Etrim).
  destruct (grid_bounds r c S T V idx HT HV Hb) as (_ & _ & Hs & _).
  unfold stack_data. rewrite E2, E3, E4, Etrim.
  rewrite aget_tabulate by exact Hb. f_equal. f_equal.
  assert (Hfpv : length ord / (T * V) = S).
  { rewrite Hlen. replace (V * T * S) with (S * (T * V)) by lia. apply Nat.div_mul. nia. }
  rewrite Hfpv. rewrite (proj2 (Nat.ltb_lt _ _) Hs).
  unfold file_at, cell_pos.
  destruct (nth_error ord _) as [id|]; reflexivity.
Qed.

(* ------------------------------------------------------------------------------------------ *)
(** * Files of the sorted list and their [gfile]s *)

Lemma ids_nth_error fi k :
  nth_error (ids fi) k = option_map (fun e => f_id (e_file e)) (nth_error fi k).
Proof. unfold ids. apply nth_error_map. Qed.

(** every position of the sorted list holds a file that [gs] describes *)
Lemma file_at_ok gs st st1 k :
  gfiles_ok gs st -> Permutation (files st1) (files st) -> k < length (files_info st1) ->
  exists g, file_at gs (ids (files_info st1)) k = Some g /\
            gfile_ok g (e_file (nth k (files_info st1) dflt_entry)).
Proof.
  intros Hok Hp Hk.
  assert (Hin : In (e_file (nth k (files_info st1) dflt_entry)) (files st)).
  { eapply Permutation_in; [exact Hp|]. unfold files. apply in_map, nth_In, Hk. }
  destruct (Hok _ Hin) as (g & Hg & Hgok). exists g. split; [|exact Hgok].
  unfold file_at. rewrite ids_nth_error, (nth_error_nth' _ dflt_entry Hk). cbn [option_map]. exact Hg.
Qed.

Lemma pix_at_ok g f i j :
  gfile_ok g f -> i < f_rows f -> j < f_cols f -> exists z, pix_at g i j = Some z.
Proof.
  intros (_ & Hr & Hc) Hi Hj. unfold pix_at.
  destruct (nth_error (g_pix g) i) as [row|] eqn:E.
  - assert (Hl : length row = f_cols f).
    { rewrite Forall_forall in Hc. apply Hc. eapply nth_error_In, E. }
    destruct (nth_error row j) as [z|] eqn:E2; [eauto|].
    apply nth_error_None in E2. lia.
  - apply nth_error_None in E. lia.
Qed.
