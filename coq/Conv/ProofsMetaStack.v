(** C01 / C14, part 4: the connection to the sorter.  [Stack.Model.to_nifti] of a well-formed stack yields the
    shape of the S x T x V grid its files tile and the final file order; the embedded extension says at grid
    position (s,t,v) what file number s + S*(t + T*v) of that order said. *)
From Coq Require Import List Bool Arith NArith ZArith QArith Lia Permutation.
From DV Require Import Common.Res Common.Str Ext.Types Ext.Classes Ext.Seq Ext.Model Ext.Spec Ext.TableFacts
     Ext.ValidFacts Ext.LookupSpec Ext.ProofsLookup Ext.ProofsMergeDen Ext.ProofsMerge
     Conv.Meta Conv.ProofsMetaBase Conv.ProofsMetaNest Conv.ProofsMetaEmbed.
From DV Require Stack.Model Stack.Spec Stack.Sort Stack.ProofsShape Stack.ProofsInv Stack.ProofsC11 Stack.ProofsC12.
Import ListNotations.
Local Open Scope nat_scope.

Module SM := Stack.Model.
Module SP := Stack.ProofsShape.
Module SI := Stack.ProofsInv.

Lemma grid_ok_len ts S T V : Stack.Spec.grid_ok ts S T V -> 0 < S /\ 0 < T /\ 0 < V /\ length ts = V * T * S.
Proof. intros [P [Vs [l [cv H]]]]. decompose [and] H. repeat split; assumption. Qed.

Lemma grid_complete_len ct cv fs S T V :
  Stack.Spec.grid_complete ct cv fs S T V -> 0 < S /\ 0 < T /\ 0 < V /\ length fs = V * T * S.
Proof.
  unfold Stack.Spec.grid_complete. intros H.
  assert (G : exists g : SM.file -> SM.tuple, Stack.Spec.grid_ok (map g fs) S T V).
  { destruct (ct || cv); [eauto|]. destruct H as [[_ H]|[_ [key [_ [_ H]]]]]; eauto. }
  destruct G as [g G]. apply grid_ok_len in G. rewrite map_length in G. exact G.
Qed.

(** what a successful [to_nifti] says about the grid *)
Lemma to_nifti_grid st vo em st' o :
  SI.wf st -> SM.to_nifti st vo em = (st', Ok o) ->
  exists S T V r c,
    1 <= S /\ 1 <= T /\ 1 <= V /\
    SM.o_shape o = Stack.Spec.grid_shape r c S T V /\
    SM.o_order o = SM.ids (SM.files_info st') /\
    length (SM.files_info st') = S * T * V /\
    Permutation (SP.files st') (SP.files st) /\
    (forall f, In f (SP.files st) -> SM.f_rows f = r /\ SM.f_cols f = c).
Proof.
  intros Hwf H.
  pose proof (Stack.ProofsC12.to_nifti_files st vo em Hwf) as Hperm. rewrite H in Hperm. cbn [fst] in Hperm.
  assert (Hsh : snd (SM.get_shape st) = Ok (SM.o_shape o) /\ SM.o_order o = SM.ids (SM.files_info st')).
  { unfold SM.to_nifti, SM.get_data in H. destruct (SM.get_shape st) as [s1 [sh|e]]; [|discriminate].
    destruct (SM.get_affine s1) as [s2 [[i0 col]|e]]; [|discriminate].
    injection H as <- <-. cbn [SM.o_shape SM.o_order snd]. split; reflexivity. }
  destruct Hsh as [Hsh Hord].
  destruct (Stack.ProofsC11.get_shape_sound st _ Hwf Hsh) as [S [T [V [r [c [[Hg Hrc] Esh]]]]]].
  destruct (grid_complete_len _ _ _ _ _ _ Hg) as [HS [HT [HV Hl]]].
  exists S, T, V, r, c. repeat split; try lia; try assumption.
  - pose proof (Permutation_length Hperm) as Hpl. unfold SP.files in Hpl. rewrite !map_length in Hpl.
    unfold SP.files in Hl. rewrite map_length in Hl. lia.
  - apply Hrc; assumption.
  - apply Hrc; assumption.
Qed.

Lemma decompose_index i S T V : i < S * T * V -> exists s t v, s < S /\ t < T /\ v < V /\ i = s + S * (t + T * v).
Proof.
  intros Hi. assert (HS : S <> 0) by nia. assert (HT : T <> 0) by nia.
  exists (i mod S), ((i / S) mod T), (i / S / T).
  pose proof (Nat.div_mod i S HS) as E1. pose proof (Nat.div_mod (i / S) T HT) as E2.
  pose proof (Nat.mod_upper_bound i S HS). pose proof (Nat.mod_upper_bound (i / S) T HT).
  assert (i / S < T * V) by (apply Nat.div_lt_upper_bound; [exact HS | nia]).
  assert (i / S / T < V) by (apply Nat.div_lt_upper_bound; [exact HT | nia]).
  repeat split; try assumption. nia.
Qed.

Section WithV.
  Context {V : Type} (veqb : V -> V -> bool) (vnone : V).
  Hypothesis veqb_spec : forall a b, reflect (a = b) (veqb a b).

  Notation ext := (ext V).
  Notation mfile := (mfile V).
  Notation den := (den vnone).
  Notation lookup := (meta_lookup vnone).

  (** the metadata list covers the files of the stack (one entry per file id) *)
  Definition covers (ms : list mfile) (st : SM.state) : Prop :=
    forall f, In f (SP.files st) -> exists m : mfile, find_mfile ms (SM.f_id f) = Ok m /\ m_file m = f.
  Definition metas_ok (ms : list mfile) : Prop := forall m, In m ms -> mfile_ok m.
  (** domain restriction forced by the open finding N9: the slice normals of all per-file extension affines are
      pairwise [np.allclose] (default tolerances) *)
  Definition normals_ok (ms : list mfile) : Prop :=
    forall m m', In m ms -> In m' ms -> normals_close (m_aff m) (m_aff m').

  Lemma find_mfile_in (ms : list mfile) id (m : mfile) : find_mfile ms id = Ok m -> In m ms /\ SM.f_id (m_file m) = id.
  Proof.
    unfold find_mfile. destruct (find _ ms) as [m'|] eqn:E; [|discriminate]. intros H. injection H as <-.
    apply find_some in E as [Hin Hid]. apply Nat.eqb_eq in Hid. split; assumption.
  Qed.

  Section Conv.
    Variables (ms : list mfile) (st : SM.state) (vo : SM.vorder) (perm : list nat) (oaff : list (list Q))
              (filt : key -> bool).
    Hypothesis Hwf : SI.wf st.
    Hypothesis Hcov : covers ms st.
    Hypothesis Hms : metas_ok ms.
    Hypothesis Hnorm : normals_ok ms.
    Hypothesis Hperm : is_perm3 perm.
    Hypothesis Hoaff : aff_ok oaff.

    Theorem conv_spec st' o :
      SM.to_nifti st vo true = (st', Ok o) ->
      exists S T Vn r c e,
        1 <= S /\ 1 <= T /\ 1 <= Vn /\
        SM.o_shape o = Stack.Spec.grid_shape r c S T Vn /\ length (SM.o_order o) = S * T * Vn /\
        conv_meta veqb vnone ms st vo perm oaff filt = (st', Ok e) /\
        valid e /\
        shape (hdr_of e) = permute_shape perm (SM.o_shape o) /\ sdim (hdr_of e) = Some (nth 2 perm 2) /\
        aff (hdr_of e) = oaff /\ dims (hdr_of e) = (S, T, Vn) /\
        (* lossless: position (s,t,v) says what file number s + S*(t + T*v) of the final order said *)
        (forall s t v m, s < S -> t < T -> v < Vn ->
           find_mfile ms (nth (s + S * (t + T * v)) (SM.o_order o) 0) = Ok m ->
           forall k, den e k (s, t, v) = if filt k then vnone else lookup m k) /\
        (* filtered keys are absent *)
        (forall k, filt k = true -> lookup_e e k = None) /\
        (* every key of the result was extracted from a file of the stack and is not filtered *)
        (forall k, In k (keys_e e) ->
           filt k = false /\ exists id m, In id (SM.o_order o) /\ find_mfile ms id = Ok m /\ In k (map fst (m_meta m))) /\
        (* every unfiltered key with a value other than None in some file is present *)
        (forall id m k x, In id (SM.o_order o) -> find_mfile ms id = Ok m ->
           meta_assoc k (m_meta m) = Some x -> x <> vnone -> filt k = false -> In k (keys_e e)).
    Proof.
      intros Hto.
      destruct (to_nifti_grid st vo true st' o Hwf Hto) as [S [T [Vn [r [c [HS [HT [HV [Esh [Eord [Hlen [Hpm Hrc]]]]]]]]]]]].
      assert (Hol : length (SM.o_order o) = S * T * Vn) by (rewrite Eord; unfold SM.ids; rewrite map_length; exact Hlen).
      (* every id of the final order is a covered file *)
      assert (Hid : forall id, In id (SM.o_order o) -> exists m, find_mfile ms id = Ok m /\ In (m_file m) (SP.files st)).
      { intros id Hin. rewrite Eord in Hin. unfold SM.ids in Hin. apply in_map_iff in Hin as [en [<- Hen]].
        assert (Hf : In (SM.e_file en) (SP.files st)).
        { eapply Permutation_in; [exact Hpm|]. unfold SP.files. apply in_map. exact Hen. }
        destruct (Hcov _ Hf) as [m [Em Ef]]. exists m. split; [exact Em | rewrite Ef; exact Hf]. }
      destruct (mapM_ok (find_mfile ms) (SM.o_order o)) as [fs Efs].
      { intros id Hin. destruct (Hid id Hin) as [m [Em _]]. eauto. }
      destruct (mapM_inv _ _ _ Efs) as [Hfl Hfn].
      assert (Hfs : forall f, In f fs -> mfile_ok f /\ SM.f_rows (m_file f) = r /\ SM.f_cols (m_file f) = c).
      { intros f Hf. destruct (In_nth _ _ (mdflt (V:=V)) Hf) as [i [Hi Ei]]. rewrite Hfl in Hi.
        specialize (Hfn i 0 (mdflt (V:=V)) Hi). rewrite Ei in Hfn.
        destruct (Hid _ (nth_In _ 0 Hi)) as [m [Em Hmf]]. rewrite Hfn in Em. injection Em as <-.
        destruct (find_mfile_in _ _ _ Hfn) as [Hin _]. split; [apply Hms; exact Hin | apply Hrc; exact Hmf]. }
      assert (Hfms : forall f, In f fs -> In f ms).
      { intros f Hf. destruct (In_nth _ _ (mdflt (V:=V)) Hf) as [i [Hi Ei]]. rewrite Hfl in Hi.
        specialize (Hfn i 0 (mdflt (V:=V)) Hi). rewrite Ei in Hfn. apply (find_mfile_in _ _ _ Hfn). }
      assert (Hflen : length fs = S * T * Vn) by (rewrite Hfl; exact Hol).
      assert (H0 : In (nth 0 fs (mdflt (V:=V))) fs) by (apply nth_In; rewrite Hflen; nia).
      destruct (Hfs _ H0) as [[Hr1 [Hc1 _]] [Er Ec]]. rewrite Er in Hr1. rewrite Ec in Hc1.
      destruct (embed_spec veqb vnone veqb_spec fs r c S T Vn Hfs Hflen HS HT HV Hr1 Hc1
                  (fun f g Hf Hg => Hnorm f g (Hfms f Hf) (Hfms g Hg)) perm oaff filt Hperm Hoaff)
        as [e [Ee [Hv [Hshape [Hsdim [Haff [Hdims [Hden [Hflt Hkeys]]]]]]]]].
      exists S, T, Vn, r, c, e.
      split; [exact HS|]. split; [exact HT|]. split; [exact HV|]. split; [exact Esh|]. split; [exact Hol|].
      split.
      { unfold conv_meta. rewrite Hto. cbn [bind]. rewrite Efs. cbn [bind]. rewrite Esh. rewrite Ee. reflexivity. }
      split; [exact Hv|]. split; [rewrite Esh; exact Hshape|]. split; [exact Hsdim|]. split; [exact Haff|].
      split; [exact Hdims|].
      assert (Hnth : forall i m, i < S * T * Vn -> find_mfile ms (nth i (SM.o_order o) 0) = Ok m -> fat fs i = m).
      { intros i m Hi Em. unfold fat. specialize (Hfn i 0 (mdflt (V:=V)) ltac:(rewrite Hol; exact Hi)).
        rewrite Hfn in Em. injection Em as <-. reflexivity. }
      split.
      { intros s t v m Hs Ht Hv0 Em k. rewrite (Hden k (s, t, v)) by (cbn [in_dims]; lia).
        destruct (filt k); [reflexivity|]. unfold src, grid_src, idx.
        rewrite (Hnth _ m (idx3_lt' _ _ _ _ _ _ Hs Ht Hv0) Em). reflexivity. }
      split; [exact Hflt|].
      split.
      { intros k Hk. destruct (Hkeys k Hk) as [Hf [f [Hin Hkf]]]. split; [exact Hf|].
        destruct (In_nth _ _ (mdflt (V:=V)) Hin) as [i [Hi Ei]]. rewrite Hfl in Hi.
        exists (nth i (SM.o_order o) 0), f. split; [apply nth_In; exact Hi|]. split; [|exact Hkf].
        rewrite <- Ei. apply Hfn. exact Hi. }
      intros id m k x Hin Em Hk Hx Hf.
      destruct (In_nth _ _ 0 Hin) as [i [Hi Ei]]. rewrite Hol in Hi.
      destruct (decompose_index i S T Vn Hi) as [s [t [v [Hs [Ht [Hv0 Eidx]]]]]].
      apply (den_keys vnone e k (s, t, v)).
      rewrite (Hden k (s, t, v)) by (cbn [in_dims]; lia). rewrite Hf. unfold src, grid_src, idx.
      rewrite <- Eidx. rewrite (Hnth i m Hi) by (rewrite Ei; exact Em).
      unfold meta_lookup. rewrite Hk. exact Hx.
    Qed.
  End Conv.
End WithV.
