(** A concrete series for the non-vacuity examples of C02 and C20 (header half): sagittal, 2 x 2 pixels,
    3 slices x 2 time points, explicit time ordering, converted with voxel order "LAS" (which flips the
    slice axis of this series, so the in-place reversal is exercised). *)
From Coq Require Import List Bool Arith ZArith NArith QArith Qcanon Lia.
From DV Require Import Common.Res Common.Str Stack.Model Orient.Model Conv.Geom Conv.Header.
Import ListNotations.
Local Open Scope nat_scope.

Definition ex_row : str := [82; 79; 87]%N.                                   (* "ROW" *)
Definition ex_u16 : str := [117; 105; 110; 116; 49; 54]%N.                   (* "uint16" *)
Definition ex_LAS : str := [76; 65; 83]%N.
Definition ex_RAS : str := [82; 65; 83]%N.
(** "1000ts" : 10:00:ts *)
Definition ex_tm (t s : nat) : str := [49; 48; 48; 48; 48 + N.of_nat t; 48 + N.of_nat s]%N.

(** file number k = 3 t + s sits at x = 1 + 2 s; orientation: columns along +y, rows along +z, so the slice
    normal is -x and the slice indicator is -(1 + 2 s) *)
Definition ex_gfile (s t : nat) : gfile :=
  let k := 3 * t + s in
  let x := (1 + 2 * Z.of_nat s)%Z in
  mkgfile
    (mkfile k true 2 2 [1; 1]%Q [0; 1; 0; 0; 0; 1]%Q (Q2Qc (inject_Z (- x))) (Some (Q2Qc (inject_Z (Z.of_nat t)))) None []
            (Some (Q2Qc 2000)) (Some ex_row) 1 12 true)
    [[Z.of_nat (100 * k); Z.of_nat (100 * k + 1)]; [Z.of_nat (100 * k + 10); Z.of_nat (100 * k + 11)]]
    [0; 1; 0; 0; 0; 1]%Q [inject_Z x; 0; 0]%Q (1, 1)%Q 1%Q ex_u16 (Some 12) (Some (ex_tm t s)).

(** the same file with another dtype name *)
Definition ex_gfile_dt (s t : nat) (d : str) : gfile :=
  let g := ex_gfile s t in
  mkgfile (g_file g) (g_pix g) (g_iop g) (g_ipp g) (g_ps g) (g_zs g) d (g_bits_stored g) (g_acq_time g).

(** added in a scrambled order *)
Definition ex_gs : list gfile :=
  [ex_gfile 1 1; ex_gfile 0 0; ex_gfile 2 1; ex_gfile 2 0; ex_gfile 0 1; ex_gfile 1 0].

Definition ex_st : state := run (init true false) (map (fun g => OAdd (g_file g)) ex_gs).

From DV Require Import Stack.ProofsShape Stack.ProofsInv Orient.Spec Orient.ProofsAff Conv.GeomSpec.

Lemma ex_reachable : reachable ex_st.
Proof. exists true, false, (map (fun g => OAdd (g_file g)) ex_gs). reflexivity. Qed.

Lemma ex_dirty : shape_dirty ex_st = true.
Proof. vm_compute. reflexivity. Qed.

Lemma ex_files : files ex_st = map g_file ex_gs.
Proof. vm_compute. reflexivity. Qed.

Lemma ex_gfiles_ok : gfiles_ok ex_gs ex_st.
Proof.
  intros f Hin. rewrite ex_files in Hin. cbn [map ex_gs In] in Hin.
  repeat (destruct Hin as [<-|Hin];
          [eexists; split; [reflexivity|]; split; [reflexivity|]; split; [reflexivity|]; repeat constructor|]).
  contradiction.
Qed.

(** the conversion with order "LAS" (the results are extracted from the evaluated model, not written by hand) *)
Definition ex_go : geom_out :=
  ltac:(let r := eval vm_compute in (snd (conv ex_gs ex_st ex_LAS false)) in
        match r with Ok (?go, _) => exact go end).
Definition ex_h : hdr_out :=
  ltac:(let r := eval vm_compute in (snd (conv ex_gs ex_st ex_LAS false)) in
        match r with Ok (_, ?h) => exact h end).

Lemma ex_conv : conv ex_gs ex_st ex_LAS false = (fst (conv ex_gs ex_st ex_LAS false), Ok (ex_go, ex_h)).
Proof. vm_compute. reflexivity. Qed.

Lemma ex_conv_geom : conv_geom ex_gs ex_st ex_LAS false = (fst (conv ex_gs ex_st ex_LAS false), Ok ex_go).
Proof. vm_compute. reflexivity. Qed.

(** the same series with order "RAS" (no flip of the slice axis) *)
Definition ex_go2 : geom_out :=
  ltac:(let r := eval vm_compute in (snd (conv_geom ex_gs ex_st ex_RAS false)) in
        match r with Ok ?go => exact go end).
Lemma ex_conv_geom2 : conv_geom ex_gs ex_st ex_RAS false = (fst (conv_geom ex_gs ex_st ex_RAS false), Ok ex_go2).
Proof. vm_compute. reflexivity. Qed.

Lemma ex_shape : o_shape (go_nifti ex_go) = Stack.Spec.grid_shape 2 2 3 2 1.
Proof. vm_compute. reflexivity. Qed.

(** the slices lie on a line with equal gaps *)
Lemma ex_sources_regular : sources_regular ex_gs ex_st.
Proof.
  exists (ex_gfile 0 0), [0; 0; 0]%Q, [-1; 0; 0]%Q, (-5 # 1)%Q, 2%Q. split.
  - intros f g Hin Hg. rewrite ex_files in Hin. cbn [map ex_gs In] in Hin.
    repeat (destruct Hin as [<-|Hin];
            [cbv in Hg; injection Hg as <-;
             split; [repeat split; try (intros r Hr; destruct r as [|[|[|r]]]; try lia); vm_compute; reflexivity
                    | intros r Hr; destruct r as [|[|[|r]]]; try lia; vm_compute; reflexivity]|]).
    contradiction.
  - intros s Hs. assert (E : length (pos_vals ex_st) = 3) by (vm_compute; reflexivity). rewrite E in Hs.
    destruct s as [|[|[|s]]]; try lia; vm_compute; reflexivity.
Qed.
