(** A concrete series for the non-vacuity examples of C02 and C20 (header half): sagittal, 2 x 2 pixels,
    3 slices x 2 time points, explicit time ordering, converted with voxel order "LAS" (which flips the
    slice axis of this series, so the in-place reversal is exercised). *)
From Coq Require Import List Bool Arith ZArith NArith QArith Qcanon Lia.
From DV Require Import Common.Res Common.Str Stack.Model Orient.Model Conv.Geom Conv.Header.
Import ListNotations.
Local Open Scope nat_scope.

Definition ex_row : str := [82; 79; 87]%N.                                   (* "ROW" *)
Definition ex_u16 : str := [117; 105; 110; 116; 49; 54]%N.                   (* "uint16" *)
Definition ex_LAS : str := [76; 65; 83]%N.
Definition ex_RAS : str := [82; 65; 83]%N.
(** "1000ts" : 10:00:ts *)
Definition ex_tm (t s : nat) : str := [49; 48; 48; 48; 48 + N.of_nat t; 48 + N.of_nat s]%N.

(** file number k = 3 t + s sits at x = 1 + 2 s; orientation: columns along +y, rows along +z, so the slice
    normal is -x and the slice indicator is -(1 + 2 s) *)
Definition ex_gfile (s t : nat) : gfile :=
  let k := 3 * t + s in
  let x := (1 + 2 * Z.of_nat s)%Z in
  mkgfile
    (mkfile k true 2 2 [1; 1]%Q [0; 1; 0; 0; 0; 1]%Q (Q2Qc (inject_Z (- x))) (Some (Q2Qc (inject_Z (Z.of_nat t)))) None []
            (Some (Q2Qc 2000)) (Some ex_row) 1 12 true)
    [[Z.of_nat (100 * k); Z.of_nat (100 * k + 1)]; [Z.of_nat (100 * k + 10); Z.of_nat (100 * k + 11)]]
    [0; 1; 0; 0; 0; 1]%Q [inject_Z x; 0; 0]%Q (1, 1)%Q 1%Q ex_u16 (Some 12) (Some (ex_tm t s)).

(** the same file with another dtype name *)
Definition ex_gfile_dt (s t : nat) (d : str) : gfile :=
  let g := ex_gfile s t in
  mkgfile (g_file g) (g_pix g) (g_iop g) (g_ipp g) (g_ps g) (g_zs g) d (g_bits_stored g) (g_acq_time g).

(** added in a scrambled order *)
Definition ex_gs : list gfile :=
  [ex_gfile 1 1; ex_gfile 0 0; ex_gfile 2 1; ex_gfile 2 0; ex_gfile 0 1; ex_gfile 1 0].

Definition ex_st : state := run (init true false) (map (fun g => OAdd (g_file g)) ex_gs).

From DV Require Import Stack.ProofsShape Stack.ProofsInv Orient.Spec Orient.ProofsAff Conv.GeomSpec.

Lemma ex_reachable : reachable ex_st.
Proof. exists true, false, (map (fun g => OAdd (g_file g)) ex_gs). reflexivity. Qed.

Lemma ex_dirty : shape_dirty ex_st = true.
Proof. vm_compute. reflexivity. Qed.

Lemma ex_files : files ex_st = map g_file ex_gs.
Proof. vm_compute. reflexivity. Qed.

Lemma ex_gfiles_ok : gfiles_ok ex_gs ex_st.
Proof.
  intros f Hin. rewrite ex_files in Hin. cbn [map ex_gs In] in Hin.
  repeat (destruct Hin as [<-|Hin];
          [eexists; split; [reflexivity|]; split; [reflexivity|]; split; [reflexivity|]; repeat constructor|]).
  contradiction.
Qed.

(** the conversion with order "LAS" (the results are extracted from the evaluated model, not written by hand) *)
Definition ex_go : geom_out :=
  ltac:(let r := eval vm_compute in (snd (conv ex_gs ex_st ex_LAS false)) in
        match r with Ok (?go, _) => exact go end).
Definition ex_h : hdr_out :=
  ltac:(let r := eval vm_compute in (snd (conv ex_gs ex_st ex_LAS false)) in
        match r with Ok (_, ?h) => exact h end).

Lemma ex_conv : conv ex_gs ex_st ex_LAS false = (fst (conv ex_gs ex_st ex_LAS false), Ok (ex_go, ex_h)).
Proof. vm_compute. reflexivity. Qed.

Lemma ex_conv_geom : conv_geom ex_gs ex_st ex_LAS false = (fst (conv ex_gs ex_st ex_LAS false), Ok ex_go).
Proof. vm_compute. reflexivity. Qed.

(** the same series with order "RAS" (no flip of the slice axis) *)
Definition ex_go2 : geom_out :=
  ltac:(let r := eval vm_compute in (snd (conv_geom ex_gs ex_st ex_RAS false)) in
        match r with Ok ?go => exact go end).
Lemma ex_conv_geom2 : conv_geom ex_gs ex_st ex_RAS false = (fst (conv_geom ex_gs ex_st ex_RAS false), Ok ex_go2).
Proof. vm_compute. reflexivity. Qed.

Lemma ex_shape : o_shape (go_nifti ex_go) = Stack.Spec.grid_shape 2 2 3 2 1.
Proof. vm_compute. reflexivity. Qed.

Lemma ex_positions_ok : positions_ok ex_gs ex_st.
Proof.
  intros f g Hin Hg. rewrite ex_files in Hin. cbn [map ex_gs In] in Hin.
  repeat (destruct Hin as [<-|Hin]; [cbv in Hg; injection Hg as <-; vm_compute; reflexivity|]).
  contradiction.
Qed.

(** the slices lie on a line (displacement = slice indicator x (-1, 0, 0)) with equal gaps *)
Lemma ex_sources_line : sources_line ex_gs ex_st [-1; 0; 0]%Q.
Proof.
  exists (ex_gfile 0 0), [0; 0; 0]%Q.
  intros f g Hin Hg. rewrite ex_files in Hin. cbn [map ex_gs In] in Hin.
  repeat (destruct Hin as [<-|Hin];
          [cbv in Hg; injection Hg as <-;
           split; [repeat split; try (intros r Hr; destruct r as [|[|[|r]]]; try lia); vm_compute; reflexivity
                  | intros r Hr; destruct r as [|[|[|r]]]; try lia; vm_compute; reflexivity]|]).
  contradiction.
Qed.

Lemma ex_sources_regular : sources_regular ex_gs ex_st.
Proof.
  split; [eexists; exact ex_sources_line|]. exists (-5 # 1)%Q, 2%Q.
  intros s Hs. assert (E : length (pos_vals ex_st) = 3) by (vm_compute; reflexivity). rewrite E in Hs.
  destruct s as [|[|[|s]]]; try lia; vm_compute; reflexivity.
Qed.

(** the stored pixels of the example files are not rescaled *)
Definition ex_rs (g : gfile) : rescale := mkrescale (g_pix g) 1 0 1.
Lemma ex_rescaled : forall g, In g (go_files ex_go) -> rescaled_ok g (ex_rs g) = true.
Proof.
  intros g Hin. assert (E : go_files ex_go = [ex_gfile 2 0; ex_gfile 1 0; ex_gfile 0 0; ex_gfile 2 1; ex_gfile 1 1; ex_gfile 0 1])
    by (vm_compute; reflexivity).
  rewrite E in Hin. cbn [In] in Hin. repeat (destruct Hin as [<-|Hin]; [vm_compute; reflexivity|]). contradiction.
Qed.

(* ------------------------------------------------------------------------------------------ *)
(** * An irregularly spaced series the sorter ACCEPTS: slices at x = 1, 3, 5.06 (gaps 2 and 2.06, within 4 %) *)

Definition ex_irr_gfile (s : nat) : gfile :=
  let x := nth s [1; 3; 253 # 50]%Q 0%Q in
  mkgfile
    (mkfile s true 2 2 [1; 1]%Q [0; 1; 0; 0; 0; 1]%Q (Q2Qc (- x)) None None [] None None 1 12 false)
    [[Z.of_nat (100 * s); Z.of_nat (100 * s + 1)]; [Z.of_nat (100 * s + 10); Z.of_nat (100 * s + 11)]]
    [0; 1; 0; 0; 0; 1]%Q [x; 0; 0]%Q (1, 1)%Q 1%Q ex_u16 (Some 12) None.
Definition ex_irr_gs : list gfile := [ex_irr_gfile 1; ex_irr_gfile 2; ex_irr_gfile 0].
Definition ex_irr_st : state := run (init false false) (map (fun g => OAdd (g_file g)) ex_irr_gs).

Lemma ex_irr_reachable : reachable ex_irr_st.
Proof. exists false, false, (map (fun g => OAdd (g_file g)) ex_irr_gs). reflexivity. Qed.

Lemma ex_irr_files : files ex_irr_st = map g_file ex_irr_gs.
Proof. vm_compute. reflexivity. Qed.

Lemma ex_irr_gfiles_ok : gfiles_ok ex_irr_gs ex_irr_st.
Proof.
  intros f Hin. rewrite ex_irr_files in Hin. cbn [map ex_irr_gs In] in Hin.
  repeat (destruct Hin as [<-|Hin];
          [eexists; split; [reflexivity|]; split; [reflexivity|]; split; [reflexivity|]; repeat constructor|]).
  contradiction.
Qed.

Lemma ex_irr_positions_ok : positions_ok ex_irr_gs ex_irr_st.
Proof.
  intros f g Hin Hg. rewrite ex_irr_files in Hin. cbn [map ex_irr_gs In] in Hin.
  repeat (destruct Hin as [<-|Hin]; [cbv in Hg; injection Hg as <-; vm_compute; reflexivity|]).
  contradiction.
Qed.

Lemma ex_irr_sources_line : sources_line ex_irr_gs ex_irr_st [-1; 0; 0]%Q.
Proof.
  exists (ex_irr_gfile 0), [0; 0; 0]%Q.
  intros f g Hin Hg. rewrite ex_irr_files in Hin. cbn [map ex_irr_gs In] in Hin.
  repeat (destruct Hin as [<-|Hin];
          [cbv in Hg; injection Hg as <-;
           split; [repeat split; try (intros r Hr; destruct r as [|[|[|r]]]; try lia); vm_compute; reflexivity
                  | intros r Hr; destruct r as [|[|[|r]]]; try lia; vm_compute; reflexivity]|]).
  contradiction.
Qed.

Definition ex_irr_go : geom_out :=
  ltac:(let r := eval vm_compute in (snd (conv_geom ex_irr_gs ex_irr_st [] false)) in
        match r with Ok ?go => exact go end).
Lemma ex_irr_conv : conv_geom ex_irr_gs ex_irr_st [] false = (fst (conv_geom ex_irr_gs ex_irr_st [] false), Ok ex_irr_go).
Proof. vm_compute. reflexivity. Qed.

From DV Require Import Stack.Spec.
Lemma ex_irr_refutes :
  exists gs st code embed st' go S T V r c s t v i j g idx',
    reachable st /\ gfiles_ok gs st /\ positions_ok gs st /\
    conv_geom gs st code embed = (st', Ok go) /\
    0 < S /\ 0 < T /\ 0 < V /\ o_shape (go_nifti go) = grid_shape r c S T V /\
    s < S /\ t < T /\ v < V /\
    file_at gs (go_ord0 go) (cell_pos S T s t v) = Some g /\
    apply_aff (go_T go) idx' = Some (cell_idx (length (grid_shape r c S T V)) i j s t v) /\
    ~ veq3 (world (go_aff go) idx') (ras (pixel_pos g i j)).
Proof.
  exists ex_irr_gs, ex_irr_st, [], false, (fst (conv_geom ex_irr_gs ex_irr_st [] false)), ex_irr_go,
         3, 1, 1, 2, 2, 2, 0, 0, 0, 0, (ex_irr_gfile 0), [0; 0; 2].
  split; [exact ex_irr_reachable|]. split; [exact ex_irr_gfiles_ok|]. split; [exact ex_irr_positions_ok|].
  split; [exact ex_irr_conv|].
  repeat (split; [first [lia | vm_compute; reflexivity]|]).
  intros H. specialize (H 0 ltac:(lia)). vm_compute in H. discriminate H.
Qed.
