(** Histories of the COMPOSED model (audit 3, issue 1).

    A history step [hop] is an add, a shape / data / affine query, or a conversion with a voxel-order STRING and an
    embed flag (to_nifti(order, embed) / to_nifti_wrapper(order)).  The state a conversion leaves behind is the
    state component of [conv_full]; [conv_ops] names it in the sorter's own vocabulary: it is the state after the
    [Stack.Model] operation [OToNifti vo embed] at THE voxel-order abstraction [vo] the geometry half computes (or
    after the queries the conversion got through when it is refused).  Hence the state after any [hop] history is
    [Stack.Model.run (init ..) (hist_ops ..)], a history in the sense of C12, and [C12_full_history] applies to it:
    the correspondence check evaluates [conv_full] on [hist_state] (the model AFTER the same calls) against the
    implementation after the same calls, and the theorem turns that into "= the model on a fresh stack". *)
From Coq Require Import List Bool Arith ZArith NArith QArith Qcanon Lia Permutation.
From DV Require Import Common.Res Common.Str
  Stack.Model Stack.Spec Stack.ProofsShape Stack.ProofsInv Stack.ProofsC11 Stack.ProofsC12
  Orient.Model Conv.Geom Conv.Header
  Ext.Types Ext.Model Conv.Meta Conv.Full Conv.FullDep.
Import ListNotations.
Local Open Scope nat_scope.

Inductive hop :=
| HAdd (i : nat)                      (* add_dcm of file number i of the case's file list *)
| HShape | HData | HAffine            (* get_shape / get_data / get_affine *)
| HConv (code : str) (em : bool).     (* to_nifti(code, em); to_nifti_wrapper(code) = HConv code true; None = "" *)

(** the sorter-level operations whose effect on the state is that of [conv_full gs _ st code em _] *)
Definition conv_ops (gs : list gfile) (st : state) (code : str) (em : bool) : list op :=
  match snd (get_data st) with
  | Err _ => [OGetData]
  | Ok _ =>
      match snd (conv_geom gs st code em) with
      | Ok go => [OToNifti (o_vo (go_nifti go)) em]
      | Err _ => [OGetData; OGetAffine]
      end
  end.

Definition hop_ops (gs : list gfile) (st : state) (h : hop) : list op :=
  match h with
  | HAdd i => match nth_error gs i with Some g => [OAdd (g_file g)] | None => [] end
  | HShape => [OGetShape]
  | HData => [OGetData]
  | HAffine => [OGetAffine]
  | HConv code em => conv_ops gs st code em
  end.

Fixpoint hist_ops (gs : list gfile) (st : state) (hs : list hop) : list op :=
  match hs with
  | [] => []
  | h :: r => let o := hop_ops gs st h in o ++ hist_ops gs (run st o) r
  end.

(** the stack after the history *)
Definition hist_state (gs : list gfile) (st : state) (hs : list hop) : state := run st (hist_ops gs st hs).

(* ------------------------------------------------------------------------------------------ *)

Lemma step_get_data st : fst (step st OGetData) = fst (get_data st).
Proof. cbn [step]. destruct (get_data st) as [s r]. reflexivity. Qed.
Lemma step_get_affine st : fst (step st OGetAffine) = fst (get_affine st).
Proof. cbn [step]. destruct (get_affine st) as [s r]. reflexivity. Qed.
Lemma step_to_nifti st vo em : fst (step st (OToNifti vo em)) = fst (to_nifti st vo em).
Proof. cbn [step]. destruct (to_nifti st vo em) as [s r]. reflexivity. Qed.

(** the state a (successful or refused) composed conversion leaves behind *)
Lemma conv_geom_state gs st code em : fst (conv_geom gs st code em) = run st (conv_ops gs st code em).
Proof.
  unfold conv_ops, conv_geom.
  destruct (get_data st) as [st1 rd] eqn:Ed. cbn [snd].
  destruct rd as [[ord0 sh]|e].
  2:{ cbn [run fst]. rewrite step_get_data, Ed. reflexivity. }
  destruct (get_affine st1) as [st2 ra] eqn:Ea.
  assert (Hq : run st [OGetData; OGetAffine] = st2).
  { cbn [run]. rewrite step_get_data, Ed. cbn [fst]. rewrite step_get_affine, Ea. reflexivity. }
  destruct ra as [[i0 col]|e]; [|cbn [snd fst]; symmetry; exact Hq].
  destruct (glookup gs i0); [|cbn [snd fst]; symmetry; exact Hq].
  destruct (stack_affine gs i0 col); [|cbn [snd fst]; symmetry; exact Hq].
  destruct (mapM _ ord0); [|cbn [snd fst]; symmetry; exact Hq].
  destruct (out_dtype _); [|cbn [snd fst]; symmetry; exact Hq].
  destruct (reorient _ _ _) as [[[[d A] T] o]|e]; [|cbn [snd fst]; symmetry; exact Hq].
  destruct (to_nifti st (vorder_of (files_info st2) code o) em) as [st3 rn] eqn:En.
  assert (Hvo : forall n, rn = Ok n -> o_vo n = vorder_of (files_info st2) code o).
  { intros n ->. unfold to_nifti in En. rewrite Ed, Ea in En. injection En as _ <-. reflexivity. }
  destruct rn as [n|e].
  - cbn [snd fst go_nifti run]. rewrite (Hvo n eq_refl), step_to_nifti, En. reflexivity.
  - exfalso. unfold to_nifti in En. rewrite Ed, Ea in En. injection En as _ En. discriminate En.
Qed.

Section WithV.
  Context {V : Type} (veqb : V -> V -> bool) (vnone : V).
  Notation conv_full := (conv_full veqb vnone).

  Lemma conv_full_state gs (ms : list (mfile V)) st code em filt :
    fst (conv_full gs ms st code em filt) = run st (conv_ops gs st code em).
  Proof.
    rewrite <- conv_geom_state. unfold Full.conv_full, conv.
    destruct (conv_geom gs st code em) as [s r]. reflexivity.
  Qed.

  (** a conversion adds no file *)
  Lemma conv_ops_no_adds gs st code em : no_adds (conv_ops gs st code em) = true.
  Proof.
    unfold conv_ops. destruct (snd (get_data st)); [|reflexivity].
    destruct (snd (conv_geom gs st code em)); reflexivity.
  Qed.

  (** THE COMPOSITION: the composed model after a [hop] history (adds in any order, queries and conversions with any
      voxel-order strings and embed flags in between) gives, for a final conversion, what it gives on any other
      history that accepted the same files -- in particular on the fresh stack [map OAdd fs]. *)
  Theorem hist_history gs (ms : list (mfile V)) ct cv hs h' code em filt :
    Permutation (accepted (init ct cv) (hist_ops gs (init ct cv) hs)) (accepted (init ct cv) h') ->
    snd (conv_full gs ms (hist_state gs (init ct cv) hs) code em filt) =
    snd (conv_full gs ms (run (init ct cv) h') code em filt).
  Proof. intros Hp. unfold hist_state. apply full_history. exact Hp. Qed.
End WithV.
