(** The regularity hypothesis of the geometry theorem ([on_line], stated on the sorted list) follows from a
    condition on the SOURCES ([sources_regular]) for every freshly sorted stack: the sorter puts the file
    with the s-th smallest slice position at slice s of every volume. *)
From Coq Require Import List Bool Arith ZArith NArith QArith Qcanon Lia Lqa Permutation.
From DV Require Import Common.Res Common.Str Generated.T_conv Generated.T_stack
  Stack.Model Stack.Sort Stack.Order Stack.Spec Stack.ProofsOrder Stack.ProofsShape Stack.ProofsInv Stack.ProofsC11
  Orient.Model Orient.Spec Orient.ProofsArr Orient.ProofsAff
  Conv.Geom Conv.GeomSpec Conv.ProofsGeomBase Conv.ProofsGeomReorient Conv.ProofsGeomAff Conv.ProofsGeomData.
Import ListNotations.
Local Open Scope nat_scope.

(* ------------------------------------------------------------------------------------------ *)
(** * A successful sort passed the exhaustive order check *)

Lemma chk_order_ok_check fi P S nvol T V fi2 :
  chk_order fi P S nvol T V = (fi2, Ok tt) -> order_check fi2 P S T V = true.
Proof.
  unfold chk_order. destruct (negb (all_comparable (map e_tuple fi))); [discriminate|].
  destruct (order_check (arrange fi S nvol) P S T V) eqn:E; [|discriminate].
  intros H. injection H as <-. exact E.
Qed.

Lemma try_orders_ok_check P S nvol T V : forall ks fi fi2,
  try_orders ks fi P S nvol T V = (fi2, Ok tt) -> order_check fi2 P S T V = true.
Proof.
  induction ks as [|k ks IH]; intros fi fi2; cbn [try_orders]; [discriminate|].
  destruct (has_dup tuple_eqb (map e_tuple (map (rewrite_time k) fi))); [apply IH|].
  destruct (chk_order (map (rewrite_time k) fi) P S nvol T V) as [fi3 r] eqn:E.
  destruct r as [[]|e].
  - intros H. injection H as <-. eapply chk_order_ok_check, E.
  - destruct e; try discriminate. apply IH.
Qed.

Lemma compute_shape_check st st' sh :
  compute_shape st = (st', Ok sh) ->
  exists T,
    0 < length (pos_vals st) /\ 0 < T /\ 0 < length (vec_vals st) /\
    length (files_info st') = length (vec_vals st) * T * length (pos_vals st) /\
    order_check (files_info st') (ssort qc_leb (pos_vals st)) (length (pos_vals st)) T (length (vec_vals st)) = true /\
    sh = shape_of (e_file (nth 0 (files_info st') dflt_entry)) (length (pos_vals st)) T (length (vec_vals st)) /\
    pos_vals st' = pos_vals st.
Proof.
  unfold compute_shape.
  destruct (grid_dims _ _ _ _) as [[nvol T]|e] eqn:Hd; [|discriminate].
  apply grid_dims_ok in Hd. destruct Hd as (HS & HV & HT & Hn & -> & _).
  destruct (order_files st _ _ _ T _) as [fi2 r] eqn:Eo. destruct r as [[]|e]; [|discriminate].
  intros H. injection H as <- <-. exists T. cbn [files_info with_shape with_files pos_vals].
  assert (Hchk : order_check fi2 (ssort qc_leb (pos_vals st)) (length (pos_vals st)) T (length (vec_vals st)) = true).
  { unfold order_files in Eo.
    destruct ((1 <? length (vec_vals st) * T) && negb (cfg_time st) && negb (cfg_vec st)).
    - match type of Eo with context [filter ?f sort_guesses] => destruct (filter f sort_guesses) as [|k0 ks0] end;
        [discriminate|]. eapply try_orders_ok_check, Eo.
    - eapply chk_order_ok_check, Eo. }
  assert (Hlen : length fi2 = length (vec_vals st) * T * length (pos_vals st)).
  { rewrite <- Hn.
    unfold order_files in Eo.
    destruct ((1 <? length (vec_vals st) * T) && negb (cfg_time st) && negb (cfg_vec st)).
    - match type of Eo with context [filter ?f sort_guesses] => destruct (filter f sort_guesses) as [|k0 ks0] end;
        [discriminate|].
      assert (G : forall ks fi fi', try_orders ks fi (ssort qc_leb (pos_vals st)) (length (pos_vals st))
                                      (length (vec_vals st) * T) T (length (vec_vals st)) = (fi', Ok tt) -> length fi' = length fi).
      { induction ks as [|k ks IH]; intros fi fi'; cbn [try_orders]; [discriminate|].
        destruct (has_dup _ _); [intros G; rewrite (IH _ _ G), map_length; reflexivity|].
        destruct (chk_order (map (rewrite_time k) fi) _ _ _ _ _) as [fi3 r] eqn:E.
        pose proof (chk_order_perm (map (rewrite_time k) fi) (ssort qc_leb (pos_vals st)) (length (pos_vals st))
                      (length (vec_vals st) * T) T (length (vec_vals st))) as Hp.
        rewrite E in Hp. cbn [fst] in Hp. apply Permutation_length in Hp. rewrite map_length in Hp.
        destruct r as [[]|e].
        - intros G. injection G as <-. exact Hp.
        - destruct e; try discriminate. intros G. rewrite (IH _ _ G). exact Hp. }
      apply (G _ _ _ Eo).
    - pose proof (chk_order_perm (files_info st) (ssort qc_leb (pos_vals st)) (length (pos_vals st))
                    (length (vec_vals st) * T) T (length (vec_vals st))) as Hp.
      rewrite Eo in Hp. cbn [fst] in Hp. apply Permutation_length in Hp. exact Hp. }
  repeat split; assumption.
Qed.

(* ------------------------------------------------------------------------------------------ *)
(** * same_frame is an equivalence *)

Lemma same_frame_sym g h : same_frame g h -> same_frame h g.
Proof.
  intros (A & B & C & D). repeat split; try (intros r Hr; symmetry; auto); symmetry; assumption.
Qed.

Lemma same_frame_trans g h k : same_frame g h -> same_frame h k -> same_frame g k.
Proof.
  intros (A & B & C & D) (A' & B' & C' & D').
  repeat split; try (intros r Hr; etransitivity; eauto); etransitivity; eassumption.
Qed.

(* ------------------------------------------------------------------------------------------ *)
(** * sources_regular -> on_line *)

Lemma decompose_pos S T V k :
  0 < S -> 0 < T -> k < V * T * S ->
  k = (k / S / T) * T * S + (k / S mod T) * S + k mod S /\ k / S / T < V /\ k / S mod T < T /\ k mod S < S.
Proof.
  intros HS HT Hk.
  pose proof (Nat.div_mod k S ltac:(lia)) as E1.
  pose proof (Nat.div_mod (k / S) T ltac:(lia)) as E2.
  pose proof (Nat.mod_upper_bound k S ltac:(lia)).
  pose proof (Nat.mod_upper_bound (k / S) T ltac:(lia)).
  assert (k / S < V * T) by (apply Nat.div_lt_upper_bound; nia).
  assert (k / S / T < V) by (apply Nat.div_lt_upper_bound; nia).
  repeat split; try assumption. nia.
Qed.

Theorem sources_on_line gs st code embed st' go :
  wf st -> shape_dirty st = true -> sources_regular gs st ->
  conv_geom gs st code embed = (st', Ok go) ->
  forall S T V r c,
    0 < S -> 0 < T -> 0 < V -> o_shape (go_nifti go) = grid_shape r c S T V ->
    gfiles_ok gs st ->
    on_line gs (go_ord0 go) S.
Proof.
  intros Hwf Hdirty (G0 & o & d & p0 & dp & Hsrc & Hap) H S' T' V' r' c' HS' HT' HV' Hosh' Hok.
  destruct (conv_setup _ _ _ _ _ _ Hwf H)
    as (st1 & st2 & i0 & col & S & T & V & r & c & Hd & Hwf1 & Ha & Hfi2 & Hord & Hperm & HS & HT & HV & Hlen & Hrc
        & Hi0 & Hcol & Hfpv & Hg0 & HA0 & Hd0 & Hre & Hn & _).
  destruct (to_nifti_out _ _ _ _ _ _ _ _ _ _ _ Hd Ha Hn) as (Hosh & _).
  (* the sort that just happened *)
  assert (Hcs : compute_shape st = (st1, Ok (grid_shape r c S T V))).
  { unfold get_data in Hd. unfold get_shape in Hd. rewrite Hdirty in Hd.
    destruct (compute_shape st) as [s1 [sh1|e1]]; [|discriminate]. injection Hd as <- _ <-. reflexivity. }
  destruct (compute_shape_check _ _ _ Hcs) as (T0 & HS0 & HT0 & HV0 & Hlen0 & Hchk & Hsh & Hpv).
  rewrite shape_of_grid in Hsh by exact HS0.
  assert (HSTV : forall r1 c1 S1 T1 V1 r2 c2 S2 T2 V2, 0 < S1 -> 0 < T1 -> 0 < V1 -> 0 < S2 -> 0 < T2 -> 0 < V2 ->
            grid_shape r1 c1 S1 T1 V1 = grid_shape r2 c2 S2 T2 V2 -> S1 = S2 /\ T1 = T2 /\ V1 = V2).
  { clear. intros r1 c1 S1 T1 V1 r2 c2 S2 T2 V2 ? ? ? ? ? ? Hgs. unfold grid_shape in Hgs.
    destruct (V1 =? 1) eqn:E1; destruct (V2 =? 1) eqn:E2;
      try (destruct (T1 =? 1) eqn:E3); try (destruct (T2 =? 1) eqn:E4);
      try discriminate; injection Hgs as ? ? ?; subst;
      repeat match goal with E : (_ =? _) = true |- _ => apply Nat.eqb_eq in E end; subst; try lia.
    all: repeat match goal with E : (_ =? _) = false |- _ => apply Nat.eqb_neq in E end; try lia. }
  destruct (HSTV _ _ _ _ _ _ _ _ _ _ HS HT HV HS0 HT0 HV0 Hsh) as (ES & ET & EV).
  assert (E' : S' = S /\ T' = T /\ V' = V).
  { apply (HSTV r' c' S' T' V' r c S T V); try assumption. congruence. }
  destruct E' as (-> & -> & ->). clear Hosh'.
  rewrite <- ES, <- ET, <- EV in Hchk. clear HSTV.
  pose proof (proj1 (order_check_spec _ _ _ _ _) Hchk) as Hspec.
  destruct Hwf1 as [Hwf10 _].
  (* position of the file at sorted index k *)
  assert (Hpos : forall k, k < length (files_info st1) ->
            f_pos (e_file (nth k (files_info st1) dflt_entry)) = nth (k mod S) (ssort qc_leb (pos_vals st)) (Q2Qc 0)).
  { intros k Hk. rewrite Hlen in Hk.
    destruct (decompose_pos S T V k HS HT Hk) as (Ek & Hvi & Hti & Hsi).
    destruct (Hspec _ _ _ Hvi Hti Hsi) as [_ Hp]. rewrite <- Ek in Hp.
    change dflt_tuple with (e_tuple dflt_entry) in Hp. rewrite map_nth in Hp.
    rewrite <- Hp. symmetry. apply (w_entry st1 Hwf10). apply nth_In. rewrite Hlen. exact Hk. }
  (* geometry of the file at sorted index k *)
  assert (Hgeo : forall k g, file_at gs (go_ord0 go) k = Some g ->
            k < length (files_info st1) /\ same_frame g G0 /\
            forall q, q < 3 -> (vget (g_ipp g) q == vget o q + (p0 + NQ (k mod S) * dp) * vget d q)%Q).
  { intros k g Hg.
    assert (Hk : k < length (files_info st1)).
    { unfold file_at in Hg. destruct (nth_error (go_ord0 go) k) eqn:E; [|discriminate].
      assert (Hlt : k < length (go_ord0 go)) by (apply nth_error_Some; congruence).
      rewrite Hord in Hlt. unfold ids in Hlt. rewrite map_length in Hlt. exact Hlt. }
    split; [exact Hk|].
    rewrite Hord, file_at_ids in Hg by exact Hk.
    assert (Hin : In (e_file (nth k (files_info st1) dflt_entry)) (files st)).
    { eapply Permutation_in; [exact Hperm|]. unfold files. apply in_map, nth_In, Hk. }
    destruct (Hsrc _ _ Hin Hg) as (Hsf & Hipp). split; [exact Hsf|].
    intros q Hq. rewrite (Hipp q Hq). rewrite (Hpos k Hk).
    assert (Hm : k mod S < length (pos_vals st)) by (rewrite <- ES; apply Nat.mod_upper_bound; lia).
    rewrite (Hap _ Hm). reflexivity. }
  (* first and second file *)
  assert (Hl0 : 0 < length (files_info st1)) by (rewrite Hlen; nia).
  destruct (file_at_ok gs st st1 0 Hok Hperm Hl0) as (g0 & Hf0 & _). rewrite <- Hord in Hf0.
  assert (Hex1 : exists g1, 1 < S -> file_at gs (go_ord0 go) 1 = Some g1).
  { destruct (1 <? S) eqn:E1.
    - apply Nat.ltb_lt in E1. assert (Hl1 : 1 < length (files_info st1)) by (rewrite Hlen; nia).
      destruct (file_at_ok gs st st1 1 Hok Hperm Hl1) as (g1 & Hf1 & _). rewrite <- Hord in Hf1.
      exists g1. intros _. exact Hf1.
    - apply Nat.ltb_ge in E1. exists g0. intros HH. lia. }
  destruct Hex1 as (g1 & Hf1).
  exists g0, g1. split; [exact Hf0|]. split; [exact Hf1|].
  intros k g Hg. destruct (Hgeo k g Hg) as (Hk & Hsf & Hipp).
  destruct (Hgeo 0 g0 Hf0) as (_ & Hsf0 & Hipp0).
  split; [eapply same_frame_trans; [exact Hsf | apply same_frame_sym, Hsf0]|].
  intros q Hq. specialize (Hipp q Hq). specialize (Hipp0 q Hq).
  rewrite Nat.mod_0_l in Hipp0 by lia. change (NQ 0) with 0%Q in Hipp0.
  destruct (1 <? S) eqn:E1.
  - apply Nat.ltb_lt in E1. destruct (Hgeo 1 g1 (Hf1 E1)) as (_ & _ & Hipp1).
    specialize (Hipp1 q Hq). rewrite (Nat.mod_small 1 S E1) in Hipp1. change (NQ 1) with 1%Q in Hipp1.
    rewrite Hipp, Hipp0, Hipp1. ring.
  - apply Nat.ltb_ge in E1. assert (HS1 : S = 1) by lia. rewrite HS1, Nat.mod_1_r in Hipp. change (NQ 0) with 0%Q in Hipp.
    rewrite Hipp, Hipp0. ring.
Qed.
