(** The regularity hypothesis of the geometry theorem ([on_line], stated on the sorted list) follows from a
    condition on the SOURCES ([sources_regular]); for irregularly spaced sources the exact position error is
    derived.  Key fact: in every reachable stack whose shape is cached (and in every stack that get_shape just
    sorted) the file with the s-th smallest slice position sits at slice s of every volume. *)
From Coq Require Import List Bool Arith ZArith NArith QArith Qcanon Lia Lqa Permutation Sorted.
From DV Require Import Common.Res Common.Str Generated.T_conv Generated.T_stack
  Stack.Model Stack.Sort Stack.Order Stack.Spec Stack.ProofsOrder Stack.ProofsShape Stack.ProofsInv Stack.ProofsC11
  Orient.Model Orient.Spec Orient.ProofsArr Orient.ProofsAff
  Conv.Geom Conv.GeomSpec Conv.ProofsGeomBase Conv.ProofsGeomReorient Conv.ProofsGeomAff Conv.ProofsGeomData.
Import ListNotations.
Local Open Scope nat_scope.

(* ------------------------------------------------------------------------------------------ *)
(** * A successful sort passed the exhaustive order check *)

Lemma chk_order_ok_check fi P S nvol T V fi2 :
  chk_order fi P S nvol T V = (fi2, Ok tt) -> order_check fi2 P S T V = true.
Proof.
  unfold chk_order. destruct (negb (all_comparable (map e_tuple fi))); [discriminate|].
  destruct (order_check (arrange fi S nvol) P S T V) eqn:E; [|discriminate].
  intros H. injection H as <-. exact E.
Qed.

Lemma try_orders_ok_check P S nvol T V : forall ks fi fi2,
  try_orders ks fi P S nvol T V = (fi2, Ok tt) -> order_check fi2 P S T V = true.
Proof.
  induction ks as [|k ks IH]; intros fi fi2; cbn [try_orders]; [discriminate|].
  destruct (has_dup tuple_eqb (map e_tuple (map (rewrite_time k) fi))); [apply IH|].
  destruct (chk_order (map (rewrite_time k) fi) P S nvol T V) as [fi3 r] eqn:E.
  destruct r as [[]|e].
  - intros H. injection H as <-. eapply chk_order_ok_check, E.
  - destruct e; try discriminate. apply IH.
Qed.

Lemma compute_shape_check st st' sh :
  compute_shape st = (st', Ok sh) ->
  exists T,
    0 < length (pos_vals st) /\ 0 < T /\ 0 < length (vec_vals st) /\
    length (files_info st') = length (vec_vals st) * T * length (pos_vals st) /\
    order_check (files_info st') (ssort qc_leb (pos_vals st)) (length (pos_vals st)) T (length (vec_vals st)) = true /\
    sh = shape_of (e_file (nth 0 (files_info st') dflt_entry)) (length (pos_vals st)) T (length (vec_vals st)) /\
    pos_vals st' = pos_vals st /\ vec_vals st' = vec_vals st.
Proof.
  unfold compute_shape.
  destruct (grid_dims _ _ _ _) as [[nvol T]|e] eqn:Hd; [|discriminate].
  apply grid_dims_ok in Hd. destruct Hd as (HS & HV & HT & Hn & -> & _).
  destruct (order_files st _ _ _ T _) as [fi2 r] eqn:Eo. destruct r as [[]|e]; [|discriminate].
  intros H. injection H as <- <-. exists T. cbn [files_info with_shape with_files pos_vals vec_vals].
  assert (Hchk : order_check fi2 (ssort qc_leb (pos_vals st)) (length (pos_vals st)) T (length (vec_vals st)) = true).
  { unfold order_files in Eo.
    destruct ((1 <? length (vec_vals st) * T) && negb (cfg_time st) && negb (cfg_vec st)).
    - match type of Eo with context [filter ?f sort_guesses] => destruct (filter f sort_guesses) as [|k0 ks0] end;
        [discriminate|]. eapply try_orders_ok_check, Eo.
    - eapply chk_order_ok_check, Eo. }
  assert (Hlen : length fi2 = length (vec_vals st) * T * length (pos_vals st)).
  { rewrite <- Hn.
    unfold order_files in Eo.
    destruct ((1 <? length (vec_vals st) * T) && negb (cfg_time st) && negb (cfg_vec st)).
    - match type of Eo with context [filter ?f sort_guesses] => destruct (filter f sort_guesses) as [|k0 ks0] end;
        [discriminate|].
      assert (G : forall ks fi fi', try_orders ks fi (ssort qc_leb (pos_vals st)) (length (pos_vals st))
                                      (length (vec_vals st) * T) T (length (vec_vals st)) = (fi', Ok tt) -> length fi' = length fi).
      { induction ks as [|k ks IH]; intros fi fi'; cbn [try_orders]; [discriminate|].
        destruct (has_dup _ _); [intros G; rewrite (IH _ _ G), map_length; reflexivity|].
        destruct (chk_order (map (rewrite_time k) fi) _ _ _ _ _) as [fi3 r] eqn:E.
        pose proof (chk_order_perm (map (rewrite_time k) fi) (ssort qc_leb (pos_vals st)) (length (pos_vals st))
                      (length (vec_vals st) * T) T (length (vec_vals st))) as Hp.
        rewrite E in Hp. cbn [fst] in Hp. apply Permutation_length in Hp. rewrite map_length in Hp.
        destruct r as [[]|e].
        - intros G. injection G as <-. exact Hp.
        - destruct e; try discriminate. intros G. rewrite (IH _ _ G). exact Hp. }
      apply (G _ _ _ Eo).
    - pose proof (chk_order_perm (files_info st) (ssort qc_leb (pos_vals st)) (length (pos_vals st))
                    (length (vec_vals st) * T) T (length (vec_vals st))) as Hp.
      rewrite Eo in Hp. cbn [fst] in Hp. apply Permutation_length in Hp. exact Hp. }
  repeat split; try assumption; reflexivity.
Qed.

(* ------------------------------------------------------------------------------------------ *)
(** * An invariant of the sorter: a cached shape means the file list passed the order check *)

Definition clean_sorted (st : state) : Prop :=
  shape_dirty st = false ->
  exists T,
    0 < length (pos_vals st) /\ 0 < T /\ 0 < length (vec_vals st) /\
    length (files_info st) = length (vec_vals st) * T * length (pos_vals st) /\
    order_check (files_info st) (ssort qc_leb (pos_vals st)) (length (pos_vals st)) T (length (vec_vals st)) = true /\
    cached_shape st = Some (shape_of (e_file (nth 0 (files_info st) dflt_entry)) (length (pos_vals st)) T (length (vec_vals st))).

Lemma compute_shape_err_dirty st st' e : compute_shape st = (st', Err e) -> shape_dirty st' = shape_dirty st.
Proof.
  unfold compute_shape. destruct (grid_dims _ _ _ _) as [[nvol T]|e0].
  - destruct (order_files st _ _ nvol T _) as [fi2 [[]|e1]]; intros H; [discriminate|]. injection H as <- _. reflexivity.
  - intros H. injection H as <- _. reflexivity.
Qed.

Lemma get_shape_clean_sorted st : clean_sorted st -> clean_sorted (fst (get_shape st)).
Proof.
  intros Hc. unfold get_shape. destruct (shape_dirty st) eqn:Hd; [|exact Hc].
  destruct (compute_shape st) as [st' r] eqn:Ec. cbn [fst]. destruct r as [sh|e].
  - intros _. destruct (compute_shape_check _ _ _ Ec) as (T & H1 & H2 & H3 & H4 & H5 & H6 & H7 & H8).
    destruct (compute_shape_ok_form _ _ _ Ec) as [_ Hcs].
    exists T. rewrite H7, H8, Hcs, H6. repeat split; assumption.
  - intros Hd'. rewrite (compute_shape_err_dirty _ _ _ Ec), Hd in Hd'. discriminate.
Qed.

Lemma add_dcm_dirty st f st' : add_dcm st f = Ok st' -> shape_dirty st' = true.
Proof.
  unfold add_dcm. destruct (negb (f_has_pix f)); [discriminate|].
  destruct (negb (congruent st f)); [discriminate|].
  destruct ((cfg_time st || cfg_vec st) && existsb _ (tuples st)); [discriminate|].
  intros H. injection H as <-. reflexivity.
Qed.

Lemma get_data_state st : fst (get_data st) = fst (get_shape st).
Proof. unfold get_data. destruct (get_shape st) as [s1 [sh|e]]; reflexivity. Qed.

Lemma get_affine_clean_sorted st : clean_sorted st -> clean_sorted (fst (get_affine st)).
Proof. intros Hc. rewrite get_affine_fst. apply get_shape_clean_sorted, Hc. Qed.

Lemma to_nifti_clean_sorted st vo em : clean_sorted st -> clean_sorted (fst (to_nifti st vo em)).
Proof.
  intros Hc. unfold to_nifti.
  pose proof (get_shape_clean_sorted st Hc) as G1. rewrite <- get_data_state in G1.
  destruct (get_data st) as [s1 [[ids sh]|e]]; cbn [fst] in *; [|exact G1].
  pose proof (get_affine_clean_sorted s1 G1) as G2.
  destruct (get_affine s1) as [s2 [[i0 col]|e]]; cbn [fst] in *; [|exact G2].
  match goal with |- context [if ?b then _ else s2] => destruct b end; cbn [fst]; [|exact G2].
  intros Hd. discriminate Hd.
Qed.

Lemma step_clean_sorted st o : clean_sorted st -> clean_sorted (fst (step st o)).
Proof.
  intros Hc. destruct o as [f| | | |vo em|vo]; cbn [step].
  - destruct (add_dcm st f) as [st'|e] eqn:E; cbn [fst]; [|exact Hc].
    intros Hd. rewrite (add_dcm_dirty _ _ _ E) in Hd. discriminate.
  - pose proof (get_shape_clean_sorted st Hc) as G. destruct (get_shape st); exact G.
  - pose proof (get_shape_clean_sorted st Hc) as G. rewrite <- get_data_state in G. destruct (get_data st); exact G.
  - pose proof (get_affine_clean_sorted st Hc) as G. destruct (get_affine st); exact G.
  - pose proof (to_nifti_clean_sorted st vo em Hc) as G. destruct (to_nifti st vo em); exact G.
  - pose proof (to_nifti_clean_sorted st vo true Hc) as G. unfold to_nifti_wrapper. destruct (to_nifti st vo true); exact G.
Qed.

Lemma run_clean_sorted h : forall st, clean_sorted st -> clean_sorted (run st h).
Proof. induction h as [|o h IH]; intros st Hc; cbn [run]; [exact Hc | apply IH, step_clean_sorted, Hc]. Qed.

Lemma reachable_clean_sorted st : reachable st -> clean_sorted st.
Proof. intros (ct & cv & h & ->). apply run_clean_sorted. intros Hd. discriminate Hd. Qed.

(* ------------------------------------------------------------------------------------------ *)
(** * Positions along the sorted list *)

Lemma get_shape_pos_sets st :
  pos_vals (fst (get_shape st)) = pos_vals st /\ vec_vals (fst (get_shape st)) = vec_vals st.
Proof.
  unfold get_shape. destruct (shape_dirty st); [|auto].
  unfold compute_shape.
  destruct (grid_dims _ _ _ _) as [[nvol T]|e]; [|auto].
  destruct (order_files st _ _ nvol T _) as [fi2 [[]|e]]; cbn; auto.
Qed.

Lemma get_shape_ok_clean st st1 sh :
  get_shape st = (st1, Ok sh) -> shape_dirty st1 = false /\ cached_shape st1 = Some sh.
Proof.
  unfold get_shape. destruct (shape_dirty st) eqn:Hd.
  - intros E. apply compute_shape_ok_form in E. exact E.
  - destruct (cached_shape st) as [sh'|] eqn:Ec; intros E; [|discriminate]. injection E as <- <-. auto.
Qed.

Lemma decompose_pos S T V k :
  0 < S -> 0 < T -> k < V * T * S ->
  k = (k / S / T) * T * S + (k / S mod T) * S + k mod S /\ k / S / T < V /\ k / S mod T < T /\ k mod S < S.
Proof.
  intros HS HT Hk.
  pose proof (Nat.div_mod k S ltac:(lia)) as E1.
  pose proof (Nat.div_mod (k / S) T ltac:(lia)) as E2.
  pose proof (Nat.mod_upper_bound k S ltac:(lia)).
  pose proof (Nat.mod_upper_bound (k / S) T ltac:(lia)).
  assert (k / S < V * T) by (apply Nat.div_lt_upper_bound; nia).
  assert (k / S / T < V) by (apply Nat.div_lt_upper_bound; nia).
  repeat split; try assumption. nia.
Qed.

Lemma grid_shape_inj r1 c1 S1 T1 V1 r2 c2 S2 T2 V2 :
  0 < S1 -> 0 < T1 -> 0 < V1 -> 0 < S2 -> 0 < T2 -> 0 < V2 ->
  grid_shape r1 c1 S1 T1 V1 = grid_shape r2 c2 S2 T2 V2 -> S1 = S2 /\ T1 = T2 /\ V1 = V2.
Proof.
  intros ? ? ? ? ? ? Hgs. unfold grid_shape in Hgs.
  destruct (V1 =? 1) eqn:E1; destruct (V2 =? 1) eqn:E2;
    try (destruct (T1 =? 1) eqn:E3); try (destruct (T2 =? 1) eqn:E4);
    try discriminate; injection Hgs as ? ? ?; subst;
    repeat match goal with E : (_ =? _) = true |- _ => apply Nat.eqb_eq in E end; subst; try lia.
  all: repeat match goal with E : (_ =? _) = false |- _ => apply Nat.eqb_neq in E end; try lia.
Qed.

(** the sorted list of a converted stack: position k holds a file whose slice position is the (k mod S)-th
    smallest of the stack's distinct positions *)
Lemma sorted_positions st st1 ord r c S T V :
  wf st -> clean_sorted st -> 0 < S -> 0 < T -> 0 < V ->
  get_data st = (st1, Ok (ord, grid_shape r c S T V)) ->
  let P := ssort qc_leb (pos_vals st) in
  S = length (pos_vals st) /\ length P = S /\ StronglySorted Qclt P /\
  length (files_info st1) = V * T * S /\
  forall k, k < length (files_info st1) ->
    f_pos (e_file (nth k (files_info st1) dflt_entry)) = nth (k mod S) P (Q2Qc 0).
Proof.
  intros Hwf Hcs HS HT HV Hd P.
  assert (Hgs : get_shape st = (st1, Ok (grid_shape r c S T V))).
  { unfold get_data in Hd. destruct (get_shape st) as [s1 [sh1|e1]]; [|discriminate]. injection Hd as <- _ <-. reflexivity. }
  pose proof (get_shape_clean_sorted st Hcs) as Hcs1. rewrite Hgs in Hcs1. cbn [fst] in Hcs1.
  destruct (get_shape_ok_clean _ _ _ Hgs) as [Hd1 Hc1].
  destruct (get_shape_pos_sets st) as [Hpv Hvv]. rewrite Hgs in Hpv, Hvv. cbn [fst] in Hpv, Hvv.
  destruct (Hcs1 Hd1) as (T0 & HS0 & HT0 & HV0 & Hlen0 & Hchk & Hcached).
  rewrite Hpv, Hvv in *. rewrite Hc1 in Hcached. injection Hcached as Hsh.
  rewrite shape_of_grid in Hsh by exact HS0.
  destruct (grid_shape_inj _ _ _ _ _ _ _ _ _ _ HS HT HV HS0 HT0 HV0 Hsh) as (ES & ET & EV).
  assert (Hwf1 : wf st1) by (pose proof (get_shape_wf st Hwf) as G; rewrite Hgs in G; exact G).
  destruct Hwf as [Hwf0 _].
  destruct (pos_sorted st Hwf0) as (HPs & _ & HPl).
  split; [exact ES|]. split; [fold P in HPl; rewrite HPl; symmetry; exact ES|]. split; [exact HPs|].
  rewrite <- ES, <- ET, <- EV in Hlen0, Hchk. split; [exact Hlen0|].
  pose proof (proj1 (order_check_spec _ _ _ _ _) Hchk) as Hspec.
  destruct Hwf1 as [Hwf10 _].
  intros k Hk. rewrite Hlen0 in Hk.
  destruct (decompose_pos S T V k HS HT Hk) as (Ek & Hvi & Hti & Hsi).
  destruct (Hspec _ _ _ Hvi Hti Hsi) as [_ Hp]. rewrite <- Ek in Hp.
  change dflt_tuple with (e_tuple dflt_entry) in Hp. rewrite map_nth in Hp.
  unfold P. rewrite <- Hp. symmetry. apply (w_entry st1 Hwf10). apply nth_In. rewrite Hlen0. exact Hk.
Qed.

Lemma strongly_sorted_nth (P : list Qc) : StronglySorted Qclt P ->
  forall a b, a < b -> b < length P -> (nth a P (Q2Qc 0) < nth b P (Q2Qc 0))%Qc.
Proof.
  induction 1 as [|x P Hs IH Hall]; intros a b Hab Hb; [cbn in Hb; lia|].
  destruct b as [|b]; [lia|]. cbn [length] in Hb. destruct a as [|a]; cbn [nth].
  - rewrite Forall_forall in Hall. apply Hall, nth_In. lia.
  - apply IH; lia.
Qed.

(* ------------------------------------------------------------------------------------------ *)
(** * same_frame is an equivalence *)

Lemma same_frame_sym g h : same_frame g h -> same_frame h g.
Proof.
  intros (A & B & C & D). repeat split; try (intros r Hr; symmetry; auto); symmetry; assumption.
Qed.

Lemma same_frame_trans g h k : same_frame g h -> same_frame h k -> same_frame g k.
Proof.
  intros (A & B & C & D) (A' & B' & C' & D').
  repeat split; try (intros r Hr; etransitivity; eauto); etransitivity; eassumption.
Qed.

(* ------------------------------------------------------------------------------------------ *)
(** * From the sources to the sorted list *)

Lemma slice_dev_sum P s : (slice_dev P s == gap_excess P s)%Q.
Proof.
  induction s as [|s IH]; unfold slice_dev in *; cbn [gap_excess].
  - change (NQ 0) with 0%Q. ring.
  - rewrite <- IH. unfold NQ. rewrite Nat2Z.inj_succ. unfold Z.succ. rewrite inject_Z_plus.
    change (inject_Z 1) with 1%Q. ring.
Qed.

Lemma file_at_lt gs fi k g : file_at gs (ids fi) k = Some g -> k < length fi.
Proof.
  unfold file_at. destruct (nth_error (ids fi) k) eqn:E; [|discriminate]. intros _.
  assert (Hlt : k < length (ids fi)) by (apply nth_error_Some; congruence).
  unfold ids in Hlt. rewrite map_length in Hlt. exact Hlt.
Qed.

(** the sources lie on a line: position error of every file w.r.t. the lattice spanned by the first two
    sorted files = (deviation of its slice position) * d *)
Theorem sources_dev gs st code embed st' go d :
  wf st -> clean_sorted st -> gfiles_ok gs st -> positions_ok gs st -> sources_line gs st d ->
  conv_geom gs st code embed = (st', Ok go) ->
  forall S T V r c,
    0 < S -> 0 < T -> 0 < V -> o_shape (go_nifti go) = grid_shape r c S T V ->
    let P := ssort qc_leb (pos_vals st) in
    length P = S /\ StronglySorted Qclt P /\
    (forall k g, file_at gs (go_ord0 go) k = Some g -> (slice_indicator g == pos_at P (k mod S))%Q) /\
    on_line_dev gs (go_ord0 go) S (fun k q => slice_dev P (k mod S) * vget d q)%Q.
Proof.
  intros Hwf Hcs Hok Hpos (G0 & o & Hsrc) H S' T' V' r' c' HS' HT' HV' Hosh' P.
  destruct (conv_setup _ _ _ _ _ _ Hwf H)
    as (st1 & st2 & i0 & col & S & T & V & r & c & Hd & Hwf1 & Ha & Hfi2 & Hord & Hperm & HS & HT & HV & Hlen & Hrc
        & Hi0 & Hcol & Hfpv & Hg0 & HA0 & Hd0 & Hre & Hn & _).
  destruct (to_nifti_out _ _ _ _ _ _ _ _ _ _ _ Hd Ha Hn) as (Hosh & _).
  assert (E' : S' = S /\ T' = T /\ V' = V) by (apply (grid_shape_inj r' c' S' T' V' r c S T V); try assumption; congruence).
  destruct E' as (-> & -> & ->). clear Hosh'.
  rewrite Hord in Hd.
  destruct (sorted_positions st st1 _ r c S T V Hwf Hcs HS HT HV Hd) as (ES & HPl & HPs & _ & Hfp). fold P in HPl, HPs, Hfp.
  (* geometry of the file at sorted index k *)
  assert (Hgeo : forall k g, file_at gs (go_ord0 go) k = Some g ->
            same_frame g G0 /\ (slice_indicator g == pos_at P (k mod S))%Q /\
            forall q, q < 3 -> (vget (g_ipp g) q == vget o q + pos_at P (k mod S) * vget d q)%Q).
  { intros k g Hg. rewrite Hord in Hg. pose proof (file_at_lt _ _ _ _ Hg) as Hk.
    rewrite file_at_ids in Hg by exact Hk.
    assert (Hin : In (e_file (nth k (files_info st1) dflt_entry)) (files st)).
    { eapply Permutation_in; [exact Hperm|]. unfold files. apply in_map, nth_In, Hk. }
    destruct (Hsrc _ _ Hin Hg) as (Hsf & Hipp). split; [exact Hsf|].
    assert (Hsi : (slice_indicator g == pos_at P (k mod S))%Q).
    { rewrite <- (Hpos _ _ Hin Hg). rewrite (Hfp k Hk). reflexivity. }
    split; [exact Hsi|]. intros q Hq. rewrite (Hipp q Hq), Hsi. reflexivity. }
  split; [exact HPl|]. split; [exact HPs|]. split; [intros k g Hg; apply (Hgeo k g Hg)|].
  (* first and second file *)
  assert (Hl0 : 0 < length (files_info st1)) by (rewrite Hlen; nia).
  destruct (file_at_ok gs st st1 0 Hok Hperm Hl0) as (g0 & Hf0 & _). rewrite <- Hord in Hf0.
  assert (Hex1 : exists g1, 1 < S -> file_at gs (go_ord0 go) 1 = Some g1).
  { destruct (1 <? S) eqn:E1.
    - apply Nat.ltb_lt in E1. assert (Hl1 : 1 < length (files_info st1)) by (rewrite Hlen; nia).
      destruct (file_at_ok gs st st1 1 Hok Hperm Hl1) as (g1 & Hf1 & _). rewrite <- Hord in Hf1.
      exists g1. intros _. exact Hf1.
    - apply Nat.ltb_ge in E1. exists g0. intros HH. lia. }
  destruct Hex1 as (g1 & Hf1).
  exists g0, g1. split; [exact Hf0|]. split; [exact Hf1|].
  intros k g Hg. destruct (Hgeo k g Hg) as (Hsf & _ & Hipp).
  destruct (Hgeo 0 g0 Hf0) as (Hsf0 & _ & Hipp0).
  split; [eapply same_frame_trans; [exact Hsf | apply same_frame_sym, Hsf0]|].
  intros q Hq. specialize (Hipp q Hq). specialize (Hipp0 q Hq).
  rewrite Nat.mod_0_l in Hipp0 by lia. unfold slice_dev.
  destruct (1 <? S) eqn:E1.
  - apply Nat.ltb_lt in E1. destruct (Hgeo 1 g1 (Hf1 E1)) as (_ & _ & Hipp1).
    specialize (Hipp1 q Hq). rewrite (Nat.mod_small 1 S E1) in Hipp1.
    rewrite Hipp, Hipp0, Hipp1. ring.
  - apply Nat.ltb_ge in E1. assert (HS1 : S = 1) by lia. rewrite HS1, Nat.mod_1_r in *.
    rewrite Hipp, Hipp0. change (NQ 0) with 0%Q. ring.
Qed.

Lemma on_line_dev_zero gs ord S e :
  (forall k q, (e k q == 0)%Q) -> on_line_dev gs ord S e -> on_line gs ord S.
Proof.
  intros He (g0 & g1 & H0 & H1 & Hall). exists g0, g1. split; [exact H0|]. split; [exact H1|].
  intros k g Hg. destruct (Hall k g Hg) as [Hsf Hipp]. split; [exact Hsf|].
  intros r Hr. rewrite (Hipp r Hr), He. ring.
Qed.

Theorem sources_on_line gs st code embed st' go :
  wf st -> clean_sorted st -> gfiles_ok gs st -> positions_ok gs st -> sources_regular gs st ->
  conv_geom gs st code embed = (st', Ok go) ->
  forall S T V r c,
    0 < S -> 0 < T -> 0 < V -> o_shape (go_nifti go) = grid_shape r c S T V ->
    on_line gs (go_ord0 go) S.
Proof.
  intros Hwf Hcs Hok Hpos ((d & Hline) & p0 & dp & Hap) H S T V r c HS HT HV Hosh.
  destruct (sources_dev gs st code embed st' go d Hwf Hcs Hok Hpos Hline H S T V r c HS HT HV Hosh)
    as (HPl & _ & _ & Hdev).
  eapply on_line_dev_zero; [|exact Hdev].
  intros k q. cbv beta.
  assert (Hz : (slice_dev (ssort qc_leb (pos_vals st)) (k mod S) == 0)%Q).
  { rewrite ssort_length in HPl.
    assert (Hm : k mod S < length (pos_vals st)) by (rewrite HPl; apply Nat.mod_upper_bound; lia).
    unfold slice_dev, pos_at.
    destruct (Nat.eq_dec S 1) as [E1|N1].
    - rewrite E1, Nat.mod_1_r. change (NQ 0) with 0%Q. ring.
    - rewrite (Hap _ Hm). rewrite (Hap 0) by lia. rewrite (Hap 1) by lia.
      change (NQ 0) with 0%Q. change (NQ 1) with 1%Q. ring. }
  rewrite Hz. ring.
Qed.
