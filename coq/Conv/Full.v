(** The COMPOSED conversion: ONE function for the whole of [DicomStack.to_nifti(voxel_order, embed_meta)]
    (dcmstack.py 844-1004) on top of the three existing halves

      Conv.Geom.conv_geom    data array, affine, reorientation, in-place reversal of every volume's files
      Conv.Header.header_of  xyzt units, pixdim[4], dim_info, the argument of set_slice_times
      Conv.Meta.embed        the embed block (per-file extensions, the nest of from_sequence, the rewrite of
                             shape / slice_dim / affine, filter_meta)

    threaded exactly as the Python function threads them: the embed block receives
      - the FINAL file order [o_order (go_nifti go)], i.e. the order after the reversal that [conv_geom] decided
        from [flips[2]] of ITS reorientation (the reversal happens once, before header timing and embedding),
      - [data.shape] of the REORIENTED array [ashape (go_data go)],
      - [slice_dim] = [h_slice_dim h] = permutation[2] of ITS reorientation,
      - the final affine [go_aff go] (= nifti_header.get_best_affine(); float32 rounding of the sform is outside
        the model, exact on the dyadic inputs of the correspondence).
    There is no free permutation / voxel-order bit / affine any more.  No proofs here. *)
From Coq Require Import List Bool Arith ZArith NArith QArith Qcanon.
From DV Require Import Common.Res Common.Str Stack.Model Orient.Model Conv.Geom Conv.Header
     Ext.Types Ext.Model Conv.Meta.
Import ListNotations.
Local Open Scope nat_scope.
Local Open Scope res_scope.

(** [flips[slice_dim] == -1] with [slice_dim = 2] (the test of line 889, made BEFORE "Update the slice dim") *)
Definition flip_bit (flips : list Z) : bool := Z.eqb (nth 2 flips 1%Z) (-1).

(** the voxel-order abstraction [Stack.Model.to_nifti] is called with, as a function of the geometry:
    [asc] = the sorted files ascend in slice position, [flips] = the flips of the reorientation *)
Definition vo_of_flips (code : str) (asc : bool) (flips : list Z) : vorder :=
  if is_empty code then None else Some (Bool.eqb asc (flip_bit flips)).

Section WithV.
  Context {V : Type} (veqb : V -> V -> bool) (vnone : V).

  (** lines 957-1001: the embed block on the outputs of the geometry half and of the header half *)
  Definition embed_of (ms : list (mfile V)) (go : geom_out) (h : hdr_out) (filt : key -> bool) : res (ext V) :=
    do fs <- mapM (find_mfile ms) (o_order (go_nifti go));
    embed veqb vnone fs (ashape (go_data go)) (h_slice_dim h) (go_aff go) filt.

  (** [to_nifti(code, embed_meta)]: stack state (mutated in place: re-sort, reversal + dirty flag),
      result = voxel data + affine, header fields, the embedded extension when requested *)
  Definition conv_full (gs : list gfile) (ms : list (mfile V)) (st : state) (code : str) (embed_flag : bool)
             (filt : key -> bool) : state * res (geom_out * hdr_out * option (ext V)) :=
    let '(st', r) := conv gs st code embed_flag in
    (st', do gh <- r;
          let '(go, h) := gh in
          if embed_flag
          then (do e <- embed_of ms go h filt; Ok (go, h, Some e))
          else Ok (go, h, None)).

  (** [to_nifti_wrapper(code)] = NiftiWrapper(to_nifti(code, embed_meta=True)) *)
  Definition conv_full_wrapper gs ms st code filt := conv_full gs ms st code true filt.

  (** the image half of the resulting wrapper as the lookup model sees it *)
  Definition full_img (go : geom_out) (h : hdr_out) : img :=
    mk_img (ashape (go_data go)) (Some (h_slice_dim h)) (go_aff go).
End WithV.
