(** C06 at the level of the composed conversion: the extension embedded by [conv_full] is canonical at every stage
    of the embed block, and the two corollaries in the property's words -- a value identical in all source files is a
    global constant readable without an index; a value that only changes per volume is stored once per volume. *)
From Coq Require Import List Bool Arith NArith ZArith QArith Lia Permutation.
From DV Require Import Common.Res Common.Str Ext.Types Ext.Classes Ext.Seq Ext.Model Ext.Spec Ext.TableFacts
     Ext.ValidFacts Ext.ProofsValidBase Ext.ProofsCanonSubset Ext.ProofsMergeDen Ext.ProofsMerge Ext.ProofsCanonMerge
     Conv.Meta Conv.ProofsMetaBase Conv.ProofsMetaNest Conv.ProofsMetaEmbed Conv.ProofsMetaStack Conv.ProofsMetaTop
     Conv.FullCanon.
From DV Require Import Orient.Model Conv.Geom Conv.Header Conv.Full Conv.FullProofs.
From DV Require Stack.Model Stack.Spec Stack.ProofsShape Stack.ProofsInv.
Import ListNotations.
Local Open Scope nat_scope.

Section WithV.
  Context {V : Type} (veqb : V -> V -> bool) (vnone : V).
  Hypothesis veqb_spec : forall a b, reflect (a = b) (veqb a b).

  Notation ext := (ext V).
  Notation mfile := (mfile V).
  Notation den := (den vnone).
  Notation lookup := (meta_lookup vnone).
  Notation canonical_mod_none := (canonical_mod_none vnone).
  Notation conv_full := (conv_full veqb vnone).

  (** every id of the final order is a file of the stack with its metadata entry *)
  Lemma order_covered (ms : list mfile) st vo em st' o :
    SI.wf st -> covers ms st -> SM.to_nifti st vo em = (st', Ok o) ->
    forall id, In id (SM.o_order o) ->
      exists f m, In f (SP.files st) /\ SM.f_id f = id /\ find_mfile ms id = Ok m /\ m_file m = f.
  Proof.
    intros Hwf Hcov Hto id Hin.
    destruct (to_nifti_grid st vo em st' o Hwf Hto) as [S [T [Vn [r [c [_ [_ [_ [_ [Eord [_ [Hpm _]]]]]]]]]]]].
    rewrite Eord in Hin. unfold SM.ids in Hin. apply in_map_iff in Hin as [en [<- Hen]].
    assert (Hf : In (SM.e_file en) (SP.files st)).
    { eapply Permutation_in; [exact Hpm|]. unfold SP.files. apply in_map. exact Hen. }
    destruct (Hcov _ Hf) as [m [Em Ef]]. exists (SM.e_file en), m. repeat split; assumption.
  Qed.

  Section Conv.
    Variables (gs : list gfile) (ms : list mfile) (st : SM.state) (code : str) (filt : key -> bool).
    Hypothesis Hwf : SI.wf st.
    Hypothesis Hcov : covers ms st.
    Hypothesis Hms : metas_ok ms.
    Hypothesis Hnorm : normals_ok ms.

    (** every stage of the embed block yields a canonical extension *)
    Theorem conv_canonical st' go h oe :
      conv_full gs ms st code true filt = (st', Ok (go, h, oe)) ->
      exists e fs exts m h1,
        oe = Some e /\
        mapM (find_mfile ms) (SM.o_order (go_nifti go)) = Ok fs /\
        mapM (file_ext (V := V)) fs = Ok exts /\ (forall x, In x exts -> canonical_mod_none x) /\
        nest veqb vnone exts (ashape (go_data go)) (h_slice_dim h) = Ok m /\ canonical_mod_none m /\
        rewrite_hdr (hdr_of m) (ashape (go_data go)) (h_slice_dim h) (go_aff go) = Ok h1 /\
        canonical_mod_none (mk_ext h1 (entries m)) /\
        dims h1 = dims (hdr_of m) /\ (forall k p, den (mk_ext h1 (entries m)) k p = den m k p) /\
        filter_meta filt (mk_ext h1 (entries m)) = Ok e /\ canonical_mod_none e.
    Proof.
      intros H.
      destruct (full_meta veqb vnone _ _ _ _ _ _ _ _ _ Hwf H) as (e & -> & Hto & Hm & Hp3 & Haff & Hsh & Hsd).
      set (o := go_nifti go) in *.
      destruct (to_nifti_grid st _ true st' o Hwf Hto) as [S [T [Vn [r [c [HS [HT [HV [Esh [Eord [Hlen [Hpm Hrc]]]]]]]]]]]].
      assert (Hol : length (SM.o_order o) = S * T * Vn) by (rewrite Eord; unfold SM.ids; rewrite map_length; exact Hlen).
      assert (Hid : forall id, In id (SM.o_order o) -> exists m, find_mfile ms id = Ok m /\ In (m_file m) (SP.files st)).
      { intros id Hin. destruct (order_covered ms st _ true st' o Hwf Hcov Hto id Hin) as [f [m [Hf [_ [Em Ef]]]]].
        exists m. split; [exact Em | rewrite Ef; exact Hf]. }
      destruct (mapM_ok (find_mfile ms) (SM.o_order o)) as [fs Efs].
      { intros id Hin. destruct (Hid id Hin) as [m [Em _]]. eauto. }
      destruct (mapM_inv _ _ _ Efs) as [Hfl Hfn].
      assert (Hfs : forall f, In f fs -> mfile_ok f /\ SM.f_rows (m_file f) = r /\ SM.f_cols (m_file f) = c).
      { intros f Hf. destruct (In_nth _ _ (mdflt (V:=V)) Hf) as [i [Hi Ei]]. rewrite Hfl in Hi.
        specialize (Hfn i 0 (mdflt (V:=V)) Hi). rewrite Ei in Hfn.
        destruct (Hid _ (nth_In _ 0 Hi)) as [m [Em Hmf]]. rewrite Hfn in Em. injection Em as <-.
        destruct (find_mfile_in _ _ _ Hfn) as [Hin _]. split; [apply Hms; exact Hin | apply Hrc; exact Hmf]. }
      assert (Hfms : forall f, In f fs -> In f ms).
      { intros f Hf. destruct (In_nth _ _ (mdflt (V:=V)) Hf) as [i [Hi Ei]]. rewrite Hfl in Hi.
        specialize (Hfn i 0 (mdflt (V:=V)) Hi). rewrite Ei in Hfn. apply (find_mfile_in _ _ _ Hfn). }
      assert (Hflen : length fs = S * T * Vn) by (rewrite Hfl; exact Hol).
      assert (H0 : In (nth 0 fs (mdflt (V:=V))) fs) by (apply nth_In; rewrite Hflen; nia).
      destruct (Hfs _ H0) as [[Hr1 [Hc1 _]] [Er Ec]]. rewrite Er in Hr1. rewrite Ec in Hc1.
      destruct (embed_canonical veqb vnone veqb_spec fs r c S T Vn Hfs Hflen HS HT HV
                  (fun f g Hf Hg => Hnorm f g (Hfms f Hf) (Hfms g Hg)) (go_perm go) (go_aff go) filt Hp3 Haff Hr1 Hc1)
        as (m & h1 & e1 & Eexts & Cexts & Em & Cm & Erw & C1 & Hdm1 & Hden1 & Efl & C2 & Eemb).
      cbv zeta in *. rewrite <- Esh, <- Hsh, <- Hsd in *.
      (* the extension of the composed conversion is that one *)
      assert (Ee : e1 = e).
      { unfold conv_meta in Hm. rewrite Hto in Hm. cbn [bind] in Hm. fold o in Hm. rewrite Efs in Hm. cbn [bind] in Hm.
        rewrite <- Hsh, <- Hsd, Eemb in Hm. injection Hm as Hm. exact Hm. }
      subst e1.
      exists e, fs, (ProofsMetaNest.exts fs), m, h1. repeat (split; [first [reflexivity | assumption]|]). exact C2.
    Qed.

    (** the final extension is canonical and says, at position (s,t,v), what file number s + S (t + T v) of the final
        order carried *)
    Lemma conv_canonical_den st' go h e :
      conv_full gs ms st code true filt = (st', Ok (go, h, Some e)) ->
      canonical_mod_none e /\
      exists S T Vn,
        1 <= S /\ 1 <= T /\ 1 <= Vn /\ dims (hdr_of e) = (S, T, Vn) /\ length (SM.o_order (go_nifti go)) = S * T * Vn /\
        forall s t v, s < S -> t < T -> v < Vn ->
          exists m, find_mfile ms (nth (s + S * (t + T * v)) (SM.o_order (go_nifti go)) 0) = Ok m /\
                    In (m_file m) (SP.files st) /\
                    forall k, den e k (s, t, v) = if filt k then vnone else lookup m k.
    Proof.
      intros H.
      destruct (conv_canonical st' go h (Some e) H) as (e0 & fs & xs & m0 & h1 & E0 & _ & _ & _ & _ & _ & _ & _ & _ & _ & _ & C2).
      injection E0 as E0. subst e0. split; [exact C2|].
      destruct (full_meta veqb vnone _ _ _ _ _ _ _ _ _ Hwf H) as (e1 & E1 & Hto & Hm & Hp3 & Haff & _).
      injection E1 as E1. subst e1.
      destruct (conv_spec veqb vnone veqb_spec ms st _ _ _ filt Hwf Hcov Hms Hnorm Hp3 Haff st' (go_nifti go) Hto)
        as (S & T & Vn & r & c & e2 & HS & HT & HV & _ & Hol & Ec & _ & _ & _ & _ & Hdm & Hden & _).
      rewrite Hm in Ec. injection Ec as <-.
      exists S, T, Vn. repeat (split; [assumption|]).
      intros s t v Hs Ht Hv0.
      assert (Hi : s + S * (t + T * v) < length (SM.o_order (go_nifti go))) by (rewrite Hol; apply ProofsMergeDen.idx3_lt'; assumption).
      destruct (order_covered ms st _ true st' _ Hwf Hcov Hto _ (nth_In _ 0 Hi)) as [f [m [Hf [_ [Em Ef]]]]].
      exists m. split; [exact Em|]. split; [rewrite Ef; exact Hf|]. apply Hden; assumption.
    Qed.

    (** a value identical (and not None) in ALL source files is a global constant, readable without an index *)
    Theorem conv_const_readable st' go h e k x :
      conv_full gs ms st code true filt = (st', Ok (go, h, Some e)) ->
      filt k = false -> x <> vnone ->
      (forall f m, In f (SP.files st) -> find_mfile ms (SM.f_id f) = Ok m -> lookup m k = x) ->
      lookup_e e k = Some (GConst, [x]) /\ getitem e k = Ok x.
    Proof.
      intros H Hk Hx Hall.
      destruct (conv_canonical_den st' go h e H) as [C (S & T & Vn & HS & HT & HV & Hdm & Hol & Hden)].
      apply (const_readable vnone e k x C Hx).
      intros [[s t] v] Hp. rewrite Hdm in Hp. cbn [in_dims] in Hp. destruct Hp as (Hs & Ht & Hv0).
      destruct (Hden s t v Hs Ht Hv0) as [m [Em [Hf D]]]. rewrite D, Hk.
      apply (Hall (m_file m) m Hf). destruct (find_mfile_in _ _ _ Em) as [_ Eid]. rewrite Eid. exact Em.
    Qed.

    (** a value that only changes per volume (the same in the S files of every volume of the final order) is stored
        once per volume or less: never in a per-slice class, at most T * V values *)
    Theorem conv_per_volume st' go h e k c0 vs :
      conv_full gs ms st code true filt = (st', Ok (go, h, Some e)) ->
      lookup_e e k = Some (c0, vs) ->
      (forall S T Vn vol s s' m m', dims (hdr_of e) = (S, T, Vn) -> vol < T * Vn -> s < S -> s' < S ->
         find_mfile ms (nth (s + S * vol) (SM.o_order (go_nifti go)) 0) = Ok m ->
         find_mfile ms (nth (s' + S * vol) (SM.o_order (go_nifti go)) 0) = Ok m' -> lookup m k = lookup m' k) ->
      is_slices c0 = false /\ length vs = mult_spec (dims (hdr_of e)) c0 /\
      length vs <= snd (fst (dims (hdr_of e))) * snd (dims (hdr_of e)).
    Proof.
      intros H El Hvol.
      destruct (conv_canonical_den st' go h e H) as [C (S & T & Vn & HS & HT & HV & Hdm & Hol & Hden)].
      apply (per_volume vnone e k c0 vs C El).
      intros s s' t v Hp Hq. rewrite Hdm in Hp, Hq. cbn [in_dims] in Hp, Hq.
      destruct Hp as (Hs & Ht & Hv0). destruct Hq as (Hs' & _ & _).
      destruct (Hden s t v Hs Ht Hv0) as [m [Em [_ D]]]. destruct (Hden s' t v Hs' Ht Hv0) as [m' [Em' [_ D']]].
      rewrite D, D'. destruct (filt k); [reflexivity|].
      apply (Hvol S T Vn (t + T * v) s s' m m' Hdm); try assumption. nia.
    Qed.
  End Conv.
End WithV.
