(** The C02 lemmas for stacks reachable by a history of operations ([reachable] implies the invariant [wf]). *)
From Coq Require Import List Bool Arith ZArith NArith QArith Qcanon Qabs Lia Permutation Sorted.
From DV Require Import Common.Res Common.Str Stack.Model Stack.Spec Stack.ProofsShape Stack.ProofsInv
  Stack.Sort Orient.Model Orient.Spec Orient.ProofsAff
  Conv.Geom Conv.GeomSpec Conv.ProofsGeomAff Conv.ProofsGeomData Conv.ProofsGeomSrc Conv.ProofsGeomInv Conv.ProofsGeomBase Conv.ProofsGeomBound Generated.T_stack.
Import ListNotations.
Local Open Scope nat_scope.

Definition values_stmt gs st code embed st' go :=
  reachable st -> gfiles_ok gs st ->
  conv_geom gs st code embed = (st', Ok go) ->
  exists S T V r c,
    0 < S /\ 0 < T /\ 0 < V /\
    o_shape (go_nifti go) = grid_shape r c S T V /\
    length (go_ord0 go) = V * T * S /\
    (forall s t v i j, s < S -> t < T -> v < V -> i < r -> j < c ->
       exists g z idx',
         file_at gs (go_ord0 go) (cell_pos S T s t v) = Some g /\ pix_at g i j = Some z /\
         in_bounds (ashape (go_data go)) idx' = true /\
         apply_aff (go_T go) idx' = Some (cell_idx (length (grid_shape r c S T V)) i j s t v) /\
         aget (go_data go) idx' = Some z /\
         forall idx'', in_bounds (ashape (go_data go)) idx'' = true ->
           apply_aff (go_T go) idx'' = Some (cell_idx (length (grid_shape r c S T V)) i j s t v) -> idx'' = idx') /\
    (forall idx', in_bounds (ashape (go_data go)) idx' = true ->
       exists s t v i j, s < S /\ t < T /\ v < V /\ i < r /\ j < c /\
         apply_aff (go_T go) idx' = Some (cell_idx (length (grid_shape r c S T V)) i j s t v)).

Lemma values_reachable : forall gs st code embed st' go, values_stmt gs st code embed st' go.
Proof. intros gs st code embed st' go Hr. exact (conv_values gs st code embed st' go (reachable_wf st Hr)). Qed.

Lemma geometry_reachable : forall gs st code embed st' go,
  reachable st -> gfiles_ok gs st ->
  conv_geom gs st code embed = (st', Ok go) ->
  forall S T V r c,
    0 < S -> 0 < T -> 0 < V ->
    o_shape (go_nifti go) = grid_shape r c S T V ->
    on_line gs (go_ord0 go) S ->
    forall s t v i j g idx',
      s < S -> t < T -> v < V ->
      file_at gs (go_ord0 go) (cell_pos S T s t v) = Some g ->
      apply_aff (go_T go) idx' = Some (cell_idx (length (grid_shape r c S T V)) i j s t v) ->
      veq3 (world (go_aff go) idx') (ras (pixel_pos g i j)).
Proof. intros gs st code embed st' go Hr. exact (conv_geometry gs st code embed st' go (reachable_wf st Hr)). Qed.

Lemma geometry_sources_reachable : forall gs st code embed st' go,
  reachable st -> gfiles_ok gs st -> positions_ok gs st -> sources_regular gs st ->
  conv_geom gs st code embed = (st', Ok go) ->
  forall S T V r c,
    0 < S -> 0 < T -> 0 < V -> o_shape (go_nifti go) = grid_shape r c S T V ->
    on_line gs (go_ord0 go) S.
Proof.
  intros gs st code embed st' go Hr Hok Hp Hs H.
  exact (sources_on_line gs st code embed st' go (reachable_wf st Hr) (reachable_clean_sorted st Hr) Hok Hp Hs H).
Qed.

Lemma geometry_irregular_reachable : forall gs st code embed st' go d,
  reachable st -> gfiles_ok gs st -> positions_ok gs st -> sources_line gs st d ->
  conv_geom gs st code embed = (st', Ok go) ->
  forall S T V r c,
    0 < S -> 0 < T -> 0 < V -> o_shape (go_nifti go) = grid_shape r c S T V ->
    let P := ssort qc_leb (pos_vals st) in
    length P = S /\ StronglySorted Qclt P /\
    (forall s t v g, s < S -> t < T -> v < V ->
       file_at gs (go_ord0 go) (cell_pos S T s t v) = Some g -> (slice_indicator g == pos_at P s)%Q) /\
    (forall s t v i j g idx',
       s < S -> t < T -> v < V ->
       file_at gs (go_ord0 go) (cell_pos S T s t v) = Some g ->
       apply_aff (go_T go) idx' = Some (cell_idx (length (grid_shape r c S T V)) i j s t v) ->
       forall q, q < 3 ->
         (vget (world (go_aff go) idx') q + sg q * (slice_dev P s * vget d q) == vget (ras (pixel_pos g i j)) q)%Q) /\
    (forall s, (slice_dev P s == gap_excess P s)%Q).
Proof.
  intros gs st code embed st' go d Hr Hok Hp Hl H S T V r c HS HT HV Hsh P.
  pose proof (reachable_wf st Hr) as Hwf.
  destruct (sources_dev gs st code embed st' go d Hwf (reachable_clean_sorted st Hr) Hok Hp Hl H S T V r c HS HT HV Hsh)
    as (HPl & HPs & Hsi & Hdev).
  split; [exact HPl|]. split; [exact HPs|]. split; [|split].
  - intros s t v g Hs Ht Hv Hg. rewrite (Hsi _ _ Hg), cell_pos_mod by exact Hs. reflexivity.
  - intros s t v i j g idx' Hs Ht Hv Hg Ha q Hq.
    pose proof (conv_geometry_dev gs st code embed st' go Hwf Hok H S T V r c HS HT HV Hsh _ Hdev
                  s t v i j g idx' Hs Ht Hv Hg Ha q Hq) as G.
    cbv beta in G. rewrite cell_pos_mod in G by exact Hs. exact G.
  - intros s. apply slice_dev_sum.
Qed.

Lemma geometry_bound_reachable : forall gs st code embed st' go,
  reachable st -> conv_geom gs st code embed = (st', Ok go) ->
  let P := ssort qc_leb (pos_vals st) in
  (forall s, s < length P -> (Qabs (slice_dev P s) <= NQ s * gap_bound (gap_at P 0))%Q) /\
  (forall g0, (gap_bound g0 == (1 # 12) * g0 + (25 # 12) * np_atol)%Q).
Proof.
  intros gs st code embed st' go Hr H P.
  destruct (conv_geom_ok _ _ _ _ _ _ H) as (st1 & st2 & sh & i0 & col & Hd & _).
  split; [exact (slice_dev_bound st st1 _ sh (reachable_wf st Hr) Hd) | exact gap_bound_val].
Qed.

Lemma values_rescaled_reachable : forall gs st code embed st' go (rs : gfile -> rescale),
  reachable st -> gfiles_ok gs st ->
  conv_geom gs st code embed = (st', Ok go) ->
  (forall g, In g (go_files go) -> rescaled_ok g (rs g) = true) ->
  exists S T V r c,
    0 < S /\ 0 < T /\ 0 < V /\ o_shape (go_nifti go) = grid_shape r c S T V /\
    forall s t v i j, s < S -> t < T -> v < V -> i < r -> j < c ->
      exists g x z idx',
        file_at gs (go_ord0 go) (cell_pos S T s t v) = Some g /\ stored_at (rs g) i j = Some x /\
        in_bounds (ashape (go_data go)) idx' = true /\
        apply_aff (go_T go) idx' = Some (cell_idx (length (grid_shape r c S T V)) i j s t v) /\
        aget (go_data go) idx' = Some z /\ (inject_Z z == rescaled_val (rs g) x)%Q.
Proof. intros gs st code embed st' go rs Hr. exact (conv_values_rescaled gs st code embed st' go rs (reachable_wf st Hr)). Qed.

Lemma invariance_reachable : forall gs st c1 c2 e1 e2 s1 s2 o1 o2,
  reachable st ->
  conv_geom gs st c1 e1 = (s1, Ok o1) -> conv_geom gs st c2 e2 = (s2, Ok o2) ->
  go_data0 o1 = go_data0 o2 /\ go_aff0 o1 = go_aff0 o2 /\ go_ord0 o1 = go_ord0 o2 /\
  Permutation (adata (go_data o1)) (adata (go_data o2)) /\ go_dtype o1 = go_dtype o2 /\
  mat_eq (go_aff o1) (mmul (go_aff0 o1) (go_T o1)) /\ mat_eq (go_aff o2) (mmul (go_aff0 o2) (go_T o2)) /\
  (forall idx1 idx2 idx,
     in_bounds (ashape (go_data o1)) idx1 = true -> in_bounds (ashape (go_data o2)) idx2 = true ->
     apply_aff (go_T o1) idx1 = Some idx -> apply_aff (go_T o2) idx2 = Some idx ->
     aget (go_data o1) idx1 = aget (go_data o2) idx2 /\ veq3 (world (go_aff o1) idx1) (world (go_aff o2) idx2)) /\
  (forall idx1, in_bounds (ashape (go_data o1)) idx1 = true ->
     exists idx2 idx, in_bounds (ashape (go_data o2)) idx2 = true /\
       apply_aff (go_T o1) idx1 = Some idx /\ apply_aff (go_T o2) idx2 = Some idx /\
       forall idx2', in_bounds (ashape (go_data o2)) idx2' = true -> apply_aff (go_T o2) idx2' = Some idx -> idx2' = idx2).
Proof. intros gs st c1 c2 e1 e2 s1 s2 o1 o2 Hr. exact (conv_invariance gs st c1 c2 e1 e2 s1 s2 o1 o2 (reachable_wf st Hr)). Qed.

Lemma dtype_reachable : forall gs st code embed st' go,
  reachable st -> conv_geom gs st code embed = (st', Ok go) ->
  length (go_files go) = length (go_ord0 go) /\
  (forall k, k < length (go_ord0 go) -> nth_error (go_files go) k = file_at gs (go_ord0 go) k) /\
  exists dl,
    map (fun g => dt_of_name (g_dtype g)) (go_files go) = map Some dl /\ dl <> [] /\
    let j := result_type dl in
    let bits := fold_left Nat.max (map bits_stored_of (go_files go)) 0 in
    go_dtype go = (if dt_eqb j DUint16 && (bits <? 16) then dt_name DInt16 else dt_name j) /\
    (forall d, In d dl -> promote d j = j) /\
    (forall g, In g (go_files go) -> bits_stored_of g <= bits).
Proof. intros gs st code embed st' go Hr. exact (conv_dtype gs st code embed st' go (reachable_wf st Hr)). Qed.

Lemma result_type_facts :
  (forall l l', (forall d, In d l <-> In d l') -> result_type l = result_type l') /\
  (forall l d, In d l -> promote d (result_type l) = result_type l) /\
  (forall a b, promote a b = promote b a) /\ (forall a, promote a a = a).
Proof.
  split; [exact result_type_set|]. split; [exact result_type_upper|].
  destruct promote_laws as (H1 & H2 & _). split; assumption.
Qed.
