(** C06 for extensions PRODUCED BY CONVERSION: the extension embedded by [DicomStack.to_nifti] has every key at the
    canonical (simplest) class of what it denotes -- before the rewrite of shape / slice_dim / affine, after it,
    and after [filter_meta].

    - per-file extensions are canonical (every key a global constant);
    - each of the three nest levels is a [from_sequence] of >= 2 valid nondegenerate inputs along the slice, time
      or vector axis, so [merge_canonical_axis] (Ext/ProofsCanonMerge.v) applies; canonical => nondegenerate
      feeds the next level;
    - the rewrite keeps the entries, [dims] (the number of slices S is invariant under the axis permutation) and
      the set of admitted classes, hence denotation and canonicity;
    - [filter_meta] only deletes keys.
    "Canonical" is [canonical_mod_none]: keys that are None in every file may be present as the constant None. *)
From Coq Require Import List Bool Arith NArith ZArith QArith Lia Permutation.
From DV Require Import Common.Res Common.Str Ext.Types Ext.Classes Ext.Seq Ext.Model Ext.Spec Ext.TableFacts
     Ext.ValidFacts Ext.ProofsValidBase Ext.ProofsSimplifyLayout Ext.ProofsSimplifyCanon Ext.ProofsCanonSubset
     Ext.ProofsMergeSeq Ext.ProofsMergeDen Ext.ProofsMergeFrame Ext.ProofsMerge Ext.ProofsCanonMerge
     Conv.Meta Conv.ProofsMetaBase Conv.ProofsMetaNest Conv.ProofsMetaEmbed Conv.ProofsMetaStack Conv.ProofsMetaTop.
From DV Require Stack.Model Stack.Spec Stack.ProofsShape Stack.ProofsInv.
Import ListNotations.
Local Open Scope nat_scope.

Lemma cidx_mult1 d c p : in_dims d p -> mult_spec d c = 1 -> cidx d c p = 0.
Proof.
  destruct d as [[nS nT] nV], p as [[s t] v]. cbn [in_dims]. intros (Hs & Ht & Hv).
  destruct c; cbn [mult_spec cidx]; intros H; try reflexivity;
    repeat match goal with E : _ * _ = 1 |- _ => apply Nat.eq_mul_1 in E; destruct E end; subst; lia.
Qed.

Lemma canon_class_cong {V} sh sh' d (f : pos -> V) c :
  (forall x, class_ok sh x = class_ok sh' x) -> canon_class sh d f c -> canon_class sh' d f c.
Proof.
  intros E [H1 [H2 H3]]. split; [rewrite <- E; exact H1|]. split; [exact H2|].
  intros c' Hc'. apply H3. rewrite E. exact Hc'.
Qed.

Lemma grid_form r c S T Vn :
  exists tl, grid_shape r c S T Vn = r :: c :: S :: tl /\ (1 <= T -> 1 <= Vn -> Forall (fun n => 1 <= n) tl) /\
             nth 3 (grid_shape r c S T Vn) 1 = T /\ nth 4 (grid_shape r c S T Vn) 1 = Vn.
Proof.
  unfold grid_shape. destruct (Nat.eqb_spec Vn 1) as [EV|NV]; [destruct (Nat.eqb_spec T 1) as [ET|NT]|];
    eexists; (split; [reflexivity|]); (split; [intros; repeat (apply Forall_cons; [lia|]); apply Forall_nil|]); cbn [nth]; lia.
Qed.

Section WithV.
  Context {V : Type} (veqb : V -> V -> bool) (vnone : V).
  Hypothesis veqb_spec : forall a b, reflect (a = b) (veqb a b).

  Notation ext := (ext V).
  Notation mfile := (mfile V).
  Notation den := (den vnone).
  Notation rep := (rep vnone).
  Notation lookup := (meta_lookup vnone).
  Notation canonical_mod_none := (canonical_mod_none vnone).

  (* ---------------------------------------------------------------------------------------- *)
  (** * Generic facts *)

  (** a key in a varying class of multiplicity 1 could be a constant: canonical extensions are nondegenerate *)
  Lemma canonical_nondegenerate (e : ext) : canonical_mod_none e -> nondegenerate e.
  Proof.
    intros [Hv Hc] k c vs Hin Hne Hm. pose proof Hv as [Hw _].
    destruct (Hc k c vs Hin) as [_ [Hr Hmin]].
    assert (H0 : representable (dims (hdr_of e)) GConst (den e k)).
    { intros p q Hp Hq _. apply Hr; try assumption. rewrite !cidx_mult1 by assumption. reflexivity. }
    specialize (Hmin GConst (class_ok_gconst _ Hw) H0). cbn [pref_rank] in Hmin.
    apply Hne. apply pref_rank_inj. cbn [pref_rank]. lia.
  Qed.

  (** a per-file extension (everything a global constant) is canonical *)
  Lemma file_canonical (f : mfile) : mfile_ok f -> canonical_mod_none (file_ext' f).
  Proof.
    intros Hok. pose proof (file_valid f Hok) as Hv. split; [exact Hv|].
    intros k c vs Hin. pose proof Hv as [Hw _].
    assert (Ec : c = GConst).
    { unfold file_ext', file_entries in Hin. cbn [entries] in Hin. apply in_map_iff in Hin as [[k' v] [E _]].
      injection E as _ <- _. reflexivity. }
    subst c. split; [apply class_ok_gconst; exact Hw|]. split.
    - intros p q _ _ _. rewrite !(file_den vnone). reflexivity.
    - intros c' _ _. cbn [pref_rank]. lia.
  Qed.

  (** the rewrite of shape / slice_dim / affine: same entries under a header with the same admitted classes and
      the same (S, T, V) *)
  Lemma rewrite_canonical (m : ext) (h1 : hdr) :
    canonical_mod_none m -> hdr_wf h1 ->
    (forall c, class_ok (shape h1) c = class_ok (shape (hdr_of m)) c) ->
    dims h1 = dims (hdr_of m) -> sdim h1 <> None ->
    canonical_mod_none (mk_ext h1 (entries m)) /\
    forall k p, den (mk_ext h1 (entries m)) k p = den m k p.
  Proof.
    intros [[Hw [Hnd Hent]] Hc] Hw1 Hcls Hdm Hsd.
    assert (Hden : forall k p, den (mk_ext h1 (entries m)) k p = den m k p).
    { intros k p. unfold Spec.den, lookup_e. cbn [hdr_of entries].
      destruct (assoc k (entries m)) as [[c0 vs]|]; [|reflexivity]. rewrite Hcls, Hdm. reflexivity. }
    split; [|exact Hden]. split.
    - split; [exact Hw1|]. split; [exact Hnd|]. intros k c vs Hin. cbn [hdr_of entries] in *.
      destruct (Hent k c vs Hin) as [A [_ C]]. split; [rewrite Hcls; exact A|]. split; [intros _; exact Hsd|].
      rewrite Hdm. exact C.
    - intros k c vs Hin. cbn [hdr_of entries] in *.
      apply (canon_class_cong (shape (hdr_of m))); [intros x; symmetry; apply Hcls|]. rewrite Hdm.
      eapply canon_class_ext; [|apply (Hc k c vs Hin)]. intros p _. symmetry. apply Hden.
  Qed.

  (** [filter_meta] only deletes keys *)
  Lemma filter_canonical (filt : key -> bool) (e e' : ext) :
    canonical_mod_none e -> filter_meta filt e = Ok e' ->
    canonical_mod_none e' /\ hdr_of e' = hdr_of e /\
    (forall k, lookup_e e' k = if filt k then None else lookup_e e k).
  Proof.
    intros [Hv Hc] Hf.
    destruct (filter_meta_exact filt e Hv) as [e2 [E2 [Hh [Hv2 Hlk]]]].
    rewrite Hf in E2. injection E2 as <-.
    split; [|split; assumption]. split; [exact Hv2|].
    intros k c vs Hin. pose proof Hv2 as [_ [Hnd2 _]].
    pose proof (In_lookup e' k (c, vs) Hnd2 Hin) as El. rewrite Hlk in El.
    destruct (filt k) eqn:Ek; [discriminate|].
    pose proof (lookup_In e k (c, vs) El) as Hin0.
    rewrite Hh. eapply canon_class_ext; [|apply (Hc k c vs Hin0)].
    intros p _. unfold Spec.den. rewrite Hlk, Ek, Hh. reflexivity.
  Qed.

  (* ---------------------------------------------------------------------------------------- *)
  (** * The nest, with canonicity carried along *)

  Definition crep (e : ext) (sh : list nat) (a : list (list Q)) (src : pos -> key -> V) : Prop :=
    rep e sh a src /\ canonical_mod_none e.

  Lemma crep_ext (e : ext) sh a src src' :
    crep e sh a src -> (forall p k, in_dims (dims (hdr_of e)) p -> src p k = src' p k) -> crep e sh a src'.
  Proof. intros [R C] H. split; [eapply rep_ext; eauto | exact C]. Qed.

  (** one level: [stack_level] + [merge_canonical_axis] *)
  Lemma stack_level_c (es : list ext) (edflt : ext) (N : nat) sh0 dim ax sh'
        (afn : nat -> list (list Q)) (src : nat -> pos -> key -> V) :
    length es = N -> 2 <= N -> level sh0 dim ax N sh' ->
    (forall j, j < N -> crep (nth j es edflt) sh0 (afn j) (src j)) ->
    (forall j, j < N -> normals_close (afn 0) (afn j)) ->
    exists r, from_sequence veqb vnone es dim None None = Ok r /\
              crep r sh' (afn 0) (fun p k => src (coord ax p) (set_coord ax p 0) k).
  Proof.
    intros Hlen HN Hlv Hrep Hclose.
    destruct (stack_level veqb vnone veqb_spec es edflt N sh0 dim ax sh' afn src Hlen HN Hlv
                (fun j Hj => proj1 (Hrep j Hj)) Hclose) as [r [Er Rr]].
    exists r. split; [exact Er|]. split; [exact Rr|].
    destruct es as [|e0 rest]; [cbn in Hlen; lia|].
    pose proof (Hrep 0 ltac:(lia)) as [R0 _]. cbn [nth] in R0.
    apply (merge_canonical_axis veqb vnone veqb_spec (e0 :: rest) e0 rest dim None None ax r eq_refl).
    - cbn [length] in Hlen. lia.
    - intros x Hx. destruct (In_nth _ _ edflt Hx) as [j [Hj Ej]]. rewrite Hlen in Hj.
      destruct (Hrep j Hj) as [Rj Cj]. rewrite Ej in Rj, Cj.
      split; [exact (rep_valid _ _ _ _ _ Rj)|]. split; [apply canonical_nondegenerate; exact Cj|].
      split; [rewrite (rep_shape _ _ _ _ _ Rj), (rep_shape _ _ _ _ _ R0); reflexivity|].
      cbn [sdim_res]. rewrite (rep_sdim _ _ _ _ _ Rj), (rep_sdim _ _ _ _ _ R0). reflexivity.
    - cbn [sdim_res]. rewrite (rep_sdim _ _ _ _ _ R0). destruct Hlv; reflexivity.
    - intros _. cbn [sdim_res]. rewrite (rep_sdim _ _ _ _ _ R0). discriminate.
    - exact Er.
  Qed.

  Section Grid.
    Variables (fs : list mfile) (r c S T Vn : nat).
    Hypothesis Hfs : forall f, In f fs ->
      mfile_ok f /\ Stack.Model.f_rows (m_file f) = r /\ Stack.Model.f_cols (m_file f) = c.
    Hypothesis Hlen : length fs = S * T * Vn.
    Hypothesis HS : 1 <= S.
    Hypothesis HT : 1 <= T.
    Hypothesis HV : 1 <= Vn.
    Hypothesis Hclose : forall f g, In f fs -> In g fs -> normals_close (m_aff f) (m_aff g).

    Notation fat := (fat fs).
    Notation exts := (exts fs).
    Notation edflt := (@edflt V).
    Notation vol_src := (vol_src vnone fs S).
    Notation grid_src := (grid_src vnone fs S T).

    Lemma crep_exts i : i < S * T * Vn ->
      crep (nth i exts edflt) [r; c; 1] (m_aff (fat i)) (fun _ k => lookup (fat i) k).
    Proof.
      intros Hi. split; [apply (rep_exts vnone fs r c S T Vn Hfs Hlen i Hi)|].
      rewrite (exts_nth fs S T Vn i Hi). apply file_canonical. apply Hfs. apply (fat_in fs S T Vn Hlen i Hi).
    Qed.

    Lemma exts_canonical x : In x exts -> canonical_mod_none x.
    Proof.
      intros Hx. unfold ProofsMetaNest.exts in Hx. apply in_map_iff in Hx as [f [<- Hf]]. apply file_canonical, Hfs, Hf.
    Qed.

    Lemma volumes_c :
      exists vols,
        (if 1 <? S
         then mapM (fun i => from_sequence veqb vnone (py_slice (i * S) (i * S + S) exts) 2 None None) (seq 0 (T * Vn))
         else Ok exts) = Ok vols /\
        length vols = T * Vn /\
        forall j, j < T * Vn -> crep (nth j vols edflt) [r; c; S] (m_aff (fat (j * S))) (vol_src j).
    Proof.
      pose proof (exts_length fs S T Vn Hlen) as Hel.
      destruct (Nat.ltb_spec 1 S) as [H1|H1].
      - destruct (mapM_seq_family
                    (fun i => from_sequence veqb vnone (py_slice (i * S) (i * S + S) exts) 2 None None)
                    (fun j y => crep y [r; c; S] (m_aff (fat (j * S))) (vol_src j)) (T * Vn)) as [vols [E [Hl Hp]]].
        + intros j Hj.
          assert (Hb : j * S + S <= length exts) by (rewrite Hel; nia).
          destruct (stack_level_c (py_slice (j * S) (j * S + S) exts) edflt S [r; c; 1] 2 AxS [r; c; S]
                      (fun i => m_aff (fat (j * S + i))) (fun i _ k => lookup (fat (j * S + i)) k)) as [y [Ey Ry]].
          * apply py_slice_length. exact Hb.
          * lia.
          * constructor.
          * intros i Hi. rewrite (py_slice_nth (j * S) S exts i edflt Hi). apply crep_exts. nia.
          * intros i Hi. apply (close_fat fs S T Vn Hlen Hclose); nia.
          * exists y. split; [exact Ey|]. rewrite Nat.add_0_r in Ry. exact Ry.
        + exists vols. split; [exact E|]. split; [exact Hl|]. intros j Hj. apply Hp. exact Hj.
      - assert (ES : S = 1) by lia. exists exts. split; [reflexivity|]. split; [rewrite Hel, ES; lia|].
        intros j Hj. assert (Hj' : j < S * T * Vn) by (rewrite ES; lia).
        replace (j * S) with j by (rewrite ES; lia). rewrite ES.
        apply (crep_ext _ _ _ (fun _ k => lookup (fat j) k)); [apply crep_exts; exact Hj'|].
        intros p k Hp. unfold ProofsMetaNest.vol_src.
        rewrite (rep_dims _ _ _ _ _ (proj1 (crep_exts j Hj'))) in Hp.
        destruct p as [[s t] v]. cbn [nth in_dims coord] in *. replace (j * 1 + s) with j by lia. reflexivity.
    Qed.

    (** the nested extension (BEFORE the rewrite of shape / slice_dim / affine) is canonical *)
    Theorem nest_crep (dsh : list nat) (sd d0 d1 d2 : nat) :
      dsh = [d0; d1; d2] ++ skipn 3 (grid_shape r c S T Vn) -> sd < 3 -> nth sd [d0; d1; d2] 0 = S ->
      exists m, nest veqb vnone exts dsh sd = Ok m /\
                crep m (grid_shape r c S T Vn) (m_aff (fat 0)) grid_src.
    Proof.
      intros Hd Hsd HnS. rewrite nest_unfold.
      assert (Hns : nth sd dsh 0 = S).
      { rewrite Hd. destruct sd as [|[|[|sd]]]; try lia; exact HnS. }
      assert (Hnv : n_vols dsh = T * Vn).
      { unfold n_vols. rewrite Hd. cbn [app nth]. unfold grid_shape.
        destruct (Nat.eqb_spec Vn 1); [destruct (Nat.eqb_spec T 1)|]; subst; cbn [skipn nth]; lia. }
      rewrite Hns, Hnv. unfold nest_core.
      destruct (Nat.eqb_spec (T * Vn) 0) as [E0|_]; [nia|].
      rewrite (exts_length fs S T Vn Hlen), (div_grid S T Vn HT HV).
      destruct volumes_c as [vols [Ev [Hvl Hvr]]]. rewrite Ev. cbn [bind].
      pose proof (close_fat fs S T Vn Hlen Hclose) as Hcf.
      unfold grid_shape in *. destruct (Nat.eqb_spec Vn 1) as [EV|NV]; [destruct (Nat.eqb_spec T 1) as [ET|NT]|].
      - (* 3-D *)
        rewrite Hd. cbn [skipn app length].
        destruct vols as [|m vols']; [cbn in Hvl; rewrite EV, ET in Hvl; lia|]. exists m. split; [reflexivity|].
        pose proof (Hvr 0 ltac:(rewrite EV, ET; lia)) as R0. cbn [nth] in R0.
        apply (crep_ext _ _ _ _ _ R0). intros p k Hp. rewrite (rep_dims _ _ _ _ _ (proj1 R0)) in Hp.
        destruct p as [[s t] v]. cbn [nth in_dims] in Hp. unfold ProofsMetaNest.vol_src, ProofsMetaNest.grid_src, idx. cbn [coord].
        assert (Et : t = 0) by lia. assert (Ev0 : v = 0) by lia.
        replace (0 * S + s) with (s + S * (t + T * v)); [reflexivity|]. rewrite Et, Ev0. lia.
      - (* 4-D *)
        rewrite Hd. cbn [skipn app length].
        destruct (stack_level_c vols edflt T [r; c; S] 3 AxT [r; c; S; T]
                    (fun j => m_aff (fat (j * S))) vol_src) as [m [Em Rm]].
        + rewrite Hvl, EV. lia.
        + lia.
        + constructor.
        + intros j Hj. apply Hvr. rewrite EV. lia.
        + intros j Hj. apply Hcf; rewrite EV; nia.
        + exists m. split; [exact Em|]. apply (crep_ext _ _ _ _ _ Rm). intros p k Hp.
          rewrite (rep_dims _ _ _ _ _ (proj1 Rm)) in Hp. destruct p as [[s t] v]. cbn [nth in_dims] in Hp.
          unfold ProofsMetaNest.vol_src, ProofsMetaNest.grid_src, idx. cbn [coord set_coord].
          assert (Ev0 : v = 0) by lia.
          replace (t * S + s) with (s + S * (t + T * v)); [reflexivity|]. rewrite Ev0. nia.
      - (* 5-D *)
        rewrite Hd. cbn [skipn app length nth].
        destruct (Nat.eqb_spec T 1) as [ET|NT]; cbn [negb].
        + cbn [bind].
          destruct (stack_level_c vols edflt Vn [r; c; S] 4 AxV [r; c; S; 1; Vn]
                      (fun j => m_aff (fat (j * S))) vol_src) as [m [Em Rm]].
          * rewrite Hvl, ET. lia.
          * lia.
          * constructor.
          * intros j Hj. apply Hvr. rewrite ET. lia.
          * intros j Hj. apply Hcf; rewrite ET; nia.
          * exists m. split; [exact Em|]. rewrite ET at 1. apply (crep_ext _ _ _ _ _ Rm). intros p k Hp.
            rewrite (rep_dims _ _ _ _ _ (proj1 Rm)) in Hp. destruct p as [[s t] v]. cbn [nth in_dims] in Hp.
            unfold ProofsMetaNest.vol_src, ProofsMetaNest.grid_src, idx. cbn [coord set_coord].
            assert (Et : t = 0) by lia.
            replace (v * S + s) with (s + S * (t + T * v)); [reflexivity|]. rewrite Et, ET. lia.
        + destruct (mapM_seq_family
                      (fun v => from_sequence veqb vnone (py_slice (v * T) (v * T + T) vols) 3 None None)
                      (fun v y => crep y [r; c; S; T] (m_aff (fat (v * T * S)))
                                       (fun p k => vol_src (v * T + coord AxT p) (set_coord AxT p 0) k)) Vn)
            as [vecs [Evec [Hcl Hcr]]].
          { intros v Hv.
            assert (Hb : v * T + T <= length vols) by (rewrite Hvl; nia).
            destruct (stack_level_c (py_slice (v * T) (v * T + T) vols) edflt T [r; c; S] 3 AxT [r; c; S; T]
                        (fun j => m_aff (fat ((v * T + j) * S))) (fun j => vol_src (v * T + j))) as [y [Ey Ry]].
            - apply py_slice_length. exact Hb.
            - lia.
            - constructor.
            - intros j Hj. rewrite (py_slice_nth (v * T) T vols j edflt Hj). apply Hvr. nia.
            - intros j Hj. apply Hcf; nia.
            - exists y. split; [exact Ey|]. rewrite Nat.add_0_r in Ry. exact Ry. }
          rewrite Evec. cbn [bind].
          destruct (stack_level_c vecs edflt Vn [r; c; S; T] 4 AxV [r; c; S; T; Vn]
                      (fun v => m_aff (fat (v * T * S)))
                      (fun v p k => vol_src (v * T + coord AxT p) (set_coord AxT p 0) k)) as [m [Em Rm]].
          * exact Hcl.
          * lia.
          * constructor. lia.
          * intros v Hv. apply Hcr. exact Hv.
          * intros v Hv. apply Hcf; nia.
          * exists m. split; [exact Em|]. apply (crep_ext _ _ _ _ _ Rm). intros p k Hp.
            rewrite (rep_dims _ _ _ _ _ (proj1 Rm)) in Hp. destruct p as [[s t] v]. cbn [nth in_dims] in Hp.
            unfold ProofsMetaNest.vol_src, ProofsMetaNest.grid_src, idx. cbn [coord set_coord].
            replace ((v * T + t) * S + s) with (s + S * (t + T * v)) by nia. reflexivity.
    Qed.

    (** ** the embed block: canonical before the rewrite, after it, and after the filter *)
    Variables (perm : list nat) (oaff : list (list Q)) (filt : key -> bool).
    Hypothesis Hperm : is_perm3 perm.
    Hypothesis Hoaff : aff_ok oaff.
    Hypothesis Hr : 1 <= r.
    Hypothesis Hc : 1 <= c.

    Theorem embed_canonical :
      let dsh := permute_shape perm (grid_shape r c S T Vn) in
      let sd := nth 2 perm 2 in
      exists m h1 e,
        mapM (file_ext (V := V)) fs = Ok exts /\ (forall x, In x exts -> canonical_mod_none x) /\
        nest veqb vnone exts dsh sd = Ok m /\ canonical_mod_none m /\
        rewrite_hdr (hdr_of m) dsh sd oaff = Ok h1 /\ canonical_mod_none (mk_ext h1 (entries m)) /\
        dims h1 = dims (hdr_of m) /\ (forall k p, den (mk_ext h1 (entries m)) k p = den m k p) /\
        filter_meta filt (mk_ext h1 (entries m)) = Ok e /\ canonical_mod_none e /\
        embed veqb vnone fs dsh sd oaff filt = Ok e.
    Proof.
      intros dsh sd.
      destruct (grid_form r c S T Vn) as [tl [Eg [Htl0 [Hn3 Hn4]]]]. pose proof (Htl0 HT HV) as Htl.
      destruct (perm_facts perm r c S tl Hperm) as [d0 [d1 [d2 [Ed [Hsd [HnS Hpos]]]]]].
      assert (Edsh : dsh = [d0; d1; d2] ++ tl) by (unfold dsh; rewrite Eg; exact Ed).
      assert (Etl : tl = skipn 3 (grid_shape r c S T Vn)) by (rewrite Eg; reflexivity).
      destruct (nest_crep dsh sd d0 d1 d2) as [m [Em [Rm Cm]]].
      { rewrite Edsh, Etl. reflexivity. }
      { exact Hsd. }
      { apply HnS. }
      destruct Rm as [Rv Rsh Rsd Raff Rden].
      set (gsh := grid_shape r c S T Vn) in *.
      assert (Hdm : dims (hdr_of m) = (S, T, Vn)).
      { unfold dims. rewrite Rsd, Rsh. rewrite Hn3, Hn4. rewrite Eg. reflexivity. }
      assert (Hlen_d : length dsh = length gsh) by (rewrite Edsh, Eg; reflexivity).
      assert (Hn3d : forall d, nth 3 dsh d = nth 3 gsh d) by (intros d; rewrite Edsh, Eg; reflexivity).
      assert (Hn4d : forall d, nth 4 dsh d = nth 4 gsh d) by (intros d; rewrite Edsh, Eg; reflexivity).
      assert (Hnsd : forall d, nth sd dsh d = S).
      { intros d. rewrite Edsh. specialize (HnS d). fold sd in HnS, Hsd.
        destruct sd as [|[|[|n]]]; try lia; exact HnS. }
      pose proof Rv as [Hwf [Hnd Hent]]. pose proof Hwf as [Hndim [Hpos_g [_ [_ Hbase]]]]. unfold ndim in Hndim. rewrite Rsh in *.
      set (h1 := mk_hdr dsh (Some sd) oaff (has_time (hdr_of m)) (has_vec (hdr_of m))).
      assert (Erw : rewrite_hdr (hdr_of m) dsh sd oaff = Ok h1).
      { unfold rewrite_hdr. rewrite Hlen_d.
        replace ((3 <=? length gsh) && (length gsh <? 6)) with true
          by (symmetry; apply andb_true_iff; split; [apply Nat.leb_le | apply Nat.ltb_lt]; lia).
        cbn [negb]. replace (sd <? 3) with true by (symmetry; apply Nat.ltb_lt; exact Hsd). cbn [negb].
        rewrite (aff_ok_is_4x4 _ Hoaff). reflexivity. }
      assert (Hcls : forall c0, class_ok dsh c0 = class_ok gsh c0) by (intros c0; apply class_ok_cong; [exact Hlen_d | apply Hn3d]).
      assert (Hdm1 : dims h1 = (S, T, Vn)).
      { unfold dims, h1. cbn [sdim shape]. rewrite Hnsd, Hn3d, Hn4d, Hn3, Hn4. reflexivity. }
      assert (Hw1 : hdr_wf h1).
      { unfold hdr_wf, h1, ndim. cbn [shape sdim aff has_time has_vec]. split; [rewrite Hlen_d; exact Hndim|].
        split.
        { rewrite Edsh. cbn [app]. destruct (Hpos Hr Hc HS) as [P0 [P1 P2]].
          repeat (apply Forall_cons; [assumption|]). exact Htl. }
        split; [intros d E; injection E as <-; exact Hsd|]. split; [exact Hoaff|].
        intros c0 Hc0. rewrite Hcls in Hc0. specialize (Hbase c0 Hc0). destruct (base_of c0); exact Hbase. }
      destruct (rewrite_canonical m h1 Cm Hw1) as [C1 Hden1].
      { intros c0. unfold h1. cbn [shape]. rewrite Hcls, Rsh. reflexivity. }
      { rewrite Hdm1, Hdm. reflexivity. }
      { unfold h1. cbn [sdim]. discriminate. }
      destruct (filter_meta_exact filt (mk_ext h1 (entries m)) (proj1 C1)) as [e [Ef _]].
      destruct (filter_canonical filt _ e C1 Ef) as [C2 _].
      exists m, h1, e.
      split; [apply (mapM_exts fs r c Hfs)|]. split; [exact exts_canonical|]. split; [exact Em|]. split; [exact Cm|].
      split; [exact Erw|]. split; [exact C1|]. split; [rewrite Hdm1, Hdm; reflexivity|]. split; [exact Hden1|].
      split; [exact Ef|]. split; [exact C2|].
      unfold embed. rewrite (mapM_exts fs r c Hfs). cbn [bind]. rewrite Em. cbn [bind]. rewrite Erw. cbn [bind]. exact Ef.
    Qed.
  End Grid.
End WithV.
