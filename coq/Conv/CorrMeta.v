(** Correspondence glue for the metadata half of the conversion (properties C01, C14): one conversion of a
    synthetic series with embedding, values instantiated with [jv] ([vnone := JNull]).

    A case carries the inputs (the accepted files in add order as the sorter sees them, the extension affine and
    the extracted dictionary of each file, the voxel-order abstraction, the axis permutation and affines that the
    geometry half computes, the filter) AND the implementation's observation (the embedded extension, the final
    file order, and for every source file its voxel index in the output array -- located by a unique pixel value
    -- with the value [get_meta] returned there for every key). *)
From Coq Require Import List Bool Arith NArith ZArith QArith.
From DV Require Import Common.Res Common.Str Common.Jv Ext.Types Ext.Classes Ext.Seq Ext.Model Ext.Corr
     Filter.Model Filter.Proofs Conv.Meta.
From DV Require Stack.Model.
Import ListNotations.
Local Open Scope nat_scope.

Record case := mk_case {
  c_ct : bool;                                   (* a time order is configured *)
  c_cv : bool;                                   (* a vector order is configured *)
  c_files : list (mfile jv);                     (* accepted files, in add order *)
  c_vo : Stack.Model.vorder;
  c_perm : list nat;                             (* permutation of the voxel reordering *)
  c_aff : list (list Q);                         (* header best affine = affine written into the extension *)
  c_iaff : list (list Q);                        (* affine of the image *)
  c_default : bool;                              (* the stack uses dcmstack.default_meta_filter *)
  c_filt : list (key * bool);                    (* otherwise: verdict of the real filter for every extracted key *)
  c_obs : res (ext jv);                          (* the embedded extension (error class when to_nifti raised) *)
  c_order : list nat;                            (* final file order (ids of _files_info after the call) *)
  c_look : list (nat * (list Z * list (key * res jv)))   (* file id |-> voxel index of its pixel (0,0), get_meta per key *)
}.

Definition filt_of (c : case) : key -> bool :=
  if c_default c then default_filter
  else fun k => match find (fun x => str_eqb (fst x) k) (c_filt c) with Some (_, b) => b | None => false end.

Definition run_stack (c : case) : res Stack.Model.state :=
  Stack.Model.add_all (Stack.Model.init (c_ct c) (c_cv c)) (map (@m_file jv) (c_files c)).

Definition run (c : case) : res (Stack.Model.state * res (ext jv)) :=
  match run_stack c with
  | Err e => Err e
  | Ok st => Ok (conv_meta jv_eqb JNull (c_files c) st (c_vo c) (c_perm c) (c_aff c) (filt_of c))
  end.

Fixpoint index_of (x : nat) (l : list nat) : option nat :=
  match l with
  | [] => None
  | y :: r => if x =? y then Some 0 else option_map S (index_of x r)
  end.

(** the voxel index observed for file [id] addresses the grid cell at which the file sits in the final order *)
Definition cell_ok (e : ext jv) (order : list nat) (id : nat) (ix : list Z) : bool :=
  let h := hdr_of e in
  let nS := match sdim h with Some d => nth d (shape h) 1 | None => 1 end in
  let nT := nth 3 (shape h) 1 in
  let n := map Z.to_nat ix in
  let s := match sdim h with Some d => nth d n 0 | None => 0 end in
  match index_of id order with
  | Some i => i =? s + nS * (nth 3 n 0 + nT * nth 4 n 0)
  | None => false
  end.

Definition look_ok (c : case) (e : ext jv) (order : list nat) (l : nat * (list Z * list (key * res jv))) : bool :=
  let '(id, (ix, kvs)) := l in
  let im := mk_img (shape (hdr_of e)) (sdim (hdr_of e)) (c_iaff c) in
  cell_ok e order id ix &&
  forallb (fun kv => res_eqb jv_eqb (get_meta im e (fst kv) (Some ix) JNull) (snd kv)) kvs.

Definition check (c : case) : bool :=
  match run c with
  | Err _ => false
  | Ok (st', r) =>
      res_eqb ext_eqb r (c_obs c)
      && list_nat_eqb (Stack.Model.ids (Stack.Model.files_info st')) (c_order c)
      && match r with
         | Ok e => forallb (look_ok c e (c_order c)) (c_look c)
         | Err _ => true
         end
  end.

(** for the replay file: the model's result *)
Definition show (c : case) := run c.

(** key-set part (C14): the same conversion, observation = key and classification of every entry *)
Definition keyset (e : ext jv) : list (key * cls) := map (fun kv => (fst kv, fst (snd kv))) (entries e).
