(** Executable model of the NIfTI header fields set by [DicomStack.to_nifti] (dcmstack.py 898-949):
    xyzt units, pixdim[4] (repetition time), dim_info (freq / phase / slice axes), and the ARGUMENT
    handed to [Nifti1Header.set_slice_times] (nibabel's encoding of that list into slice_duration /
    slice_code / slice_start / slice_end, and the [HeaderDataError] it may raise - which the code
    swallows - are NOT modelled).

    The header is a function of the geometric result [Conv.Geom.geom_out]: the permutation of the
    reorientation, the file order AFTER the in-place per-volume reversal ([o_order]), the repetition-time
    and phase-direction sets kept by the sorter ([o_tr], [o_phase]) and the AcquisitionTime strings.
    Float arithmetic: [slice_times -= np.min(slice_times)] is [Common.F64.fsub] (round to nearest). *)
From Coq Require Import List Bool Arith ZArith NArith QArith Qcanon Lia.
From DV Require Import Common.Res Common.Str Common.F64 Common.PyNum Generated.T_conv Stack.Model Orient.Model Time.Model Conv.Geom.
Import ListNotations.
Local Open Scope nat_scope.

Record hdr_out := mkhdr {
  h_slice_dim : nat;                                    (* slice_dim after "Update the slice dim" *)
  h_units : str * str;                                  (* set_xyzt_units('mm', 'msec') *)
  h_pixdim4 : option Q;                                 (* Some tr: [pixdim[4] = tr] executed; None: left alone *)
  h_dim_info : option nat * option nat * option nat;    (* set_dim_info(freq, phase, slice) *)
  h_n_slices : nat;                                     (* data.shape[slice_dim] *)
  h_slice_times : option (list Q)                       (* Some l: set_slice_times(l) called; None: not called *)
}.


(** [dcm_time_to_sec(file_info[0]['AcquisitionTime'])]: [NiftiWrapper.__getitem__] raises KeyError when
    the key is absent; non-finite results (strings such as "1234inf") are outside the model *)
Definition acq_seconds (gs : list gfile) (id : nat) : res Q :=
  match glookup gs id with
  | None => Err ECrash
  | Some g =>
      match g_acq_time g with
      | None => Err EKey
      | Some s =>
          match dcm_time_to_sec s with
          | Ok (FFin q) => Ok q
          | Ok _ => Err ECrash
          | Err e => Err e
          end
      end
  end.

(** [np.min] *)
Definition qmin (l : list Q) : Q :=
  match l with
  | [] => 0%Q
  | x :: r => fold_left (fun m y => if Qle_bool m y then m else y) r x
  end.

(** [t = np.array([dcm_time_to_sec(...) for file_info in files]); t -= np.min(t)] *)
Definition rel_times (gs : list gfile) (ids : list nat) : res (list Q) :=
  match mapM (acq_seconds gs) ids with
  | Err e => Err e
  | Ok ts => Ok (map (fun x => fsub x (qmin ts)) ts)
  end.

(** [self._files_info[k * n : k * n + n]] *)
Definition chunk_at (n k : nat) (l : list nat) : list nat := firstn n (skipn (k * n) l).

(** the loop over the other volumes: stops ([break]) at the first volume whose relative times are not
    [np.allclose] to those of the first one *)
Fixpoint consistent_with (gs : list gfile) (rel0 : list Q) (chunks : list (list nat)) : res bool :=
  match chunks with
  | [] => Ok true
  | c :: r =>
      match rel_times gs c with
      | Err e => Err e
      | Ok rv => if close_list np_rtol np_atol rel0 rv then consistent_with gs rel0 r else Ok false
      end
  end.

(** [np.allclose(slice_times, 0.0)] *)
Definition all_zero (l : list Q) : bool := forallb (fun x => close1 np_rtol np_atol x 0%Q) l.

(** [all(file_info[0].get_meta('AcquisitionTime') != None for file_info in self._files_info)]
    (fix 75eb235: every file, not only the first) *)
Definition has_acq (gs : list gfile) (id : nat) : bool :=
  match glookup gs id with
  | Some g => is_some (g_acq_time g)
  | None => false
  end.

(** lines 918-950; [fin] = file ids after the reversal, [nv] = number of volumes, [n_slices] *)
Definition slice_times_arg (gs : list gfile) (fin : list nat) (nv n_slices : nat) : res (option (list Q)) :=
  let fpv := length fin / nv in
  if (1 <? fpv) && forallb (has_acq gs) fin then
    match rel_times gs (firstn n_slices fin) with
    | Err e => Err e
    | Ok rel0 =>
        match consistent_with gs rel0 (map (fun k => chunk_at n_slices k fin) (seq 1 (nv - 1))) with
        | Err e => Err e
        | Ok ok => Ok (if ok && negb (all_zero rel0) then Some rel0 else None)
        end
    end
  else Ok None.

Definition header_of (gs : list gfile) (go : geom_out) : res hdr_out :=
  let n := go_nifti go in
  let perm := go_perm go in
  let slice_dim := nth 2 perm 0 in
  let fp := match o_phase n with
            | None => (None, None)
            | Some true => (Some (nth 0 perm 0), Some (nth 1 perm 0))       (* 'ROW': freq = perm[0], phase = perm[1] *)
            | Some false => (Some (nth 1 perm 0), Some (nth 0 perm 0))
            end in
  let n_slices := nth slice_dim (ashape (go_data go)) 0 in
  let nv := nvols_of_shape (ashape (go_data0 go)) in
  match slice_times_arg gs (o_order n) nv n_slices with
  | Err e => Err e
  | Ok stimes =>
      Ok (mkhdr slice_dim xyzt_units (option_map (fun t : Qc => this t) (o_tr n))
                (fst fp, snd fp, Some slice_dim) n_slices stimes)
  end.

(** * The whole conversion without the meta-data extension *)
Definition conv (gs : list gfile) (st : state) (code : str) (embed : bool) : state * res (geom_out * hdr_out) :=
  let '(st3, r) := conv_geom gs st code embed in
  (st3, match r with
        | Err e => Err e
        | Ok go => match header_of gs go with Err e => Err e | Ok h => Ok (go, h) end
        end).
