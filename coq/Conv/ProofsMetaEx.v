(** C01 / C14: boolean checkers for the hypotheses, the non-vacuity example (2 slices x 2 times x 2 vector
    components, slice axis flipped and moved to output axis 0, with a per-slice, a per-volume, a per-vector and a
    constant key), and the witness refuting losslessness without the slice-normal hypothesis (finding N9). *)
From Coq Require Import List Bool Arith NArith ZArith QArith Qcanon Lia.
From DV Require Import Common.Res Common.Str Common.Jv Ext.Types Ext.Classes Ext.Seq Ext.Model Ext.Spec
     Ext.ValidFacts Ext.LookupSpec Filter.Model Filter.Proofs
     Conv.Meta Conv.ProofsMetaBase Conv.ProofsMetaNest Conv.ProofsMetaEmbed Conv.ProofsMetaStack Conv.ProofsMetaTop.
From DV Require Stack.Model Stack.ProofsShape Stack.ProofsInv.
Import ListNotations.
Local Open Scope nat_scope.

Lemma rmap_ok {A B} (f : A -> B) (r : res A) a b : r = Ok a -> rmap f r = Ok b -> f a = b.
Proof. intros -> H. cbn [rmap] in H. injection H as H. exact H. Qed.

(** * Boolean checkers *)
Section WithV.
  Context {V : Type}.
  Definition mfile_okb (m : mfile V) : bool :=
    (1 <=? SM.f_rows (m_file m)) && (1 <=? SM.f_cols (m_file m)) && is_4x4 (m_aff m) && nodup_keys (map fst (m_meta m)).
  Definition normals_okb (ms : list (mfile V)) : bool :=
    forallb (fun m => forallb (fun m' => allclose rtol_default atol_default (normal2 (m_aff m)) (normal2 (m_aff m'))) ms) ms.

  Lemma is_4x4_aff_ok a : is_4x4 a = true -> aff_ok a.
  Proof.
    unfold is_4x4. intros H. apply andb_true_iff in H as [H1 H2]. apply Nat.eqb_eq in H1. split; [exact H1|].
    apply Forall_forall. intros r Hr. rewrite forallb_forall in H2. apply Nat.eqb_eq. apply H2. exact Hr.
  Qed.

  Lemma metas_okb ms : forallb mfile_okb ms = true -> metas_ok ms.
  Proof.
    intros H m Hm. rewrite forallb_forall in H. specialize (H m Hm). unfold mfile_okb in H.
    repeat (apply andb_true_iff in H as [H ?]). apply Nat.leb_le in H. apply Nat.leb_le in H2.
    split; [exact H|]. split; [assumption|]. split; [apply is_4x4_aff_ok; assumption | apply nodup_keys_NoDup; assumption].
  Qed.

  Lemma normals_okb_ok ms : normals_okb ms = true -> normals_ok ms.
  Proof.
    unfold normals_okb. intros H m m' Hm Hm'. rewrite forallb_forall in H. specialize (H m Hm).
    rewrite forallb_forall in H. apply (H m' Hm').
  Qed.

  (** [covers] from: the stack's files are among the listed ones and the listed ids are distinct *)
  Lemma covers_of_incl (ms : list (mfile V)) st :
    NoDup (map (fun m => SM.f_id (m_file m)) ms) ->
    (forall f, In f (SP.files st) -> In f (map (@m_file V) ms)) -> covers ms st.
  Proof.
    intros Hnd Hin f Hf. specialize (Hin f Hf). apply in_map_iff in Hin as [m [Em Hm]]. exists m. split; [|exact Em].
    unfold find_mfile. subst f. clear Hf.
    induction ms as [|m0 ms IH]; [destruct Hm|]. cbn [find]. inversion Hnd as [|? ? Hn Hr]; subst.
    destruct Hm as [->|Hm]; [rewrite Nat.eqb_refl; reflexivity|].
    destruct (Nat.eqb_spec (SM.f_id (m_file m0)) (SM.f_id (m_file m))) as [E|_]; [|apply IH; assumption].
    exfalso. apply Hn. rewrite E. apply (in_map (fun m => SM.f_id (m_file m))). exact Hm.
  Qed.
End WithV.

(** * The example series *)
Definition q (x : Q) : Qc := Q2Qc x.
Definition fl (i : nat) (p t v : Q) : SM.file :=
  SM.mkfile i true 2 3 [1%Q; 1%Q] [1%Q; 0%Q; 0%Q; 0%Q; 1%Q; 0%Q] (q p) (Some (q t)) (Some (q v)) [] None None 0 16 false.

Definition k_slice : key := [115]%N.            (* "s": varies with the slice position only *)
Definition k_vol : key := [118; 111; 108]%N.    (* "vol": one value per volume *)
Definition k_vec : key := [118; 101; 99]%N.     (* "vec": one value per vector component *)
Definition k_const : key := [99]%N.             (* "c" *)
Definition ex_keys : list key := [k_slice; k_vol; k_vec; k_const].

(** per-file extension affine: slice row (0, 0, 2), translation by the slice position *)
Definition ex_faff (p : Q) : list (list Q) := [[-1; 0; 0; 0]; [0; -1; 0; 0]; [0; 0; 2; 2 * p]; [0; 0; 0; 1]]%Q.

Definition ex_mfile (i : nat) (p t v : Z) : mfile jv :=
  mk_mfile (fl i (inject_Z p) (inject_Z t) (inject_Z v)) (ex_faff (inject_Z p))
           [(k_slice, JInt (100 + p)); (k_vol, JInt (10 * t + v)); (k_vec, JInt v); (k_const, JStr [120]%N)].

(** added in scrambled order; ids are the add order *)
Definition ex_ms : list (mfile jv) :=
  [ex_mfile 0 1 2 1; ex_mfile 1 0 1 2; ex_mfile 2 0 2 2; ex_mfile 3 1 1 1;
   ex_mfile 4 0 1 1; ex_mfile 5 1 2 2; ex_mfile 6 0 2 1; ex_mfile 7 1 1 2]%Z.
Definition ex_st : SM.state := SM.run (SM.init true true) (map (fun m => SM.OAdd (m_file m)) ex_ms).
(** the slice axis goes to output axis 0 *)
Definition ex_perm : list nat := [1; 2; 0].
Definition ex_oaff : list (list Q) := [[0; -1; 0; 0]; [0; 0; -1; 0]; [-2; 0; 0; 2]; [0; 0; 0; 1]]%Q.
(** files ascend in position and the voxel order asks for the opposite: every volume is reversed *)
Definition ex_vo : SM.vorder := Some true.

Definition ex_result : res (ext jv) := snd (conv_meta jv_eqb JNull ex_ms ex_st ex_vo ex_perm ex_oaff (fun _ => false)).

Lemma ex_wf : SI.wf ex_st.
Proof. apply SI.reachable_wf. eexists _, _, _. reflexivity. Qed.

Lemma ex_files : SP.files ex_st = map (@m_file jv) ex_ms.
Proof. vm_compute. reflexivity. Qed.

Lemma ex_covers : covers ex_ms ex_st.
Proof.
  apply covers_of_incl; [vm_compute; repeat constructor; cbn; intuition lia|].
  intros f Hf. rewrite ex_files in Hf. exact Hf.
Qed.

Lemma ex_hyps :
  SI.wf ex_st /\ covers ex_ms ex_st /\ metas_ok ex_ms /\ normals_ok ex_ms /\ is_perm3 ex_perm /\ aff_ok ex_oaff.
Proof.
  split; [exact ex_wf|]. split; [exact ex_covers|]. split; [apply metas_okb; vm_compute; reflexivity|].
  split; [apply normals_okb_ok; vm_compute; reflexivity|]. split; [unfold is_perm3, ex_perm; cbn; tauto|].
  apply is_4x4_aff_ok. vm_compute. reflexivity.
Qed.

(** the conversion: shape (2,3,2,2,2), every volume reversed (ids of the final order) *)
Lemma ex_nifti :
  exists st' o, SM.to_nifti ex_st ex_vo true = (st', Ok o) /\
    SM.o_shape o = [2; 3; 2; 2; 2] /\ SM.o_flip o = true /\ SM.o_order o = [3; 4; 0; 6; 7; 1; 5; 2].
Proof.
  destruct (SM.to_nifti ex_st ex_vo true) as [st' r] eqn:E.
  assert (Er : snd (SM.to_nifti ex_st ex_vo true) = r) by (rewrite E; reflexivity).
  destruct r as [o|e]; [|vm_compute in Er; discriminate Er].
  exists st', o. split; [reflexivity|].
  split; [refine (rmap_ok (fun o0 => SM.o_shape o0) _ o _ Er _); vm_compute; reflexivity|].
  split; [refine (rmap_ok (fun o0 => SM.o_flip o0) _ o _ Er _); vm_compute; reflexivity|].
  refine (rmap_ok (fun o0 => SM.o_order o0) _ o _ Er _); vm_compute; reflexivity.
Qed.

Definition positions : list pos := [(0,0,0); (1,0,0); (0,1,0); (1,1,0); (0,0,1); (1,0,1); (0,1,1); (1,1,1)].

(** what the extension says at the eight grid positions, for the four keys *)
Definition ex_table (e : ext jv) : list (list jv) := map (fun p => map (fun k => den JNull e k p) ex_keys) positions.
(** what the files at those positions (in the final order) said *)
Definition ex_truth : list (list jv) :=
  map (fun id => match find_mfile ex_ms id with
                 | Ok m => map (meta_lookup JNull m) ex_keys
                 | Err _ => []
                 end) [3; 4; 0; 6; 7; 1; 5; 2].

Lemma ex_lossless :
  exists e, ex_result = Ok e /\
    shape (hdr_of e) = [2; 2; 3; 2; 2] /\ sdim (hdr_of e) = Some 0 /\
    ex_table e = ex_truth /\
    map (fun k => option_map fst (lookup_e e k)) ex_keys = [Some TSlices; Some TSamples; Some VSamples; Some GConst] /\
    (* the per-slice key really is reversed relative to the ascending positions: slice 0 holds position 1 *)
    den JNull e k_slice (0, 0, 0) = JInt 101 /\ den JNull e k_slice (1, 0, 0) = JInt 100.
Proof.
  destruct ex_result as [e|err] eqn:E; [|vm_compute in E; discriminate].
  exists e. split; [reflexivity|].
  split; [refine (rmap_ok (fun e0 => shape (hdr_of e0)) _ e _ E _); vm_compute; reflexivity|].
  split; [refine (rmap_ok (fun e0 => sdim (hdr_of e0)) _ e _ E _); vm_compute; reflexivity|].
  split; [refine (rmap_ok (fun e0 => ex_table e0) _ e _ E _); vm_compute; reflexivity|].
  split; [refine (rmap_ok (fun e0 => map (fun k => option_map fst (lookup_e e0 k)) ex_keys) _ e _ E _); vm_compute; reflexivity|].
  split; [refine (rmap_ok (fun e0 => den JNull e0 k_slice (0, 0, 0)) _ e _ E _); vm_compute; reflexivity|].
  refine (rmap_ok (fun e0 => den JNull e0 k_slice (1, 0, 0)) _ e _ E _); vm_compute; reflexivity.
Qed.

(** * With the default filter: "PatientName" is removed, "ImagePositionPatient" kept *)
Definition k_pn : key := [80;97;116;105;101;110;116;78;97;109;101]%N.
Definition k_ipp : key := [73;109;97;103;101;80;111;115;105;116;105;111;110;80;97;116;105;101;110;116]%N.
Definition ex_ms2 : list (mfile jv) :=
  map (fun m => mk_mfile (m_file m) (m_aff m)
                         ((k_pn, JStr [68; 111; 101]%N) :: (k_ipp, JArr [JInt (Z.of_nat (SM.f_id (m_file m)))]) :: m_meta m)) ex_ms.
Definition ex_result2 : res (ext jv) := snd (conv_meta jv_eqb JNull ex_ms2 ex_st ex_vo ex_perm ex_oaff default_filter).

Lemma ex_hyps2 : covers ex_ms2 ex_st /\ metas_ok ex_ms2 /\ normals_ok ex_ms2.
Proof.
  split; [|split; [apply metas_okb; vm_compute; reflexivity | apply normals_okb_ok; vm_compute; reflexivity]].
  apply covers_of_incl; [vm_compute; repeat constructor; cbn; intuition lia|].
  intros f Hf. rewrite ex_files in Hf. unfold ex_ms2. rewrite map_map. cbn [m_file]. exact Hf.
Qed.

Lemma ex_filtered :
  exists e, ex_result2 = Ok e /\
    lookup_e e k_pn = None /\ option_map fst (lookup_e e k_ipp) = Some GSlices /\
    map (fun k => option_map fst (lookup_e e k)) ex_keys = [Some TSlices; Some TSamples; Some VSamples; Some GConst] /\
    length (keys_e e) = 5.
Proof.
  destruct ex_result2 as [e|err] eqn:E; [|vm_compute in E; discriminate].
  exists e. split; [reflexivity|].
  split; [refine (rmap_ok (fun e0 => lookup_e e0 k_pn) _ e _ E _); vm_compute; reflexivity|].
  split; [refine (rmap_ok (fun e0 => option_map fst (lookup_e e0 k_ipp)) _ e _ E _); vm_compute; reflexivity|].
  split; [refine (rmap_ok (fun e0 => map (fun k => option_map fst (lookup_e e0 k)) ex_keys) _ e _ E _); vm_compute; reflexivity|].
  refine (rmap_ok (fun e0 => length (keys_e e0)) _ e _ E _); vm_compute; reflexivity.
Qed.

(** * N9: without the slice-normal hypothesis losslessness fails.
    2 slices x 2 echoes; the first file of the second volume has an orientation that differs in one component by
    2^-17 -- the stack accepts it (|2^-17| <= 5e-5) -- so the slice row of its extension affine is
    (2^-17, 0, 2) against (0, 0, 2) and [np.allclose] (atol 1e-8) fails: the per-slice values of that volume are
    dropped by the merge along time. *)
Definition n9_file (i : nat) (p t : Q) (jit : Q) : SM.file :=
  SM.mkfile i true 2 3 [1%Q; 1%Q] [1%Q; 0%Q; jit; 0%Q; 1%Q; 0%Q] (q p) (Some (q t)) None [] None None 0 16 false.
Definition n9_aff (p jit : Q) : list (list Q) := [[-1; 0; 0; 0]; [0; -1; 0; 0]; [jit; 0; 2; 2 * p]; [0; 0; 0; 1]]%Q.
Definition n9_mfile (i : nat) (p t : Z) (jit : Q) : mfile jv :=
  mk_mfile (n9_file i (inject_Z p) (inject_Z t) jit) (n9_aff (inject_Z p) jit) [(k_slice, JInt (100 + 10 * t + p))].
Definition n9_ms : list (mfile jv) :=
  [n9_mfile 0 0 1 0; n9_mfile 1 1 1 0; n9_mfile 2 0 2 (1 # 131072); n9_mfile 3 1 2 0]%Z.
Definition n9_st : SM.state := SM.run (SM.init true false) (map (fun m => SM.OAdd (m_file m)) n9_ms).
Definition n9_oaff : list (list Q) := [[-1; 0; 0; 0]; [0; -1; 0; 0]; [0; 0; 2; 0]; [0; 0; 0; 1]]%Q.
Definition n9_result : res (ext jv) := snd (conv_meta jv_eqb JNull n9_ms n9_st None [0; 1; 2] n9_oaff (fun _ => false)).

Lemma n9_files : SP.files n9_st = map (@m_file jv) n9_ms.
Proof. vm_compute. reflexivity. Qed.

Lemma n9_witness :
  SI.wf n9_st /\ covers n9_ms n9_st /\ metas_ok n9_ms /\ is_perm3 [0; 1; 2] /\ aff_ok n9_oaff /\
  ~ normals_ok n9_ms /\
  (* all four files were accepted and the stack converts *)
  map SM.f_id (SP.files n9_st) = [0; 1; 2; 3] /\
  (exists st' o, SM.to_nifti n9_st None true = (st', Ok o) /\ SM.o_shape o = [2; 3; 2; 2] /\ SM.o_order o = [0; 1; 2; 3]) /\
  exists e m, n9_result = Ok e /\ find_mfile n9_ms 2 = Ok m /\
    meta_lookup JNull m k_slice = JInt 120 /\ den JNull e k_slice (0, 1, 0) = JNull.
Proof.
  split; [apply SI.reachable_wf; eexists _, _, _; reflexivity|].
  split; [apply covers_of_incl; [vm_compute; repeat constructor; cbn; intuition lia | intros f Hf; rewrite n9_files in Hf; exact Hf]|].
  split; [apply metas_okb; vm_compute; reflexivity|].
  split; [unfold is_perm3; cbn; tauto|].
  split; [apply is_4x4_aff_ok; vm_compute; reflexivity|].
  split.
  { intros H. specialize (H (n9_mfile 0 0 1 0) (n9_mfile 2 0 2 (1 # 131072))%Z).
    assert (C : normals_close (m_aff (n9_mfile 0 0 1 0)) (m_aff (n9_mfile 2 0 2 (1 # 131072)))%Z)
      by (apply H; cbn; tauto).
    vm_compute in C. discriminate C. }
  split; [vm_compute; reflexivity|].
  split.
  { destruct (SM.to_nifti n9_st None true) as [st' r] eqn:E.
    assert (Er : snd (SM.to_nifti n9_st None true) = r) by (rewrite E; reflexivity).
    destruct r as [o|e]; [|vm_compute in Er; discriminate Er].
    exists st', o. split; [reflexivity|].
    split; [refine (rmap_ok (fun o0 => SM.o_shape o0) _ o _ Er _); vm_compute; reflexivity|].
    refine (rmap_ok (fun o0 => SM.o_order o0) _ o _ Er _); vm_compute; reflexivity. }
  destruct n9_result as [e|err] eqn:E; [|vm_compute in E; discriminate].
  exists e, (n9_mfile 2 0 2 (1 # 131072))%Z. split; [reflexivity|]. split; [vm_compute; reflexivity|].
  split; [vm_compute; reflexivity|].
  refine (rmap_ok (fun e0 => den JNull e0 k_slice (0, 1, 0)) _ e _ E _); vm_compute; reflexivity.
Qed.
