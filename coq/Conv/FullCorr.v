(** Correspondence glue for the COMPOSED conversion [Conv.Full.conv_full] against the real
    [DicomStack.to_nifti(order, embed_meta)] / [to_nifti_wrapper(order)]: ONE check compares data array, dtype,
    affine, header fields, the embedded extension, the voxel-order
    abstraction (props/stacklib.wants_flip against [o_vo], a function of the model's own flips) and every lookup at
    the voxel index of a source file.

    A case = configuration + the files in ADD order (sorter abstraction, pixels, geometry as seen through nibabel's
    DicomWrapper; extracted / given dictionary; affine of the per-file extension) + voxel-order string + embed flag
    + filter + the implementation's observation. *)
From Coq Require Import List Bool Arith ZArith NArith QArith Qcanon Qabs.
From DV Require Import Common.Res Common.Str Common.Jv Generated.T_conv
  Stack.Model Orient.Model Conv.Geom Conv.Header Conv.CorrGeom
  Ext.Types Ext.Classes Ext.Seq Ext.Model Ext.Corr Filter.Model Filter.Proofs
  Conv.Meta Conv.Full.
Import ListNotations.
Local Open Scope nat_scope.

(** PUBLIC results only (audit 2, rule 5): the stack's private state (_files_info order, _shape_dirty) is not observed;
    that the state left behind is right is judged on what later calls return (the history oracle of props/convfull.py). *)
Record fobs := mkfobs {
  ob_raised : bool;                       (* the conversion raised (any exception class) *)
  ob_shape : list nat;
  ob_data : list Z;                       (* C-order contents *)
  ob_dtype : str;
  ob_aff : mat;
  ob_dim_info : option nat * option nat * option nat;
  ob_pixdim4 : Q;
  ob_units : str * str;
  ob_stimes : option (list Q);            (* argument of set_slice_times, None = not called *)
  ob_ext : option (ext jv);               (* the extension found in the header (None: there is none) *)
  ob_look : list (nat * (list Z * list (key * res jv)))   (* file id |-> voxel index of its pixel (0,0), get_meta there per key *)
}.

Record fcase := mkfcase {
  fc_time : bool;
  fc_vec : bool;
  fc_files : list gfile;                   (* in add order *)
  fc_metas : list (list (key * jv));       (* the dictionary of every file, parallel to fc_files *)
  fc_maffs : list mat;                     (* affine of every per-file extension (float32 sform), parallel *)
  fc_faffs : list mat;                     (* single-file NIfTI affines (from_dicom_wrapper), parallel *)
  fc_code : str;                           (* voxel order ("" = no reorientation) *)
  fc_embed : bool;
  fc_exact : bool;                         (* decided by the GENERATOR from the case's geometry: every float64 operation and the
                                              float32 sform rounding are exact on this input *)
  fc_default : bool;                       (* the stack uses dcmstack.default_meta_filter *)
  fc_filt : list (key * bool);             (* otherwise: the real filter's verdict for every key *)
  fc_wants_flip : option bool;             (* props/stacklib.wants_flip on the first added file *)
  fc_obs : fobs
}.

Definition filt_of (c : fcase) : key -> bool :=
  if fc_default c then default_filter
  else fun k => match find (fun x => str_eqb (fst x) k) (fc_filt c) with Some (_, b) => b | None => false end.

Fixpoint zip3 (gs : list gfile) (affs : list mat) (ms : list (list (key * jv))) : list (mfile jv) :=
  match gs, affs, ms with
  | g :: gr, a :: ar, m :: mr => mk_mfile (g_file g) a m :: zip3 gr ar mr
  | _, _, _ => []
  end.

Definition metas (c : fcase) : list (mfile jv) := zip3 (fc_files c) (fc_maffs c) (fc_metas c).

Definition model (c : fcase) : res (state * res (geom_out * hdr_out * option (ext jv))) :=
  match add_all (init (fc_time c) (fc_vec c)) (map g_file (fc_files c)) with
  | Err e => Err e
  | Ok st => Ok (conv_full jv_eqb JNull (fc_files c) (metas c) st (fc_code c) (fc_embed c) (filt_of c))
  end.

(** looser tolerance for affines that went through float32 (inexact stream only): 2^-14 *)
Definition tol32 : Q := (1 # 16384)%Q.
Definition q_close32 (exact : bool) (a b : Q) : bool := if exact then Qeq_bool a b else Qle_bool (Qabs (a - b)) tol32.
Definition mat_close32 (exact : bool) (a b : mat) : bool :=
  (length a =? length b) &&
  forallb (fun rr => (length (fst rr) =? length (snd rr)) &&
                     forallb (fun xy => q_close32 exact (fst xy) (snd xy)) (combine (fst rr) (snd rr)))
          (combine a b).

Fixpoint maffs_ok (exact : bool) (gs : list gfile) (As : list mat) : bool :=
  match gs, As with
  | [], [] => true
  | g :: gr, A :: Ar => mat_close32 exact (file_affine g) A && maffs_ok exact gr Ar
  | _, _ => false
  end.

(** extensions as unordered maps; the affine exactly on the exact stream *)
Definition ext_close (exact : bool) (a b : ext jv) : bool :=
  if exact then ext_eqb a b
  else ext_eqb (mk_ext (mk_hdr (shape (hdr_of a)) (sdim (hdr_of a)) [] (has_time (hdr_of a)) (has_vec (hdr_of a))) (entries a))
               (mk_ext (mk_hdr (shape (hdr_of b)) (sdim (hdr_of b)) [] (has_time (hdr_of b)) (has_vec (hdr_of b))) (entries b))
       && mat_close32 false (aff (hdr_of a)) (aff (hdr_of b)).

Definition ovo_eqb (a b : vorder) : bool :=
  match a, b with
  | None, None => true
  | Some x, Some y => Bool.eqb x y
  | _, _ => false
  end.

(** the lookups at the voxel of file [id]: the model's array holds that file's pixel (0,0) there, and [get_meta] on
    (image of the conversion, embedded extension) returns what the implementation returned *)
Definition look_ok (c : fcase) (go : geom_out) (h : hdr_out) (e : ext jv) (l : nat * (list Z * list (key * res jv))) : bool :=
  let '(id, (ix, kvs)) := l in
  match glookup (fc_files c) id with
  | None => false
  | Some g =>
      match pix_at g 0 0, aget (go_data go) (map Z.to_nat ix) with
      | Some z, Some z' => Z.eqb z z'
      | _, _ => false
      end &&
      forallb (fun kv => res_eqb jv_eqb (Ext.Model.get_meta (full_img go h) e (fst kv) (Some ix) JNull) (snd kv)) kvs
  end.

Definition check_hdr_fields (h : hdr_out) (o : fobs) : bool :=
  let '(f, p, s) := h_dim_info h in
  let '(f', p', s') := ob_dim_info o in
  CorrGeom.onat_eqb f f' && CorrGeom.onat_eqb p p' && CorrGeom.onat_eqb s s' &&
  Qeq_bool (match h_pixdim4 h with Some t => t | None => 1%Q end) (ob_pixdim4 o) &&
  str_eqb (fst (h_units h)) (fst (ob_units o)) && str_eqb (snd (h_units h)) (snd (ob_units o)) &&
  match h_slice_times h, ob_stimes o with
  | None, None => true
  | Some l, Some l' => qs_eqb l l'
  | _, _ => false
  end.

Definition check (c : fcase) : bool :=
  let o := fc_obs c in
  contracts_ok (fc_exact c) (fc_files c) (fc_faffs c) &&
  maffs_ok (fc_exact c) (fc_files c) (fc_maffs c) &&
  (length (fc_metas c) =? length (fc_files c)) &&
  match model c with
  | Err _ => false                                            (* every add of a case succeeds *)
  | Ok (st', r) =>
      match r, ob_raised o with
      | Err _, true => true                                   (* refused / raised: no class is promised *)
      | Ok (go, h, oe), false =>
          (* data, dtype, affine *)
          nats_eqb (ashape (go_data go)) (ob_shape o) && zs_eqb (adata (go_data go)) (ob_data o) &&
          str_eqb (go_dtype go) (ob_dtype o) && mat_close (fc_exact c) (go_aff go) (ob_aff o) &&
          (* header fields *)
          check_hdr_fields h o &&
          (* the voxel-order abstraction is the model's own (with a single file per volume nothing is ever reversed and the
             bit is immaterial: only "reorientation requested or not" is compared) *)
          (if 1 <? h_n_slices h then ovo_eqb (o_vo (go_nifti go)) (fc_wants_flip c)
           else Bool.eqb (is_some (o_vo (go_nifti go))) (is_some (fc_wants_flip c))) &&
          (* the extension and the lookups *)
          match oe, ob_ext o with
          | None, None => match ob_look o with [] => true | _ => false end
          | Some e, Some e' => ext_close (fc_exact c) e e' && forallb (look_ok c go h e) (ob_look o)
          | _, _ => false
          end
      | _, _ => false
      end
  end.

(** what the model computed, for replay files *)
Definition show (c : fcase) :=
  match model c with
  | Err e => (Some e, [], false, ([], [], [], []), None, None)
  | Ok (st', Err e) => (Some e, ids (files_info st'), shape_dirty st', ([], [], [], []), None, None)
  | Ok (st', Ok (go, h, oe)) =>
      (None, ids (files_info st'), shape_dirty st',
       (ashape (go_data go), adata (go_data go), go_dtype go, map (map Qred) (go_aff go)),
       Some (h_dim_info h, h_pixdim4 h, go_perm go, go_flips go, h_slice_times h, o_vo (go_nifti go)),
       oe)
  end.
