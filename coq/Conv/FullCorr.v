(** Correspondence glue for the COMPOSED conversion [Conv.Full.conv_full] against the real
    [DicomStack.to_nifti(order, embed_meta)] / [to_nifti_wrapper(order)]: ONE check compares data array, dtype,
    affine, header fields, the embedded extension, the voxel-order
    abstraction (props/stacklib.wants_flip against [o_vo], a function of the model's own flips) and every lookup at
    the voxel index of a source file.

    A case = configuration + the files in ADD order (sorter abstraction, pixels, geometry as seen through nibabel's
    DicomWrapper; extracted / given dictionary; affine of the per-file extension) + voxel-order string + embed flag
    + filter + the implementation's observation; and HISTORIES (audit 3, issue 1): other add orders with queries and
    conversions in between, every call observed, and the same final conversion observed on that stack: the model is
    evaluated AFTER THE SAME CALLS ([FullHist.hist_state] = [Stack.Model.run] of a C12 history) and compared, so that
    "code after a history = model after that history" is part of the check and [C12_full_history] / [hist_history]
    turn it into "= model on a fresh stack". *)
From Coq Require Import List Bool Arith ZArith NArith QArith Qcanon Qabs.
From DV Require Import Common.Res Common.Str Common.Jv Generated.T_conv
  Stack.Model Orient.Model Conv.Geom Conv.Header
  Ext.Types Ext.Classes Ext.Seq Ext.Model Ext.Corr Filter.Model Filter.Proofs
  Conv.Meta Conv.Full Conv.FullHist.
Import ListNotations.
Local Open Scope nat_scope.

(** small comparison helpers (self-contained: no dependency on the glue of other checks) *)
Fixpoint nats_eqb (a b : list nat) : bool :=
  match a, b with
  | [], [] => true
  | x :: xs, y :: ys => Nat.eqb x y && nats_eqb xs ys
  | _, _ => false
  end.
Fixpoint zs_eqb (a b : list Z) : bool :=
  match a, b with
  | [], [] => true
  | x :: xs, y :: ys => Z.eqb x y && zs_eqb xs ys
  | _, _ => false
  end.
Fixpoint qs_eqb (a b : list Q) : bool :=
  match a, b with
  | [], [] => true
  | x :: xs, y :: ys => Qeq_bool x y && qs_eqb xs ys
  | _, _ => false
  end.
(** tolerance for float64 results on the inexact stream: 2^-30 *)
Definition tol : Q := (1 # 1073741824)%Q.
Definition q_close (exact : bool) (a b : Q) : bool :=
  if exact then Qeq_bool a b else Qle_bool (Qabs (a - b)) tol.
Definition mat_close (exact : bool) (a b : mat) : bool :=
  (length a =? length b) &&
  forallb (fun rr => (length (fst rr) =? length (snd rr)) &&
                     forallb (fun xy => q_close exact (fst xy) (snd xy)) (combine (fst rr) (snd rr)))
          (combine a b).
(** the DicomWrapper contract on one file: single-file affine, slice indicator *)
Definition contract_ok (exact : bool) (g : gfile) (A : mat) : bool :=
  mat_close exact (file_affine g) A &&
  q_close false (this (f_pos (g_file g))) (slice_indicator g).
Fixpoint contracts_ok (exact : bool) (gs : list gfile) (As : list mat) : bool :=
  match gs, As with
  | [], [] => true
  | g :: gr, A :: Ar => contract_ok exact g A && contracts_ok exact gr Ar
  | _, _ => false
  end.

(** PUBLIC results only (audit 2, rule 5): the stack's private state (_files_info order, _shape_dirty) is not observed;
    that the state left behind is right is judged on what later calls return (the history oracle of props/convfull.py). *)
Record fobs := mkfobs {
  ob_raised : bool;                       (* the conversion raised (any exception class) *)
  ob_shape : list nat;
  ob_data : list Z;                       (* C-order contents *)
  ob_dtype : str;
  ob_aff : mat;
  ob_dim_info : option nat * option nat * option nat;
  ob_pixdim4 : Q;
  ob_units : str * str;
  ob_stimes : option (list Q);            (* argument of set_slice_times, None = not called *)
  ob_ext : option (ext jv);               (* the extension found in the header (None: there is none) *)
  ob_T : option mat;                      (* its reorient_transform (not part of the extension model's header) *)
  ob_look : list (nat * (list Z * list (key * res jv)))   (* file id |-> voxel index of its pixel (0,0), get_meta there per key *)
}.

(** what one call of a history returned, read from the RETAINED result object at the end of the history (a result that
    is changed by later calls shows up as a mismatch with the model's value at call time) *)
Inductive hres :=
| HR_none                                                   (* an add that was accepted *)
| HR_raised                                                 (* the call raised *)
| HR_shape (sh : list nat)
| HR_affine (A : mat)
| HR_data (sh : list nat) (d : list Z)
| HR_conv (sh : list nat) (d : list Z) (dt : str) (A : mat) (slice_dim : option nat).

Record fhist := mkfhist {
  fh_ops : list hop;                       (* adds (indices into fc_files) with queries / conversions in between *)
  fh_res : list hres;                      (* parallel: what every call returned *)
  fh_final : fobs                          (* the case's conversion (fc_code, fc_embed) made on that stack afterwards *)
}.

Record fcase := mkfcase {
  fc_time : bool;
  fc_vec : bool;
  fc_files : list gfile;                   (* in add order *)
  fc_metas : list (list (key * jv));       (* the dictionary of every file, parallel to fc_files *)
  fc_maffs : list mat;                     (* affine of every per-file extension (float32 sform), parallel *)
  fc_faffs : list mat;                     (* single-file NIfTI affines (from_dicom_wrapper), parallel *)
  fc_code : str;                           (* voxel order ("" = no reorientation) *)
  fc_embed : bool;
  fc_exact : bool;                         (* decided by the GENERATOR from the case's geometry: every float64 operation and the
                                              float32 sform rounding are exact on this input *)
  fc_default : bool;                       (* the stack uses dcmstack.default_meta_filter *)
  fc_filt : list (key * bool);             (* otherwise: the real filter's verdict for every key *)
  fc_wants_flip : option bool;             (* props/stacklib.wants_flip on the first added file *)
  fc_obs : fobs;
  fc_hists : list fhist
}.

Definition filt_of (c : fcase) : key -> bool :=
  if fc_default c then default_filter
  else fun k => match find (fun x => str_eqb (fst x) k) (fc_filt c) with Some (_, b) => b | None => false end.

Fixpoint zip3 (gs : list gfile) (affs : list mat) (ms : list (list (key * jv))) : list (mfile jv) :=
  match gs, affs, ms with
  | g :: gr, a :: ar, m :: mr => mk_mfile (g_file g) a m :: zip3 gr ar mr
  | _, _, _ => []
  end.

Definition metas (c : fcase) : list (mfile jv) := zip3 (fc_files c) (fc_maffs c) (fc_metas c).

Definition model (c : fcase) : res (state * res (geom_out * hdr_out * option (ext jv))) :=
  match add_all (init (fc_time c) (fc_vec c)) (map g_file (fc_files c)) with
  | Err e => Err e
  | Ok st => Ok (conv_full jv_eqb JNull (fc_files c) (metas c) st (fc_code c) (fc_embed c) (filt_of c))
  end.

(** looser tolerance for affines that went through float32 (inexact stream only): 2^-14 *)
Definition tol32 : Q := (1 # 16384)%Q.
Definition q_close32 (exact : bool) (a b : Q) : bool := if exact then Qeq_bool a b else Qle_bool (Qabs (a - b)) tol32.
Definition mat_close32 (exact : bool) (a b : mat) : bool :=
  (length a =? length b) &&
  forallb (fun rr => (length (fst rr) =? length (snd rr)) &&
                     forallb (fun xy => q_close32 exact (fst xy) (snd xy)) (combine (fst rr) (snd rr)))
          (combine a b).

Fixpoint maffs_ok (exact : bool) (gs : list gfile) (As : list mat) : bool :=
  match gs, As with
  | [], [] => true
  | g :: gr, A :: Ar => mat_close32 exact (file_affine g) A && maffs_ok exact gr Ar
  | _, _ => false
  end.

(** extensions as unordered maps; the affine exactly on the exact stream *)
Definition ext_close (exact : bool) (a b : ext jv) : bool :=
  if exact then ext_eqb a b
  else ext_eqb (mk_ext (mk_hdr (shape (hdr_of a)) (sdim (hdr_of a)) [] (has_time (hdr_of a)) (has_vec (hdr_of a))) (entries a))
               (mk_ext (mk_hdr (shape (hdr_of b)) (sdim (hdr_of b)) [] (has_time (hdr_of b)) (has_vec (hdr_of b))) (entries b))
       && mat_close32 false (aff (hdr_of a)) (aff (hdr_of b)).

Definition ovo_eqb (a b : vorder) : bool :=
  match a, b with
  | None, None => true
  | Some x, Some y => Bool.eqb x y
  | _, _ => false
  end.

(** the lookups at the voxel of file [id]: the model's array holds that file's pixel (0,0) there, and [get_meta] on
    (image of the conversion, embedded extension) returns what the implementation returned *)
Definition look_ok (c : fcase) (go : geom_out) (h : hdr_out) (e : ext jv) (l : nat * (list Z * list (key * res jv))) : bool :=
  let '(id, (ix, kvs)) := l in
  match glookup (fc_files c) id with
  | None => false
  | Some g =>
      match pix_at g 0 0, aget (go_data go) (map Z.to_nat ix) with
      | Some z, Some z' => Z.eqb z z'
      | _, _ => false
      end &&
      forallb (fun kv => res_eqb jv_eqb (Ext.Model.get_meta (full_img go h) e (fst kv) (Some ix) JNull) (snd kv)) kvs
  end.

Definition check_hdr_fields (h : hdr_out) (o : fobs) : bool :=
  let '(f, p, s) := h_dim_info h in
  let '(f', p', s') := ob_dim_info o in
  onat_eqb f f' && onat_eqb p p' && onat_eqb s s' &&
  Qeq_bool (match h_pixdim4 h with Some t => t | None => 1%Q end) (ob_pixdim4 o) &&
  str_eqb (fst (h_units h)) (fst (ob_units o)) && str_eqb (snd (h_units h)) (snd (ob_units o)) &&
  match h_slice_times h, ob_stimes o with
  | None, None => true
  | Some l, Some l' => qs_eqb l l'
  | _, _ => false
  end.

(** a conversion result against an observation; [vo] = compare the voxel-order abstraction too (main conversion only) *)
Definition result_ok (c : fcase) (vo : bool) (r : res (geom_out * hdr_out * option (ext jv))) (o : fobs) : bool :=
  match r, ob_raised o with
  | Err _, true => true                                   (* refused / raised: no class is promised *)
  | Ok (go, h, oe), false =>
      (* data, dtype, affine *)
      nats_eqb (ashape (go_data go)) (ob_shape o) && zs_eqb (adata (go_data go)) (ob_data o) &&
      str_eqb (go_dtype go) (ob_dtype o) && mat_close (fc_exact c) (go_aff go) (ob_aff o) &&
      (* header fields *)
      check_hdr_fields h o &&
      (* the voxel-order abstraction is the model's own (with a single file per volume nothing is ever reversed and the
         bit is immaterial: only "reorientation requested or not" is compared) *)
      (negb vo ||
       (if 1 <? h_n_slices h then ovo_eqb (o_vo (go_nifti go)) (fc_wants_flip c)
        else Bool.eqb (is_some (o_vo (go_nifti go))) (is_some (fc_wants_flip c)))) &&
      (* the extension and the lookups *)
      match oe, ob_ext o with
      | None, None => match ob_look o with [] => true | _ => false end
      | Some e, Some e' => ext_close (fc_exact c) e e' && forallb (look_ok c go h e) (ob_look o)
      | _, _ => false
      end &&
      (* the transform recorded in the extension is the transform of THIS conversion's reorientation (signed
         permutation with integral / half-integral translations: exact in every stream) *)
      match ob_T o with Some T => mat_close true (go_T go) T | None => true end
  | _, _ => false
  end.

(** the model's answer to one call of a history *)
Definition hop_model (c : fcase) (st : state) (h : hop) : hres :=
  let gs := fc_files c in
  match h with
  | HAdd i => match nth_error gs i with
              | Some g => match add_dcm st (g_file g) with Ok _ => HR_none | Err _ => HR_raised end
              | None => HR_raised
              end
  | HShape => match snd (get_shape st) with Ok sh => HR_shape sh | Err _ => HR_raised end
  | HData => match snd (get_data st) with
             | Ok (ord, sh) => let a := stack_data gs ord sh in HR_data (ashape a) (adata a)
             | Err _ => HR_raised
             end
  | HAffine => match snd (get_affine st) with
               | Ok (i0, col) => match stack_affine gs i0 col with Ok A => HR_affine A | Err _ => HR_raised end
               | Err _ => HR_raised
               end
  | HConv code em =>
      match snd (conv_full jv_eqb JNull gs (metas c) st code em (filt_of c)) with
      | Ok (go, h, _) => HR_conv (ashape (go_data go)) (adata (go_data go)) (go_dtype go) (go_aff go) (Some (h_slice_dim h))
      | Err _ => HR_raised
      end
  end.

Definition hres_ok (exact : bool) (m o : hres) : bool :=
  match m, o with
  | HR_none, HR_none | HR_raised, HR_raised => true
  | HR_shape a, HR_shape b => nats_eqb a b
  | HR_affine a, HR_affine b => mat_close exact a b
  | HR_data sa da, HR_data sb db => nats_eqb sa sb && zs_eqb da db
  | HR_conv sa da ta Aa xa, HR_conv sb db tb Ab xb =>
      nats_eqb sa sb && zs_eqb da db && str_eqb ta tb && mat_close exact Aa Ab && onat_eqb xa xb
  | _, _ => false
  end.

(** walk a history: every call's answer, then the state [run st (hop_ops ..)] (= the state the call leaves behind,
    [FullHist.conv_full_state]) *)
Fixpoint hist_walk (c : fcase) (st : state) (hs : list hop) (os : list hres) : bool :=
  match hs, os with
  | [], [] => true
  | h :: hr, o :: or => hres_ok (fc_exact c) (hop_model c st h) o && hist_walk c (run st (hop_ops (fc_files c) st h)) hr or
  | _, _ => false
  end.

Definition hist_ok (c : fcase) (fh : fhist) : bool :=
  let st0 := init (fc_time c) (fc_vec c) in
  hist_walk c st0 (fh_ops fh) (fh_res fh) &&
  (* the model AFTER the same calls, in the sorter's own [run] *)
  result_ok c false
    (snd (conv_full jv_eqb JNull (fc_files c) (metas c) (hist_state (fc_files c) st0 (fh_ops fh))
                    (fc_code c) (fc_embed c) (filt_of c)))
    (fh_final fh).

Definition check (c : fcase) : bool :=
  contracts_ok (fc_exact c) (fc_files c) (fc_faffs c) &&
  maffs_ok (fc_exact c) (fc_files c) (fc_maffs c) &&
  (length (fc_metas c) =? length (fc_files c)) &&
  match model c with
  | Err _ => false                                            (* every add of a case succeeds *)
  | Ok (st', r) => result_ok c true r (fc_obs c)
  end &&
  forallb (hist_ok c) (fc_hists c).

(** what the model computed, for replay files *)
Fixpoint hist_model (c : fcase) (st : state) (hs : list hop) : list hres :=
  match hs with
  | [] => []
  | h :: r => hop_model c st h :: hist_model c (run st (hop_ops (fc_files c) st h)) r
  end.

Definition show_result (r : res (geom_out * hdr_out * option (ext jv))) :=
  match r with
  | Err e => (Some e, ([], [], [], []), None, None)
  | Ok (go, h, oe) =>
      (None, (ashape (go_data go), adata (go_data go), go_dtype go, map (map Qred) (go_aff go)),
       Some (h_dim_info h, h_pixdim4 h, go_perm go, go_flips go, h_slice_times h, o_vo (go_nifti go)), oe)
  end.

Definition show (c : fcase) :=
  let st0 := init (fc_time c) (fc_vec c) in
  (match model c with
   | Err e => (Some e, ([], [], [], []), None, None)
   | Ok (_, r) => show_result r
   end,
   map (fun fh => (hist_model c st0 (fh_ops fh),
                   ids (files_info (hist_state (fc_files c) st0 (fh_ops fh))),
                   show_result (snd (conv_full jv_eqb JNull (fc_files c) (metas c) (hist_state (fc_files c) st0 (fh_ops fh))
                                               (fc_code c) (fc_embed c) (filt_of c)))))
       (fc_hists c)).
