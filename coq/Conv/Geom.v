(** Executable model of the CONVERSION of a DicomStack into voxel data + affine
      dcmmeta.NiftiWrapper.from_dicom_wrapper (dcmmeta.py 1541-1588: data, affine with the x/y sign flip),
      DicomStack.get_data (dcmstack.py 746-797), DicomStack.get_affine (801-835),
      DicomStack.to_nifti up to and including the reorientation / in-place reversal (839-896),
    built on the sorter model [Stack.Model] (which decides the ORDER of the files, the shape, and the
    reversal) and on [Orient.Model.reorder] (= dcmstack.reorder_voxels).

    Conventions
    - a DICOM data set is the record [gfile] = the sorter's abstraction [g_file] plus pixels and geometry;
    - pixels [g_pix] are the values returned by nibabel's [DicomWrapper.get_data()] (rows x cols, AFTER the
      DICOM rescale); only INTEGER values are modelled (integral slope / intercept), whatever the numpy
      dtype that carries them ([g_dtype] is the dtype NAME of the single-file image, e.g. "uint16",
      "int16", "float64" when a rescale was applied);
    - geometry is exact rational arithmetic (Q): on dyadic inputs of moderate size every float operation
      of the implementation is exact and the two coincide (checked by the correspondence); rounding on
      other inputs is outside the model;
    - nibabel's classic single-frame [DicomWrapper] is a CONTRACT written down as definitions
      ([slice_normal], [slice_indicator], [dicom_affine], the data layout [pix_at]), read from nibabel
      5.4.2 nicom/dicomwrappers.py and confirmed against the real wrapper on every correspondence case;
      mosaic / multi-frame wrappers (files with more than one slice: the branch
      [files_per_vol == 1 and file_shape[2] != 1] of get_data) are outside the model: every file is one
      rows x cols x 1 image. *)
From Coq Require Import List Bool Arith ZArith NArith QArith Qcanon Lia.
From DV Require Import Common.Res Common.Str Generated.T_conv Stack.Model Orient.Model.
Import ListNotations.
Local Open Scope nat_scope.

(* ------------------------------------------------------------------------------------------ *)
(** * Files with pixels and geometry *)

Record gfile := mkgfile {
  g_file : file;                  (* what the sorter sees (Stack.Model.file), [f_id] identifies the file *)
  g_pix : list (list Z);          (* DicomWrapper.get_data(): [g_pix[i][j]] = value at ROW i, COLUMN j, rescaled *)
  g_iop : list Q;                 (* ImageOrientationPatient, 6 numbers *)
  g_ipp : list Q;                 (* ImagePositionPatient, 3 numbers *)
  g_ps : Q * Q;                   (* PixelSpacing = (distance between rows, distance between columns) *)
  g_zs : Q;                       (* DicomWrapper.voxel_sizes[2]: SpacingBetweenSlices / SliceThickness / 1 *)
  g_dtype : str;                  (* numpy dtype name of the single-file NIfTI image *)
  g_bits_stored : option nat;     (* meta 'BitsStored' *)
  g_acq_time : option str         (* meta 'AcquisitionTime' (a DICOM TM string) *)
}.

Fixpoint glookup (gs : list gfile) (id : nat) : option gfile :=
  match gs with
  | [] => None
  | g :: r => if Nat.eqb (f_id (g_file g)) id then Some g else glookup r id
  end.

(** the dtype names of the "fslview hack" come from the source (Generated/T_conv.v): "uint16" -> "int16" *)
Definition uint16_str : str := hack_from.
Definition int16_str : str := hack_to.
Definition g_unsigned16 (g : gfile) : bool := str_eqb (g_dtype g) uint16_str.

(* ------------------------------------------------------------------------------------------ *)
(** * Vectors *)

Definition vget (v : list Q) (k : nat) : Q := nth k v 0%Q.
Definition cross (a b : list Q) : list Q :=
  [vget a 1 * vget b 2 - vget a 2 * vget b 1;
   vget a 2 * vget b 0 - vget a 0 * vget b 2;
   vget a 0 * vget b 1 - vget a 1 * vget b 0]%Q.
Definition vsub (a b : list Q) : list Q := map (fun k => vget a k - vget b k)%Q [0; 1; 2].

(* ------------------------------------------------------------------------------------------ *)
(** * The DicomWrapper contract (nibabel 5.4.2, class Wrapper) *)

(** [image_orient_patient] = iop.reshape(2,3).T : column 0 = iop[0:3] is the direction in which the
    COLUMN index grows (DICOM "row direction cosine"), column 1 = iop[3:6] the direction in which the
    ROW index grows. *)
Definition col_dir (g : gfile) : list Q := firstn 3 (g_iop g).
Definition row_dir (g : gfile) : list Q := skipn 3 (g_iop g).

(** [slice_normal = np.cross(iop[:, 1], iop[:, 0])] *)
Definition slice_normal (g : gfile) : list Q := cross (row_dir g) (col_dir g).

(** [slice_indicator = np.inner(ipp, slice_normal)] *)
Definition slice_indicator (g : gfile) : Q := dot (g_ipp g) (slice_normal g).

(** [affine]: [aff[:3,:3] = rotation_matrix * voxel_sizes], [rotation_matrix[:, :2] = fliplr(iop)],
    [rotation_matrix[:, 2] = slice_normal], [aff[:3, 3] = ipp]: array axis 0 (rows) moves along
    [row_dir] by PixelSpacing[0], axis 1 (columns) along [col_dir] by PixelSpacing[1]. *)
Definition dicom_affine (g : gfile) : mat :=
  map (fun r => [vget (row_dir g) r * fst (g_ps g); vget (col_dir g) r * snd (g_ps g);
                 vget (slice_normal g) r * g_zs g; vget (g_ipp g) r]%Q) [0; 1; 2]
  ++ [[0; 0; 0; 1]%Q].

(** [get_data()] is the pixel array as stored, first index = row, second = column (NOT transposed) *)
Definition pix_at (g : gfile) (i j : nat) : option Z :=
  match nth_error (g_pix g) i with
  | Some row => nth_error row j
  | None => None
  end.

(** ** The DICOM rescale (nibabel Wrapper._scale_data / _apply_scale_offset)
    [get_data() = stored * RescaleSlope + RescaleIntercept] (slope 1 / intercept 0 when absent), computed in
    float64 whenever a rescale is present.  [g_pix] holds these values in units of [1 / rs_den] (a power of two
    chosen by the harness so that dyadic fractional values become integers; 1 for integral data): this record
    makes "the value after the DICOM rescale" a statement of the model. *)
Record rescale := mkrescale {
  rs_stored : list (list Z);      (* pixel_array: the stored values, rows x cols *)
  rs_slope : Q;                   (* scale_factors[0][0] *)
  rs_icpt : Q;                    (* scale_factors[0][1] *)
  rs_den : Q
}.

Definition stored_at (r : rescale) (i j : nat) : option Z :=
  match nth_error (rs_stored r) i with
  | Some row => nth_error row j
  | None => None
  end.

Definition rescaled_val (r : rescale) (x : Z) : Q := (rs_den r * (rs_slope r * inject_Z x + rs_icpt r))%Q.

Fixpoint row_rescaled (r : rescale) (zs xs : list Z) : bool :=
  match zs, xs with
  | [], [] => true
  | z :: zr, x :: xr => Qeq_bool (inject_Z z) (rescaled_val r x) && row_rescaled r zr xr
  | _, _ => false
  end.
Fixpoint rows_rescaled (r : rescale) (zs xs : list (list Z)) : bool :=
  match zs, xs with
  | [], [] => true
  | z :: zr, x :: xr => row_rescaled r z x && rows_rescaled r zr xr
  | _, _ => false
  end.

(** [g_pix g] is the rescale [r] of the stored pixels *)
Definition rescaled_ok (g : gfile) (r : rescale) : bool := rows_rescaled r (g_pix g) (rs_stored r).

(* ------------------------------------------------------------------------------------------ *)
(** * from_dicom_wrapper: the single-file NIfTI image *)

(** [np.diag([-1., -1., 1., 1.])]: DICOM patient space (LPS) -> NIfTI (RAS) *)
Definition lps2ras : mat :=
  map (fun i => map (fun j => if i =? j then nth i lps2ras_diag 0%Q else 0%Q) (seq 0 4)) (seq 0 4).

(** [affine = np.dot(np.diag([-1., -1., 1., 1.]), dcm_wrp.affine)] *)
Definition file_affine (g : gfile) : mat := mmul lps2ras (dicom_affine g).

(** translation column of the single-file affine: [nii_img.affine[:3, 3]] *)
Definition file_offset (g : gfile) : list Q := [mentry (file_affine g) 0 3; mentry (file_affine g) 1 3; mentry (file_affine g) 2 3].

(* ------------------------------------------------------------------------------------------ *)
(** * get_data *)

(** [tuple(list(stack_shape) + ((5 - len(stack_shape)) * [1]))] *)
Definition pad5 (sh : list nat) : list nat := sh ++ repeat 1 (5 - length sh).

(** "Trim unused time/vector dimensions" *)
Definition trim5 (sh5 : list nat) : list nat :=
  if nth 4 sh5 0 =? 1 then (if nth 3 sh5 0 =? 1 then firstn 3 sh5 else firstn 4 sh5) else sh5.

(** The voxel array.  [order] = ids of [self._files_info] in their (sorted) order, [sh] = [self.shape].
    Element (i, j, s, t, v) is pixel (i, j) of file number [v * (sh[3] * sh[2]) + t * sh[2] + s] for
    [s < files_per_vol]; ([np.empty] leaves the other elements undefined: never the case for an accepted
    stack, the model puts 0 there.)  Trimming trailing unit dimensions does not change the C-order
    contents, so the array is tabulated directly in the trimmed shape. *)
Definition stack_data (gs : list gfile) (order : list nat) (sh : list nat) : arr :=
  let sh5 := pad5 sh in
  let n2 := nth 2 sh5 1 in
  let n3 := nth 3 sh5 1 in
  let n4 := nth 4 sh5 1 in
  let fpv := length order / (n3 * n4) in
  tabulate (trim5 sh5) (fun idx =>
    let s := nth 2 idx 0 in
    let t := nth 3 idx 0 in
    let v := nth 4 idx 0 in
    if s <? fpv then
      match nth_error order (v * (n3 * n2) + t * n2 + s) with
      | Some id => match glookup gs id with
                   | Some g => pix_at g (nth 0 idx 0) (nth 1 idx 0)
                   | None => None
                   end
      | None => None
      end
    else None).

(** ** dtype of the output (fix 63f686b)
    [stack_dtype] = numpy result_type of the set of the dtypes of ALL files, [bits_stored = max(BitsStored of
    every file, default 16)], then the "fslview hack": [if stack_dtype == np.uint16 and bits_stored < 16: np.int16].

    The dtype lattice that is modelled: int8, uint8, int16, uint16, int32, float32, float64 (closed under
    promotion).  numpy's n-ary [result_type] of array dtypes depends only on WHICH dtypes occur (it is not the
    left fold of the binary promotion, which is not associative once float32 is involved: (int16 v uint16) v
    float32 = float64 but result_type(int16, uint16, float32) = float32); it is modelled in closed form on the
    set of dtypes present and compared with numpy on all pairs, triples and a sample of longer tuples by the
    correspondence (part "lattice").  Any other dtype name is outside the model ([Err ECrash]). *)
Inductive dt := DInt8 | DUint8 | DInt16 | DUint16 | DInt32 | DFloat32 | DFloat64.

Definition dt_eqb (a b : dt) : bool :=
  match a, b with
  | DInt8, DInt8 | DUint8, DUint8 | DInt16, DInt16 | DUint16, DUint16 | DInt32, DInt32
  | DFloat32, DFloat32 | DFloat64, DFloat64 => true
  | _, _ => false
  end.

Definition dt_name (d : dt) : str :=
  match d with
  | DInt8 => [105; 110; 116; 56]
  | DUint8 => [117; 105; 110; 116; 56]
  | DInt16 => [105; 110; 116; 49; 54]
  | DUint16 => [117; 105; 110; 116; 49; 54]
  | DInt32 => [105; 110; 116; 51; 50]
  | DFloat32 => [102; 108; 111; 97; 116; 51; 50]
  | DFloat64 => [102; 108; 111; 97; 116; 54; 52]
  end%N.

Definition all_dt : list dt := [DInt8; DUint8; DInt16; DUint16; DInt32; DFloat32; DFloat64].

Definition dt_of_name (s : str) : option dt := find (fun d => str_eqb (dt_name d) s) all_dt.

(** result_type of a set of dtypes given by its seven membership bits:
    - a float present: float64 if float64 or int32 is present (an int32 does not fit a float32 mantissa),
      otherwise float32;
    - integers only, none signed: the widest;
    - integers only, some signed: the signed type of max(widest signed, twice the widest unsigned) bits. *)
Definition rt7 (i8 u8 i16 u16 i32 f32 f64 : bool) : dt :=
  if f32 || f64 then (if f64 || i32 then DFloat64 else DFloat32)
  else if i8 || i16 || i32 then
    (if i32 || u16 then DInt32
     else if i16 || u8 then DInt16
     else DInt8)
  else (if u16 then DUint16 else DUint8).

Definition present (l : list dt) (d : dt) : bool := existsb (dt_eqb d) l.

(** numpy result_type of a list of dtypes *)
Definition result_type (l : list dt) : dt :=
  rt7 (present l DInt8) (present l DUint8) (present l DInt16) (present l DUint16) (present l DInt32)
      (present l DFloat32) (present l DFloat64).

(** the binary case: [np.promote_types(a, b)] *)
Definition promote (a b : dt) : dt := result_type [a; b].

Definition bits_stored_of (g : gfile) : nat := match g_bits_stored g with Some b => b | None => bits_stored_default end.

(** [files]: the files of the stack (any order) *)
Definition out_dtype (files : list gfile) : res str :=
  match mapM (fun g => match dt_of_name (g_dtype g) with Some d => Ok d | None => Err ECrash end) files with
  | Err e => Err e
  | Ok [] => Err ECrash                                   (* np.result_type() without arguments: unreachable *)
  | Ok dl =>
      let j := result_type dl in
      let bits := fold_left Nat.max (map bits_stored_of files) 0 in
      Ok (if str_eqb (dt_name j) uint16_str && (bits <? hack_bits) then int16_str else dt_name j)
  end.

(* ------------------------------------------------------------------------------------------ *)
(** * get_affine *)

(** [A[:3, j] = c] *)
Definition set_col3 (A : mat) (j : nat) (c : list Q) : mat :=
  map (fun ir => if fst ir <? 3 then set_nth j (vget c (fst ir)) (snd ir) else snd ir)
      (combine (seq 0 (length A)) A).

(** [i0] = id of the first sorted file; [col] as returned by [Stack.Model.get_affine]:
    [Some (a, b)]: the slice column is [affine(b)[:3,3] - affine(a)[:3,3]] (files_per_vol > 1: a, b = first
    two sorted files), [None]: the wrapper's own column.  (Since fix 9c7aa81 get_affine works on a COPY of the
    first file's affine; the file's own image is not edited.) *)
Definition stack_affine (gs : list gfile) (i0 : nat) (col : option (nat * nat)) : res mat :=
  match glookup gs i0 with
  | None => Err ECrash
  | Some g0 =>
      match col with
      | None => Ok (file_affine g0)
      | Some (a, b) =>
          match glookup gs a, glookup gs b with
          | Some ga, Some gb => Ok (set_col3 (file_affine g0) 2 (vsub (file_offset gb) (file_offset ga)))
          | _, _ => Err ECrash
          end
      end
  end.

(* ------------------------------------------------------------------------------------------ *)
(** * to_nifti: data, affine, reorientation, reversal *)

Record geom_out := mkgeom {
  go_nifti : nifti_out;       (* the sorter's view of the call ([o_order] = file order AFTER the in-place reversal) *)
  go_ord0 : list nat;         (* file order used to fill the array (before the reversal) *)
  go_first : gfile;           (* first sorted file: source of the affine *)
  go_files : list gfile;      (* the files in sorted order (before the reversal) *)
  go_data0 : arr;             (* self.data *)
  go_aff0 : mat;              (* self.affine *)
  go_data : arr;              (* data of the NIfTI image *)
  go_dtype : str;
  go_aff : mat;               (* affine of the NIfTI image *)
  go_T : mat;                 (* reorient_transform *)
  go_ornt : ornt;             (* ornt_trans *)
  go_perm : list nat;         (* permutation *)
  go_flips : list Z           (* flips *)
}.

Definition ornt_perm (o : ornt) : list nat := map (fun r => match r with Some (p, _) => p | None => 0 end) o.
Definition ornt_flips (o : ornt) : list Z := map (fun r => match r with Some (_, f) => f | None => 1%Z end) o.
Definition id_ornt : ornt := [Some (0, 1%Z); Some (1, 1%Z); Some (2, 1%Z)].

Definition is_empty (s : str) : bool := match s with [] => true | _ => false end.

(** the reorientation step: [if voxel_order: ... = reorder_voxels(data, affine, voxel_order)];
    otherwise [permutation = [0, 1, 2]], [reorient_transform = np.eye(4)] (flips are not defined then:
    the model records +1) *)
Definition reorient (d0 : arr) (A0 : mat) (code : str) : res (arr * mat * mat * ornt) :=
  if is_empty code then Ok (d0, A0, eye 4, id_ornt) else reorder d0 A0 code.

(** the [vorder] argument that makes [Stack.Model.to_nifti] take the same decision as the code:
    [files_per_vol > 1 and flips[slice_dim] == -1] with [slice_dim = 2] *)
Definition vorder_of (fi : list entry) (code : str) (o : ornt) : vorder :=
  if is_empty code then None
  else Some (Bool.eqb (ascending fi) (Z.eqb (nth 2 (ornt_flips o) 1%Z) (-1))).

Definition conv_geom (gs : list gfile) (st : state) (code : str) (embed : bool) : state * res geom_out :=
  let '(st1, rd) := get_data st in
  match rd with
  | Err e => (st1, Err e)
  | Ok (ord0, sh) =>
      let '(st2, ra) := get_affine st1 in
      match ra with
      | Err e => (st2, Err e)
      | Ok (i0, col) =>
          match glookup gs i0, stack_affine gs i0 col,
                mapM (fun id => match glookup gs id with Some g => Ok g | None => Err ECrash end) ord0 with
          | Some g0, Ok A0, Ok gl =>
              match out_dtype gl with
              | Err e => (st2, Err e)
              | Ok dtype =>
                  let d0 := stack_data gs ord0 sh in
                  match reorient d0 A0 code with
                  | Err e => (st2, Err e)
                  | Ok (d, A, T, o) =>
                      let '(st3, rn) := to_nifti st (vorder_of (files_info st2) code o) embed in
                      match rn with
                      | Err e => (st3, Err e)
                      | Ok n =>
                          (st3, Ok (mkgeom n ord0 g0 gl d0 A0 d dtype A T o (ornt_perm o) (ornt_flips o)))
                      end
                  end
              end
          | _, _, _ => (st2, Err ECrash)          (* a file without its [gfile]: outside the model *)
          end
      end
  end.

(** the [vorder] a caller of [Stack.Model.to_nifti] has to pass for this stack and voxel-order string *)
Definition conv_vorder (gs : list gfile) (st : state) (code : str) : res vorder :=
  match snd (conv_geom gs st code false) with
  | Ok g => Ok (o_vo (go_nifti g))
  | Err e => Err e
  end.
