(** Executable model of the METADATA half of [DicomStack.to_nifti] (dcmstack.py 951-996, the "embed" block)
    and of what it consumes:

    - [file_ext]    : [NiftiWrapper.from_dicom_wrapper] (dcmmeta.py 1540-1588) as far as the extension goes:
                      a 3-D single-slice extension (rows, cols, 1), slice dim 2, the per-file affine, and EVERY
                      key of the extracted dictionary a global constant (a value None is stored as the constant
                      None, the dictionary is [update]d verbatim);
    - [nest]        : the three-level nest of [DcmMetaExtension.from_sequence] calls (per volume along dim 2 when
                      there are several files per volume, per vector component along dim 3 when the result is 5-D
                      and the time axis is not singular, then along dim 4; 4-D: along dim 3; 3-D: the single
                      volume).  Every call passes affine=None, slice_dim=None: the result takes the affine and the
                      slice dimension of its FIRST input;
    - [rewrite_hdr] : the assignments meta_ext.shape / slice_dim / affine (the setters' checks in order);
    - [filter_meta] : dcmmeta.py 421-438, for filters that depend on the key only;
    - [embed]       : the composition, on the per-file metadata in the FINAL file order;
    - [conv_meta]   : the connection to the sorter: [Stack.Model.to_nifti] gives the final file order [o_order]
                      (after the in-place per-volume reversal) and the shape before reorientation.

    Inputs that belong to the geometry half (coq/Conv/Geom*.v) and are parameters here: the axis permutation
    [perm] of the voxel reordering (perm[i] = output axis of input axis i; [0;1;2] without reordering), the final
    affine (header best affine) and the per-file extension affines [m_aff] (float32-rounded sform of each file).
    Not modelled: key order inside the class dictionaries, the [reorient_transform] field (not part of [hdr]),
    aliasing ([deepcopy] in the 3-D branch).  No proofs here. *)
From Coq Require Import List Bool Arith NArith ZArith QArith Lia.
From DV Require Import Common.Res Common.Str Ext.Types Ext.Classes Ext.Seq Ext.Model.
From DV Require Stack.Model.
Import ListNotations.
Local Open Scope nat_scope.
Local Open Scope res_scope.

(** number of 3-D volumes as [to_nifti] computes it from [data.shape] *)
Definition n_vols (sh : list nat) : nat := nth 3 sh 1 * nth 4 sh 1.

(** position [i < 3] with [perm[i] = j] (0 when there is none) *)
Definition inv_at (perm : list nat) (j : nat) : nat :=
  match find (fun i => nth i perm 3 =? j) [0; 1; 2] with Some i => i | None => 0 end.

(** shape of the reoriented array: output axis [perm[i]] is input axis [i]; trailing axes unchanged *)
Definition permute_shape (perm : list nat) (sh : list nat) : list nat :=
  map (fun j => nth (inv_at perm j) sh 0) [0; 1; 2] ++ skipn 3 sh.

Definition is_4x4 (a : list (list Q)) : bool := (length a =? 4) && forallb (fun r => length r =? 4) a.

(** the three setters (dcmmeta.py 144-174) in the order [to_nifti] calls them *)
Definition rewrite_hdr (h : hdr) (dsh : list nat) (sd : nat) (a : list (list Q)) : res hdr :=
  if negb ((3 <=? length dsh) && (length dsh <? 6)) then Err EValue else
  if negb (sd <? 3) then Err EValue else
  if negb (is_4x4 a) then Err EValue else
  Ok (mk_hdr dsh (Some sd) a (has_time h) (has_vec h)).

Section WithV.
  Context {V : Type} (veqb : V -> V -> bool) (vnone : V).

  (** one source file: what the sorter sees, the affine of its per-file extension, the extracted dictionary *)
  Record mfile := mk_mfile {
    m_file : Stack.Model.file;
    m_aff : list (list Q);
    m_meta : list (key * V) }.

  Fixpoint meta_assoc (k : key) (l : list (key * V)) : option V :=
    match l with
    | [] => None
    | (k', v) :: r => if key_eqb k k' then Some v else meta_assoc k r
    end.

  (** what the file said about [k]; [vnone] when it lacked the key *)
  Definition meta_lookup (f : mfile) (k : key) : V :=
    match meta_assoc k (m_meta f) with Some v => v | None => vnone end.

  Definition file_ext (f : mfile) : res (ext V) :=
    do h <- make_empty_hdr [Stack.Model.f_rows (m_file f); Stack.Model.f_cols (m_file f); 1] (m_aff f) (Some 2);
    Ok (mk_ext h (map (fun kv => (fst kv, (GConst, [snd kv]))) (m_meta f))).

  (** the nest of [from_sequence] calls; [dsh] = data.shape AFTER reorientation, [sd] = slice_dim *)
  Definition nest (exts : list (ext V)) (dsh : list nat) (sd : nat) : res (ext V) :=
    let nv := n_vols dsh in
    if nv =? 0 then Err ECrash else                                (* ZeroDivisionError *)
    let fpv := length exts / nv in
    let ns := nth sd dsh 0 in
    do vol_meta <- (if 1 <? fpv
                    then mapM (fun i => from_sequence veqb vnone (py_slice (i * ns) (i * ns + ns) exts) 2 None None)
                              (seq 0 nv)
                    else Ok exts);
    match length dsh with
    | 5 =>
        let nt := nth 3 dsh 0 in
        do vec_meta <- (if negb (nt =? 1)
                        then mapM (fun v => from_sequence veqb vnone (py_slice (v * nt) (v * nt + nt) vol_meta) 3 None None)
                                  (seq 0 (nth 4 dsh 0))
                        else Ok vol_meta);
        from_sequence veqb vnone vec_meta 4 None None
    | 4 => from_sequence veqb vnone vol_meta 3 None None
    | _ => match vol_meta with m :: _ => Ok m | [] => Err EIndex end
    end.

  (** [filter_meta] for a key-only filter ([true] = remove); KeyError when a class that is valid for the shape has
      no base dictionary *)
  Definition filter_meta (filt : key -> bool) (e : ext V) : res (ext V) :=
    let h := hdr_of e in
    if forallb (fun c => has_base h (base_of c)) (valid_classes h)
    then Ok (mk_ext h (filter (fun kv => negb (class_valid h (fst (snd kv)) && filt (fst kv))) (entries e)))
    else Err EKey.

  Definition embed (fs : list mfile) (dsh : list nat) (sd : nat) (a : list (list Q)) (filt : key -> bool)
    : res (ext V) :=
    do exts <- mapM file_ext fs;
    do m <- nest exts dsh sd;
    do h <- rewrite_hdr (hdr_of m) dsh sd a;
    filter_meta filt (mk_ext h (entries m)).

  (** the metadata of the file the sorter knows under [id] *)
  Definition find_mfile (ms : list mfile) (id : nat) : res mfile :=
    match find (fun m => Stack.Model.f_id (m_file m) =? id) ms with Some m => Ok m | None => Err ECrash end.

  (** conversion with embedding: the extension of the resulting image *)
  Definition conv_meta (ms : list mfile) (st : Stack.Model.state) (vo : Stack.Model.vorder) (perm : list nat)
             (a : list (list Q)) (filt : key -> bool) : Stack.Model.state * res (ext V) :=
    let '(st', r) := Stack.Model.to_nifti st vo true in
    (st', do o <- r;
          do fs <- mapM (find_mfile ms) (Stack.Model.o_order o);
          embed fs (permute_shape perm (Stack.Model.o_shape o)) (nth 2 perm 2) a filt).
End WithV.

Arguments mfile V : clear implicits.
