(** Concrete contents used by the non-vacuity Examples of Props/C10.v. *)
From Coq Require Import List Bool ZArith NArith QArith String.
From DV Require Import Common.Res Common.Str Common.Jv Generated.T_content
  Content.PyVal Content.Model Content.Spec Content.ProofsCorrupt.
Import ListNotations.
Open Scope Z_scope.
Open Scope string_scope.

Definition ident_affine : jv :=
  JArr [JArr [JInt 1; JInt 0; JInt 0; JInt 0]; JArr [JInt 0; JInt 1; JInt 0; JInt 0];
        JArr [JInt 0; JInt 0; JInt 1; JInt 0]; JArr [JInt 0; JInt 0; JInt 0; JInt 1]].

Definition ex_const : obj := [(lit "PatientID", JStr (lit "anon"))].
Definition ex_gslices : obj :=
  [(lit "InstanceNumber", JArr [JInt 1; JInt 2; JInt 3; JInt 4; JInt 5; JInt 6])].
Definition ex_tsamples : obj := [(lit "EchoTime", JArr [JNum (lit "1.5"); JNum (lit "2.5")])].
Definition ex_tslices : obj := [(lit "SliceLocation", JArr [JInt 0; JInt 1; JInt 2])].

(** A valid 4-D extension: shape (2,2,3,2), slice dim 2, version 0.5, one key in every class. *)
Definition ex_obj : obj :=
  [ (K_shape, JArr [JInt 2; JInt 2; JInt 3; JInt 2]);
    (K_affine, ident_affine);
    (K_slice_dim, JInt 2);
    (K_version, JNum (lit "0.5"));
    (N_global, JObj [(N_const, JObj ex_const); (N_slices, JObj ex_gslices)]);
    (N_time, JObj [(N_samples, JObj ex_tsamples); (N_slices, JObj ex_tslices)]) ].
Definition ex_content : jv := JObj ex_obj.

Definition ex_shape : list jv := [JInt 2; JInt 2; JInt 3; JInt 2].
Definition cl_gconst : cname := (N_global, N_const).
Definition cl_gslices : cname := (N_global, N_slices).
Definition cl_tsamples : cname := (N_time, N_samples).
Definition cl_tslices : cname := (N_time, N_slices).

(** One value removed from a per-slice key. *)
Definition ex_short : obj :=
  cls_set cl_tslices (jset (lit "SliceLocation") (JArr [JInt 0; JInt 1]) ex_tslices) ex_obj.
(** A constant's key copied into ('time','samples') with the right number of values. *)
Definition ex_dup : obj :=
  cls_set cl_tsamples (jset (lit "PatientID") (JArr [JInt 7; JInt 8]) ex_tsamples) ex_obj.
(** Two corruptions: a value removed, then an unrelated field (the affine) replaced by another valid one. *)
Definition other_affine : jv :=
  JArr [JArr [JInt 2; JInt 0; JInt 0; JInt 0]; JArr [JInt 0; JInt 2; JInt 0; JInt 0];
        JArr [JInt 0; JInt 0; JInt 2; JInt 0]; JArr [JInt 0; JInt 0; JInt 0; JInt 1]].
Definition ex_double : obj := jset K_affine other_affine ex_short.

(** The same content under version 0.6 lacks dcmmeta_reorient_transform. *)
Definition ex_v06 : obj := jset K_version (JNum (lit "0.6")) ex_obj.

(** ** Witnesses of the blind spots (accepted by check_valid, forbidden by the literal rules) *)
Definition mk_obj (shape : list Z) (sd : jv) (affine : jv) (classes : obj) : obj :=
  ([ (K_shape, JArr (map JInt shape)); (K_affine, affine); (K_slice_dim, sd);
     (K_version, JNum (lit "0.5")) ] ++ classes)%list.

(** shape (2,2,1,2), slice dim 2: ('time','slices') has multiplicity 1, yet holds three values *)
Definition gapw_degenerate : jv :=
  JObj (mk_obj [2; 2; 1; 2] (JInt 2) ident_affine
    [ (N_global, JObj [(N_const, JObj []); (N_slices, JObj [])]);
      (N_time, JObj [(N_samples, JObj []); (N_slices, JObj [(lit "k", JArr [JInt 1; JInt 2; JInt 3])])]) ]).

(** shape (2,2,2,1,2): the 'time' dictionaries are stale; a constant's key is repeated there *)
Definition gapw_stale : jv :=
  JObj (mk_obj [2; 2; 2; 1; 2] JNull ident_affine
    [ (N_global, JObj [(N_const, JObj ex_const); (N_slices, JObj [])]);
      (N_time, JObj [(N_samples, JObj [(lit "PatientID", JArr [JInt 1])]); (N_slices, JObj [])]);
      (N_vector, JObj [(N_samples, JObj []); (N_slices, JObj [])]) ]).

(** shape (2,2,-3,2) *)
Definition gapw_nonpositive : jv :=
  JObj (mk_obj [2; 2; -3; 2] JNull ident_affine
    [ (N_global, JObj [(N_const, JObj ex_const); (N_slices, JObj [])]);
      (N_time, JObj [(N_samples, JObj ex_tsamples); (N_slices, JObj [])]) ]).

(** a 4x4 affine with a string entry *)
Definition gapw_affine : jv :=
  JObj (jset K_affine
    (JArr [JArr [JStr (lit "x"); JInt 0; JInt 0; JInt 0]; JArr [JInt 0; JInt 1; JInt 0; JInt 0];
           JArr [JInt 0; JInt 0; JInt 1; JInt 0]; JArr [JInt 0; JInt 0; JInt 0; JInt 1]]) ex_obj).

(** two values prescribed, the two-character string "ab" given *)
Definition gapw_sized : jv :=
  JObj (cls_set cl_tsamples (jset (lit "EchoTime") (JStr (lit "ab")) ex_tsamples) ex_obj).
