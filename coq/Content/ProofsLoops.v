(** C10 proofs, part 3: the two loops of check_valid against the per-class clauses of the rules. *)
From Coq Require Import List Bool ZArith NArith QArith Lia.
From DV Require Import Common.Res Common.Str Common.Jv Generated.T_content
  Content.PyVal Content.Model Content.Spec Content.ProofsBasic Content.ProofsClasses.
Import ListNotations.
Open Scope Z_scope.

(** ** One iteration of the first loop *)

Lemma check_vals_ok (d : obj) m :
  check_vals (map snd d) m = Ok tt <-> forallb (value_count_ok m) d = true.
Proof.
  induction d as [|[k v] d IH]; simpl.
  - split; reflexivity.
  - unfold value_count_ok at 1, n_values. simpl.
    destruct (py_len v) as [n|e]; simpl.
    + destruct (Z.of_nat n =? m); simpl; [exact IH | split; discriminate].
    + split; discriminate.
Qed.

(** What one iteration demands of the dictionary of a classification whose multiplicity is m. *)
Definition dict_ok (m : Z) (d : obj) : bool :=
  if m =? 0 then is_empty d
  else if 1 <? m then forallb (value_count_ok m) d
  else true.

Lemma check_class_ok (o : obj) cl m :
  class_entry_ok o cl = true ->
  get_multiplicity (JObj o) cl = Ok m ->
  (check_class (JObj o) cl = Ok tt <->
   exists d, class_dict o cl = Some d /\ dict_ok m d = true).
Proof.
  intros Hwf Hm. unfold check_class, class_entry_ok, class_dict in *.
  cbn [py_contains getitem bind]. unfold has_key.
  destruct (jassoc (fst cl) o) as [bv|] eqn:Eb; cbn [negb bind].
  2:{ split; [discriminate | intros [d [H _]]; discriminate]. }
  destruct bv as [| | | | | | bo]; try discriminate.
  cbn [py_contains getitem bind]. unfold has_key.
  destruct (jassoc (snd cl) bo) as [cm|] eqn:Es; cbn [negb bind].
  2:{ split; [discriminate | intros [d [H _]]; discriminate]. }
  destruct cm as [| | | | | | d]; try discriminate.
  rewrite Hm. cbn [bind]. unfold dict_ok.
  destruct (m =? 0) eqn:E0.
  - cbn [py_len bind]. destruct d as [|kv d]; simpl.
    + split; [intros _; exists []; auto | reflexivity].
    + split; [discriminate | intros [d' [H H']]; inversion H; subst; discriminate].
  - destruct (1 <? m) eqn:E1.
    + rewrite check_vals_ok. split.
      * intros H. exists d. auto.
      * intros [d' [H H']]. inversion H; subst. exact H'.
    + split; [intros _; exists d; auto | reflexivity].
Qed.

(** ** The per-class reading of rules 5, 6, 7 *)

Definition has_dict (o : obj) (cl : cname) : bool :=
  match class_dict o cl with Some _ => true | None => false end.

Definition counts_clause (o : obj) (l : list jv) (sd : option nat) (cl : cname) : bool :=
  match decode cl, class_dict o cl with
  | Some (b, s), Some d =>
      let m := n_expected l sd b s in
      if 1 <? m then forallb (value_count_ok m) d else true
  | _, _ => true
  end.

Definition noslice_clause (o : obj) (cl : cname) : bool :=
  match decode cl, class_dict o cl with
  | Some (_, Slices), Some d => is_empty d
  | _, _ => true
  end.

Lemma per_class_split (o : obj) zs sd cl b s :
  Forall (fun z => z <> 0) zs ->
  decode cl = Some (b, s) ->
  ((exists d, class_dict o cl = Some d /\ dict_ok (n_expected (map JInt zs) sd b s) d = true) <->
   has_dict o cl = true /\ counts_clause o (map JInt zs) sd cl = true /\
   (sd = None -> noslice_clause o cl = true)).
Proof.
  intros Hz Hdec. unfold has_dict, counts_clause, noslice_clause, dict_ok. rewrite Hdec.
  pose proof (n_expected_zero zs sd b s Hz) as H0.
  destruct (class_dict o cl) as [d|].
  2:{ split; [intros [d [H _]]; discriminate | intros [H _]; discriminate]. }
  destruct (n_expected (map JInt zs) sd b s =? 0) eqn:E0.
  - apply Z.eqb_eq in E0. rewrite E0. simpl.
    destruct (proj1 H0 E0) as [-> ->].
    split.
    + intros [d' [H H']]. inversion H; subst. auto.
    + intros [_ [_ H]]. exists d. auto.
  - apply Z.eqb_neq in E0.
    assert (Hn : ~ (s = Slices /\ sd = None)) by (intros H; apply E0, H0, H).
    split.
    + intros [d' [H H']]. inversion H; subst d'. split; [reflexivity|]. split; [exact H'|].
      intros ->. destruct s; try reflexivity. exfalso. apply Hn. auto.
    + intros [_ [H _]]. exists d. auto.
Qed.

(** ** The uniqueness loop *)

Lemma class_keys_eq (o : obj) cl d :
  class_dict o cl = Some d -> class_keys (JObj o) cl = Ok (map fst d).
Proof.
  unfold class_dict, class_keys, getitem. intros H.
  destruct (jassoc (fst cl) o) as [[| | | | | | bo]|]; try discriminate. cbn [bind].
  destruct (jassoc (snd cl) bo) as [[| | | | | | d']|]; try discriminate. cbn [bind].
  inversion H. reflexivity.
Qed.

Lemma class_keys_spec_eq (o : obj) cl d :
  class_dict o cl = Some d -> class_keys_spec o cl = map fst d.
Proof. unfold class_keys_spec. intros ->. reflexivity. Qed.

Definition disjoint_pair (o : obj) (c1 c2 : cname) : Prop :=
  intersects (class_keys_spec o c1) (class_keys_spec o c2) = false.

Lemma uniq_inner_ok (o : obj) cl others :
  has_dict o cl = true ->
  Forall (fun c => has_dict o c = true) others ->
  (uniq_inner (JObj o) cl others = Ok tt <->
   Forall (fun c => c <> cl -> disjoint_pair o cl c) others).
Proof.
  intros Hcl Hall. induction others as [|c r IH]; simpl.
  - split; auto.
  - inversion Hall as [|? ? Hc Hr]; subst. specialize (IH Hr).
    rewrite Forall_cons_iff.
    destruct (cname_eqb cl c) eqn:E.
    + apply cname_eqb_eq in E. subst c. rewrite IH. split.
      * intros H. split; [intros Hne; congruence | exact H].
      * intros [_ H]. exact H.
    + assert (Hne : c <> cl).
      { intros ->. rewrite (proj2 (cname_eqb_eq cl cl) eq_refl) in E. discriminate. }
      unfold has_dict in Hcl, Hc.
      destruct (class_dict o cl) as [d1|] eqn:E1; [|discriminate].
      destruct (class_dict o c) as [d2|] eqn:E2; [|discriminate].
      rewrite (class_keys_eq _ _ _ E1), (class_keys_eq _ _ _ E2). cbn [bind].
      unfold disjoint_pair at 1.
      rewrite (class_keys_spec_eq _ _ _ E1), (class_keys_spec_eq _ _ _ E2).
      destruct (intersects (map fst d1) (map fst d2)) eqn:Ei.
      * split; [discriminate|]. intros [Hd _]. specialize (Hd Hne). discriminate.
      * rewrite IH. split.
        -- intros H. split; [intros _; reflexivity | exact H].
        -- intros [_ H]. exact H.
Qed.

Lemma check_unique_ok (o : obj) vc :
  Forall (fun c => has_dict o c = true) vc ->
  (check_unique (JObj o) vc = Ok tt <->
   forall c1 c2, In c1 vc -> In c2 vc -> c1 <> c2 -> disjoint_pair o c1 c2).
Proof.
  intros Hall. unfold check_unique. rewrite forM_ok. rewrite Forall_forall. split.
  - intros H c1 c2 H1 H2 Hne.
    pose proof (H c1 H1) as Hc. rewrite Forall_forall in Hall.
    rewrite uniq_inner_ok in Hc; [| apply Hall; exact H1 | rewrite Forall_forall; exact Hall].
    rewrite Forall_forall in Hc. apply Hc; [exact H2 | congruence].
  - intros H c1 H1. rewrite Forall_forall in Hall.
    rewrite uniq_inner_ok; [| apply Hall; exact H1 | rewrite Forall_forall; exact Hall].
    rewrite Forall_forall. intros c2 H2 Hne. apply H; auto.
Qed.

(** Pairwise disjointness of the key lists = every key has at most one holder. *)

Lemma intersects_true a b :
  intersects a b = true <-> exists k, In k a /\ In k b.
Proof.
  unfold intersects. rewrite existsb_exists. split.
  - intros [k [Ha Hb]]. apply existsb_exists in Hb. destruct Hb as [k' [Hb He]].
    apply str_eqb_eq in He. subst k'. exists k. auto.
  - intros [k [Ha Hb]]. exists k. split; [exact Ha|].
    apply existsb_exists. exists k. split; [exact Hb | apply str_eqb_refl].
Qed.

Lemma existsb_str_in k l : existsb (str_eqb k) l = true <-> In k l.
Proof.
  rewrite existsb_exists. split.
  - intros [x [Hin He]]. apply str_eqb_eq in He. subst. exact Hin.
  - intros H. exists k. split; [exact H | apply str_eqb_refl].
Qed.

Lemma nodup_short_or_two {A} (h : list A) :
  NoDup h -> (length h <= 1)%nat \/ exists a b, a <> b /\ In a h /\ In b h.
Proof.
  intros Hn. destruct h as [|a [|b t]]; simpl; try (left; lia).
  right. exists a, b. inversion Hn as [|? ? Hni _]; subst.
  split; [intros ->; apply Hni; left; reflexivity | split; [left | right; left]; reflexivity].
Qed.

Lemma unique_iff (o : obj) vc :
  NoDup vc ->
  ((forall c1 c2, In c1 vc -> In c2 vc -> c1 <> c2 -> disjoint_pair o c1 c2) <->
   forallb (fun k => (length (holders o vc k) <=? 1)%nat) (flat_map (class_keys_spec o) vc) = true).
Proof.
  intros Hnd. rewrite forallb_forall. split.
  - intros H k Hk. apply Nat.leb_le.
    assert (Hnh : NoDup (holders o vc k)) by (unfold holders; apply NoDup_filter; exact Hnd).
    destruct (nodup_short_or_two _ Hnh) as [Hs | [a [b [Hab [Ha Hb]]]]]; [exact Hs|].
    exfalso. unfold holders in Ha, Hb. rewrite filter_In in Ha, Hb.
    destruct Ha as [Ha Hka], Hb as [Hb Hkb].
    apply existsb_str_in in Hka, Hkb.
    specialize (H a b Ha Hb Hab). unfold disjoint_pair in H.
    assert (intersects (class_keys_spec o a) (class_keys_spec o b) = true); [|congruence].
    apply intersects_true. exists k. auto.
  - intros H c1 c2 H1 H2 Hne. unfold disjoint_pair.
    destruct (intersects (class_keys_spec o c1) (class_keys_spec o c2)) eqn:Ei; [|reflexivity].
    exfalso. apply intersects_true in Ei. destruct Ei as [k [Hk1 Hk2]].
    assert (Hk : In k (flat_map (class_keys_spec o) vc)).
    { apply in_flat_map. exists c1. auto. }
    specialize (H k Hk). apply Nat.leb_le in H.
    assert (Hincl : incl [c1; c2] (holders o vc k)).
    { intros c [<- | [<- | []]]; unfold holders; apply filter_In; split; auto;
        apply existsb_str_in; assumption. }
    assert (Hn2 : NoDup [c1; c2]).
    { constructor; [intros [->|[]]; congruence | constructor; [intros [] | constructor]]. }
    pose proof (NoDup_incl_length Hn2 Hincl) as Hlen. simpl in Hlen. lia.
Qed.
