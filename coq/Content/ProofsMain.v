(** C10 proofs, part 4: check_valid accepts exactly what the rules accept (on wf_domain). *)
From Coq Require Import List Bool ZArith NArith QArith Lia.
From DV Require Import Common.Res Common.Str Common.Jv Generated.T_content
  Content.PyVal Content.Model Content.Spec Content.ProofsBasic Content.ProofsClasses
  Content.ProofsLoops.
Import ListNotations.
Open Scope Z_scope.

Lemma valid_spec_rules (o : obj) :
  valid_spec (JObj o) = true <->
  rule_required o = true /\ rule_affine o = true /\ rule_slice_dim o = true /\ rule_ndim o = true /\
  rule_class_dicts o = true /\ rule_counts o = true /\ rule_no_slice_data o = true /\
  rule_unique o = true.
Proof.
  unfold valid_spec, all_rules. cbn [forallb holds]. rewrite !andb_true_iff. tauto.
Qed.

Lemma valid_spec_holds c :
  valid_spec c = true <-> exists o, c = JObj o /\ forall r, holds r o = true.
Proof.
  split.
  - destruct c; try discriminate. intros H. exists l. split; [reflexivity|].
    apply valid_spec_rules in H. intros []; simpl; tauto.
  - intros [o [-> H]]. apply valid_spec_rules.
    repeat split; [apply (H RRequired) | apply (H RAffine) | apply (H RSliceDim) | apply (H RNdim)
                  | apply (H RClassDicts) | apply (H RCounts) | apply (H RNoSliceData) | apply (H RUnique)].
Qed.

Ltac rule_fails :=
  split; [discriminate
         | let H := fresh in intros H; destruct H as (?&?&?&?&?&?&?&?); congruence].

(** The two loops against rules 5-8, once the geometry is known to be legal. *)
Lemma loops_ok (o : obj) zs sd :
  forallb (class_entry_ok o) (valid_classes_spec (map JInt zs)) = true ->
  jassoc K_shape o = Some (JArr (map JInt zs)) ->
  Forall (fun z => z <> 0) zs ->
  shape_form zs ->
  slice_dim_value o = Some sd ->
  let vc := valid_classes_spec (map JInt zs) in
  (bind (forM_ (check_class (JObj o)) vc) (fun _ => check_unique (JObj o) vc) = Ok tt <->
   rule_class_dicts o = true /\ rule_counts o = true /\ rule_no_slice_data o = true /\
   rule_unique o = true).
Proof.
  intros Hwf Hs Hz Hf Hsd vc.
  assert (Hshape : shape_value o = Some (map JInt zs)) by (unfold shape_value; rewrite Hs; reflexivity).
  (* the first loop, class by class *)
  assert (Hloop1 : forM_ (check_class (JObj o)) vc = Ok tt <->
                   Forall (fun cl => has_dict o cl = true /\
                                     counts_clause o (map JInt zs) sd cl = true /\
                                     (sd = None -> noslice_clause o cl = true)) vc).
  { rewrite forM_ok. rewrite !Forall_forall. split; intros H cl Hin.
    - destruct (valid_class_decodes _ _ Hin) as [b [s [Hdec _]]].
      apply (per_class_split o zs sd cl b s Hz Hdec).
      apply (check_class_ok o cl _).
      + rewrite forallb_forall in Hwf. apply Hwf. exact Hin.
      + apply (mult_spec o zs sd cl b s Hs Hf Hsd Hin Hdec).
      + apply H. exact Hin.
    - destruct (valid_class_decodes _ _ Hin) as [b [s [Hdec _]]].
      apply (check_class_ok o cl (n_expected (map JInt zs) sd b s)).
      + rewrite forallb_forall in Hwf. apply Hwf. exact Hin.
      + apply (mult_spec o zs sd cl b s Hs Hf Hsd Hin Hdec).
      + apply (per_class_split o zs sd cl b s Hz Hdec). apply H. exact Hin. }
  (* rules 5-7 as statements about every valid class *)
  assert (Hr567 : (rule_class_dicts o = true /\ rule_counts o = true /\ rule_no_slice_data o = true) <->
                  Forall (fun cl => has_dict o cl = true /\
                                    counts_clause o (map JInt zs) sd cl = true /\
                                    (sd = None -> noslice_clause o cl = true)) vc).
  { unfold rule_class_dicts, rule_counts, rule_no_slice_data. rewrite Hshape, Hsd.
    fold vc. rewrite Forall_forall. split.
    - intros [H5 [H6 H7]] cl Hin.
      rewrite forallb_forall in H5, H6. split; [apply (H5 cl Hin)|]. split; [apply (H6 cl Hin)|].
      intros ->. rewrite forallb_forall in H7. apply (H7 cl Hin).
    - intros H. split; [|split].
      + apply forallb_forall. intros cl Hin. apply (H cl Hin).
      + apply forallb_forall. intros cl Hin. apply (H cl Hin).
      + destruct sd; [reflexivity|]. apply forallb_forall. intros cl Hin.
        apply (H cl Hin). reflexivity. }
  (* the second loop *)
  assert (Hr8 : Forall (fun c => has_dict o c = true) vc ->
                (check_unique (JObj o) vc = Ok tt <-> rule_unique o = true)).
  { intros Hd. rewrite (check_unique_ok o vc Hd).
    rewrite (unique_iff o vc (valid_classes_nodup _)).
    unfold rule_unique. rewrite Hshape. fold vc. tauto. }
  split.
  - intros H. apply bind_ok in H. destruct H as [[] [H1 H2]].
    apply Hloop1 in H1.
    assert (Hd : Forall (fun c => has_dict o c = true) vc).
    { rewrite Forall_forall in *. intros c Hc. apply (H1 c Hc). }
    apply (Hr8 Hd) in H2. apply Hr567 in H1. tauto.
  - intros [H5 [H6 [H7 H8]]].
    assert (H1 : Forall (fun cl => has_dict o cl = true /\
                                   counts_clause o (map JInt zs) sd cl = true /\
                                   (sd = None -> noslice_clause o cl = true)) vc)
      by (apply Hr567; tauto).
    assert (Hd : Forall (fun c => has_dict o c = true) vc).
    { rewrite Forall_forall in *. intros c Hc. apply (H1 c Hc). }
    apply Hloop1 in H1. rewrite H1. cbn [bind]. apply (Hr8 Hd). exact H8.
Qed.

Theorem check_valid_iff_spec c :
  wf_domain c = true -> (check_valid c = Ok tt <-> valid_spec c = true).
Proof.
  intros Hwf.
  destruct c as [| | | | | | o]; try (split; discriminate).
  rewrite valid_spec_rules.
  unfold wf_domain in Hwf.
  unfold check_valid. cbn [getitem].
  (* version and required keys *)
  destruct (jassoc K_version o) as [ver|] eqn:Ever; cbn [bind].
  2:{ assert (rule_required o = false) by (unfold rule_required; rewrite Ever; reflexivity). rule_fails. }
  pose proof (req_keys_spec ver) as Hrk.
  destruct (version_fields ver) as [req|] eqn:Evf.
  2:{ destruct Hrk as [e He]. rewrite He. cbn [bind].
      assert (rule_required o = false) by (unfold rule_required; rewrite Ever, Evf; reflexivity). rule_fails. }
  rewrite Hrk. cbn [bind content_keys]. rewrite subsetb_spec.
  destruct (forallb (fun k => has_key k o) req) eqn:Ereq; cbn [negb].
  2:{ assert (rule_required o = false) by (unfold rule_required; rewrite Ever, Evf; exact Ereq). rule_fails. }
  assert (R1 : rule_required o = true) by (unfold rule_required; rewrite Ever, Evf; exact Ereq).
  (* affine *)
  destruct (jassoc K_affine o) as [a|] eqn:Ea; cbn [bind].
  2:{ assert (rule_affine o = false) by (unfold rule_affine; rewrite Ea; reflexivity). rule_fails. }
  destruct (is_4x4 a) eqn:E44.
  2:{ assert (rule_affine o = false) by (unfold rule_affine; rewrite Ea; exact E44).
      destruct (np_shape a) as [sh|e] eqn:Esh; cbn [bind]; [|rule_fails].
      destruct (nats_eqb sh [4%nat; 4%nat]) eqn:Eeq; cbn [negb]; [|rule_fails].
      exfalso. assert (is_4x4 a = true); [|congruence].
      apply np_shape_44. exists sh. auto. }
  assert (R2 : rule_affine o = true) by (unfold rule_affine; rewrite Ea; exact E44).
  apply np_shape_44 in E44. destruct E44 as [sh [Esh Eeq]]. rewrite Esh. cbn [bind]. rewrite Eeq. cbn [negb].
  (* slice dim *)
  destruct (jassoc K_slice_dim o) as [sdv|] eqn:Esd; cbn [bind].
  2:{ assert (rule_slice_dim o = false) by (unfold rule_slice_dim, slice_dim_value; rewrite Esd; reflexivity).
      rule_fails. }
  pose proof (check_slice_dim_ok o sdv Esd) as Hsd.
  destruct (check_slice_dim sdv) as [[]|e] eqn:Ecsd; cbn [bind].
  2:{ assert (rule_slice_dim o = false).
      { destruct (rule_slice_dim o); [|reflexivity]. destruct Hsd as [_ Hsd]. discriminate (Hsd eq_refl). }
      rule_fails. }
  assert (R3 : rule_slice_dim o = true) by (apply Hsd; reflexivity).
  assert (Hsdv : exists sd, slice_dim_value o = Some sd).
  { unfold rule_slice_dim in R3. destruct (slice_dim_value o) as [sd|]; [eexists; reflexivity | discriminate]. }
  destruct Hsdv as [sd Hsdv].
  (* shape *)
  unfold shape_of at 1. cbn [getitem].
  destruct (jassoc K_shape o) as [shv|] eqn:Eshape; cbn [bind].
  2:{ assert (rule_ndim o = false) by (unfold rule_ndim, shape_value; rewrite Eshape; reflexivity). rule_fails. }
  destruct shv as [| | | | | l |]; try discriminate;
    try (assert (rule_ndim o = false) by (unfold rule_ndim, shape_value; rewrite Eshape; reflexivity);
         rule_fails).
  apply andb_true_iff in Hwf. destruct Hwf as [Hwfs Hwfc].
  destruct (entries_ints l Hwfs) as [zs [-> Hz]]. cbn [bind].
  destruct ((3 <=? length (map JInt zs))%nat && (length (map JInt zs) <? 6)%nat) eqn:Elen; cbn [negb].
  2:{ assert (rule_ndim o = false).
      { unfold rule_ndim, shape_value. rewrite Eshape.
        apply andb_false_iff in Elen. apply andb_false_iff.
        destruct Elen as [E|E]; [left; exact E | right].
        apply Nat.ltb_ge in E. apply Nat.leb_gt. lia. }
      rule_fails. }
  assert (R4 : rule_ndim o = true).
  { unfold rule_ndim, shape_value. rewrite Eshape.
    apply andb_true_iff in Elen. destruct Elen as [E1 E2]. apply andb_true_iff. split; [exact E1|].
    apply Nat.ltb_lt in E2. apply Nat.leb_le. lia. }
  assert (Hf : shape_form zs).
  { apply andb_true_iff in Elen. destruct Elen as [E1 E2].
    apply Nat.leb_le in E1. apply Nat.ltb_lt in E2. rewrite map_length in E1, E2.
    apply shape_form_of_len; lia. }
  rewrite (gvc_spec o zs Eshape Hf). cbn [bind].
  rewrite (loops_ok o zs sd Hwfc Eshape Hz Hf Hsdv). tauto.
Qed.
