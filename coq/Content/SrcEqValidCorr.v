(** Correspondence glue for the part "valid" of the plugin SRC: evaluates the TRANSLATED check_valid
    (Generated/T_src_valid.v, with np.array / the version table provided by Content/Model.v) on a raw content and
    compares accept / exception class with what the real DcmMetaExtension.from_json did. *)
From Coq Require Import List Bool ZArith NArith QArith.
From DV Require Import Common.Res Common.Str Common.Jv Generated.T_content Generated.T_src_valid Content.Model.
Import ListNotations.

Record case := mk_case { c_content : jv; c_obs : res unit }.

Definition run (c : jv) : res unit := check_valid_dyn np_shape req_keys c classifications.

Definition check (c : case) : bool :=
  match run (c_content c), c_obs c with
  | Ok _, Ok _ => true
  | Err a, Err b => err_eqb a b
  | _, _ => false
  end.
Definition show (c : case) : res unit := run (c_content c).
