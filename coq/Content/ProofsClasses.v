(** C10 proofs, part 2: get_valid_classes and get_multiplicity compute the documented class set and
    the documented number of values (on shapes of 3 to 5 integer entries). *)
From Coq Require Import List Bool ZArith NArith QArith Lia.
From DV Require Import Common.Res Common.Str Common.Jv Generated.T_content
  Content.PyVal Content.Model Content.Spec Content.ProofsBasic.
Import ListNotations.
Open Scope Z_scope.

(** ** Shapes inside the domain *)

Lemma entries_ints l :
  forallb shape_entry_ok l = true ->
  exists zs, l = map JInt zs /\ Forall (fun z => z <> 0) zs.
Proof.
  induction l as [|v l IH]; simpl; intros H.
  - exists []. split; [reflexivity | constructor].
  - apply andb_true_iff in H. destruct H as [Hv Hl].
    destruct (IH Hl) as [zs [-> Hz]].
    destruct v; try discriminate. simpl in Hv.
    exists (z :: zs). split; [reflexivity|]. constructor; [|exact Hz].
    intros ->. discriminate.
Qed.

Lemma shape_of_eq (o : obj) l :
  jassoc K_shape o = Some (JArr l) -> shape_of (JObj o) = Ok l.
Proof. intros H. unfold shape_of, getitem. rewrite H. reflexivity. Qed.

Lemma is_one_int d : is_one (JInt d) = (d =? 1).
Proof. destruct d as [|[p|p|]|p]; reflexivity. Qed.

(** The three shapes of legal length, spelled out. *)
Inductive shape_form : list Z -> Prop :=
| SF3 a b c : shape_form [a; b; c]
| SF4 a b c d : shape_form [a; b; c; d]
| SF5 a b c d e : shape_form [a; b; c; d; e].

Lemma shape_form_of_len (zs : list Z) :
  (3 <= length zs)%nat -> (length zs <= 5)%nat -> shape_form zs.
Proof.
  intros H1 H2.
  destruct zs as [|a [|b [|c [|d [|e [|f zs]]]]]]; simpl in *; try lia; constructor.
Qed.

(** ** get_valid_classes *)

Lemma gvc_spec (o : obj) zs :
  jassoc K_shape o = Some (JArr (map JInt zs)) ->
  shape_form zs ->
  get_valid_classes (JObj o) = Ok (valid_classes_spec (map JInt zs)).
Proof.
  intros Hs Hf. unfold get_valid_classes. rewrite (shape_of_eq _ _ Hs). cbn [bind].
  destruct Hf as [a b c | a b c d | a b c d e].
  - reflexivity.
  - reflexivity.
  - cbn [map length nth]. rewrite is_one_int.
    unfold valid_classes_spec, applicable.
    change (dim [JInt a; JInt b; JInt c; JInt d; JInt e] 3) with d.
    destruct (d =? 1); reflexivity.
Qed.

Lemma gvc_not_ok (o : obj) l :
  jassoc K_shape o = Some (JArr l) ->
  negb ((3 <=? length l)%nat && (length l <? 6)%nat) = true ->
  exists e, get_valid_classes (JObj o) = Err e.
Proof.
  intros Hs Hl. unfold get_valid_classes. rewrite (shape_of_eq _ _ Hs). cbn [bind].
  destruct l as [|a [|b [|c [|d [|e [|f l]]]]]]; simpl in Hl; try discriminate; eexists; reflexivity.
Qed.

(** ** n_slices *)

Lemma n_slices_eq (o : obj) l sd :
  jassoc K_shape o = Some (JArr l) ->
  slice_dim_value o = Some sd ->
  n_slices (JObj o) =
  match sd with
  | None => Ok None
  | Some d => bind (ent l (Z.of_nat d)) (fun z => Ok (Some z))
  end.
Proof.
  intros Hs Hsd. destruct (slice_dim_cases _ _ Hsd) as [v [Hv Hc]].
  unfold n_slices, getitem. rewrite Hv. cbn [bind].
  destruct sd as [d|].
  - destruct Hc as [Hn [Hi _]].
    destruct v; try congruence; try discriminate;
      rewrite (shape_of_eq _ _ Hs); cbn [bind]; rewrite Hi; reflexivity.
  - subst v. reflexivity.
Qed.

(** ** get_multiplicity as a pure function of what it reads *)

Definition mult_pure (vc : list cname) (sh : list jv) (ns : res (option Z)) (cl : cname) : res Z :=
  if negb (existsb (cname_eqb cl) vc) then Err EValue else
  let base := fst cl in
  let sub := snd cl in
  if str_eqb sub N_slices then
    bind ns (fun ns =>
    match ns with
    | None => Ok 0
    | Some n =>
        if str_eqb base N_vector then bind (ent sh 3) (fun d => Ok (n * d))
        else if str_eqb base N_global then mul_all n (skipn 3 sh)
        else Ok n
    end)
  else if str_eqb sub N_samples then
    if str_eqb base N_time then
      bind (ent sh 3) (fun d3 =>
      if Nat.eqb (length sh) 5 then bind (ent sh 4) (fun d4 => Ok (d3 * d4)) else Ok d3)
    else if str_eqb base N_vector then ent sh 4
    else Ok 1
  else Ok 1.

Lemma get_multiplicity_pure c vc sh cl :
  get_valid_classes c = Ok vc -> shape_of c = Ok sh ->
  get_multiplicity c cl = mult_pure vc sh (n_slices c) cl.
Proof.
  intros Hv Hs. unfold get_multiplicity, mult_pure. rewrite Hv, Hs. reflexivity.
Qed.

Lemma sd_lt3 (d : nat) : (d < 3)%nat -> d = 0%nat \/ d = 1%nat \/ d = 2%nat.
Proof. lia. Qed.

Ltac to_nat_lits :=
  change (Pos.to_nat 1) with 1%nat; change (Pos.to_nat 2) with 2%nat;
  change (Pos.to_nat 3) with 3%nat; change (Pos.to_nat 4) with 4%nat.

Ltac mult_case :=
  cbn; unfold ent, py_index; cbn; to_nat_lits; cbn; try reflexivity; try (f_equal; ring).

(** The documented number of values, for every valid classification. *)
Lemma mult_spec (o : obj) zs sd cl b s :
  jassoc K_shape o = Some (JArr (map JInt zs)) ->
  shape_form zs ->
  slice_dim_value o = Some sd ->
  In cl (valid_classes_spec (map JInt zs)) ->
  decode cl = Some (b, s) ->
  get_multiplicity (JObj o) cl = Ok (n_expected (map JInt zs) sd b s).
Proof.
  intros Hs Hf Hsd Hin Hdec.
  rewrite (get_multiplicity_pure _ _ _ _ (gvc_spec _ _ Hs Hf) (shape_of_eq _ _ Hs)).
  rewrite (n_slices_eq _ _ _ Hs Hsd).
  assert (Hd : match sd with Some d => (d < 3)%nat | None => True end).
  { destruct (slice_dim_cases _ _ Hsd) as [v [_ Hc]]. destruct sd; [tauto | exact I]. }
  destruct Hf as [x y z | x y z t | x y z t v].
  - (* 3-D *)
    cbn in Hin.
    repeat (destruct Hin as [<- | Hin]; [cbn in Hdec; inversion Hdec; subst b s |]); try contradiction;
      (destruct sd as [d|];
       [destruct (sd_lt3 d Hd) as [-> | [-> | ->]]; mult_case | mult_case]).
  - (* 4-D *)
    cbn in Hin.
    repeat (destruct Hin as [<- | Hin]; [cbn in Hdec; inversion Hdec; subst b s |]); try contradiction;
      (destruct sd as [d|];
       [destruct (sd_lt3 d Hd) as [-> | [-> | ->]]; mult_case | mult_case]).
  - (* 5-D *)
    unfold valid_classes_spec, applicable in *. cbn [map] in *.
    change (dim [JInt x; JInt y; JInt z; JInt t; JInt v] 3) with t in *.
    destruct (t =? 1) eqn:Et.
    + apply Z.eqb_eq in Et. subst t. cbn in Hin.
      repeat (destruct Hin as [<- | Hin]; [cbn in Hdec; inversion Hdec; subst b s |]); try contradiction;
        (destruct sd as [d|];
         [destruct (sd_lt3 d Hd) as [-> | [-> | ->]]; mult_case | mult_case]).
    + cbn in Hin.
      repeat (destruct Hin as [<- | Hin]; [cbn in Hdec; inversion Hdec; subst b s |]); try contradiction;
        (destruct sd as [d|];
         [destruct (sd_lt3 d Hd) as [-> | [-> | ->]]; mult_case | mult_case]).
Qed.

(** Every valid classification has a base and a sub class the rules know. *)
Lemma valid_class_decodes l cl :
  In cl (valid_classes_spec l) -> exists b s, decode cl = Some (b, s) /\ applicable l b = true.
Proof.
  unfold valid_classes_spec. rewrite filter_In. intros [_ H].
  destruct (decode cl) as [[b s]|]; [|discriminate]. exists b, s. auto.
Qed.

(** ** Table facts (re-checked by computation whenever the tables are regenerated) *)

Fixpoint nodupb (l : list cname) : bool :=
  match l with
  | [] => true
  | x :: r => negb (existsb (cname_eqb x) r) && nodupb r
  end.

Lemma nodupb_sound l : nodupb l = true -> NoDup l.
Proof.
  induction l as [|x r IH]; simpl; intros H; constructor.
  - apply andb_true_iff in H. destruct H as [H _]. apply negb_true_iff in H.
    intros Hin. assert (existsb (cname_eqb x) r = true); [|congruence].
    apply existsb_exists. exists x. split; [exact Hin | apply cname_eqb_eq; reflexivity].
  - apply andb_true_iff in H. apply IH. tauto.
Qed.

Lemma classifications_nodup : NoDup classifications.
Proof. apply nodupb_sound. vm_compute. reflexivity. Qed.

Lemma valid_classes_nodup l : NoDup (valid_classes_spec l).
Proof. unfold valid_classes_spec. apply NoDup_filter. apply classifications_nodup. Qed.

Lemma valid_classes_incl l cl : In cl (valid_classes_spec l) -> In cl classifications.
Proof. unfold valid_classes_spec. rewrite filter_In. tauto. Qed.

(** The first two classifications are always valid: the uniqueness loop always has a pair. *)
Lemma valid_classes_two zs :
  shape_form zs -> exists c1 c2 r, valid_classes_spec (map JInt zs) = c1 :: c2 :: r.
Proof.
  intros Hf. destruct Hf as [x y z | x y z t | x y z t v].
  - do 3 eexists. reflexivity.
  - do 3 eexists. reflexivity.
  - unfold valid_classes_spec, applicable. cbn [map].
    change (dim [JInt x; JInt y; JInt z; JInt t; JInt v] 3) with t.
    destruct (t =? 1); do 3 eexists; reflexivity.
Qed.

(** ** The multiplicity is 0 exactly for per-slice classes without a slice dimension *)

Lemma dim_nonzero zs i : Forall (fun z => z <> 0) zs -> dim (map JInt zs) i <> 0.
Proof.
  intros Hz. unfold dim. destruct (nth_error (map JInt zs) i) as [v|] eqn:E; [|discriminate].
  apply nth_error_In in E. apply in_map_iff in E. destruct E as [z [<- Hin]]. simpl.
  rewrite Forall_forall in Hz. apply Hz. exact Hin.
Qed.

Lemma n_expected_zero zs sd b s :
  Forall (fun z => z <> 0) zs ->
  (n_expected (map JInt zs) sd b s = 0 <-> s = Slices /\ sd = None).
Proof.
  intros Hz. unfold n_expected.
  pose proof (dim_nonzero zs 3 Hz) as H3. pose proof (dim_nonzero zs 4 Hz) as H4.
  destruct s.
  - split; [discriminate | intros [? _]; discriminate].
  - destruct sd as [d|].
    + pose proof (dim_nonzero zs d Hz) as Hd.
      split; [|intros [_ ?]; discriminate]. intros H. exfalso.
      destruct b; try (apply Hd; exact H);
        repeat (apply Z.mul_eq_0 in H; destruct H as [H|H]); auto.
    + split; auto.
  - split; [|intros [? _]; discriminate]. intros H. exfalso.
    destruct b; try discriminate; try (apply H4; exact H).
    apply Z.mul_eq_0 in H. destruct H; auto.
Qed.
