(** C10 proofs, part 1: the scalar clauses (required fields, affine, slice dim, number of dims)
    and generic facts about the monadic loops. *)
From Coq Require Import List Bool ZArith NArith QArith Lia.
From DV Require Import Common.Res Common.Str Common.Jv Generated.T_content
  Content.PyVal Content.Model Content.Spec.
Import ListNotations.
Open Scope Z_scope.

(** ** Generic *)

Lemma res_unit_ok (r : res unit) : is_ok r = true <-> r = Ok tt.
Proof. destruct r as [[]|e]; simpl; split; congruence. Qed.

Lemma bind_ok_iff {A B} (r : res A) (f : A -> res B) b :
  bind r f = Ok b <-> exists a, r = Ok a /\ f a = Ok b.
Proof.
  split.
  - apply bind_ok.
  - intros [a [-> H]]. exact H.
Qed.

Lemma forM_ok {A} (f : A -> res unit) l :
  forM_ f l = Ok tt <-> Forall (fun x => f x = Ok tt) l.
Proof.
  induction l as [|x l IH]; simpl.
  - split; auto.
  - split.
    + intros H. apply bind_ok in H. destruct H as [[] [Hx Hl]].
      constructor; [exact Hx | apply IH; exact Hl].
    + intros H. inversion H as [|? ? Hx Hl]; subst. rewrite Hx. simpl. apply IH; exact Hl.
Qed.

Lemma existsb_keys (o : obj) k : existsb (str_eqb k) (map fst o) = has_key k o.
Proof.
  unfold has_key. induction o as [|[k' v] o IH]; simpl; [reflexivity|].
  destruct (str_eqb k k'); simpl; [reflexivity | exact IH].
Qed.

Lemma has_key_in (o : obj) k : has_key k o = true <-> In k (map fst o).
Proof.
  rewrite <- existsb_keys. rewrite existsb_exists. split.
  - intros [x [Hin Heq]]. apply str_eqb_eq in Heq. subst. exact Hin.
  - intros Hin. exists k. split; [exact Hin | apply str_eqb_refl].
Qed.

(** ** Rule 1: required fields *)

Lemma subsetb_spec req (o : obj) :
  subsetb req (map fst o) = forallb (fun k => has_key k o) req.
Proof.
  unfold subsetb. induction req as [|k r IH]; simpl; [reflexivity|].
  rewrite existsb_keys, IH. reflexivity.
Qed.

Lemma find_all_false {A} (f : A -> bool) l : (forall x, f x = false) -> find f l = None.
Proof. intros H. induction l as [|x l IH]; simpl; [reflexivity|]. rewrite H. exact IH. Qed.

Lemma req_keys_spec v :
  match version_fields v with
  | Some req => req_keys v = Ok req
  | None => exists e, req_keys v = Err e
  end.
Proof.
  unfold version_fields, req_keys.
  destruct v;
    try (match goal with |- context [find ?f ?l] => destruct (find f l) as [e|] end;
         simpl; [reflexivity | eexists; reflexivity]).
  - rewrite find_all_false by (intros; reflexivity). simpl. eexists; reflexivity.
  - rewrite find_all_false by (intros; reflexivity). simpl. eexists; reflexivity.
Qed.

Lemma req_keys_ok v req : req_keys v = Ok req <-> version_fields v = Some req.
Proof.
  pose proof (req_keys_spec v) as H. destruct (version_fields v) as [r|].
  - rewrite H. split; congruence.
  - destruct H as [e He]. rewrite He. split; discriminate.
Qed.

(** ** Rule 2: np.array(a).shape == (4, 4) *)

Definition np_go (s : list nat) (n : nat) : list jv -> res (list nat) :=
  fix go (ys : list jv) : res (list nat) :=
    match ys with
    | [] => Ok (n :: s)
    | y :: ys' => match np_shape y with
                  | Err e => Err e
                  | Ok s' => if nats_eqb s s' then go ys' else Err EValue
                  end
    end.

Lemma np_shape_cons x xs :
  np_shape (JArr (x :: xs)) =
  match np_shape x with
  | Err e => Err e
  | Ok s => np_go s (S (length xs)) xs
  end.
Proof. reflexivity. Qed.

Lemma np_go_ok s n ys sh :
  np_go s n ys = Ok sh <-> sh = n :: s /\ Forall (fun y => np_shape y = Ok s) ys.
Proof.
  induction ys as [|y ys IH]; simpl.
  - split; [intros H; inversion H; auto | intros [-> _]; reflexivity].
  - destruct (np_shape y) as [s'|e] eqn:Ey.
    + destruct (nats_eqb s s') eqn:Es.
      * apply nats_eqb_eq in Es. subst s'. rewrite IH. split.
        -- intros [-> Hf]. split; [reflexivity | constructor; assumption].
        -- intros [-> Hf]. inversion Hf; subst. split; [reflexivity | assumption].
      * split; [discriminate|]. intros [_ Hf]. inversion Hf as [|? ? Hy _]; subst.
        rewrite Ey in Hy. inversion Hy; subst. rewrite (proj2 (nats_eqb_eq s s) eq_refl) in Es. discriminate.
    + split; [discriminate|]. intros [_ Hf]. inversion Hf as [|? ? Hy _]; subst. congruence.
Qed.

Lemma np_shape_arr l sh :
  np_shape (JArr l) = Ok sh <->
  (l = [] /\ sh = [0%nat]) \/
  (l <> [] /\ exists s, sh = length l :: s /\ Forall (fun y => np_shape y = Ok s) l).
Proof.
  destruct l as [|x xs].
  - simpl. split.
    + intros H. inversion H. left; auto.
    + intros [[_ ->]|[H _]]; [reflexivity | congruence].
  - rewrite np_shape_cons. split.
    + intros H. right. split; [discriminate|].
      destruct (np_shape x) as [s|e] eqn:Ex; [|discriminate].
      apply np_go_ok in H. destruct H as [-> Hf]. exists s. split; [reflexivity|].
      constructor; assumption.
    + intros [[H _]|[_ [s [-> Hf]]]]; [discriminate|].
      inversion Hf as [|? ? Hx Hxs]; subst. rewrite Hx. apply np_go_ok. split; [reflexivity | assumption].
Qed.

Lemma np_shape_scalar v : np_shape v = Ok [] <-> is_scalar v = true.
Proof.
  destruct v; simpl; try (split; [reflexivity | reflexivity]).
  split; [|discriminate]. intros H.
  change (np_shape (JArr l) = Ok []) in H. apply np_shape_arr in H.
  destruct H as [[_ H]|[_ [s [H _]]]]; discriminate.
Qed.

Lemma Forall_len4 {A} (P : A -> Prop) l :
  length l = 4%nat -> Forall P l ->
  exists a b c d, l = [a; b; c; d] /\ P a /\ P b /\ P c /\ P d.
Proof.
  intros Hl Hf.
  destruct l as [|a [|b [|c [|d [|e l]]]]]; simpl in Hl; try discriminate.
  inversion Hf as [|? ? Ha Hf1]; subst. inversion Hf1 as [|? ? Hb Hf2]; subst.
  inversion Hf2 as [|? ? Hc Hf3]; subst. inversion Hf3 as [|? ? Hd _]; subst.
  exists a, b, c, d. auto.
Qed.

Lemma np_shape_row v : np_shape v = Ok [4%nat] <-> is_row4 v = true.
Proof.
  split.
  - intros H. destruct v; try discriminate.
    apply np_shape_arr in H. destruct H as [[_ H]|[_ [s [H Hf]]]]; [discriminate|].
    inversion H as [[Hl Hs]]. subst s.
    destruct (Forall_len4 _ _ (eq_sym Hl) Hf) as [a [b [c [d [-> [Ha [Hb [Hc Hd]]]]]]]].
    simpl. apply np_shape_scalar in Ha, Hb, Hc, Hd. rewrite Ha, Hb, Hc, Hd. reflexivity.
  - intros H. destruct v; try discriminate.
    destruct l as [|a [|b [|c [|d [|e l]]]]]; try discriminate.
    simpl in H. rewrite !andb_true_iff in H. destruct H as [[[Ha Hb] Hc] Hd].
    apply np_shape_arr. right. split; [discriminate|]. exists []. split; [reflexivity|].
    repeat constructor; apply np_shape_scalar; assumption.
Qed.

Lemma np_shape_44 a :
  (exists sh, np_shape a = Ok sh /\ nats_eqb sh [4%nat; 4%nat] = true) <-> is_4x4 a = true.
Proof.
  split.
  - intros [sh [H Hs]]. apply nats_eqb_eq in Hs. subst sh.
    destruct a; try discriminate.
    apply np_shape_arr in H. destruct H as [[_ H]|[_ [s [H Hf]]]]; [discriminate|].
    inversion H as [[Hl Hs]]. subst s.
    destruct (Forall_len4 _ _ (eq_sym Hl) Hf) as [r1 [r2 [r3 [r4 [-> [H1 [H2 [H3 H4]]]]]]]].
    simpl. apply np_shape_row in H1, H2, H3, H4. rewrite H1, H2, H3, H4. reflexivity.
  - intros H. destruct a; try discriminate.
    destruct l as [|r1 [|r2 [|r3 [|r4 [|e l]]]]]; try discriminate.
    simpl in H. rewrite !andb_true_iff in H. destruct H as [[[H1 H2] H3] H4].
    exists [4%nat; 4%nat]. split; [|reflexivity].
    apply np_shape_arr. right. split; [discriminate|]. exists [4%nat]. split; [reflexivity|].
    repeat constructor; apply np_shape_row; assumption.
Qed.

(** ** Rule 3: slice dim *)

Lemma check_slice_dim_ok (o : obj) v :
  jassoc K_slice_dim o = Some v ->
  (check_slice_dim v = Ok tt <-> rule_slice_dim o = true).
Proof.
  intros Hv. unfold rule_slice_dim, slice_dim_value. rewrite Hv.
  destruct v as [| b | z | t | s | l | l]; simpl; try (split; [reflexivity | reflexivity]);
    try (split; discriminate).
  - destruct b; simpl; split; reflexivity.
  - destruct z as [|p|p]; simpl; try (split; [reflexivity | reflexivity]); try (split; discriminate).
    destruct p as [p|p|]; simpl; try (split; [reflexivity | reflexivity]).
    + destruct p; simpl; split; discriminate.
    + destruct p; simpl; try (split; discriminate). split; reflexivity.
Qed.

(** The value the model works with when the slice dim is legal. *)
Lemma slice_dim_cases (o : obj) sd :
  slice_dim_value o = Some sd ->
  exists v, jassoc K_slice_dim o = Some v /\
    match sd with
    | None => v = JNull
    | Some d => v <> JNull /\ as_int v = Some (Z.of_nat d) /\ (d < 3)%nat
    end.
Proof.
  unfold slice_dim_value. destruct (jassoc K_slice_dim o) as [v|]; [|discriminate].
  intros H. exists v. split; [reflexivity|].
  destruct v as [| b | z | t | s | l | l]; simpl in H; try discriminate.
  - inversion H. reflexivity.
  - destruct b; inversion H; simpl; (split; [discriminate | split; [reflexivity | lia]]).
  - destruct z as [|[p|p|]|p]; simpl in H; try discriminate;
      try (destruct p; simpl in H; try discriminate);
      inversion H; simpl; (split; [discriminate | split; [reflexivity | lia]]).
Qed.
