(** Correspondence glue for C10: a case carries the raw content and what the implementation did.
    The property says "rejected" without naming an exception class, so model and implementation are
    compared on RAISED vs NOT RAISED (any exception = refusal); values are compared exactly. *)
From Coq Require Import List Bool ZArith NArith.
From DV Require Import Common.Res Common.Str Common.Jv Generated.T_content Content.PyVal Content.Model.
Import ListNotations.

Definition agree {A} (m o : res A) (eqb : A -> A -> bool) : bool :=
  match m, o with
  | Ok a, Ok b => eqb a b
  | Err _, Err _ => true
  | _, _ => false
  end.

Fixpoint all2 {A B} (f : A -> B -> bool) (l : list A) (r : list B) : bool :=
  match l, r with
  | [], [] => true
  | x :: l', y :: r' => f x y && all2 f l' r'
  | _, _ => false
  end.

Definition cname_list_eqb (a b : list cname) : bool := all2 cname_eqb a b.

(** Part "check": [DcmMetaExtension.from_json(json.dumps(content))] accepted or raised; optionally
    get_valid_classes() and get_multiplicity(cl) for the classifications named in the case. *)
Record case := mk_case {
  content : jv;
  obs : res unit;
  obs_classes : option (res (list cname));
  obs_mults : list (cname * res Z)
}.

Definition check (k : case) : bool :=
  agree (check_valid (content k)) (obs k) (fun _ _ => true)
  && match obs_classes k with
     | None => true
     | Some oc => agree (get_valid_classes (content k)) oc cname_list_eqb
     end
  && forallb (fun p : cname * res Z => agree (get_multiplicity (content k) (fst p)) (snd p) Z.eqb)
             (obs_mults k).

Definition show (k : case) :=
  (check_valid (content k), get_valid_classes (content k),
   map (fun p : cname * res Z => get_multiplicity (content k) (fst p)) (obs_mults k)).

(** Part "gate": from_runtime_repr on every candidate content, and NiftiWrapper(img, make_empty).
    [obs_wrap] = the wrapper raised, or the position of the adopted extension ([None] = a new empty
    one was made) together with the content of the adopted extension.  What C10_gate states is
    compared: whatever the wrapper adopts is a dcmmeta candidate of the header (or, with
    make_empty, a fresh extension) whose content check_valid accepts; hence an image without an
    acceptable candidate is refused unless make_empty.  Which exception is raised is not compared. *)
Record gcase := mk_gcase {
  exts : list (Z * jv);
  make_empty : bool;
  obs_rt : list (option (res unit));      (* per extension: None for a foreign ecode *)
  obs_wrap : res (option nat * jv)
}.

Definition gcheck (k : gcase) : bool :=
  all2 (fun (e : Z * jv) o =>
          match o with
          | None => true
          | Some r => agree (rmap (fun _ => tt) (from_runtime_repr (snd e))) r (fun _ _ => true)
          end) (exts k) (obs_rt k)
  && match obs_wrap k with
     | Err _ => true
     | Ok (Some i, c) =>
         match nth_error (exts k) i with
         | Some (code, c') => Z.eqb code dcm_meta_ecode && jv_eqb c c' && is_ok (check_valid c')
         | None => false
         end
     | Ok (None, c) => make_empty k && is_ok (check_valid c)
     end.

Definition gshow (k : gcase) :=
  (map (fun e : Z * jv => check_valid (snd e)) (exts k),
   match obs_wrap k with
   | Ok (_, c) => rmap fst (wrapper_init (exts k) (make_empty k) c)
   | Err _ => rmap fst (wrapper_init (exts k) (make_empty k) JNull)
   end).
