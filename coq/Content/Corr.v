(** Correspondence glue for C10: a case carries the raw content and what the implementation did. *)
From Coq Require Import List Bool ZArith NArith.
From DV Require Import Common.Res Common.Str Common.Jv Generated.T_content Content.PyVal Content.Model.
Import ListNotations.

Definition z_eqb_res (a b : res Z) : bool := res_eqb Z.eqb a b.

(** accept/reject must agree; the exception class too when [ce] (the case lies in the exact domain). *)
Definition agree {A} (m o : res A) (eqb : A -> A -> bool) (ce : bool) : bool :=
  match m, o with
  | Ok a, Ok b => eqb a b
  | Err e, Err f => if ce then err_eqb e f else true
  | _, _ => false
  end.

Fixpoint all2 {A B} (f : A -> B -> bool) (l : list A) (r : list B) : bool :=
  match l, r with
  | [], [] => true
  | x :: l', y :: r' => f x y && all2 f l' r'
  | _, _ => false
  end.

Definition cname_list_eqb (a b : list cname) : bool := all2 cname_eqb a b.

(** Part "check": [DcmMetaExtension.from_json(json.dumps(content))] accepted or raised;
    optionally get_valid_classes() and get_multiplicity(cl) for every table classification. *)
Record case := mk_case {
  content : jv;
  obs : res unit;
  cmp_err : bool;
  obs_classes : option (res (list cname));
  obs_mults : option (list (res Z))
}.

Definition check (k : case) : bool :=
  agree (check_valid (content k)) (obs k) (fun _ _ => true) (cmp_err k)
  && match obs_classes k with
     | None => true
     | Some oc => agree (get_valid_classes (content k)) oc cname_list_eqb true
     end
  && match obs_mults k with
     | None => true
     | Some om => all2 (fun cl o => agree (get_multiplicity (content k) cl) o Z.eqb true) classifications om
     end.

Definition show (k : case) :=
  (check_valid (content k), get_valid_classes (content k),
   map (get_multiplicity (content k)) classifications).

(** Part "gate": from_runtime_repr on every candidate content, and NiftiWrapper(img, make_empty). *)
Record gcase := mk_gcase {
  exts : list (Z * jv);
  make_empty : bool;
  empty : jv;
  obs_rt : list (option (res unit));      (* per extension: None for a foreign ecode *)
  obs_wrap : res (option nat);
  gcmp_err : bool
}.

Definition opt_nat_eqb (a b : option nat) : bool :=
  match a, b with
  | None, None => true
  | Some x, Some y => Nat.eqb x y
  | _, _ => false
  end.

Definition gcheck (k : gcase) : bool :=
  all2 (fun (e : Z * jv) o =>
          match o with
          | None => true
          | Some r => agree (rmap (fun _ => tt) (from_runtime_repr (snd e))) r (fun _ _ => true) (gcmp_err k)
          end) (exts k) (obs_rt k)
  && agree (rmap fst (wrapper_init (exts k) (make_empty k) (empty k))) (obs_wrap k) opt_nat_eqb (gcmp_err k).

Definition gshow (k : gcase) :=
  (map (fun e : Z * jv => check_valid (snd e)) (exts k),
   rmap fst (wrapper_init (exts k) (make_empty k) (empty k))).
