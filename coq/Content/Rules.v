(** The format rules of property C10 written LITERALLY from the property text -- stricter than what
    check_valid inspects (Content/Spec.v [valid_spec] = "what the code checks").

      required top-level fields for its version;  a 4x4 affine OF NUMBERS;  slice dimension None or
      0..2;  3 to 5 POSITIVE dimensions;  the classification dictionaries required for that
      dimensionality;  for EVERY varying classification valid for the shape exactly `multiplicity`
      values per key, as a LIST -- including multiplicity 1 (a one-element list);  no key in two
      classification dictionaries AT ALL (all six, valid for the shape or stale);  no per-slice
      data without a slice dimension.

    [gap] is the explicit list of situations that [valid_spec] (and check_valid) lets through
    although the literal rules forbid them.  JSON booleans are read as the ints 1/0, as Python
    does (PyVal.as_int). *)
From Coq Require Import List Bool ZArith NArith QArith Lia.
From DV Require Import Common.Res Common.Str Common.Jv Generated.T_content Content.PyVal Content.Spec.
Import ListNotations.
Open Scope Z_scope.

(** ** Literal clauses that are stricter than their counterpart in Spec.v *)

(** a 4x4 affine of numbers *)
Definition is_number (v : jv) : bool :=
  match v with JInt _ | JNum _ | JBool _ => true | _ => false end.
Definition row_numbers (r : jv) : bool :=
  match r with JArr es => forallb is_number es | _ => false end.
Definition affine_numbers (o : obj) : bool :=
  match jassoc K_affine o with Some (JArr rows) => forallb row_numbers rows | _ => false end.
Definition lit_affine (o : obj) : bool := rule_affine o && affine_numbers o.

(** 3 to 5 positive dimensions *)
Definition pos_entry (v : jv) : bool := match v with JInt z => 1 <=? z | _ => false end.
Definition lit_shape (o : obj) : bool :=
  match shape_value o with
  | Some l => (3 <=? length l)%nat && (length l <=? 5)%nat && forallb pos_entry l
  | None => false
  end.

(** exactly m values, as a list *)
Definition is_list_of (m : Z) (v : jv) : bool :=
  match v with JArr l => Z.of_nat (length l) =? m | _ => false end.
Definition is_list (v : jv) : bool := match v with JArr _ => true | _ => false end.

(** every varying classification valid for the shape: exactly `multiplicity` values per key *)
Definition lit_counts (o : obj) : bool :=
  match shape_value o, slice_dim_value o with
  | Some l, Some sd =>
      forallb (fun cl =>
                 match decode cl, class_dict o cl with
                 | Some (b, s), Some d =>
                     match s with
                     | Const => true
                     | _ => let m := n_expected l sd b s in
                            if 1 <=? m then forallb (fun kv => is_list_of m (snd kv)) d else true
                     end
                 | _, _ => true
                 end) (valid_classes_spec l)
  | _, _ => true
  end.

(** no key in two classification dictionaries at all: all six, valid for the shape or not *)
Definition lit_unique (o : obj) : bool :=
  forallb (fun k => (length (holders o classifications k) <=? 1)%nat)
          (flat_map (class_keys_spec o) classifications).

Definition valid_rules (c : jv) : bool :=
  match c with
  | JObj o =>
      rule_required o && lit_affine o && rule_slice_dim o && lit_shape o &&
      rule_class_dicts o && lit_counts o && rule_no_slice_data o && lit_unique o
  | _ => false
  end.

(** ** The blind spots of check_valid *)

(** a shape entry that is not a positive int, e.g. shape (2,2,-3,2) *)
Definition gap_nonpositive (o : obj) : bool :=
  match shape_value o with Some l => negb (forallb pos_entry l) | None => false end.

(** an affine of the right form with an entry that is not a number, e.g. a string *)
Definition gap_affine (o : obj) : bool := rule_affine o && negb (affine_numbers o).

(** a varying classification of multiplicity 1 (its dimension has size 1) holding a value that
    is not a one-element list, e.g. shape (2,2,1,2), slice dim 2, three values under time/slices *)
Definition gap_degenerate (o : obj) : bool :=
  match shape_value o, slice_dim_value o with
  | Some l, Some sd =>
      existsb (fun cl =>
                 match decode cl, class_dict o cl with
                 | Some (b, s), Some d =>
                     match s with
                     | Const => false
                     | _ => (n_expected l sd b s =? 1) && existsb (fun kv => negb (is_list_of 1 (snd kv))) d
                     end
                 | _, _ => false
                 end) (valid_classes_spec l)
  | _, _ => false
  end.

(** a varying classification of multiplicity m > 1 holding a value that is not a list (a string
    of m characters or a dict of m members passes len()) *)
Definition gap_sized (o : obj) : bool :=
  match shape_value o, slice_dim_value o with
  | Some l, Some sd =>
      existsb (fun cl =>
                 match decode cl, class_dict o cl with
                 | Some (b, s), Some d =>
                     match s with
                     | Const => false
                     | _ => (1 <? n_expected l sd b s) && existsb (fun kv => negb (is_list (snd kv))) d
                     end
                 | _, _ => false
                 end) (valid_classes_spec l)
  | _, _ => false
  end.

(** a key that sits in two of the six classification dictionaries (when [rule_unique] holds, at
    least one of the two is a stale dictionary: one of a classification not valid for the shape) *)
Definition gap_stale (o : obj) : bool := negb (lit_unique o).

Definition gap (c : jv) : bool :=
  match c with
  | JObj o => gap_nonpositive o || gap_affine o || gap_degenerate o || gap_sized o || gap_stale o
  | _ => false
  end.
