(** The format rules of a DcmMeta content dictionary, written from the property text (C10) and the
    format description (doc/DcmMeta_Extension.rst), NOT from check_valid:

      "required top-level fields [for its version], a 4x4 affine, slice dimension None or 0..2,
       3 to 5 dimensions, the classification dictionaries required for that dimensionality, the
       right number of values for every varying key, no key in two classifications, and no
       per-slice data without a slice dimension."

    [valid_spec] is the conjunction of eight independent clauses, one per rule ([holds r]); each
    clause reads only a few top-level fields ([reads r]) and is vacuously true when the geometry it
    speaks about is undefined (that is then the fault of the slice-dim / dimension clause).

    The number of values of a key is prescribed by the documented layout, with
      S = shape[slice_dim], T = shape[3] (1 when absent), V = shape[4] (1 when absent):
      const 1 | global/slices S*T*V | time/samples T*V | time/slices S | vector/samples V |
      vector/slices S*T. *)
From Coq Require Import List Bool ZArith NArith QArith Lia.
From DV Require Import Common.Res Common.Str Common.Jv Generated.T_content Content.PyVal.
Import ListNotations.
Open Scope Z_scope.

Inductive base := Global | Time | Vector.
Inductive sub := Const | Slices | Samples.

Definition base_of (s : str) : option base :=
  if str_eqb s N_global then Some Global
  else if str_eqb s N_time then Some Time
  else if str_eqb s N_vector then Some Vector
  else None.

Definition sub_of (s : str) : option sub :=
  if str_eqb s N_const then Some Const
  else if str_eqb s N_slices then Some Slices
  else if str_eqb s N_samples then Some Samples
  else None.

Definition decode (cl : cname) : option (base * sub) :=
  match base_of (fst cl), sub_of (snd cl) with
  | Some b, Some s => Some (b, s)
  | _, _ => None
  end.

Definition obj := list (str * jv).

(** ** Reading the geometry *)

(** The shape: a JSON list. *)
Definition shape_value (o : obj) : option (list jv) :=
  match jassoc K_shape o with
  | Some (JArr l) => Some l
  | _ => None
  end.

(** The slice dimension: [Some None] = None, [Some (Some d)] = d with 0 <= d <= 2. *)
Definition slice_dim_value (o : obj) : option (option nat) :=
  match jassoc K_slice_dim o with
  | Some JNull => Some None
  | Some v => match as_int v with
              | Some 0 => Some (Some 0%nat)
              | Some 1 => Some (Some 1%nat)
              | Some 2 => Some (Some 2%nat)
              | _ => None
              end
  | None => None
  end.

(** Size of dimension i; a dimension the shape does not have counts 1. *)
Definition dim (l : list jv) (i : nat) : Z :=
  match nth_error l i with
  | Some v => match as_int v with Some z => z | None => 1 end
  | None => 1
  end.

(** Which base classes exist for a shape: global always; time for 4-D, and for 5-D unless the
    time dimension is a singleton; vector for 5-D. *)
Definition applicable (l : list jv) (b : base) : bool :=
  match b with
  | Global => true
  | Time => Nat.eqb (length l) 4 || (Nat.eqb (length l) 5 && negb (dim l 3 =? 1))
  | Vector => Nat.eqb (length l) 5
  end.

Definition valid_classes_spec (l : list jv) : list cname :=
  filter (fun cl => match decode cl with Some (b, _) => applicable l b | None => false end)
         classifications.

(** Prescribed number of values of one key. *)
Definition n_expected (l : list jv) (sd : option nat) (b : base) (s : sub) : Z :=
  let T := dim l 3 in
  let V := dim l 4 in
  match s with
  | Const => 1
  | Samples => match b with Time => T * V | Vector => V | Global => 1 end
  | Slices => match sd with
              | None => 0
              | Some d => let S := dim l d in
                          match b with Global => S * T * V | Time => S | Vector => S * T end
              end
  end.

(** The dictionary of a classification. *)
Definition class_dict (o : obj) (cl : cname) : option obj :=
  match jassoc (fst cl) o with
  | Some (JObj bo) => match jassoc (snd cl) bo with
                      | Some (JObj d) => Some d
                      | _ => None
                      end
  | _ => None
  end.

Definition class_keys_spec (o : obj) (cl : cname) : list str :=
  match class_dict o cl with Some d => map fst d | None => [] end.

(** How many values a JSON value holds (Python [len]; see PyVal.py_len: a string of m characters
    or a dict of m members counts as m values -- check_valid cannot tell them from a list). *)
Definition n_values (v : jv) : option nat :=
  match py_len v with Ok n => Some n | Err _ => None end.

(** ** The eight rules *)

Inductive rule :=
| RRequired | RAffine | RSliceDim | RNdim | RClassDicts | RCounts | RNoSliceData | RUnique.

Definition all_rules : list rule :=
  [RRequired; RAffine; RSliceDim; RNdim; RClassDicts; RCounts; RNoSliceData; RUnique].

(** 1. required top-level fields for its version *)
Definition version_fields (v : jv) : option (list str) :=
  option_map snd (find (fun e => num_eq_key v (fst e)) req_base_keys_map).

Definition rule_required (o : obj) : bool :=
  match jassoc K_version o with
  | Some v => match version_fields v with
              | Some req => forallb (fun k => has_key k o) req
              | None => false
              end
  | None => false
  end.

(** 2. a 4x4 affine: four rows of four scalars *)
Definition is_scalar (v : jv) : bool := match v with JArr _ => false | _ => true end.
Definition is_row4 (v : jv) : bool :=
  match v with
  | JArr [a; b; c; d] => is_scalar a && is_scalar b && is_scalar c && is_scalar d
  | _ => false
  end.
Definition is_4x4 (v : jv) : bool :=
  match v with
  | JArr [r1; r2; r3; r4] => is_row4 r1 && is_row4 r2 && is_row4 r3 && is_row4 r4
  | _ => false
  end.
Definition rule_affine (o : obj) : bool :=
  match jassoc K_affine o with Some a => is_4x4 a | None => false end.

(** 3. slice dimension None or 0..2 *)
Definition rule_slice_dim (o : obj) : bool :=
  match slice_dim_value o with Some _ => true | None => false end.

(** 4. 3 to 5 dimensions *)
Definition rule_ndim (o : obj) : bool :=
  match shape_value o with
  | Some l => (3 <=? length l)%nat && (length l <=? 5)%nat
  | None => false
  end.

(** 5. the classification dictionaries required for that dimensionality *)
Definition rule_class_dicts (o : obj) : bool :=
  match shape_value o with
  | Some l => forallb (fun cl => match class_dict o cl with Some _ => true | None => false end)
                      (valid_classes_spec l)
  | None => true
  end.

(** 6. the right number of values for every varying key *)
Definition value_count_ok (m : Z) (kv : str * jv) : bool :=
  match n_values (snd kv) with Some n => Z.of_nat n =? m | None => false end.

Definition rule_counts (o : obj) : bool :=
  match shape_value o, slice_dim_value o with
  | Some l, Some sd =>
      forallb (fun cl =>
                 match decode cl, class_dict o cl with
                 | Some (b, s), Some d =>
                     let m := n_expected l sd b s in
                     if 1 <? m then forallb (value_count_ok m) d else true
                 | _, _ => true
                 end) (valid_classes_spec l)
  | _, _ => true
  end.

(** 7. no per-slice data without a slice dimension *)
Definition is_empty {A} (l : list A) : bool := match l with [] => true | _ => false end.

Definition rule_no_slice_data (o : obj) : bool :=
  match shape_value o, slice_dim_value o with
  | Some l, Some None =>
      forallb (fun cl =>
                 match decode cl, class_dict o cl with
                 | Some (_, Slices), Some d => is_empty d
                 | _, _ => true
                 end) (valid_classes_spec l)
  | _, _ => true
  end.

(** 8. no key in two classifications: every key occurs in at most one of the valid dictionaries *)
Definition holders (o : obj) (vc : list cname) (k : str) : list cname :=
  filter (fun cl => existsb (str_eqb k) (class_keys_spec o cl)) vc.

Definition rule_unique (o : obj) : bool :=
  match shape_value o with
  | Some l =>
      let vc := valid_classes_spec l in
      forallb (fun k => (length (holders o vc k) <=? 1)%nat) (flat_map (class_keys_spec o) vc)
  | None => true
  end.

Definition holds (r : rule) (o : obj) : bool :=
  match r with
  | RRequired => rule_required o
  | RAffine => rule_affine o
  | RSliceDim => rule_slice_dim o
  | RNdim => rule_ndim o
  | RClassDicts => rule_class_dicts o
  | RCounts => rule_counts o
  | RNoSliceData => rule_no_slice_data o
  | RUnique => rule_unique o
  end.

Definition valid_spec (c : jv) : bool :=
  match c with
  | JObj o => forallb (fun r => holds r o) all_rules
  | _ => false
  end.

(** Top-level fields a rule reads (for clause locality: double corruptions). *)
Definition base_names : list str := map fst classifications.
Definition all_required_names : list str := flat_map snd req_base_keys_map.

Definition reads (r : rule) : list str :=
  match r with
  | RRequired => K_version :: all_required_names
  | RAffine => [K_affine]
  | RSliceDim => [K_slice_dim]
  | RNdim => [K_shape]
  | RClassDicts => K_shape :: base_names
  | RCounts => K_shape :: K_slice_dim :: base_names
  | RNoSliceData => K_shape :: K_slice_dim :: base_names
  | RUnique => K_shape :: base_names
  end.

(** ** Domain of the equivalence theorem (see props/c10.py ASSUMPTIONS for why): the shape, when it
    is a list, has non-zero int entries, and the entries of the classifications that are valid for
    it are dicts.  (Entries of classifications that are NOT valid for the shape are never read.) *)
Definition shape_entry_ok (v : jv) : bool :=
  match v with JInt z => negb (z =? 0) | _ => false end.

Definition class_entry_ok (o : obj) (cl : cname) : bool :=
  match jassoc (fst cl) o with
  | None => true
  | Some (JObj bo) => match jassoc (snd cl) bo with
                      | None => true
                      | Some (JObj _) => true
                      | Some _ => false
                      end
  | Some _ => false
  end.

Definition wf_domain (c : jv) : bool :=
  match c with
  | JObj o =>
      match jassoc K_shape o with
      | Some (JArr l) =>
          forallb shape_entry_ok l && forallb (class_entry_ok o) (valid_classes_spec l)
      | Some (JStr _) | Some (JObj _) => false
      | _ => true
      end
  | _ => true
  end.
