(** How Python reads the JSON values of a DcmMeta content dictionary.

    A [jv] stands for the *runtime* value that [json.loads] (with the OrderedDict hook) produced:
    [JObj] = dict (association list in insertion order; a real dict has distinct keys, [jassoc]
    takes the first), [JArr] = list, [JStr] = str (code points), [JInt] = int, [JBool] = bool,
    [JNull] = None, [JNum tok] = float whose [repr] is [tok] (the harness prints floats with
    [repr], so token equality is float equality; NaN/Infinity never occur).

    These few definitions are shared by the model (Content/Model.v) and by the rules
    (Content/Spec.v): they say what a value *is*, not what the validity check does with it. *)
From Coq Require Import List Bool ZArith NArith QArith Lia String Ascii.
From DV Require Import Common.Res Common.Str Common.Jv.
Import ListNotations.
Open Scope Z_scope.

(** String literals as code points. *)
Definition lit (s : String.string) : str := map Ascii.N_of_ascii (String.list_ascii_of_string s).

Definition K_version : str := Eval vm_compute in lit "dcmmeta_version".
Definition K_affine : str := Eval vm_compute in lit "dcmmeta_affine".
Definition K_slice_dim : str := Eval vm_compute in lit "dcmmeta_slice_dim".
Definition K_shape : str := Eval vm_compute in lit "dcmmeta_shape".

Definition N_global : str := Eval vm_compute in lit "global".
Definition N_time : str := Eval vm_compute in lit "time".
Definition N_vector : str := Eval vm_compute in lit "vector".
Definition N_const : str := Eval vm_compute in lit "const".
Definition N_slices : str := Eval vm_compute in lit "slices".
Definition N_samples : str := Eval vm_compute in lit "samples".

(** A classification is a pair of names (base class, sub class). *)
Definition cname := (str * str)%type.
Definition cname_eqb (a b : cname) : bool := str_eqb (fst a) (fst b) && str_eqb (snd a) (snd b).

Lemma cname_eqb_eq a b : cname_eqb a b = true <-> a = b.
Proof.
  destruct a as [a1 a2], b as [b1 b2]; unfold cname_eqb; simpl.
  rewrite andb_true_iff, !str_eqb_eq. split; [intros [-> ->]; reflexivity | intros H; inversion H; auto].
Qed.

(** Python [int]: ints, and bools (True == 1, False == 0; bool is a subclass of int). *)
Definition as_int (v : jv) : option Z :=
  match v with
  | JInt z => Some z
  | JBool b => Some (if b then 1 else 0)
  | _ => None
  end.

(** [v == k] for a numeric table key [k] = (repr text, exact value): a float equals the key iff the
    reprs coincide, an int/bool iff its value is the key's exact value. *)
Definition num_eq_key (v : jv) (k : str * Q) : bool :=
  match v with
  | JNum tok => str_eqb tok (fst k)
  | _ => match as_int v with
         | Some z => Qeq_bool (inject_Z z) (snd k)
         | None => false
         end
  end.

(** [len(v)]: defined for lists, strings and dicts; TypeError for None, bool, int, float. *)
Definition py_len (v : jv) : res nat :=
  match v with
  | JArr l => Ok (List.length l)
  | JStr s => Ok (List.length s)
  | JObj o => Ok (List.length o)
  | _ => Err EType
  end.

(** [c[k]] with a string key: KeyError when a dict lacks it, TypeError for every non-dict
    (list / str indices must be integers, None / numbers are not subscriptable). *)
Definition getitem (c : jv) (k : str) : res jv :=
  match c with
  | JObj o => match jassoc k o with Some v => Ok v | None => Err EKey end
  | _ => Err EType
  end.

Definition has_key (k : str) (o : list (str * jv)) : bool :=
  match jassoc k o with Some _ => true | None => false end.

Fixpoint nats_eqb (a b : list nat) : bool :=
  match a, b with
  | [], [] => true
  | x :: a', y :: b' => Nat.eqb x y && nats_eqb a' b'
  | _, _ => false
  end.

Lemma nats_eqb_eq a b : nats_eqb a b = true <-> a = b.
Proof.
  revert b; induction a as [|x a IH]; intros [|y b]; simpl; try (split; [discriminate|congruence]);
    [split; reflexivity|].
  rewrite andb_true_iff, Nat.eqb_eq, IH. split; [intros [-> ->]; reflexivity | intros H; inversion H; auto].
Qed.
