(** The hand-written model of DcmMetaExtension.check_valid on the raw content dictionary (Content/Model.v) is
    EQUAL to the definition GENERATED from the current Python sources of check_valid and of everything it calls
    (coq/Generated/T_src_valid.v, produced on every run by tools/tables/t_src_valid.py + py2coq.py; dynamic
    primitives and their conventions: Common/PyOps2Dyn.v).

    External code is provided by the model: [np.array(x)] (an ndarray = its shape) by [Model.np_shape],
    [_req_base_keys_map[v]] by [Model.req_keys] (over the generated table T_content.req_base_keys_map),
    [self.classifications] by the generated table T_content.classifications.

    DOMAIN of the equality ([class_entries_ok]): no classification entry content[base][sub] is a list or a
    str.  There Python builds [set(x)] of the list / str in the uniqueness loop and may accept, while the model
    answers [Err EType] (documented at the head of Content/Model.v as outside its exact domain).  Everything
    else — non-dict contents, missing keys, wrong types, every shape — is covered, error class included, under
    the numeric conventions of Common/PyOps2Dyn.v (ints and bools are the numbers). *)
From Coq Require Import List Bool Arith ZArith NArith QArith Lia.
From DV Require Import Common.Res Common.Str Common.Jv Common.PyOps2 Common.PyOps2Dyn
     Generated.T_content Generated.T_src_valid Content.PyVal Content.Model.
Import ListNotations.
Local Open Scope res_scope.

(** * The dynamic primitives are the model's readings of the values *)

Lemma dyn_getitem_eq c k : dyn_getitem c k = getitem c k.
Proof. reflexivity. Qed.
Lemma dyn_as_int_eq v : dyn_as_int v = as_int v.
Proof. reflexivity. Qed.
Lemma dyn_int_eq v : dyn_int v = ent_int v.
Proof. reflexivity. Qed.
Lemma dyn_len_eq v : dyn_len v = py_len v.
Proof. reflexivity. Qed.

Lemma bind_ret {A} (r : res A) : bind r (fun t => Ok t) = r.
Proof. destruct r; reflexivity. Qed.

Lemma shape_dyn_eq c : shape_dyn c = shape_of c.
Proof.
  unfold shape_dyn, shape_of, K_shape. change dyn_getitem with getitem.
  destruct (getitem c _) as [v|]; [|reflexivity]. cbn [bind]. rewrite bind_ret. destruct v; reflexivity.
Qed.

Lemma is_one_eq v : is_one v = dyn_eq_int v 1.
Proof.
  unfold is_one, dyn_eq_int. change dyn_as_int with as_int. destruct (as_int v) as [z|]; [|reflexivity].
  destruct z as [|p|p]; reflexivity.
Qed.

Lemma py_index_eq (l : list jv) (z : Z) : PyOps2.py_index l (bnd_of_Z z) = Model.py_index l z.
Proof.
  unfold Model.py_index, bnd_of_Z, PyOps2.py_index. cbv zeta.
  destruct (0 <=? z)%Z eqn:E0.
  - apply Z.leb_le in E0. assert (Hlt : (z <? 0)%Z = false) by (apply Z.ltb_ge; exact E0).
    rewrite Hlt. rewrite Hlt. cbn [orb].
    destruct (Z.of_nat (length l) <=? z)%Z eqn:E1; [|reflexivity].
    apply Z.leb_le in E1. replace (nth_error l (Z.to_nat z)) with (@None jv); [reflexivity|].
    symmetry. apply nth_error_None. lia.
  - apply Z.leb_gt in E0. assert (Hlt : (z <? 0)%Z = true) by (apply Z.ltb_lt; exact E0).
    rewrite Hlt.
    destruct (z + Z.of_nat (length l) <? 0)%Z eqn:E1.
    + apply Z.ltb_lt in E1. cbn [orb].
      replace ((1 <=? Z.to_nat (- z))%nat && (Z.to_nat (- z) <=? length l)%nat) with false; [reflexivity|].
      symmetry. apply andb_false_iff. right. apply Nat.leb_gt. lia.
    + apply Z.ltb_ge in E1. cbn [orb].
      replace (Z.of_nat (length l) <=? z + Z.of_nat (length l))%Z with false by (symmetry; apply Z.leb_gt; lia).
      replace ((1 <=? Z.to_nat (- z))%nat && (Z.to_nat (- z) <=? length l)%nat) with true.
      * replace (length l - Z.to_nat (- z))%nat with (Z.to_nat (z + Z.of_nat (length l))) by lia. reflexivity.
      * symmetry. apply andb_true_iff. split; apply Nat.leb_le; lia.
Qed.

(** * get_valid_classes *)

Lemma get_valid_classes_dyn_eq c : get_valid_classes_dyn c classifications = get_valid_classes c.
Proof.
  unfold get_valid_classes_dyn, get_valid_classes. rewrite shape_dyn_eq.
  destruct (shape_of c) as [sh|]; [|reflexivity]. cbn [bind].
  destruct sh as [|a [|b [|c0 [|d [|e [|f r]]]]]]; try reflexivity.
  cbn [length Nat.eqb PyOps2.py_index nth_error bind nth]. rewrite is_one_eq.
  change (Z.of_nat 1) with 1%Z. destruct (dyn_eq_int d 1); reflexivity.
Qed.

(** * n_slices and get_multiplicity *)

(** the model converts the slice count to a number at once, the code when it uses it *)
Lemma n_slices_rel c :
  n_slices c = bind (n_slices_dyn c)
                    (fun o => match o with None => Ok None | Some v => bind (ent_int v) (fun z => Ok (Some z)) end).
Proof.
  unfold n_slices, n_slices_dyn, slice_dim_dyn, K_slice_dim. change dyn_getitem with getitem.
  destruct (getitem c _) as [sd|]; [|reflexivity]. cbn [bind]. rewrite shape_dyn_eq.
  destruct sd; cbn [dyn_is_none]; try reflexivity.
  all: destruct (shape_of c) as [sh|]; [|reflexivity]; cbn [bind]; unfold dyn_index, ent; change dyn_as_int with as_int.
  all: match goal with |- context [as_int ?v] => destruct (as_int v) as [zi|] end; [|reflexivity].
  all: rewrite py_index_eq; destruct (Model.py_index sh zi); reflexivity.
Qed.

Lemma In_of_existsb (cl : cname) (l : list cname) : existsb (cname_eqb cl) l = true -> In cl l.
Proof.
  intros H. apply existsb_exists in H. destruct H as [x [Hin Heq]]. apply cname_eqb_eq in Heq. subst. exact Hin.
Qed.

Lemma ent_int_JInt z : ent_int (JInt z) = Ok z.
Proof. reflexivity. Qed.

Ltac crunch_mult c :=
  unfold ent, Model.py_index;
  cbn -[ent_int Z.mul n_slices n_slices_dyn];
  try change (Pos.to_nat 3) with 3%nat; try change (Pos.to_nat 4) with 4%nat;
  cbn -[ent_int Z.mul n_slices n_slices_dyn];
  rewrite ?n_slices_rel;
  try (destruct (n_slices_dyn c) as [[?v|]|]);
  cbn -[ent_int Z.mul];
  repeat (rewrite ?ent_int_JInt; cbn -[ent_int Z.mul];
          match goal with |- context [ent_int ?v] => destruct (ent_int v); cbn -[ent_int Z.mul] end);
  rewrite ?ent_int_JInt; cbn -[ent_int Z.mul];
  try reflexivity.

Lemma get_multiplicity_dyn_eq c cl : get_multiplicity_dyn c classifications cl = get_multiplicity c cl.
Proof.
  unfold get_multiplicity_dyn, get_multiplicity.
  rewrite get_valid_classes_dyn_eq. unfold get_valid_classes.
  rewrite shape_dyn_eq.
  destruct (shape_of c) as [sh|] eqn:Hsh; [|reflexivity]. cbn [bind].
  change dyn_int with ent_int. unfold dyn_mul. change dyn_int with ent_int.
  change (py_in (py_pair_eqb str_eqb str_eqb) cl) with (existsb (cname_eqb cl)).
  destruct sh as [|a [|b [|c0 [|d [|e [|f r]]]]]]; try reflexivity.
  - cbn [length bind]. destruct (existsb (cname_eqb cl) _) eqn:Hin; [|reflexivity]. cbn [negb].
    apply In_of_existsb in Hin. vm_compute in Hin.
    destruct Hin as [<-|[<-|[]]]; crunch_mult c.
  - cbn [length bind]. destruct (existsb (cname_eqb cl) _) eqn:Hin; [|reflexivity]. cbn [negb].
    apply In_of_existsb in Hin. vm_compute in Hin.
    destruct Hin as [<-|[<-|[<-|[<-|[]]]]]; crunch_mult c.
  - cbn [length nth]. destruct (is_one d).
    + cbn [bind]. destruct (existsb (cname_eqb cl) _) eqn:Hin; [|reflexivity]. cbn [negb].
      apply In_of_existsb in Hin. vm_compute in Hin.
      destruct Hin as [<-|[<-|[<-|[<-|[]]]]]; crunch_mult c.
    + cbn [bind]. destruct (existsb (cname_eqb cl) _) eqn:Hin; [|reflexivity]. cbn [negb].
      apply In_of_existsb in Hin. vm_compute in Hin.
      destruct Hin as [<-|[<-|[<-|[<-|[<-|[<-|[]]]]]]]; crunch_mult c.
Qed.

(** * Sets, containment, loops *)

Lemma jv_eqb_sym a b : jv_eqb a b = jv_eqb b a.
Proof. destruct (jv_eqb_spec a b) as [E|H], (jv_eqb_spec b a) as [E'|H']; try reflexivity; congruence. Qed.

Lemma existsb_filter_neq (P : jv -> bool) (y : jv) (S : list jv) :
  P y = false -> existsb P (filter (fun z => negb (jv_eqb y z)) S) = existsb P S.
Proof.
  intros Hy. induction S as [|z S' IH]; [reflexivity|].
  cbn [filter existsb]. destruct (jv_eqb_spec y z) as [<-|Hn]; cbn [negb].
  - rewrite Hy. exact IH.
  - cbn [existsb]. rewrite IH. reflexivity.
Qed.

Lemma existsb_py_set (P : jv -> bool) (l : list jv) : existsb P (py_set jv_eqb l) = existsb P l.
Proof.
  induction l as [|y r IH]; [reflexivity|].
  cbn [py_set existsb]. destruct (P y) eqn:Hy; [reflexivity|]. cbn [orb].
  rewrite (existsb_filter_neq P y _ Hy). exact IH.
Qed.

Lemma existsb_JStr (k : str) (l : list str) : existsb (jv_eqb (JStr k)) (map JStr l) = existsb (str_eqb k) l.
Proof. induction l as [|x r IH]; [reflexivity|]. cbn [map existsb]. rewrite IH. reflexivity. Qed.

Lemma existsb_map {A B} (f : A -> B) (P : B -> bool) (l : list A) : existsb P (map f l) = existsb (fun x => P (f x)) l.
Proof. induction l as [|x r IH]; [reflexivity|]. cbn [map existsb]. rewrite IH. reflexivity. Qed.

Lemma subset_eq (req keys : list str) :
  py_subset jv_eqb (map JStr req) (py_set jv_eqb (map JStr keys)) = subsetb req keys.
Proof.
  unfold py_subset, subsetb. rewrite forallb_map.
  induction req as [|k r IH]; [reflexivity|]. cbn [forallb]. rewrite IH, existsb_py_set, existsb_JStr. reflexivity.
Qed.

Lemma filter_nonempty {A} (P : A -> bool) (l : list A) : negb (Nat.eqb (length (filter P l)) 0) = existsb P l.
Proof.
  induction l as [|x r IH]; [reflexivity|]. cbn [filter existsb]. destruct (P x); [reflexivity|]. exact IH.
Qed.

Lemma inter_eq (a b : list str) :
  negb (Nat.eqb (length (py_inter jv_eqb (py_set jv_eqb (map JStr a)) (py_set jv_eqb (map JStr b)))) 0) = intersects a b.
Proof.
  unfold py_inter, intersects. rewrite filter_nonempty, existsb_py_set, existsb_map.
  induction a as [|k r IH]; [reflexivity|]. cbn [existsb]. rewrite IH, existsb_py_set, existsb_JStr. reflexivity.
Qed.

Lemma nats_eqb_eq' (a b : list nat) : py_list_eqb Nat.eqb a b = nats_eqb a b.
Proof.
  unfold py_list_eqb. revert b. induction a as [|x xs IH]; intros [|y ys]; try reflexivity.
  cbn [length Nat.eqb combine forallb nats_eqb fst snd]. rewrite <- IH.
  destruct (Nat.eqb x y); [rewrite andb_true_l|rewrite andb_false_l, andb_false_r]; reflexivity.
Qed.

Lemma dyn_contains_eq (c : jv) (k : str) : dyn_contains c (JStr k) = py_contains c k.
Proof.
  destruct c; try reflexivity. cbn [dyn_contains py_contains]. f_equal.
  induction l as [|x r IH]; [reflexivity|]. cbn [existsb]. rewrite IH, jv_eqb_sym. reflexivity.
Qed.

Lemma py_for_forM {A R} (l : list A) (body : A -> unit -> res (ctl R unit)) (f : A -> res unit) :
  (forall x, In x l -> body x tt = bind (f x) (fun _ => Ok (Next tt))) ->
  py_for l tt body = bind (forM_ f l) (fun _ => Ok (Next tt)).
Proof.
  induction l as [|x r IH]; intros H; [reflexivity|].
  cbn [py_for forM_]. rewrite (H x (or_introl eq_refl)).
  destruct (f x) as [[]|e]; [|reflexivity]. cbn [bind]. apply IH. intros y Hy. apply H. right. exact Hy.
Qed.

Lemma check_vals_loop {R} (d : list (str * jv)) (m : Z) (body : str * jv -> unit -> res (ctl R unit)) :
  (forall kv, body kv tt = bind (py_len (snd kv))
                               (fun n => if negb (Z.eqb (Z.of_nat n) m) then Err EInvalidExt else Ok (Next tt))) ->
  py_for d tt body = bind (check_vals (map snd d) m) (fun _ => Ok (Next tt)).
Proof.
  intros H. induction d as [|kv r IH]; [reflexivity|].
  cbn [py_for map check_vals]. rewrite H.
  destruct (py_len (snd kv)) as [n|]; [|reflexivity]. cbn [bind].
  destruct (Z.eqb (Z.of_nat n) m); [|reflexivity]. cbn [negb bind]. exact IH.
Qed.

Lemma uniq_inner_loop {R} (c : jv) (cl : cname) (others : list cname) (body : cname -> unit -> res (ctl R unit)) :
  (forall o, In o others -> body o tt =
     if cname_eqb cl o then Ok (Next tt)
     else bind (class_keys c cl) (fun k1 => bind (class_keys c o) (fun k2 =>
          if intersects k1 k2 then Err EInvalidExt else Ok (Next tt)))) ->
  py_for others tt body = bind (uniq_inner c cl others) (fun _ => Ok (Next tt)).
Proof.
  induction others as [|o r IH]; intros H; [reflexivity|].
  cbn [py_for uniq_inner]. rewrite (H o (or_introl eq_refl)).
  assert (IH' := IH (fun y Hy => H y (or_intror Hy))).
  destruct (cname_eqb cl o); [cbn [bind]; exact IH'|].
  destruct (class_keys c cl) as [k1|]; [|reflexivity]. cbn [bind].
  destruct (class_keys c o) as [k2|]; [|reflexivity]. cbn [bind].
  destruct (intersects k1 k2); [reflexivity|]. cbn [bind]. exact IH'.
Qed.

(** * The domain and the theorem *)

(** a classification entry that is present is not a list and not a str *)
Definition class_entry_ok (c : jv) (cl : cname) : bool :=
  match get_class_dict_dyn c cl with Ok (JArr _) | Ok (JStr _) => false | _ => true end.
Definition class_entries_ok (c : jv) : bool := forallb (class_entry_ok c) classifications.

Lemma keys_rel (c : jv) (cl : cname) : class_entry_ok c cl = true ->
  bind (get_class_dict_dyn c cl) dyn_iter = rmap (map JStr) (class_keys c cl).
Proof.
  unfold class_entry_ok, get_class_dict_dyn, class_keys. destruct cl as [base sub]. cbn [fst snd].
  change dyn_getitem with getitem.
  destruct (getitem c base) as [b|]; [|reflexivity]. cbn [bind].
  destruct (getitem b sub) as [d|]; [|reflexivity]. cbn [bind].
  destruct d; intros H; try reflexivity; try discriminate H.
  cbn [dyn_iter rmap]. rewrite map_map. reflexivity.
Qed.

Lemma valid_sub (c : jv) (vc : list cname) : get_valid_classes c = Ok vc -> forall cl, In cl vc -> In cl classifications.
Proof.
  unfold get_valid_classes. destruct (shape_of c) as [sh|]; [|discriminate]. cbn [bind].
  destruct sh as [|a [|b [|c0 [|d [|e [|f r]]]]]]; cbn [length]; try discriminate.
  - intros H. injection H as <-. intros cl Hin. vm_compute in Hin. vm_compute. tauto.
  - intros H. injection H as <-. intros cl Hin. vm_compute in Hin. vm_compute. tauto.
  - destruct (is_one _); intros H; injection H as <-; intros cl Hin; vm_compute in Hin; vm_compute; tauto.
Qed.

Lemma keys_rel' (c : jv) (cl : cname) {B} (K : list jv -> res B) : class_entry_ok c cl = true ->
  bind (get_class_dict_dyn c cl) (fun t => bind (dyn_iter t) K) = bind (class_keys c cl) (fun k => K (map JStr k)).
Proof.
  intros H. pose proof (keys_rel c cl H) as E.
  destruct (get_class_dict_dyn c cl) as [d|]; destruct (class_keys c cl) as [k|]; cbn [bind rmap] in *;
    try discriminate E; try reflexivity.
  - rewrite E. reflexivity.
  - rewrite E. reflexivity.
  - injection E as ->. reflexivity.
Qed.

(** the slice-dimension test (lines 294-297) *)
Lemma slice_block {A} (sd : jv) (K : res A) :
  bind (if negb (dyn_is_none sd)
        then bind (dyn_int sd) (fun z => if negb (andb (Z.leb (Z.of_nat 0) z) (Z.ltb z (Z.of_nat 3)))
                                         then Err EInvalidExt else Ok (Next tt))
        else Ok (Next tt))
       (fun c7 : ctl A unit => match c7 with Ret rv => Ok rv | Next _ => K end)
  = bind (check_slice_dim sd) (fun _ => K).
Proof.
  change (Z.of_nat 0) with 0%Z. change (Z.of_nat 3) with 3%Z.
  destruct sd; cbn [dyn_is_none negb check_slice_dim as_int dyn_int dyn_as_int bind]; try reflexivity.
  - destruct b; reflexivity.
  - destruct ((0 <=? z)%Z && (z <? 3)%Z); reflexivity.
Qed.

Theorem check_valid_dyn_eq (c : jv) : class_entries_ok c = true ->
  check_valid_dyn np_shape req_keys c classifications = check_valid c.
Proof.
  intros Hok. unfold check_valid_dyn, check_valid.
  unfold version_dyn, K_version. change dyn_getitem with getitem. rewrite bind_ret.
  destruct (getitem c _) as [ver|] eqn:Hver; [|reflexivity]. cbn [bind].
  destruct (req_keys ver) as [req|]; [|reflexivity]. cbn [bind].
  assert (Hc : exists o, c = JObj o) by (destruct c; try discriminate Hver; eexists; reflexivity).
  destruct Hc as [o Hc].
  assert (Hit : dyn_iter c = Ok (map JStr (content_keys c))) by (subst c; cbn [dyn_iter content_keys]; rewrite map_map; reflexivity).
  rewrite Hit. cbn [bind]. rewrite subset_eq. clear Hit Hver.
  destruct (subsetb req (content_keys c)); [|reflexivity]. cbn [negb].
  unfold affine_dyn, K_affine. change dyn_getitem with getitem.
  destruct (getitem c _) as [a|]; [|reflexivity]. cbn [bind].
  destruct (np_shape a) as [ash|]; [|reflexivity]. cbn [bind]. rewrite nats_eqb_eq'.
  destruct (nats_eqb ash _); [|reflexivity]. cbn [negb].
  unfold slice_dim_dyn, K_slice_dim. change dyn_getitem with getitem. rewrite bind_ret.
  destruct (getitem c _) as [sd|]; [|reflexivity]. cbn [bind]. cbv zeta.
  rewrite slice_block.
  destruct (check_slice_dim sd) as [[]|]; [|reflexivity]. cbn [bind].
  rewrite shape_dyn_eq. destruct (shape_of c) as [sh|]; [|reflexivity]. cbn [bind].
  destruct (negb _); [reflexivity|].
  rewrite get_valid_classes_dyn_eq. destruct (get_valid_classes c) as [vc|] eqn:Hvc; [|reflexivity]. cbn [bind]. cbv zeta.
  pose proof (valid_sub c vc Hvc) as Hsub.
  assert (Hent : forall cl, In cl vc -> class_entry_ok c cl = true).
  { intros cl Hin. unfold class_entries_ok in Hok. rewrite forallb_forall in Hok. apply Hok, Hsub, Hin. }
  (* first loop *)
  rewrite (py_for_forM _ _ (check_class c)).
  2:{ intros [base sub] _. unfold check_class. cbn [fst snd]. rewrite !dyn_contains_eq.
      destruct (py_contains c base) as [hb|]; [|reflexivity]. cbn [bind].
      destruct hb; [|reflexivity]. cbn [negb]. change dyn_getitem with getitem.
      destruct (getitem c base) as [b|] eqn:Hb; [|reflexivity]. cbn [bind]. rewrite dyn_contains_eq.
      destruct (py_contains b sub) as [hs|]; [|reflexivity]. cbn [bind].
      destruct hs; [|reflexivity]. cbn [negb].
      unfold get_class_dict_dyn. change dyn_getitem with getitem. cbv iota beta. rewrite Hb. cbn [bind]. rewrite bind_ret.
      destruct (getitem b sub) as [cm|]; [|reflexivity]. cbn [bind]. cbv zeta.
      rewrite get_multiplicity_dyn_eq.
      destruct (get_multiplicity c (base, sub)) as [m|]; [|reflexivity]. cbn [bind]. cbv zeta.
      change (Z.of_nat 0) with 0%Z. change (Z.of_nat 1) with 1%Z. change dyn_len with py_len.
      destruct (m =? 0)%Z eqn:Em.
      - apply Z.eqb_eq in Em. subst m. destruct (py_len cm) as [n|]; [|reflexivity]. cbn [bind].
        destruct (Nat.eqb n 0); reflexivity.
      - cbn [bind]. destruct (1 <? m)%Z; [|reflexivity].
        destruct cm; try reflexivity. cbn [dyn_items bind].
        rewrite (check_vals_loop l m); [|intros [k v]; reflexivity].
        destruct (check_vals (map snd l) m) as [[]|]; reflexivity. }
  destruct (forM_ (check_class c) vc) as [[]|]; [|reflexivity]. cbn [bind].
  (* second loop *)
  unfold check_unique.
  rewrite (py_for_forM _ _ (fun cl => uniq_inner c cl vc)).
  2:{ intros cl Hcl.
      rewrite (uniq_inner_loop c cl vc).
      - destruct (uniq_inner c cl vc) as [[]|]; reflexivity.
      - intros o' Ho. change (py_pair_eqb str_eqb str_eqb cl o') with (cname_eqb cl o').
        destruct (cname_eqb cl o'); [reflexivity|].
        rewrite (keys_rel' c cl _ (Hent cl Hcl)).
        destruct (class_keys c cl) as [k1|]; [|reflexivity]. cbn [bind].
        rewrite (keys_rel' c o' _ (Hent o' Ho)).
        destruct (class_keys c o') as [k2|]; [|reflexivity]. cbn [bind]. cbv zeta.
        rewrite inter_eq. destruct (intersects k1 k2); reflexivity. }
  destruct (forM_ _ vc) as [[]|]; reflexivity.
Qed.
