(** C10: the statements of Props/C10.v assembled from the lemmas of Proofs*.v. *)
From Coq Require Import List Bool ZArith NArith QArith.
From DV Require Import Common.Res Common.Str Common.Jv Generated.T_content
  Content.PyVal Content.Model Content.Spec Content.ProofsClasses Content.ProofsMain
  Content.ProofsCorrupt Content.ProofsOutside.
Import ListNotations.
Open Scope Z_scope.

Lemma corruptions_thm :
  forall (o o' : obj) (k : ckind),
    valid_spec (JObj o) = true -> corrupts k o o' ->
    holds (broken_rule k) o' = false /\
    (wf_domain (JObj o') = true -> check_valid (JObj o') <> Ok tt).
Proof.
  intros o o' k Hv Hc. pose proof (corruption_breaks_rule o o' k Hv Hc) as Hb.
  split; [exact Hb | intros Hwf; exact (broken_rule_rejected o' _ Hb Hwf)].
Qed.

Lemma doubles_thm :
  (forall c, wf_domain c = true -> valid_spec c = false -> check_valid c <> Ok tt) /\
  (forall (o1 o2 : obj) (r : rule),
     holds r o1 = false -> same_fields (reads r) o1 o2 ->
     holds r o2 = false /\ (wf_domain (JObj o2) = true -> check_valid (JObj o2) <> Ok tt)).
Proof.
  split.
  - intros c Hwf Hs Hok. apply (check_valid_iff_spec c Hwf) in Hok. congruence.
  - intros o1 o2 r Hb Hs.
    assert (Hb2 : holds r o2 = false) by (rewrite <- (holds_local r o1 o2 Hs); exact Hb).
    split; [exact Hb2 | intros Hwf; exact (broken_rule_rejected o2 r Hb2 Hwf)].
Qed.

Lemma reject_outside_thm :
  (forall c e, check_valid c = Err e -> check_valid c <> Ok tt) /\
  (forall c, is_dict c = false -> check_valid c = Err EType) /\
  (forall o, jassoc K_version o = None -> check_valid (JObj o) = Err EKey) /\
  (forall o v, jassoc K_version o = Some v -> version_fields v = None ->
               check_valid (JObj o) = Err EKey \/ check_valid (JObj o) = Err EType).
Proof.
  exact (conj err_is_rejection (conj not_dict_rejected (conj no_version_rejected unknown_version_rejected))).
Qed.

Lemma accepted_meets_rules c :
  check_valid c = Ok tt -> wf_domain c = true -> valid_spec c = true.
Proof. intros H Hwf. apply (check_valid_iff_spec c Hwf). exact H. Qed.

Lemma gate_thm :
  (forall (parse : str -> res jv) s c,
     from_json parse s = Ok c ->
     parse s = Ok c /\ check_valid c = Ok tt /\ (wf_domain c = true -> valid_spec c = true)) /\
  (forall c c', from_runtime_repr c = Ok c' ->
     c' = c /\ check_valid c = Ok tt /\ (wf_domain c = true -> valid_spec c = true)) /\
  (forall exts make_empty empty i c,
     wrapper_init exts make_empty empty = Ok (i, c) ->
     check_valid c = Ok tt /\ (wf_domain c = true -> valid_spec c = true) /\
     match i with
     | Some n => nth_error exts n = Some (dcm_meta_ecode, c)
     | None => make_empty = true /\ c = empty
     end) /\
  (forall exts empty,
     (forall code c, In (code, c) exts -> code = dcm_meta_ecode -> check_valid c = Err EInvalidExt) ->
     wrapper_init exts false empty = Err EMissingExt).
Proof.
  split; [|split; [|split]].
  - intros parse s c H. destruct (from_json_gate parse s c H) as [H1 H2].
    split; [exact H1 | split; [exact H2 | exact (accepted_meets_rules c H2)]].
  - intros c c' H. destruct (from_runtime_repr_gate c c' H) as [H1 H2].
    split; [exact H1 | split; [exact H2 | exact (accepted_meets_rules c H2)]].
  - intros exts me empty i c H. destruct (wrapper_gate exts me empty i c H) as [H1 H2].
    split; [exact H1 | split; [exact (accepted_meets_rules c H1) | exact H2]].
  - exact wrapper_missing.
Qed.

Lemma multiplicity_thm :
  forall (o : obj) (zs : list Z) (sd : option nat),
    jassoc K_shape o = Some (JArr (map JInt zs)) ->
    (3 <= length zs)%nat -> (length zs <= 5)%nat ->
    slice_dim_value o = Some sd ->
    get_valid_classes (JObj o) = Ok (valid_classes_spec (map JInt zs)) /\
    forall cl b s, In cl (valid_classes_spec (map JInt zs)) -> decode cl = Some (b, s) ->
                   get_multiplicity (JObj o) cl = Ok (n_expected (map JInt zs) sd b s).
Proof.
  intros o zs sd Hs H3 H5 Hsd. pose proof (shape_form_of_len zs H3 H5) as Hf.
  split; [exact (gvc_spec o zs Hs Hf) | intros cl b s Hin Hd; exact (mult_spec o zs sd cl b s Hs Hf Hsd Hin Hd)].
Qed.
