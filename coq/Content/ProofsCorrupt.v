(** C10 proofs, part 5: every corruption kind of the property breaks a rule (and is rejected),
    the rules are local (double corruptions), and the two gates only let checked content through. *)
From Coq Require Import List Bool ZArith NArith QArith Lia.
From DV Require Import Common.Res Common.Str Common.Jv Generated.T_content
  Content.PyVal Content.Model Content.Spec Content.ProofsBasic Content.ProofsClasses
  Content.ProofsLoops Content.ProofsMain.
Import ListNotations.
Open Scope Z_scope.

(** ** Editing a dict *)

(** [del d[k]] *)
Fixpoint jdel (k : str) (o : obj) : obj :=
  match o with
  | [] => []
  | (k', v) :: r => if str_eqb k k' then jdel k r else (k', v) :: jdel k r
  end.

(** [d[k] = v]: in place when the key exists, appended otherwise *)
Fixpoint jset (k : str) (v : jv) (o : obj) : obj :=
  match o with
  | [] => [(k, v)]
  | (k', v') :: r => if str_eqb k k' then (k, v) :: r else (k', v') :: jset k v r
  end.

Lemma str_eqb_sym a b : str_eqb a b = str_eqb b a.
Proof.
  destruct (str_eqb a b) eqn:E1, (str_eqb b a) eqn:E2; try reflexivity.
  - apply str_eqb_eq in E1. subst. rewrite str_eqb_refl in E2. discriminate.
  - apply str_eqb_eq in E2. subst. rewrite str_eqb_refl in E1. discriminate.
Qed.

Lemma jassoc_jdel k k' o :
  jassoc k' (jdel k o) = if str_eqb k' k then None else jassoc k' o.
Proof.
  induction o as [|[k0 v0] o IH]; simpl.
  - destruct (str_eqb k' k); reflexivity.
  - destruct (str_eqb k k0) eqn:E.
    + apply str_eqb_eq in E. subst k0. rewrite IH. destruct (str_eqb k' k); reflexivity.
    + simpl. destruct (str_eqb k' k0) eqn:E3.
      * apply str_eqb_eq in E3. subst k0. rewrite str_eqb_sym, E. reflexivity.
      * exact IH.
Qed.

Lemma jassoc_jset k v k' o :
  jassoc k' (jset k v o) = if str_eqb k' k then Some v else jassoc k' o.
Proof.
  induction o as [|[k0 v0] o IH]; simpl.
  - destruct (str_eqb k' k); reflexivity.
  - destruct (str_eqb k k0) eqn:E.
    + apply str_eqb_eq in E. subst k0. simpl. destruct (str_eqb k' k); reflexivity.
    + simpl. destruct (str_eqb k' k0) eqn:E3.
      * apply str_eqb_eq in E3. subst k0. rewrite str_eqb_sym, E. reflexivity.
      * exact IH.
Qed.

Lemma jassoc_in k (o : obj) v : jassoc k o = Some v -> In (k, v) o.
Proof.
  induction o as [|[k0 v0] o IH]; simpl; [discriminate|].
  destruct (str_eqb k k0) eqn:E.
  - apply str_eqb_eq in E. subst. intros H. inversion H. left. reflexivity.
  - intros H. right. apply IH. exact H.
Qed.

Lemma in_jset k v (o : obj) : In (k, v) (jset k v o).
Proof.
  induction o as [|[k0 v0] o IH]; simpl; [left; reflexivity|].
  destruct (str_eqb k k0); [left; reflexivity | right; exact IH].
Qed.

(** Replace the dictionary of one classification. *)
Definition cls_set (cl : cname) (d : obj) (o : obj) : obj :=
  match jassoc (fst cl) o with
  | Some (JObj bo) => jset (fst cl) (JObj (jset (snd cl) (JObj d) bo)) o
  | _ => o
  end.

Lemma class_dict_cls_set_same (o : obj) cl d0 d :
  class_dict o cl = Some d0 -> class_dict (cls_set cl d o) cl = Some d.
Proof.
  unfold class_dict, cls_set.
  destruct (jassoc (fst cl) o) as [[| | | | | | bo]|] eqn:Eb; try discriminate. intros _.
  rewrite jassoc_jset, str_eqb_refl, jassoc_jset, str_eqb_refl. reflexivity.
Qed.

Lemma class_dict_cls_set_other (o : obj) cl cl' d0 d :
  cl' <> cl -> class_dict o cl = Some d0 ->
  class_dict (cls_set cl d o) cl' = class_dict o cl'.
Proof.
  intros Hne. unfold class_dict, cls_set.
  destruct (jassoc (fst cl) o) as [[| | | | | | bo]|] eqn:Eb; try discriminate. intros _.
  rewrite jassoc_jset. destruct (str_eqb (fst cl') (fst cl)) eqn:E1.
  - apply str_eqb_eq in E1. rewrite E1, Eb. rewrite jassoc_jset.
    destruct (str_eqb (snd cl') (snd cl)) eqn:E2; [|reflexivity].
    apply str_eqb_eq in E2. exfalso. apply Hne. destruct cl, cl'; simpl in *; congruence.
  - reflexivity.
Qed.

Lemma top_cls_set (o : obj) cl d k :
  str_eqb k (fst cl) = false -> jassoc k (cls_set cl d o) = jassoc k o.
Proof.
  intros H. unfold cls_set.
  destruct (jassoc (fst cl) o) as [[| | | | | | bo]|]; try reflexivity.
  rewrite jassoc_jset, H. reflexivity.
Qed.

(** ** Table facts: the field names the rules read are pairwise different *)

Lemma class_base_not_geom (cl : cname) :
  In cl classifications ->
  str_eqb K_shape (fst cl) = false /\ str_eqb K_slice_dim (fst cl) = false.
Proof.
  assert (H : forallb (fun cl : cname => negb (str_eqb K_shape (fst cl)) && negb (str_eqb K_slice_dim (fst cl)))
                      classifications = true) by (vm_compute; reflexivity).
  rewrite forallb_forall in H. intros Hin. specialize (H cl Hin).
  apply andb_true_iff in H. destruct H as [H1 H2].
  apply negb_true_iff in H1, H2. auto.
Qed.

Lemma geom_names_differ :
  str_eqb K_shape K_slice_dim = false /\ str_eqb K_slice_dim K_shape = false.
Proof. split; reflexivity. Qed.

(** ** Locality of the rules *)

Lemma forallb_ext_in {A} (f g : A -> bool) l :
  (forall x, In x l -> f x = g x) -> forallb f l = forallb g l.
Proof.
  induction l as [|x l IH]; simpl; intros H; [reflexivity|].
  rewrite (H x (or_introl eq_refl)), IH; [reflexivity|]. intros y Hy. apply H. right. exact Hy.
Qed.

Lemma flat_map_ext_in {A B} (f g : A -> list B) l :
  (forall x, In x l -> f x = g x) -> flat_map f l = flat_map g l.
Proof.
  induction l as [|x l IH]; simpl; intros H; [reflexivity|].
  rewrite (H x (or_introl eq_refl)), IH; [reflexivity|]. intros y Hy. apply H. right. exact Hy.
Qed.

Definition same_fields (ks : list str) (o o' : obj) : Prop :=
  forall k, In k ks -> jassoc k o = jassoc k o'.

Lemma class_dict_same (o o' : obj) cl :
  jassoc (fst cl) o = jassoc (fst cl) o' -> class_dict o cl = class_dict o' cl.
Proof. unfold class_dict. intros ->. reflexivity. Qed.

Lemma version_fields_incl v req :
  version_fields v = Some req -> incl req all_required_names.
Proof.
  unfold version_fields.
  match goal with |- context [find ?f ?l] => destruct (find f l) as [e|] eqn:E end; [|discriminate].
  intros H. cbn [option_map] in H. inversion H; subst. apply find_some in E. destruct E as [E _].
  intros k Hk. unfold all_required_names. apply in_flat_map. exists e. auto.
Qed.

Lemma base_in_names cl : In cl classifications -> In (fst cl) base_names.
Proof. unfold base_names. intros H. apply in_map. exact H. Qed.

Lemma holds_local r (o o' : obj) :
  same_fields (reads r) o o' -> holds r o = holds r o'.
Proof.
  intros H.
  assert (Hcd : forall ks, incl (K_shape :: base_names) ks -> same_fields ks o o' ->
                           shape_value o = shape_value o' /\
                           forall l cl, In cl (valid_classes_spec l) -> class_dict o cl = class_dict o' cl).
  { intros ks Hi Hs. split.
    - unfold shape_value. rewrite (Hs K_shape); [reflexivity | apply Hi; left; reflexivity].
    - intros l cl Hin. apply class_dict_same. apply Hs. apply Hi. right.
      apply base_in_names. apply (valid_classes_incl _ _ Hin). }
  assert (Hsd : forall ks, In K_slice_dim ks -> same_fields ks o o' ->
                           slice_dim_value o = slice_dim_value o').
  { intros ks Hi Hs. unfold slice_dim_value. rewrite (Hs K_slice_dim Hi). reflexivity. }
  destruct r; cbn [holds reads] in *.
  - (* required *)
    unfold rule_required. rewrite <- (H K_version (or_introl eq_refl)).
    destruct (jassoc K_version o) as [v|]; [|reflexivity].
    destruct (version_fields v) as [req|] eqn:E; [|reflexivity].
    apply forallb_ext_in. intros k Hk. unfold has_key.
    rewrite (H k); [reflexivity|]. right. apply (version_fields_incl _ _ E). exact Hk.
  - unfold rule_affine. rewrite (H K_affine (or_introl eq_refl)). reflexivity.
  - unfold rule_slice_dim. rewrite (Hsd [K_slice_dim] (or_introl eq_refl) H). reflexivity.
  - unfold rule_ndim, shape_value. rewrite (H K_shape (or_introl eq_refl)). reflexivity.
  - destruct (Hcd _ (incl_refl _) H) as [Hs Hc].
    unfold rule_class_dicts. rewrite <- Hs. destruct (shape_value o) as [l|]; [|reflexivity].
    apply forallb_ext_in. intros cl Hin. rewrite (Hc l cl Hin). reflexivity.
  - destruct (Hcd (K_shape :: K_slice_dim :: base_names)) as [Hs Hc]; [|exact H|].
    { intros k [<-|Hk]; [left; reflexivity | right; right; exact Hk]. }
    unfold rule_counts. rewrite <- Hs, <- (Hsd (K_shape :: K_slice_dim :: base_names) (or_intror (or_introl eq_refl)) H).
    destruct (shape_value o) as [l|]; [|reflexivity].
    destruct (slice_dim_value o) as [sd|]; [|reflexivity].
    apply forallb_ext_in. intros cl Hin. rewrite (Hc l cl Hin). reflexivity.
  - destruct (Hcd (K_shape :: K_slice_dim :: base_names)) as [Hs Hc]; [|exact H|].
    { intros k [<-|Hk]; [left; reflexivity | right; right; exact Hk]. }
    unfold rule_no_slice_data. rewrite <- Hs, <- (Hsd (K_shape :: K_slice_dim :: base_names) (or_intror (or_introl eq_refl)) H).
    destruct (shape_value o) as [l|]; [|reflexivity].
    destruct (slice_dim_value o) as [[d|]|]; try reflexivity.
    apply forallb_ext_in. intros cl Hin. rewrite (Hc l cl Hin). reflexivity.
  - destruct (Hcd _ (incl_refl _) H) as [Hs Hc].
    unfold rule_unique. rewrite <- Hs. destruct (shape_value o) as [l|]; [|reflexivity].
    assert (Hk : forall cl, In cl (valid_classes_spec l) -> class_keys_spec o cl = class_keys_spec o' cl).
    { intros cl Hin. unfold class_keys_spec. rewrite (Hc l cl Hin). reflexivity. }
    rewrite (flat_map_ext_in _ _ _ Hk).
    apply forallb_ext_in. intros k _. unfold holders.
    rewrite (filter_ext_in _ (fun cl => existsb (str_eqb k) (class_keys_spec o' cl))); [reflexivity|].
    intros cl Hin. rewrite (Hk cl Hin). reflexivity.
Qed.

(** A broken rule means rejection (inside the domain). *)
Lemma broken_rule_rejected (o : obj) r :
  holds r o = false -> wf_domain (JObj o) = true -> check_valid (JObj o) <> Ok tt.
Proof.
  intros Hb Hwf Hok. apply (check_valid_iff_spec _ Hwf) in Hok.
  apply valid_spec_holds in Hok. destruct Hok as [o' [Heq Hall]]. inversion Heq; subst o'.
  rewrite (Hall r) in Hb. discriminate.
Qed.

(** ** The corruption kinds of the property *)

Inductive ckind :=
| KDropField | KDropBase | KDropSub | KChangeValueCount | KDupKey
| KSliceDim | KShapeLen | KShapeEntry | KAffine | KVersion.

Definition broken_rule (k : ckind) : rule :=
  match k with
  | KDropField => RRequired
  | KDropBase | KDropSub => RClassDicts
  | KChangeValueCount => RCounts
  | KDupKey => RUnique
  | KSliceDim => RSliceDim
  | KShapeLen => RNdim
  | KShapeEntry => RCounts
  | KAffine => RAffine
  | KVersion => RRequired
  end.

Definition bad_slice_dim (v : jv) : bool :=
  match v with
  | JNull => false
  | _ => match as_int v with
         | Some 0 | Some 1 | Some 2 => false
         | _ => true
         end
  end.

(** [corrupts k o o']: o' is o after one corruption of kind k that breaks a rule. *)
Inductive corrupts : ckind -> obj -> obj -> Prop :=
| C_drop_field o k ver req :
    (* drop a required top-level field *)
    jassoc K_version o = Some ver -> version_fields ver = Some req -> In k req ->
    corrupts KDropField o (jdel k o)
| C_drop_base o l cl :
    (* drop the base dictionary of a classification that the shape requires *)
    shape_value o = Some l -> In cl (valid_classes_spec l) ->
    corrupts KDropBase o (jdel (fst cl) o)
| C_drop_sub o l cl bo :
    (* drop the sub-dictionary of a classification that the shape requires *)
    shape_value o = Some l -> In cl (valid_classes_spec l) ->
    jassoc (fst cl) o = Some (JObj bo) ->
    corrupts KDropSub o (jset (fst cl) (JObj (jdel (snd cl) bo)) o)
| C_value_count o l sd cl b s d k vals vals' :
    (* add or remove values of a key of a varying classification *)
    shape_value o = Some l -> slice_dim_value o = Some sd ->
    In cl (valid_classes_spec l) -> decode cl = Some (b, s) -> 1 < n_expected l sd b s ->
    class_dict o cl = Some d -> jassoc k d = Some (JArr vals) ->
    length vals' <> length vals ->
    corrupts KChangeValueCount o (cls_set cl (jset k (JArr vals') d) o)
| C_dup_key o l cl1 cl2 d1 d2 k v :
    (* copy a key of one valid classification into another one *)
    shape_value o = Some l ->
    In cl1 (valid_classes_spec l) -> In cl2 (valid_classes_spec l) -> cl1 <> cl2 ->
    class_dict o cl1 = Some d1 -> has_key k d1 = true -> class_dict o cl2 = Some d2 ->
    corrupts KDupKey o (cls_set cl2 (jset k v d2) o)
| C_slice_dim o v :
    (* slice dim changed to an illegal value *)
    bad_slice_dim v = true ->
    corrupts KSliceDim o (jset K_slice_dim v o)
| C_shape_len o l' :
    (* shape shortened below 3 or extended beyond 5 entries *)
    (length l' < 3 \/ 5 < length l')%nat ->
    corrupts KShapeLen o (jset K_shape (JArr l') o)
| C_shape_entry o l l' sd cl b s d kv :
    (* a shape entry changed so that the multiplicity of a classification holding keys changes *)
    shape_value o = Some l -> slice_dim_value o = Some sd ->
    In cl (valid_classes_spec l) -> In cl (valid_classes_spec l') -> decode cl = Some (b, s) ->
    1 < n_expected l sd b s -> 1 < n_expected l' sd b s ->
    n_expected l' sd b s <> n_expected l sd b s ->
    class_dict o cl = Some d -> In kv d ->
    corrupts KShapeEntry o (jset K_shape (JArr l') o)
| C_affine o a' :
    (* affine replaced by something that is not 4x4 *)
    is_4x4 a' = false ->
    corrupts KAffine o (jset K_affine a' o)
| C_version o v' :
    (* version changed to an unknown one, or to one that requires a field the content lacks *)
    match version_fields v' with
    | None => True
    | Some req' => exists k, In k req' /\ str_eqb k K_version = false /\ has_key k o = false
    end ->
    corrupts KVersion o (jset K_version v' o).

Lemma shape_value_top (o o' : obj) :
  jassoc K_shape o' = jassoc K_shape o -> shape_value o' = shape_value o.
Proof. unfold shape_value. intros ->. reflexivity. Qed.

Lemma slice_dim_value_top (o o' : obj) :
  jassoc K_slice_dim o' = jassoc K_slice_dim o -> slice_dim_value o' = slice_dim_value o.
Proof. unfold slice_dim_value. intros ->. reflexivity. Qed.

Lemma forallb_false_in {A} (f : A -> bool) l x : In x l -> f x = false -> forallb f l = false.
Proof.
  intros Hin Hf. destruct (forallb f l) eqn:E; [|reflexivity].
  rewrite forallb_forall in E. rewrite (E x Hin) in Hf. discriminate.
Qed.

Lemma value_count_unique m m' kv :
  value_count_ok m kv = true -> m' <> m -> value_count_ok m' kv = false.
Proof.
  unfold value_count_ok. destruct (n_values (snd kv)) as [n|]; [|discriminate].
  intros H Hne. apply Z.eqb_eq in H. apply Z.eqb_neq. congruence.
Qed.

Theorem corruption_breaks_rule (o o' : obj) k :
  valid_spec (JObj o) = true -> corrupts k o o' -> holds (broken_rule k) o' = false.
Proof.
  intros Hv Hc. apply valid_spec_rules in Hv.
  destruct Hv as (R1 & R2 & R3 & R4 & R5 & R6 & R7 & R8).
  destruct Hc; cbn [broken_rule holds].
  - (* drop a required field *)
    unfold rule_required. rewrite jassoc_jdel.
    destruct (str_eqb K_version k) eqn:E; [reflexivity|].
    rewrite H, H0. apply (forallb_false_in _ _ k H1).
    unfold has_key. rewrite jassoc_jdel, str_eqb_refl. reflexivity.
  - (* drop a base dictionary *)
    destruct (class_base_not_geom cl (valid_classes_incl _ _ H0)) as [E1 _].
    unfold rule_class_dicts. rewrite (shape_value_top o) by (rewrite jassoc_jdel, E1; reflexivity).
    rewrite H. apply (forallb_false_in _ _ cl H0).
    unfold class_dict. rewrite jassoc_jdel, str_eqb_refl. reflexivity.
  - (* drop a sub-dictionary *)
    destruct (class_base_not_geom cl (valid_classes_incl _ _ H0)) as [E1 _].
    unfold rule_class_dicts. rewrite (shape_value_top o) by (rewrite jassoc_jset, E1; reflexivity).
    rewrite H. apply (forallb_false_in _ _ cl H0).
    unfold class_dict. rewrite jassoc_jset, str_eqb_refl, jassoc_jdel, str_eqb_refl. reflexivity.
  - (* number of values of a varying key *)
    destruct (class_base_not_geom cl (valid_classes_incl _ _ H1)) as [E1 E2].
    unfold rule_counts.
    rewrite (shape_value_top o) by (apply top_cls_set; exact E1).
    rewrite (slice_dim_value_top o) by (apply top_cls_set; exact E2).
    rewrite H, H0. apply (forallb_false_in _ _ cl H1).
    rewrite H2, (class_dict_cls_set_same _ _ _ _ H4).
    cbv zeta. apply Z.ltb_lt in H3. rewrite H3.
    apply (forallb_false_in _ _ (k, JArr vals') (in_jset _ _ _)).
    (* the old list had the prescribed length *)
    unfold rule_counts in R6. rewrite H, H0 in R6. rewrite forallb_forall in R6.
    specialize (R6 cl H1). rewrite H2, H4 in R6. cbv zeta in R6. rewrite H3 in R6.
    rewrite forallb_forall in R6. specialize (R6 _ (jassoc_in _ _ _ H5)).
    unfold value_count_ok, n_values in *. simpl in *.
    apply Z.eqb_eq in R6. apply Z.eqb_neq. lia.
  - (* a key in two classifications *)
    destruct (class_base_not_geom cl2 (valid_classes_incl _ _ H1)) as [E1 _].
    destruct (rule_unique (cls_set cl2 (jset k v d2) o)) eqn:E; [|reflexivity]. exfalso.
    unfold rule_unique in E.
    rewrite (shape_value_top o) in E by (apply top_cls_set; exact E1). rewrite H in E.
    pose proof (proj2 (unique_iff _ _ (valid_classes_nodup l)) E) as E'. clear E. rename E' into E.
    specialize (E cl1 cl2 H0 H1 H2). unfold disjoint_pair in E.
    assert (Hi : intersects (class_keys_spec (cls_set cl2 (jset k v d2) o) cl1)
                            (class_keys_spec (cls_set cl2 (jset k v d2) o) cl2) = true); [|congruence].
    apply intersects_true. exists k. split.
    + unfold class_keys_spec. rewrite (class_dict_cls_set_other _ _ _ _ _ H2 H5), H3.
      apply has_key_in. exact H4.
    + unfold class_keys_spec. rewrite (class_dict_cls_set_same _ _ _ _ H5).
      change k with (fst (k, v)). apply in_map. apply in_jset.
  - (* slice dim *)
    unfold rule_slice_dim, slice_dim_value. rewrite jassoc_jset, str_eqb_refl.
    unfold bad_slice_dim in H. destruct v; try discriminate; try reflexivity.
    + destruct b; discriminate.
    + simpl in *. destruct z as [|[p|p|]|p]; try discriminate; try reflexivity;
        destruct p; try discriminate; reflexivity.
  - (* shape length *)
    unfold rule_ndim, shape_value. rewrite jassoc_jset, str_eqb_refl.
    apply andb_false_iff. destruct H; [left; apply Nat.leb_gt | right; apply Nat.leb_gt]; lia.
  - (* shape entry *)
    destruct (class_base_not_geom cl (valid_classes_incl _ _ H1)) as [E1 _].
    destruct geom_names_differ as [_ E3].
    unfold rule_counts.
    assert (Hs' : shape_value (jset K_shape (JArr l') o) = Some l').
    { unfold shape_value. rewrite jassoc_jset, str_eqb_refl. reflexivity. }
    rewrite Hs'. rewrite (slice_dim_value_top o) by (rewrite jassoc_jset, E3; reflexivity).
    rewrite H0. apply (forallb_false_in _ _ cl H2).
    assert (Hcd : class_dict (jset K_shape (JArr l') o) cl = class_dict o cl).
    { apply class_dict_same. rewrite jassoc_jset. rewrite str_eqb_sym, E1. reflexivity. }
    rewrite H3, Hcd, H7. cbv zeta. apply Z.ltb_lt in H5. rewrite H5.
    apply (forallb_false_in _ _ kv H8).
    unfold rule_counts in R6. rewrite H, H0 in R6. rewrite forallb_forall in R6.
    specialize (R6 cl H1). rewrite H3, H7 in R6. cbv zeta in R6.
    apply Z.ltb_lt in H4. rewrite H4 in R6.
    rewrite forallb_forall in R6. specialize (R6 kv H8).
    apply (value_count_unique _ _ _ R6 H6).
  - (* affine *)
    unfold rule_affine. rewrite jassoc_jset, str_eqb_refl. exact H.
  - (* version *)
    unfold rule_required. rewrite jassoc_jset, str_eqb_refl.
    destruct (version_fields v') as [req'|]; [|reflexivity].
    destruct H as [k [Hin [Hne Hk]]]. apply (forallb_false_in _ _ k Hin).
    unfold has_key in *. rewrite jassoc_jset, Hne. exact Hk.
Qed.

(** ** The gates *)

Lemma from_json_gate (parse : str -> res jv) s c :
  from_json parse s = Ok c -> parse s = Ok c /\ check_valid c = Ok tt.
Proof.
  unfold from_json. intros H. apply bind_ok in H. destruct H as [c' [Hp H]].
  apply bind_ok in H. destruct H as [[] [Hc H]]. inversion H; subst. auto.
Qed.

Lemma from_runtime_repr_gate c c' :
  from_runtime_repr c = Ok c' -> c' = c /\ check_valid c = Ok tt.
Proof.
  unfold from_runtime_repr. intros H. apply bind_ok in H. destruct H as [[] [Hc H]].
  inversion H; subst. auto.
Qed.

Lemma screen_ok exts : forall idx found r,
  screen exts idx found = Ok r ->
  r = found \/
  exists n c, r = Some ((idx + n)%nat, c) /\ nth_error exts n = Some (dcm_meta_ecode, c) /\
              check_valid c = Ok tt.
Proof.
  induction exts as [|[code c] exts IH]; intros idx found r H; simpl in H.
  - inversion H. left. reflexivity.
  - destruct (code =? dcm_meta_ecode) eqn:Ec.
    + apply Z.eqb_eq in Ec. subst code.
      destruct (check_valid c) as [[]|e] eqn:Ecv.
      * destruct found as [f|]; [discriminate|].
        apply IH in H. destruct H as [-> | [n [c' [-> [Hn Hc]]]]].
        -- right. exists 0%nat, c. rewrite Nat.add_0_r. auto.
        -- right. exists (S n), c'. rewrite Nat.add_succ_r. auto.
      * destruct e; try discriminate.
        apply IH in H. destruct H as [-> | [n [c' [-> [Hn Hc]]]]]; [left; reflexivity|].
        right. exists (S n), c'. rewrite Nat.add_succ_r. auto.
    + apply IH in H. destruct H as [-> | [n [c' [-> [Hn Hc]]]]]; [left; reflexivity|].
      right. exists (S n), c'. rewrite Nat.add_succ_r. auto.
Qed.

Lemma wrapper_gate exts me empty i c :
  wrapper_init exts me empty = Ok (i, c) ->
  check_valid c = Ok tt /\
  match i with
  | Some n => nth_error exts n = Some (dcm_meta_ecode, c)
  | None => me = true /\ c = empty
  end.
Proof.
  unfold wrapper_init. intros H.
  apply bind_ok in H. destruct H as [f [Hs H]].
  apply bind_ok in H. destruct H as [[i' c'] [Hch H]].
  apply bind_ok in H. destruct H as [[] [Hcv H]]. inversion H; subst i' c'. simpl in Hcv.
  split; [exact Hcv|].
  apply screen_ok in Hs. destruct Hs as [-> | [n [c0 [-> [Hn _]]]]].
  - destruct me; [|discriminate]. inversion Hch. auto.
  - inversion Hch; subst. exact Hn.
Qed.

Lemma screen_all_invalid exts : forall idx,
  (forall code c, In (code, c) exts -> code = dcm_meta_ecode -> check_valid c = Err EInvalidExt) ->
  screen exts idx None = Ok None.
Proof.
  induction exts as [|[code c] exts IH]; intros idx H; simpl; [reflexivity|].
  destruct (code =? dcm_meta_ecode) eqn:Ec.
  - apply Z.eqb_eq in Ec. rewrite (H code c (or_introl eq_refl) Ec).
    apply IH. intros code' c' Hin. apply H. right. exact Hin.
  - apply IH. intros code' c' Hin. apply H. right. exact Hin.
Qed.

Lemma wrapper_missing exts empty :
  (forall code c, In (code, c) exts -> code = dcm_meta_ecode -> check_valid c = Err EInvalidExt) ->
  wrapper_init exts false empty = Err EMissingExt.
Proof.
  intros H. unfold wrapper_init. rewrite (screen_all_invalid exts 0%nat H). reflexivity.
Qed.
