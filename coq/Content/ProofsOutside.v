(** C10 proofs, part 6: explicit rejections that do not go through the rules. *)
From Coq Require Import List Bool ZArith NArith QArith Lia.
From DV Require Import Common.Res Common.Str Common.Jv Generated.T_content
  Content.PyVal Content.Model Content.Spec Content.ProofsBasic.
Import ListNotations.

Definition is_dict (c : jv) : bool := match c with JObj _ => true | _ => false end.

Lemma not_dict_rejected c : is_dict c = false -> check_valid c = Err EType.
Proof. destruct c; try discriminate; reflexivity. Qed.

Lemma no_version_rejected (o : obj) :
  jassoc K_version o = None -> check_valid (JObj o) = Err EKey.
Proof. intros H. unfold check_valid, getitem. rewrite H. reflexivity. Qed.

Lemma unknown_version_rejected (o : obj) v :
  jassoc K_version o = Some v -> version_fields v = None ->
  check_valid (JObj o) = Err EKey \/ check_valid (JObj o) = Err EType.
Proof.
  intros H Hv. unfold check_valid, getitem. rewrite H. cbn [bind].
  unfold version_fields in Hv. unfold req_keys.
  match type of Hv with context [find ?f ?l] => destruct (find f l) as [e|] eqn:E end; [discriminate|].
  destruct v; cbn [bind]; auto.
Qed.

Lemma err_is_rejection c e : check_valid c = Err e -> check_valid c <> Ok tt.
Proof. intros H. rewrite H. discriminate. Qed.
